import TamocV.Model.Particle17
open TamocV.Proto
def main : IO Unit := run TamocV.Model.Particle17.dispatch
