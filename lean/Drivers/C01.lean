import TamocV.Model.Eos
open TamocV.Proto
def main : IO Unit := run TamocV.Model.Eos.dispatch
