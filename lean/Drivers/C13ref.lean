import TamocV.Model.EOS80
open TamocV.Proto
def main : IO Unit := run TamocV.Model.EOS80.dispatch
