import TamocV.Model.SaveLoad
open TamocV.Proto
def main : IO Unit := run TamocV.Model.SaveLoad.dispatch
