import TamocV.Model.Particle17
import TamocV.Model.Sbm
open TamocV.Proto
def main : IO Unit := run (orElse TamocV.Model.Sbm.dispatch TamocV.Model.Particle17.dispatch)
