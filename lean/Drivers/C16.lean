import TamocV.Model.Psf
open TamocV.Proto
def main : IO Unit := run TamocV.Model.Psf.dispatch
