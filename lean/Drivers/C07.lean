import TamocV.Gen.SeawaterPy
import TamocV.Model.Profile
open TamocV.Proto
def main : IO Unit := run (TamocV.Model.Profile.dispatch (TamocV.Gen.SeawaterPy.density (α := Float)))
