import TamocV.Model.Particle09
import TamocV.Model.Blowout
open TamocV.Proto
def main : IO Unit := run (orElse TamocV.Model.Purity19.dispatch
  (orElse TamocV.Model.Blowout.dispatch TamocV.Model.Particle09.dispatch))
