import TamocV.Gen.PhysPy
import TamocV.Gen.PhysF
import TamocV.Gen.EosPy
import TamocV.Gen.EosF
import TamocV.Gen.EosFullPy
import TamocV.Gen.EosFullF
open TamocV.Proto
def main : IO Unit := run (orElse TamocV.Gen.PhysPy.dispatch (orElse TamocV.Gen.PhysF.dispatch
  (orElse TamocV.Gen.EosPy.dispatch (orElse TamocV.Gen.EosF.dispatch
  (orElse TamocV.Gen.EosFullPy.dispatch TamocV.Gen.EosFullF.dispatch)))))
