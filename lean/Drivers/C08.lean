import TamocV.Gen.PhysPy
import TamocV.Gen.PhysF
import TamocV.Gen.EosPy
import TamocV.Gen.EosF
open TamocV.Proto
def main : IO Unit := run (orElse TamocV.Gen.PhysPy.dispatch (orElse TamocV.Gen.PhysF.dispatch
  (orElse TamocV.Gen.EosPy.dispatch TamocV.Gen.EosF.dispatch)))
