import TamocV.Model.Release
open TamocV.Proto
def main : IO Unit := run TamocV.Model.Release.dispatch
