import TamocV.Model.Flash
open TamocV.Proto
def main : IO Unit := run TamocV.Model.Flash.dispatch
