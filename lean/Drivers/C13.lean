import TamocV.Gen.SeawaterPy
import TamocV.Model.EOS80
open TamocV.Proto
def main : IO Unit := run (orElse TamocV.Gen.SeawaterPy.dispatch TamocV.Model.EOS80.dispatch)
