import TamocV.Model.Smp
open TamocV.Proto
def main : IO Unit := run TamocV.Model.Smp.dispatch
