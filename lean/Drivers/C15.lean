import TamocV.Model.Convert
open TamocV.Proto
def main : IO Unit := run TamocV.Model.Convert.dispatch
