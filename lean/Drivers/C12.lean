import TamocV.Model.Oil
open TamocV.Proto
def main : IO Unit := run TamocV.Model.Oil.dispatch
