import TamocV.Model.Particle09
open TamocV.Proto
def main : IO Unit := run TamocV.Model.Particle09.dispatch
