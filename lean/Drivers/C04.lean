import TamocV.Model.Lmp
open TamocV.Proto
def main : IO Unit := run TamocV.Model.Lmp.dispatch
