/-
  TamocV.Model.Lmp — hand model of the Lagrangian (bent) plume right-hand side and of the
  integration-loop control in /repo/tamoc/lmp.py.

  PART 1 (C03)  `derivs env ps` : transcription of `lmp.derivs` (l.20-184), slot by slot, in
  the order of the running index `idx`, with the same operation order as the NumPy
  expressions.  `env` holds every value the assembly READS from closures (`q1_local.*`,
  `entrainment`, `track_particles`, `ModelParams`, `seawater.cp()`); a `Particle` record holds
  exactly the fields `derivs` reads from `particles[i]`, `particles[i].particle`, `dtp_dt[i]`,
  `up[i,1:3]` and the two state entries `q[idx]` of the (n,m) position slots.

  PART 2 (C03/C04)  the linear read-out functionals that mirror the index arithmetic of
  `bent_plume_model.LagElement.update` (`idx += particle.nc`, `+1`, `+1`, `+3`).

  PART 3 (C04)  `correctTemperature`, `correctParticleTracking`, the stop tests / counters /
  iteration cap of `lmp.calculate` (l.187-327), and an abstract integrator step
  (affine combination of stored states and right-hand-side evaluations).

  Generic in `[Num α]`; imports only Num and Proto (driver start-up time).
-/
import TamocV.Num
import TamocV.Proto

namespace TamocV.Model.Lmp
variable {α : Type} [Num α]

/-! ## PART 1 — `lmp.derivs` -/

/-- what `derivs` reads of one entry of `particles` (after `q1_local.update` and
    `track_particles` have run) -/
structure Particle (α : Type) where
  integrate : Bool          -- particles[i].integrate
  issoluble : Bool          -- particles[i].particle.issoluble
  nc : Nat                  -- particles[i].particle.nc
  A : α                     -- particles[i].A
  nbe : α                   -- particles[i].nbe
  rho_p : α
  cp : α
  beta_T : α
  T : α
  dtp : α                   -- dtp_dt[i]           (track_particles)
  up1 : α                   -- up[i,1]             (track_particles)
  up2 : α                   -- up[i,2]
  qn : α                    -- q[idx] read at the n-position slot
  qm : α                    -- q[idx] read at the m-position slot
  beta : List α             -- particles[i].beta      (soluble: length nchems)
  Cs : List α               -- particles[i].Cs
  k_bio : List α            -- particles[i].k_bio     (insoluble: one entry)
  m : List α                -- particles[i].m
  negdH : List α            -- particles[i].particle.neg_dH_solR
  Mw : List α               -- particles[i].particle.M

/-- closure values the assembly consumes -/
structure Env (α : Type) where
  md : α                    -- entrainment(q0_local, q1_local, p)
  Sa : α
  Ta : α
  ua : α
  va : α
  wa : α
  cpw : α                   -- seawater.cp()
  g : α                     -- p.g
  gamma : α                 -- p.gamma
  rho_r : α                 -- p.rho_r
  Ru : α                    -- p.Ru
  Fb : α
  M : α
  rho : α
  rho_a : α
  u : α
  v : α
  w : α
  V : α
  T : α                     -- q1_local.T
  fe : α                    -- track_particles
  nchems : Nat
  c_chems : List α
  ca_chems : List α
  cpe : List α
  k_bio : List α            -- q1_local.k_bio (scalar 0. broadcast to nchems by the harness)
  ca_tracers : List α

/-- l.111-113  `dm_pc = - A * nbe * beta * (Cs - c_chems) * dtp_dt[i]` (soluble);
    l.133 `np.zeros(nchems)` (insoluble) -/
def dmPc (e : Env α) (p : Particle α) : List α :=
  if p.issoluble then
    List.zipWith (fun b d => ((((-p.A) * p.nbe) * b) * d) * p.dtp) p.beta
      (List.zipWith (fun cs c => cs - c) p.Cs e.c_chems)
  else List.replicate e.nchems 0

/-- l.122-123 / l.135-136  `dm_pb = -k_bio * m * nbe * dtp_dt[i]` -/
def dmPb (p : Particle α) : List α :=
  List.zipWith (fun k m => (((-k) * m) * p.nbe) * p.dtp) p.k_bio p.m

/-- l.117-119  `np.sum(dm_pc * (-1.) * neg_dH_solR * p.Ru / M)` -/
def heatSol (e : Env α) (p : Particle α) : α :=
  Num.sum (List.zipWith (fun x M => x / M)
    (List.zipWith (fun d h => ((d * (-1)) * h) * e.Ru) (dmPc e p) p.negdH) p.Mw)

/-- the mass slots of a particle inside the plume: l.126 (`nchems` slots) or l.137 (one slot) -/
def massSlots (e : Env α) (p : Particle α) : List α :=
  if p.issoluble then Num.vadd (dmPc e p) (dmPb p) else [Num.sum (dmPb p)]

/-- l.150 `np.sum(dm_pc + dm_pb)`.  For an insoluble particle NumPy broadcasts the
    one-element `dm_pb` against `np.zeros(nchems)`: the sum runs over `nchems` copies. -/
def lossSum (e : Env α) (p : Particle α) : α :=
  if p.issoluble then Num.sum (Num.vadd (dmPc e p) (dmPb p))
  else Num.sum ((dmPc e p).map (fun z => z + (dmPb p).headD 0))

/-- l.144-151 the particle heat slot -/
def heatSlot (e : Env α) (p : Particle α) : α :=
  (((((((-p.A) * p.nbe) * p.rho_p) * p.cp) * p.beta_T) * (p.T - e.T)) * p.dtp)
    + (lossSum e p * p.cp) * p.T

/-- the `nc + 5` slots of one particle, in index order (l.103-172) -/
def block (e : Env α) (p : Particle α) : List α :=
  if p.integrate then
    massSlots e p ++ [heatSlot e p, p.dtp, 0, (p.up1 - e.fe * p.qn) * p.dtp, (p.up2 - e.fe * p.qm) * p.dtp]
  else List.replicate (p.nc + 5) 0

/-- running value of `qp[2]` : l.117 `+=` heat of solution, l.155 `-= qp[idx]` -/
def heStep (e : Env α) (he : α) (p : Particle α) : α :=
  if p.integrate then
    (if p.issoluble then he + heatSol e p else he) - heatSlot e p
  else he

/-- running value of `dm` : l.141 `dm += dm_pc` -/
def dmStep (e : Env α) (dm : List α) (p : Particle α) : List α :=
  if p.integrate then Num.vadd dm (dmPc e p) else dm

def heFinal (e : Env α) (ps : List (Particle α)) : α :=
  ps.foldl (heStep e) ((e.md * e.cpw) * e.Ta)

def dmFinal (e : Env α) (ps : List (Particle α)) : List α :=
  ps.foldl (dmStep e) (List.replicate e.nchems 0)

/-- l.176-177 `md / rho_a * ca_chems - dm - k_bio * cpe` -/
def dissolved (e : Env α) (dm : List α) : List α :=
  List.zipWith (fun x y => x - y)
    (List.zipWith (fun x y => x - y) (e.ca_chems.map (fun c => (e.md / e.rho_a) * c)) dm)
    (List.zipWith (fun k c => k * c) e.k_bio e.cpe)

/-- l.181 `md / rho_a * ca_tracers` -/
def tracerSlots (e : Env α) : List α := e.ca_tracers.map (fun c => (e.md / e.rho_a) * c)

/-- l.83-84 -/
def jzSlot (e : Env α) : α :=
  (((-e.g) / (e.gamma * e.rho_r)) * (e.Fb + e.M * (e.rho_a - e.rho))) + e.md * e.wa

/-- the eleven leading slots (l.73-94); `he` is the final value of `qp[2]` -/
def headSlots (e : Env α) (he : α) : List α :=
  [e.md, e.md * e.Sa, he, e.md * e.ua, e.md * e.va, jzSlot e, 0, e.u, e.v, e.w, e.V]

def dissolvedSlots (e : Env α) (ps : List (Particle α)) : List α :=
  if 0 < e.nchems then dissolved e (dmFinal e ps) else []

/-- the vector returned by `lmp.derivs` -/
def derivs (e : Env α) (ps : List (Particle α)) : List α :=
  headSlots e (heFinal e ps) ++ (ps.flatMap (block e) ++ (dissolvedSlots e ps ++ tracerSlots e))

/-! ## PART 2 — read-out functionals (index arithmetic of `LagElement.update`, l.3131-3154).
    All of them take the state vector (or a derivative vector) WITHOUT its 11 leading slots. -/

/-- number of state slots of the particles: Σ (nc_i + 5) -/
def slotsLen : List (Particle α) → Nat
  | [] => 0
  | p :: ps => (p.nc + 5) + slotsLen ps

/-- total of compound `c`: mass slot `c` of every soluble particle + dissolved slot `c` -/
def compoundTotal (c : Nat) : List (Particle α) → List α → α
  | [], v => v.getD c 0
  | p :: ps, v => (if p.issoluble then v.getD c 0 else 0) + compoundTotal c ps (v.drop (p.nc + 5))

/-- Σ of the particle heat slots `H_p` -/
def particleHeat : List (Particle α) → List α → α
  | [], _ => 0
  | p :: ps, v => v.getD p.nc 0 + particleHeat ps (v.drop (p.nc + 5))

/-- element heat slot + Σ particle heat slots, of a FULL vector -/
def heatTotal (ps : List (Particle α)) (v : List α) : α :=
  v.getD 2 0 + particleHeat ps (v.drop 11)

/-- the `nc + 5` slots of particle number `i` -/
def particleBlock : List (Particle α) → Nat → List α → List α
  | [], _, _ => []
  | p :: _, 0, v => v.take (p.nc + 5)
  | p :: ps, i+1, v => particleBlock ps i (v.drop (p.nc + 5))

/-- inert mass: the single mass slot of particle `i` (meaningful when it is insoluble) -/
def massSlot0 (ps : List (Particle α)) (i : Nat) (v : List α) : α :=
  (particleBlock ps i v).getD 0 0

/-! ## PART 3 — `lmp.calculate` and the two post-step corrections -/

/-- `correct_temperature` (l.376-382) on the vector WITHOUT the 11 leading slots:
    `r.y[idx + nc] = newH_i` for every particle; `newH` is
    `np.sum(m) * nbe * cp * T` evaluated by the harness / any value in the theorems. -/
def correctTemperature : List (Particle α) → List α → List α → List α
  | [], _, v => v
  | _ :: _, [], v => v
  | p :: ps, h :: hs, v =>
      (v.take p.nc ++ [h] ++ (v.drop (p.nc + 1)).take 4)
        ++ correctTemperature ps hs (v.drop (p.nc + 5))

/-- l.379-380 the value written into the heat slot: `np.sum(m) * nbe * cp * T` -/
def newHeat (m : List α) (nbe cp T : α) : α := ((Num.sum m * nbe) * cp) * T

/-- `correct_particle_tracking` (l.424-440) on the vector WITHOUT the 11 leading slots:
    the three position slots of every particle with `integrate = false` become `mark` (NaN). -/
def correctParticleTracking (mark : α) : List (Particle α) → List α → List α
  | [], v => v
  | p :: ps, v =>
      (if p.integrate then v.take (p.nc + 5)
       else v.take (p.nc + 2) ++ [mark, mark, mark])
        ++ correctParticleTracking mark ps (v.drop (p.nc + 5))

/-- l.442-453: the flag switch after the NaN-marking: `p_fac == 0` ⇒ `integrate = False` -/
def exitFlag (integrate : Bool) (pfacZero : Bool) : Bool := if pfacZero then false else integrate

/-- abstract integrator step: `Σ a_j q_j + Σ w_k f_k` over vectors of length `n` -/
def linComb (n : Nat) : List (α × List α) → List α
  | [] => List.replicate n 0
  | (a, v) :: rest => Num.vadd (Num.smul a v) (linComb n rest)

def integratorStep (n : Nat) (states : List (α × List α)) (rhs : List (α × List α)) : List α :=
  Num.vadd (linComb n states) (linComb n rhs)

/-- `np.sign` with its NaN case: 0 negative, 1 zero, 2 positive, 3 NaN -/
def signCode (x : α) : Nat :=
  if x < 0 then 0 else if 0 < x then 2 else if x ≤ 0 then 1 else 3

/-- `np.sign(a) != np.sign(b)` (NaN differs from everything, itself included) -/
def signDiffers (a b : α) : Bool :=
  let sa := signCode a
  let sb := signCode b
  if sa = 3 then true else if sb = 3 then true else sa != sb

/-- counters of the loop -/
structure Ctl where
  k : Nat
  top : Nat
  neutral : Nat
  deriving Repr

/-- what the stop tests read after one step (l.287-315) -/
structure Obs (α : Type) where
  Jz0 : α        -- q0_local.Jz
  Jz1 : α        -- q1_local.Jz
  dr0 : α        -- q0_local.rho_a - q0_local.rho
  dr1 : α        -- q1_local.rho_a - q1_local.rho
  s : α          -- q[-1][10]
  sPrev : α      -- q[-2][10]
  z : α          -- q[-1][9]
  D : α          -- q1_local.D
  sdMax : α

/-- stop reasons, in the order of the tests in the code -/
structure Reasons where
  neutral : Bool
  distance : Bool
  cap : Bool
  surface : Bool
  stall : Bool
  deriving Repr, DecidableEq

def Reasons.any (r : Reasons) : Bool := r.neutral || r.distance || r.cap || r.surface || r.stall

/-- one pass through l.287-318: new counters, the five stop tests -/
def stepControl (cap : Nat) (c : Ctl) (o : Obs α) : Ctl × Reasons :=
  let top := if signDiffers o.Jz0 o.Jz1 then c.top + 1 else c.top
  let neutral := if 0 < top then (if signDiffers o.dr0 o.dr1 then c.neutral + 1 else c.neutral) else c.neutral
  let r : Reasons := {
    neutral := decide (1 ≤ neutral)
    distance := decide (o.sdMax < o.s / o.D)
    cap := decide (cap ≤ c.k)
    surface := decide (o.z ≤ 0)
    stall := decide (o.s ≤ o.sPrev ∧ o.sPrev ≤ o.s) }
  ({ k := c.k + 1, top := top, neutral := neutral }, r)

inductive Outcome where
  | stopped (c : Ctl) (r : Reasons)     -- a stop test fired
  | failed (c : Ctl)                    -- `r.successful()` returned False
  | outOfFuel (c : Ctl)                 -- never produced when fuel ≥ cap + 1 (theorem)
  deriving Repr

/-- the `while r.successful() and not stop` loop; `succ k` is the integrator status seen at the
    top of iteration `k`, `obs k` what the tests read after the step of iteration `k` -/
def loop (cap : Nat) (succ : Nat → Bool) (obs : Nat → Obs α) : Nat → Ctl → Outcome
  | 0, c => .outOfFuel c
  | fuel+1, c =>
    if succ c.k then
      let (c', r) := stepControl cap c (obs c.k)
      if r.any then .stopped c' r else loop cap succ obs fuel c'
    else .failed c

/-- the counters after `k` passes through the loop body -/
def ctlAt (cap : Nat) (obs : Nat → Obs α) : Nat → Ctl
  | 0 => { k := 0, top := 0, neutral := 0 }
  | k+1 => (stepControl cap (ctlAt cap obs k) (obs k)).1

/-- the five stop tests evaluated in pass `k` -/
def testsAt (cap : Nat) (obs : Nat → Obs α) (k : Nat) : Reasons := (stepControl cap (ctlAt cap obs k) (obs k)).2

def calculate (cap : Nat) (succ : Nat → Bool) (obs : Nat → Obs α) : Outcome :=
  loop cap succ obs (cap + 1) { k := 0, top := 0, neutral := 0 }


/-! ## PART 4 — the closures `lmp.derivs` consumes, transcribed so that they can be tied to the code
    independently of the assembly: the derived element quantities of `LagElement.update`
    (l.3165-3187), `Particle.track` (p_fac, l.2492-2511), the buoyant force (l.3231-3245),
    `dispersed_phases.shear_entrainment` (l.1148-1209), `lmp.entrainment` (l.459-560),
    `lmp.local_coords` / `lmp.track_particles` (l.563-694).  Library values (seawater.density,
    the ambient profile, dbm slip velocity / particle density) enter as arguments. -/

structure ElemD (α : Type) where
  S : α
  T : α
  u : α
  v : α
  w : α
  hvel : α
  V : α
  h : α
  b : α
  sin_p : α
  cos_p : α
  sin_t : α
  cos_t : α
  phi : α
  theta : α

/-- l.3165-3187; `rho = seawater.density(T, S, Pa)` is supplied -/
def elemDerived (M Se He Jx Jy Jz H rho cpw pi : α) : ElemD α :=
  let u := Jx / M
  let v := Jy / M
  let w := Jz / M
  let hvel := Num.sqrt (Num.npow u 2 + Num.npow v 2)
  let V := Num.sqrt (Num.npow hvel 2 + Num.npow w 2)
  let h := H * V
  let isz : Bool := decide (hvel ≤ 0 ∧ 0 ≤ hvel)
  { S := Se / M, T := He / (M * cpw), u := u, v := v, w := w, hvel := hvel, V := V, h := h,
    b := Num.sqrt (M / ((rho * pi) * h)),
    sin_p := w / V, cos_p := hvel / V,
    sin_t := if isz then 0 else v / hvel,
    cos_t := if isz then 1 else u / hvel,
    phi := Num.atan2 w hvel, theta := Num.atan2 v u }

/-- `np.sign` as a number (NaN not modelled) -/
def sgn (x : α) : α := if x < 0 then -1 else if 0 < x then 1 else 0

/-- `dispersed_phases.shear_entrainment` -/
def shearEntrainment (U Us rho rho_a b sin_p g alpha_j alpha_Fr : α) : α :=
  let alpha_p : α :=
    if rho_a ≤ rho ∧ rho ≤ rho_a then 0
    else
      let F1 := (2 * Num.abs (U - Us)) /
        Num.sqrt ((((((g * Num.abs (rho_a - rho)) * (1 + Num.npow 1.2 2)) / Num.npow 1.2 2) / rho_a) * b) / Num.sqrt 2)
      if alpha_Fr / 0.028 < Num.abs (Num.npow F1 2 / sin_p) then
        (((-(sgn (rho_a - rho))) * alpha_Fr) * sin_p) / Num.npow F1 2
      else
        ((((-(0.083 - alpha_j)) / (alpha_Fr / 0.028)) * Num.npow F1 2) / sin_p) * sgn (rho_a - rho)
  let den := Num.abs (U - Us) + U
  if den ≤ 0 ∧ 0 ≤ den then Num.sqrt 2 * alpha_j
  else (((Num.sqrt 2 * (alpha_j + alpha_p)) * 2) * U) / den

/-- inputs of `lmp.entrainment`: current element, previous element, parameters -/
structure EntIn (α : Type) where
  ua : α
  va : α
  wa : α
  phi : α
  theta : α
  V : α
  rho : α
  rho_a : α
  b : α
  h : α
  sin_p : α
  s : α
  phi0 : α
  theta0 : α
  s0 : α
  b0 : α
  g : α
  alpha_j : α
  alpha_Fr : α
  pi : α

/-- shear entrainment `md_s` (l.497-521) -/
def mdShear (i : EntIn α) : α :=
  let Ua := Num.sqrt (Num.npow i.ua 2 + Num.npow i.va 2 + Num.npow i.wa 2)
  let Phi_a := Num.atan2 i.wa (Num.sqrt (Num.npow i.ua 2 + Num.npow i.va 2))
  let Theta_a := Num.atan2 i.va i.ua
  let Us := (Ua * Num.cos (i.phi - Phi_a)) * Num.cos (i.theta - Theta_a)
  let alpha_s := shearEntrainment i.V Us i.rho i.rho_a i.b i.sin_p i.g i.alpha_j i.alpha_Fr
  ((i.rho_a * Num.abs (i.V - Us)) * alpha_s) * (((2 * i.pi) * i.b) * i.h)

/-- forced entrainment `md_f` (l.523-550) -/
def mdForced (i : EntIn α) : α :=
  let Ua := Num.sqrt (Num.npow i.ua 2 + Num.npow i.va 2 + Num.npow i.wa 2)
  let Phi_a := Num.atan2 i.wa (Num.sqrt (Num.npow i.ua 2 + Num.npow i.va 2))
  let Theta_a := Num.atan2 i.va i.ua
  let sin_t := Num.sin (i.theta - Theta_a)
  let sin_p := Num.sin (i.phi - Phi_a)
  let cos_t := Num.cos (i.theta - Theta_a)
  let cos_p := Num.cos (i.phi - Phi_a)
  let cos_t0 := Num.cos (i.theta0 - Theta_a)
  let cos_p0 := Num.cos (i.phi0 - Phi_a)
  let a1 := ((2 * i.b) * Num.sqrt ((Num.npow sin_p 2 + Num.npow sin_t 2) - Num.npow sin_p 2 * Num.npow sin_t 2)) * i.h
  let small : Bool := decide ((i.s - i.s0) / i.b ≤ 1.e-3)
  let a2 : α := if small then 0 else
    (((((i.pi * i.b) * (i.b - i.b0)) / (i.s - i.s0)) * i.h) * cos_p) * cos_t
  let a3 : α := if small then 0 else
    ((((i.pi * Num.npow i.b 2) / 2) * (cos_p * cos_t - cos_p0 * cos_t0)) / (i.s - i.s0)) * i.h
  let A : α := if Num.abs sin_t ≤ 1.e-9 ∧ Num.abs sin_p ≤ 1.e-9 then 0 else (a1 + a2) + a3
  (i.rho_a * Ua) * A

/-- `lmp.entrainment`: the maximum hypothesis (l.554-557) -/
def entrainment (i : EntIn α) : α :=
  if mdForced i < mdShear i then mdShear i else mdForced i

/-- entrainment frequency (l.605-606) -/
def feOf (md rho_a b h pi : α) : α := md / ((((2 * pi) * rho_a) * Num.npow b 2) * h)

/-- slip velocity in local coordinates: `np.dot(local_coords, [0, 0, -us])` (l.622, l.682-691) -/
def upOf (sin_p cos_p : α) (us : α) : List α :=
  [(0 + 0) + sin_p * (-us), (0 + 0) + (-cos_p) * (-us), (0 + 0) + 0 * (-us)]

/-- `dtp_dt[i]` (l.625-640) -/
def dtpOf (V fe ds : α) (up : List α) (Xn Xm : α) (x0 x1 : List α) : α :=
  let dsp := Num.sqrt ((Num.npow (x1.getD 0 0 - x0.getD 0 0) 2 + Num.npow (x1.getD 1 0 - x0.getD 1 0) 2)
                + Num.npow (x1.getD 2 0 - x0.getD 2 0) 2)
  let Vp := Num.sqrt ((Num.npow (up.getD 0 0 + V) 2 + Num.npow (up.getD 1 0 - fe * Xn) 2)
                + Num.npow (up.getD 2 0 - fe * Xm) 2)
  if Vp ≤ 0 ∧ 0 ≤ Vp then 0
  else if ds ≤ 0 ∧ 0 ≤ ds then 1
  else ((V / Vp) * dsp) / ds

/-- `Particle.track` (l.2492-2511): buoyancy reduction factor of a particle; 0 once outside -/
def pFac (integrate : Bool) (b Xl Xn Xm : α) : α :=
  if integrate then
    let lp := Num.sqrt ((Num.npow Xl 2 + Num.npow Xn 2) + Num.npow Xm 2)
    let f := Num.npow (b - lp) 4 / Num.npow b 4
    let f := if f < 0 then 0 else f
    if b < lp then 0 else f
  else 0

/-- buoyant force of one particle class (l.3231-3242); `Mp` are the state masses `M_p[i]` -/
def fbOf (soluble : Bool) (neutralised : Bool) (rho rho_a rho_p nbe pfac : α) (Mp : List α) : α :=
  let mraw := Mp.map (fun m => m / nbe)
  -- `PlumeParticle.update` -> `properties` clips negative masses IN PLACE (`m[m<0] = 0.`, soluble particles with
  -- positive total mass only), and l.3231 sums the clipped array
  let mcl := if soluble && decide (0 < Num.sum mraw) then mraw.map (fun m => if m < 0 then 0 else m) else mraw
  let mp := Num.sum mcl * nbe
  -- l.3240 `if self.rho == particles[i].rho_p`: the dissolved-particle neutralisation.  `SingleParticle.properties`
  -- returns rho_p = seawater.density(T, S, P) of the element's own T, S, P once all injected compounds are below
  -- `fdis`, bit-identical to the element's `rho`; the test is an exact comparison of those two numbers OF THE CODE, so
  -- it enters as a flag (`neutralised`), not as a comparison with a density recomputed elsewhere
  if neutralised then 0
  else (((rho / rho_p) * mp) * (rho_a - rho_p)) * pfac

/-! ## line protocol -/
section dispatch
open TamocV.Proto

def mkEnv (s : List Float) (nchems : Nat) (cc ca cpe kb ct : List Float) : Option (Env Float) :=
  match s with
  | [md, Sa, Ta, ua, va, wa, cpw, g, gamma, rho_r, Ru, Fb, M, rho, rho_a, u, v, w, V, T, fe] =>
    some { md := md, Sa := Sa, Ta := Ta, ua := ua, va := va, wa := wa, cpw := cpw, g := g, gamma := gamma,
           rho_r := rho_r, Ru := Ru, Fb := Fb, M := M, rho := rho, rho_a := rho_a, u := u, v := v, w := w,
           V := V, T := T, fe := fe, nchems := nchems, c_chems := cc, ca_chems := ca, cpe := cpe,
           k_bio := kb, ca_tracers := ct }
  | _ => none

def mkParticle (integ sol nc : Nat) (s beta Cs kb m dH Mw : List Float) : Option (Particle Float) :=
  match s with
  | [A, nbe, rho_p, cp, beta_T, T, dtp, up1, up2, qn, qm] =>
    some { integrate := integ != 0, issoluble := sol != 0, nc := nc, A := A, nbe := nbe, rho_p := rho_p,
           cp := cp, beta_T := beta_T, T := T, dtp := dtp, up1 := up1, up2 := up2, qn := qn, qm := qm,
           beta := beta, Cs := Cs, k_bio := kb, m := m, negdH := dH, Mw := Mw }
  | _ => none

/-- `n:integrate n:issoluble n:nc v:scalars v:beta v:Cs v:k_bio v:m v:negdH v:M` per particle -/
def parseParticles : List Arg → Option (List (Particle Float))
  | [] => some []
  | .n integ :: .n sol :: .n nc :: .v s :: .v beta :: .v Cs :: .v kb :: .v m :: .v dH :: .v Mw :: rest =>
    match mkParticle integ sol nc s beta Cs kb m dH Mw, parseParticles rest with
    | some p, some ps => some (p :: ps)
    | _, _ => none
  | _ => none

/-- short particle records for the functionals / corrections: `n:integrate n:issoluble n:nc` -/
def parseShort : List Arg → Option (List (Particle Float))
  | [] => some []
  | .n integ :: .n sol :: .n nc :: rest =>
    match parseShort rest with
    | some ps => some ({ integrate := integ != 0, issoluble := sol != 0, nc := nc, A := 0, nbe := 0, rho_p := 0,
                         cp := 0, beta_T := 0, T := 0, dtp := 0, up1 := 0, up2 := 0, qn := 0, qm := 0,
                         beta := [], Cs := [], k_bio := [], m := [], negdH := [], Mw := [] } :: ps)
    | none => none
  | _ => none

/-- records for the corrections: `n:integrate n:issoluble n:nc v:m v:[nbe,cp,T]` per particle;
    returns the particles and the heats `newHeat m nbe cp T` -/
def parseCorr : List Arg → Option (List (Particle Float) × List Float)
  | [] => some ([], [])
  | .n integ :: .n sol :: .n nc :: .v m :: .v [nbe, cp, T] :: rest =>
    match parseCorr rest with
    | some (ps, hs) =>
      some ({ integrate := integ != 0, issoluble := sol != 0, nc := nc, A := 0, nbe := nbe, rho_p := 0,
              cp := cp, beta_T := 0, T := T, dtp := 0, up1 := 0, up2 := 0, qn := 0, qm := 0,
              beta := [], Cs := [], k_bio := [], m := m, negdH := [], Mw := [] } :: ps,
            newHeat m nbe cp T :: hs)
    | none => none
  | _ => none


/-- per particle for `Lmp.closures`: `n:integrate n:issoluble n:neutralised v:[us,nbe,rho_p,Xl,Xn,Xm,x0,y0,z0,x1,y1,z1] v:M_p` -/
def parseClos : List Arg → Option (List ((Bool × Bool × Bool) × List Float × List Float))
  | [] => some []
  | .n integ :: .n sol :: .n neu :: .v sc :: .v mp :: rest =>
    match parseClos rest with
    | some ps => some (((integ != 0, sol != 0, neu != 0), sc, mp) :: ps)
    | none => none
  | _ => none

def closures (q1 q0 amb par : List Float) (ps : List ((Bool × Bool × Bool) × List Float × List Float)) : Option (List Arg) :=
  match q1, q0, amb, par with
  | [M, Se, He, Jx, Jy, Jz, H, _x, _y, _z, s], [M0, Se0, He0, Jx0, Jy0, Jz0, H0, _x0, _y0, _z0, s0],
    [ua, va, wa, rho_a, rho, rho0], [cpw, pi, g, alpha_j, alpha_Fr] =>
    let e1 := elemDerived M Se He Jx Jy Jz H rho cpw pi
    let e0 := elemDerived M0 Se0 He0 Jx0 Jy0 Jz0 H0 rho0 cpw pi
    let i : EntIn Float :=
      { ua := ua, va := va, wa := wa, phi := e1.phi, theta := e1.theta, V := e1.V, rho := rho,
        rho_a := rho_a, b := e1.b, h := e1.h, sin_p := e1.sin_p, s := s, phi0 := e0.phi, theta0 := e0.theta, s0 := s0,
        b0 := e0.b, g := g, alpha_j := alpha_j, alpha_Fr := alpha_Fr, pi := pi }
    let md := entrainment i
    let fe := feOf md rho_a e1.b e1.h pi
    let ds := s - s0
    let per := ps.map (fun ((integ, sol, neu), sc, mp) =>
      let us := sc.getD 0 0
      let up := upOf e1.sin_p e1.cos_p us
      let dtp := dtpOf e1.V fe ds up (sc.getD 4 0) (sc.getD 5 0) ((sc.drop 6).take 3) ((sc.drop 9).take 3)
      let pf := pFac integ e1.b (sc.getD 3 0) (sc.getD 4 0) (sc.getD 5 0)
      let fb := fbOf sol neu rho rho_a (sc.getD 2 0) (sc.getD 1 0) pf mp
      (up, dtp, pf, fb))
    some [.v [e1.S, e1.T, e1.u, e1.v, e1.w, e1.hvel, e1.V, e1.h, e1.b, e1.sin_p, e1.cos_p, e1.sin_t, e1.cos_t, e1.phi, e1.theta],
          .v [mdShear i, mdForced i, md, fe],
          .v (per.map (fun x => x.2.1)),
          .v (per.flatMap (fun x => x.1)),
          .v (per.map (fun x => x.2.2.1)),
          .v (per.map (fun x => x.2.2.2)),
          .s (Num.sum (per.map (fun x => x.2.2.2)))]
  | _, _, _, _ => none

def parseObs : List Arg → Option (List (Obs Float))
  | [] => some []
  | .v [Jz0, Jz1, dr0, dr1, s, sPrev, z, D, sdMax] :: rest =>
    match parseObs rest with
    | some os => some ({ Jz0 := Jz0, Jz1 := Jz1, dr0 := dr0, dr1 := dr1, s := s, sPrev := sPrev, z := z,
                         D := D, sdMax := sdMax } :: os)
    | none => none
  | _ => none

def reasonsCode (r : Reasons) : Nat :=
  (if r.neutral then 1 else 0) + (if r.distance then 2 else 0) + (if r.cap then 4 else 0)
    + (if r.surface then 8 else 0) + (if r.stall then 16 else 0)

def dummyObs : Obs Float :=
  { Jz0 := 0, Jz1 := 0, dr0 := 0, dr1 := 0, s := 0, sPrev := 0, z := 0, D := 1, sdMax := 0 }

def dispatch : Dispatch := fun name args =>
  match name, args with
  | "Lmp.derivs", .v s :: .n nchems :: .v cc :: .v ca :: .v cpe :: .v kb :: .v ct :: rest =>
    match mkEnv s nchems cc ca cpe kb ct, parseParticles rest with
    | some e, some ps => some [.v (derivs e ps)]
    | _, _ => none
  -- Lmp.closures v:q[0:11] v:q_prev[0:11] v:[ua,va,wa,rho_a,rho,rho_prev] v:[cpw,pi,g,alpha_j,alpha_Fr] [particle]*
  --   -> v:element-derived v:[md_s,md_f,md,fe] v:dtp v:up(3 per particle) v:p_fac v:fb Fb
  | "Lmp.closures", .v q1 :: .v q0 :: .v amb :: .v par :: rest =>
    match parseClos rest with
    | some ps => closures q1 q0 amb par ps
    | none => none
  -- Lmp.calculateConst n:cap n:nsucc v:obs  (the same observation at every iteration)
  | "Lmp.calculateConst", [.n cap, .n nsucc, .v [Jz0, Jz1, dr0, dr1, s, sPrev, z, D, sdMax]] =>
    let o : Obs Float := { Jz0 := Jz0, Jz1 := Jz1, dr0 := dr0, dr1 := dr1, s := s, sPrev := sPrev, z := z, D := D, sdMax := sdMax }
    match calculate cap (fun k => decide (k < nsucc)) (fun _ => o) with
    | .stopped c r => some [.t "stopped", .n c.k, .n c.top, .n c.neutral, .n (reasonsCode r)]
    | .failed c => some [.t "failed", .n c.k, .n c.top, .n c.neutral, .n 0]
    | .outOfFuel c => some [.t "fuel", .n c.k, .n c.top, .n c.neutral, .n 0]
  -- Lmp.totals v:vector(full) n:c [short particles]  ->  compoundTotal c, heatTotal
  | "Lmp.totals", .v q :: .n c :: rest =>
    match parseShort rest with
    | some ps => some [.s (compoundTotal c ps (q.drop 11)), .s (heatTotal ps q)]
    | none => none
  -- Lmp.correct v:vector(full) mark [n:integrate n:issoluble n:nc v:m v:[nbe,cp,T]]* -> corrected full vector
  | "Lmp.correct", .v q :: .s mark :: rest =>
    match parseCorr rest with
    | some (ps, hs) =>
      let body := correctParticleTracking mark ps (correctTemperature ps hs (q.drop 11))
      some [.v (q.take 11 ++ body)]
    | none => none
  -- Lmp.exitFlag n:integrate n:p_fac_is_zero -> n:integrate'
  | "Lmp.exitFlag", [.n integ, .n z] => some [.n (if exitFlag (integ != 0) (z != 0) then 1 else 0)]
  -- Lmp.calculate n:cap n:iterations-before-integrator-failure [v:obs per iteration]
  --   -> t:stopped|failed|fuel n:k n:top n:neutral n:reasons
  | "Lmp.calculate", .n cap :: .n nsucc :: rest =>
    match parseObs rest with
    | some os =>
      match calculate cap (fun k => decide (k < nsucc)) (fun k => os.getD k dummyObs) with
      | .stopped c r => some [.t "stopped", .n c.k, .n c.top, .n c.neutral, .n (reasonsCode r)]
      | .failed c => some [.t "failed", .n c.k, .n c.top, .n c.neutral, .n 0]
      | .outOfFuel c => some [.t "fuel", .n c.k, .n c.top, .n c.neutral, .n 0]
    | none => none
  | _, _ => none

end dispatch

end TamocV.Model.Lmp
