/-
  TamocV.Model.Oil — hand transcription (DESIGN §2.2 b) of the live-oil builder of
  /repo/tamoc/dbm_utilities.py

    * `load_tamoc_oil`, the mass-fraction line        (l.253-258  `masses / np.sum(masses)`)
    * `get_oil`, TAMOC-database branch                 (l.78-83, l.160-200: optional atmospheric gases
      appended with zero mass fraction, gas mixed in when `gor > 0`, `set_mass_fluxes`)
    * `natural_gas`                                    (l.516-518, composition of the added gas)
    * `mix_gas_for_gor`                                (l.449-494: padded gas / dead-oil mass-fraction
      vectors, first guess of the gas mass fraction, final mixing with the root `beta`)
    * `gas_fraction`                                   (l.569-589, the residual handed to `fsolve`)
    * `set_mass_fluxes`                                (l.628-647)

  NOT modelled: the flash `FluidMixture.equilibrium(m, 288.15, 101325)` and
  `FluidMixture.density(m, 288.15, 101325)` (parameters `Lib` — an oracle table recorded from the
  real objects by the harness), and the root finder: the value `beta` returned by `fsolve` is a
  parameter.  That `fsolve` returns a root is OBSERVED by the harness, not proved (C12 is partial).

  Generic in `[Num α]`: executed at `Float` by the driver, reasoned about at `ℝ` in Props/C12.
  Transcribes what the code DOES, line by line, same operation order.
-/
import TamocV.Num
import TamocV.Proto

namespace TamocV.Model.Oil
variable {α : Type} [Num α]

/-- the library at standard conditions T = 273.15 + 15 K, P = 101325 Pa, for the live-oil mixture -/
structure Lib (α : Type) where
  /-- `oil.equilibrium(m, T, P)[0][0,:]`: masses of every compound in the gas phase -/
  flashGas : List α → List α
  /-- `oil.equilibrium(m, T, P)[0][1,:]`: masses of every compound in the liquid phase -/
  flashLiq : List α → List α
  /-- `oil.density(m, T, P)[0,0]` -/
  rhoGas : List α → α
  /-- `oil.density(m, T, P)[1,0]` -/
  rhoLiq : List α → α

def zeros (n : Nat) : List α := List.replicate n 0.0

/-- m³ per standard cubic foot / per stock barrel, as written in the code -/
def ft3 : α := 0.0283168
def bbl : α := 0.158987

-- ------------------------------------------------------------------ natural_gas, load_tamoc_oil

/-- `natural_gas()`: methane, ethane, propane, isobutane, n-butane mass fractions (l.518) -/
def gasMf : List α := [0.939, 0.042, 0.0184, 0.0003, 0.0003]

/-- `load_tamoc_oil` l.258: `mass_frac = masses / np.sum(masses)` -/
def loadMassFrac (masses : List α) : List α := masses.map (· / Num.sum masses)

/-- `get_oil` l.161-169: `new_mf = zeros(len(composition)); new_mf[0:len(mass_frac)] = mass_frac` -/
def withCa (mf : List α) (nca : Nat) : List α := mf ++ zeros nca

-- ------------------------------------------------------------------ gas_fraction

/-- l.570 / l.491: `beta * mf_gas + (1. - beta) * mf_oil` -/
def mix (beta : α) (mfGas mfOil : List α) : List α :=
  Num.vadd (Num.smul beta mfGas) (Num.smul (1.0 - beta) mfOil)

/-- l.573-586: gas-to-oil ratio (ft³/bbl) of the masses `m` brought to equilibrium at standard
    conditions -/
def gorOf (lib : Lib α) (m : List α) : α :=
  let mG := lib.flashGas m
  let pGas := lib.rhoGas mG
  let mL := lib.flashLiq m
  let pOil := lib.rhoLiq mL
  let vGas := Num.sum mG / pGas
  let vOil := Num.sum mL / pOil
  let vGas := vGas / ft3
  let vOil := vOil / bbl
  vGas / vOil

/-- `gas_fraction(beta, gor_0, oil, mf_gas, mf_oil, T, P)` -/
def gasFraction (lib : Lib α) (beta gor0 : α) (mfGas mfOil : List α) : α :=
  gorOf lib (mix beta mfGas mfOil) - gor0

-- ------------------------------------------------------------------ mix_gas_for_gor

/-- l.456-458: `mf_gas = zeros(len(composition)); mf_gas[0:len(gas_mf)] = gas_mf` -/
def mfGasFull (nDead : Nat) : List α := gasMf ++ zeros nDead

/-- l.457-459: `mf_oil = zeros(len(composition)); mf_oil[len(gas_mf):] = dead_mass_frac` -/
def mfOilFull (dead : List α) : List α := zeros (gasMf (α := α)).length ++ dead

/-- l.476-484: the first guess handed to `fsolve` -/
def betaGuess (lib : Lib α) (gor : α) (mfGas mfOil : List α) : α :=
  let pGas := lib.rhoGas mfGas
  let pOil := lib.rhoLiq mfOil
  let vGas := gor * ft3
  let vOil : α := bbl
  let mGas := pGas * vGas
  let mOil := pOil * vOil
  mGas / (mGas + mOil)

/-- l.491: live-oil mass fractions from the root `beta` returned by `fsolve` -/
def mixGasForGor (beta : α) (dead : List α) : List α :=
  mix beta (mfGasFull dead.length) (mfOilFull dead)

-- ------------------------------------------------------------------ set_mass_fluxes

/-- `m0[fp_type,:]` -/
def phaseRow (lib : Lib α) (fp : Nat) (m : List α) : List α :=
  if fp = 0 then lib.flashGas m else lib.flashLiq m

/-- `oil.density(row, T0, P0)[fp_type,0]` -/
def phaseRho (lib : Lib α) (fp : Nat) (row : List α) : α :=
  if fp = 0 then lib.rhoGas row else lib.rhoLiq row

/-- l.640-644: the factor that scales the unit flux to the requested rate -/
def kFac (lib : Lib α) (massFrac : List α) (qOil : α) (fp : Nat) : α :=
  let row := phaseRow lib fp massFrac
  let pOil := phaseRho lib fp row
  let vOil := Num.sum row / pOil / bbl
  (qOil / 86400.0) / vOil

/-- `set_mass_fluxes(composition, mass_frac, …, q_oil, fp_type)`: `mass_frac * k_fac` -/
def setMassFluxes (lib : Lib α) (massFrac : List α) (qOil : α) (fp : Nat) : List α :=
  massFrac.map (· * kFac lib massFrac qOil fp)

/-- volume flow (bbl/d) of phase `fp` when the fluxes `m` (kg/s) are brought to equilibrium at
    standard conditions — the quantity the rate target is about -/
def stdRate (lib : Lib α) (fp : Nat) (m : List α) : α :=
  let row := phaseRow lib fp m
  Num.sum row / phaseRho lib fp row / bbl * 86400.0

-- ------------------------------------------------------------------ get_oil

/-- the live-oil mass fractions `get_oil` hands to `set_mass_fluxes` (`beta`: what `fsolve` returned;
    unused when `gor ≤ 0`) -/
def liveMassFrac (masses : List α) (nca : Nat) (gor beta : α) : List α :=
  let mf := withCa (loadMassFrac masses) nca
  if 0 < gor then mixGasForGor beta mf else mf

/-- `get_oil(substance, q_oil, gor, ca, fp_type)[1]` for a TAMOC-database substance -/
def getOil (lib : Lib α) (masses : List α) (nca : Nat) (gor beta qOil : α) (fp : Nat) : List α :=
  setMassFluxes lib (liveMassFrac masses nca gor beta) qOil fp

-- ------------------------------------------------------------------ line protocol (α := Float)

open TamocV.Proto

/-- one recorded library call: name (`flash` → both rows concatenated, `density` → [gas, liquid]),
    arguments, result -/
structure Entry where
  name : String
  args : List Float
  res : List Float

def nan : Float := 0.0 / 0.0

/-- relative distance of two floats (0 when equal, also for equal infinities; NaN is at distance 1e300 of everything) -/
def relDist (a b : Float) : Float :=
  if a == b then 0.0
  else if a != a || b != b then 1.0e300      -- a NaN never matches (recorded calls of a root finder gone astray)
  else (a - b).abs / (if a.abs < b.abs then b.abs else a.abs)

/-- largest component-wise relative distance; `none` when the shapes differ -/
def distL : List Float → List Float → Option Float
  | [], [] => some 0.0
  | a :: as, b :: bs => (distL as bs).map fun d => let e := relDist a b; if d < e then e else d
  | _, _ => none

/-- DESIGN §2.2: oracle entries are matched by routine name and arguments within the §6 tolerance
    (1e-11 relative); among several admissible entries (e.g. successive iterates of a root finder)
    the CLOSEST one answers; a question the code never asked answers NaN -/
def lookup (tbl : List Entry) (name : String) (args : List Float) (n : Nat) : List Float :=
  let best := tbl.foldl (fun (acc : Option (Float × List Float)) e =>
    if e.name == name then
      match distL e.args args with
      | some d =>
          if d ≤ 1e-11 then
            match acc with
            | some (d0, _) => if d < d0 then some (d, e.res) else acc
            | none => some (d, e.res)
          else acc
      | none => acc
    else acc) none
  match best with
  | some (_, r) => r
  | none => List.replicate n nan

def tableLib (tbl : List Entry) : Lib Float :=
  { flashGas := fun m => (lookup tbl "flash" m (2 * m.length)).take m.length
    flashLiq := fun m => (lookup tbl "flash" m (2 * m.length)).drop m.length
    rhoGas := fun m => (lookup tbl "density" m 2).headD nan
    rhoLiq := fun m => ((lookup tbl "density" m 2).drop 1).headD nan }

def parseTable : List Arg → Option (List Entry)
  | [] => some []
  | .t name :: .v args :: .v res :: rest =>
      (parseTable rest).map fun es => { name := name, args := args, res := res } :: es
  | _ => none

def dispatch : Dispatch := fun name args =>
  match name, args with
  | "Oil.loadMassFrac", [.v masses] => some [.v (loadMassFrac (α := Float) masses)]
  | "Oil.liveMassFrac", [.v masses, .n nca, .s gor, .s beta] =>
      some [.v (liveMassFrac (α := Float) masses nca gor beta)]
  | "Oil.vectors", [.n nDead, .v dead] => some [.v (mfGasFull (α := Float) nDead), .v (mfOilFull (α := Float) dead)]
  | "Oil.mix", [.s beta, .v a, .v b] => some [.v (mix (α := Float) beta a b)]
  | "Oil.betaGuess", .s gor :: .v mfGas :: .v mfOil :: rest =>
      (parseTable rest).map fun tbl => [.s (betaGuess (tableLib tbl) gor mfGas mfOil)]
  | "Oil.gasFraction", .s beta :: .s gor0 :: .v mfGas :: .v mfOil :: rest =>
      (parseTable rest).map fun tbl => [.s (gasFraction (tableLib tbl) beta gor0 mfGas mfOil)]
  | "Oil.gorOf", .v m :: rest =>
      (parseTable rest).map fun tbl => [.s (gorOf (tableLib tbl) m)]
  | "Oil.stdRate", .n fp :: .v m :: rest =>
      (parseTable rest).map fun tbl => [.s (stdRate (tableLib tbl) fp m)]
  | "Oil.setMassFluxes", .v mf :: .s q :: .n fp :: rest =>
      (parseTable rest).map fun tbl => [.v (setMassFluxes (tableLib tbl) mf q fp)]
  | "Oil.getOil", .v masses :: .n nca :: .s gor :: .s beta :: .s q :: .n fp :: rest =>
      (parseTable rest).map fun tbl => [.v (getOil (tableLib tbl) masses nca gor beta q fp)]
  | _, _ => none

end TamocV.Model.Oil
