/-
  TamocV.Model.Particle09 — hand transcription (DESIGN §2.2 b) of the CONTROL / CALL STRUCTURE of

    * `dbm.FluidMixture.interface_tension / solubility / diffusivity`      (/repo/tamoc/dbm.py l.558-801)
    * `dbm.FluidParticle.density / fugacity / viscosity / interface_tension / solubility /
       diameter / particle_shape / slip_velocity / surface_area / mass_transfer / heat_transfer`
                                                                            (l.1018-1659)
    * `dbm.FluidParticle.return_all`                                        (l.1661-1883)
    * `dbm.InsolubleParticle.density / viscosity / interface_tension / diameter / particle_shape /
       slip_velocity / surface_area / heat_transfer`                        (l.1974-2382)
    * `dbm.InsolubleParticle.return_all`                                    (l.2384-2466)

  over an ABSTRACT library `Lib` (a structure of functions): the Peng-Robinson rows
  `dbm_f.density/viscosity/fugacity`, `dbm_f.mole_fraction/kh_insitu/sw_solubility/diffusivity`,
  the flash `FluidMixture.equilibrium`, `seawater.density/mu/k/cp/sigma` and the particle
  correlations `dbm_f.particle_shape/us_*/theta_w_sc/surface_area_sc/xfer_*`.  The equations of
  state are NOT modelled; what is modelled is which library function each method calls with which
  arguments and how it combines the answers.

  The model is generic in the monad `M` in which the library answers (`Lib M α`):
    * `M := Id`, `α := ℝ`  — the pure functions the theorems of Props/C09, Props/C19 are about;
    * `M := StateM Log`, `α := Float` — the driver: the library is the table of calls recorded on
      the real code (oracle-table correspondence); every question is logged, so the harness checks
      that the model asks the questions the code asked, and computes the same outputs.
  Both interpretations elaborate the same definitions.

  `FluidParticle.K` (warm-start cache of the partition coefficients, l.1016) is the only mutable
  attribute the methods touch: it is threaded explicitly (`KSt`), every method returns
  `(value, K after the call)`.

  fp_type: 0 gas, 1 liquid, 2 mixed.  The `else` branches of the code for fp_type > 2 (print a
  warning, overwrite `self.fp_type = 0`; `return_all` returns the integer 0) are outside the
  quantifier of C09 and are NOT modelled: in this model every fp_type ≥ 2 takes the mixed branch.
  The theorems of Props/C09 quantify over every `fpType : Nat` of the MODEL (none of them carries a
  hypothesis `fpType ≤ 2`); for fp_type > 2 the model is simply not a transcription of the code.
  status: `clean = true` stands for status = 1, `false` for status = -1.
-/
import TamocV.Num
import TamocV.Proto

namespace TamocV.Model.Particle09

/-- the library the particle classes are written against -/
structure Lib (M : Type → Type) (α : Type) where
  /-- `dbm_f.density(T, P, mass, …)` → (`[0,0]`, `[1,0]`) = (gas row, liquid row) -/
  eosDensity : α → α → List α → M (α × α)
  /-- `dbm_f.viscosity(T, P, mass, …)` → (`[0,0]`, `[1,0]`) -/
  eosViscosity : α → α → List α → M (α × α)
  /-- `dbm_f.fugacity(T, P, mass, …)` → (`[0,:]`, `[1,:]`) -/
  eosFugacity : α → α → List α → M (List α × List α)
  /-- `dbm_f.mole_fraction(mass, self.M)` -/
  moleFraction : List α → M (List α)
  /-- `dbm_f.kh_insitu(T, P, S, …)` -/
  khInsitu : α → α → α → M (List α)
  /-- `dbm_f.sw_solubility(f, kh)` -/
  swSolubility : List α → List α → M (List α)
  /-- `dbm_f.diffusivity(mu, self.Vb)` -/
  diffusivity : α → M (List α)
  /-- `self.equilibrium(m, T, P, K)` → (`mi[0,:]`, `mi[1,:]`, K) -/
  flash : List α → α → α → Option (List α) → M (List α × List α × Option (List α))
  /-- `seawater.density(T, S, P)` -/
  swDensity : α → α → α → M α
  /-- `seawater.mu(T, S, P)` -/
  swMu : α → α → α → M α
  /-- `seawater.k(T, S, P)` -/
  swK : α → α → α → M α
  /-- `seawater.cp()` -/
  swCp : M α
  /-- `seawater.sigma(T, S)` -/
  swSigma : α → α → M α
  /-- `dbm_f.particle_shape(de, rho_p, rho, mu, sigma)` -/
  particleShape : α → α → α → α → α → M Nat
  /-- `dbm_f.us_sphere(de, rho_p, rho, mu)` -/
  usSphere : α → α → α → α → M α
  /-- `dbm_f.us_ellipsoid(de, rho_p, rho, mu_p, mu, sigma, status)` -/
  usEllipsoid : α → α → α → α → α → α → Bool → M α
  /-- `dbm_f.us_spherical_cap(de, rho_p, rho)` -/
  usSphericalCap : α → α → α → M α
  /-- `dbm_f.theta_w_sc(de, us, rho, mu)` -/
  thetaWSc : α → α → α → α → M α
  /-- `dbm_f.surface_area_sc(de, theta_w)` -/
  surfaceAreaSc : α → α → M α
  /-- `dbm_f.xfer_sphere(de, us, rho, mu, D, sigma, mu_p, fp_type, status)` -/
  xferSphere : α → α → α → α → List α → α → α → Nat → Bool → M (List α)
  /-- `dbm_f.xfer_ellipsoid(de, us, rho, mu, D, sigma, mu_p, fp_type, status)` -/
  xferEllipsoid : α → α → α → α → List α → α → α → Nat → Bool → M (List α)
  /-- `dbm_f.xfer_spherical_cap(de, us, rho, rho_p, mu, D, status)` -/
  xferSphericalCap : α → α → α → α → α → List α → Bool → M (List α)

variable {M : Type → Type} [Monad M] {α : Type} [Num α]

/-- the value of `self.K` -/
abbrev KSt (α : Type) := Option (List α)

/-- WHICH TEXT of dbm.py the individual methods follow at the two sites where the code as first read
    (commit b85963e) deviates from `return_all`.  The harness determines the variant of the tree under
    test by replaying the two Lean witnesses on the real code and hands it to the driver; the theorems
    of Props/C09 cover both variants (refutation for `asWritten`, full statement for `repaired`).
      * `zeroEntryTest = true`   : l.1056/1115/1168/1234/1309 `elif np.sum(mi[1,:] == 0):`
                                   (counts the zero ENTRIES of the liquid row)
        `zeroEntryTest = false`  : `elif np.sum(mi[1,:]) == 0.:` (liquid total, as in `return_all`)
      * `gasViscLiquidRow = true` : l.1170 `FluidMixture.viscosity(self, mi[0,:], T, P)[1, 0]`
        `gasViscLiquidRow = false`: `…[0, 0]` -/
structure Code where
  zeroEntryTest : Bool
  gasViscLiquidRow : Bool

def Code.asWritten : Code := { zeroEntryTest := true, gasViscLiquidRow := true }
def Code.repaired : Code := { zeroEntryTest := false, gasViscLiquidRow := false }

/-- the attributes of a `FluidParticle` the modelled methods read (all other chemical data is
    closed over by the library functions), and the code variant -/
structure FluidPar (α : Type) where
  fpType : Nat
  isair : Bool
  sigmaCorr : α       -- self.sigma_correction (a scalar for a FluidParticle)
  Tc : List α         -- self.Tc
  code : Code := Code.asWritten

/-- `np.pi` -/
def pi : α := 3.141592653589793

/-- `x == 0.` without `==` on α -/
def isZero (x : α) : Prop := x ≤ 0 ∧ 0 ≤ x
instance (x : α) : Decidable (isZero x) := by unfold isZero; exact inferInstance

/-- `np.sum(v == 0)`: the NUMBER of zero entries of `v` -/
def countZero (v : List α) : Nat := (v.filter fun x => decide (isZero x)).length

/-- `[self.fp_type, 0]` / `[self.fp_type, :]` for fp_type < 2 -/
def row {β : Type} (fp : Nat) (r : β × β) : β := if fp = 0 then r.1 else r.2

/-- `(6.0 * np.sum(m) / (np.pi * rho_p))**(1.0/3.0)` -/
def deOf (mtot rhoP : α) : α := Num.rpow (6.0 * mtot / (pi * rhoP)) (1.0 / 3.0)

/-- `np.pi * de**2` -/
def sphereArea (de : α) : α := pi * Num.npow de 2

/-- `4. * np.pi * (3. / (4. * np.pi) * np.sum(mi[i,:]) / rho_p[i])**(2./3.)` -/
def phaseArea (mtot rhoP : α) : α :=
  4.0 * pi * Num.rpow (3.0 / (4.0 * pi) * mtot / rhoP) (2.0 / 3.0)

/-- `rho = (Σmi0 + Σmi1) / (Σmi0 / rho_p[0] + Σmi1 / rho_p[1])` -/
def mixDensity (m0 m1 r0 r1 : α) : α := (m0 + m1) / (m0 / r0 + m1 / r1)

/-- volume-weighted average viscosity, l.1180-1182 / l.1825-1827 -/
def mixViscosity (m0 m1 r0 r1 mu0 mu1 : α) : α :=
  (mu0 * m0 / r0 + mu1 * m1 / r1) / (m0 / r0 + m1 / r1)

/-- area-weighted interfacial tension, l.1254-1255 / l.1837-1838 (`np.sum(area)` = a0 + a1) -/
def mixSigma (s0 s1 a0 a1 : α) : α := (s0 * a0 + s1 * a1) / Num.sum [a0, a1]

-- ------------------------------------------------------------------ FluidMixture (l.558-801)

/-- `FluidMixture.interface_tension(m, T, S, P)` → (`[0,0]`, `[1,0]`) -/
def mixInterfaceTension (lib : Lib M α) (par : FluidPar α) (m : List α) (T S P : α) : M (α × α) := do
  if par.isair then
    let s0 ← lib.swSigma T S
    pure (s0, s0)
  else
    let rhoW ← lib.swDensity T S P
    let rhoP ← lib.eosDensity T P m
    let dg := (rhoW - rhoP.1) / 1000.0
    let dl := (rhoW - rhoP.2) / 1000.0
    let xi ← lib.moleFraction m
    let Tc := Num.sum (Num.vmul par.Tc xi)
    let tr := Num.rpow (T / Tc) (-1.25)
    pure (par.sigmaCorr * (0.111 * Num.rpow dg 1.024 * tr),
          par.sigmaCorr * (0.111 * Num.rpow dl 1.024 * tr))

/-- `FluidMixture.solubility(m, T, P, Sa)` → (`Cs[0,:]`, `Cs[1,:]`) -/
def mixSolubility (lib : Lib M α) (m : List α) (T P Sa : α) : M (List α × List α) := do
  let kh ← lib.khInsitu T P Sa
  let f ← lib.eosFugacity T P m
  let c0 ← lib.swSolubility f.1 kh
  let c1 ← lib.swSolubility f.2 kh
  pure (c0, c1)

/-- `FluidMixture.diffusivity(Ta, Sa, P)` -/
def mixDiffusivity (lib : Lib M α) (Ta Sa P : α) : M (List α) := do
  let mu ← lib.swMu Ta Sa P
  lib.diffusivity mu

-- ------------------------------------------------------------------ FluidParticle, individual methods

/-- the condition of the second branch of the INDIVIDUAL methods, l.1056/1115/1168/1234/1309.
    As written: `elif np.sum(mi[1,:] == 0):` — true as soon as ONE liquid entry is zero;
    repaired: `elif np.sum(mi[1,:]) == 0.:` -/
def indivGasBranch (c : Code) (mi1 : List α) : Prop :=
  if c.zeroEntryTest then 0 < countZero mi1 else isZero (Num.sum mi1)
instance (c : Code) (mi1 : List α) : Decidable (indivGasBranch c mi1) := by
  unfold indivGasBranch; exact inferInstance

/-- the condition of the second branch of `return_all`, l.1784: `elif np.sum(mi[1,:]) == 0:` -/
def bundleGasBranch (mi1 : List α) : Prop := isZero (Num.sum mi1)
instance (mi1 : List α) : Decidable (bundleGasBranch mi1) := by unfold bundleGasBranch; exact inferInstance

/-- l.1053-1067, after the flash -/
def densityOfFlash (lib : Lib M α) (c : Code) (mi0 mi1 : List α) (T P : α) : M α := do
  if isZero (Num.sum mi0) then
    let r ← lib.eosDensity T P mi1
    pure r.2
  else if indivGasBranch c mi1 then
    let r ← lib.eosDensity T P mi0
    pure r.1
  else
    let r0 ← lib.eosDensity T P mi0
    let r1 ← lib.eosDensity T P mi1
    pure (mixDensity (Num.sum mi0) (Num.sum mi1) r0.1 r1.2)

/-- `FluidParticle.density(m, T, P)` -/
def density (lib : Lib M α) (par : FluidPar α) (K : KSt α) (m : List α) (T P : α) : M (α × KSt α) := do
  if par.fpType < 2 then
    let r ← lib.eosDensity T P m
    pure (row par.fpType r, K)
  else
    let fl ← lib.flash m T P K
    let v ← densityOfFlash lib par.code fl.1 fl.2.1 T P
    pure (v, fl.2.2)

/-- l.1112-1121 -/
def fugacityOfFlash (lib : Lib M α) (c : Code) (mi0 mi1 : List α) (T P : α) : M (List α) := do
  if isZero (Num.sum mi0) then
    let r ← lib.eosFugacity T P mi1
    pure r.2
  else if indivGasBranch c mi1 then
    let r ← lib.eosFugacity T P mi0
    pure r.1
  else
    let r ← lib.eosFugacity T P mi0
    pure r.1

/-- `FluidParticle.fugacity(m, T, P)` -/
def fugacity (lib : Lib M α) (par : FluidPar α) (K : KSt α) (m : List α) (T P : α) :
    M (List α × KSt α) := do
  if par.fpType < 2 then
    let r ← lib.eosFugacity T P m
    pure (row par.fpType r, K)
  else
    let fl ← lib.flash m T P K
    let v ← fugacityOfFlash lib par.code fl.1 fl.2.1 T P
    pure (v, fl.2.2)

/-- l.1165-1182.  NOTE l.1170: as written the single-phase-gas branch reads row `[1, 0]` -/
def viscosityOfFlash (lib : Lib M α) (c : Code) (mi0 mi1 : List α) (T P : α) : M α := do
  if isZero (Num.sum mi0) then
    let r ← lib.eosViscosity T P mi1
    pure r.2
  else if indivGasBranch c mi1 then
    let r ← lib.eosViscosity T P mi0
    pure (if c.gasViscLiquidRow then r.2 else r.1)
  else
    let mu0 ← lib.eosViscosity T P mi0
    let r0 ← lib.eosDensity T P mi0
    let mu1 ← lib.eosViscosity T P mi1
    let r1 ← lib.eosDensity T P mi1
    pure (mixViscosity (Num.sum mi0) (Num.sum mi1) r0.1 r1.2 mu0.1 mu1.2)

/-- `FluidParticle.viscosity(m, T, P)` -/
def viscosity (lib : Lib M α) (par : FluidPar α) (K : KSt α) (m : List α) (T P : α) : M (α × KSt α) := do
  if par.fpType < 2 then
    let r ← lib.eosViscosity T P m
    pure (row par.fpType r, K)
  else
    let fl ← lib.flash m T P K
    let v ← viscosityOfFlash lib par.code fl.1 fl.2.1 T P
    pure (v, fl.2.2)

/-- l.1230-1255 -/
def sigmaOfFlash (lib : Lib M α) (par : FluidPar α) (mi0 mi1 : List α) (T S P : α) : M α := do
  if isZero (Num.sum mi0) then
    let r ← mixInterfaceTension lib par mi1 T S P
    pure r.2
  else if indivGasBranch par.code mi1 then
    let r ← mixInterfaceTension lib par mi0 T S P
    pure r.1
  else
    let s0 ← mixInterfaceTension lib par mi0 T S P
    let r0 ← lib.eosDensity T P mi0
    let s1 ← mixInterfaceTension lib par mi1 T S P
    let r1 ← lib.eosDensity T P mi1
    pure (mixSigma s0.1 s1.2 (phaseArea (Num.sum mi0) r0.1) (phaseArea (Num.sum mi1) r1.2))

/-- `FluidParticle.interface_tension(m, T, S, P)` -/
def interfaceTension (lib : Lib M α) (par : FluidPar α) (K : KSt α) (m : List α) (T S P : α) :
    M (α × KSt α) := do
  if par.fpType < 2 then
    let r ← mixInterfaceTension lib par m T S P
    pure (row par.fpType r, K)
  else
    let fl ← lib.flash m T P K
    let v ← sigmaOfFlash lib par fl.1 fl.2.1 T S P
    pure (v, fl.2.2)

/-- l.1306-1316 -/
def solubilityOfFlash (lib : Lib M α) (c : Code) (mi0 mi1 : List α) (T P Sa : α) : M (List α) := do
  if isZero (Num.sum mi0) then
    let r ← mixSolubility lib mi1 T P Sa
    pure r.2
  else if indivGasBranch c mi1 then
    let r ← mixSolubility lib mi0 T P Sa
    pure r.1
  else
    let r ← mixSolubility lib mi0 T P Sa
    pure r.1

/-- `FluidParticle.solubility(m, T, P, Sa)` -/
def solubility (lib : Lib M α) (par : FluidPar α) (K : KSt α) (m : List α) (T P Sa : α) :
    M (List α × KSt α) := do
  if par.fpType < 2 then
    let r ← mixSolubility lib m T P Sa
    pure (row par.fpType r, K)
  else
    let fl ← lib.flash m T P K
    let v ← solubilityOfFlash lib par.code fl.1 fl.2.1 T P Sa
    pure (v, fl.2.2)

/-- `FluidParticle.diameter(m, T, P)` -/
def diameter (lib : Lib M α) (par : FluidPar α) (K : KSt α) (m : List α) (T P : α) : M (α × KSt α) := do
  let r ← density lib par K m T P
  pure (deOf (Num.sum m) r.1, r.2)

/-- the tuple `(shape, de, rho_p, rho, mu_p, mu, sigma)` -/
structure Shape (α : Type) where
  shape : Nat
  de : α
  rhoP : α
  rho : α
  muP : α
  mu : α
  sigma : α

/-- `FluidParticle.particle_shape(m, T, P, Sa, Ta)`, l.1434-1443 -/
def particleShape (lib : Lib M α) (par : FluidPar α) (K : KSt α) (m : List α) (T P Sa Ta : α) :
    M (Shape α × KSt α) := do
  let de ← diameter lib par K m T P
  let rhoP ← density lib par de.2 m T P
  let rho ← lib.swDensity Ta Sa P
  let mu ← lib.swMu Ta Sa P
  let muP ← viscosity lib par rhoP.2 m T P
  let sigma ← interfaceTension lib par muP.2 m T Sa P
  let shape ← lib.particleShape de.1 rhoP.1 rho mu sigma.1
  pure ({ shape := shape, de := de.1, rhoP := rhoP.1, rho := rho, muP := muP.1, mu := mu,
          sigma := sigma.1 }, sigma.2)

/-- l.1479-1480 etc.: `if self.fp_type == 2: status = -1` -/
def effClean (par : FluidPar α) (clean : Bool) : Bool := if par.fpType < 2 then clean else false

/-- `FluidParticle.slip_velocity(m, T, P, Sa, Ta, status)` -/
def slipVelocity (lib : Lib M α) (par : FluidPar α) (K : KSt α) (m : List α) (T P Sa Ta : α)
    (clean : Bool) : M (α × KSt α) := do
  let status := effClean par clean
  let s ← particleShape lib par K m T P Sa Ta
  if s.1.shape = 1 then
    let us ← lib.usSphere s.1.de s.1.rhoP s.1.rho s.1.mu
    pure (us, s.2)
  else if s.1.shape = 2 then
    let us ← lib.usEllipsoid s.1.de s.1.rhoP s.1.rho s.1.muP s.1.mu s.1.sigma status
    pure (us, s.2)
  else
    let us ← lib.usSphericalCap s.1.de s.1.rhoP s.1.rho
    pure (us, s.2)

/-- `FluidParticle.surface_area(m, T, P, Sa, Ta)`; l.1528 calls `slip_velocity` with the default
    status = -1 -/
def surfaceArea (lib : Lib M α) (par : FluidPar α) (K : KSt α) (m : List α) (T P Sa Ta : α) :
    M (α × KSt α) := do
  let s ← particleShape lib par K m T P Sa Ta
  if s.1.shape = 3 then
    let us ← slipVelocity lib par s.2 m T P Sa Ta false
    let th ← lib.thetaWSc s.1.de us.1 s.1.rho s.1.mu
    let A ← lib.surfaceAreaSc s.1.de th
    pure (A, us.2)
  else
    pure (sphereArea s.1.de, s.2)

/-- `FluidParticle.mass_transfer(m, T, P, Sa, Ta, status)` -/
def massTransfer (lib : Lib M α) (par : FluidPar α) (K : KSt α) (m : List α) (T P Sa Ta : α)
    (clean : Bool) : M (List α × KSt α) := do
  let status := effClean par clean
  let s ← particleShape lib par K m T P Sa Ta
  let us ← slipVelocity lib par s.2 m T P Sa Ta status
  let D ← mixDiffusivity lib Ta Sa P
  if s.1.shape = 1 then
    let b ← lib.xferSphere s.1.de us.1 s.1.rho s.1.mu D s.1.sigma s.1.muP par.fpType status
    pure (b, us.2)
  else if s.1.shape = 2 then
    let b ← lib.xferEllipsoid s.1.de us.1 s.1.rho s.1.mu D s.1.sigma s.1.muP par.fpType status
    pure (b, us.2)
  else
    let b ← lib.xferSphericalCap s.1.de us.1 s.1.rho s.1.rhoP s.1.mu D status
    pure (b, us.2)

/-- `k = np.array([seawater.k(Ta, Sa, P) / (seawater.density(Ta, Sa, P) * seawater.cp())])` -/
def thermalDiff (lib : Lib M α) (Ta Sa P : α) : M (List α) := do
  let kk ← lib.swK Ta Sa P
  let rho ← lib.swDensity Ta Sa P
  let cp ← lib.swCp
  pure [kk / (rho * cp)]

/-- `FluidParticle.heat_transfer(m, T, P, Sa, Ta, status)` (returns the 1-element array) -/
def heatTransfer (lib : Lib M α) (par : FluidPar α) (K : KSt α) (m : List α) (T P Sa Ta : α)
    (clean : Bool) : M (List α × KSt α) := do
  let status := effClean par clean
  let s ← particleShape lib par K m T P Sa Ta
  let k ← thermalDiff lib Ta Sa P
  let us ← slipVelocity lib par s.2 m T P Sa Ta status
  if s.1.shape = 1 then
    let b ← lib.xferSphere s.1.de us.1 s.1.rho s.1.mu k s.1.sigma s.1.muP par.fpType status
    pure (b, us.2)
  else if s.1.shape = 2 then
    let b ← lib.xferEllipsoid s.1.de us.1 s.1.rho s.1.mu k s.1.sigma s.1.muP par.fpType status
    pure (b, us.2)
  else
    let b ← lib.xferSphericalCap s.1.de us.1 s.1.rho s.1.rhoP s.1.mu k status
    pure (b, us.2)

-- ------------------------------------------------------------------ FluidParticle.return_all

/-- arguments of `return_all(m, T, P, Sa, Ta, status)` -/
structure Inp (α : Type) where
  m : List α
  T : α
  P : α
  Sa : α
  Ta : α
  clean : Bool

/-- the tuple `(shape, de, rho_p, us, A, Cs, beta, beta_T)` -/
structure Out (α : Type) where
  shape : Nat
  de : α
  rhoP : α
  us : α
  A : α
  Cs : List α
  beta : List α
  betaT : α

/-- (rho_p, mu_p, sigma, f) of the phase section -/
structure Phase (α : Type) where
  rhoP : α
  muP : α
  sigma : α
  f : List α

/-- l.1762-1843, after the flash -/
def phaseOfFlash (lib : Lib M α) (par : FluidPar α) (mi0 mi1 : List α) (T Sa P : α) : M (Phase α) := do
  if isZero (Num.sum mi0) then
    let r ← lib.eosDensity T P mi1
    let mu ← lib.eosViscosity T P mi1
    let s ← mixInterfaceTension lib par mi1 T Sa P
    let f ← lib.eosFugacity T P mi1
    pure { rhoP := r.2, muP := mu.2, sigma := s.2, f := f.2 }
  else if bundleGasBranch mi1 then
    let r ← lib.eosDensity T P mi0
    let mu ← lib.eosViscosity T P mi0
    let s ← mixInterfaceTension lib par mi0 T Sa P
    let f ← lib.eosFugacity T P mi0
    pure { rhoP := r.1, muP := mu.1, sigma := s.1, f := f.1 }
  else
    let r0 ← lib.eosDensity T P mi0
    let r1 ← lib.eosDensity T P mi1
    let mu0 ← lib.eosViscosity T P mi0
    let mu1 ← lib.eosViscosity T P mi1
    let s0 ← mixInterfaceTension lib par mi0 T Sa P
    let s1 ← mixInterfaceTension lib par mi1 T Sa P
    let f ← lib.eosFugacity T P mi0
    pure { rhoP := mixDensity (Num.sum mi0) (Num.sum mi1) r0.1 r1.2,
           muP := mixViscosity (Num.sum mi0) (Num.sum mi1) r0.1 r1.2 mu0.1 mu1.2,
           sigma := mixSigma s0.1 s1.2 (phaseArea (Num.sum mi0) r0.1) (phaseArea (Num.sum mi1) r1.2),
           f := f.1 }

/-- l.1733-1843 -/
def phaseProps (lib : Lib M α) (par : FluidPar α) (K : KSt α) (m : List α) (T Sa P : α) :
    M (Phase α × KSt α) := do
  if par.fpType < 2 then
    let r ← lib.eosDensity T P m
    let mu ← lib.eosViscosity T P m
    let s ← mixInterfaceTension lib par m T Sa P
    let f ← lib.eosFugacity T P m
    pure ({ rhoP := row par.fpType r, muP := row par.fpType mu, sigma := row par.fpType s,
            f := row par.fpType f }, K)
  else
    let fl ← lib.flash m T P K
    let v ← phaseOfFlash lib par fl.1 fl.2.1 T Sa P
    pure (v, fl.2.2)

/-- `FluidParticle.return_all(m, T, P, Sa, Ta, status)` -/
def returnAll (lib : Lib M α) (par : FluidPar α) (K : KSt α) (x : Inp α) : M (Out α × KSt α) := do
  let status := effClean par x.clean
  let rho ← lib.swDensity x.Ta x.Sa x.P
  let mu ← lib.swMu x.Ta x.Sa x.P
  let D ← lib.diffusivity mu
  let kk ← lib.swK x.Ta x.Sa x.P
  let cp ← lib.swCp
  let k := [kk / (rho * cp)]
  let kh ← lib.khInsitu x.T x.P x.Sa
  let ph ← phaseProps lib par K x.m x.T x.Sa x.P
  let Cs ← lib.swSolubility ph.1.f kh
  let de := deOf (Num.sum x.m) ph.1.rhoP
  let shape ← lib.particleShape de ph.1.rhoP rho mu ph.1.sigma
  if shape = 1 then
    let us ← lib.usSphere de ph.1.rhoP rho mu
    let beta ← lib.xferSphere de us rho mu D ph.1.sigma ph.1.muP par.fpType status
    let bT ← lib.xferSphere de us rho mu k ph.1.sigma ph.1.muP par.fpType status
    pure ({ shape := shape, de := de, rhoP := ph.1.rhoP, us := us, A := sphereArea de, Cs := Cs,
            beta := beta, betaT := bT.headD 0 }, ph.2)
  else if shape = 2 then
    let us ← lib.usEllipsoid de ph.1.rhoP rho ph.1.muP mu ph.1.sigma status
    let beta ← lib.xferEllipsoid de us rho mu D ph.1.sigma ph.1.muP par.fpType status
    let bT ← lib.xferEllipsoid de us rho mu k ph.1.sigma ph.1.muP par.fpType status
    pure ({ shape := shape, de := de, rhoP := ph.1.rhoP, us := us, A := sphereArea de, Cs := Cs,
            beta := beta, betaT := bT.headD 0 }, ph.2)
  else
    let us ← lib.usSphericalCap de ph.1.rhoP rho
    let th ← lib.thetaWSc de us rho mu
    let A ← lib.surfaceAreaSc de th
    let beta ← lib.xferSphericalCap de us rho ph.1.rhoP mu D status
    let bT ← lib.xferSphericalCap de us rho ph.1.rhoP mu k status
    pure ({ shape := shape, de := de, rhoP := ph.1.rhoP, us := us, A := A, Cs := Cs,
            beta := beta, betaT := bT.headD 0 }, ph.2)

/-- the tuple assembled from the individual methods, called one after the other on the same
    object (the cache `K` is threaded through the calls as the object does):
    `particle_shape(...)[0]`, `diameter`, `density`, `slip_velocity`, `surface_area`,
    `solubility`, `mass_transfer`, `heat_transfer(...)[0]` -/
def individual (lib : Lib M α) (par : FluidPar α) (K : KSt α) (x : Inp α) : M (Out α × KSt α) := do
  let s ← particleShape lib par K x.m x.T x.P x.Sa x.Ta
  let de ← diameter lib par s.2 x.m x.T x.P
  let rhoP ← density lib par de.2 x.m x.T x.P
  let us ← slipVelocity lib par rhoP.2 x.m x.T x.P x.Sa x.Ta x.clean
  let A ← surfaceArea lib par us.2 x.m x.T x.P x.Sa x.Ta
  let Cs ← solubility lib par A.2 x.m x.T x.P x.Sa
  let beta ← massTransfer lib par Cs.2 x.m x.T x.P x.Sa x.Ta x.clean
  let bT ← heatTransfer lib par beta.2 x.m x.T x.P x.Sa x.Ta x.clean
  pure ({ shape := s.1.shape, de := de.1, rhoP := rhoP.1, us := us.1, A := A.1, Cs := Cs.1,
          beta := beta.1, betaT := bT.1.headD 0 }, bT.2)

-- ------------------------------------------------------------------ query histories on one FluidParticle (C19)

/-- a property query on a `FluidParticle` object -/
inductive Query (α : Type) where
  | density (m : List α) (T P : α)
  | fugacity (m : List α) (T P : α)
  | viscosity (m : List α) (T P : α)
  | interfaceTension (m : List α) (T S P : α)
  | solubility (m : List α) (T P Sa : α)
  | diameter (m : List α) (T P : α)
  | particleShape (m : List α) (T P Sa Ta : α)
  | slipVelocity (m : List α) (T P Sa Ta : α) (clean : Bool)
  | surfaceArea (m : List α) (T P Sa Ta : α)
  | massTransfer (m : List α) (T P Sa Ta : α) (clean : Bool)
  | heatTransfer (m : List α) (T P Sa Ta : α) (clean : Bool)
  | returnAll (x : Inp α)

/-- what a query returns -/
inductive Answer (α : Type) where
  | scalar (v : α)
  | vector (v : List α)
  | shape (s : Shape α)
  | all (o : Out α)

/-- the masses / state a query flashes (for mixed-phase particles) -/
def Query.state : Query α → List α × α × α
  | .density m T P => (m, T, P)
  | .fugacity m T P => (m, T, P)
  | .viscosity m T P => (m, T, P)
  | .interfaceTension m T _ P => (m, T, P)
  | .solubility m T P _ => (m, T, P)
  | .diameter m T P => (m, T, P)
  | .particleShape m T P _ _ => (m, T, P)
  | .slipVelocity m T P _ _ _ => (m, T, P)
  | .surfaceArea m T P _ _ => (m, T, P)
  | .massTransfer m T P _ _ _ => (m, T, P)
  | .heatTransfer m T P _ _ _ => (m, T, P)
  | .returnAll x => (x.m, x.T, x.P)

/-- one query on the object whose cache holds `K`: (answer, cache after) -/
def answer (lib : Lib M α) (par : FluidPar α) (K : KSt α) : Query α → M (Answer α × KSt α)
  | .density m T P => do let r ← density lib par K m T P; pure (.scalar r.1, r.2)
  | .fugacity m T P => do let r ← fugacity lib par K m T P; pure (.vector r.1, r.2)
  | .viscosity m T P => do let r ← viscosity lib par K m T P; pure (.scalar r.1, r.2)
  | .interfaceTension m T S P => do let r ← interfaceTension lib par K m T S P; pure (.scalar r.1, r.2)
  | .solubility m T P Sa => do let r ← solubility lib par K m T P Sa; pure (.vector r.1, r.2)
  | .diameter m T P => do let r ← diameter lib par K m T P; pure (.scalar r.1, r.2)
  | .particleShape m T P Sa Ta => do let r ← particleShape lib par K m T P Sa Ta; pure (.shape r.1, r.2)
  | .slipVelocity m T P Sa Ta c => do let r ← slipVelocity lib par K m T P Sa Ta c; pure (.scalar r.1, r.2)
  | .surfaceArea m T P Sa Ta => do let r ← surfaceArea lib par K m T P Sa Ta; pure (.scalar r.1, r.2)
  | .massTransfer m T P Sa Ta c => do let r ← massTransfer lib par K m T P Sa Ta c; pure (.vector r.1, r.2)
  | .heatTransfer m T P Sa Ta c => do let r ← heatTransfer lib par K m T P Sa Ta c; pure (.vector r.1, r.2)
  | .returnAll x => do let r ← returnAll lib par K x; pure (.all r.1, r.2)

/-- the cache after a history of queries -/
def cacheAfter (lib : Lib Id α) (par : FluidPar α) : KSt α → List (Query α) → KSt α
  | K, [] => K
  | K, q :: qs => cacheAfter lib par (answer lib par K q).2 qs

-- ------------------------------------------------------------------ InsolubleParticle (l.1974-2466)

/-- the attributes of an `InsolubleParticle`; `inf` stands for `np.inf` (viscosity and
    interfacial tension of a solid) -/
structure InertPar (α : Type) where
  isfluid : Bool
  iscompressible : Bool
  rhoP : α
  gamma : α
  beta : α
  co : α
  fpType : Nat
  inf : α

def Pstp : α := 101325.0
def Tstp : α := 273.15 + (60.0 - 32.0) * 5.0 / 9.0

/-- `InsolubleParticle.density(T, P, Sa, Ta)` -/
def iDensity (lib : Lib M α) (par : InertPar α) (T P : α) : M α := do
  if par.iscompressible then
    let rhoStp ← lib.swDensity Tstp 0.0 Pstp
    let gamma0 := 141.5 / (par.gamma + 131.5)
    let r0 := gamma0 * rhoStp
    let r1 := r0 * Num.exp (par.co * (P - Pstp))
    pure (r1 * (1 - par.beta * (T - Tstp)))
  else
    pure par.rhoP

/-- `InsolubleParticle.viscosity(T)` -/
def iViscosity (par : InertPar α) (T : α) : α :=
  if par.isfluid then
    let TF := (T - 273.15) * 9.0 / 5.0 + 32.0
    (Num.rpow 10.0 (Num.rpow 10.0 (1.8653 - 0.025086 * par.gamma - 0.5644 * Num.log10 TF)) - 1.0) / 1000.0
  else par.inf

/-- `InsolubleParticle.interface_tension(T)` -/
def iInterfaceTension (lib : Lib M α) (par : InertPar α) (T : α) : M α := do
  if par.isfluid then
    lib.swSigma T 34.5
  else
    pure par.inf

/-- `InsolubleParticle.diameter(m, T, P, Sa, Ta)` (`m` is a scalar mass) -/
def iDiameter (lib : Lib M α) (par : InertPar α) (m T P : α) : M α := do
  let r ← iDensity lib par T P
  pure (deOf m r)

/-- `InsolubleParticle.particle_shape(m, T, P, Sa, Ta)` -/
def iParticleShape (lib : Lib M α) (par : InertPar α) (m T P Sa Ta : α) : M (Shape α) := do
  let de ← iDiameter lib par m T P
  let rhoP ← iDensity lib par T P
  let rho ← lib.swDensity Ta Sa P
  let mu ← lib.swMu Ta Sa P
  let muP := iViscosity par T
  let sigma ← iInterfaceTension lib par T
  if par.isfluid then
    let shape ← lib.particleShape de rhoP rho mu sigma
    pure { shape := shape, de := de, rhoP := rhoP, rho := rho, muP := muP, mu := mu, sigma := sigma }
  else
    pure { shape := 4, de := de, rhoP := rhoP, rho := rho, muP := muP, mu := mu, sigma := sigma }

/-- `InsolubleParticle.slip_velocity(m, T, P, Sa, Ta, status)` -/
def iSlipVelocity (lib : Lib M α) (par : InertPar α) (m T P Sa Ta : α) (clean : Bool) : M α := do
  let s ← iParticleShape lib par m T P Sa Ta
  if s.shape = 1 ∨ s.shape = 4 then
    lib.usSphere s.de s.rhoP s.rho s.mu
  else if s.shape = 2 then
    lib.usEllipsoid s.de s.rhoP s.rho s.muP s.mu s.sigma clean
  else
    lib.usSphericalCap s.de s.rhoP s.rho

/-- `InsolubleParticle.surface_area(m, T, P, Sa, Ta)` -/
def iSurfaceArea (lib : Lib M α) (par : InertPar α) (m T P Sa Ta : α) : M α := do
  let s ← iParticleShape lib par m T P Sa Ta
  if s.shape = 3 then
    let us ← iSlipVelocity lib par m T P Sa Ta false
    let th ← lib.thetaWSc s.de us s.rho s.mu
    lib.surfaceAreaSc s.de th
  else
    pure (sphereArea s.de)

/-- `InsolubleParticle.heat_transfer(m, T, P, Sa, Ta, status)` (the 1-element array) -/
def iHeatTransfer (lib : Lib M α) (par : InertPar α) (m T P Sa Ta : α) (clean : Bool) : M (List α) := do
  let s ← iParticleShape lib par m T P Sa Ta
  let k ← thermalDiff lib Ta Sa P
  let us ← iSlipVelocity lib par m T P Sa Ta clean
  if s.shape = 1 ∨ s.shape = 4 then
    lib.xferSphere s.de us s.rho s.mu k s.sigma s.muP par.fpType clean
  else if s.shape = 2 then
    lib.xferEllipsoid s.de us s.rho s.mu k s.sigma s.muP par.fpType clean
  else
    lib.xferSphericalCap s.de us s.rho s.rhoP s.mu k clean

/-- arguments of `InsolubleParticle.return_all(m, T, P, Sa, Ta, status)` -/
structure IInp (α : Type) where
  m : α
  T : α
  P : α
  Sa : α
  Ta : α
  clean : Bool

/-- the tuple `(shape, de, rho_p, us, A, beta_T)` -/
structure IOut (α : Type) where
  shape : Nat
  de : α
  rhoP : α
  us : α
  A : α
  betaT : α

/-- `InsolubleParticle.return_all(m, T, P, Sa, Ta, status)` -/
def iReturnAll (lib : Lib M α) (par : InertPar α) (x : IInp α) : M (IOut α) := do
  let rho ← lib.swDensity x.Ta x.Sa x.P
  let mu ← lib.swMu x.Ta x.Sa x.P
  let sigma ← iInterfaceTension lib par x.T
  let kk ← lib.swK x.Ta x.Sa x.P
  let cp ← lib.swCp
  let k := [kk / (rho * cp)]
  let rhoP ← iDensity lib par x.T x.P
  let de := deOf x.m rhoP
  let shape ← (if par.isfluid then lib.particleShape de rhoP rho mu sigma else pure 4)
  let muP := iViscosity par x.T
  if shape = 1 ∨ shape = 4 then
    let us ← lib.usSphere de rhoP rho mu
    let bT ← lib.xferSphere de us rho mu k sigma muP par.fpType x.clean
    pure { shape := shape, de := de, rhoP := rhoP, us := us, A := sphereArea de, betaT := bT.headD 0 }
  else if shape = 2 then
    let us ← lib.usEllipsoid de rhoP rho muP mu sigma x.clean
    let bT ← lib.xferEllipsoid de us rho mu k sigma muP par.fpType x.clean
    pure { shape := shape, de := de, rhoP := rhoP, us := us, A := sphereArea de, betaT := bT.headD 0 }
  else
    let us ← lib.usSphericalCap de rhoP rho
    let th ← lib.thetaWSc de us rho mu
    let A ← lib.surfaceAreaSc de th
    let bT ← lib.xferSphericalCap de us rho rhoP mu k x.clean
    pure { shape := shape, de := de, rhoP := rhoP, us := us, A := A, betaT := bT.headD 0 }

/-- the tuple assembled from the individual methods of an `InsolubleParticle` -/
def iIndividual (lib : Lib M α) (par : InertPar α) (x : IInp α) : M (IOut α) := do
  let s ← iParticleShape lib par x.m x.T x.P x.Sa x.Ta
  let de ← iDiameter lib par x.m x.T x.P
  let rhoP ← iDensity lib par x.T x.P
  let us ← iSlipVelocity lib par x.m x.T x.P x.Sa x.Ta x.clean
  let A ← iSurfaceArea lib par x.m x.T x.P x.Sa x.Ta
  let bT ← iHeatTransfer lib par x.m x.T x.P x.Sa x.Ta x.clean
  pure { shape := s.shape, de := de, rhoP := rhoP, us := us, A := A, betaT := bT.headD 0 }

-- ------------------------------------------------------------------ oracle-table driver
/-!  The library at `Float` is the TABLE of calls recorded on the real code (harness/c09.py):
     one entry = routine name, flattened arguments, flattened answer.  A question is answered by
     the closest entry of the same name whose arguments agree within 1e-11 (relative, per
     element); every question is logged.  An unanswered question is logged as missed and
     answered by NaN / the empty list. -/
namespace Oracle
open TamocV.Proto

structure Entry where
  name : String
  args : List Float
  res : List Float

structure Log where
  asked : List Nat := []
  missed : List String := []

abbrev OM := StateM Log

def nan : Float := 0.0 / 0.0
def inf : Float := 1.0 / 0.0

/-- relative distance of two floats; NaN matches NaN, ±inf matches itself -/
def dist (a b : Float) : Float :=
  if a.isNaN || b.isNaN then (if a.isNaN && b.isNaN then 0.0 else inf)
  else if a == b then 0.0
  else (a - b).abs / (if a.abs < b.abs then b.abs else a.abs)

def argsDist : List Float → List Float → Float
  | [], [] => 0.0
  | a :: as, b :: bs => let d := dist a b; let r := argsDist as bs; if d < r then r else d
  | _, _ => inf

/-- index and answer of the closest entry within tolerance -/
def lookup (tab : List Entry) (name : String) (args : List Float) : Option (Nat × List Float) :=
  let rec go (l : List Entry) (i : Nat) (best : Option (Nat × List Float × Float)) :
      Option (Nat × List Float × Float) :=
    match l with
    | [] => best
    | e :: es =>
      if e.name == name then
        let d := argsDist e.args args
        if d ≤ 1e-11 then
          match best with
          | some (_, _, db) => if d < db then go es (i + 1) (some (i, e.res, d)) else go es (i + 1) best
          | none => go es (i + 1) (some (i, e.res, d))
        else go es (i + 1) best
      else go es (i + 1) best
  (go tab 0 none).map fun r => (r.1, r.2.1)

def ask (tab : List Entry) (name : String) (args : List Float) : OM (List Float) := do
  match lookup tab name args with
  | some (i, r) =>
    modify fun l => { l with asked := i :: l.asked }
    pure r
  | none =>
    modify fun l => { l with missed := name :: l.missed }
    pure []

def st (clean : Bool) : Float := if clean then 1.0 else -1.0
def sc (r : List Float) : Float := r.headD nan
def pr (r : List Float) : Float × Float := (r.getD 0 nan, r.getD 1 nan)
def halves (r : List Float) : List Float × List Float := (r.take (r.length / 2), r.drop (r.length / 2))

/-- the recorded table as a library -/
def lib (tab : List Entry) : Lib OM Float where
  eosDensity T P m := do let r ← ask tab "density" ([T, P] ++ m); pure (pr r)
  eosViscosity T P m := do let r ← ask tab "viscosity" ([T, P] ++ m); pure (pr r)
  eosFugacity T P m := do let r ← ask tab "fugacity" ([T, P] ++ m); pure (halves r)
  moleFraction m := ask tab "mole_fraction" m
  khInsitu T P S := ask tab "kh_insitu" [T, P, S]
  swSolubility f kh := ask tab "sw_solubility" (f ++ kh)
  diffusivity mu := ask tab "diffusivity" [mu]
  flash m T P K := do
    let kArgs := match K with | some k => 1.0 :: k | none => [0.0]
    let r ← ask tab "equilibrium" (m ++ [T, P] ++ kArgs)
    let n := m.length
    pure (r.take n, (r.drop n).take n, some (r.drop (2 * n)))
  swDensity T S P := do let r ← ask tab "sw_density" [T, S, P]; pure (sc r)
  swMu T S P := do let r ← ask tab "sw_mu" [T, S, P]; pure (sc r)
  swK T S P := do let r ← ask tab "sw_k" [T, S, P]; pure (sc r)
  swCp := do let r ← ask tab "sw_cp" []; pure (sc r)
  swSigma T S := do let r ← ask tab "sw_sigma" [T, S]; pure (sc r)
  particleShape de rp r mu s := do
    let x ← ask tab "particle_shape" [de, rp, r, mu, s]
    pure (sc x).toUInt64.toNat
  usSphere de rp r mu := do let x ← ask tab "us_sphere" [de, rp, r, mu]; pure (sc x)
  usEllipsoid de rp r mup mu s c := do
    let x ← ask tab "us_ellipsoid" [de, rp, r, mup, mu, s, st c]; pure (sc x)
  usSphericalCap de rp r := do let x ← ask tab "us_spherical_cap" [de, rp, r]; pure (sc x)
  thetaWSc de us r mu := do let x ← ask tab "theta_w_sc" [de, us, r, mu]; pure (sc x)
  surfaceAreaSc de th := do let x ← ask tab "surface_area_sc" [de, th]; pure (sc x)
  xferSphere de us r mu D s mup fp c :=
    ask tab "xfer_sphere" ([de, us, r, mu] ++ D ++ [s, mup, fp.toFloat, st c])
  xferEllipsoid de us r mu D s mup fp c :=
    ask tab "xfer_ellipsoid" ([de, us, r, mu] ++ D ++ [s, mup, fp.toFloat, st c])
  xferSphericalCap de us r rp mu D c :=
    ask tab "xfer_spherical_cap" ([de, us, r, rp, mu] ++ D ++ [st c])

def parseTable : List Arg → Option (List Entry)
  | [] => some []
  | .t name :: .v args :: .v res :: rest =>
      (parseTable rest).map fun es => { name := name, args := args, res := res } :: es
  | _ => none

def kArgs (K : KSt Float) : List Arg :=
  match K with
  | some k => [.n 1, .v k]
  | none => [.n 0, .v []]

def logArgs (l : Log) : List Arg :=
  [.v (l.asked.reverse.map Nat.toFloat), .n l.missed.length, .t (",".intercalate l.missed.reverse)]

def outArgs (o : Out Float) : List Arg :=
  [.n o.shape, .s o.de, .s o.rhoP, .s o.us, .s o.A, .v o.Cs, .v o.beta, .s o.betaT]

def shapeArgs (s : Shape Float) : List Arg :=
  [.n s.shape, .s s.de, .s s.rhoP, .s s.rho, .s s.muP, .s s.mu, .s s.sigma]

def iOutArgs (o : IOut Float) : List Arg :=
  [.n o.shape, .s o.de, .s o.rhoP, .s o.us, .s o.A, .s o.betaT]

/-- run one FluidParticle method against the table -/
def runFluid (method : String) (tab : List Entry) (par : FluidPar Float) (K : KSt Float)
    (x : Inp Float) : Option (List Arg) :=
  let L := lib tab
  let fin {β : Type} (act : OM (β × KSt Float)) (f : β → List Arg) : Option (List Arg) :=
    let r := act.run {}
    some (f r.1.1 ++ kArgs r.1.2 ++ logArgs r.2)
  match method with
  | "density" => fin (density L par K x.m x.T x.P) fun v => [.s v]
  | "fugacity" => fin (fugacity L par K x.m x.T x.P) fun v => [.v v]
  | "viscosity" => fin (viscosity L par K x.m x.T x.P) fun v => [.s v]
  | "interface_tension" => fin (interfaceTension L par K x.m x.T x.Sa x.P) fun v => [.s v]
  | "solubility" => fin (solubility L par K x.m x.T x.P x.Sa) fun v => [.v v]
  | "diameter" => fin (diameter L par K x.m x.T x.P) fun v => [.s v]
  | "particle_shape" => fin (particleShape L par K x.m x.T x.P x.Sa x.Ta) shapeArgs
  | "slip_velocity" => fin (slipVelocity L par K x.m x.T x.P x.Sa x.Ta x.clean) fun v => [.s v]
  | "surface_area" => fin (surfaceArea L par K x.m x.T x.P x.Sa x.Ta) fun v => [.s v]
  | "mass_transfer" => fin (massTransfer L par K x.m x.T x.P x.Sa x.Ta x.clean) fun v => [.v v]
  | "heat_transfer" => fin (heatTransfer L par K x.m x.T x.P x.Sa x.Ta x.clean) fun v => [.v v]
  | "return_all" => fin (returnAll L par K x) outArgs
  | "individual" => fin (individual L par K x) outArgs
  | _ => none

/-- run one InsolubleParticle method against the table -/
def runInert (method : String) (tab : List Entry) (par : InertPar Float) (x : IInp Float) :
    Option (List Arg) :=
  let L := lib tab
  let fin {β : Type} (act : OM β) (f : β → List Arg) : Option (List Arg) :=
    let r := act.run {}
    some (f r.1 ++ logArgs r.2)
  match method with
  | "density" => fin (iDensity L par x.T x.P) fun v => [.s v]
  | "viscosity" => fin (pure (iViscosity par x.T)) fun v => [.s v]
  | "interface_tension" => fin (iInterfaceTension L par x.T) fun v => [.s v]
  | "diameter" => fin (iDiameter L par x.m x.T x.P) fun v => [.s v]
  | "particle_shape" => fin (iParticleShape L par x.m x.T x.P x.Sa x.Ta) shapeArgs
  | "slip_velocity" => fin (iSlipVelocity L par x.m x.T x.P x.Sa x.Ta x.clean) fun v => [.s v]
  | "surface_area" => fin (iSurfaceArea L par x.m x.T x.P x.Sa x.Ta) fun v => [.s v]
  | "heat_transfer" => fin (iHeatTransfer L par x.m x.T x.P x.Sa x.Ta x.clean) fun v => [.v v]
  | "return_all" => fin (iReturnAll L par x) iOutArgs
  | "individual" => fin (iIndividual L par x) iOutArgs
  | _ => none

end Oracle

open TamocV.Proto in
/-- `P09.fluid t:method n:fpType n:isair n:zeroEntryTest n:gasViscLiquidRow sigmaCorr v:Tc v:m T P Sa Ta n:clean n:hasK v:K  (t:name v:args v:res)*`
    → method outputs, `n:hasK' v:K'`, `v:asked n:missed t:missed-names`
    `P09.inert t:method n:isfluid n:iscompressible rhoP gamma beta co n:fpType m T P Sa Ta n:clean (table)*`
    → method outputs, `v:asked n:missed t:missed-names` -/
def dispatch : Dispatch := fun name args =>
  match name, args with
  | "P09.fluid", .t method :: .n fp :: .n isair :: .n zt :: .n gv :: .s sc :: .v Tc :: .v m :: .s T :: .s P :: .s Sa ::
      .s Ta :: .n clean :: .n hasK :: .v K :: rest =>
      (Oracle.parseTable rest).bind fun tab =>
        Oracle.runFluid method tab
          { fpType := fp, isair := isair != 0, sigmaCorr := sc, Tc := Tc,
            code := { zeroEntryTest := zt != 0, gasViscLiquidRow := gv != 0 } }
          (if hasK != 0 then some K else none)
          { m := m, T := T, P := P, Sa := Sa, Ta := Ta, clean := clean != 0 }
  | "P09.inert", .t method :: .n isfluid :: .n iscomp :: .s rhoP :: .s gamma :: .s beta :: .s co ::
      .n fp :: .s m :: .s T :: .s P :: .s Sa :: .s Ta :: .n clean :: rest =>
      (Oracle.parseTable rest).bind fun tab =>
        Oracle.runInert method tab
          { isfluid := isfluid != 0, iscompressible := iscomp != 0, rhoP := rhoP, gamma := gamma,
            beta := beta, co := co, fpType := fp, inf := Oracle.inf }
          { m := m, T := T, P := P, Sa := Sa, Ta := Ta, clean := clean != 0 }
  | _, _ => none

end TamocV.Model.Particle09
