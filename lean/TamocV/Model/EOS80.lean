/-
  TamocV.Model.EOS80 — independent, table-driven reference implementation of the
  International Equation of State of Seawater 1980 (UNESCO Tech. Pap. Mar. Sci. 44,
  Fofonoff & Millard 1983, p. 15-19; Gill 1982, App. 3): one-atmosphere density
  (Millero & Poisson 1981) and secant bulk modulus.  Coefficient tables are typed
  from the standard, NOT from /repo; t in °C (IPTS-68), S practical salinity,
  p in bar.  Generic in `[Num α]`; Horner evaluation.
-/
import TamocV.Num
import TamocV.Proto

namespace TamocV.Model.EOS80
variable {α : Type} [Num α]

/-- Horner evaluation of c₀ + c₁ t + c₂ t² + … -/
def poly (cs : List α) (t : α) : α := cs.foldr (fun c acc => c + t * acc) 0

-- pure water density
def rhoW : List α := [999.842594, 6.793952e-2, -9.095290e-3, 1.001685e-4, -1.120083e-6, 6.536332e-9]
-- salinity terms of the one-atmosphere density
def rhoS1 : List α := [8.24493e-1, -4.0899e-3, 7.6438e-5, -8.2467e-7, 5.3875e-9]
def rhoS32 : List α := [-5.72466e-3, 1.0227e-4, -1.6546e-6]
def rhoS2 : α := 4.8314e-4
-- secant bulk modulus
def kW : List α := [19652.21, 148.4206, -2.327105, 1.360477e-2, -5.155288e-5]
def kS1 : List α := [54.6746, -0.603459, 1.09987e-2, -6.1670e-5]
def kS32 : List α := [7.944e-2, 1.6483e-2, -5.3009e-4]
def aW : List α := [3.239908, 1.43713e-3, 1.16092e-4, -5.77905e-7]
def aS1 : List α := [2.2838e-3, -1.0981e-5, -1.6078e-6]
def aS32 : α := 1.91075e-4
def bW : List α := [8.50935e-5, -6.12293e-6, 5.2787e-8]
def bS1 : List α := [-9.9348e-7, 2.0816e-8, 9.1697e-10]

/-- `s32` stands for S^{3/2}; kept as an argument so that the algebraic identity with
    the code does not depend on how the power is computed -/
def rho0' (t S s32 : α) : α :=
  poly rhoW t + poly rhoS1 t * S + poly rhoS32 t * s32 + rhoS2 * (S * S)

def K' (t S s32 p : α) : α :=
  (poly kW t + poly kS1 t * S + poly kS32 t * s32)
  + (poly aW t + poly aS1 t * S + aS32 * s32) * p
  + (poly bW t + poly bS1 t * S) * (p * p)

def rho' (t S s32 p : α) : α := rho0' t S s32 / (1 - p / K' t S s32 p)

def s32 (S : α) : α := Num.rpow S ((3 : α) / 2)

def rho0 (t S : α) : α := rho0' t S (s32 S)
def K (t S p : α) : α := K' t S (s32 S) p
def rho (t S p : α) : α := rho' t S (s32 S) p

open TamocV.Proto in
def dispatch : Dispatch := fun name args =>
  match name, args with
  | "EOS80.rho", [.s t, .s S, .s p] => some [.s (rho (α := Float) t S p)]
  | "EOS80.K", [.s t, .s S, .s p] => some [.s (K (α := Float) t S p)]
  | "EOS80.rho0", [.s t, .s S] => some [.s (rho0 (α := Float) t S)]
  | _, _ => none

end TamocV.Model.EOS80
