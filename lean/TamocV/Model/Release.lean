/-
  TamocV.Model.Release — hand transcription (DESIGN §2.2 b) of the release set-up of the plume models

    * `dispersed_phases.initial_conditions`            (/repo/tamoc/dispersed_phases.py l.481-585)
      all three `q_type` conventions (0: one particle of the given diameter, 1: volume flux at
      standard conditions 0 °C / 1 bar, 2: mass flux), soluble and insoluble particles
    * `blowout.particles`                              (/repo/tamoc/blowout.py l.799-873)
    * the hand-off of `Blowout._update`                (l.352-390: phase totals `np.sum(m[k,:])`,
      mole fractions `xi[k,:]`, one call of `particles` per phase)
    * `stratified_plume_model.particle_from_Q / particle_from_mb0`  (l.1947-2063)
    * `lmp.bent_plume_ic`, the particle part           (/repo/tamoc/lmp.py l.851-893: fill time,
      `nbe = nb0 * dt`)
    * `dispersed_phases.particles_state_space`         (l.1580-1622)
    * the small arithmetic methods of `dbm.FluidMixture/FluidParticle/InsolubleParticle` used by
      them: `masses` (dbm.py l.372-387), `mass_frac` (l.389-406), `dbm_p.mole_fraction`
      (dbm_p.py l.1243-1249), `masses_by_diameter` (l.1327-1362), `diameter` (l.1364-1384),
      `mass_by_diameter` (l.2130-2154), insoluble `diameter` (l.2156-2178)

  The equations of state are NOT modelled: the particle's density function, its
  `masses_by_diameter` and the ambient values `profile.get_values(z0, [T, S, P])` are parameters
  (`Oracle`, `Amb`) — an oracle table recorded from the real objects by the harness.

  Generic in `[Num α]`: executed at `Float` by the driver, reasoned about at `ℝ` in Props/C11.
  Transcribes what the code DOES, line by line, same operation order.
-/
import TamocV.Num
import TamocV.Proto

namespace TamocV.Model.Release
variable {α : Type} [Num α]

/-- `np.pi` (the double nearest to π); the theorems hold for any non-zero value -/
def pi : α := 3.141592653589793

-- ------------------------------------------------------------------ dbm arithmetic helpers

/-- `FluidMixture.masses(n)`: `n * self.M` -/
def masses (M n : List α) : List α := Num.vmul n M

/-- `FluidMixture.mass_frac(n)`: `m = self.masses(n); m / np.sum(m)` -/
def massFrac (M n : List α) : List α :=
  let m := masses M n
  m.map (· / Num.sum m)

/-- `dbm_f.mole_fraction(m, M)`: `n = m / M; n / np.sum(n)` -/
def molFrac (M m : List α) : List α :=
  let n := Num.vdiv m M
  n.map (· / Num.sum n)

-- ------------------------------------------------------------------ oracle

/-- `(Ta, Sa, P) = profile.get_values(z0, ['temperature', 'salinity', 'pressure'])` -/
structure Amb (α : Type) where
  Ta : α
  Sa : α
  P : α

/-- the library answers the set-up code relies on -/
structure Oracle (α : Type) where
  /-- `dbm.FluidParticle.density(m, T, P)` (phase `fp_type` of the particle) -/
  rho : List α → α → α → α
  /-- `dbm.InsolubleParticle.density(T, P, Sa, Ta)` -/
  rhoI : α → α → α → α → α
  /-- `dbm.FluidParticle.masses_by_diameter(de, T, P, yk)` -/
  mbd : α → α → α → List α → List α
  /-- `dbm.InsolubleParticle.mass_by_diameter(de, T, P, Sa, Ta)` -/
  mbdI : α → α → α → α → α → α

/-- `FluidParticle.masses_by_diameter` itself (dbm.py l.1351-1362), density as oracle -/
def massesByDiameter (rho : List α → α → α → α) (M : List α) (de T P : α) (yk : List α) : List α :=
  let m := masses M yk
  let mTot := 1.0 / 6.0 * pi * Num.npow de 3 * rho m T P
  let n := yk.map (· * mTot / Num.sum m)
  masses M n

/-- `FluidParticle.diameter(m, T, P)` (l.1384) -/
def diameter (rho : List α → α → α → α) (m : List α) (T P : α) : α :=
  Num.rpow (6.0 * Num.sum m / (pi * rho m T P)) (1.0 / 3.0)

/-- `InsolubleParticle.mass_by_diameter(de, T, P, Sa, Ta)` (l.2154) -/
def massByDiameterI (rhoI : α → α → α → α → α) (de T P Sa Ta : α) : α :=
  1.0 / 6.0 * pi * Num.npow de 3 * rhoI T P Sa Ta

/-- `InsolubleParticle.diameter(m, T, P, Sa, Ta)` (l.2178) -/
def diameterI (rhoI : α → α → α → α → α) (m T P Sa Ta : α) : α :=
  Num.rpow (6.0 * m / (pi * rhoI T P Sa Ta)) (1.0 / 3.0)

/-- the oracle whose `masses_by_diameter` methods are the transcribed ones (only the two density
    functions remain library answers) -/
def fluidOracle (rho : List α → α → α → α) (rhoI : α → α → α → α → α) (M : List α) : Oracle α :=
  { rho := rho, rhoI := rhoI, mbd := massesByDiameter rho M, mbdI := massByDiameterI rhoI }

-- ------------------------------------------------------------------ initial_conditions

/-- the returned tuple `(m0, T0, nb0, P, Sa, Ta)`; an insoluble particle has the one-entry `m0` -/
structure IC (α : Type) where
  m0 : List α
  T0 : α
  nb0 : α
  P : α
  Sa : α
  Ta : α

/-- l.545-546 `if T0 is None: T0 = copy(Ta)` -/
def releaseT (amb : Amb α) (T0 : Option α) : α := T0.getD amb.Ta

/-- l.549-556: `mf` -/
def icMf (M : List α) (soluble : Bool) (yk : List α) : List α :=
  if soluble then massFrac M yk else [1.0]

/-- l.551 / l.555: density at standard conditions (0 °C, 1 bar) -/
def icRhoN (o : Oracle α) (M : List α) (soluble : Bool) (yk : List α) : α :=
  if soluble then o.rho (massFrac M yk) 273.15 1.0e5 else o.rhoI 273.15 1.0e5 0.0 273.15

/-- l.552 / l.556: density at release conditions -/
def icRhoP (o : Oracle α) (M : List α) (soluble : Bool) (amb : Amb α) (yk : List α) (T0 : α) : α :=
  if soluble then o.rho (massFrac M yk) T0 amb.P else o.rhoI T0 amb.P amb.Sa amb.Ta

/-- l.567-572: total mass flux from the flux convention (`q_type` 1: `q * rho_N`, else `q`) -/
def icMdot (qType : Nat) (q rhoN : α) : α := if qType = 1 then q * rhoN else q

/-- l.575-576: `Q = m_dot / rho_p; nb0 = Q / (np.pi * de**3 / 6.)` -/
def icNb0 (mDot rhoP de : α) : α :=
  let Q := mDot / rhoP
  Q / (pi * Num.npow de 3 / 6.0)

/-- l.581: mass of one particle from its volume and density, `rho_p * (np.pi * de**3 / 6.)`
    (equal to `m_dot / nb0`, but defined also when the flux, and hence `nb0`, is zero) -/
def icMass (rhoP de : α) : α := rhoP * (pi * Num.npow de 3 / 6.0)

/-- `dispersed_phases.initial_conditions(profile, z0, dbm_particle, yk, q, q_type, de, T0)`;
    `M = dbm_particle.M`, `soluble = dbm_particle.issoluble`, `amb = profile.get_values(z0, …)` -/
def initialConditions (o : Oracle α) (M : List α) (soluble : Bool) (amb : Amb α) (yk : List α)
    (q : α) (qType : Nat) (de : α) (T0 : Option α) : IC α :=
  let T0 := releaseT amb T0
  let mf := icMf M soluble yk
  let rhoN := icRhoN o M soluble yk
  let rhoP := icRhoP o M soluble amb yk T0
  if qType = 0 then
    let m0 := if soluble then o.mbd de T0 amb.P yk else [o.mbdI de T0 amb.P amb.Sa amb.Ta]
    { m0 := m0, T0 := T0, nb0 := 1.0, P := amb.P, Sa := amb.Sa, Ta := amb.Ta }
  else
    let mDot := icMdot qType q rhoN
    let nb0 := icNb0 mDot rhoP de
    let m0 := mf.map (icMass rhoP de * ·)
    { m0 := m0, T0 := T0, nb0 := nb0, P := amb.P, Sa := amb.Sa, Ta := amb.Ta }

/-- `nb0 * m0`: the mass flux of every component carried by this particle class -/
def flux (p : IC α) : List α := Num.smul p.nb0 p.m0

/-- component `j` of the flux summed over a list of particle classes -/
def compFlux (j : Nat) (ps : List (IC α)) : α :=
  Num.sum (ps.map fun p => p.nb0 * p.m0.getD j 0)

-- ------------------------------------------------------------------ particle_from_Q / _mb0

/-- `stratified_plume_model.particle_from_Q`: `initial_conditions(…, Q_N, 1, de, T0)` -/
def particleFromQ (o : Oracle α) (M : List α) (soluble : Bool) (amb : Amb α) (yk : List α)
    (QN de : α) (T0 : Option α) : IC α :=
  initialConditions o M soluble amb yk QN 1 de T0

/-- `stratified_plume_model.particle_from_mb0`: `initial_conditions(…, mb0, 2, de, T0)` -/
def particleFromMb0 (o : Oracle α) (M : List α) (soluble : Bool) (amb : Amb α) (yk : List α)
    (mb0 de : α) (T0 : Option α) : IC α :=
  initialConditions o M soluble amb yk mb0 2 de T0

-- ------------------------------------------------------------------ blowout.particles

/-- `blowout.particles(m_tot, d, vf, profile, oil, yk, x0, y0, z0, Tj, …)`:
    `for i in range(len(d)): mb0 = vf[i] * m_tot; initial_conditions(…, yk, mb0, 2, d[i], Tj)` -/
def particles (o : Oracle α) (M : List α) (amb : Amb α) (mTot : α) :
    List α → List α → List α → α → List (IC α)
  | d :: ds, vf :: vfs, yk, Tj =>
      initialConditions o M true amb yk (vf * mTot) 2 d (some Tj) :: particles o M amb mTot ds vfs yk Tj
  | _, _, _, _ => []

/-- the hand-off of `Blowout._update` (l.353-390): `m, xi, K = oil.equilibrium(mass_flux, Tj, P0)`;
    gas bins from `(np.sum(m[0,:]), d_gas, vf_gas, gas, xi[0,:])`, then the liquid bins from
    `(np.sum(m[1,:]), d_liq, vf_liq, liq, xi[1,:])`.  `oGas`, `oLiq`: the two `FluidParticle`s. -/
def blowoutPhases (oGas oLiq : Oracle α) (M : List α) (amb : Amb α) (mGas mLiq xiGas xiLiq : List α)
    (dGas vfGas dLiq vfLiq : List α) (Tj : α) : List (IC α) :=
  particles oGas M amb (Num.sum mGas) dGas vfGas xiGas Tj
    ++ particles oLiq M amb (Num.sum mLiq) dLiq vfLiq xiLiq Tj

-- ------------------------------------------------------------------ first Lagrangian element

/-- l.852-866: `D = sqrt(4 A / π); b = D / 2; h = D / 5; dt = π b² h / Q` -/
def fillTime (A Q : α) : α :=
  let D := Num.sqrt (4.0 * A / pi)
  let b := D / 2.0
  let h := D / 5.0
  pi * Num.npow b 2 * h / Q

/-- what `particles_state_space` reads of a `Particle` object -/
structure Prt (α : Type) where
  m : List α
  nb0 : α
  cp : α
  T : α

/-- l.876-879: `nbe[i] = particles[i].nb0 * dt` -/
def nbe (dt : α) (ps : List (Prt α)) : List α := ps.map (·.nb0 * dt)

/-- one particle's block of `particles_state_space` (l.1609-1619) -/
def block (p : Prt α) (nb : α) : List α :=
  p.m.map (· * nb) ++ [Num.sum p.m * nb * p.cp * p.T, 0.0, 0.0, 0.0, 0.0]

/-- `dispersed_phases.particles_state_space(particles, nb)` -/
def stateSpace : List (Prt α) → List α → List α
  | p :: ps, nb :: nbs => block p nb ++ stateSpace ps nbs
  | _, _ => []

/-- the dispersed-phase section of the first row built by `lmp.bent_plume_ic` (l.893) -/
def firstRow (A Q : α) (ps : List (Prt α)) : List α :=
  stateSpace ps (nbe (fillTime A Q) ps)

-- ------------------------------------------------------------------ line protocol (α := Float)

open TamocV.Proto

/-- one recorded library call: name, flattened arguments, flattened result -/
structure Entry where
  name : String
  args : List Float
  res : List Float

def nan : Float := 0.0 / 0.0

/-- relative distance of two floats (0 when equal, also for equal infinities; NaN is at distance 1e300 of everything) -/
def relDist (a b : Float) : Float :=
  if a == b then 0.0
  else if a != a || b != b then 1.0e300      -- a NaN never matches (recorded calls of a root finder gone astray)
  else (a - b).abs / (if a.abs < b.abs then b.abs else a.abs)

/-- largest component-wise relative distance; `none` when the shapes differ -/
def distL : List Float → List Float → Option Float
  | [], [] => some 0.0
  | a :: as, b :: bs => (distL as bs).map fun d => let e := relDist a b; if d < e then e else d
  | _, _ => none

/-- DESIGN §2.2: oracle entries are matched by routine name and arguments within the §6 tolerance
    (1e-11 relative); among several admissible entries (e.g. successive iterates of a root finder)
    the CLOSEST one answers; a question the code never asked answers NaN -/
def lookup (tbl : List Entry) (name : String) (args : List Float) (n : Nat) : List Float :=
  let best := tbl.foldl (fun (acc : Option (Float × List Float)) e =>
    if e.name == name then
      match distL e.args args with
      | some d =>
          if d ≤ 1e-11 then
            match acc with
            | some (d0, _) => if d < d0 then some (d, e.res) else acc
            | none => some (d, e.res)
          else acc
      | none => acc
    else acc) none
  match best with
  | some (_, r) => r
  | none => List.replicate n nan

def tableOracle (tbl : List Entry) (nc : Nat) : Oracle Float :=
  { rho := fun m T P => (lookup tbl "density" (m ++ [T, P]) 1).headD nan
    rhoI := fun T P Sa Ta => (lookup tbl "densityI" [T, P, Sa, Ta] 1).headD nan
    mbd := fun de T P yk => lookup tbl "mbd" ([de, T, P] ++ yk) nc
    mbdI := fun de T P Sa Ta => (lookup tbl "mbdI" [de, T, P, Sa, Ta] 1).headD nan }

/-- the questions `initial_conditions` asks, in the order of the code (name, arguments) -/
def questions (M : List Float) (soluble : Bool) (amb : Amb Float) (yk : List Float) (qType : Nat)
    (de : Float) (T0 : Option Float) : List (String × List Float) :=
  let T0 := releaseT amb T0
  let mf := massFrac M yk
  (if soluble then [("density", mf ++ [273.15, 1.0e5]), ("density", mf ++ [T0, amb.P])]
   else [("densityI", [273.15, 1.0e5, 0.0, 273.15]), ("densityI", [T0, amb.P, amb.Sa, amb.Ta])])
  ++ (if qType = 0 then
        (if soluble then [("mbd", [de, T0, amb.P] ++ yk)] else [("mbdI", [de, T0, amb.P, amb.Sa, amb.Ta])])
      else [])

def parseTable : List Arg → Option (List Entry)
  | [] => some []
  | .t name :: .v args :: .v res :: rest =>
      (parseTable rest).map fun es => { name := name, args := args, res := res } :: es
  | _ => none

def showIC (p : IC Float) : List Arg := [.v p.m0, .s p.T0, .s p.nb0, .s p.P, .s p.Sa, .s p.Ta]

def showQuestions (qs : List (String × List Float)) : List Arg :=
  qs.foldr (fun q acc => .t q.1 :: .v q.2 :: acc) []

def parseParts : List Arg → Option (List (Prt Float))
  | [] => some []
  | .v m :: .s nb0 :: .s cp :: .s T :: rest =>
      (parseParts rest).map fun ps => { m := m, nb0 := nb0, cp := cp, T := T } :: ps
  | _ => none

def optT (has : Nat) (T0 : Float) : Option Float := if has = 0 then none else some T0

def dispatch : Dispatch := fun name args =>
  match name, args with
  | "Release.massFrac", [.v M, .v n] => some [.v (massFrac (α := Float) M n)]
  | "Release.molFrac", [.v M, .v m] => some [.v (molFrac (α := Float) M m)]
  -- oracle-table run of initial_conditions: answers from the recorded table
  | "Release.ic", .n sol :: .v M :: .s Ta :: .s Sa :: .s P :: .v yk :: .s q :: .n qType :: .s de ::
      .n hasT0 :: .s T0 :: rest =>
      (parseTable rest).map fun tbl =>
        let amb : Amb Float := { Ta := Ta, Sa := Sa, P := P }
        showIC (initialConditions (tableOracle tbl yk.length) M (sol != 0) amb yk q qType de (optT hasT0 T0))
  -- the same with the transcribed masses_by_diameter (only densities are looked up)
  | "Release.icF", .n sol :: .v M :: .s Ta :: .s Sa :: .s P :: .v yk :: .s q :: .n qType :: .s de ::
      .n hasT0 :: .s T0 :: rest =>
      (parseTable rest).map fun tbl =>
        let amb : Amb Float := { Ta := Ta, Sa := Sa, P := P }
        let o := tableOracle tbl yk.length
        showIC (initialConditions (fluidOracle o.rho o.rhoI M) M (sol != 0) amb yk q qType de (optT hasT0 T0))
  | "Release.questions", [.n sol, .v M, .s Ta, .s Sa, .s P, .v yk, .n qType, .s de, .n hasT0, .s T0] =>
      some (showQuestions (questions M (sol != 0) { Ta := Ta, Sa := Sa, P := P } yk qType de (optT hasT0 T0)))
  -- diameter of given masses with the recorded density
  | "Release.diameter", [.v m, .s T, .s P, .s rho] =>
      some [.s (diameter (α := Float) (fun _ _ _ => rho) m T P)]
  | "Release.diameterI", [.s m, .s T, .s P, .s Sa, .s Ta, .s rho] =>
      some [.s (diameterI (α := Float) (fun _ _ _ _ => rho) m T P Sa Ta)]
  -- blowout.particles: per bin (m0, nb0), then the component totals
  | "Release.particles", .v M :: .s Ta :: .s Sa :: .s P :: .s mTot :: .v d :: .v vf :: .v yk :: .s Tj :: rest =>
      (parseTable rest).map fun tbl =>
        let amb : Amb Float := { Ta := Ta, Sa := Sa, P := P }
        let ps := particles (tableOracle tbl yk.length) M amb mTot d vf yk Tj
        (ps.foldr (fun p acc => .v p.m0 :: .s p.nb0 :: acc) [])
          ++ [.v ((List.range yk.length).map fun j => compFlux j ps)]
  -- Blowout._update hand-off: totals of every compound over all gas and liquid bins
  | "Release.blowout", .v M :: .s Ta :: .s Sa :: .s P :: .v mGas :: .v mLiq :: .v xiGas :: .v xiLiq ::
      .v dGas :: .v vfGas :: .v dLiq :: .v vfLiq :: .s Tj :: .n nGasTbl :: rest =>
      (parseTable rest).map fun tbl =>
        let amb : Amb Float := { Ta := Ta, Sa := Sa, P := P }
        let oG := tableOracle (tbl.take nGasTbl) M.length
        let oL := tableOracle (tbl.drop nGasTbl) M.length
        let ps := blowoutPhases oG oL M amb mGas mLiq xiGas xiLiq dGas vfGas dLiq vfLiq Tj
        [.v (ps.map (·.nb0)), .v ((List.range M.length).map fun j => compFlux j ps)]
          ++ ps.map (fun p => .v p.m0)
  | "Release.fillTime", [.s A, .s Q] => some [.s (fillTime (α := Float) A Q)]
  | "Release.firstRow", .s A :: .s Q :: rest =>
      (parseParts rest).map fun ps => [.v (firstRow A Q ps), .v (nbe (fillTime A Q) ps)]
  | _, _ => none

end TamocV.Model.Release
