/-
  TamocV.Model.Flash — hand-written executable model (generic in `[Num α]`) of the
  gas/liquid flash orchestration of /repo/tamoc/dbm.py, transcribed line by line:

  * `gasLiqEq m M K fuel`      = `dbm.gas_liq_eq(m, M, K)`            (l.3088-3299)
      `moleFrac`                 l.3099-3100   moles = m / M ; zi = moles / np.sum(moles)
      `gGas gGasP gLiq gLiqP`    l.3103-3193   the two Rachford–Rice objective forms
      `rrBeta` first two tests   l.3197-3203   conditions (4) and (5)
      `bounds`                   l.3209-3218   equations (7) and (8)
      `rrStep`, `rrLoop`         l.3242-3286   Newton-or-bisection, `while err > tol`
      `rows`                     l.3298-3299
    The Python loop has no iteration bound; the model is fuel-bounded and says whether it
    stopped by the exit test (`conv`) or ran out of fuel.  The signed increments
    `beta_var - beta_old` of every pass (the argument of `np.abs` at l.3286) are returned as
    the trace.
  * `singlePhase`, `finalCleanup`, `equilMMEnd` = the single-phase clean-up and the phase
    label at the end of `dbm.equil_MM` (l.2640-2668).
  * `mask gather scatter backConvert equilibriumPost` = zero-component removal, re-insertion
    and the conversion of mole fractions + gas fraction back to phase masses in
    `FluidMixture.equilibrium` (l.660-721 as of commit 87c9b6c, `replace_zeros=True` branch with
    at least one positive mass).
  The equation of state, `successive_substitution` (K update, NaN -> 0, first-step safeguards, stop
  flags) and `stability_analysis` are NOT modelled: the model takes what the last
  `successive_substitution` call returned as an input (`equilMMEnd`); isofugacity of the real
  outputs is a sampled test of the harness, not a theorem.

  NaN handling of the code that cannot be expressed in `Num` (a K vector of NaN's marks a
  single-phase result) is modelled with `Option`: `none` = the NaN vector.
  Imports only `TamocV.Num`, `TamocV.Proto` (the driver must start fast).
-/
import TamocV.Num
import TamocV.Proto

namespace TamocV.Model.Flash
variable {α : Type} [Num α]

/-! ### mole fractions of the feed (l.3099-3100, the same two lines at l.2540-2541) -/

def moleFrac (m M : List α) : List α :=
  let moles := Num.vdiv m M
  let s := Num.sum moles
  moles.map (fun x => x / s)

/-! ### Rachford–Rice objective functions (l.3103-3193) -/

/-- `g_gas(beta) = np.sum(zi * (K - 1.) / (1. + beta * (K - 1.)))` -/
def gGas (z K : List α) (beta : α) : α :=
  Num.sum (List.zipWith (fun zi k => zi * (k - 1) / (1 + beta * (k - 1))) z K)

/-- `g_gas_p(beta) = -np.sum(zi * (K - 1.)**2 / (1. + beta * (K - 1.))**2)` -/
def gGasP (z K : List α) (beta : α) : α :=
  -(Num.sum (List.zipWith (fun zi k => zi * Num.npow (k - 1) 2 / Num.npow (1 + beta * (k - 1)) 2) z K))

/-- `g_liq(beta_l) = np.sum(zi * (K - 1.) / (K - beta_l * (K - 1.)))` -/
def gLiq (z K : List α) (bl : α) : α :=
  Num.sum (List.zipWith (fun zi k => zi * (k - 1) / (k - bl * (k - 1))) z K)

/-- `g_liq_p(beta_l) = np.sum(zi * (K - 1.)**2 / (K - beta_l * (K - 1.))**2)` -/
def gLiqP (z K : List α) (bl : α) : α :=
  Num.sum (List.zipWith (fun zi k => zi * Num.npow (k - 1) 2 / Num.npow (k - bl * (k - 1)) 2) z K)

/-! ### bounds (7) and (8) (l.3209-3218) -/

/-- body of `for i in range(len(K))`; `acc = (beta_min, beta_max)`, `zk = (zi[i], K[i])` -/
def boundsStep (acc : α × α) (zk : α × α) : α × α :=
  if 1 ≤ zk.2 then (Num.max acc.1 ((zk.2 * zk.1 - 1) / (zk.2 - 1)), acc.2)
  else (acc.1, Num.min acc.2 ((1 - zk.1) / (1 - zk.2)))

def bounds (z K : List α) : α × α := (List.zip z K).foldl boundsStep (0, 1)

/-! ### the iteration (l.3239-3286) -/

structure RRState (α : Type) where
  bmin : α
  bmax : α
  bvar : α

/-- one pass through the body of `while err > tol:`; `gasForm` is `eqn > 0.`.
    Returns the new state and `beta_var - beta_old`. -/
def rrStep (z K : List α) (gasForm : Bool) (s : RRState α) : RRState α × α :=
  let g := if gasForm then gGas z K s.bvar else gLiq z K s.bvar
  let gp := if gasForm then gGasP z K s.bvar else gLiqP z K s.bvar
  let bnew := s.bvar - g / gp
  let bmin' := if gasForm then (if 0 < g then s.bvar else s.bmin) else (if 0 < g then s.bmin else s.bvar)
  let bmax' := if gasForm then (if 0 < g then s.bmax else s.bvar) else (if 0 < g then s.bvar else s.bmax)
  let bvar' := if bnew ≤ bmax' ∧ bmin' ≤ bnew then bnew else 0.5 * (bmin' + bmax')
  (⟨bmin', bmax', bvar'⟩, bvar' - s.bvar)

/-- `tol = 1.e-8; err = 1.; while err > tol: …; err = np.abs(beta_var - beta_old)`.
    Result: final state, reversed list of the increments, `true` iff the exit test fired. -/
def rrLoop (z K : List α) (gasForm : Bool) : Nat → RRState α → List α → RRState α × List α × Bool
  | 0, s, tr => (s, tr, false)
  | fuel + 1, s, tr =>
    let r := rrStep z K gasForm s
    if 1e-8 < Num.abs r.2 then rrLoop z K gasForm fuel r.1 (r.2 :: tr)
    else (r.1, r.2 :: tr, true)

/-- the gas fraction: conditions (4)/(5), bounds, choice of the objective form, loop, back
    substitution `beta = beta_var` / `1 - beta_var` (l.3197-3294) -/
def rrBeta (z K : List α) (fuel : Nat) : α × List α × Bool :=
  if Num.sum (Num.vmul z K) - 1 ≤ 0 then (0, [], true)
  else if 0 < 1 - Num.sum (Num.vdiv z K) then (1, [], true)
  else
    let b := bounds z K
    let beta0 := 0.5 * (b.1 + b.2)
    if 0 < gGas z K beta0 then
      let r := rrLoop z K true fuel ⟨b.1, b.2, beta0⟩ []
      (r.1.bvar, r.2.1, r.2.2)
    else
      let r := rrLoop z K false fuel ⟨1 - b.2, 1 - b.1, 1 - beta0⟩ []
      (1 - r.1.bvar, r.2.1, r.2.2)

/-- `np.array([zi * K / (1. + beta * (K - 1.)), zi / (1. + beta * (K - 1.))])` -/
def rows (z K : List α) (beta : α) : List α × List α :=
  (List.zipWith (fun zi k => zi * k / (1 + beta * (k - 1))) z K,
   List.zipWith (fun zi k => zi / (1 + beta * (k - 1))) z K)

structure RROut (α : Type) where
  xg : List α
  xl : List α
  beta : α
  trace : List α
  conv : Bool

/-- `gas_liq_eq` after its first two lines: `z` are the feed mole fractions -/
def gasLiqEqZ (z K : List α) (fuel : Nat) : RROut α :=
  let b := rrBeta z K fuel
  let r := rows z K b.1
  ⟨r.1, r.2, b.1, b.2.1.reverse, b.2.2⟩

/-- `dbm.gas_liq_eq(m, M, K)` -/
def gasLiqEq (m M K : List α) (fuel : Nat) : RROut α := gasLiqEqZ (moleFrac m M) K fuel

/-! ### end of `equil_MM`: single-phase clean-up and phase label (l.2640-2668) -/

structure MMOut (α : Type) where
  xg : List α
  xl : List α
  beta : α
  /-- `none` = the vector of NaN's the code returns for a single-phase result -/
  K : Option (List α)

def zeros (z : List α) : List α := z.map (fun _ => (0 : α))

/-- the `else` branch l.2640-2653 (stability analysis says one phase): label from the LAST
    gas fraction, `beta > 0.5` -/
def singlePhase (z : List α) (beta : α) : MMOut α :=
  if 0.5 < beta then ⟨z, zeros z, 1, none⟩ else ⟨zeros z, z, 0, none⟩

/-- l.2657-2668: `if beta == 1: … elif beta == 0: …` -/
def finalCleanup (z : List α) (o : MMOut α) : MMOut α :=
  if o.beta ≤ 1 ∧ 1 ≤ o.beta then ⟨z, zeros z, 1, none⟩
  else if o.beta ≤ 0 ∧ 0 ≤ o.beta then ⟨zeros z, z, 0, none⟩
  else o

/-- what `equil_MM` returns, given what the last `successive_substitution` returned (`last`) and
    whether the `while exit_flag <= 0` loop ended because that call converged (`converged`) or
    through the single-phase branch -/
def equilMMEnd (z : List α) (converged : Bool) (last : MMOut α) : MMOut α :=
  finalCleanup z (if converged then last else singlePhase z last.beta)

/-! ### `FluidMixture.equilibrium`: zero components and back-conversion to masses (l.660-723) -/

/-- `mi = np.where(m > 0.)` as a mask -/
def mask (m : List α) : List Bool := m.map (fun x => decide (0 < x))

/-- `a[mi]` -/
def gather : List Bool → List α → List α
  | true :: bs, x :: xs => x :: gather bs xs
  | false :: bs, _ :: xs => gather bs xs
  | _, _ => []

/-- `full = np.zeros(len(m)); full[mi] = v` -/
def scatter : List Bool → List α → List α
  | [], _ => []
  | false :: bs, vs => 0 :: scatter bs vs
  | true :: bs, v :: vs => v :: scatter bs vs
  | true :: bs, [] => 0 :: scatter bs []

/-- l.700-721: total moles, gas moles `ng = beta * np.sum(n_tot)` from the gas fraction returned by
    `equil_MM`, phase moles, phase masses -/
def backConvert (m M xg xl : List α) (beta : α) : List α × List α :=
  let ntot := Num.vdiv m M
  let N := Num.sum ntot
  let ng := beta * N
  let ngas := xg.map (fun x => x * ng)
  let nliq := xl.map (fun x => x * (N - ng))
  (Num.vmul ngas M, Num.vmul nliq M)

structure EqOut (α : Type) where
  mg : List α
  ml : List α
  xg : List α
  xl : List α
  K : Option (List α)

/-- everything `equilibrium` does after `equil_MM` returned `o` for the non-zero components
    (`len(mi[0]) > 0` branch): re-insertion l.677-684, back-conversion l.700-721 -/
def equilibriumPost (m M : List α) (o : MMOut α) : EqOut α :=
  let mk := mask m
  let xg := scatter mk o.xg
  let xl := scatter mk o.xl
  let K := o.K.map (scatter mk)
  let mm := backConvert m M xg xl o.beta
  ⟨mm.1, mm.2, xg, xl, K⟩

/-! ### line protocol -/

open TamocV.Proto in
def dispatch : Dispatch := fun name args =>
  let b2n (b : Bool) : Nat := if b then 1 else 0
  let kOut (k : Option (List Float)) : List Arg :=
    match k with
    | none => [.n 1, .v []]
    | some v => [.n 0, .v v]
  match name, args with
  | "Flash.moleFrac", [.v m, .v M] => some [.v (moleFrac (α := Float) m M)]
  | "Flash.gasLiqEq", [.v m, .v M, .v K, .n fuel] =>
    let r := gasLiqEq (α := Float) m M K fuel
    some [.v r.xg, .v r.xl, .s r.beta, .n r.trace.length, .v r.trace, .n (b2n r.conv)]
  | "Flash.bounds", [.v z, .v K] =>
    let b := bounds (α := Float) z K
    some [.s b.1, .s b.2]
  | "Flash.equilMMEnd", [.v z, .n conv, .v xg, .v xl, .s beta, .n knan, .v K] =>
    let last : MMOut Float := ⟨xg, xl, beta, if knan = 1 then none else some K⟩
    let o := equilMMEnd (α := Float) z (conv = 1) last
    some ([.v o.xg, .v o.xl, .s o.beta] ++ kOut o.K)
  | "Flash.reduce", [.v m, .v x] => some [.v (gather (mask (α := Float) m) x)]
  | "Flash.equilibriumPost", [.v m, .v M, .v xg, .v xl, .s beta, .n knan, .v K] =>
    let o : MMOut Float := ⟨xg, xl, beta, if knan = 1 then none else some K⟩
    let r := equilibriumPost (α := Float) m M o
    some ([.v r.mg, .v r.ml, .v r.xg, .v r.xl] ++ kOut r.K)
  | _, _ => none

end TamocV.Model.Flash
