/-
  TamocV.Model.Eos — hand-written executable model of the Peng–Robinson core of
  /repo/tamoc/dbm_p.py (and, line for line, tamoc/src/dbm_eos.f95):

    mole_fraction (l.1224-1249), coefs (l.1107-1221), z_pr (l.1014-1104),
    fugacity (l.885-943), volume_trans (l.946-1011), density (l.816-882).

  Vectors are index functions `Nat → α` together with the number of components `n`
  (the line-protocol dispatcher converts from/to lists); sums are `sumN n f = Σ_{i<n} f i`
  in index order, as the loops of the code run.  The cubic root finder is NOT modelled: the
  three complex roots it returned are an input of `selectZ` (contract validated per sample
  by the harness with an exact rational sign-change certificate).

  Generic in `[Num α]`: executed at `Float` by the driver, reasoned about at `ℝ` in
  TamocV/Props/C01.lean, C10.lean.   No imports beyond Num/Proto.
-/
import TamocV.Num
import TamocV.Proto

namespace TamocV.Model.Eos
variable {α : Type} [Num α]

/-- Σ_{i<n} f i, accumulated from zero in index order -/
def sumN (n : Nat) (f : Nat → α) : α := Num.sum ((List.range n).map f)

def RU : α := 8.314510

/-- dbm_p.mole_fraction: n_i = m_i / M_i ; y_i = n_i / Σ n -/
def moleFraction (n : Nat) (mass M : Nat → α) : Nat → α :=
  fun i => (mass i / M i) / sumN n (fun j => mass j / M j)

/-- modified Peng–Robinson (1978) m(ω) -/
def muOmega (w : α) : α :=
  if (0.49 : α) < w then
    0.379642 + 1.48503 * w - 0.164423 * Num.npow w 2 + 0.016666 * Num.npow w 3
  else
    0.37464 + 1.54226 * w - 0.26992 * Num.npow w 2

def alphaT (T Tc w : α) : α :=
  Num.npow (1 + muOmega w * (1 - Num.rpow (T / Tc) ((1 : α) / 2))) 2

def aTk (T Tc Pc w : α) : α := 0.45724 * Num.npow (RU : α) 2 * Num.npow Tc 2 / Pc * alphaT T Tc w
def bk (Tc Pc : α) : α := 0.0778 * RU * Tc / Pc

/-- one term of the Privat–Jaubert group-contribution double sum.  The code adds a term only if it
    is not NaN; a term is NaN exactly when `Aij k l = 0` (then `Bij/Aij` is 0/0 or ±inf·0) or when the
    table entry is missing (Aij.csv/Bij.csv contain NaN entries).  At `Float` the two comparisons below
    are both false for a NaN entry, at ℝ the condition is `Aij k l ≠ 0`. -/
def gcTerm (T : α) (gi gj : Nat → α) (Aij Bij : Nat → Nat → α) (k l : Nat) : α :=
  if ((Aij k l < 0 ∨ 0 < Aij k l) ∧ (Bij k l ≤ 0 ∨ 0 ≤ Bij k l)) then
    (gi k - gj k) * (gi l - gj l) * Aij k l * Num.rpow ((298.15 : α) / T) (Bij k l / Aij k l - 1)
  else 0

/-- group-contribution δ_ij (i ≠ j) as computed inside `coefs` when calc_delta > 0 -/
def deltaGC (T : α) (a_i a_j b_i b_j : α) (gi gj : Nat → α) (Aij Bij : Nat → Nat → α) : α :=
  let sum1 := sumN 15 (fun l => sumN 15 (fun k => gcTerm T gi gj Aij Bij k l))
  (-(0.5 * sum1 + Num.npow (Num.sqrt a_i / b_i - Num.sqrt a_j / b_j) 2) /
    (2 * Num.sqrt (a_i * a_j) / (b_i * b_j)))

/-- the δ matrix actually used by the mixing rule -/
def deltaUsed (calcDelta : Bool) (T : α) (a b : Nat → α) (groups : Nat → Nat → α)
    (Aij Bij : Nat → Nat → α) (deltaIn : Nat → Nat → α) : Nat → Nat → α :=
  fun i j =>
    if calcDelta && i != j then
      -- the code fills delta[i,j] for i<j and mirrors it: always computed with (min,max)
      let lo := if i < j then i else j
      let hi := if i < j then j else i
      deltaGC T (a lo) (a hi) (b lo) (b hi) (groups lo) (groups hi) Aij Bij
    else deltaIn i j

structure Coefs (α : Type) where
  A : α
  B : α
  Ap : Nat → α
  Bp : Nat → α
  yk : Nat → α

/-- mixing rules of McCain (1990) as in `coefs`: given mole fractions y, pure-component a_i(T), b_i
    and the interaction matrix δ -/
def mix (n : Nat) (T P : α) (y a b : Nat → α) (δ : Nat → Nat → α) : Coefs α :=
  let bd := sumN n (fun i => y i * b i)
  let aT := sumN n (fun j => sumN n (fun i => y i * y j * Num.rpow (a i * a j) ((1 : α) / 2) * (1 - δ i j)))
  { A := aT * P / (Num.npow (RU : α) 2 * Num.npow T 2)
    B := bd * P / (RU * T)
    Bp := fun i => b i / bd
    Ap := fun i => 1 / aT * (2 * Num.rpow (a i) ((1 : α) / 2) *
            sumN n (fun j => y j * Num.rpow (a j) ((1 : α) / 2) * (1 - δ j i)))
    yk := y }

def coefs (n : Nat) (T P : α) (mass M Pc Tc w : Nat → α) (calcDelta : Bool)
    (groups : Nat → Nat → α) (Aij Bij : Nat → Nat → α) (deltaIn : Nat → Nat → α) : Coefs α :=
  let y := moleFraction n mass M
  let a := fun i => aTk T (Tc i) (Pc i) (w i)
  let b := fun i => bk (Tc i) (Pc i)
  mix n T P y a b (deltaUsed calcDelta T a b groups Aij Bij deltaIn)

/-- the Peng–Robinson cubic in Z, coefficients as assembled in z_pr -/
def cubicCoefs (A B : α) : α × α × α × α :=
  (1, B - 1, A - 2 * B - 3 * Num.npow B 2, Num.npow B 3 + Num.npow B 2 - A * B)

def cubic (A B Z : α) : α :=
  Num.npow Z 3 + (B - 1) * Num.npow Z 2 + (A - 2 * B - 3 * Num.npow B 2) * Z
    + (Num.npow B 3 + Num.npow B 2 - A * B)

/-- root selection of z_pr: `roots` are the (re, im) pairs the root finder returned.
    z_max = largest real root above 0 (start value 0); z_min = smallest real root above `thr`
    that is below z_max (start value z_max).  The code uses `thr = B` (after the repair of the
    liquid-root defect; the original used 0). -/
def selectZ (thr : α) (roots : List (α × α)) : α × α :=
  let isReal := fun (z : α × α) => (z.2 ≤ 0 ∧ 0 ≤ z.2)
  let zmax := roots.foldl (fun acc z => if isReal z then (if acc < z.1 then z.1 else acc) else acc) 0
  let zmin := roots.foldl (fun acc z => if isReal z then (if (z.1 < acc ∧ thr < z.1) then z.1 else acc) else acc) zmax
  (zmax, zmin)

/-- ln φ_i as in `fugacity` (the exponent before `* yk * P`) -/
def lnPhi (A B Z Ap_i Bp_i : α) : α :=
  (Z - 1) * Bp_i - Num.log (Z - B) - A / (Num.rpow 2 (1.5 : α) * B) * (Ap_i - Bp_i) *
    Num.log ((Z + (Num.sqrt 2 + 1) * B) / (Z - (Num.sqrt 2 - 1) * B))

def fugacity (c : Coefs α) (P Z : α) : Nat → α :=
  fun i => Num.exp (lnPhi c.A c.B Z (c.Ap i) (c.Bp i)) * c.yk i * P

/-- Lin–Duan (2005) volume translation of component i, or the user Peneloux shift -/
def volTransLD (T Pc Tc Vc : α) : α :=
  let Zc := Pc * Vc / (RU * Tc)
  let beta := -2.8431 * Num.exp (-64.2184 * (0.3074 - Zc)) + 0.1735
  let gamma := -99.2558 + 301.6201 * Zc
  let fTr := beta + (1 - beta) * Num.exp (gamma * Num.abs (1 - T / Tc))
  let cc := (0.3074 - Zc) * RU * Tc / Pc
  fTr * cc

def volTransUser (T Cpen CpenT : α) : α := Cpen + CpenT * (T - 288.15)

/-- density from a compressibility factor: ν = Z·R·T/P − Σ y·vt ; ρ = Σ y·M / ν -/
def density (n : Nat) (T P Z : α) (y M vt : Nat → α) : α :=
  let nu := Z * RU * T / P - sumN n (fun i => y i * vt i)
  1 / nu * sumN n (fun i => y i * M i)

/-! ### line-protocol dispatcher (Float) -/
open TamocV.Proto

def ofList (l : List Float) : Nat → Float := fun i => l.getD i 0
def ofMat (rows : List Float) (ncol : Nat) : Nat → Nat → Float := fun i j => rows.getD (i * ncol + j) 0
def toList (n : Nat) (f : Nat → Float) : List Float := (List.range n).map f

/-- pairs (re, im) from a flat list re0 im0 re1 im1 … -/
def pairs : List Float → List (Float × Float)
  | a :: b :: rest => (a, b) :: pairs rest
  | _ => []

def dispatch : Dispatch := fun name args =>
  match name, args with
  | "Eos.moleFraction", [.v mass, .v M] =>
      let n := mass.length
      some [.v (toList n (moleFraction n (ofList mass) (ofList M)))]
  | "Eos.coefs", [.s T, .s P, .v mass, .v M, .v Pc, .v Tc, .v w, .n calcD, .v groups, .v Aij, .v Bij, .v deltaIn] =>
      let n := mass.length
      let c := coefs n T P (ofList mass) (ofList M) (ofList Pc) (ofList Tc) (ofList w) (calcD != 0)
                 (ofMat groups 15) (ofMat Aij 15) (ofMat Bij 15) (ofMat deltaIn n)
      some [.s c.A, .s c.B, .v (toList n c.Ap), .v (toList n c.Bp), .v (toList n c.yk)]
  | "Eos.selectZ", [.s thr, .v flat] =>
      let r := selectZ thr (pairs flat)
      some [.s r.1, .s r.2]
  | "Eos.cubic", [.s A, .s B, .s Z] => some [.s (cubic A B Z)]
  | "Eos.fugacity", [.s A, .s B, .v Ap, .v Bp, .v yk, .s P, .s Z] =>
      let n := yk.length
      let c : Coefs Float := { A := A, B := B, Ap := ofList Ap, Bp := ofList Bp, yk := ofList yk }
      some [.v (toList n (fugacity c P Z))]
  | "Eos.volTransLD", [.s T, .v Pc, .v Tc, .v Vc] =>
      some [.v (toList Pc.length (fun i => volTransLD T (Pc.getD i 0) (Tc.getD i 0) (Vc.getD i 0)))]
  | "Eos.volTransUser", [.s T, .v C, .v CT] =>
      some [.v (toList C.length (fun i => volTransUser T (C.getD i 0) (CT.getD i 0)))]
  | "Eos.density", [.s T, .s P, .s Z, .v y, .v M, .v vt] =>
      some [.s (density y.length T P Z (ofList y) (ofList M) (ofList vt))]
  | _, _ => none

end TamocV.Model.Eos
