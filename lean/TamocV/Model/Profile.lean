/-
  TamocV.Model.Profile — hand-written executable model of the ambient-profile code of
  /repo/tamoc/ambient.py (properties C07 and C14), generic in `[Num α]`.

  C07  `interpRow`      scipy.interpolate.interp1d(kind='linear')._call_linear for one abscissa
       `getValues`      ambient.BaseProfile.get_values            (l.455-530)
       `Profile`, `Op`, `step`, `run`
                        the state {interp_ds as array, names, z_min, z_max, cached interpolant}
                        under append / extend_profile_deeper / insert_density /
                        insert_potential_density / insert_buoyancy_frequency (l.253-402, 567-735)
  C14  `coarsen`        ambient.coarsen            (l.2442-2520)
       `stabilize`      ambient.stabilize          (l.2523-2577)
       `extractProfile` ambient.extract_profile    (l.2358-2440)
       `computePressure`ambient.compute_pressure   (l.2579-2657)
       `construct`      BaseProfile._create_profile_from_xarray (l.173-227) after unit conversion

  A table ("interp_data") is a `List (List α)`: one row per depth, depth first.
  Seawater density is a function parameter `ρ : α → α → α → α` (T, S, P); the driver
  instantiates it with the definition regenerated from seawater.py.
  Transcribes what the code DOES.  Imports no Mathlib (driver start-up).
-/
import TamocV.Num
import TamocV.Proto

namespace TamocV.Model.Profile
variable {α : Type} [Num α]

/-! ## scipy interp1d, kind = 'linear' -/

/-- depth (first entry) of a table row -/
def depth (r : List α) : α := r.headD 0
/-- dependent values of a table row -/
def vals (r : List α) : List α := r.tail

/-- `numpy.searchsorted(xs, z)` (side = 'left') on an ascending array: the number of
    leading entries `< z` -/
def searchsorted : List α → α → Nat
  | [], _ => 0
  | x :: xs, z => if x < z then searchsorted xs z + 1 else 0

/-- `numpy.clip(i, lo, hi) = minimum(maximum(i, lo), hi)` on indices -/
def clip (i lo hi : Nat) : Nat := Nat.min (Nat.max i lo) hi

/-- `interp1d._call_linear` (scipy/interpolate/_interpolate.py l.491-518) for one abscissa:
    `idx = searchsorted(x, z).clip(1, len(x)-1)`, `lo = idx-1`, `hi = idx`,
    `y = ((z - x_lo)/(x_hi - x_lo)) * y_hi + ((x_hi - z)/(x_hi - x_lo)) * y_lo`. -/
def interpRow (rows : List (List α)) (z : α) : List α :=
  let idx := clip (searchsorted (rows.map depth) z) 1 (rows.length - 1)
  let lo := rows.getD (idx - 1) []
  let hi := rows.getD idx []
  let xlo := depth lo
  let xhi := depth hi
  let whi := (z - xlo) / (xhi - xlo)
  let wlo := (xhi - z) / (xhi - xlo)
  List.zipWith (fun yh yl => whi * yh + wlo * yl) (vals hi) (vals lo)

/-- `interp1d.__init__` with `assume_sorted=False`: stable argsort of the abscissae -/
def sortRows (rows : List (List α)) : List (List α) :=
  rows.mergeSort (fun a b => decide (depth a ≤ depth b))

/-- what `_build_interpolator` (l.229-251) stores: the (sorted) node table held by the
    interp1d object `self.f` and the column names `self.f_names` -/
structure Cache (α : Type) where
  rows : List (List α)
  names : List String

def build (rows : List (List α)) (names : List String) : Cache α :=
  { rows := sortRows rows, names := names }

/-! ## get_values (l.455-530) -/

/-- l.502-503: `z[z < z_min] = z_min; z[z > z_max] = z_max` -/
def clampZ (zmin zmax z : α) : α :=
  let z1 := if z < zmin then zmin else z
  if zmax < z1 then zmax else z1

/-- `ans[cols] = vals`: sequential assignment (a later duplicate index overwrites) -/
def assign (ans : List α) : List Nat → List α → List α
  | c :: cs, v :: vs => assign (ans.set c v) cs vs
  | _, _ => ans

/-- one depth: l.507-518.  `ans_cols = [names.index(name) for name in names if name in f_names]`
    (`index` = FIRST occurrence), `i_cols = [f_names.index(names[c]) for c in ans_cols]`,
    `ans = zeros(len(names)); ans[ans_cols] = f(z)[i_cols]` -/
def getValues1 (c : Cache α) (zmin zmax z : α) (names : List String) : List α :=
  let zc := clampZ zmin zmax z
  let ansCols := (names.filter (fun nm => c.names.contains nm)).map (fun nm => names.idxOf nm)
  let iNames := ansCols.map (fun k => names.getD k "")
  let iCols := iNames.map (fun nm => c.names.idxOf nm)
  let f := interpRow c.rows zc
  assign (List.replicate names.length 0) ansCols (iCols.map (fun k => f.getD k 0))

/-- result shape rule of `get_values`: a 1-D array when exactly one depth was asked,
    otherwise a 2-D array (len(z), len(names)) -/
inductive Out (α : Type) where
  | vec : List α → Out α
  | mat : List (List α) → Out α

def getValues (c : Cache α) (zmin zmax : α) (zs : List α) (names : List String) : Out α :=
  match zs with
  | [z] => .vec (getValues1 c zmin zmax z names)
  | _ => .mat (zs.map (fun z => getValues1 c zmin zmax z names))

/-! ## hydrostatic pressure, compute_pressure (l.2579-2657) -/

/-- a Python index into an array of length `n`: negative indices wrap once, anything
    else out of range is an IndexError (`none`) -/
def pyIdx (n : Nat) (k : Int) : Option Nat :=
  if 0 ≤ k then (if k.toNat < n then some k.toNat else none)
  else if -(n : Int) ≤ k then some (k + n).toNat else none

/-- `int(np.sign(x))` -/
def sgnOf (x : α) : Int := if 0 < x then 1 else if x < 0 then -1 else 0
/-- the Python int `z_sign` as a factor -/
def ofSgn (s : Int) : α := if s = 1 then 1 else if s = -1 then -(1 : α) else 0

/-- loop body l.2654-2655:
    `P[i] = P[i-z_sign] + density(T[i-z_sign], S[i-z_sign], P[i-z_sign]) * g * (z[i] - z[i-z_sign]) * z_sign` -/
def cpStep (ρ : α → α → α → α) (z T S : List α) (s : Int) (st : Option (List α)) (i : Nat) :
    Option (List α) :=
  match st with
  | none => none
  | some P =>
    match pyIdx P.length ((i : Int) - s) with
    | none => none
    | some j =>
      let Pj := P.getD j 0
      some (P.set i (Pj + ρ (T.getD j 0) (S.getD j 0) Pj * 9.81 * (z.getD i 0 - z.getD j 0) * ofSgn s))

/-- `compute_pressure(z, T, S, fs_loc)`; `fsLast = true` is `fs_loc == -1`.  `none` = the code
    raises IndexError.  `P` starts as zeros, entries are read whether or not they have been
    computed yet — exactly as the array code does. -/
def computePressure (ρ : α → α → α → α) (z T S : List α) (fsLast : Bool) : Option (List α) :=
  let n := z.length
  let s := sgnOf (z.getD (n / 2) 0)
  let idxs := if fsLast then (List.range (n - 1)).reverse else List.range' 1 (n - 1)
  let idx0 := if fsLast then n - 1 else 0
  let P0 : α := 101325.0
  let P := (List.replicate n (0 : α)).set idx0
    (P0 + ρ (T.getD 0 0) (S.getD 0 0) P0 * 9.81 * ofSgn s * z.getD idx0 0)
  idxs.foldl (cpStep ρ z T S s) (some P)

/-! ## coarsen (l.2442-2520) -/

/-- l.2496-2504 for one row `r` against the baseline row `b`: some column k ≥ 1 with
    `r[k] != 0` and `|(r[k] - b[k]) / r[k]| > err` -/
def exceeds (err : α) (b r : List α) : Bool :=
  (List.zipWith (fun x bk => if x ≤ 0 ∧ 0 ≤ x then false else decide (err < Num.abs ((x - bk) / x)))
    (vals r) (vals b)).any id

/-- rows after the baseline `b`: an interior row is recorded (and becomes the baseline) when it
    exceeds; the last row is always recorded -/
def coarsenGo (err : α) : List α → List (List α) → List (List α)
  | _, [] => []
  | _, [last] => [last]
  | b, r :: r' :: rest =>
    if exceeds err b r then r :: coarsenGo err r (r' :: rest) else coarsenGo err b (r' :: rest)

def coarsen (rows : List (List α)) (err : α) : List (List α) :=
  match rows with
  | [] => []
  | first :: rest => first :: coarsenGo err first rest

/-! ## stabilize (l.2523-2577) -/

/-- potential density of a row (depth, T, S, …) at atmospheric pressure -/
def sigma (ρ : α → α → α → α) (r : List α) : α := ρ (r.getD 1 0) (r.getD 2 0) 101325.0

/-- l.2552-2565 for the rows after the first: `rows[i] = (z_i >= 0)`, and for the INTERIOR rows
    (`range(1, n-1)`) `rows[i] = False` when `rho < rho_old`, else `rho_old = rho`.
    The deepest row is never compared. -/
def stabMaskGo (ρ : α → α → α → α) : α → List (List α) → List Bool
  | _, [] => []
  | _, [last] => [decide (0 ≤ depth last)]
  | rhoOld, r :: r' :: rest =>
    let rho := sigma ρ r
    if rho < rhoOld then false :: stabMaskGo ρ rhoOld (r' :: rest)
    else decide (0 ≤ depth r) :: stabMaskGo ρ rho (r' :: rest)

def stabMask (ρ : α → α → α → α) (rows : List (List α)) : List Bool :=
  match rows with
  | [] => []
  | first :: rest => decide (0 ≤ depth first) :: stabMaskGo ρ (sigma ρ first) rest

/-- `raw[mask, :]` -/
def selectRows (rows : List (List α)) (mask : List Bool) : List (List α) :=
  (List.zipWith (fun r m => if m then [r] else []) rows mask).flatten

/-- `stabilize(raw)`: mask, interpolant `f` over the kept rows, T and S of EVERY row replaced by
    `f(z)[0:2]` (l.2572-2573), kept rows returned -/
def stabilize (ρ : α → α → α → α) (rows : List (List α)) : List (List α) :=
  let mask := stabMask ρ rows
  let kept := sortRows (selectRows rows mask)
  let fixed := rows.map (fun r =>
    let v := interpRow kept (depth r)
    depth r :: v.getD 0 0 :: v.getD 1 0 :: r.drop 3)
  selectRows fixed mask

/-! ## extract_profile (l.2358-2440) -/

/-- first `while` (l.2413-2418): `while data[i,z] < z_start and i <= end:` — the array is read
    BEFORE `i <= end` is tested, so running off the end is an IndexError (`none`).
    Returns `(start, i)`. -/
def epTop (z : List α) (zstart : α) (endIdx : Nat) : Nat → Nat → Nat → Option (Nat × Nat)
  | 0, _, _ => none
  | fuel + 1, i, start =>
    match z[i]? with
    | none => none
    | some zi =>
      if zi < zstart ∧ i ≤ endIdx then
        epTop z zstart endIdx fuel (i + 1) (if zi < z.getD (i - 1) 0 then i else start)
      else some (start, i)

/-- second `while` (l.2421-2425): `while i < end: if data[i,z] < data[i-1,z]: end = i`; `i += 1` -/
def epBottom (z : List α) : Nat → Nat → Nat → Nat
  | 0, _, e => e
  | fuel + 1, i, e =>
    if i < e then epBottom z fuel (i + 1) (if z.getD i 0 < z.getD (i - 1) 0 then i else e) else e

/-- `extract_profile(data, z_col, z_start, p_col, P_atm)`; `pcol = none` is `p_col=None` -/
def extractProfile (rows : List (List α)) (zcol : Nat) (zstart : α) (pcol : Option Nat) (patm : α) :
    Option (List (List α)) :=
  let z := rows.map (fun r => r.getD zcol 0)
  let n := rows.length
  match epTop z zstart (n - 1) (n + 1) 1 0 with
  | none => none
  | some (start, i) =>
    let e := epBottom z (n + 1) i (n - 1)
    let body := (rows.drop start).take (e + 1 - start)
    if 0 < z.getD start 0 then
      let r0 := (rows.getD start []).set zcol 0
      let r0 := match pcol with
        | none => r0
        | some k => r0.set k patm
      some (r0 :: body)
    else some body

/-! ## profile state and the operations that mutate it -/

/-- the variable names the code hard-wires or takes from `ztsp` -/
structure Ztsp where
  z : String := "z"
  t : String := "temperature"
  s : String := "salinity"
  p : String := "pressure"

structure Profile (α : Type) where
  /-- `xr_dataset_to_array(interp_ds)`: the data the profile claims to hold -/
  rows : List (List α)
  /-- `list(interp_ds.keys())` -/
  names : List String
  zmin : α
  zmax : α
  /-- what `_build_interpolator` stored last -/
  cache : Cache α

namespace Profile

/-- `_build_interpolator()` -/
def rebuild (p : Profile α) : Profile α := { p with cache := build p.rows p.names }

/-- `get_values(z, names)`: answers from the CACHED interpolant -/
def get (p : Profile α) (zs : List α) (names : List String) : Out α :=
  getValues p.cache p.zmin p.zmax zs names

def get1 (p : Profile α) (z : α) (names : List String) : List α :=
  getValues1 p.cache p.zmin p.zmax z names

/-- `interp_ds[name] = ((z), col)`: replaces the variable in place when it exists, otherwise
    adds it as the last variable.  Does NOT touch the cache. -/
def setCol (p : Profile α) (name : String) (col : List α) : Profile α :=
  if p.names.contains name then
    let k := p.names.idxOf name + 1
    { p with rows := List.zipWith (fun r v => r.set k v) p.rows col }
  else
    { p with rows := List.zipWith (fun r v => r ++ [v]) p.rows col, names := p.names ++ [name] }

/-- values of one variable on the stored grid transformed by `f` (unit conversion) -/
def mapCol (p : Profile α) (name : String) (f : α → α) : Profile α :=
  if p.names.contains name then
    let k := p.names.idxOf name + 1
    { p with rows := p.rows.map (fun r => r.set k (f (r.getD k 0))) }
  else p

end Profile

/-- `interp1d(z, y, axis=0, bounds_error=False, fill_value=(y[0,:], y[-1,:]))` at one abscissa
    (`xr_add_data_from_numpy`, l.1751-1757) -/
def interpFill (rows : List (List α)) (z : α) : List α :=
  let srt := sortRows rows
  let y := interpRow srt z
  if depth (srt.getLastD []) < z then vals (rows.getLastD [])
  else if z < depth (srt.headD []) then vals (rows.headD [])
  else y

/-- one appended variable: name, its column in `data`, and the factor/offset `convert_units`
    applies for its unit -/
structure AppendVar (α : Type) where
  name : String
  col : Nat
  scale : α
  shift : α

/-- `numpy.linspace(a, b, num)` (endpoint): `arange(num) * step + a`, last entry set to `b` -/
def linspace (a b : α) (num : Nat) : List α :=
  let step := (b - a) / (Num.ofNat (num - 1) : α)
  (List.range num).map (fun k => if k = num - 1 then b else (Num.ofNat k : α) * step + a)

/-- `buoyancy_frequency(z, h)` for one depth (l.619-643) -/
def buoyancyFrequency1 (ρ : α → α → α → α) (zt : Ztsp) (p : Profile α) (z h : α) : α :=
  let dz := (p.zmax - p.zmin) * h
  let z01 : α × α :=
    if p.zmax < z + dz then (p.zmax - 2 * dz, p.zmax)
    else if z - dz < p.zmin then (p.zmin, p.zmin + 2 * dz)
    else (z - dz, z + dz)
  let v0 := p.get1 z01.1 [zt.t, zt.s]
  let v1 := p.get1 z01.2 [zt.t, zt.s]
  let rho0 := ρ (v0.getD 0 0) (v0.getD 1 0) 101325.0
  let rho1 := ρ (v1.getD 0 0) (v1.getD 1 0) 101325.0
  Num.sqrt (9.81 / rho0 * (rho1 - rho0) / (z01.2 - z01.1))

/-- l.674-680: T, S, P at the stored depths are read through `get_values` (the cache) with the
    hard-wired names; `P0 = some p` is the potential-density variant -/
def densityColumn (ρ : α → α → α → α) (p : Profile α) (P0 : Option α) : List α :=
  (p.rows.map depth).map (fun z =>
    let v := p.get1 z ["temperature", "salinity", "pressure"]
    match P0 with
    | some q => ρ (v.getD 0 0) (v.getD 1 0) q
    | none => ρ (v.getD 0 0) (v.getD 1 0) (v.getD 2 0))

/-- the profile-mutating operations, with the data that comes from outside this model -/
inductive Op (α : Type) where
  /-- `append(data, names, units)`, z in column `zcol` -/
  | append (data : List (List α)) (zcol : Nat) (vars : List (AppendVar α)) : Op α
  /-- `extend_profile_deeper(z_new, …)`; `S1` is the salinity `fsolve` returned -/
  | extendDeeper (znew S1 : α) : Op α
  /-- `insert_density(P0)`: `none` inserts 'density'; `some P0` only RETURNS a column -/
  | insertDensity (P0 : Option α) : Op α
  | insertPotentialDensity : Op α
  | insertBuoyancyFrequency : Op α

/-- the 50 rows `extend_profile_deeper(z_new)` appends (l.367-390, 395): depths `linspace(z_max, z_new, 50)`, every
    variable held at its value at `z_max` (read through the CACHE), salinity linear from its value there to the
    `fsolve` result `S1`, pressure integrated downward with `compute_pressure(…, 0)` -/
def extendRows (ρ : α → α → α → α) (zt : Ztsp) (p : Profile α) (znew S1 : α) : List (List α) :=
  let names := p.names
  let z0 := p.zmax
  let y0 := p.get1 z0 names                           -- l.370 (cache)
  let iT := names.idxOf zt.t
  let iS := names.idxOf zt.s
  let iP := names.idxOf zt.p
  let zs := linspace z0 znew 50                        -- l.376
  let S0 := y0.getD iS 0
  let Se := zs.map (fun z => (S1 - S0) / (znew - z0) * (z - z0) + S0)   -- l.383-384
  let Te := zs.map (fun _ => y0.getD iT 0)
  let Pe := (computePressure ρ zs Te Se false).getD []                   -- l.389
  List.zipWith (fun z sp => z :: ((y0.set iS sp.1).set iP sp.2)) zs (List.zip Se Pe)

/-- one operation, as the code performs it (including whether `_build_interpolator` runs) -/
def step (ρ : α → α → α → α) (zt : Ztsp) (p : Profile α) : Op α → Profile α
  | .append data zcol vars =>
    -- l.272-281: every variable except the independent one is mapped onto the stored depths
    let zs := p.rows.map depth
    let p1 := vars.foldl (fun q v =>
      if v.name = zt.z then q else
      let nd := data.map (fun r => [r.getD zcol 0, r.getD v.col 0])
      q.setCol v.name (zs.map (fun z => (interpFill nd z).headD 0))) p
    -- l.297 xr_convert_units: value * factor + offset (factor 1, offset 0 for variables that
    -- already carry standard units)
    let p2 := vars.foldl (fun q v =>
      if v.name = zt.z then q else q.mapCol v.name (fun x => x * v.scale + v.shift)) p1
    -- l.303
    p2.rebuild
  | .extendDeeper znew S1 =>
    -- l.393-402: all stored rows but the last, then the 50 new rows; z_max updated; interpolator rebuilt
    ({ p with rows := p.rows.dropLast ++ extendRows ρ zt p znew S1, zmax := znew } : Profile α).rebuild
  | .insertDensity (some q) =>
    -- `if P0:` / `if not P0:` are Python truthiness tests: P0 = 0.0 behaves like P0 = None
    if q ≤ 0 ∧ 0 ≤ q then ((p.setCol "density" (densityColumn ρ p none))).rebuild
    else p                                               -- l.686-687: returns, nothing stored
  | .insertDensity none =>
    ((p.setCol "density" (densityColumn ρ p none))).rebuild                -- l.684, 690
  | .insertPotentialDensity =>
    ((p.setCol "theta" (densityColumn ρ p (some 101325.0)))).rebuild       -- l.703-711
  | .insertBuoyancyFrequency =>
    let nv := (p.rows.map depth).map (fun z => buoyancyFrequency1 ρ zt p z 0.01)
    ((p.setCol "N" nv)).rebuild                                            -- l.727-735

/-- a history of operations -/
def run (ρ : α → α → α → α) (zt : Ztsp) (p : Profile α) (ops : List (Op α)) : Profile α :=
  ops.foldl (step ρ zt) p

/-! ## profile construction, `_create_profile_from_xarray` (l.173-227) after unit conversion -/

/-- first index of the minimum of a list (`np.min(np.where(zs == np.min(zs)))`) -/
def argminFirst : List α → Nat
  | [] => 0
  | x :: xs =>
    let go := xs.foldl (fun (st : Nat × Nat × α) y =>
      if y < st.2.2 then (st.1 + 1, st.1 + 1, y) else (st.1 + 1, st.2.1, st.2.2)) (0, 0, x)
    go.2.1

def minOf (l : List α) : α := match l with
  | [] => 0
  | x :: xs => xs.foldl (fun m y => if y < m then y else m) x
def maxOf (l : List α) : α := match l with
  | [] => 0
  | x :: xs => xs.foldl (fun m y => if m < y then y else m) x

/-- `xr_stabilize_dataset` (l.1602-1622): columns are first put into z, T, S, P, others order -/
def reorderZtsp (zt : Ztsp) (names : List String) (rows : List (List α)) : List String × List (List α) :=
  let allNames := zt.z :: names
  let front := [zt.z, zt.t, zt.s, zt.p].filter (fun nm => allNames.contains nm)
  let others := allNames.filter (fun nm => !([zt.z, zt.t, zt.s, zt.p].contains nm))
  let order := front ++ others
  let idx := order.map (fun nm => allNames.idxOf nm)
  (order.drop 1, rows.map (fun r => idx.map (fun k => r.getD k 0)))

/-- construction from a table already in standard units.  `names` are the data variables in
    dataset order (without z); `hasP` says whether the pressure variable is among them.
    `none`: `compute_pressure` raised. -/
def construct (ρ : α → α → α → α) (zt : Ztsp) (rows : List (List α)) (names : List String)
    (err : α) (stab : Bool) : Option (Profile α) :=
  -- l.178-193: pressure by integration when missing; the new variable goes LAST
  let withP : Option (List (List α) × List String) :=
    if names.contains zt.p then some (rows, names) else
      let zs := rows.map depth
      let iT := names.idxOf zt.t + 1
      let iS := names.idxOf zt.s + 1
      let fsLast := decide (0 < argminFirst zs)
      match computePressure ρ zs (rows.map (fun r => r.getD iT 0)) (rows.map (fun r => r.getD iS 0)) fsLast with
      | none => none
      | some P => some (List.zipWith (fun r p => r ++ [p]) rows P, names ++ [zt.p])
  match withP with
  | none => none
  | some (rows1, names1) =>
    -- l.207-211
    let rows2 := if 0 < err then coarsen rows1 err else rows1
    -- l.214-216: the literal name 'pressure'
    let rn : List String × List (List α) :=
      if names1.contains "pressure" ∧ stab then
        let r := reorderZtsp zt names1 rows2
        (r.1, stabilize ρ r.2)
      else (names1, rows2)
    let zs := rn.2.map depth
    some { rows := rn.2, names := rn.1, zmin := minOf zs, zmax := maxOf zs, cache := build rn.2 rn.1 }

/-! ## line protocol (α := Float) -/

open TamocV.Proto

def chunksAux (k : Nat) : Nat → List Float → List (List Float)
  | 0, _ => []
  | fuel + 1, l => if l.isEmpty then [] else l.take k :: chunksAux k fuel (l.drop k)
/-- row-major matrix with `k` columns -/
def unflat (k : Nat) (l : List Float) : List (List Float) := if k = 0 then [] else chunksAux k l.length l

def namesOf (s : String) : List String := if s.isEmpty then [] else s.splitOn ","
def nameListsOf (s : String) : List (List String) := (s.splitOn ";").map namesOf
def showNames (l : List String) : String := ",".intercalate l

def outArgs : Out Float → List Arg
  | .vec v => [.n 1, .v v]
  | .mat m => [.n 2, .v m.flatten]

def profArgs (p : Profile Float) : List Arg :=
  [.n (p.names.length + 1), .v p.rows.flatten, .t (showNames p.names), .s p.zmin, .s p.zmax,
   .v p.cache.rows.flatten, .t (showNames p.cache.names)]

def mkProfile (k : Nat) (rows : List Float) (names : String) (zmin zmax : Float)
    (ck : Nat) (crows : List Float) (cnames : String) : Profile Float :=
  { rows := unflat k rows, names := namesOf names, zmin := zmin, zmax := zmax,
    cache := { rows := unflat ck crows, names := namesOf cnames } }

def optRows : Option (List (List Float)) → List Arg
  | none => [.t "raise"]
  | some r => [.t "ok", .v r.flatten]

/-- `ρ` is supplied by the driver (the density regenerated from seawater.py) -/
def dispatch (ρ : Float → Float → Float → Float) : Dispatch := fun name args =>
  let zt : Ztsp := {}
  match name, args with
  -- table (k columns, flat), f_names, z_min, z_max, depths, name lists "a,b;c;…":
  -- one (shape, flat) pair per name list, answered from build(table)
  | "Profile.getValues", [.n k, .v rows, .t fnames, .s zmin, .s zmax, .v zs, .t nls] =>
    let c := build (unflat k rows) (namesOf fnames)
    some ((nameListsOf nls).flatMap (fun nl => outArgs (getValues c zmin zmax zs nl)))
  | "Profile.interpRow", [.n k, .v rows, .s z] => some [.v (interpRow (unflat k rows) z)]
  | "Profile.append", [.n k, .v rows, .t names, .s zmin, .s zmax, .n ck, .v crows, .t cnames,
      .n dk, .v data, .t vnames, .v scale, .v shift] =>
    let p := mkProfile k rows names zmin zmax ck crows cnames
    let vn := namesOf vnames
    let vars := (List.range vn.length).map (fun i =>
      ({ name := vn.getD i "", col := i, scale := scale.getD i 1, shift := shift.getD i 0 } : AppendVar Float))
    some (profArgs (step ρ zt p (.append (unflat dk data) 0 vars)))
  | "Profile.extendDeeper", [.n k, .v rows, .t names, .s zmin, .s zmax, .n ck, .v crows, .t cnames,
      .s znew, .s S1] =>
    some (profArgs (step ρ zt (mkProfile k rows names zmin zmax ck crows cnames) (.extendDeeper znew S1)))
  | "Profile.insertDensity", [.n k, .v rows, .t names, .s zmin, .s zmax, .n ck, .v crows, .t cnames] =>
    some (profArgs (step ρ zt (mkProfile k rows names zmin zmax ck crows cnames) (.insertDensity none)))
  | "Profile.insertDensityP0", [.n k, .v rows, .t names, .s zmin, .s zmax, .n ck, .v crows, .t cnames, .s P0] =>
    some (profArgs (step ρ zt (mkProfile k rows names zmin zmax ck crows cnames) (.insertDensity (some P0))))
  | "Profile.densityAt", [.n k, .v rows, .t names, .s zmin, .s zmax, .n ck, .v crows, .t cnames, .s P0] =>
    some [.v (densityColumn ρ (mkProfile k rows names zmin zmax ck crows cnames) (some P0))]
  | "Profile.insertPotentialDensity", [.n k, .v rows, .t names, .s zmin, .s zmax, .n ck, .v crows, .t cnames] =>
    some (profArgs (step ρ zt (mkProfile k rows names zmin zmax ck crows cnames) .insertPotentialDensity))
  | "Profile.insertBuoyancyFrequency", [.n k, .v rows, .t names, .s zmin, .s zmax, .n ck, .v crows, .t cnames] =>
    some (profArgs (step ρ zt (mkProfile k rows names zmin zmax ck crows cnames) .insertBuoyancyFrequency))
  | "Profile.coarsen", [.n k, .v rows, .s err] => some [.v (coarsen (unflat k rows) err).flatten]
  | "Profile.stabilize", [.n k, .v rows] => some [.v (stabilize ρ (unflat k rows)).flatten]
  | "Profile.stabMask", [.n k, .v rows] =>
    some [.v ((stabMask ρ (unflat k rows)).map (fun b => if b then 1.0 else 0.0))]
  | "Profile.computePressure", [.v z, .v T, .v S, .n fsLast] =>
    (match computePressure ρ z T S (fsLast != 0) with
     | none => some [.t "raise"]
     | some P => some [.t "ok", .v P])
  -- zcol, pcol+1 (0 = None)
  | "Profile.extractProfile", [.n k, .v rows, .n zcol, .s zstart, .n pcol1, .s patm] =>
    some (optRows (extractProfile (unflat k rows) zcol zstart (if pcol1 = 0 then none else some (pcol1 - 1)) patm))
  | "Profile.construct", [.n k, .v rows, .t names, .s err, .n stab] =>
    (match construct ρ zt (unflat k rows) (namesOf names) err (stab != 0) with
     | none => some [.t "raise"]
     | some p => some (.t "ok" :: profArgs p))
  | _, _ => none

end TamocV.Model.Profile
