/-
  TamocV.Model.Particle17 — hand transcription (DESIGN §2.2 b) of the particle wrapper

    * `dispersed_phases.SingleParticle.properties`   (/repo/tamoc/dispersed_phases.py l.154-255)
      as a STATE MACHINE over the persistent attribute `self.K_T`
    * `dispersed_phases.PlumeParticle.update`         (l.427-474, zero-mass shortcut)
    * `dbm.InsolubleParticle.density`                 (/repo/tamoc/dbm.py l.1974-2027)
    * `dbm.FluidMixture.biodegradation_rate`          (l.883-915)
      `dbm.InsolubleParticle.biodegradation_rate`     (l.2095-2127)

  The discrete-bubble-model library call `self.particle.return_all(…)` and
  `seawater.density(Ta, Sa, P)` are NOT modelled: their answers are parameters of the model
  (`Lib`, `rhoAmb`) — an oracle.  `query` is the question the model hands to the library; the
  harness records the real calls and checks question and answer use against the real code.

  Generic in `[Num α]`: executed at `Float` by the driver, reasoned about at `ℝ` in Props/C17.
  Transcribes what the code DOES, line by line, same operation order.
-/
import TamocV.Num
import TamocV.Proto

namespace TamocV.Model.Particle17
variable {α : Type} [Num α]

/-- the attributes of a `SingleParticle` that `properties`/`update` read and never write -/
structure Params (α : Type) where
  soluble : Bool        -- self.particle.issoluble
  K : α                 -- self.K
  fdis : α              -- self.fdis
  tHyd : α              -- self.t_hyd
  m0 : List α           -- self.m0   (diss_indices = m0 > 0)
  nc : Nat              -- len(self.composition)
  lag : Bool            -- self.lag_time
  kbio : List α         -- self.particle.k_bio  (one entry for an InsolubleParticle)
  tbio : List α         -- self.particle.t_bio

/-- arguments of one call `properties(m, T, P, Sa, Ta, t)` -/
structure Inp (α : Type) where
  m : List α
  T : α
  P : α
  Sa : α
  Ta : α
  t : α

/-- what `return_all` answered (shape and de are stored as attributes, never returned);
    for an insoluble particle `Cs`, `beta` are absent in the answer and ignored here -/
structure Lib (α : Type) where
  rhoP : α
  us : α
  A : α
  Cs : List α
  beta : List α
  betaT : α

/-- what the wrapper asks the library: `return_all(m, T, P, Sa, Ta, status)`;
    `clean = true` stands for `status = 1`, `false` for `status = -1` -/
structure Query (α : Type) where
  m : List α
  T : α
  P : α
  Sa : α
  Ta : α
  clean : Bool

/-- the tuple `(us, rho_p, A, Cs, K * beta, K_T * beta_T, T)` -/
structure Out (α : Type) where
  us : α
  rhoP : α
  A : α
  Cs : List α
  beta : List α
  betaT : α
  T : α

/-- `x == 0.` without `==` on α -/
def isZero (x : α) : Prop := x ≤ 0 ∧ 0 ≤ x
instance (x : α) : Decidable (isZero x) := by unfold isZero; exact inferInstance

/-- l.208-209: `if self.K_T > 0. and np.abs(Ta - T) < 0.5: self.K_T = 0.` -/
def switchKT (KT Ta T : α) : α :=
  if 0 < KT ∧ Num.abs (Ta - T) < 0.5 then 0 else KT

/-- l.212-213: `if self.K_T == 0.: T = Ta` -/
def useT (KT T Ta : α) : α := if isZero KT then Ta else T

/-- l.216-222: `status = 1 if t < self.t_hyd else -1` -/
def isClean (t tHyd : α) : Bool := decide (t < tHyd)

/-- l.228: `m[m<0] = 0.` -/
def clip (m : List α) : List α := m.map fun x => if x < 0 then 0 else x

/-- l.233-235: `frac_diss = ones; frac_diss[diss] = m[diss] / m0[diss]`, `diss = m0 > 0` -/
def fracDiss : List α → List α → List α
  | m :: ms, m0 :: m0s => (if 0 < m0 then m / m0 else 1) :: fracDiss ms m0s
  | _, _ => []

/-- l.236: `beta[frac_diss < self.fdis] = 0.` -/
def cutoff (fdis : α) : List α → List α → List α
  | f :: fs, b :: bs => (if f < fdis then 0 else b) :: cutoff fdis fs bs
  | _, _ => []

/-- boolean-mask selection `v[diss_indices]` (`keep = true`) / `v[~diss_indices]` (`false`) -/
def pick (keep : Bool) : List α → List α → List α
  | m0 :: m0s, x :: xs =>
      if decide (0 < m0) = keep then x :: pick keep m0s xs else pick keep m0s xs
  | _, _ => []

/-- the question handed to the library, together with the new value of `self.K_T` -/
def query (par : Params α) (KT : α) (x : Inp α) : α × Query α :=
  let KT' := switchKT KT x.Ta x.T
  let T' := useT KT' x.T x.Ta
  let mq := if par.soluble then clip x.m else [x.m.headD 0]
  (KT', { m := mq, T := T', P := x.P, Sa := x.Sa, Ta := x.Ta, clean := isClean x.t par.tHyd })

/-- the question handed to `seawater.density` when it is consulted: `(Ta, Sa, P)` of the call -/
def swQuery (x : Inp α) : α × α × α := (x.Ta, x.Sa, x.P)

/-- β after the per-component cut-off (before scaling by K) -/
def betaCut (par : Params α) (mq : List α) (lib : Lib α) : List α :=
  cutoff par.fdis (fracDiss mq par.m0) lib.beta

/-- l.239-242: `np.sum(beta[diss]) == 0. and np.sum(m[diss]) > np.sum(m[~diss])` -/
def neutral (par : Params α) (mq : List α) (lib : Lib α) : Prop :=
  isZero (Num.sum (pick true par.m0 (betaCut par mq lib))) ∧
    Num.sum (pick false par.m0 mq) < Num.sum (pick true par.m0 mq)
instance (par : Params α) (mq : List α) (lib : Lib α) : Decidable (neutral par mq lib) := by
  unfold neutral; exact inferInstance

/-- `SingleParticle.properties`: new `K_T` and the returned tuple.
    `lib` = answer of `return_all` to `(query par KT x).2`, `rhoAmb` = `seawater.density(Ta,Sa,P)` -/
def properties (par : Params α) (KT : α) (x : Inp α) (lib : Lib α) (rhoAmb : α) : α × Out α :=
  let kq := query par KT x
  let KT' := kq.1
  let q := kq.2
  if par.soluble then
    let beta := betaCut par q.m lib
    let us := if neutral par q.m lib then 0 else lib.us
    let rhoP := if neutral par q.m lib then rhoAmb else lib.rhoP
    (KT', { us := us, rhoP := rhoP, A := lib.A, Cs := lib.Cs, beta := Num.smul par.K beta,
            betaT := KT' * lib.betaT, T := q.T })
  else
    (KT', { us := lib.us, rhoP := lib.rhoP, A := lib.A, Cs := [], beta := [],
            betaT := KT' * lib.betaT, T := q.T })

/-- `k_bio = copy(self.k_bio); if lag_time: k_bio[self.t_bio > t] = 0.`
    (mixture: element-wise; insoluble particle: the same on its single entry) -/
def bioRate (lag : Bool) (kbio tbio : List α) (t : α) : List α :=
  List.zipWith (fun k tb => if lag = true ∧ t < tb then 0 else k) kbio tbio

def zeros (n : Nat) : List α := List.replicate n 0

/-- `PlumeParticle.update`: new `K_T`, the stored (us, rho_p, A, Cs, beta, beta_T, T) and k_bio.
    l.462 `if np.sum(self.m) > 0.` (the sum of the masses as passed, before any clipping) -/
def update (par : Params α) (KT : α) (x : Inp α) (lib : Lib α) (rhoAmb : α) :
    α × Out α × List α :=
  if 0 < Num.sum x.m then
    let r := properties par KT x lib rhoAmb
    (r.1, r.2, bioRate par.lag par.kbio par.tbio x.t)
  else
    (KT, { us := 0, rhoP := rhoAmb, A := 0, Cs := zeros par.nc, beta := zeros par.nc,
           betaT := 0, T := x.Ta }, zeros par.nc)

/-- one entry of a call history -/
structure Call (α : Type) where
  isUpdate : Bool
  x : Inp α
  lib : Lib α
  rhoAmb : α

def stepCall (par : Params α) (KT : α) (c : Call α) : α × Out α × List α :=
  if c.isUpdate then update par KT c.x c.lib c.rhoAmb
  else
    let r := properties par KT c.x c.lib c.rhoAmb
    (r.1, r.2, [])

/-- does this call reach `return_all`? -/
def asksLib (c : Call α) : Bool := !c.isUpdate || decide (0 < Num.sum c.x.m)

/-- does this call reach `seawater.density`? -/
def asksSw (par : Params α) (KT : α) (c : Call α) : Bool :=
  if asksLib c then par.soluble && decide (neutral par (query par KT c.x).2.m c.lib)
  else true

/-- the state machine: the list of (K_T after the call, returned tuple, k_bio), any history -/
def run (par : Params α) : α → List (Call α) → List (α × Out α × List α)
  | _, [] => []
  | KT, c :: cs =>
      let r := stepCall par KT c
      r :: run par r.1 cs

/-- the trace of the persistent flag -/
def ktTrace (par : Params α) (KT : α) (cs : List (Call α)) : List α :=
  (run par KT cs).map (·.1)

/-- value of the flag after the whole history -/
def ktFinal (par : Params α) : α → List (Call α) → α
  | KT, [] => KT
  | KT, c :: cs => ktFinal par (stepCall par KT c).1 cs

-- ------------------------------------------------------------------ InsolubleParticle.density

def Pstp : α := 101325.0
def Tstp : α := 273.15 + (60.0 - 32.0) * 5.0 / 9.0

/-- `InsolubleParticle.density(T, P, Sa, Ta)`; `rhoStp = seawater.density(T_stp, 0., P_stp)` -/
def density (compressible : Bool) (rhoConst gamma beta co rhoStp T P : α) : α :=
  if compressible then
    let gamma0 := 141.5 / (gamma + 131.5)
    let r0 := gamma0 * rhoStp
    let r1 := r0 * Num.exp (co * (P - Pstp))
    r1 * (1 - beta * (T - Tstp))
  else rhoConst

-- ------------------------------------------------------------------ line protocol

open TamocV.Proto

def boolArg (b : Bool) : Arg := .n (if b then 1 else 0)

/-- 14 args per call: n:isUpdate v:m T P Sa Ta t rhoP us A v:Cs v:beta betaT rhoAmb -/
def parseCalls : List Arg → Option (List (Call Float))
  | [] => some []
  | .n u :: .v m :: .s T :: .s P :: .s Sa :: .s Ta :: .s t :: .s rhoP :: .s us :: .s A ::
      .v Cs :: .v beta :: .s betaT :: .s rhoAmb :: rest =>
      (parseCalls rest).map fun cs =>
        { isUpdate := u != 0, x := { m := m, T := T, P := P, Sa := Sa, Ta := Ta, t := t },
          lib := { rhoP := rhoP, us := us, A := A, Cs := Cs, beta := beta, betaT := betaT },
          rhoAmb := rhoAmb } :: cs
  | _ => none

/-- per call: KT' n:asksLib n:asksSw v:q.m q.T n:clean us rhoP A v:Cs v:beta betaT T v:kbio
    swT swS swP (17 args) -/
def showHistory (par : Params Float) : Float → List (Call Float) → List Arg
  | _, [] => []
  | KT, c :: cs =>
      let r := stepCall par KT c
      let q := (query par KT c.x).2
      [.s r.1, boolArg (asksLib c), boolArg (asksSw par KT c), .v q.m, .s q.T, boolArg q.clean,
       .s r.2.1.us, .s r.2.1.rhoP, .s r.2.1.A, .v r.2.1.Cs, .v r.2.1.beta, .s r.2.1.betaT,
       .s r.2.1.T, .v r.2.2, .s (swQuery c.x).1, .s (swQuery c.x).2.1, .s (swQuery c.x).2.2]
        ++ showHistory par r.1 cs

def dispatch : Dispatch := fun name args =>
  match name, args with
  | "P17.density", [.n c, .s rhoConst, .s gamma, .s beta, .s co, .s rhoStp, .s T, .s P] =>
      some [.s (density (α := Float) (c != 0) rhoConst gamma beta co rhoStp T P)]
  | "P17.biorate", [.n lag, .v kbio, .v tbio, .s t] =>
      some [.v (bioRate (α := Float) (lag != 0) kbio tbio t)]
  | "P17.history", .n sol :: .s K :: .s KT0 :: .s fdis :: .s tHyd :: .v m0 :: .n nc :: .n lag ::
      .v kbio :: .v tbio :: rest =>
      let par : Params Float := { soluble := sol != 0, K := K, fdis := fdis, tHyd := tHyd, m0 := m0,
                                  nc := nc, lag := lag != 0, kbio := kbio, tbio := tbio }
      (parseCalls rest).map fun cs => showHistory par KT0 cs
  | _, _ => none

end TamocV.Model.Particle17
