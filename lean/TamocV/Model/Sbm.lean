/-
  TamocV.Model.Sbm — hand transcription (DESIGN §2.2 b) of the single bubble model
  (/repo/tamoc/single_bubble_model.py):

    * `derivs`          l.885-957   right-hand side of the trajectory ODE
    * `calculate_path`  l.774-882   loop control only: heat reset after equilibration,
                                    negative-mass clipping, the stop tests, removal of negative depths
    * `sbm_ic`          l.960-1038  (+ `dispersed_phases.initial_conditions` q_type = 0,
                                    `FluidParticle.masses_by_diameter`, `InsolubleParticle.mass_by_diameter`)
    * `Model.simulate`  l.196-301   the K_T bookkeeping only

  NOT modelled: the ODE integrator (scipy VODE) — it is a parameter `integ` of the loop (any
  function); the profile look-ups and the equations of state are parameters as well.
  `particle.properties` inside `derivs` is `TamocV.Model.Particle17.properties`.
-/
import TamocV.Num
import TamocV.Proto
import TamocV.Model.Particle17

namespace TamocV.Model.Sbm
open TamocV.Model
variable {α : Type} [Num α]

-- ------------------------------------------------------------------ state vector helpers

/-- `y[3:-1]` -/
def masses (y : List α) : List α := (y.drop 3).dropLast
/-- `y[-1]` -/
def heat (y : List α) : α := y.getLastD 0
/-- `y[2]` -/
def depth (y : List α) : α := y.getD 2 0

-- ------------------------------------------------------------------ derivs

/-- l.920: `T = y[-1] / (np.sum(m) * particle.cp)` -/
def tempOf (cp : α) (m : List α) (H : α) : α := H / (Num.sum m * cp)

/-- `- A * beta[:] * (Cs[:] - C[:])` element-wise -/
def diss3 (A : α) : List α → List α → List α → List α
  | b :: bs, s :: ss, c :: cs => (-A * b * (s - c)) :: diss3 A bs ss cs
  | _, _, _ => []

/-- l.940-943 -/
def mdDiss (A : α) (beta Cs C : List α) : List α :=
  if 0 < Cs.length then diss3 A beta Cs C else [0]

/-- l.946: `md_biodeg = -k_bio * m` -/
def mdBio (kbio m : List α) : List α := List.zipWith (fun k mi => -k * mi) kbio m

/-- l.947: `yp[3:-1] = md_diss + md_biodeg` -/
def massRhs (o : Particle17.Out α) (C kbio m : List α) : List α :=
  Num.vadd (mdDiss o.A o.beta o.Cs C) (mdBio kbio m)

/-- l.951-954 -/
def heatRhs (cp Ta : α) (o : Particle17.Out α) (md : List α) : α :=
  -o.rhoP * cp * o.A * o.betaT * (o.T - Ta) + cp * Num.sum md * o.T

/-- the right-hand side given what `particle.properties` and `biodegradation_rate` returned;
    `m` = `y[3:-1]` as it is AFTER the `properties` call (which clips it in place) -/
def rhs (cp Ta ua va wa : α) (C : List α) (o : Particle17.Out α) (kbio m : List α) : List α :=
  let md := massRhs o C kbio m
  [ua, va, -o.us - wa] ++ md ++ [heatRhs cp Ta o md]

/-- `derivs(t, y, profile, particle, p)` with the profile values at `y[2]`, the library answer and
    `seawater.density(Ta,Sa,P)` passed in; returns the new `particle.K_T` and `yp` -/
def derivs (par : Particle17.Params α) (KT cp t : α) (y : List α) (P Sa Ta ua va wa : α) (C : List α)
    (lib : Particle17.Lib α) (rhoAmb : α) : α × List α :=
  let m := masses y
  let T := tempOf cp m (heat y)
  let r := Particle17.properties par KT { m := m, T := T, P := P, Sa := Sa, Ta := Ta, t := t } lib rhoAmb
  let m' := if par.soluble then Particle17.clip m else m
  (r.1, rhs cp Ta ua va wa C r.2 (Particle17.bioRate par.lag par.kbio par.tbio t) m')

-- ------------------------------------------------------------------ calculate_path, loop control

/-- l.847-850: `if particle.K_T == 0: r.y[-1] = np.sum(r.y[3:-1]) * particle.cp * Ta` -/
def heatReset (KT cp Ta : α) (y : List α) : List α :=
  if Particle17.isZero KT then y.dropLast ++ [Num.sum (masses y) * cp * Ta] else y

/-- l.851-854: `if r.y[i+3] < 0.: r.y[i+3] = 0.` for the mass entries -/
def clipMasses (y : List α) : List α :=
  y.take 3 ++ Particle17.clip (masses y) ++ [heat y]

def postStep (KT cp Ta : α) (y : List α) : List α := clipMasses (heatReset KT cp Ta y)

/-- the stop tests of l.860-870 (all five evaluated) and the integrator's failure flag -/
structure Stop where
  surface : Bool
  stall : Bool
  dissolved : Bool
  capK : Bool
  capT : Bool
  failed : Bool

def Stop.any (s : Stop) : Bool := s.surface || s.stall || s.dissolved || s.capK || s.capT || s.failed

def stopNone : Stop := ⟨false, false, false, false, false, false⟩

/-- l.863-870; `f` is the mass fraction computed BEFORE the step (l.837-839) -/
def stopTests (zmin fdis f : α) (k : Nat) (tPrev zPrev t z : α) : Stop :=
  let us := -(zPrev - z) / (tPrev - t)
  { surface := decide (z ≤ zmin), stall := decide (us ≤ 0), dissolved := decide (f < fdis),
    capK := decide (300000 < k), capT := decide ((1209600 : α) < t), failed := false }

/-- result of one `r.integrate(t[-1] + delta_t, step=True)`: new time, state, the value of
    `particle.K_T` afterwards (the right-hand side mutates it) and `r.successful()` -/
structure Integ (α : Type) where
  t : α
  y : List α
  KT : α
  ok : Bool

/-- outcome of the loop: stored rows (newest first), number of steps, flags, `particle.K_T`,
    and whether the model ran out of fuel (never, see Props.C05.stop_reason_sbm) -/
structure LoopOut (α : Type) where
  rows : List (α × List α)
  k : Nat
  stop : Stop
  KT : α
  outOfFuel : Bool

/-- one pass through the body of `while r.successful() and not stop`.
    The integrator is ANY function of its own hidden state `s : σ` (VODE keeps its Nordsieck
    history: the in-place edits of `r.y` below are seen by the stored rows, not necessarily by the
    next step), the last stored time/state and the particle's flag. -/
def loopBody {σ : Type} (integ : σ → α → List α → α → σ × Integ α) (TaOf : α → α) (cp zmin fdis : α)
    (first : α × List α) (s : σ) (last : α × List α) (k : Nat) (KT : α) :
    (α × List α) × Nat × Stop × α × σ :=
  let f := Num.sum (masses last.2) / Num.sum (masses first.2)
  let sr := integ s last.1 last.2 KT
  let r := sr.2
  let y' := postStep r.KT cp (TaOf (depth r.y)) r.y
  let k' := k + 1
  let st := if r.ok then stopTests zmin fdis f k' last.1 (depth last.2) r.t (depth y')
            else { stopNone with failed := true }
  ((r.t, y'), k', st, r.KT, sr.1)

def loop {σ : Type} (integ : σ → α → List α → α → σ × Integ α) (TaOf : α → α) (cp zmin fdis : α)
    (first : α × List α) : Nat → σ → (α × List α) → List (α × List α) → Nat → α → LoopOut α
  | 0, _, last, older, k, KT =>
      { rows := last :: older, k := k, stop := stopNone, KT := KT, outOfFuel := true }
  | fuel + 1, s, last, older, k, KT =>
      let b := loopBody integ TaOf cp zmin fdis first s last k KT
      if b.2.2.1.any then
        { rows := b.1 :: last :: older, k := b.2.1, stop := b.2.2.1, KT := b.2.2.2.1, outOfFuel := false }
      else loop integ TaOf cp zmin fdis first fuel b.2.2.2.2 b.1 (last :: older) b.2.1 b.2.2.2.1

/-- l.872-877: `rows = y[:,2] >= 0` -/
def dropNegDepth (rows : List (α × List α)) : List (α × List α) :=
  rows.filter fun r => decide (0 ≤ depth r.2)

/-- `calculate_path`: rows oldest first -/
def calculatePath {σ : Type} (integ : σ → α → List α → α → σ × Integ α) (s0 : σ) (TaOf : α → α)
    (cp zmin fdis KT : α) (y0 : List α) : LoopOut α :=
  let out := loop integ TaOf cp zmin fdis (0, y0) 300001 s0 (0, y0) [] 0 KT
  { out with rows := dropNegDepth out.rows.reverse }

-- ------------------------------------------------------------------ sbm_ic

/-- `FluidParticle.masses_by_diameter(de, T, P, yk)`; `rho` = `self.density(m, T, P)` for one mole,
    `pi` = `np.pi` -/
def massesByDiameter (pi de rho : α) (yk M : List α) : List α :=
  let m := Num.vmul yk M
  let mTot := 1.0 / 6.0 * pi * Num.npow de 3 * rho
  let n := yk.map fun y => y * mTot / Num.sum m
  Num.vmul n M

/-- `InsolubleParticle.mass_by_diameter` -/
def massByDiameter (pi de rho : α) : α := 1.0 / 6.0 * pi * Num.npow de 3 * rho

/-- l.1035: `y0 = np.hstack((X0, m0, T0 * np.sum(m0) * particle.cp))`, `T0 = Ta` when `None` -/
def ic (X0 m0 : List α) (T0 : Option α) (Ta cp : α) : List α :=
  X0 ++ m0 ++ [T0.getD Ta * Num.sum m0 * cp]

/-- `Model.simulate`: `self.K_T0 = K_T; particle = SingleParticle(…, K_T, …); calculate_path;
    self.particle.K_T = self.K_T0` — returns the rows and the particle's `K_T` afterwards -/
def simulate {σ : Type} (integ : σ → α → List α → α → σ × Integ α) (s0 : σ) (TaOf : α → α)
    (cp zmin fdis KT0 : α) (y0 : List α) : List (α × List α) × α :=
  let out := calculatePath integ s0 TaOf cp zmin fdis KT0 y0
  (out.rows, KT0)

-- ------------------------------------------------------------------ line protocol

open TamocV.Proto

def flag (b : Bool) : Arg := .n (if b then 1 else 0)

def dispatch : Dispatch := fun name args =>
  match name, args with
  | "Sbm.rhs", [.s cp, .s Ta, .s ua, .s va, .s wa, .v C, .s us, .s rhoP, .s A, .v Cs, .v beta,
                .s betaT, .s T, .v kbio, .v m] =>
      some [.v (rhs (α := Float) cp Ta ua va wa C
        { us := us, rhoP := rhoP, A := A, Cs := Cs, beta := beta, betaT := betaT, T := T } kbio m)]
  | "Sbm.derivs", [.n sol, .s K, .s fdis, .s tHyd, .v m0, .n nc, .n lag, .v kbio, .v tbio,
                   .s KT, .s cp, .s t, .v y, .s P, .s Sa, .s Ta, .s ua, .s va, .s wa, .v C,
                   .s rhoP, .s us, .s A, .v Cs, .v beta, .s betaT, .s rhoAmb] =>
      let par : Particle17.Params Float :=
        { soluble := sol != 0, K := K, fdis := fdis, tHyd := tHyd, m0 := m0, nc := nc,
          lag := lag != 0, kbio := kbio, tbio := tbio }
      let r := derivs par KT cp t y P Sa Ta ua va wa C
        { rhoP := rhoP, us := us, A := A, Cs := Cs, beta := beta, betaT := betaT } rhoAmb
      some [.s r.1, .v r.2]
  | "Sbm.postStep", [.s KT, .s cp, .s Ta, .v y] => some [.v (postStep (α := Float) KT cp Ta y)]
  | "Sbm.stopTests", [.s zmin, .s fdis, .s f, .n k, .s tPrev, .s zPrev, .s t, .s z] =>
      let s := stopTests (α := Float) zmin fdis f k tPrev zPrev t z
      some [flag s.surface, flag s.stall, flag s.dissolved, flag s.capK, flag s.capT]
  | "Sbm.massesByDiameter", [.s pi, .s de, .s rho, .v yk, .v M] =>
      some [.v (massesByDiameter (α := Float) pi de rho yk M)]
  | "Sbm.massByDiameter", [.s pi, .s de, .s rho] => some [.s (massByDiameter (α := Float) pi de rho)]
  | "Sbm.ic", [.v X0, .v m0, .n hasT0, .s T0, .s Ta, .s cp] =>
      some [.v (ic (α := Float) X0 m0 (if hasT0 != 0 then some T0 else none) Ta cp)]
  | _, _ => none

end TamocV.Model.Sbm
