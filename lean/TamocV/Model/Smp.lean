/-
  TamocV.Model.Smp — hand transcription of the right-hand sides of the stratified
  (double) plume model of /repo/tamoc:

    smp.derivs_inner  (smp.py l.25-172)   →  `innerYp` (the vector `yp` the code fills) and
                                              `derivsInner` (what it returns: `-yp`)
    smp.derivs_outer  (smp.py l.174-255)  →  `derivsOuter`
    OuterPlume.update (stratified_plume_model.py l.1475-1535) → `outerUpdate`
                                              (present branch Q < 0 / "no outer plume" branch)

  The functions work on records of the DERIVED quantities that `InnerPlume.update`,
  `OuterPlume.update` and `PlumeParticle.update` leave in the objects `yi`, `yo`,
  `particles[i]` (the closures `shear_entrainment`, `cp_model`, `seawater.density`, the
  `dbm` property routines are NOT modelled: their results `alpha_s`, `Ep`, `rho`, `us`,
  `beta`, … are inputs).  Every slot of the two vectors is transcribed in the order of the
  code, with the operation order of the Python expressions; the exchange terms are written
  out twice, once per plume, exactly as the code has them.

  Generic in `[Num α]`; imports nothing but Num/Proto (driver start-up).
-/
import TamocV.Num
import TamocV.Proto

namespace TamocV.Model.Smp

/-- `np.pi` (the double nearest to π).  The exchange identities are ring identities and hold
    for every value of this constant. -/
def pi {α : Type} [Num α] : α := 3.141592653589793

/-- `ModelParams` fields read by the two functions, plus `seawater.cp()` -/
structure Params (α : Type) where
  c1 : α
  alpha_2 : α
  alpha_3 : α
  gamma_i : α
  gamma_o : α
  lambda_2 : α
  g : α
  rho_r : α
  Ru : α
  cp : α

/-- attributes of `yi` (`InnerPlume`) read by `derivs_inner` / `derivs_outer` -/
structure Inner (α : Type) where
  b : α
  u : α
  s : α
  T : α
  c : List α
  rho : α
  rho_a : α
  alpha_s : α
  Ep : α
  Xi : α
  Fb : α

/-- attributes of `yo` (`OuterPlume`) read by `derivs_inner` / `derivs_outer` -/
structure Outer (α : Type) where
  b : α
  u : α
  s : α
  T : α
  c : List α
  rho : α
  rho_a : α
  Sa : α
  Ta : α
  ca : List α

/-- attributes of `particles[i]` (`PlumeParticle`) and of `particles[i].particle` (dbm object)
    read by `derivs_inner` -/
structure Particle (α : Type) where
  issoluble : Bool
  A : α
  nb0 : α
  us : α
  beta : List α
  Cs : List α
  rho_p : α
  cp : α
  beta_T : α
  T : α
  neg_dH_solR : List α
  M : List α

variable {α : Type} [Num α]

/-! ### derivs_inner -/

/-- l.125-127: `yp[idx] = -(A * nb0 / (yi.u + us) * beta[j] * (Cs[j] - yi.c[j]))` -/
def solMass (yi : Inner α) (pt : Particle α) (j : Nat) : α :=
  -(pt.A * pt.nb0 / (yi.u + pt.us) * pt.beta.getD j 0 * (pt.Cs.getD j 0 - yi.c.getD j 0))

/-- number of mass slots the loop l.121-140 writes for one particle (`nchems` for a soluble
    particle — the loop runs over `range(yi.nchems)` — one for an insoluble particle) -/
def nMass (nchems : Nat) (pt : Particle α) : Nat := if pt.issoluble then nchems else 1

/-- number of slots of one particle: masses, heat, age, three position slots -/
def width (nchems : Nat) (pt : Particle α) : Nat := nMass nchems pt + 5

/-- the mass slots of one particle (l.121-140) -/
def partMass (nchems : Nat) (yi : Inner α) (pt : Particle α) : List α :=
  if pt.issoluble then (List.range nchems).map (solMass yi pt) else [0]

/-- `delDiss_p` after the loop over the chemicals (zeros for an insoluble particle) -/
def partDiss (nchems : Nat) (yi : Inner α) (pt : Particle α) : List α :=
  if pt.issoluble then (List.range nchems).map (solMass yi pt) else List.replicate nchems 0

/-- l.132-134: `yp[3] += yp[idx] * (-1.) * neg_dH_solR[j] * p.Ru / M[j]` for j = 0 … nchems-1 -/
def hosAdd (p : Params α) (nchems : Nat) (yi : Inner α) (pt : Particle α) (h : α) : α :=
  if pt.issoluble then
    (List.range nchems).foldl
      (fun acc j => acc + solMass yi pt j * (-1) * pt.neg_dH_solR.getD j 0 * p.Ru / pt.M.getD j 0) h
  else h

/-- l.143-146: particle heat slot -/
def partHeat (nchems : Nat) (yi : Inner α) (pt : Particle α) : α :=
  (-pt.A) * pt.nb0 / (yi.u + pt.us) * pt.rho_p * pt.cp * pt.beta_T * (pt.T - yi.T)
    + Num.sum (partDiss nchems yi pt) * pt.cp * pt.T

/-- l.154-157: particle age slot -/
def partAge (yi : Inner α) (pt : Particle α) : α :=
  if yi.u + pt.us ≤ 0 ∧ 0 ≤ yi.u + pt.us then 0 else 1 / (yi.u + pt.us)

/-- the slots of one particle in state-space order: masses, heat, age, x, y, z (l.161: zeros) -/
def partSlots (nchems : Nat) (yi : Inner α) (pt : Particle α) : List α :=
  partMass nchems yi pt ++ [partHeat nchems yi pt, partAge yi pt, 0, 0, 0]

/-- `yp[3]` after the particle loop: for each particle in order the heat-of-solution
    increments (l.132) and then `yp[3] -= yp[idx]` with the particle heat slot (l.150) -/
def heatFold (p : Params α) (nchems : Nat) (yi : Inner α) : List (Particle α) → α → α
  | [], h => h
  | pt :: ps, h => heatFold p nchems yi ps (hosAdd p nchems yi pt h - partHeat nchems yi pt)

/-- `delDiss` after the particle loop (l.128: `delDiss[j] += yp[idx]`, soluble particles only) -/
def delDiss (nchems : Nat) (yi : Inner α) : List (Particle α) → List α → List α
  | [], d => d
  | pt :: ps, d =>
    delDiss nchems yi ps (if pt.issoluble then Num.vadd d (partDiss nchems yi pt) else d)

/-- l.95-96 conservation of mass -/
def innerVol (p : Params α) (yi : Inner α) (yo : Outer α) : α :=
  2 * pi * yi.b * (yi.alpha_s * (yi.u + p.c1 * yo.u) + p.alpha_2 * yo.u) + yi.Ep

/-- l.99-102 conservation of momentum -/
def innerMom (p : Params α) (yi : Inner α) (yo : Outer α) : α :=
  1 / p.gamma_i * (pi * p.g * Num.npow yi.b 2 / p.rho_r *
      (yi.Fb + Num.npow p.lambda_2 2 * (1 - yi.Xi) * (yi.rho_a - yi.rho))
      + 2 * pi * yi.b * (yi.alpha_s * (yi.u + p.c1 * yo.u) * yo.u + p.alpha_2 * yo.u * yi.u)
      + yi.Ep * yi.u)

/-- l.105-106 conservation of salinity -/
def innerSalt (p : Params α) (yi : Inner α) (yo : Outer α) : α :=
  2 * pi * yi.b * (yi.alpha_s * (yi.u + p.c1 * yo.u) * yo.s + p.alpha_2 * yo.u * yi.s)
      + yi.Ep * yi.s

/-- l.109-111 continuous-phase heat, the value of `yp[3]` before the particle loop -/
def innerHeat0 (p : Params α) (yi : Inner α) (yo : Outer α) : α :=
  p.rho_r * p.cp * (2 * pi * yi.b * (yi.alpha_s * (yi.u + p.c1 * yo.u) * yo.T
      + p.alpha_2 * yo.u * yi.T) + yi.Ep * yi.T)

/-- l.166-168 dissolved constituent `i`, `dd` = `delDiss` after the particle loop -/
def innerDiss (p : Params α) (yi : Inner α) (yo : Outer α) (dd : List α) (i : Nat) : α :=
  2 * pi * yi.b * (yi.alpha_s * (yi.u + p.c1 * yo.u) * yo.c.getD i 0
      + p.alpha_2 * yo.u * yi.c.getD i 0) + yi.Ep * yi.c.getD i 0 - dd.getD i 0

/-- the vector `yp` of `derivs_inner` just before `return -yp`: slots 0-3, the particle loop
    l.117-162 (per particle: masses, heat, age, position), the dissolved constituents l.165-169 -/
def innerYp (p : Params α) (nchems : Nat) (yi : Inner α) (yo : Outer α)
    (ps : List (Particle α)) : List α :=
  [innerVol p yi yo, innerMom p yi yo, innerSalt p yi yo, heatFold p nchems yi ps (innerHeat0 p yi yo)]
    ++ ps.flatMap (partSlots nchems yi)
    ++ (List.range nchems).map
        (innerDiss p yi yo (delDiss nchems yi ps (List.replicate nchems 0)))

/-- what `smp.derivs_inner` returns: `-yp` (l.172, z is positive downward) -/
def derivsInner (p : Params α) (nchems : Nat) (yi : Inner α) (yo : Outer α)
    (ps : List (Particle α)) : List α :=
  (innerYp p nchems yi yo ps).map (fun x => -x)

/-! ### derivs_outer -/

/-- l.228-229 -/
def outerVol (p : Params α) (yi : Inner α) (yo : Outer α) : α :=
  2 * pi * yi.b * (yi.alpha_s * (yi.u + p.c1 * yo.u) + p.alpha_2 * yo.u)
      + 2 * pi * yo.b * p.alpha_3 * yo.u + yi.Ep

/-- l.232-234 -/
def outerMom (p : Params α) (yi : Inner α) (yo : Outer α) : α :=
  1 / p.gamma_o * ((-pi) * p.g * (Num.npow yo.b 2 - Num.npow yi.b 2) / p.rho_r *
      (yo.rho_a - yo.rho)
      + 2 * pi * yi.b * (yi.alpha_s * (yi.u + p.c1 * yo.u) * yo.u + p.alpha_2 * yo.u * yi.u)
      + yi.Ep * yi.u)

/-- l.237-239 -/
def outerSalt (p : Params α) (yi : Inner α) (yo : Outer α) : α :=
  2 * pi * yi.b * (yi.alpha_s * (yi.u + p.c1 * yo.u) * yo.s + p.alpha_2 * yo.u * yi.s)
      + 2 * pi * yo.b * p.alpha_3 * yo.u * yo.Sa + yi.Ep * yi.s

/-- l.242-244 -/
def outerHeat (p : Params α) (yi : Inner α) (yo : Outer α) : α :=
  p.rho_r * p.cp * (2 * pi * yi.b * (yi.alpha_s * (yi.u + p.c1 * yo.u) * yo.T
      + p.alpha_2 * yo.u * yi.T) + 2 * pi * yo.b * p.alpha_3 * yo.u * yo.Ta + yi.Ep * yi.T)

/-- l.249-251 -/
def outerChem (p : Params α) (yi : Inner α) (yo : Outer α) (i : Nat) : α :=
  2 * pi * yi.b * (yi.alpha_s * (yi.u + p.c1 * yo.u) * yo.c.getD i 0
      + p.alpha_2 * yo.u * yi.c.getD i 0)
    + 2 * pi * yo.b * p.alpha_3 * yo.u * yo.ca.getD i 0 + yi.Ep * yi.c.getD i 0

/-- what `smp.derivs_outer` returns (l.228-255) -/
def derivsOuter (p : Params α) (nchems : Nat) (yi : Inner α) (yo : Outer α) : List α :=
  [outerVol p yi yo, outerMom p yi yo, outerSalt p yi yo, outerHeat p yi yo]
    ++ (List.range nchems).map (outerChem p yi yo)

/-! ### OuterPlume.update -/

/-- the record `OuterPlume.update` leaves when there is no outer plume (l.1528-1535: `Q ≥ 0`,
    in particular the all-zero state that `derivs_inner` substitutes above the outer plume) -/
def outerAbsent (Ta Sa rho_a : α) (ca : List α) : Outer α :=
  { u := 0, b := 0, s := Sa, T := Ta, c := ca, rho := rho_a, rho_a := rho_a, Sa := Sa, Ta := Ta, ca := ca }

/-- `OuterPlume.update` (l.1508-1535) given the ambient look-ups `Ta, Sa, rho_a, ca` at the depth
    and the closure `dens T s` = `seawater.density(T, s, P)` at the local pressure -/
def outerUpdate (p : Params α) (y : List α) (Ta Sa rho_a : α) (ca : List α) (dens : α → α → α)
    (bi : α) : Outer α :=
  let Q := y.getD 0 0
  let J := y.getD 1 0
  let S := y.getD 2 0
  let H := y.getD 3 0
  let C := y.drop 4
  if Q < 0 then
    let s := S / Q
    let T := H / (p.rho_r * p.cp * Q)
    { u := J / Q, b := Num.sqrt (Num.npow Q 2 / (pi * J) + Num.npow bi 2), s := s, T := T,
      c := C.map (fun x => x / Q), rho := dens T s, rho_a := rho_a, Sa := Sa, Ta := Ta, ca := ca }
  else outerAbsent Ta Sa rho_a ca

/-! ### where the conserved quantities sit in the flat inner vector

  Readers that walk a flat inner-plume vector `v` with the index arithmetic of
  `InnerPlume.update` l.1290-1303 (`idx = 4`; per particle `nc` mass slots, one heat slot, one
  age slot, three position slots; then the dissolved slots).  The exchange theorems are stated
  through them on the returned vectors, and the harness evaluates the same sums on the vectors
  the real code returns. -/

/-- index of dissolved slot 0: `4 + Σ width` -/
def dissIdx (nchems : Nat) (ps : List (Particle α)) : Nat := 4 + (ps.map (width nchems)).sum

/-- Σ over the soluble particles of mass slot `j` of `v`, starting at index `idx` -/
def sumMassSlots (nchems j : Nat) : List (Particle α) → Nat → List α → α
  | [], _, _ => 0
  | pt :: ps, idx, v =>
    (if pt.issoluble then v.getD (idx + j) 0 else 0) + sumMassSlots nchems j ps (idx + width nchems pt) v

/-- Σ over all particles of the heat slot of `v` -/
def sumHeatSlots (nchems : Nat) : List (Particle α) → Nat → List α → α
  | [], _, _ => 0
  | pt :: ps, idx, v =>
    v.getD (idx + nMass nchems pt) 0 + sumHeatSlots nchems ps (idx + width nchems pt) v

/-- Σ over soluble particles and chemicals of (mass slot of `v`)·neg_dH_solR·Ru/M: the heat of
    solution carried by the dissolution gradients -/
def sumHos (p : Params α) (nchems : Nat) : List (Particle α) → Nat → List α → α
  | [], _, _ => 0
  | pt :: ps, idx, v =>
    (if pt.issoluble then
      Num.sum ((List.range nchems).map (fun j =>
        v.getD (idx + j) 0 * pt.neg_dH_solR.getD j 0 * p.Ru / pt.M.getD j 0))
     else 0) + sumHos p nchems ps (idx + width nchems pt) v

/-- ambient entrainment into the outer plume, `2π b_o α₃ u_o` (l.229) -/
def ambEntr (p : Params α) (yo : Outer α) : α := 2 * pi * yo.b * p.alpha_3 * yo.u

/-- left- and right-hand sides of the exchange identities evaluated on two flat vectors
    `v` (inner, as returned) and `w` (outer, as returned): volume, salt, heat, then one pair per
    chemical.  Returned as `[lhs₀, rhs₀, lhs₁, rhs₁, …]`. -/
def identities (p : Params α) (nchems : Nat) (yo : Outer α) (ps : List (Particle α))
    (v w : List α) : List α :=
  let E := ambEntr p yo
  [v.getD 0 0 + w.getD 0 0, E,
   v.getD 2 0 + w.getD 2 0, E * yo.Sa,
   v.getD 3 0 + sumHeatSlots nchems ps 4 v + w.getD 3 0,
     p.rho_r * p.cp * E * yo.Ta - sumHos p nchems ps 4 v]
  ++ (List.range nchems).flatMap (fun j =>
      [v.getD (dissIdx nchems ps + j) 0 + sumMassSlots nchems j ps 4 v + w.getD (4 + j) 0,
       E * yo.ca.getD j 0])

/-! ### line protocol -/

open TamocV.Proto

def mkParams : List Float → Option (Params Float)
  | [c1, a2, a3, gi, go, l2, g, rr, ru, cp] =>
    some { c1 := c1, alpha_2 := a2, alpha_3 := a3, gamma_i := gi, gamma_o := go, lambda_2 := l2,
           g := g, rho_r := rr, Ru := ru, cp := cp }
  | _ => none

def mkInner (c : List Float) : List Float → Option (Inner Float)
  | [b, u, s, T, rho, rho_a, alpha_s, Ep, Xi, Fb] =>
    some { b := b, u := u, s := s, T := T, c := c, rho := rho, rho_a := rho_a, alpha_s := alpha_s,
           Ep := Ep, Xi := Xi, Fb := Fb }
  | _ => none

def mkOuter (c ca : List Float) : List Float → Option (Outer Float)
  | [b, u, s, T, rho, rho_a, Sa, Ta] =>
    some { b := b, u := u, s := s, T := T, c := c, rho := rho, rho_a := rho_a, Sa := Sa, Ta := Ta, ca := ca }
  | _ => none

/-- particles come as groups of five vectors:
    `[issoluble(0/1), A, nb0, us, rho_p, cp, beta_T, T]`, `beta`, `Cs`, `neg_dH_solR`, `M` -/
def mkParticles : List Arg → Option (List (Particle Float))
  | [] => some []
  | .v [sol, A, nb0, us, rho_p, cp, beta_T, T] :: .v beta :: .v Cs :: .v ndh :: .v M :: rest =>
    (mkParticles rest).map fun ps =>
      { issoluble := (0.5 < sol), A := A, nb0 := nb0, us := us, beta := beta, Cs := Cs, rho_p := rho_p,
        cp := cp, beta_T := beta_T, T := T, neg_dH_solR := ndh, M := M } :: ps
  | _ => none

def outerToArgs (o : Outer Float) : List Arg :=
  [.v [o.b, o.u, o.s, o.T, o.rho, o.rho_a, o.Sa, o.Ta], .v o.c, .v o.ca]

def dispatch : Dispatch := fun name args =>
  match name, args with
  | "Smp.pi", [] => some [.s (pi (α := Float))]
  | "Smp.derivsInner", .v pv :: .n nchems :: .v iv :: .v ic :: .v ov :: .v oc :: .v oca :: rest =>
    match mkParams pv, mkInner ic iv, mkOuter oc oca ov, mkParticles rest with
    | some p, some yi, some yo, some ps => some [.v (derivsInner p nchems yi yo ps)]
    | _, _, _, _ => none
  | "Smp.derivsOuter", [.v pv, .n nchems, .v iv, .v ic, .v ov, .v oc, .v oca] =>
    match mkParams pv, mkInner ic iv, mkOuter oc oca ov with
    | some p, some yi, some yo => some [.v (derivsOuter p nchems yi yo)]
    | _, _, _ => none
  | "Smp.outerUpdate", [.v pv, .v y, .s Ta, .s Sa, .s rho_a, .v ca, .s rho, .s bi] =>
    match mkParams pv with
    | some p => some (outerToArgs (outerUpdate p y Ta Sa rho_a ca (fun _ _ => rho) bi))
    | none => none
  | "Smp.identities", .v pv :: .n nchems :: .v ov :: .v oc :: .v oca :: .v v :: .v w :: rest =>
    match mkParams pv, mkOuter oc oca ov, mkParticles rest with
    | some p, some yo, some ps => some [.v (identities p nchems yo ps v w)]
    | _, _, _ => none
  | _, _ => none

end TamocV.Model.Smp
