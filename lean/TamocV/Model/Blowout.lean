/-
  TamocV.Model.Blowout — hand transcriptions (DESIGN §2.2 b) for property C19.

  namespace `TamocV.Model.Purity19` — the aliasing sites named by the property's anchors, with an
  EXPLICIT STORE for the caller-visible array:
    * `dbm_p.coefs` (/repo/tamoc/dbm_p.py l.1180-1203): `delta = delta_in` followed, when
      `calc_delta > 0`, by `delta[i, j] = …; delta[j, i] = delta[i, j]` for every pair i < j —
      the matrix written is the CALLER's matrix (`FluidMixture.delta` when the call comes from
      `FluidMixture.density/fugacity/viscosity`, dbm.py l.493-556);
    * `ambient.BaseProfile.get_values` (/repo/tamoc/ambient.py l.492-508): the out-of-range clamp
      of the depth argument — as the code stands NOW it clamps a copy (`z = z.copy()`, l.500);
      the pre-repair behaviour (clamp in place) is kept as `getValuesInPlace` for contrast.
    (the third site, the warm-start cache `FluidParticle.K`, is modelled in Model/Particle09.lean)

  namespace `TamocV.Model.Blowout` — `blowout.Blowout` (/repo/tamoc/blowout.py) as parameters +
  flags: `__init__` l.277-316, `_update` l.318-400, `simulate`'s lazy refresh l.415-416, every
  `update_*` method l.522-794.  `dbm_utilities.get_oil` and everything `_update` derives from the
  parameters and the oil are abstract library functions.

  Generic in `[Num α]`; no imports beyond Num/Proto.
-/
import TamocV.Num
import TamocV.Proto

namespace TamocV.Model.Purity19
variable {α : Type} [Num α]

-- ------------------------------------------------------------------ dbm_p.coefs, the delta matrix

/-- an nc × nc matrix, as the function (row, column) ↦ entry -/
abbrev Mat (α : Type) := Nat → Nat → α

/-- `delta[i, j] = v` -/
def Mat.set (d : Mat α) (i j : Nat) (v : α) : Mat α :=
  fun a b => if a = i ∧ b = j then v else d a b

/-- l.1199-1203 for one pair: `delta[i, j] = gc(i, j); delta[j, i] = delta[i, j]` -/
def writePair (gc : Nat → Nat → α) (d : Mat α) (i j : Nat) : Mat α :=
  let d1 := d.set i j (gc i j)
  d1.set j i (d1 i j)

/-- `for i in range(j): …` (rows 0 … j-1 of column j) -/
def writeCol (gc : Nat → Nat → α) (j : Nat) : Nat → Mat α → Mat α
  | 0, d => d
  | i + 1, d => writePair gc (writeCol gc j i d) i j

/-- `for j in range(1, nc): for i in range(j): …` -/
def writeAll (gc : Nat → Nat → α) : Nat → Mat α → Mat α
  | 0, d => d
  | j + 1, d => writeCol gc j j (writeAll gc j d)

/-- the part of `coefs` that concerns the interaction matrix: `store` is the caller's matrix
    (`delta_in`, i.e. `FluidMixture.delta`), `gc i j` the group-contribution value for the pair at
    the temperature of this call.  Returns (matrix used by the mixing rule, caller's matrix after).
    CODE VARIANT `aliased`: `true` = l.1180 as first read, `delta = delta_in` (ONE matrix under two
    names, the loops write into the caller's matrix); `false` = repaired, `delta = np.copy(delta_in)`
    (as the Fortran routine, whose `delta` is a separate output array).  The harness determines the
    variant of the tree under test and hands it to the driver. -/
def coefsDelta (aliased : Bool) (calcDelta : Bool) (gc : Nat → Nat → α) (nc : Nat) (store : Mat α) :
    Mat α × Mat α :=
  if calcDelta then
    let d := writeAll gc nc store
    (d, if aliased then d else store)
  else (store, store)

/-- a property query of a mixture (`FluidMixture.density/fugacity/viscosity`): the library value
    depends on the arguments and on the interaction matrix `coefs` ends up using -/
def query {β : Type} (eos : Mat α → β) (aliased : Bool) (calcDelta : Bool) (gc : Nat → Nat → α) (nc : Nat)
    (store : Mat α) : β × Mat α :=
  let r := coefsDelta aliased calcDelta gc nc store
  (eos r.1, r.2)

/-- a history of queries on ONE mixture object: each entry carries the group-contribution values
    of its temperature and its EOS closure; the object's matrix is threaded through -/
def runQueries {β : Type} (aliased : Bool) (calcDelta : Bool) (nc : Nat) :
    Mat α → List ((Nat → Nat → α) × (Mat α → β)) → List β × Mat α
  | st, [] => ([], st)
  | st, q :: qs =>
      let r := query q.2 aliased calcDelta q.1 nc st
      let rest := runQueries aliased calcDelta nc r.2 qs
      (r.1 :: rest.1, rest.2)

-- ------------------------------------------------------------------ ambient.get_values, the depth clamp

/-- l.505-506: `z[np.where(z < z_min)] = z_min; z[np.where(z > z_max)] = z_max` -/
def clamp (zmin zmax : α) (z : List α) : List α :=
  let z1 := z.map fun x => if x < zmin then zmin else x
  z1.map fun x => if zmax < x then zmax else x

/-- `get_values(z, names)` for an ndarray argument, as the code stands now (l.498-500 copy):
    (depths used for the interpolation, caller's array after the call) -/
def getValues (zmin zmax : α) (callerZ : List α) : List α × List α :=
  (clamp zmin zmax callerZ, callerZ)

/-- the pre-repair behaviour (no copy): the caller's array IS the clamped array -/
def getValuesInPlace (zmin zmax : α) (callerZ : List α) : List α × List α :=
  let z := clamp zmin zmax callerZ
  (z, z)

-- ------------------------------------------------------------------ line protocol

open TamocV.Proto

def matOfRows (rows : List (List Float)) : Mat Float := fun i j => (rows.getD i []).getD j 0.0
def rowsOfMat (nc : Nat) (d : Mat Float) : List Float :=
  (List.range nc).flatMap fun i => (List.range nc).map fun j => d i j

def chunk (n : Nat) : Nat → List Float → List (List Float)
  | 0, _ => []
  | k + 1, l => l.take n :: chunk n k (l.drop n)

/-- `Pur19.coefs n:aliased n:calcDelta n:nc v:store(row-major) v:gc(row-major)` → `v:used v:storeAfter`
    `Pur19.get_values zmin zmax v:z` → `v:used v:callerAfter` -/
def dispatch : Dispatch := fun name args =>
  match name, args with
  | "Pur19.coefs", [.n al, .n c, .n nc, .v st, .v gc] =>
      let S := matOfRows (chunk nc nc st)
      let G := matOfRows (chunk nc nc gc)
      let r := coefsDelta (α := Float) (al != 0) (c != 0) G nc S
      some [.v (rowsOfMat nc r.1), .v (rowsOfMat nc r.2)]
  | "Pur19.get_values", [.s zmin, .s zmax, .v z] =>
      let r := getValues (α := Float) zmin zmax z
      some [.v r.1, .v r.2]
  | _, _ => none

end TamocV.Model.Purity19

-- ======================================================================================

namespace TamocV.Model.Blowout
variable {α : Type} [Num α]

/-- the user parameters of a `Blowout` (attributes stored by `__init__` l.278-303 and replaced by
    the `update_*` methods).  Data that the model never looks into (substance dictionary, water and
    current data, atmospheric-gas list, user size distribution) are opaque identifiers. -/
structure Params (α : Type) where
  z0 : α
  d0 : α
  substance : Nat
  qOil : α
  gor : α
  x0 : α
  y0 : α
  u0 : α
  phi0 : α
  theta0 : α
  numGas : Nat
  numOil : Nat
  water : Nat
  current : Nat
  track : Bool
  ca : Nat            -- constructor only
  sizeDist : Nat      -- constructor only

/-- the library: `O` = what `dbm_utilities.get_oil` returns (`self.oil`, `self.mass_flux`),
    `R` = everything else `_update` computes (profile, T0/S0/P0, flash at the release, gas/liq
    particles, size distributions, `disp_phases`, `dt_max`, `sd_max`, `bpm`) -/
structure Lib (α O R : Type) where
  /-- `get_oil(self.substance, self.q_oil, self.gor, self.ca, self.q_type)` l.333-337 -/
  getOil : Nat → α → α → Nat → Nat → O
  /-- l.327-328, 341-397: reads water, current, ca, z0, d0, size_distribution, num_gas_elements,
      num_oil_elements and (oil, mass_flux) -/
  derive : Nat → Nat → Nat → α → α → Nat → Nat → Nat → O → R

/-- the object: parameters, the constructor-only flow-rate convention, the two dirty flags and the
    cached results -/
structure State (α O R : Type) where
  p : Params α
  qType : Nat
  newOil : Bool
  update : Bool
  oil : Option O
  derived : Option R

variable {O R : Type}

/-- l.306-312: `q_type = 1 if num_oil_elements > 0 else 0` — evaluated in `__init__` ONLY -/
def qTypeOf (p : Params α) : Nat := if 0 < p.numOil then 1 else 0

/-- `_update`, l.318-400 -/
def doUpdate (lib : Lib α O R) (s : State α O R) : State α O R :=
  let oil := if s.newOil then some (lib.getOil s.p.substance s.p.qOil s.p.gor s.p.ca s.qType) else s.oil
  { s with
    oil := oil
    newOil := false
    derived := oil.map (lib.derive s.p.water s.p.current s.p.ca s.p.z0 s.p.d0 s.p.sizeDist s.p.numGas s.p.numOil)
    update := true }

/-- `__init__`, l.277-316: store the parameters, `new_oil = True`, choose `q_type`, `_update()` -/
def construct (lib : Lib α O R) (p : Params α) : State α O R :=
  doUpdate lib { p := p, qType := qTypeOf p, newOil := true, update := false, oil := none, derived := none }

/-- the `update_*` methods, l.522-794 -/
inductive Op (α : Type) where
  | releaseDepth (z0 : α)
  | orificeDiameter (d0 : α)
  | substance (s : Nat)
  | qOil (q : α)
  | gor (g : α)
  | producedWater (u0 : α)
  | verticalOrientation (phi0 : α)
  | horizontalOrientation (theta0 : α)
  | numGasElements (n : Nat)
  | numOilElements (n : Nat)
  | waterData (w : Nat)
  | currentData (c : Nat)
  | trackParticles (t : Bool)

/-- the parameter change of an update method -/
def Op.onParams (p : Params α) : Op α → Params α
  | .releaseDepth z0 => { p with z0 := z0 }
  | .orificeDiameter d0 => { p with d0 := d0 }
  | .substance s => { p with substance := s }
  | .qOil q => { p with qOil := q }
  | .gor g => { p with gor := g }
  | .producedWater u0 => { p with u0 := u0 }
  | .verticalOrientation phi0 => { p with phi0 := phi0 }
  | .horizontalOrientation theta0 => { p with theta0 := theta0 }
  | .numGasElements n => { p with numGas := n }
  | .numOilElements n => { p with numOil := n }
  | .waterData w => { p with water := w }
  | .currentData c => { p with current := c }
  | .trackParticles t => { p with track := t }

/-- does the method set `self.new_oil = True`?  (update_substance l.584, update_q_oil l.600,
    update_gor l.617 — and no other) -/
def Op.setsNewOil : Op α → Bool
  | .substance _ => true
  | .qOil _ => true
  | .gor _ => true
  | _ => false

/-- is this `update_num_oil_elements`? -/
def Op.isNumOil : Op α → Bool
  | .numOilElements _ => true
  | _ => false

/-- one update call on the object: new parameter, `self.update = False`, possibly
    `self.new_oil = True`; nothing is recomputed.
    CODE VARIANT `revisit`: `false` = as first read, `q_type` is chosen in `__init__` only;
    `true` = repaired, `update_num_oil_elements` re-evaluates the flow-rate convention
    (`q_type = 1 if num_oil_elements > 0 else 0`) and, if it changed, stores it and sets
    `self.new_oil = True`. -/
def apply (revisit : Bool) (s : State α O R) (op : Op α) : State α O R :=
  let p' := op.onParams s.p
  let qt := if revisit && op.isNumOil then qTypeOf p' else s.qType
  { s with p := p', update := false, qType := qt,
           newOil := s.newOil || op.setsNewOil || decide (qt ≠ s.qType) }

/-- `simulate()` l.415-416: `if not self.update: self._update()` -/
def refresh (lib : Lib α O R) (s : State α O R) : State α O R :=
  if s.update then s else doUpdate lib s

/-- the parameters after a sequence of update calls -/
def final (p : Params α) (ops : List (Op α)) : Params α := ops.foldl Op.onParams p

-- ------------------------------------------------------------------ line protocol

open TamocV.Proto

def bn (b : Bool) : Arg := .n (if b then 1 else 0)

/-- the symbolic library of the driver: an oil IS the list of arguments `get_oil` was called with,
    the derived data IS the list of arguments it was derived from -/
def symLib : Lib Float (List Float) (List Float) where
  getOil s q g ca qt := [s.toFloat, q, g, ca.toFloat, qt.toFloat]
  derive w c ca z0 d0 sd ng no o := [w.toFloat, c.toFloat, ca.toFloat, z0, d0, sd.toFloat, ng.toFloat, no.toFloat] ++ o

def parseOps : List Arg → Option (List (Op Float))
  | [] => some []
  | .t "release_depth" :: .s v :: r => (parseOps r).map (Op.releaseDepth v :: ·)
  | .t "orifice_diameter" :: .s v :: r => (parseOps r).map (Op.orificeDiameter v :: ·)
  | .t "substance" :: .n v :: r => (parseOps r).map (Op.substance v :: ·)
  | .t "q_oil" :: .s v :: r => (parseOps r).map (Op.qOil v :: ·)
  | .t "gor" :: .s v :: r => (parseOps r).map (Op.gor v :: ·)
  | .t "produced_water" :: .s v :: r => (parseOps r).map (Op.producedWater v :: ·)
  | .t "vertical_orientation" :: .s v :: r => (parseOps r).map (Op.verticalOrientation v :: ·)
  | .t "horizontal_orientation" :: .s v :: r => (parseOps r).map (Op.horizontalOrientation v :: ·)
  | .t "num_gas_elements" :: .n v :: r => (parseOps r).map (Op.numGasElements v :: ·)
  | .t "num_oil_elements" :: .n v :: r => (parseOps r).map (Op.numOilElements v :: ·)
  | .t "water_data" :: .n v :: r => (parseOps r).map (Op.waterData v :: ·)
  | .t "current_data" :: .n v :: r => (parseOps r).map (Op.currentData v :: ·)
  | .t "track_particles" :: .n v :: r => (parseOps r).map (Op.trackParticles (v != 0) :: ·)
  | _ => none

def paramArgs (p : Params Float) : List Arg :=
  [.s p.z0, .s p.d0, .n p.substance, .s p.qOil, .s p.gor, .s p.x0, .s p.y0, .s p.u0, .s p.phi0, .s p.theta0,
   .n p.numGas, .n p.numOil, .n p.water, .n p.current, bn p.track]

/-- flags + parameters of a state: `n:update n:new_oil n:q_type` + 15 parameters -/
def stateArgs (s : State Float (List Float) (List Float)) : List Arg :=
  [bn s.update, bn s.newOil, .n s.qType] ++ paramArgs s.p

def traceOps (revisit : Bool) (s : State Float (List Float) (List Float)) :
    List (Op Float) → List Arg × State Float (List Float) (List Float)
  | [] => ([], s)
  | op :: ops =>
      let s' := apply revisit s op
      let r := traceOps revisit s' ops
      (stateArgs s' ++ r.1, r.2)

/-- `B19.run n:revisit z0 d0 n:substance qOil gor x0 y0 u0 phi0 theta0 n:numGas n:numOil n:water n:current n:track
     n:ca n:sizeDist (t:op value)*`
    → state after the constructor (18 args), state after every op (18 args each), then for the
      refreshed object: 18 state args, `v:oil` (the get_oil arguments the cached oil comes from),
      `v:derived`, and the same three groups for the FRESH object `construct (final p ops)` -/
def dispatch : Dispatch := fun name args =>
  match name, args with
  | "B19.run", .n rv :: .s z0 :: .s d0 :: .n sub :: .s q :: .s g :: .s x0 :: .s y0 :: .s u0 :: .s phi :: .s th ::
      .n ng :: .n no :: .n w :: .n c :: .n tr :: .n ca :: .n sd :: rest =>
      (parseOps rest).map fun ops =>
        let p : Params Float :=
          { z0 := z0, d0 := d0, substance := sub, qOil := q, gor := g, x0 := x0, y0 := y0, u0 := u0, phi0 := phi,
            theta0 := th, numGas := ng, numOil := no, water := w, current := c, track := tr != 0, ca := ca,
            sizeDist := sd }
        let s0 := construct symLib p
        let tr := traceOps (rv != 0) s0 ops
        let sr := refresh symLib tr.2
        let sf := construct symLib (final p ops)
        stateArgs s0 ++ tr.1 ++ stateArgs sr ++ [.v (sr.oil.getD []), .v (sr.derived.getD [])] ++
          stateArgs sf ++ [.v (sf.oil.getD []), .v (sf.derived.getD [])]
  | _, _ => none

end TamocV.Model.Blowout
