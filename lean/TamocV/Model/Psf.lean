/-
  TamocV.Model.Psf — executable model of the particle-size functions of tamoc (C16).

  Transcribed line by line (same operation order) from
    * psf.mass2vol, psf.rosin_rammler (l.103-158), psf.log_normal (l.161-234), psf.ln2rr / rr2ln (l.237-300),
      psf.rosin_rammler_fit (l.303-362), psf.log_normal_fit (l.365-417), psf.de_max_oil,
    * psf.sintef / sintef_model / sintef_d50, psf.li_etal / li_etal_model / li_etal_d50,
      psf.wang_etal / wang_etal_model / wang_etal_d50                       (l.659-1262),
    * particle_size_models.ModelBase.simulate / get_distributions          (l.217-486),
    * sintef.rosin_rammler (legacy truncation)                             (sintef.py l.176-250).
  `np.logspace(a, b, n+1)[i]` is `10 ** linspace(a, b, n+1)[i]` with numpy's linspace
  (`i*step + start`, `step = (stop-start)/n`, last element overwritten by `stop`).
  Arrays indexed in a loop are functions of the index here (`rrEdge n k α i` is `bin_edges[i]`).
  `np.pi` is the double 3.141592653589793.

  Library calls that are not arithmetic enter as ORACLE arguments, recorded from the real run by the harness:
    `dmaxGas`  — result of psf.grace (fsolve + minimize),
    `dpRoot`   — root returned by fsolve inside psf.sintef_d50 (We > 350),
    `rhoA rhoB`— the two methane densities of wang_etal (Peng-Robinson EOS) giving the speed of sound.
  `None` is `Option.none`.  `getDist` returns `Option.none` where `get_distributions` would read an attribute that was
  never set (no longer reachable from `mbGas` / `mbOil` since fix 99832ec).
-/
import TamocV.Num
import TamocV.Proto

set_option linter.unusedVariables false

namespace TamocV.Model.Psf
variable {α : Type} [Num α]

def pi : α := 3.141592653589793
def G : α := 9.81

/-- `x == 0` on α -/
def isZero (x : α) : Bool := decide (x ≤ 0) && decide (0 ≤ x)

/-! ### np.linspace / np.logspace -/

/-- `np.linspace(start, stop, n+1)[i]` for n ≥ 1 -/
def linspaceAt (start stop : α) (n i : Nat) : α :=
  if i = n then stop else Num.ofNat i * ((stop - start) / Num.ofNat n) + start

/-- `np.logspace(a, b, n+1)[i]` -/
def logspaceAt (a b : α) (n i : Nat) : α := Num.rpow 10 (linspaceAt a b n i)

/-- `np.exp(np.log(e0) + (np.log(e1) - np.log(e0)) / 2.)` -/
def center (e0 e1 : α) : α := Num.exp (Num.log e0 + (Num.log e1 - Num.log e0) / 2)

/-- `mass2vol(m, rho)` -/
def mass2vol (m : List α) (rho : α) : α := if 0 < Num.sum m then Num.sum m / rho else 0

/-! ### psf.rosin_rammler(nbins, d50, k, alpha) -/

def rrA99 (k alpha : α) : α := Num.rpow (Num.log (1 - 0.995) / k) (1 / alpha)
def rrA01 (k alpha : α) : α := Num.rpow (Num.log (1 - 0.01) / k) (1 / alpha)
/-- `bin_edges[i]` -/
def rrEdge (n : Nat) (k alpha : α) (i : Nat) : α :=
  logspaceAt (Num.log10 (rrA01 k alpha)) (Num.log10 (rrA99 k alpha)) n i
/-- `bin_centers[i]` -/
def rrCenter (n : Nat) (k alpha : α) (i : Nat) : α := center (rrEdge n k alpha i) (rrEdge n k alpha (i + 1))
/-- `de = d50 * bin_centers` -/
def rrDe (n : Nat) (d50 k alpha : α) : List α := (List.range n).map (fun i => d50 * rrCenter n k alpha i)
/-- `vn[i] = 1 - exp(k * bin_edges[i]**alpha)` -/
def rrVn (n : Nat) (k alpha : α) (i : Nat) : α := 1 - Num.exp (k * Num.rpow (rrEdge n k alpha i) alpha)
/-- `vf[i] = vn[i+1] - vn[i]` before normalisation -/
def rrVf0 (n : Nat) (k alpha : α) (i : Nat) : α := rrVn n k alpha (i + 1) - rrVn n k alpha i
/-- `vf` -/
def rrVf (n : Nat) (d50 k alpha : α) : List α :=
  if isZero d50 then (List.range n).map (fun _ => 0)
  else
    let v := (List.range n).map (rrVf0 n k alpha)
    v.map (fun x => x / Num.sum v)

def rosinRammler (n : Nat) (d50 k alpha : α) : List α × List α := (rrDe n d50 k alpha, rrVf n d50 k alpha)

/-! ### psf.log_normal(nbins, d50, sigma) -/

def lnA0 (d50 sigma : α) : α := Num.exp (Num.log d50 - 2.8 * sigma) / d50
def lnA1 (d50 sigma : α) : α := Num.exp (Num.log d50 + 2.3 * sigma) / d50
def lnEdge (n : Nat) (d50 sigma : α) (i : Nat) : α :=
  logspaceAt (Num.log10 (lnA0 d50 sigma)) (Num.log10 (lnA1 d50 sigma)) n i
def lnCenter (n : Nat) (d50 sigma : α) (i : Nat) : α := center (lnEdge n d50 sigma i) (lnEdge n d50 sigma (i + 1))
/-- `de = d50 * bin_edges[1:]`  (upper bin edges, not centres) -/
def lnDe (n : Nat) (d50 sigma : α) : List α := (List.range n).map (fun i => d50 * lnEdge n d50 sigma (i + 1))
/-- `vf[i]` before normalisation; `mu = np.log(1.)` -/
def lnVf0 (n : Nat) (d50 sigma : α) (i : Nat) : α :=
  let c := lnCenter n d50 sigma i
  let mu : α := Num.log 1
  1 / c * 1 / (sigma * Num.sqrt (2 * pi)) * Num.exp (-(Num.npow (Num.log c - mu) 2) / (2 * Num.npow sigma 2))
    * (lnEdge n d50 sigma (i + 1) - lnEdge n d50 sigma i)
def lnVf (n : Nat) (d50 sigma : α) : List α :=
  if isZero d50 then (List.range n).map (fun _ => 0)
  else
    let v := (List.range n).map (lnVf0 n d50 sigma)
    v.map (fun x => x / Num.sum v)

def logNormal (n : Nat) (d50 sigma : α) : List α × List α := (lnDe n d50 sigma, lnVf n d50 sigma)

/-! ### conversions and fits -/

/-- the 95-th percentile of the Rosin-Rammler volume distribution, as the code computes it -/
def rrD95 (d50 k alpha : α) : α := d50 * Num.rpow (Num.log (1 - 0.95) / k) (1 / alpha)
/-- the 95-th percentile of the log-normal volume distribution, as the code computes it -/
def lnD95 (d50 sigma : α) : α := Num.exp (Num.log d50 + 1.6449 * sigma)

/-- `ln2rr(d50, sigma)` -/
def ln2rr (d50 sigma : α) : α × α × α :=
  let mu := Num.log d50
  let mu95 := mu + 1.6449 * sigma
  let d95 := Num.exp mu95
  let k : α := Num.log 0.5
  let alpha := Num.log (Num.log (1 - 0.95) / k) / Num.log (d95 / d50)
  (d50, k, alpha)

/-- `rr2ln(d50, k, alpha)` (the argument k is overwritten by log(0.5)) -/
def rr2ln (d50 _k alpha : α) : α × α :=
  let k : α := Num.log 0.5
  let d95 := d50 * Num.rpow (Num.log (1 - 0.95) / k) (1 / alpha)
  let sigma := (Num.log d95 - Num.log d50) / 1.6449
  (d50, sigma)

/-- `rosin_rammler_fit(d50, d_max, alpha)` -/
def rrFit (d50 : α) (dmax : Option α) (alpha : α) : α × α × α :=
  let k : α := Num.log 0.5
  match dmax with
  | none => (d50, k, alpha)
  | some dm =>
    let d95 := d50 * Num.rpow (Num.log (1 - 0.95) / k) (1 / alpha)
    if dm < d95 then
      let k95 : α := Num.log 0.05
      (dm * Num.rpow (Num.log (1 - 0.5) / k95) (1 / alpha), k, alpha)
    else (d50, k, alpha)

/-- `log_normal_fit(d50, d_max, sigma)` -/
def lnFit (d50 : α) (dmax : Option α) (sigma : α) : α × α :=
  match dmax with
  | none => (d50, sigma)
  | some dm =>
    let mu := Num.log d50
    let mu95 := mu + 1.6449 * sigma
    let d95 := Num.exp mu95
    if dm < d95 then (Num.exp (Num.log dm - 1.6449 * sigma), sigma) else (d50, sigma)

/-- `de_max_oil(rho_p, sigma, rho)` -/
def deMaxOil (rho_p sigma rho : α) : α := 4 * Num.sqrt (sigma / (G * (rho - rho_p)))

/-! ### psf.sintef -/

def sintefWe (u0 d0 rho_p sigma : α) : α := rho_p * Num.npow u0 2 * d0 / sigma
def sintefVi (u0 mu_p sigma : α) : α := mu_p * u0 / sigma
/-- residual handed to fsolve in `sintef_d50` -/
def sintefResidual (We Vi dp : α) : α :=
  dp - 24.8 * Num.rpow (We / (1 + 0.08 * Vi * Num.rpow dp (1 / 3))) (-3 / 5)

def sintefD50 (dpRoot : α) (u0 d0 rho_p mu_p sigma _rho : α) : α :=
  let We := sintefWe u0 d0 rho_p sigma
  if 350 < We then dpRoot * d0 else 1.2 * d0

def sintefModel (dmaxGas dpRoot : α) (Uc d0 q rho_p mu_p sigma rho _mu : α) (isGas useD95 : Bool) :
    α × Option α × α × α :=
  if 0 < q then
    let d50 := sintefD50 dpRoot Uc d0 rho_p mu_p sigma rho
    let demax := if isGas then dmaxGas else deMaxOil rho_p sigma rho
    let f := rrFit d50 (some demax) 1.8
    let d50' := if useD95 then f.1 else if demax < d50 then demax else d50
    (d50', some demax, f.2.1, f.2.2)
  else
    let f := rrFit (0 : α) none 1.8
    (f.1, none, f.2.1, f.2.2)

def sintefQ (m : List α) (rho : α) : α := if 0 < Num.sum m then mass2vol m rho else 0

/-- `n = q_gas / (q_gas + q_oil)` (computed before the branches, used by the two-phase branch only) -/
def sintefN (qGas qOil : α) : α := qGas / (qGas + qOil)

/-- exit velocity `Un` and mixture density `rho_m` -/
def sintefUn (d0 qGas rhoGas qOil rhoOil : α) : α × α :=
  let n := sintefN qGas qOil
  if isZero qOil then (4 * qGas / (pi * Num.npow d0 2), rhoGas)
  else if isZero qGas then (4 * qOil / (pi * Num.npow d0 2), rhoOil)
  else (4 * qOil / (pi * Num.npow d0 2) / Num.rpow (1 - n) (1 / 2), rhoOil * (1 - n) + rhoGas * n)

def sintefFr (d0 qGas rhoGas qOil rhoOil rho : α) : α :=
  let u := sintefUn d0 qGas rhoGas qOil rhoOil
  u.1 / Num.rpow (G * (rho - u.2) / rho * d0) (1 / 2)

def sintefUc (d0 qGas rhoGas qOil rhoOil rho : α) : α :=
  let u := sintefUn d0 qGas rhoGas qOil rhoOil
  let Fr := sintefFr d0 qGas rhoGas qOil rhoOil rho
  u.1 * (1 + 1 / Fr)

/-- `sintef(d0, m_gas, rho_gas, m_oil, rho_oil, mu_p, sigma, rho, mu, fp_type, use_d95)` -/
def sintef (dmaxGas dpRoot : α) (d0 : α) (mGas : List α) (rhoGas : α) (mOil : List α) (rhoOil mu_p sigma rho mu : α)
    (fpType : Nat) (useD95 : Bool) : α × Option α × α × α :=
  let qGas := sintefQ mGas rhoGas
  let qOil := sintefQ mOil rhoOil
  let Uc := sintefUc d0 qGas rhoGas qOil rhoOil rho
  if fpType = 0 then sintefModel dmaxGas dpRoot Uc d0 qGas rhoGas mu_p sigma rho mu true useD95
  else sintefModel dmaxGas dpRoot Uc d0 qOil rhoOil mu_p sigma rho mu false useD95

/-! ### psf.li_etal -/

/-- `li_etal_d50`; NB the call `de_max_oil(sigma, rho_p, rho)` passes (σ, ρ_p) in the order (ρ_p, σ) of the callee -/
def liEtalD50 (Uc d0 rho_p mu_p sigma rho : α) (isGas : Bool) : α :=
  let p : α := 0.460
  let q : α := -0.518
  let r : α := if isGas then 2.988 else 14.05
  let demax := deMaxOil sigma rho_p rho
  let dc := if demax < d0 then demax else d0
  let We := rho * Num.npow Uc 2 * dc / sigma
  let Oh := mu_p / Num.sqrt (rho_p * sigma * dc)
  let ds := r * Num.rpow (1 + 10 * Oh) p * Num.rpow We q
  ds * dc

def liEtalModel (dmaxGas : α) (Uc d0 q rho_p mu_p sigma rho _mu : α) (isGas : Bool) : α × Option α × α × α :=
  if 0 < q then
    let d50 := liEtalD50 Uc d0 rho_p mu_p sigma rho isGas
    let demax := if isGas then dmaxGas else deMaxOil rho_p sigma rho
    let f := rrFit d50 none 1.8
    (f.1, some demax, f.2.1, f.2.2)
  else
    let f := rrFit (0 : α) none 1.8
    (f.1, none, f.2.1, f.2.2)

/-- `Uc = 4. * (q_gas + q_oil) / (np.pi * d0**2)` — the same for both phases (since fix 9f1b754 the void fraction is no
    longer computed: q_gas/n = q_oil/(1-n) = q_gas + q_oil) -/
def liEtalUc (d0 qGas qOil : α) (_fpType : Nat) : α := 4 * (qGas + qOil) / (pi * Num.npow d0 2)

def liEtal (dmaxGas : α) (d0 : α) (mGas : List α) (rhoGas : α) (mOil : List α) (rhoOil mu_p sigma rho mu : α)
    (fpType : Nat) : α × Option α × α × α :=
  let qGas := mass2vol mGas rhoGas
  let qOil := mass2vol mOil rhoOil
  let Uc := liEtalUc d0 qGas qOil fpType
  if fpType = 0 then liEtalModel dmaxGas Uc d0 qGas rhoGas mu_p sigma rho mu true
  else liEtalModel dmaxGas Uc d0 qOil rhoOil mu_p sigma rho mu false

/-! ### psf.wang_etal -/

/-- `wang_etal_d50` → (d, m_g, m_l) -/
def wangD50 (A n Ug rho_g _mu_g sigma_g Ul rho_l rho _mu : α) : α × α × α :=
  let Ag := A * n
  let Al := A * (1 - n)
  let mg := rho_g * Ag * Num.npow Ug 2
  let bg := (rho - rho_g) * G * Ag * Ug
  let one := isZero (n - 1)                 -- `n == 1`
  let ml := if one then 0 else rho_l * Al * Num.npow Ul 2
  let bl := if one then 0 else (rho - rho_l) * G * Al * Ul
  let mo := mg + ml
  let bo := bg + bl
  let M := mo / rho
  let B := bo / rho
  let lM := Num.rpow M (3 / 4) / Num.rpow B (1 / 2)
  let Ua := Num.sqrt (mo / (rho * A))
  let rho_l' := if one then 0 else rho_l
  let rho_m := n * rho_g + (1 - n) * rho_l'
  let We_m := rho_m * Num.npow Ua 2 * lM / sigma_g
  let d := 4.3 * Num.rpow We_m (-3 / 5) * lM
  (d, rho_g * Ag * Ug, rho_l' * Al * Ul)

/-- `wang_etal_model` → (d50_gas, m_gas, m_oil, de_max, sigma_ln) -/
def wangModel (dmaxGas : α) (A n Ug rho_g mu_g sigma_g Ul rho_l rho mu : α) : α × α × α × Option α × α :=
  if 0 < Ug then
    let r := wangD50 A n Ug rho_g mu_g sigma_g Ul rho_l rho mu
    let f := lnFit r.1 (some dmaxGas) 0.27
    (f.1, r.2.1, r.2.2, some dmaxGas, f.2)
  else
    let f := lnFit (0 : α) none 0.27
    (f.1, 0, rho_l * A * Ul, none, f.2)

/-- exit velocity `U_E` with the choked-flow correction; `a` = speed of sound -/
def wangKappa : α :=
  let cp : α := 35.69
  let cv := cp - 8.31451
  cp / cv

def wangUE (Ug a : α) : α :=
  if 10 * Ug < a then Ug
  else
    let kappa : α := wangKappa
    let Ma := Ug / a
    if Ma < Num.sqrt ((kappa + 1) / 2) then
      a * (-1 + Num.sqrt (1 + 2 * (kappa - 1) * Num.rpow Ma 2)) / ((kappa - 1) * Ma)
    else a * Num.sqrt (2 / (kappa + 1))

/-- `wang_etal(d0, m_g, rho_g, mu_g, sigma_g, rho, mu, m_l, rho_l, P, T)`; rhoA, rhoB = methane density at (T,P), (T,1.01P) -/
def wangQl (mL : List α) (rho_l : α) : α := if isZero (Num.sum mL) then 0 else mass2vol mL rho_l
def wangA (d0 : α) : α := pi * Num.npow d0 2 / 4
/-- speed of sound from the two methane densities -/
def wangSound (rhoA rhoB P : α) : α := Num.sqrt ((P - 1.01 * P) / (rhoA - rhoB))

def wang (dmaxGas rhoA rhoB : α) (d0 : α) (mG : List α) (rho_g mu_g sigma_g rho mu : α) (mL : List α) (rho_l P : α) :
    α × α × α × Option α × α :=
  let Qg := mass2vol mG rho_g
  let Ql := wangQl mL rho_l
  let n := Qg / (Qg + Ql)
  let A := wangA d0
  let Ug := (Qg + Ql) / A
  let a := wangSound rhoA rhoB P
  let UE := wangUE Ug a
  let Ug' := if 0 < Qg then UE else 0
  let Ul := if 0 < Ql then UE else 0
  wangModel dmaxGas A n Ug' rho_g mu_g sigma_g Ul rho_l rho mu

/-! ### values the code evaluates whose definedness does not reach a result by data flow
    (operands of `if` tests; quantities computed eagerly and used on one branch only, or discarded).
    Together with the results they are everything the drivers evaluate; the definedness theorems of Props/C16.lean are
    about these lists and the results, evaluated at the definedness-tracking instance `Chk` (Lemmas/C16.lean). -/

def rrFitAux (d50 : α) (dmax : Option α) (alpha : α) : List α :=
  match dmax with
  | none => []
  | some _ => [rrD95 d50 (Num.log 0.5) alpha]           -- `d95`, operand of `if d95 > d_max`

def lnFitAux (d50 : α) (dmax : Option α) (sigma : α) : List α :=
  match dmax with
  | none => []
  | some _ => [lnD95 d50 sigma]

def sintefModelAux (dmaxGas dpRoot : α) (Uc d0 q rho_p mu_p sigma rho : α) (isGas : Bool) : List α :=
  if 0 < q then
    -- `We` (operand of `We > 350`) and `Vi` (argument of the residual) are computed before the branch
    [sintefWe Uc d0 rho_p sigma, sintefVi Uc mu_p sigma] ++
      rrFitAux (sintefD50 dpRoot Uc d0 rho_p mu_p sigma rho) (some (if isGas then dmaxGas else deMaxOil rho_p sigma rho)) 1.8
  else []

def sintefAux (dmaxGas dpRoot : α) (d0 : α) (mGas : List α) (rhoGas : α) (mOil : List α) (rhoOil mu_p sigma rho : α)
    (fpType : Nat) : List α :=
  let qGas := sintefQ mGas rhoGas
  let qOil := sintefQ mOil rhoOil
  let Uc := sintefUc d0 qGas rhoGas qOil rhoOil rho
  [sintefN qGas qOil, (sintefUn d0 qGas rhoGas qOil rhoOil).1, (sintefUn d0 qGas rhoGas qOil rhoOil).2,
   sintefFr d0 qGas rhoGas qOil rhoOil rho, Uc] ++
  (if fpType = 0 then sintefModelAux dmaxGas dpRoot Uc d0 qGas rhoGas mu_p sigma rho true
   else sintefModelAux dmaxGas dpRoot Uc d0 qOil rhoOil mu_p sigma rho false)

def liEtalAux (d0 : α) (mGas : List α) (rhoGas : α) (mOil : List α) (rhoOil sigma rho : α) (fpType : Nat) : List α :=
  let qGas := mass2vol mGas rhoGas
  let qOil := mass2vol mOil rhoOil
  -- `Uc` is computed whether or not the requested phase flows; `de_max_oil(sigma, rho_p, rho)` is the operand of `de_max < d0`
  [liEtalUc d0 qGas qOil fpType] ++
  (if fpType = 0 then (if 0 < qGas then [deMaxOil sigma rhoGas rho] else [])
   else (if 0 < qOil then [deMaxOil sigma rhoOil rho] else []))

def wangUEAux (Ug a : α) : List α :=
  if 10 * Ug < a then [] else [Ug / a, Num.sqrt ((wangKappa + 1) / 2)]

def wangAux (dmaxGas rhoA rhoB : α) (d0 : α) (mG : List α) (rho_g mu_g sigma_g rho mu : α) (mL : List α) (rho_l P : α) :
    List α :=
  let Qg := mass2vol mG rho_g
  let Ql := wangQl mL rho_l
  let n := Qg / (Qg + Ql)
  let A := wangA d0
  let Ug := (Qg + Ql) / A
  let a := wangSound rhoA rhoB P
  let UE := wangUE Ug a
  let Ug' := if 0 < Qg then UE else 0
  let Ul := if 0 < Ql then UE else 0
  [n, A, Ug, a, UE] ++ wangUEAux Ug a ++
  (if 0 < Ug' then lnFitAux (wangD50 A n Ug' rho_g mu_g sigma_g Ul rho_l rho mu).1 (some dmaxGas) 0.27 else [])

/-! ### particle_size_models.ModelBase -/

/-- `get_distributions` for one phase: pdf 0 = 'rosin-rammler', 1 = 'lognormal'; `alpha = none`: attribute never set -/
def getDist (pdf : Nat) (nbins : Nat) (d50 : α) (k : α) (alpha : Option α) (sigmaLn : α) : Option (List α × List α) :=
  if isZero d50 then some ([], [])
  else if pdf = 0 then
    match alpha with
    | some a => some (rosinRammler nbins d50 k a)
    | none => none
  else some (logNormal nbins d50 sigmaLn)

/-- gas side of `simulate` + `get_distributions`: modelGas 0 = 'wang_etal', 1 = 'li_etal' -/
def mbGas (dmaxGas rhoA rhoB : α) (modelGas pdfGas nbins : Nat) (d0 mGas mOil : α)
    (rhoGas muGas sigmaGas rhoOil rho mu P : α) : Option (List α × List α) :=
  if modelGas = 0 then
    let w := wang dmaxGas rhoA rhoB d0 [mGas] rhoGas muGas sigmaGas rho mu [mOil] rhoOil P
    if pdfGas = 0 then
      -- `self.d50_gas, self.k_gas, self.alpha_gas = psf.ln2rr(self.d50_gas, self.sigma_ln_gas)`   (fix 99832ec)
      let c := ln2rr w.1 w.2.2.2.2
      getDist 0 nbins c.1 c.2.1 (some c.2.2) w.2.2.2.2
    else getDist 1 nbins w.1 0 none w.2.2.2.2
  else
    let l := liEtal dmaxGas d0 [mGas] rhoGas [mOil] rhoOil muGas sigmaGas rho mu 0
    if pdfGas = 1 then
      let c := rr2ln l.1 l.2.2.1 l.2.2.2
      getDist 1 nbins c.1 l.2.2.1 (some l.2.2.2) c.2
    else getDist 0 nbins l.1 l.2.2.1 (some l.2.2.2) 0

/-- oil side: modelOil 0 = 'sintef', 1 = 'li_etal' -/
def mbOil (dmaxGas dpRoot : α) (modelOil pdfOil nbins : Nat) (d0 mGas mOil : α)
    (rhoGas rhoOil muOil sigmaOil rho mu : α) : Option (List α × List α) :=
  let s := if modelOil = 0 then sintef dmaxGas dpRoot d0 [mGas] rhoGas [mOil] rhoOil muOil sigmaOil rho mu 1 true
           else liEtal dmaxGas d0 [mGas] rhoGas [mOil] rhoOil muOil sigmaOil rho mu 1
  if pdfOil = 1 then
    let c := rr2ln s.1 s.2.2.1 s.2.2.2
    getDist 1 nbins c.1 s.2.2.1 (some s.2.2.2) c.2
  else getDist 0 nbins s.1 s.2.2.1 (some s.2.2.2) 0

/-! ### sintef.rosin_rammler (deprecated): truncation at the maximum stable size -/

/-- one pass of `for i in range(len(de))`; state = (imax, de, md); `imax = -1` is `none` -/
def truncStep (dmax : α) (st : Option Nat × List α × List α) (i : Nat) : Option Nat × List α × List α :=
  if dmax < st.2.1.getD i 0 then
    match st.1 with
    | none => (some i, st.2.1.set i dmax, st.2.2)
    | some j => (some j, st.2.1, (st.2.2.set j (st.2.2.getD j 0 + st.2.2.getD i 0)).set i 0)
  else st

def truncate (dmax : α) (de md : List α) : List α × List α :=
  ((List.range de.length).foldl (truncStep dmax) (none, de, md)).2

/-- `sintef.rosin_rammler(nbins, d50, md_total, sigma, rho_p, rho)` -/
def legacyRR (nbins : Nat) (d50 mdTotal sigma rho_p rho : α) : List α × List α :=
  let dmax := deMaxOil rho_p sigma rho
  let k : α := Num.log 0.5
  let alpha : α := 1.8
  let de := rrDe nbins d50 k alpha
  let md := (rrVf nbins d50 k alpha).map (fun v => v * mdTotal)
  truncate dmax de md

/-! ### line protocol (α := Float) -/

open TamocV.Proto

def optArg : Option Float → List Arg
  | some x => [.n 1, .s x]
  | none => [.n 0, .s 0]

def distArg : Option (List Float × List Float) → List Arg
  | some (a, b) => [.n 1, .v a, .v b]
  | none => [.n 0, .v [], .v []]

def dispatch : Dispatch := fun name args =>
  match name, args with
  | "Psf.rosin_rammler", [.n n, .s d50, .s k, .s alpha] =>
      let r := rosinRammler (α := Float) n d50 k alpha; some [.v r.1, .v r.2]
  | "Psf.log_normal", [.n n, .s d50, .s sigma] =>
      let r := logNormal (α := Float) n d50 sigma; some [.v r.1, .v r.2]
  | "Psf.rr_edges", [.n n, .s k, .s alpha] => some [.v ((List.range (n + 1)).map (rrEdge (α := Float) n k alpha))]
  | "Psf.ln2rr", [.s d50, .s sigma] => let r := ln2rr (α := Float) d50 sigma; some [.s r.1, .s r.2.1, .s r.2.2]
  | "Psf.rr2ln", [.s d50, .s k, .s alpha] => let r := rr2ln (α := Float) d50 k alpha; some [.s r.1, .s r.2]
  | "Psf.rr_fit", [.s d50, .n has, .s dmax, .s alpha] =>
      let r := rrFit (α := Float) d50 (if has = 1 then some dmax else none) alpha; some [.s r.1, .s r.2.1, .s r.2.2]
  | "Psf.ln_fit", [.s d50, .n has, .s dmax, .s sigma] =>
      let r := lnFit (α := Float) d50 (if has = 1 then some dmax else none) sigma; some [.s r.1, .s r.2]
  | "Psf.rr_d95", [.s d50, .s k, .s alpha] => some [.s (rrD95 (α := Float) d50 k alpha)]
  | "Psf.ln_d95", [.s d50, .s sigma] => some [.s (lnD95 (α := Float) d50 sigma)]
  | "Psf.de_max_oil", [.s rho_p, .s sigma, .s rho] => some [.s (deMaxOil (α := Float) rho_p sigma rho)]
  | "Psf.sintef", [.s dmaxGas, .s dpRoot, .s d0, .v mGas, .s rhoGas, .v mOil, .s rhoOil, .s mu_p, .s sigma, .s rho, .s mu,
                   .n fp, .n useD95] =>
      let r := sintef (α := Float) dmaxGas dpRoot d0 mGas rhoGas mOil rhoOil mu_p sigma rho mu fp (useD95 = 1)
      let qGas := sintefQ (α := Float) mGas rhoGas
      let qOil := sintefQ (α := Float) mOil rhoOil
      let Uc := sintefUc (α := Float) d0 qGas rhoGas qOil rhoOil rho
      let q := if fp = 0 then qGas else qOil
      let rp := if fp = 0 then rhoGas else rhoOil
      let We := sintefWe (α := Float) Uc d0 rp sigma
      let Vi := sintefVi (α := Float) Uc mu_p sigma
      some ([.s r.1] ++ optArg r.2.1 ++ [.s r.2.2.1, .s r.2.2.2, .s We, .s Vi, .s q, .s (sintefResidual (α := Float) We Vi dpRoot)])
  | "Psf.sintef_residual", [.s We, .s Vi, .s dp] => some [.s (sintefResidual (α := Float) We Vi dp)]
  | "Psf.li_etal", [.s dmaxGas, .s d0, .v mGas, .s rhoGas, .v mOil, .s rhoOil, .s mu_p, .s sigma, .s rho, .s mu, .n fp] =>
      let r := liEtal (α := Float) dmaxGas d0 mGas rhoGas mOil rhoOil mu_p sigma rho mu fp
      some ([.s r.1] ++ optArg r.2.1 ++ [.s r.2.2.1, .s r.2.2.2])
  | "Psf.wang_etal", [.s dmaxGas, .s rhoA, .s rhoB, .s d0, .v mG, .s rho_g, .s mu_g, .s sigma_g, .s rho, .s mu, .v mL,
                      .s rho_l, .s P] =>
      let r := wang (α := Float) dmaxGas rhoA rhoB d0 mG rho_g mu_g sigma_g rho mu mL rho_l P
      some ([.s r.1, .s r.2.1, .s r.2.2.1] ++ optArg r.2.2.2.1 ++ [.s r.2.2.2.2])
  | "Psf.mb_gas", [.s dmaxGas, .s rhoA, .s rhoB, .n modelGas, .n pdfGas, .n nbins, .s d0, .s mGas, .s mOil,
                   .s rhoGas, .s muGas, .s sigmaGas, .s rhoOil, .s rho, .s mu, .s P] =>
      some (distArg (mbGas (α := Float) dmaxGas rhoA rhoB modelGas pdfGas nbins d0 mGas mOil rhoGas muGas sigmaGas rhoOil rho mu P))
  | "Psf.mb_oil", [.s dmaxGas, .s dpRoot, .n modelOil, .n pdfOil, .n nbins, .s d0, .s mGas, .s mOil,
                   .s rhoGas, .s rhoOil, .s muOil, .s sigmaOil, .s rho, .s mu] =>
      some (distArg (mbOil (α := Float) dmaxGas dpRoot modelOil pdfOil nbins d0 mGas mOil rhoGas rhoOil muOil sigmaOil rho mu))
  | "Psf.legacy_rr", [.n nbins, .s d50, .s mdTotal, .s sigma, .s rho_p, .s rho] =>
      let r := legacyRR (α := Float) nbins d50 mdTotal sigma rho_p rho; some [.v r.1, .v r.2]
  | _, _ => none

end TamocV.Model.Psf
