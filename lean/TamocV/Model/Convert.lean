/-
  TamocV.Model.Convert — executable model of the quantity / unit conversions of tamoc (C15).

  Transcribed line by line (same operation order) from
    * dbm.FluidMixture.masses / mass_frac / moles / mol_frac   (dbm.py l.372-446; mol_frac calls
      dbm_p.mole_fraction l.1224-1249),
    * dbm.FluidParticle.masses_by_diameter / diameter           (dbm.py l.1327-1384),
    * dbm.InsolubleParticle.mass_by_diameter / diameter         (dbm.py l.2130-2178),
    * ambient.convert_units                                     (ambient.py l.2660-2789; the table itself is
      `Gen.UnitsData.ambient`, regenerated from the source on every run),
    * chemical_properties.convert_units / load_data             (chemical_properties.py l.51-275; the chain of
      `if` blocks is `Gen.UnitsData.chemRules`, regenerated on every run).
  `np.pi` is the double 3.141592653589793, which is what the model uses (`pi`).
  The density of a particle is a parameter function `ρ` (FluidParticle.density at the fixed T, P).

  `Std` (bottom) is NOT transcribed from the code: it is the independent table of documented / standard
  conversion factors the regenerated tables are proved against (Props/C15.lean).
-/
import TamocV.Num
import TamocV.Proto
import TamocV.Gen.UnitsData

namespace TamocV.Model.Convert
variable {α : Type} [Num α]

/-! ### dbm.FluidMixture -/

/-- `masses(n) = n * self.M` -/
def masses (M n : List α) : List α := Num.vmul n M
/-- `moles(m) = m / self.M` -/
def moles (M m : List α) : List α := Num.vdiv m M
/-- `mass_frac(n)`: `m = masses(n); m / np.sum(m)` -/
def massFrac (M n : List α) : List α :=
  let m := masses M n
  m.map (fun mi => mi / Num.sum m)
/-- `mol_frac(m)` = `dbm_p.mole_fraction(m, M)`: `n_moles = mass / Mol_wt; n_moles / np.sum(n_moles)` -/
def molFrac (M m : List α) : List α :=
  let n := Num.vdiv m M
  n.map (fun ni => ni / Num.sum n)

/-- `np.pi` -/
def pi : α := 3.141592653589793

/-! ### dbm.FluidParticle (ρ = `self.density(·, T, P)` at the fixed state) -/

/-- the argument `masses(yk)` handed to the density call of `masses_by_diameter` -/
def mbdDensityArg (M yk : List α) : List α := masses M yk

/-- `masses_by_diameter(de, T, P, yk)` -/
def massesByDiameter (ρ : List α → α) (M : List α) (de : α) (yk : List α) : List α :=
  let m := masses M yk
  let mtot := 1 / 6 * pi * Num.npow de 3 * ρ m
  let n := yk.map (fun y => y * mtot / Num.sum m)
  masses M n

/-- `diameter(m, T, P) = (6 Σm / (π ρ(m,T,P)))**(1/3)` -/
def diameter (ρ : List α → α) (m : List α) : α :=
  Num.rpow (6 * Num.sum m / (pi * ρ m)) (1 / 3)

/-! ### dbm.InsolubleParticle (ρ = `self.density(T, P, Sa, Ta)`, independent of the mass) -/

def massByDiameter (ρ de : α) : α := 1 / 6 * pi * Num.npow de 3 * ρ
def diameterInsol (ρ m : α) : α := Num.rpow (6 * m / (pi * ρ)) (1 / 3)

/-! ### ambient.convert_units -/

open Gen.UnitsData in
def lookup (tab : List (UnitRow α)) (u : String) : Option (UnitRow α) :=
  match tab with
  | [] => none
  | r :: rest => if r.unit = u then some r else lookup rest u

/-- a Python dict literal keeps the LAST value of a repeated key; `Gen.UnitsData` already removes
    earlier duplicates, so first-match lookup is the dict lookup -/
def convCol (tab : List (Gen.UnitsData.UnitRow α)) (u : String) (x : α) : α :=
  match lookup tab u with
  | some r => x * r.factor + r.offset  -- `data[:,i] * convert[units[i]][0] + convert[units[i]][1]`
  | none => x                          -- `except KeyError: out_data[:,i] = data[:,i]`

def outUnit (tab : List (Gen.UnitsData.UnitRow α)) (u : String) : String :=
  match lookup tab u with
  | some r => r.out
  | none => u

/-- the returned unit list: `out_units += [convert[units[i]][2]]` for a recognised unit, `out_units += units[i]` in the
    `except KeyError` branch — `list += str` extends the list by the CHARACTERS of the string -/
def outUnits (tab : List (Gen.UnitsData.UnitRow α)) (units : List String) : List String :=
  units.flatMap (fun u => match lookup tab u with
    | some r => [r.out]
    | none => u.toList.map String.singleton)

/-- `data.transpose()` of a 2-D array given as rows -/
def transpose (rows : List (List α)) : List (List α) :=
  (List.range (rows.headD []).length).map (fun j => rows.map (fun r => r.getD j 0))

/-- `convert_units(data, units)` for `data` after `np.atleast_2d` (list of rows); the result is the
    C-order flattening of `out_data` — `np.reshape(out_data, sh, 'C')` only re-labels that sequence.
    (`len(units)` larger than the number of columns raises IndexError in Python: outside the model.) -/
def convertUnits (tab : List (Gen.UnitsData.UnitRow α)) (rows : List (List α)) (units : List String) : List α :=
  let data := if units.length = 1 ∧ 1 < (rows.headD []).length then transpose rows else rows
  (data.map (fun row => (List.range row.length).map (fun i =>
      if i < units.length then convCol tab (units.getD i "") (row.getD i 0) else 0))).flatten

/-! ### chemical_properties.convert_units -/

def isPrefix : List Char → List Char → Bool
  | [], _ => true
  | _ :: _, [] => false
  | a :: as, b :: bs => a == b && isPrefix as bs

/-- `s.find(p) >= 0` -/
def isInfix (p : List Char) : List Char → Bool
  | [] => p.isEmpty
  | b :: bs => isPrefix p (b :: bs) || isInfix p bs

/-- `read_units[variable].find(pat) >= 0 or read_units[variable] == alt` -/
def ruleMatches (pat : String) (hasAlt : Bool) (alt : String) (u : String) : Bool :=
  isInfix pat.toList u.toList || (hasAlt && u == alt)

/-- the whole chain of (non-exclusive) `if` blocks applied to one value -/
def chemConvert (rules : List (Gen.UnitsData.ChemRule α)) (u : String) (x M : α) : α :=
  rules.foldl (fun acc r => if ruleMatches r.pat r.hasAlt r.alt u then r.f acc M else acc) x

def chemOutUnit (rules : List (Gen.UnitsData.ChemRule α)) (u : String) : String :=
  rules.foldl (fun acc r => if ruleMatches r.pat r.hasAlt r.alt u then r.out else acc) u

def idxOf (keys : List String) (k : String) : Nat :=
  match keys with
  | [] => 0
  | a :: rest => if a = k then 0 else idxOf rest k + 1

/-- one compound: `for variable in read_units:` in header order; `data[chemical]['M']` is read from the row as
    converted so far -/
def chemConvertRow (rules : List (Gen.UnitsData.ChemRule α)) (keys units : List String) (vals : List α) : List α :=
  let iM := idxOf keys "M"
  (List.range keys.length).foldl (fun row i =>
    row.set i (chemConvert rules (units.getD i "") (row.getD i 0) (row.getD iM 0))) vals

/-! the same over ℚ (exact; used by `decide`) -/

def chemConvertQ (rules : List Gen.UnitsData.ChemRuleQ) (u : String) (x M : Rat) : Rat :=
  rules.foldl (fun acc r => if ruleMatches r.pat r.hasAlt r.alt u
    then (if r.usesM then r.a * acc * M + r.b else r.a * acc + r.b) else acc) x

def chemOutUnitQ (rules : List Gen.UnitsData.ChemRuleQ) (u : String) : String :=
  rules.foldl (fun acc r => if ruleMatches r.pat r.hasAlt r.alt u then r.out else acc) u

def chemConvertRowQ (rules : List Gen.UnitsData.ChemRuleQ) (keys units : List String) (vals : List Rat) : List Rat :=
  let iM := idxOf keys "M"
  (List.range keys.length).foldl (fun row i =>
    row.set i (chemConvertQ rules (units.getD i "") (row.getD i 0) (row.getD iM 0))) vals

/-- number of rules of the chain that fire for a unit string -/
def chemFireCount (rules : List Gen.UnitsData.ChemRuleQ) (u : String) : Nat :=
  (rules.filter (fun r => ruleMatches r.pat r.hasAlt r.alt u)).length

/-! ### Std — independent tables of documented / standard factors (typed from definitions, not from /repo)

  exact by definition: 1 in = 0.0254 m, 1 lb = 0.45359237 kg, g_n = 9.80665 m/s², 1 atm = 101325 Pa,
  0 °C = 273.15 K, 1 °F = 5/9 K with 32 °F = 0 °C, 1 cal_IT = 4.1868 J, 1 BTU_IT = 1055.05585262 J
  (= 4.1868 kJ/kg · 0.45359237 kg/lb / 1.8), 1 d = 86400 s, 1 Julian year = 365.25 d,
  1 darcy = 1 cP·cm²/(s·atm)·cm/cm = 1e-7/101325 m², 1 dbar = 1e4 Pa.
  `tol` is the relative accuracy to which a rounded constant of that kind is documented (0 = exact). -/
namespace Std

def psi : Rat := 0.45359237 * 9.80665 / (0.0254 * 0.0254)      -- Pa
def ft3_per_lbmol : Rat := (0.3048 * 0.3048 * 0.3048) / 453.59237    -- m³/mol
def btu_per_lbmol : Rat := 1055.05585262 / 453.59237               -- J/mol
def perF : Rat := 9 / 5                                             -- (…)/°F → (…)/°C

/-- documented conversion of an ambient-data unit: SI = value · factor + offset; `tol` = relative accuracy of `factor` -/
structure AmbientStd where
  unit : String
  factor : Rat
  offset : Rat
  out : String
  tol : Rat

/-- documented conversion of a chemical-property unit: SI = a · value (· M) + b -/
structure ChemStd where
  pat : String
  alt : String        -- documented spelling without parentheses ("" = none)
  a : Rat
  b : Rat
  usesM : Bool
  out : String
  tol : Rat

def ambient : List AmbientStd := [
  ⟨"m", 1, 0, "m", 0⟩,
  ⟨"meter", 1, 0, "m", 0⟩,
  ⟨"deg C", 1, 273.15, "K", 0⟩,
  ⟨"Celsius", 1, 273.15, "K", 0⟩,
  ⟨"K", 1, 0, "K", 0⟩,
  -- decibar gauge pressure → absolute pressure in Pa (one standard atmosphere added)
  ⟨"db", 10000, 101325, "Pa", 0⟩,
  ⟨"Pa", 1, 0, "Pa", 0⟩,
  ⟨"mg/m^3", 1 / 1000000, 0, "kg/m^3", 0⟩,
  ⟨"S/m", 1, 0, "S/m", 0⟩,
  ⟨"mS/m", 1 / 1000, 0, "S/m", 0⟩,
  ⟨"psu", 1, 0, "psu", 0⟩,
  ⟨"salinity", 1, 0, "psu", 0⟩,
  ⟨"kg/m^3", 1, 0, "kg/m^3", 0⟩,
  ⟨"kilogram meter-3", 1, 0, "kg/m^3", 0⟩,
  ⟨"m/s", 1, 0, "m/s", 0⟩,
  ⟨"mg/l", 1 / 1000, 0, "kg/m^3", 0⟩,
  ⟨"meter second-1", 1, 0, "m/s", 0⟩,
  ⟨"m.s-1", 1, 0, "m/s", 0⟩,
  ⟨"pH units", 1, 0, "pH units", 0⟩,
  ⟨"MPa", 1000000, 0, "Pa", 0⟩,
  ⟨"--", 1, 0, "--", 0⟩,
  ⟨"mD", 1 / 10000000000 / 101325, 0, "m^2", 1 / 1000000⟩,
  ⟨"um", 1 / 1000000, 0, "m", 0⟩,
  ⟨"m/s 1e-9", 1 / 1000000000, 0, "m/s", 0⟩,
  ⟨"m/s 1e-7", 1 / 10000000, 0, "m/s", 0⟩,
  -- 1 wt.% = 10 g/kg
  ⟨"wt.%", 10, 0, "psu", 0⟩,
  ⟨"10^-15 m^2", 1 / 1000000000000000, 0, "m^2", 0⟩,
  ⟨"m^2", 1, 0, "m^2", 0⟩,
  ⟨"kg/m^2/year", 1 / (365.25 * 86400), 0, "kg/m^2/s", 1 / 1000000000⟩,
  -- CHANGES.txt V3.4.3: "assuming a simple conversion that 0.001 ppt is equal to 1 psu"
  ⟨"ppt", 1000, 0, "psu", 0⟩]

def ambientLookup (u : String) : Option AmbientStd := ambient.find? (fun r => r.unit == u)

def chem : List ChemStd := [
  ⟨"(g/mol)", "g/mol", 1 / 1000, 0, false, "(kg/mol)", 0⟩,
  ⟨"(psia)", "psia", psi, 0, false, "(Pa)", 1 / 1000000⟩,
  ⟨"(kPa)", "", 1000, 0, false, "(Pa)", 0⟩,
  ⟨"(deg F)", "", 5 / 9, 273.15 - 32 * 5 / 9, false, "(K)", 0⟩,
  -- mol/(dm³ atm) → kg/(m³ Pa): ·1000 dm³/m³ / 101325 Pa/atm · M kg/mol
  ⟨"(mol/dm^3 atm)", "mol/dm^3 atm", 1000 / 101325, 0, true, "(kg/(m^3 Pa))", 0⟩,
  ⟨"(mm^2/sec)", "mm^2/sec", 1 / 1000000, 0, false, "(m^2/s)", 0⟩,
  ⟨"(cal/mol)", "cal/mol", 4.1868, 0, false, "(J/mol)", 1 / 1000000⟩,
  ⟨"(L/mol)", "L/mol", 1 / 1000, 0, false, "(m^3/mol)", 0⟩,
  ⟨"(1/d)", "1/d", 1 / 86400, 0, false, "(1/s)", 0⟩,
  ⟨"(d)", "", 86400, 0, false, "(s)", 0⟩,
  ⟨"(g/cm^3)", "", 1000, 0, false, "(kg/m^3)", 0⟩,
  ⟨"(ft^3/lb-mol)", "", ft3_per_lbmol, 0, false, "(m^3/mol)", 0⟩,
  ⟨"(ft^3/lb-mol/deg F)", "", ft3_per_lbmol * perF, 0, false, "(m^3/mol/deg C)", 0⟩,
  ⟨"(BTU/lb-mol)", "", btu_per_lbmol, 0, false, "(J/mol)", 5 / 1000000⟩,
  ⟨"(BTU/lb-mol/deg F)", "", btu_per_lbmol * perF, 0, false, "(J/mol/deg C)", 5 / 1000000⟩,
  ⟨"(BTU/lb-mol/deg F^2)", "", btu_per_lbmol * perF * perF, 0, false, "(J/mol/deg C^2)", 5 / 1000000⟩,
  ⟨"(BTU/lb-mol/deg F^3)", "", btu_per_lbmol * perF * perF * perF, 0, false, "(J/mol/deg C^3)", 5 / 1000000⟩,
  ⟨"(BTU/lb-mol/deg F^4)", "", btu_per_lbmol * perF * perF * perF * perF, 0, false, "(J/mol/deg C^4)", 5 / 1000000⟩,
  ⟨"(L/mol/deg F)", "", 1 / 1000 * perF, 0, false, "(m^3/mol/deg C)", 0⟩,
  -- CHANGES.txt V3.4.3: "0.001 ppt is equal to 1 psu"
  ⟨"(ppt)", "", 1000, 0, false, "(psu)", 0⟩]

def chemLookup (p : String) : Option ChemStd := chem.find? (fun r => r.pat == p)

def ratAbs (q : Rat) : Rat := if q < 0 then -q else q

def ratToFloat (q : Rat) : Float :=
  let n := Float.ofNat q.num.natAbs / Float.ofNat q.den
  if q.num < 0 then -n else n

/-- documented conversion of one chemical-property value with unit string `u` (first pattern contained in `u`) -/
def chemApply (u : String) (x M : Float) : Option (Float × String) :=
  match chem.find? (fun r => isInfix r.pat.toList u.toList || (r.alt != "" && u == r.alt)) with
  | some r => some ((if r.usesM then ratToFloat r.a * x * M else ratToFloat r.a * x) + ratToFloat r.b, r.out)
  | none => none

end Std

/-! ### line protocol (α := Float); strings travel as vectors of character codes -/

open TamocV.Proto

def strOfCodes (cs : List Float) : String := String.ofList (cs.map (fun c => Char.ofNat c.toUInt64.toNat))
def codesOfStr (s : String) : List Float := s.toList.map (fun c => Float.ofNat c.toNat)

def unitArgs : List Arg → Option (List String)
  | [] => some []
  | .v cs :: rest => (unitArgs rest).map (strOfCodes cs :: ·)
  | _ => none

def splitRows (ncols : Nat) (flat : List Float) : Nat → List (List Float)
  | 0 => []
  | k + 1 => flat.take ncols :: splitRows ncols (flat.drop ncols) k

def tableOf (t : String) : Option (List String × List String) :=
  if t = "chem" then some (Gen.UnitsData.chemKeys, Gen.UnitsData.chemUnits)
  else if t = "bio" then some (Gen.UnitsData.bioKeys, Gen.UnitsData.bioUnits)
  else if t = "pj" then some (Gen.UnitsData.pjKeys, Gen.UnitsData.pjUnits)
  else none

def dispatch : Dispatch := fun name args =>
  match name, args with
  | "Convert.masses", [.v M, .v n] => some [.v (masses (α := Float) M n)]
  | "Convert.moles", [.v M, .v m] => some [.v (moles (α := Float) M m)]
  | "Convert.mass_frac", [.v M, .v n] => some [.v (massFrac (α := Float) M n)]
  | "Convert.mol_frac", [.v M, .v m] => some [.v (molFrac (α := Float) M m)]
  | "Convert.masses_by_diameter", [.v M, .s de, .v yk, .s rho] =>
      some [.v (massesByDiameter (α := Float) (fun _ => rho) M de yk), .v (mbdDensityArg (α := Float) M yk)]
  | "Convert.diameter", [.v m, .s rho] => some [.s (diameter (α := Float) (fun _ => rho) m)]
  | "Convert.mass_by_diameter", [.s rho, .s de] => some [.s (massByDiameter (α := Float) rho de)]
  | "Convert.diameter_insol", [.s rho, .s m] => some [.s (diameterInsol (α := Float) rho m)]
  | "Convert.ambient", [.v u, .s x] =>
      let us := strOfCodes u
      let tab := Gen.UnitsData.ambient (α := Float)
      some [.s (convCol tab us x), .v (codesOfStr (outUnit tab us)), .n (if (lookup tab us).isSome then 1 else 0)]
  | "Convert.ambient_array", .n nrows :: .n ncols :: .v flat :: us =>
      match unitArgs us with
      | some units => some [.v (convertUnits (Gen.UnitsData.ambient (α := Float)) (splitRows ncols flat nrows) units)]
      | none => none
  | "Convert.ambient_labels", us =>
      match unitArgs us with
      | some units => some [.v (codesOfStr ("\n".intercalate (outUnits (Gen.UnitsData.ambient (α := Float)) units)))]
      | none => none
  | "Convert.ambient_std", [.v u] =>
      match Std.ambientLookup (strOfCodes u) with
      | some r => some [.s (Std.ratToFloat r.factor), .s (Std.ratToFloat r.offset), .v (codesOfStr r.out), .s (Std.ratToFloat r.tol)]
      | none => some [.n 0]
  | "Convert.chem", [.v u, .s x, .s M] =>
      let us := strOfCodes u
      let rules := Gen.UnitsData.chemRules (α := Float)
      some [.s (chemConvert rules us x M), .v (codesOfStr (chemOutUnit rules us))]
  | "Convert.chem_row", [.t t, .v vals] =>
      match tableOf t with
      | some (keys, units) => some [.v (chemConvertRow (Gen.UnitsData.chemRules (α := Float)) keys units vals)]
      | none => none
  | "Convert.chem_std", [.v u, .s x, .s M] =>
      match Std.chemApply (strOfCodes u) x M with
      | some (y, out) => some [.s y, .v (codesOfStr out)]
      | none => some [.n 0]
  | "Convert.table_sizes", [] =>
      some [.n (Gen.UnitsData.ambient (α := Float)).length, .n (Gen.UnitsData.chemRules (α := Float)).length,
            .n Gen.UnitsData.chemRows.length, .n Gen.UnitsData.bioRows.length, .n Gen.UnitsData.pjRows.length]
  | "Convert.ambient_key", [.n i] =>
      match (Gen.UnitsData.ambient (α := Float))[i]? with
      | some r => some [.v (codesOfStr r.unit)]
      | none => none
  | "Convert.chem_pattern", [.n i] =>
      match (Gen.UnitsData.chemRules (α := Float))[i]? with
      | some r => some [.v (codesOfStr r.pat), .n (if r.hasAlt then 1 else 0), .v (codesOfStr r.alt)]
      | none => none
  | _, _ => none

end TamocV.Model.Convert
