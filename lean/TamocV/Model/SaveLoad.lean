/-
  TamocV.Model.SaveLoad — hand-written executable model of the save / load code of tamoc
  (property C18), generic in the value type `α` (`[Num α]` supplies only the literals
  `-1, 0, 1`, the fill value and the one division of the `delta_groups` normalisation).

  The file (netCDF4-classic dataset) is a finite map, kept as association lists in creation
  order:  global attributes, dimensions, variables (dtype, dimension names, data, attributes).
  A data cell is `Option`: `none` = never written (fill value; netCDF4 returns it masked).

    `header`                       model_share.tamoc_nc_file               (l.34-83)
    `saveTable / Table.toFile`     dispersed_phases.save_particle_to_nc_file (l.589-1011)
    `Table.ofFile / loadParticle`  dispersed_phases.load_particle_from_nc_file (l.1013-1141)
    `mkFluid`                      dbm.FluidMixture.__init__ / FluidParticle.__init__ — only the
                                   fields the loader passes (l.147-370, 1004-1016)
    `saveSbm / loadSbm`            single_bubble_model.Model.save_sim / load_sim (l.442-526, 655-703)
    `saveBpm / loadBpm`            bent_plume_model.Model.save_sim / load_sim   (l.907-1101, 1301-1391)
    `saveSpm / loadSpm`            stratified_plume_model.Model.save_sim / load_sim (l.579-712, 928-1003)
    `saveProfile / loadProfile`    ambient.create_nc_db, fill_nc_db (first-fill branch),
                                   fill_nc_db_variable, get_nc_data   (l.1770-2237)

  Transcribes what the code DOES: `delta`, `lag_time`, the `k_bio/t_bio/C_pen/C_pen_T` entries
  of user data, `k_bio/t_bio/fp_type` of insoluble particles are not written; `cj[0] = self.cj`
  stores one number (netCDF4 keeps the last element of the array) and raises for an empty
  array; the writer raises (`none`) when a particle's user data lacks a key of the largest
  user data set.
  Not modelled (contract, DESIGN §3-6): netCDF4/xarray store and return arrays and attributes
  unchanged; `' '.join(names)` / `str.split()` are inverse on whitespace-free non-empty names
  (a name list is kept as a list); the text of date attributes is an input.
  Imports no Mathlib (driver start-up).
-/
import TamocV.Num
import TamocV.Proto

namespace TamocV.Model.SaveLoad

/-! ## The file -/

/-- a netCDF data cell: `none` = never written -/
abbrev Cell (β : Type) := Option β

inductive AttrVal (α : Type) where
  | s : String → AttrVal α
  | names : List String → AttrVal α        -- `' '.join(names)`
  | n : Int → AttrVal α
  | f : α → AttrVal α

inductive Arr (α : Type) where
  | i1 : List (Cell Int) → Arr α
  | f1 : List (Cell α) → Arr α
  | f2 : List (List (Cell α)) → Arr α
  | f3 : List (List (List (Cell α))) → Arr α

structure Var (α : Type) where
  dtype : String
  dims : List String
  data : Arr α
  attrs : List (String × AttrVal α)

structure File (α : Type) where
  attrs : List (String × AttrVal α)
  dims : List (String × Nat)
  vars : List (String × Var α)

variable {α : Type}

def File.add (a b : File α) : File α := ⟨a.attrs ++ b.attrs, a.dims ++ b.dims, a.vars ++ b.vars⟩

def File.names (f : File α) (k : String) : List String :=
  match f.attrs.lookup k with
  | some (.names l) => l
  | _ => []
def File.str (f : File α) (k : String) : String :=
  match f.attrs.lookup k with
  | some (.s l) => l
  | _ => ""
def File.dim (f : File α) (k : String) : Nat := (f.dims.lookup k).getD 0
def File.i1 (f : File α) (v : String) : List (Cell Int) :=
  match f.vars.lookup v with
  | some ⟨_, _, .i1 l, _⟩ => l
  | _ => []
def File.f1 (f : File α) (v : String) : List (Cell α) :=
  match f.vars.lookup v with
  | some ⟨_, _, .f1 l, _⟩ => l
  | _ => []
def File.f2 (f : File α) (v : String) : List (List (Cell α)) :=
  match f.vars.lookup v with
  | some ⟨_, _, .f2 l, _⟩ => l
  | _ => []
def File.f3 (f : File α) (v : String) : List (List (List (Cell α))) :=
  match f.vars.lookup v with
  | some ⟨_, _, .f3 l, _⟩ => l
  | _ => []
/-- integer attribute of a variable (`nc.variables[v].n_times`) -/
def File.vattrN (f : File α) (v k : String) : Nat :=
  match f.vars.lookup v with
  | some var => match var.attrs.lookup k with
    | some (.n i) => i.toNat
    | _ => 0
  | none => 0
def File.vattrS (f : File α) (v k : String) : String :=
  match f.vars.lookup v with
  | some var => match var.attrs.lookup k with
    | some (.s i) => i
    | _ => ""
  | none => ""

/-- `a[i]` of a 1-D variable; out of range behaves as unwritten -/
def at1 {β : Type} (l : List (Cell β)) (i : Nat) : Cell β := (l[i]?).join
def at2 {β : Type} (l : List (List (Cell β))) (i j : Nat) : Cell β := ((l[i]?).bind (·[j]?)).join

/-- truth value of an integer cell in an `if`: a masked value is falsy -/
def truthy : Cell Int → Bool
  | some k => k != 0
  | none => false

def b2i (b : Bool) : Int := if b then 1 else 0

/-- `(List.range nr).map fun r => (List.range nc).map (g r)` — an array given element-wise -/
def tabulate2 {β : Type} (nr nc : Nat) (g : Nat → Nat → β) : List (List β) :=
  (List.range nr).map fun r => (List.range nc).map fun c => g r c

section
variable [Num α]

/-- default `_FillValue` of an f8 variable (what `np.ma.getdata` shows for a masked cell) -/
def fillF : α := 9.969209968386869e36
/-- default `_FillValue` of an i4 variable -/
def fillI : Int := -2147483647
def valF (c : Cell α) : α := c.getD fillF
def valI (c : Cell Int) : Int := c.getD fillI

def zeros (n m : Nat) : List (List α) := List.replicate n (List.replicate m 0)

def va (long std units : String) : List (String × AttrVal α) :=
  [("long_name", .s long), ("standard_name", .s std), ("units", .s units)]

def vI (name long units : String) (dims : List String) (d : List (Cell Int)) : String × Var α :=
  (name, ⟨"i4", dims, .i1 d, va long name units⟩)
def vF (name long std units : String) (dims : List String) (d : List (Cell α))
    (extra : List (String × AttrVal α) := []) : String × Var α :=
  (name, ⟨"f8", dims, .f1 d, va long std units ++ extra⟩)
def vF2 (name long std units : String) (dims : List String) (d : List (List (Cell α)))
    (extra : List (String × AttrVal α) := []) : String × Var α :=
  (name, ⟨"f8", dims, .f2 d, va long std units ++ extra⟩)

/-! ## model_share.tamoc_nc_file -/

structure Header where
  title : String
  summary : String       -- the models pass `profile_path`
  source : String        -- the models pass `profile_info`
  created : String       -- datetime.today().isoformat(' ')
  modified : String

def header (h : Header) : File α :=
  { attrs := [("Conventions", .s "TAMOC Modeling Suite Output File"),
              ("Metadata_Conventions", .s "TAMOC Python Model"),
              ("featureType", .s "profile"),
              ("cdm_data_type", .s "Profile"),
              ("nodc_template_version", .s "NODC_NetCDF_Profile_Orthogonal_Template_v1.0"),
              ("title", .s h.title),
              ("summary", .s h.summary),
              ("source", .s h.source),
              ("creator_url", .s "http://github.com/socolofs/tamoc"),
              ("date_created", .s h.created),
              ("date_modified", .s h.modified),
              ("history", .s "Creation")],
    dims := [], vars := [] }

/-! ## Particle definitions -/

/-- one entry of `user_data`: `props` are the 13 values the writer stores, in the order of
    `userKeys`; the four optional keys are not stored -/
structure UserChem (α : Type) where
  name : String
  props : List α
  k_bio : Option α
  t_bio : Option α
  C_pen : Option α
  C_pen_T : Option α

/-- dictionary keys read by the writer / set by the reader, in file order -/
def userKeys : List String :=
  ["M", "Pc", "Tc", "Vc", "Tb", "Vb", "omega", "kh_0", "-dH_solR", "nu_bar", "B", "dE", "K_salt"]
/-- the netCDF variables they are stored in -/
def userVars : List String :=
  ["M", "Pc", "Tc", "Vc", "Tb", "Vb", "omega", "kh_0", "neg_dH_solR", "nu_bar", "B", "dE", "K_salt"]
def userLong : List String :=
  ["molecular weight", "pressure at the critical point", "temperature at the critical point",
   "molar volume at the critical point", "boiling point", "molar volume at the boiling point",
   "acentric factor", "Henrys law constant at 298.15 K", "negative of the enthalpy of solution / R",
   "specific volume at infinite dilution", "diffusivity model coefficient B",
   "diffusivity model coefficient dE", "Setschenow salting out correction for solubility"]
def userUnits : List String :=
  ["kg/mol", "Pa", "K", "m^3/mol", "K", "m^3/mol", "nondimensional", "kg/(m^3 Pa)", "K", "m^3/mol",
   "m^2/s", "J/mol", "m^3/mol"]

/-- `dbm.FluidParticle` — the attributes that define it -/
structure Fluid (α : Type) where
  composition : List String
  fp_type : Int
  isair : Bool
  sigma : α                          -- sigma_correction
  calc_delta : Int                   -- -1 / 1
  delta_groups : List (List α)       -- nc × 15
  delta : List (List α)              -- nc × nc
  user_data : List (UserChem α)

/-- `dbm.InsolubleParticle` -/
structure Insol (α : Type) where
  isfluid : Bool
  iscompressible : Bool
  rho_p : α
  gamma : α
  beta : α
  co : α
  k_bio : α
  t_bio : α
  fp_type : Int

inductive Dbm (α : Type) where
  | fluid : Fluid α → Dbm α
  | insol : Insol α → Dbm α

/-- `SingleParticle` (ptype 0) / `PlumeParticle` (1) / `bent_plume_model.Particle` (2).
    Fields a class does not have are kept at their defaults (`Particle.Canon`). -/
structure Particle (α : Type) where
  dbm : Dbm α
  m0 : List α
  T0 : α
  K : α
  K_T : α
  fdis : α
  t_hyd : α
  lag_time : Bool
  nb0 : α               -- ptype ≥ 1
  lambda_1 : α          -- ptype ≥ 1
  nbe : α               -- ptype = 2 …
  integrate : Bool
  sim_stored : Bool
  farfield : Bool
  tp : α
  xp : α
  yp : α
  zp : α
  exit : Option (α × α × α × α)      -- te, xe, ye, ze when the particle has left the plume

def Dbm.issoluble : Dbm α → Bool
  | .fluid _ => true
  | .insol _ => false

/-! ### the particle part of the file, typed by column (`Table`) -/

structure Table (α : Type) where
  composition : List String
  user_composition : List String
  nparticles : Nat
  nchems : Nat
  next_chems : Nat
  particle_type : List (Cell Int)
  issoluble : List (Cell Int)
  isair : List (Cell Int)
  isfluid : List (Cell Int)
  iscompressible : List (Cell Int)
  calc_delta : List (Cell Int)
  extern_data : List (Cell Int)
  fp_type : List (Cell Int)
  rho_p : List (Cell α)
  gamma : List (Cell α)
  beta : List (Cell α)
  co : List (Cell α)
  sigma_correction : List (Cell α)
  delta_groups : List (List (List (Cell α)))
  m0 : List (List (Cell α))
  T0 : List (Cell α)
  K : List (Cell α)
  K_T : List (Cell α)
  fdis : List (Cell α)
  t_hyd : List (Cell α)
  nb0 : List (Cell α)
  lambda_1 : List (Cell α)
  nbe : List (Cell α)
  integrate : List (Cell Int)
  sim_stored : List (Cell Int)
  farfield : List (Cell Int)
  tp : List (Cell α)
  xp : List (Cell α)
  yp : List (Cell α)
  zp : List (Cell α)
  te : List (Cell α)
  xe : List (Cell α)
  ye : List (Cell α)
  ze : List (Cell α)
  user : List (List (List (Cell α)))       -- one nparticles × next_chems matrix per `userVars`
  Ta : List (Cell α)                        -- written by the plume models, read by the loader (l.1110, 1128)

/-- l.838-847: the key list of the FIRST soluble particle whose user data has strictly more
    entries than any before it -/
def userComposition (ps : List (Particle α)) : Nat × List String :=
  ps.foldl (fun acc p => match p.dbm with
    | .fluid f => if f.user_data.length > acc.1 then (f.user_data.length, f.user_data.map (·.name)) else acc
    | .insol _ => acc) (0, [])

/-- `user_data[name]` (a dict: first match) -/
def findUser (ud : List (UserChem α)) (name : String) : Option (UserChem α) :=
  ud.find? (fun u => u.name == name)

/-- row `i` of the `k`-th user-data variable (l.936-951); a key the dictionary lacks is a
    KeyError (`userOk`), rendered here as an unwritten cell -/
def userRow (ucomp : List String) (k : Nat) (p : Particle α) : List (Cell α) :=
  match p.dbm with
  | .fluid f =>
    if f.user_data.isEmpty then List.replicate ucomp.length none
    else ucomp.map fun name => (findUser f.user_data name).map fun u => u.props.getD k 0
  | .insol _ => List.replicate ucomp.length none

/-- no KeyError in l.936-951 -/
def userOk (ucomp : List String) (p : Particle α) : Bool :=
  match p.dbm with
  | .fluid f => f.user_data.isEmpty || ucomp.all fun name => (findUser f.user_data name).isSome
  | .insol _ => true

/-- numpy broadcasting of `n` rows/entries into a slice of length `n`: a source of that length is
    copied, a source of length 1 is repeated (anything else: ValueError, see `m0Ok`) -/
def bcast {β : Type} (n : Nat) (l : List β) : List β :=
  if l.length = n then l else
  match l with
  | [x] => List.replicate n x
  | _ => l

/-- the row `m0[i,:]` (l.957, 976).  The composition of the particle itself is NOT consulted: a
    soluble particle whose own composition is shorter than `chem_names` has its single mass
    repeated, one with the same number of compounds in another order is relabelled on load. -/
def m0Row (nchems : Nat) (p : Particle α) : List (Cell α) :=
  match p.dbm with
  | .fluid _ => bcast nchems (p.m0.map some)
  | .insol _ => some (p.m0.headD 0) :: List.replicate (nchems - 1) none

/-- the block `delta_groups[i,:,:]` of a soluble particle (l.953-956) -/
def dgBlock (nchems : Nat) (chemLen : Nat) (f : Fluid α) : List (List (Cell α)) :=
  if f.calc_delta != 0 then bcast nchems (f.delta_groups.map (·.map some))
  else (zeros chemLen 15).map (·.map some)

/-- numpy can broadcast the masses / the group array into the slice -/
def m0Ok (nchems : Nat) (p : Particle α) : Bool :=
  match p.dbm with
  | .fluid f => (p.m0.length == nchems || p.m0.length == 1) &&
                (f.delta_groups.length == nchems || f.delta_groups.length == 1 || f.calc_delta == 0)
  | .insol _ => p.m0.length == 1

def nchemsOf (chem : List String) : Nat := if chem.length > 0 then chem.length else 1

/-- the writer does not raise -/
def saveOk (chem : List String) (ps : List (Particle α)) (KT0 : List α) : Bool :=
  ps.all (m0Ok (nchemsOf chem)) && ps.all (userOk (userComposition ps).2) && decide (ps.length ≤ KT0.length)

/-- l.623-1011 column by column.  `ptype` is the class of `particles[0]`; `chem` is the
    `chem_names` argument; `KT0` the `K_T0` argument. -/
def mkTable (ptype : Nat) (chem : List String) (ps : List (Particle α)) (KT0 : List α) : Table α :=
  let nchems := nchemsOf chem
  let next := (userComposition ps).1
  let ucomp := (userComposition ps).2
  let fl (g : Fluid α → Cell Int) (h : Insol α → Cell Int) : List (Cell Int) :=
    ps.map fun p => match p.dbm with | .fluid f => g f | .insol i => h i
  let ff (g : Fluid α → Cell α) (h : Insol α → Cell α) : List (Cell α) :=
    ps.map fun p => match p.dbm with | .fluid f => g f | .insol i => h i
  let plume (g : Particle α → Cell α) : List (Cell α) := if ptype ≥ 1 then ps.map g else []
  let bent (g : Particle α → Cell α) : List (Cell α) := if ptype = 2 then ps.map g else []
  let bentI (g : Particle α → Cell Int) : List (Cell Int) := if ptype = 2 then ps.map g else []
  { composition := chem
    user_composition := ucomp
    nparticles := ps.length
    nchems := nchems
    next_chems := next
    particle_type := [some (Int.ofNat ptype)]
    issoluble := fl (fun _ => some 1) (fun _ => some 0)
    isair := fl (fun f => some (b2i f.isair)) (fun _ => some 0)
    isfluid := fl (fun _ => some 1) (fun i => some (b2i i.isfluid))
    iscompressible := fl (fun _ => some 1) (fun i => some (b2i i.iscompressible))
    calc_delta := fl (fun f => some f.calc_delta) (fun _ => some (-1))
    extern_data := fl (fun f => some (if f.user_data.isEmpty then 0 else 1)) (fun _ => none)
    fp_type := fl (fun f => some f.fp_type) (fun _ => some 3)
    rho_p := ff (fun _ => some (-1)) (fun i => some i.rho_p)
    gamma := ff (fun _ => some (-1)) (fun i => some i.gamma)
    beta := ff (fun _ => some (-1)) (fun i => some i.beta)
    co := ff (fun _ => some (-1)) (fun i => some i.co)
    sigma_correction := ff (fun f => some f.sigma) (fun _ => some 1)
    -- `if particle.calc_delta:` is true for -1 and 1: the particle's array is always written
    delta_groups := ps.map fun p => match p.dbm with
      | .fluid f => dgBlock nchems chem.length f
      | .insol _ => List.replicate nchems (List.replicate 15 none)
    m0 := ps.map (m0Row nchems)
    T0 := ps.map fun p => some p.T0
    K := ps.map fun p => some p.K
    K_T := (KT0.take ps.length).map some
    fdis := ps.map fun p => some p.fdis
    t_hyd := ps.map fun p => some p.t_hyd
    nb0 := plume fun p => some p.nb0
    lambda_1 := plume fun p => some p.lambda_1
    nbe := bent fun p => some p.nbe
    integrate := bentI fun p => some (b2i p.integrate)
    sim_stored := bentI fun p => some (b2i p.sim_stored)
    farfield := bentI fun p => some (b2i p.farfield)
    tp := bent fun p => some p.tp
    xp := bent fun p => some p.xp
    yp := bent fun p => some p.yp
    zp := bent fun p => some p.zp
    te := bent fun p => p.exit.map (·.1)
    xe := bent fun p => p.exit.map (·.2.1)
    ye := bent fun p => p.exit.map (·.2.2.1)
    ze := bent fun p => p.exit.map (·.2.2.2)
    user := if next > 0 then (List.range 13).map fun k => ps.map (userRow ucomp k) else []
    Ta := [] }

/-- `none` = the writer raises -/
def saveTable (ptype : Nat) (chem : List String) (ps : List (Particle α)) (KT0 : List α) :
    Option (Table α) :=
  if saveOk chem ps KT0 then some (mkTable ptype chem ps KT0) else none

def zAttrs : List (String × AttrVal α) := [("axis", .s "Z"), ("positive", .s "down")]

/-- the variables, dimensions and attributes `save_particle_to_nc_file` creates, in order -/
def Table.toFile (ptype : Nat) (t : Table α) : File α :=
  let np := ["nparticles"]
  let base : List (String × Var α) := [
    vI "particle_type" "dispersed_phases Particle type" "0: Single, 1:Plume, 2:Bent plume particle" ["num"] t.particle_type,
    vI "issoluble" "solubility (0: false, 1: true)" "boolean" np t.issoluble,
    vI "isair" "fluid is air (0: false, 1: true)" "boolean" np t.isair,
    vI "isfluid" "Fluid status (0: false, 1: true)" "boolean" np t.isfluid,
    vI "iscompressible" "Compressibility (0: false, 1: true)" "boolean" np t.iscompressible,
    vI "calc_delta" "Calculate delta (-1: false, 1: true)" "boolean" np t.calc_delta,
    vI "extern_data" "External chem database (0: false, 1: true)" "boolean" np t.extern_data,
    vI "fp_type" "fluid phase (0: gas, 1: liquid, 2: solid)" "nondimensional" np t.fp_type,
    vF "rho_p" "particle density" "rho_p" "kg/m^3" np t.rho_p,
    vF "gamma" "API Gravity" "gamma" "deg API" np t.gamma,
    vF "beta" "thermal expansion coefficient" "beta" "Pa^(-1)" np t.beta,
    vF "co" "isothermal compressibility coefficient" "co" "K^(-1)" np t.co,
    vF "sigma_correction" "interfacial tension reduction factor (--)" "sigma_correction" "nondimensional" np t.sigma_correction,
    ("delta_groups", ⟨"f8", ["nparticles", "nchems", "ngroups"], .f3 t.delta_groups,
        va "group contribution method delta groups" "delta_groups" "nondimensional"⟩),
    vF2 "m0" "initial mass flux" "m0" "kg/s" ["nparticles", "nchems"] t.m0,
    vF "T0" "initial temperature" "T0" "K" np t.T0,
    vF "K" "mass transfer reduction factor" "K" "nondimensional" np t.K,
    vF "K_T" "heat transfer reduction factor" "K_T" "nondimensional" np t.K_T,
    vF "fdis" "dissolution criteria" "fdis" "nondimensional" np t.fdis,
    vF "t_hyd" "hydrate formation time" "t_hyd" "s" np t.t_hyd]
  let bent : List (String × Var α) := [
    vF "nb0" "initial bubble number flux" "nb0" "s^(-1)" np t.nb0,
    vF "nbe" "number of bubbles following plume element" "nbe" "count" np t.nbe,
    vF "lambda_1" "bubble spreading ratio" "lambda_1" "nondimensional" np t.lambda_1,
    vI "integrate" "Particle status (0: false, 1: true)" "boolean" np t.integrate,
    vI "sim_stored" "Tracking state (0: false, 1: true)" "boolean" np t.sim_stored,
    vI "farfield" "Farfield simualtion (0: false, 1: true)" "boolean" np t.farfield,
    vF "tp" "time" "t" "s" np t.tp,
    vF "xp" "x-coordinate" "x" "m" np t.xp,
    vF "yp" "y-coordinate" "y" "m" np t.yp,
    vF "zp" "z-coordinate" "z" "m" np t.zp zAttrs,
    vF "te" "particle exit time" "te" "s" np t.te,
    vF "xe" "particle exit x-coordinate" "xe" "m" np t.xe,
    vF "ye" "particle exit y-coordinate" "ye" "m" np t.ye,
    vF "ze" "particle exit z-coordinate" "ze" "m" np t.ze zAttrs]
  let plume : List (String × Var α) := [
    vF "nb0" "initial bubble number flux" "nb0" "s^(-1)" np t.nb0,
    vF "lambda_1" "bubble spreading ratio" "lambda_1" "nondimensional" np t.lambda_1]
  let user : List (String × Var α) :=
    if t.next_chems > 0 then
      (List.range 13).map fun k =>
        vF2 (userVars.getD k "") (userLong.getD k "") (userVars.getD k "") (userUnits.getD k "")
          ["nparticles", "next_chems"] (t.user.getD k [])
    else []
  { attrs := [("composition", .names t.composition)] ++
             (if t.next_chems > 0 then [("user_composition", .names t.user_composition)] else []),
    dims := [("nparticles", t.nparticles), ("ngroups", 15), ("nchems", t.nchems), ("num", 1)] ++
            (if t.next_chems > 0 then [("next_chems", t.next_chems)] else []),
    vars := base ++ (if ptype = 2 then bent else if ptype = 1 then plume else []) ++ user }

/-- what the reader looks up, name by name (l.1035-1135).  A variable that does not exist
    reads as empty here (the reader only touches `nb0 …` when `particle_type` says so). -/
def Table.ofFile (f : File α) : Table α :=
  { composition := f.names "composition"
    user_composition := f.names "user_composition"
    nparticles := f.dim "nparticles"
    nchems := f.dim "nchems"
    next_chems := f.dim "next_chems"
    particle_type := f.i1 "particle_type"
    issoluble := f.i1 "issoluble"
    isair := f.i1 "isair"
    isfluid := f.i1 "isfluid"
    iscompressible := f.i1 "iscompressible"
    calc_delta := f.i1 "calc_delta"
    extern_data := f.i1 "extern_data"
    fp_type := f.i1 "fp_type"
    rho_p := f.f1 "rho_p"
    gamma := f.f1 "gamma"
    beta := f.f1 "beta"
    co := f.f1 "co"
    sigma_correction := f.f1 "sigma_correction"
    delta_groups := f.f3 "delta_groups"
    m0 := f.f2 "m0"
    T0 := f.f1 "T0"
    K := f.f1 "K"
    K_T := f.f1 "K_T"
    fdis := f.f1 "fdis"
    t_hyd := f.f1 "t_hyd"
    nb0 := f.f1 "nb0"
    lambda_1 := f.f1 "lambda_1"
    nbe := f.f1 "nbe"
    integrate := f.i1 "integrate"
    sim_stored := f.i1 "sim_stored"
    farfield := f.i1 "farfield"
    tp := f.f1 "tp"
    xp := f.f1 "xp"
    yp := f.f1 "yp"
    zp := f.f1 "zp"
    te := f.f1 "te"
    xe := f.f1 "xe"
    ye := f.f1 "ye"
    ze := f.f1 "ze"
    user := if f.dim "next_chems" > 0 then userVars.map f.f2 else []
    Ta := f.f1 "Ta" }

/-- `x == 0.` on a `Num` (no `==` on α) -/
def isZero (x : α) : Bool := decide (x ≤ 0 ∧ 0 ≤ x)

/-- dbm.py l.283-345 for the array the reader passes: all-zero data ⇒ group contributions
    off; otherwise every row is divided by its sum -/
def normGroups (nc : Nat) (g : List (List α)) : Int × List (List α) :=
  if isZero (Num.sum (g.map Num.sum)) then (-1, zeros nc 15)
  else if g.length = nc ∧ g.all (fun r => r.length = 15) then
    (1, g.map fun r => r.map fun x => x / Num.sum r)
  else (-1, zeros nc 15)

/-- `dbm.FluidParticle(chem_names, fp_type=…, user_data=…, delta_groups=…, isair=…,
    sigma_correction=…)` — `delta` is not passed and becomes zeros (l.269-270) -/
def mkFluid (chem : List String) (fp_type : Int) (ud : List (UserChem α))
    (dg : Option (List (List α))) (isair : Bool) (sigma : α) : Fluid α :=
  let nc := chem.length
  let (cd, g) := match dg with
    | none => ((-1 : Int), zeros nc 15)
    | some g => normGroups nc g
  { composition := chem, fp_type := fp_type, isair := isair, sigma := sigma, calc_delta := cd,
    delta_groups := g, delta := zeros nc nc, user_data := ud }

/-- l.1044-1073: one dictionary per name of `user_composition`, 13 keys each -/
def loadUser (t : Table α) (i : Nat) : List (UserChem α) :=
  (List.range t.user_composition.length).map fun j =>
    { name := t.user_composition.getD j ""
      props := (List.range 13).map fun k => valF (at2 (t.user.getD k []) i j)
      k_bio := none, t_bio := none, C_pen := none, C_pen_T := none }

/-- l.1039-1138 for particle `i` -/
def loadParticleT (t : Table α) (i : Nat) : Particle α :=
  let ptype := valI (at1 t.particle_type 0)
  let dbm : Dbm α :=
    if truthy (at1 t.issoluble i) then
      let ud := if truthy (at1 t.extern_data i) then loadUser t i else []
      let dg := if truthy (at1 t.calc_delta i)
        then some ((t.delta_groups.getD i []).map (·.map valF)) else none
      .fluid (mkFluid t.composition (valI (at1 t.fp_type i)) ud dg (truthy (at1 t.isair i))
        (valF (at1 t.sigma_correction i)))
    else
      .insol { isfluid := truthy (at1 t.isfluid i), iscompressible := truthy (at1 t.iscompressible i),
               rho_p := valF (at1 t.rho_p i), gamma := valF (at1 t.gamma i),
               beta := valF (at1 t.beta i), co := valF (at1 t.co i),
               k_bio := 0, t_bio := 0, fp_type := 1 }
  let m0 : List α :=
    if truthy (at1 t.issoluble i) then (t.m0.getD i []).map valF else [valF (at2 t.m0 i 0)]
  let bentp := ptype == 2
  let plume := ptype == 2 || ptype == 1
  let T0 := valF (at1 t.T0 i)
  let kt := valF (at1 t.K_T i)
  -- PlumeParticle.__init__ ends with `self.update(m0, T0, P, Sa, Ta, 0.)`, whose call of
  -- `properties` (l.206-207) switches heat transfer off within 0.5 K of the ambient temperature
  let K_T := if plume && decide (0 < kt) && decide (Num.abs (valF (at1 t.Ta 0) - T0) < 0.5) then 0 else kt
  { dbm := dbm, m0 := m0,
    T0 := T0, K := valF (at1 t.K i), K_T := K_T,
    fdis := valF (at1 t.fdis i), t_hyd := valF (at1 t.t_hyd i),
    lag_time := true,                                   -- constructor default; not in the file
    nb0 := if plume then valF (at1 t.nb0 i) else 0,
    lambda_1 := if plume then valF (at1 t.lambda_1 i) else 0,
    nbe := if bentp then valF (at1 t.nbe i) else 0,
    integrate := bentp && truthy (at1 t.integrate i),
    sim_stored := bentp && truthy (at1 t.sim_stored i),
    farfield := bentp && truthy (at1 t.farfield i),
    tp := if bentp then valF (at1 t.tp i) else 0,
    xp := if bentp then valF (at1 t.xp i) else 0,
    yp := if bentp then valF (at1 t.yp i) else 0,
    zp := if bentp then valF (at1 t.zp i) else 0,
    exit := if bentp then
        match at1 t.te i with
        | some te => if 0 < te then some (te, valF (at1 t.xe i), valF (at1 t.ye i), valF (at1 t.ze i)) else none
        | none => none
      else none }

def loadParticlesT (t : Table α) : List (Particle α) × List String :=
  ((List.range t.nparticles).map (loadParticleT t), t.composition)

/-- `dispersed_phases.load_particle_from_nc_file(nc)` -/
def loadParticles (f : File α) : List (Particle α) × List String := loadParticlesT (Table.ofFile f)

/-- a file that holds only the ambient temperature at the release (for the particle reader alone) -/
def taFile (Ta : α) : File α :=
  { attrs := [], dims := [("params", 1)],
    vars := [vF "Ta" "ambient temperature at the release point" "Ta" "K" ["params"] [some Ta]] }

/-- what survives the file: the fields the writer does not store take the values the
    constructors give them when the reader omits the argument -/
def UserChem.forget (u : UserChem α) : UserChem α :=
  { u with k_bio := none, t_bio := none, C_pen := none, C_pen_T := none }
def Particle.forget (p : Particle α) : Particle α :=
  { p with
    lag_time := true
    dbm := match p.dbm with
      | .fluid f => .fluid { f with delta := zeros f.composition.length f.composition.length,
                                    user_data := f.user_data.map UserChem.forget }
      | .insol i => .insol { i with k_bio := 0, t_bio := 0, fp_type := 1 } }

/-! ## single_bubble_model.Model -/

structure Sbm (α : Type) where
  particle : Particle α
  composition : List String     -- `self.particle.composition`
  K_T0 : α
  K_T0_0d : Bool                -- `self.K_T0` is a 0-d (masked) array, as `load_sim` leaves it, not a float
  delta_t : α
  t : List α
  y : List (List α)             -- one row per time

/-- dimensions and variables `save_sim` creates itself (l.482-514, 520-523) -/
def sbmOwn (s : Sbm α) : File α :=
  let nt := s.t.length
  let ns := (s.y.headD []).length
  { attrs := [],
    dims := [("z", nt), ("profile", 1), ("ns", ns)],
    vars := [
      vF "K_T0" "Initial heat transfer reduction factor" "K_T0" "nondimensional" ["profile"] [some s.K_T0],
      vF "delta_t" "maximum simulation output time step" "delta_t" "seconds" ["profile"] [some s.delta_t],
      vF "t" "time coordinate" "time" "seconds since release" ["z"] (s.t.map some) [("axis", .s "T")],
      -- `y[0:len(t), i] = self.y[:, i]` for every column i
      vF2 "y" "solution state space" "y" "variable" ["z", "ns"]
        (tabulate2 nt ns fun r c => (s.y[r]?).bind (·[c]?)) [("coordinate", .s "t")]] }

/-- `none` = raises.  save_particle_to_nc_file (l.616-621) wraps a float `K_T0` into a 1-element
    array but keeps any ndarray as it is; `K_T[i] = K_T0[i]` (l.986) then fails on a 0-d array
    (IndexError) — which is what `load_sim` stores in `self.K_T0` (l.698). -/
def saveSbm (h : Header) (s : Sbm α) : Option (File α) :=
  if s.K_T0_0d then none else
  (saveTable 0 s.composition [s.particle] [s.K_T0]).map fun tbl =>
    (header h).add ((sbmOwn s).add (tbl.toFile 0))

def loadSbm (f : File α) : Sbm α :=
  let ps := loadParticles f
  let t := (f.f1 "t").map valF
  let ns := f.dim "ns"
  { particle := ps.1.headD (loadParticleT (Table.ofFile f) 0),
    composition := ps.2,
    K_T0 := valF (at1 (f.f1 "K_T0") 0),
    K_T0_0d := true,                              -- `nc.variables['K_T0'][0]` is a 0-d masked array
    delta_t := valF (at1 (f.f1 "delta_t") 0),
    t := t,
    y := tabulate2 t.length ns fun r c => valF (at2 (f.f2 "y") r c) }

/-! ## bent_plume_model.Model -/

structure Bpm (α : Type) where
  X : List α            -- 3
  D : α
  Vj : α
  phi_0 : α
  theta_0 : α
  Sj : α
  Tj : α
  cj : List α
  tracers : List String
  chem_names : List String
  particles : List (Particle α)
  track : Bool
  dt_max : α
  sd_max : α
  K_T0 : List α
  ns : Nat              -- len(q_local.q0)
  t : List α
  q : List (List α)
  Ta : α                -- profile.get_values(X[2], …) at save time
  Sa : α
  P : α

def p1 (n long std units : String) (x : α) (extra : List (String × AttrVal α) := []) : String × Var α :=
  vF n long std units ["params"] [some x] extra

/-- dimensions, attributes and variables `save_sim` creates itself (l.951-1079, 1093-1095);
    `cjLast` is what ends up in the one slot of `cj` -/
def bpmOwn (s : Bpm α) (cjLast : α) : File α :=
  let nt := s.t.length
  { attrs := [("tracers", .names s.tracers), ("chem_names", .names s.chem_names)],
    dims := [("t", nt), ("profile", 1), ("ns", s.ns), ("params", 1)],
    vars := [
      p1 "x0" "Initial value of the x-coordinate" "x0" "m" (s.X.getD 0 0),
      p1 "y0" "Initial value of the y-coordinate" "y0" "m" (s.X.getD 1 0),
      p1 "z0" "Initial depth below the water surface" "depth" "m" (s.X.getD 2 0) zAttrs,
      p1 "D" "Orifice diameter" "diameter" "m" s.D,
      p1 "Vj" "Discharge velocity" "Vj" "m" s.Vj,
      p1 "phi_0" "Discharge vertical angle to horizontal" "phi_0" "rad" s.phi_0,
      p1 "theta_0" "Discharge horizontal angle to x-axis" "theta_0" "rad" s.theta_0,
      p1 "Sj" "Discharge salinity" "Sj" "psu" s.Sj,
      p1 "Tj" "Discharge temperature" "Tj" "K" s.Tj,
      p1 "cj" "Discharge tracer concentration" "cj" "nondimensional" cjLast,
      p1 "Ta" "ambient temperature at the release point" "Ta" "K" s.Ta,
      p1 "Sa" "ambient salinity at the release point" "Sa" "psu" s.Sa,
      p1 "P" "ambient pressure at the release point" "P" "Pa" s.P,
      vI "track" "SBM Status (0: false, 1: true)" "boolean" ["params"] [some (b2i s.track)],
      p1 "dt_max" "Simulation maximum duration" "dt_max" "s" s.dt_max,
      p1 "sd_max" "Maximum distance along centerline s/D" "sd_max" "nondimensional" s.sd_max,
      vF2 "t" "time along the plume centerline" "time" "s" ["t", "profile"]
        (s.t.map fun x => [some x]) [("axis", .s "T"), ("n_times", .n (Int.ofNat nt))],
      vF2 "q" "Lagranian plume model state space" "q" "variable" ["t", "ns"]
        (tabulate2 nt s.ns fun r c => (s.q[r]?).bind (·[c]?))] }

/-- the main file; the far-field single-particle simulations go to `<fname>NNN.nc` through
    `saveSbm`.  `none` = raises (`cj[0] = self.cj` with an empty array: IndexError);
    netCDF4 stores the elements of the array one after the other in slot 0: the last stays. -/
def saveBpm (h : Header) (s : Bpm α) : Option (File α) :=
  match s.cj.getLast? with
  | none => none
  | some cjLast =>
    (saveTable 2 s.chem_names s.particles s.K_T0).map fun tbl =>
      (header h).add ((bpmOwn s cjLast).add (tbl.toFile 2))

/-- `load_sim` up to (not including) the construction of the local Lagrangian element: what the
    file reader alone yields -/
def loadBpmFile (f : File α) : Bpm α :=
  let ps := loadParticles f
  let nt := f.vattrN "t" "n_times"
  let ns := f.dim "ns"
  { X := [valF (at1 (f.f1 "x0") 0), valF (at1 (f.f1 "y0") 0), valF (at1 (f.f1 "z0") 0)],
    particles := ps.1, chem_names := ps.2,
    D := valF (at1 (f.f1 "D") 0), Vj := valF (at1 (f.f1 "Vj") 0),
    phi_0 := valF (at1 (f.f1 "phi_0") 0), theta_0 := valF (at1 (f.f1 "theta_0") 0),
    Sj := valF (at1 (f.f1 "Sj") 0), Tj := valF (at1 (f.f1 "Tj") 0),
    cj := [valF (at1 (f.f1 "cj") 0)],         -- a scalar, whatever the number of tracers
    track := valI (at1 (f.i1 "track") 0) == 1,
    dt_max := valF (at1 (f.f1 "dt_max") 0), sd_max := valF (at1 (f.f1 "sd_max") 0),
    tracers := f.names "tracers",
    K_T0 := ps.1.map (·.K_T),
    ns := ns,
    t := (List.range nt).map fun r => valF (at2 (f.f2 "t") r 0),
    q := tabulate2 nt ns fun r c => valF (at2 (f.f2 "q") r c),
    Ta := valF (at1 (f.f1 "Ta") 0), Sa := valF (at1 (f.f1 "Sa") 0), P := valF (at1 (f.f1 "P") 0) }

/-- the state `LagElement.update` gives a particle (bent_plume_model.py l.3195-3222) -/
structure PState (α : Type) where
  integrate : Bool
  tp : α
  xp : α
  yp : α
  zp : α

/-- `load_sim` l.1378: `self.q_local = LagElement(self.t[0], self.q[0,:], …, self.particles, …)`.  Its
    `update` re-derives, from the FIRST row of the solution, every particle's `integrate` flag
    (X_p is NaN ⇔ outside) and, through `track`, its `t, x, y, z` — overwriting what the reader took
    from the file (the state at the END of the simulation).  `particle.update → properties` (dispersed_phases
    l.206-207) also sets `K_T = 0` for a particle that is within 0.5 K of the plume water at that row; like
    `simulate`, `load_sim` then restores every particle's `K_T` from `K_T0` (the loop right after the
    construction of `q_local`), so `K_T` is what the file holds.  The values are those the plume
    kinematics give (`st`, an input here: not data movement); no other definition field changes. -/
def lagReset : List (PState α) → List (Particle α) → List (Particle α)
  | s :: st, p :: ps =>
    { p with integrate := s.integrate, tp := s.tp, xp := s.xp, yp := s.yp, zp := s.zp } :: lagReset st ps
  | _, ps => ps

/-- `bent_plume_model.Model.load_sim` -/
def loadBpm (st : List (PState α)) (f : File α) : Bpm α :=
  let r := loadBpmFile f
  { r with particles := lagReset st r.particles }

/-! ## stratified_plume_model.Model -/

structure Spm (α : Type) where
  particles : List (Particle α)
  chem_names : List String
  K_T0 : List α
  R : α
  maxit : α
  toler : α
  delta_z : α
  nsi : Nat             -- len(yi_local.y0)
  nso : Nat             -- len(yo_local.y0)
  zi : List α
  yi : List (List α)
  zo : List α
  yo : List (List α)
  Ta : α
  Sa : α
  P : α

/-- dimensions and variables `save_sim` creates itself (l.624-704) -/
def spmOwn (s : Spm α) : File α :=
  let nzi := s.zi.length
  let nzo := s.zo.length
  -- `z[:,0] = zi; z[:,1] = zo` on the unlimited dimension: it grows to the longer of the two,
  -- the shorter column stays unwritten below its end
  let nz := Nat.max nzi nzo
  { attrs := [],
    dims := [("z", nz), ("profile", 2), ("nsi", s.nsi), ("nso", s.nso), ("params", 1)],
    vars := [
      p1 "R" "radius of the release point" "R" "m" s.R,
      p1 "Ta" "ambient temperature at the release point" "Ta" "K" s.Ta,
      p1 "Sa" "ambient salinity at the release point" "Sa" "psu" s.Sa,
      p1 "P" "ambient pressure at the release point" "P" "Pa" s.P,
      p1 "maxit" "maximum allowable number of iterations" "maxit" "nondimensional" s.maxit,
      p1 "toler" "relative error tolerance for convergence" "toler" "nondimensional" s.toler,
      p1 "delta_z" "maximum step size in output" "delta_z" "m" s.delta_z,
      vF2 "z" "depth below the water surface" "depth" "m" ["z", "profile"]
        ((List.range nz).map fun r => [s.zi[r]?, s.zo[r]?])
        (zAttrs ++ [("n_inner", .n (Int.ofNat nzi)), ("n_outer", .n (Int.ofNat nzo))]),
      vF2 "yi" "inner plume state space" "yi" "variable" ["z", "nsi"]
        (tabulate2 nz s.nsi fun r c => (s.yi[r]?).bind (·[c]?)) [("coordinate", .s "z")],
      vF2 "yo" "outer plume state space" "yo" "variable" ["z", "nso"]
        (tabulate2 nz s.nso fun r c => (s.yo[r]?).bind (·[c]?)) [("coordinate", .s "z")]] }

def saveSpm (h : Header) (s : Spm α) : Option (File α) :=
  (saveTable 1 s.chem_names s.particles s.K_T0).map fun tbl =>
    (header h).add ((spmOwn s).add (tbl.toFile 1))

def loadSpm (f : File α) : Spm α :=
  let ps := loadParticles f
  let nzi := f.vattrN "z" "n_inner"
  let nzo := f.vattrN "z" "n_outer"
  let nsi := f.dim "nsi"
  let nso := f.dim "nso"
  { particles := ps.1, chem_names := ps.2, K_T0 := ps.1.map (·.K_T),
    R := valF (at1 (f.f1 "R") 0), maxit := valF (at1 (f.f1 "maxit") 0),
    toler := valF (at1 (f.f1 "toler") 0), delta_z := valF (at1 (f.f1 "delta_z") 0),
    nsi := nsi, nso := nso,
    zi := (List.range nzi).map fun r => valF (at2 (f.f2 "z") r 0),
    zo := (List.range nzo).map fun r => valF (at2 (f.f2 "z") r 1),
    yi := tabulate2 nzi nsi fun r c => valF (at2 (f.f2 "yi") r c),
    yo := tabulate2 nzo nso fun r c => valF (at2 (f.f2 "yo") r c),
    Ta := valF (at1 (f.f1 "Ta") 0), Sa := valF (at1 (f.f1 "Sa") 0), P := valF (at1 (f.f1 "P") 0) }

/-! ## ambient.create_nc_db / fill_nc_db (first fill of an empty data base) / get_nc_data -/

/-- one column handed to `fill_nc_db`: symbol, units, comment, values -/
structure Col (α : Type) where
  name : String
  units : String
  comment : String
  vals : List α

structure ProfileDb (α : Type) where
  summary : String
  source : String
  sea_name : String
  lat : α
  lon : α
  time : α
  z : Col α                 -- var_symbols[z_col] must be 'z'
  cols : List (Col α)       -- the dependent variables in `var_symbols` order

def coordAttr : List (String × AttrVal α) := [("coordinates", .s "time lat lon z")]

/-- `' '.join(sym.split('_'))` -/
def stdName (sym : String) : String := " ".intercalate (sym.splitOn "_")
/-- Python `str.capitalize()` -/
def pyCapitalize (s : String) : String := s.toLower.capitalize

def minL (l : List α) : α := l.tail.foldl Num.min (l.headD 0)
def maxL (l : List α) : α := l.tail.foldl Num.max (l.headD 0)

/-- variables `create_nc_db` makes (time, lat, lon, z, temperature, salinity, pressure) -/
def createVars (p : ProfileDb α) : List (String × Var α) := [
  ("time", ⟨"f8", ["profile"], .f1 [some p.time],
     va "Time profile was collected" "time" "seconds since 1970-01-01 00:00:00 0:00" ++
     [("calendar", .s "julian"), ("axis", .s "T")]⟩),
  ("lat", ⟨"f8", ["profile"], .f1 [some p.lat],
     va "Latitude of the profile location" "latitude" "degrees_north" ++ [("axis", .s "Y")]⟩),
  ("lon", ⟨"f8", ["profile"], .f1 [some p.lon],
     va "Longitude of the profile location" "longitude" "degrees_east" ++ [("axis", .s "X")]⟩),
  ("z", ⟨"f8", ["z"], .f1 [],
     va "depth below the water surface" "depth" "m" ++ zAttrs ++
     [("valid_min", .f 0.0), ("valid_max", .f 12000.0)]⟩),
  ("temperature", ⟨"f8", ["z"], .f1 [], va "Absolute temperature" "temperature" "K" ++ coordAttr⟩),
  ("salinity", ⟨"f8", ["z"], .f1 [], va "Practical salinity" "salinity" "psu" ++ coordAttr⟩),
  ("pressure", ⟨"f8", ["z"], .f1 [], va "pressure" "pressure" "Pa" ++ coordAttr⟩)]

/-- replace / add one attribute, keeping creation order (`setncattr`) -/
def setAttr (as : List (String × AttrVal α)) (k : String) (v : AttrVal α) : List (String × AttrVal α) :=
  if as.any (·.1 == k) then as.map fun a => if a.1 == k then (k, v) else a else as ++ [(k, v)]

/-- change the values of an association list, keeping keys and order -/
def mapVal {β : Type} (l : List (String × β)) (g : String → β → β) : List (String × β) :=
  l.map fun e => (e.1, g e.1 e.2)

/-- `fill_nc_db_variable`: an existing variable must carry the same units (else ValueError),
    a new one is created on dimension `z`; then the comment is attached -/
def fillVar (vars : List (String × Var α)) (c : Col α) (long std : String) :
    Option (List (String × Var α)) :=
  match vars.lookup c.name with
  | some v =>
    match v.attrs.lookup "units" with
    | some (.s u) =>
      if u == c.units then
        some (mapVal vars fun k w => if k == c.name then
          { v with data := .f1 (c.vals.map some), attrs := setAttr v.attrs "comment" (.s c.comment) } else w)
      else none
    | _ => none
  | none =>
    some (vars ++ [(c.name, ⟨"f8", ["z"], .f1 (c.vals.map some),
      va long std c.units ++ coordAttr ++ [("comment", .s c.comment)]⟩)])

/-- `z.valid_min = np.min(z[:]); z.valid_max = np.max(z[:])` (l.2053-2054) -/
def setValid (vars : List (String × Var α)) (z : Col α) : List (String × Var α) :=
  mapVal vars fun k w => if k == z.name then
    { w with attrs := setAttr (setAttr w.attrs "valid_min" (.f (minL z.vals))) "valid_max" (.f (maxL z.vals)) }
  else w

/-- the dependent variables, in `var_symbols` order (l.2099-2111) -/
def fillCols (vars : List (String × Var α)) (cols : List (Col α)) : Option (List (String × Var α)) :=
  cols.foldlM (fun vs c => fillVar vs c (pyCapitalize (stdName c.name)) (stdName c.name)) vars

/-- `create_nc_db` followed by one `fill_nc_db` into the empty data base -/
def saveProfile (created modified : String) (p : ProfileDb α) : Option (File α) := do
  let title := "Profile created by TAMOC.ambient for use in the TAMOC modeling suite"
  let h : File α := header ⟨title, p.summary, p.source, created, modified⟩
  -- the z column first (l.2041-2054), then valid_min / valid_max
  let v1 ← fillVar (createVars p) p.z "" ""
  let vars ← fillCols (setValid v1 p.z) p.cols
  pure { attrs := h.attrs ++ [("sea_name", .s p.sea_name)],
         dims := [("z", p.z.vals.length), ("profile", 1)],
         vars := vars }

/-- `get_nc_data(nc, ztsp, chem_names)`: the depth column, then one column per requested
    name, with their `units` attributes -/
def loadProfile (f : File α) (ztsp chems : List String) : List (String × String × List α) :=
  (ztsp ++ chems).map fun n => (n, f.vattrS n "units", (f.f1 n).map valF)

end

/-! ## line protocol (α := Float) -/

section Codec
open TamocV.Proto

abbrev P := StateT (List Arg) Option

def pop : P Arg := fun s => match s with
  | a :: r => some (a, r)
  | [] => none
def pNat : P Nat := do match (← pop) with
  | .n k => pure k
  | _ => failure
def pBool : P Bool := do pure ((← pNat) != 0)
def pF : P Float := do match (← pop) with
  | .s x => pure x
  | _ => failure
def pV : P (List Float) := do match (← pop) with
  | .v x => pure x
  | _ => failure
def pT : P String := do match (← pop) with
  | .t x => pure x
  | _ => failure
def pInt : P Int := do match (← pT).toInt? with
  | some i => pure i
  | none => failure
def pMany {β : Type} (n : Nat) (p : P β) : P (List β) := (List.range n).mapM fun _ => p
/-- a matrix: rows, cols, flat data -/
def pM : P (List (List Float)) := do
  let r ← pNat
  let c ← pNat
  let v ← pV
  pure ((List.range r).map fun i => (v.drop (i * c)).take c)
/-- `~` stands for a blank inside a token -/
def unesc (s : String) : String := s.replace "~" " "
def esc (s : String) : String := if s.isEmpty then "~" else s.replace " " "~"
def pS : P String := do
  let s ← pT
  pure (if s == "~" then "" else unesc s)
def pNames : P (List String) := do pMany (← pNat) pT
def pOptF : P (Option Float) := do
  let b ← pBool
  let x ← pF
  pure (if b then some x else none)

def pUser : P (UserChem Float) := do
  let name ← pT
  let props ← pV
  let kb ← pOptF
  let tb ← pOptF
  let cp ← pOptF
  let cpt ← pOptF
  pure ⟨name, props, kb, tb, cp, cpt⟩

def pDbm : P (Dbm Float) := do
  if (← pBool) then
    let comp ← pNames
    let fp ← pInt
    let isair ← pBool
    let sigma ← pF
    let cd ← pInt
    let dg ← pM
    let delta ← pM
    let ud ← pMany (← pNat) pUser
    pure (.fluid ⟨comp, fp, isair, sigma, cd, dg, delta, ud⟩)
  else
    let isfluid ← pBool
    let iscomp ← pBool
    let rho ← pF
    let gamma ← pF
    let beta ← pF
    let co ← pF
    let kb ← pF
    let tb ← pF
    let fp ← pInt
    pure (.insol ⟨isfluid, iscomp, rho, gamma, beta, co, kb, tb, fp⟩)

def pParticle : P (Particle Float) := do
  let dbm ← pDbm
  let m0 ← pV
  let T0 ← pF
  let K ← pF
  let K_T ← pF
  let fdis ← pF
  let t_hyd ← pF
  let lag ← pBool
  let nb0 ← pF
  let lam ← pF
  let nbe ← pF
  let integ ← pBool
  let ss ← pBool
  let ff ← pBool
  let tp ← pF
  let xp ← pF
  let yp ← pF
  let zp ← pF
  let hasexit ← pBool
  let te ← pF
  let xe ← pF
  let ye ← pF
  let ze ← pF
  pure { dbm := dbm, m0 := m0, T0 := T0, K := K, K_T := K_T, fdis := fdis, t_hyd := t_hyd,
         lag_time := lag, nb0 := nb0, lambda_1 := lam, nbe := nbe, integrate := integ,
         sim_stored := ss, farfield := ff, tp := tp, xp := xp, yp := yp, zp := zp,
         exit := if hasexit then some (te, xe, ye, ze) else none }

def pParticles : P (List (Particle Float)) := do pMany (← pNat) pParticle

def pHeader : P Header := do
  let title ← pS
  let summary ← pS
  let source ← pS
  let created ← pS
  let modified ← pS
  pure ⟨title, summary, source, created, modified⟩

def pSbm : P (Sbm Float) := do
  let ps ← pParticles
  let comp ← pNames
  let kt0 ← pF
  let k0d ← pBool
  let dt ← pF
  let t ← pV
  let y ← pM
  match ps with
  | [p] => pure ⟨p, comp, kt0, k0d, dt, t, y⟩
  | _ => failure

def pBpm : P (Bpm Float) := do
  let X ← pV
  let D ← pF
  let Vj ← pF
  let phi ← pF
  let theta ← pF
  let Sj ← pF
  let Tj ← pF
  let cj ← pV
  let tracers ← pNames
  let chem ← pNames
  let ps ← pParticles
  let track ← pBool
  let dtm ← pF
  let sdm ← pF
  let kt0 ← pV
  let ns ← pNat
  let t ← pV
  let q ← pM
  let Ta ← pF
  let Sa ← pF
  let Pp ← pF
  pure ⟨X, D, Vj, phi, theta, Sj, Tj, cj, tracers, chem, ps, track, dtm, sdm, kt0, ns, t, q, Ta, Sa, Pp⟩

def pStates : P (List (PState Float)) := do
  pMany (← pNat) (do
    let i ← pBool
    let t ← pF
    let x ← pF
    let y ← pF
    let z ← pF
    pure ⟨i, t, x, y, z⟩)

def pSpm : P (Spm Float) := do
  let ps ← pParticles
  let chem ← pNames
  let kt0 ← pV
  let R ← pF
  let maxit ← pF
  let toler ← pF
  let dz ← pF
  let nsi ← pNat
  let nso ← pNat
  let zi ← pV
  let yi ← pM
  let zo ← pV
  let yo ← pM
  let Ta ← pF
  let Sa ← pF
  let Pp ← pF
  pure ⟨ps, chem, kt0, R, maxit, toler, dz, nsi, nso, zi, yi, zo, yo, Ta, Sa, Pp⟩

def pCol : P (Col Float) := do
  let n ← pS
  let u ← pS
  let c ← pS
  let v ← pV
  pure ⟨n, u, c, v⟩

def pProfile : P (ProfileDb Float) := do
  let summary ← pS
  let source ← pS
  let sea ← pS
  let lat ← pF
  let lon ← pF
  let time ← pF
  let z ← pCol
  let cols ← pMany (← pNat) pCol
  pure ⟨summary, source, sea, lat, lon, time, z, cols⟩

/-! encoders -/

def eB (b : Bool) : Arg := .n (if b then 1 else 0)
def eInt (i : Int) : Arg := .t (toString i)
def eNames (l : List String) : List Arg := .n l.length :: l.map .t
def eM (m : List (List Float)) : List Arg :=
  [.n m.length, .n ((m.headD []).length), .v m.flatten]
def eOptF (o : Option Float) : List Arg := [eB o.isSome, .s (o.getD 0)]

def eUser (u : UserChem Float) : List Arg :=
  [.t u.name, .v u.props] ++ eOptF u.k_bio ++ eOptF u.t_bio ++ eOptF u.C_pen ++ eOptF u.C_pen_T

def eDbm : Dbm Float → List Arg
  | .fluid f => [eB true] ++ eNames f.composition ++ [eInt f.fp_type, eB f.isair, .s f.sigma, eInt f.calc_delta]
      ++ eM f.delta_groups ++ eM f.delta ++ [.n f.user_data.length] ++ (f.user_data.map eUser).flatten
  | .insol i => [eB false, eB i.isfluid, eB i.iscompressible, .s i.rho_p, .s i.gamma, .s i.beta, .s i.co,
      .s i.k_bio, .s i.t_bio, eInt i.fp_type]

def eParticle (p : Particle Float) : List Arg :=
  let e := p.exit.getD (0, 0, 0, 0)
  eDbm p.dbm ++ [.v p.m0, .s p.T0, .s p.K, .s p.K_T, .s p.fdis, .s p.t_hyd, eB p.lag_time,
    .s p.nb0, .s p.lambda_1, .s p.nbe, eB p.integrate, eB p.sim_stored, eB p.farfield,
    .s p.tp, .s p.xp, .s p.yp, .s p.zp, eB p.exit.isSome, .s e.1, .s e.2.1, .s e.2.2.1, .s e.2.2.2]

def eParticles (ps : List (Particle Float)) : List Arg := .n ps.length :: (ps.map eParticle).flatten

def eSbm (s : Sbm Float) : List Arg :=
  eParticles [s.particle] ++ eNames s.composition ++ [.s s.K_T0, eB s.K_T0_0d, .s s.delta_t, .v s.t] ++ eM s.y

def eBpm (s : Bpm Float) : List Arg :=
  [.v s.X, .s s.D, .s s.Vj, .s s.phi_0, .s s.theta_0, .s s.Sj, .s s.Tj, .v s.cj] ++ eNames s.tracers
  ++ eNames s.chem_names ++ eParticles s.particles ++ [eB s.track, .s s.dt_max, .s s.sd_max, .v s.K_T0,
  .n s.ns, .v s.t] ++ eM s.q ++ [.s s.Ta, .s s.Sa, .s s.P]

def eSpm (s : Spm Float) : List Arg :=
  eParticles s.particles ++ eNames s.chem_names ++ [.v s.K_T0, .s s.R, .s s.maxit, .s s.toler, .s s.delta_z,
  .n s.nsi, .n s.nso, .v s.zi] ++ eM s.yi ++ [.v s.zo] ++ eM s.yo ++ [.s s.Ta, .s s.Sa, .s s.P]

def eAttr : String × AttrVal Float → List Arg
  | (k, .s v) => [.t (esc k), .t "s", .t (esc v)]
  | (k, .names l) => [.t (esc k), .t "s", .t (esc (" ".intercalate l))]
  | (k, .n i) => [.t (esc k), .t "n", eInt i]
  | (k, .f x) => [.t (esc k), .t "f", .s x]

def eCellsF (l : List (Cell Float)) : List Arg :=
  [.v (l.map fun c => c.getD 0), .v (l.map fun c => if c.isSome then 1 else 0)]
def eCellsI (l : List (Cell Int)) : List Arg :=
  [.v (l.map fun c => Float.ofInt (c.getD 0)), .v (l.map fun c => if c.isSome then 1 else 0)]

def eArr : Arr Float → List Arg
  | .i1 l => [.n 1, .n l.length] ++ eCellsI l
  | .f1 l => [.n 1, .n l.length] ++ eCellsF l
  | .f2 l => [.n 2, .n l.length, .n ((l.headD []).length)] ++ eCellsF l.flatten
  | .f3 l => [.n 3, .n l.length, .n ((l.headD []).length), .n (((l.headD []).headD []).length)]
             ++ eCellsF (l.flatten.flatten)

def eVar (v : String × Var Float) : List Arg :=
  [.t (esc v.1), .t v.2.dtype] ++ eNames v.2.dims ++ [.n v.2.attrs.length] ++ (v.2.attrs.map eAttr).flatten
  ++ eArr v.2.data

def eFile (f : File Float) : List Arg :=
  [.n f.attrs.length] ++ (f.attrs.map eAttr).flatten ++
  [.n f.dims.length] ++ (f.dims.map fun d => [Arg.t d.1, Arg.n d.2]).flatten ++
  [.n f.vars.length] ++ (f.vars.map eVar).flatten

def eOptFile : Option (File Float) → List Arg
  | some f => .t "ok" :: eFile f
  | none => [.t "raises"]

def run1 {β : Type} (p : P β) (args : List Arg) (k : β → List Arg) : Option (List Arg) :=
  match p args with
  | some (x, []) => some (k x)
  | _ => none

/--
  SaveLoad.<model>.save   header record   → the file the model's writer produces
  SaveLoad.<model>.load   header record   → load (save record), as a record
  SaveLoad.<model>.resave header record   → save (load (save record))
-/
def dispatch : Dispatch := fun name args =>
  match name with
  | "SaveLoad.particles.save" =>
    run1 (do let pt ← pNat; let chem ← pNames; let ps ← pParticles; let k ← pV; let ta ← pF; pure (pt, chem, ps, k, ta)) args
      fun (pt, chem, ps, k, _) => eOptFile ((saveTable pt chem ps k).map (Table.toFile pt))
  | "SaveLoad.particles.load" =>
    run1 (do let pt ← pNat; let chem ← pNames; let ps ← pParticles; let k ← pV; let ta ← pF; pure (pt, chem, ps, k, ta)) args
      fun (pt, chem, ps, k, ta) => match (saveTable pt chem ps k).map (Table.toFile pt) with
        | some f => let r := loadParticles ((taFile ta).add f); [.t "ok"] ++ eParticles r.1 ++ eNames r.2
        | none => [.t "raises"]
  | "SaveLoad.particles.resave" =>
    run1 (do let pt ← pNat; let chem ← pNames; let ps ← pParticles; let k ← pV; let ta ← pF; pure (pt, chem, ps, k, ta)) args
      fun (pt, chem, ps, k, ta) => match (saveTable pt chem ps k).map (Table.toFile pt) with
        | some f => let r := loadParticles ((taFile ta).add f)
                    eOptFile ((saveTable pt r.2 r.1 (r.1.map (·.K_T))).map (Table.toFile pt))
        | none => [.t "raises"]
  | "SaveLoad.sbm.save" => run1 (do let h ← pHeader; let s ← pSbm; pure (h, s)) args
      fun (h, s) => eOptFile (saveSbm h s)
  | "SaveLoad.sbm.load" => run1 (do let h ← pHeader; let s ← pSbm; pure (h, s)) args
      fun (h, s) => match saveSbm h s with
        | some f => .t "ok" :: eSbm (loadSbm f)
        | none => [.t "raises"]
  | "SaveLoad.sbm.resave" => run1 (do let h ← pHeader; let s ← pSbm; pure (h, s)) args
      fun (h, s) => match saveSbm h s with
        | some f => eOptFile (saveSbm h (loadSbm f))
        | none => [.t "raises"]
  | "SaveLoad.bpm.save" => run1 (do let h ← pHeader; let s ← pBpm; pure (h, s)) args
      fun (h, s) => eOptFile (saveBpm h s)
  | "SaveLoad.bpm.load" => run1 (do let h ← pHeader; let s ← pBpm; let st ← pStates; pure (h, s, st)) args
      fun (h, s, st) => match saveBpm h s with
        | some f => .t "ok" :: eBpm (loadBpm st f)
        | none => [.t "raises"]
  | "SaveLoad.bpm.resave" => run1 (do let h ← pHeader; let s ← pBpm; let st ← pStates; pure (h, s, st)) args
      fun (h, s, st) => match saveBpm h s with
        | some f => eOptFile (saveBpm h (loadBpm st f))
        | none => [.t "raises"]
  | "SaveLoad.spm.save" => run1 (do let h ← pHeader; let s ← pSpm; pure (h, s)) args
      fun (h, s) => eOptFile (saveSpm h s)
  | "SaveLoad.spm.load" => run1 (do let h ← pHeader; let s ← pSpm; pure (h, s)) args
      fun (h, s) => match saveSpm h s with
        | some f => .t "ok" :: eSpm (loadSpm f)
        | none => [.t "raises"]
  | "SaveLoad.spm.resave" => run1 (do let h ← pHeader; let s ← pSpm; pure (h, s)) args
      fun (h, s) => match saveSpm h s with
        | some f => eOptFile (saveSpm h (loadSpm f))
        | none => [.t "raises"]
  | "SaveLoad.profile.save" =>
    run1 (do let c ← pS; let m ← pS; let p ← pProfile; pure (c, m, p)) args
      fun (c, m, p) => eOptFile (saveProfile c m p)
  | "SaveLoad.profile.load" =>
    run1 (do let c ← pS; let m ← pS; let p ← pProfile; let zt ← pNames; let ch ← pNames; pure (c, m, p, zt, ch)) args
      fun (c, m, p, zt, ch) => match saveProfile c m p with
        | some f => .t "ok" :: ((loadProfile f zt ch).map fun (n, u, v) => [Arg.t (esc n), Arg.t (esc u), Arg.v v]).flatten
        | none => [.t "raises"]
  | _ => none

end Codec

end TamocV.Model.SaveLoad
