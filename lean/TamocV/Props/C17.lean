/-
  C17 — Particle behaviour switches and definitional densities hold.
  Property theorems only (over ℝ, every input / list length / call history), about the executable
  model `TamocV.Model.Particle17` (hand transcription of dispersed_phases.SingleParticle.properties,
  PlumeParticle.update, dbm.InsolubleParticle.density, the two biodegradation_rate methods; tied to
  /repo by oracle-table correspondence over call histories, harness/c17.py).

  The library answer `lib : Lib ℝ` (what `return_all` returned) and `rhoAmb` (`seawater.density`)
  are universally quantified: every statement holds whatever the equations of state return.
  LABELS.  [T-def] marks a theorem that merely restates a branch of the model's definition at ℝ (it
  pins the transcription; its force comes entirely from the correspondence that ties the model to
  /repo).  Unlabelled theorems are compositional: they need induction over lists / call histories or
  real-number reasoning beyond unfolding (cut-off by index, absorbing flag over any history, density
  ratios, sum of cut coefficients, the falsity witness).
  NOT proved here (sampled by the harness only): finiteness / non-negativity of the library's
  outputs — they are properties of the equations of state, not of the wrapper.
-/
import TamocV.Real
import TamocV.Lemmas.Basic
import TamocV.Lemmas.C17
import TamocV.Model.Particle17
import Mathlib.Tactic.Ring
import Mathlib.Tactic.NormNum
import Mathlib.Tactic.FieldSimp
import Mathlib.Tactic.Linarith

namespace TamocV.Props.C17
open TamocV TamocV.Model.Particle17 TamocV.Lemmas.C17

-- a concrete soluble two-compound particle used by the non-vacuity examples
private noncomputable def exPar : Params ℝ :=
  { soluble := true, K := 2, fdis := 0.001, tHyd := 100, m0 := [1, 0], nc := 2, lag := true,
    kbio := [0.5, 0.25], tbio := [10, 20] }
private noncomputable def exLib : Lib ℝ :=
  { rhoP := 200, us := 0.2, A := 0.01, Cs := [3, 4], beta := [0.5, 0.25], betaT := 0.125 }

-- ===================================================================== scaling by K and K_T

/-- [T-def] Mass-transfer coefficients returned are EXACTLY `K ·` the (cut-off) library coefficients and the
    heat-transfer coefficient EXACTLY `K_T ·` the library one (`K_T` = the flag after the switch
    test of this call), soluble particle. -/
theorem scaling_exact (par : Params ℝ) (KT : ℝ) (x : Inp ℝ) (lib : Lib ℝ) (rhoAmb : ℝ)
    (hs : par.soluble = true) :
    (properties par KT x lib rhoAmb).2.beta
        = (betaCut par (query par KT x).2.m lib).map (fun b => par.K * b) ∧
    (properties par KT x lib rhoAmb).2.betaT = (properties par KT x lib rhoAmb).1 * lib.betaT := by
  simp [properties, hs, Num.smul]

/-- [T-def] Insoluble particle: no mass transfer at all (empty `Cs`, `beta`), heat transfer scaled by `K_T`. -/
theorem scaling_exact_insoluble (par : Params ℝ) (KT : ℝ) (x : Inp ℝ) (lib : Lib ℝ) (rhoAmb : ℝ)
    (hs : par.soluble = false) :
    (properties par KT x lib rhoAmb).2.beta = [] ∧ (properties par KT x lib rhoAmb).2.Cs = [] ∧
    (properties par KT x lib rhoAmb).2.betaT = (properties par KT x lib rhoAmb).1 * lib.betaT ∧
    (properties par KT x lib rhoAmb).2.us = lib.us ∧ (properties par KT x lib rhoAmb).2.rhoP = lib.rhoP := by
  simp [properties, hs]

/-- [T-def] Component-wise form: where the cut-off does not fire the returned coefficient is `K · β_i`. -/
theorem scaling_exact_component (par : Params ℝ) (KT : ℝ) (x : Inp ℝ) (lib : Lib ℝ) (rhoAmb : ℝ)
    (hs : par.soluble = true) (i : Nat) (b : ℝ)
    (hb : (betaCut par (query par KT x).2.m lib)[i]? = some b) :
    (properties par KT x lib rhoAmb).2.beta[i]? = some (par.K * b) := by
  rw [(scaling_exact par KT x lib rhoAmb hs).1]
  simp [hb]

example : (properties exPar 1 { m := [0.5, 0], T := 300, P := 1, Sa := 35, Ta := 280, t := 0 } exLib 1000).2.beta
    = [2 * 0.5, 2 * 0.25] := by
  simp [properties, exPar, exLib, query, betaCut, fracDiss, cutoff, clip, Num.smul, neutral, pick]
  norm_num

-- ===================================================================== status from t_hyd

/-- [T-def] The library is asked for clean-interface correlations (`status = 1`) iff `t < t_hyd`,
    for dirty ones (`status = -1`) otherwise. -/
theorem status_from_t_hyd (par : Params ℝ) (KT : ℝ) (x : Inp ℝ) :
    (query par KT x).2.clean = true ↔ x.t < par.tHyd := by
  simp [query, isClean]

example : (query exPar 1 { m := [0.5, 0], T := 300, P := 1, Sa := 35, Ta := 280, t := 99 }).2.clean = true := by
  rw [status_from_t_hyd]; simp [exPar]; norm_num
example : (query exPar 1 { m := [0.5, 0], T := 300, P := 1, Sa := 35, Ta := 280, t := 100 }).2.clean = false := by
  rw [Bool.eq_false_iff, Ne, status_from_t_hyd]; simp [exPar]

-- ===================================================================== per-component cut-off

/-- On a RELEASED component (`m0_i > 0`) the coefficient after the cut-off is 0 when
    `m_i / m0_i < fdis` and the library value otherwise (`m` = the clipped masses). -/
theorem cutoff_released (par : Params ℝ) (mq : List ℝ) (lib : Lib ℝ) (i : Nat)
    (hm : i < mq.length) (h0 : i < par.m0.length) (hb : i < lib.beta.length)
    (hrel : 0 < par.m0.getD i 0) :
    (betaCut par mq lib).getD i 0 =
      if mq.getD i 0 / par.m0.getD i 0 < par.fdis then 0 else lib.beta.getD i 0 := by
  unfold betaCut
  rw [cutoff_getD _ _ _ i (by rw [fracDiss_length]; exact lt_min hm h0) hb,
    fracDiss_getD _ _ i hm h0, if_pos hrel]

/-- `β_i` is set to zero IFF the remaining fraction is below `fdis` (released component with a
    non-zero library coefficient). -/
theorem cutoff_iff (par : Params ℝ) (mq : List ℝ) (lib : Lib ℝ) (i : Nat)
    (hm : i < mq.length) (h0 : i < par.m0.length) (hb : i < lib.beta.length)
    (hrel : 0 < par.m0.getD i 0) (hpos : lib.beta.getD i 0 ≠ 0) :
    (betaCut par mq lib).getD i 0 = 0 ↔ mq.getD i 0 / par.m0.getD i 0 < par.fdis := by
  rw [cutoff_released par mq lib i hm h0 hb hrel]
  constructor
  · intro h
    by_contra hn
    rw [if_neg hn] at h
    exact hpos h
  · intro h; rw [if_pos h]

/-- On an UNRELEASED component (`m0_i ≤ 0`, `diss_indices` false) the coefficient is untouched
    (for every threshold `fdis ≤ 1`; the code compares the constant 1 with `fdis`). -/
theorem cutoff_unreleased_untouched (par : Params ℝ) (mq : List ℝ) (lib : Lib ℝ) (i : Nat)
    (hm : i < mq.length) (h0 : i < par.m0.length) (hb : i < lib.beta.length)
    (hunrel : ¬ 0 < par.m0.getD i 0) (hf : par.fdis ≤ 1) :
    (betaCut par mq lib).getD i 0 = lib.beta.getD i 0 := by
  unfold betaCut
  rw [cutoff_getD _ _ _ i (by rw [fracDiss_length]; exact lt_min hm h0) hb,
    fracDiss_getD _ _ i hm h0, if_neg hunrel, if_neg (not_lt.mpr hf)]

/-- The vector keeps its length. -/
theorem cutoff_length_eq (par : Params ℝ) (mq : List ℝ) (lib : Lib ℝ)
    (h1 : mq.length = par.m0.length) (h2 : lib.beta.length = par.m0.length) :
    (betaCut par mq lib).length = par.m0.length := by
  unfold betaCut
  rw [cutoff_length, fracDiss_length, h1, h2]; simp

/-- Negative solver overshoots are clipped to zero before anything else is computed from them. -/
theorem clipped_masses_nonneg (par : Params ℝ) (KT : ℝ) (x : Inp ℝ) (hs : par.soluble = true) :
    ∀ v ∈ (query par KT x).2.m, 0 ≤ v := by
  simp only [query, hs, if_true]
  exact clip_nonneg x.m

example : (betaCut exPar [0.0005, 0] exLib).getD 0 0 = 0 := by
  rw [cutoff_iff exPar _ exLib 0 (by simp) (by simp [exPar]) (by simp [exLib]) (by simp [exPar])
    (by simp [exLib]; norm_num)]
  simp [exPar]; norm_num
example : (betaCut exPar [0.0005, 0] exLib).getD 1 0 = 0.25 := by
  rw [cutoff_unreleased_untouched exPar _ exLib 1 (by simp) (by simp [exPar]) (by simp [exLib])
    (by simp [exPar]) (by simp [exPar]; norm_num)]
  simp [exLib]

-- ===================================================================== dissolved-particle neutralisation

/-- [T-def] the code's condition at ℝ: released coefficients sum to zero and the released masses outweigh
    the unreleased ones -/
theorem neutral_iff (par : Params ℝ) (mq : List ℝ) (lib : Lib ℝ) :
    neutral par mq lib ↔
      (pick true par.m0 (betaCut par mq lib)).sum = 0 ∧
      (pick false par.m0 mq).sum < (pick true par.m0 mq).sum := by
  simp only [neutral, isZero_real, Num.real_sum]

/-- [T-def] EXACTLY under the code's condition a soluble particle reports zero slip velocity and the
    ambient density; otherwise the library values pass through unchanged.
    (The statement "…once all released components are dissolved" at full strength is FALSE of model
    and code — see `dissolved_neutral_full_fails`; `dissolved_neutral_partial` is what holds.) -/
theorem dissolved_neutral (par : Params ℝ) (KT : ℝ) (x : Inp ℝ) (lib : Lib ℝ) (rhoAmb : ℝ)
    (hs : par.soluble = true) :
    (neutral par (query par KT x).2.m lib →
        (properties par KT x lib rhoAmb).2.us = 0 ∧ (properties par KT x lib rhoAmb).2.rhoP = rhoAmb) ∧
    (¬ neutral par (query par KT x).2.m lib →
        (properties par KT x lib rhoAmb).2.us = lib.us ∧
        (properties par KT x lib rhoAmb).2.rhoP = lib.rhoP) := by
  constructor
  · intro h; simp [properties, hs, h, Num.real_zero]
  · intro h; simp [properties, hs, h]

/-- When every released component is below its threshold the first half of the condition holds:
    the released coefficients sum to exactly zero. -/
theorem all_released_dissolved_sum_zero (par : Params ℝ) (mq : List ℝ) (lib : Lib ℝ)
    (h : ∀ i, i < mq.length → i < par.m0.length → 0 < par.m0.getD i 0 →
      mq.getD i 0 / par.m0.getD i 0 < par.fdis) :
    (pick true par.m0 (betaCut par mq lib)).sum = 0 :=
  pick_cutoff_sum_zero par.fdis mq par.m0 lib.beta h

/-- PARTIAL form of "zero slip and neutral density once all released components are dissolved":
    it holds when, in addition, the released masses outweigh the unreleased ones. -/
theorem dissolved_neutral_partial (par : Params ℝ) (KT : ℝ) (x : Inp ℝ) (lib : Lib ℝ) (rhoAmb : ℝ)
    (hs : par.soluble = true)
    (hcut : ∀ i, i < (query par KT x).2.m.length → i < par.m0.length → 0 < par.m0.getD i 0 →
      (query par KT x).2.m.getD i 0 / par.m0.getD i 0 < par.fdis)
    (hdom : (pick false par.m0 (query par KT x).2.m).sum < (pick true par.m0 (query par KT x).2.m).sum) :
    (properties par KT x lib rhoAmb).2.us = 0 ∧ (properties par KT x lib rhoAmb).2.rhoP = rhoAmb :=
  (dissolved_neutral par KT x lib rhoAmb hs).1
    ((neutral_iff par _ lib).mpr ⟨all_released_dissolved_sum_zero par _ lib hcut, hdom⟩)

/-- The FULL-strength statement is FALSE of model and code: a fully dissolved particle (every mass
    zero after clipping) is never neutralised — `0 > 0` fails at l.241 — so whatever the library
    returns for a zero-mass particle (NaN in the real code) is passed on. -/
theorem zero_mass_not_neutral (par : Params ℝ) (mq : List ℝ) (lib : Lib ℝ) (h : ∀ v ∈ mq, v = 0) :
    ¬ neutral par mq lib := by
  rw [neutral_iff]
  rintro ⟨_, hlt⟩
  rw [sum_zero_of_all_zero _ (fun v hv => h v (pick_mem _ _ _ v hv)),
    sum_zero_of_all_zero _ (fun v hv => h v (pick_mem _ _ _ v hv))] at hlt
  exact lt_irrefl _ hlt

private noncomputable def wPar : Params ℝ :=
  { soluble := true, K := 1, fdis := 0.001, tHyd := 0, m0 := [1], nc := 1, lag := false,
    kbio := [0], tbio := [0] }
private noncomputable def wInp : Inp ℝ :=
  { m := [-1e-15], T := 300, P := 1e7, Sa := 35, Ta := 280, t := 0 }
private noncomputable def wLib : Lib ℝ :=
  { rhoP := 100, us := 0.2, A := 0.01, Cs := [1], beta := [0.001], betaT := 0.01 }

private theorem wQuery : (query wPar 1 wInp).2.m = [0] := by
  simp [query, clip, Num.real_zero, wPar, wInp]; norm_num

/-- concrete witness: all released components are below the threshold (a slightly negative overshoot,
    clipped to 0), yet slip velocity and density are the library's, not 0 / ambient -/
theorem dissolved_neutral_full_fails :
    ∃ (par : Params ℝ) (KT : ℝ) (x : Inp ℝ) (lib : Lib ℝ) (rhoAmb : ℝ), par.soluble = true ∧
      (∀ i, i < (query par KT x).2.m.length → i < par.m0.length → 0 < par.m0.getD i 0 →
        (query par KT x).2.m.getD i 0 / par.m0.getD i 0 < par.fdis) ∧
      (properties par KT x lib rhoAmb).2.us = lib.us ∧ lib.us ≠ 0 ∧
      (properties par KT x lib rhoAmb).2.rhoP = lib.rhoP ∧ lib.rhoP ≠ rhoAmb := by
  refine ⟨wPar, 1, wInp, wLib, 1030, rfl, ?_, ?_⟩
  · intro i hi _ _
    rw [wQuery] at hi ⊢
    have : i = 0 := by simpa using hi
    subst this
    simp [wPar]; norm_num
  · have hn : ¬ neutral wPar (query wPar 1 wInp).2.m wLib := by
      rw [wQuery]; exact zero_mass_not_neutral wPar [0] wLib (by simp)
    obtain ⟨h1, h2⟩ := (dissolved_neutral wPar 1 wInp wLib 1030 rfl).2 hn
    refine ⟨h1, ?_, h2, ?_⟩ <;> simp [wLib] <;> norm_num

/-- [T-def] Area, solubilities and the temperature are never altered by the neutralisation. -/
theorem neutral_leaves_rest (par : Params ℝ) (KT : ℝ) (x : Inp ℝ) (lib : Lib ℝ) (rhoAmb : ℝ)
    (hs : par.soluble = true) :
    (properties par KT x lib rhoAmb).2.A = lib.A ∧ (properties par KT x lib rhoAmb).2.Cs = lib.Cs := by
  simp [properties, hs]

example : neutral exPar [0.0005, 0] exLib := by
  rw [neutral_iff]
  simp [exPar, exLib, betaCut, fracDiss, cutoff, pick]
  norm_num

-- ===================================================================== the persistent flag K_T

/-- [T-def] One call switches the flag EXACTLY when `K_T > 0 ∧ |Ta − T| < 0.5`; otherwise it is unchanged. -/
theorem K_T_switch_iff (par : Params ℝ) (KT : ℝ) (x : Inp ℝ) (lib : Lib ℝ) (rhoAmb : ℝ) :
    (properties par KT x lib rhoAmb).1 = if 0 < KT ∧ |x.Ta - x.T| < 0.5 then 0 else KT := by
  have : (properties par KT x lib rhoAmb).1 = switchKT KT x.Ta x.T := by
    unfold properties; split <;> simp [query]
  rw [this, switchKT_real]

/-- … in particular the new flag is 0 iff it was 0 or the switch fired. -/
theorem K_T_zero_iff (par : Params ℝ) (KT : ℝ) (x : Inp ℝ) (lib : Lib ℝ) (rhoAmb : ℝ) :
    (properties par KT x lib rhoAmb).1 = 0 ↔ KT = 0 ∨ (0 < KT ∧ |x.Ta - x.T| < 0.5) := by
  rw [K_T_switch_iff]
  constructor
  · intro h
    by_cases hc : 0 < KT ∧ |x.Ta - x.T| < 0.5
    · exact Or.inr hc
    · rw [if_neg hc] at h; exact Or.inl h
  · rintro (h | h)
    · subst h; split <;> rfl
    · rw [if_pos h]

/-- When the flag is 0 after the switch test, the temperature handed to the library AND the
    temperature returned are the ambient temperature; otherwise both are the caller's `T`. -/
theorem K_T_zero_uses_Ta (par : Params ℝ) (KT : ℝ) (x : Inp ℝ) (lib : Lib ℝ) (rhoAmb : ℝ) :
    ((properties par KT x lib rhoAmb).1 = 0 →
        (query par KT x).2.T = x.Ta ∧ (properties par KT x lib rhoAmb).2.T = x.Ta) ∧
    ((properties par KT x lib rhoAmb).1 ≠ 0 →
        (query par KT x).2.T = x.T ∧ (properties par KT x lib rhoAmb).2.T = x.T) := by
  have h1 : (properties par KT x lib rhoAmb).1 = switchKT KT x.Ta x.T := by
    unfold properties; split <;> simp [query]
  have h2 : (properties par KT x lib rhoAmb).2.T = (query par KT x).2.T := by
    unfold properties; split <;> rfl
  have h3 : (query par KT x).2.T = useT (switchKT KT x.Ta x.T) x.T x.Ta := by simp [query]
  rw [h1, h2, h3, useT_real]
  constructor
  · intro h; rw [if_pos h]; exact ⟨rfl, rfl⟩
  · intro h; rw [if_neg h]; exact ⟨rfl, rfl⟩

/-- and then the heat-transfer coefficient returned is exactly zero -/
theorem K_T_zero_no_heat_transfer (par : Params ℝ) (KT : ℝ) (x : Inp ℝ) (lib : Lib ℝ) (rhoAmb : ℝ)
    (h : (properties par KT x lib rhoAmb).1 = 0) : (properties par KT x lib rhoAmb).2.betaT = 0 := by
  have : (properties par KT x lib rhoAmb).2.betaT = (properties par KT x lib rhoAmb).1 * lib.betaT := by
    unfold properties; split <;> rfl
  rw [this, h, zero_mul]

/-- any single call (properties or update, shortcut or not) maps flag 0 to flag 0 -/
theorem stepCall_zero (par : Params ℝ) (c : Call ℝ) : (stepCall par 0 c).1 = 0 := by
  have hp : ∀ x lib r, (properties par 0 x lib r).1 = 0 := by
    intro x lib r; rw [K_T_zero_iff]; exact Or.inl rfl
  unfold stepCall update
  split
  · split
    · exact hp _ _ _
    · rfl
  · exact hp _ _ _

/-- any single call leaves the flag unchanged or sets it to 0 — it is never set to anything else -/
theorem stepCall_same_or_zero (par : Params ℝ) (KT : ℝ) (c : Call ℝ) :
    (stepCall par KT c).1 = KT ∨ (stepCall par KT c).1 = 0 := by
  have hp : ∀ x lib r, (properties par KT x lib r).1 = KT ∨ (properties par KT x lib r).1 = 0 := by
    intro x lib r; rw [K_T_switch_iff]; split
    · exact Or.inr rfl
    · exact Or.inl rfl
  unfold stepCall update
  split
  · split
    · exact hp _ _ _
    · exact Or.inl rfl
  · exact hp _ _ _

/-- K_T is ABSORBING over any call history: started at 0, every later value is 0. -/
theorem K_T_absorbing_from_zero (par : Params ℝ) (cs : List (Call ℝ)) :
    ∀ k ∈ ktTrace par 0 cs, k = 0 := by
  induction cs with
  | nil => simp [ktTrace, run]
  | cons c cs ih =>
    intro k hk
    simp only [ktTrace, run, List.map_cons, List.mem_cons] at hk
    rcases hk with h | h
    · rw [h]; exact stepCall_zero par c
    · rw [stepCall_zero par c] at h
      exact ih k h

/-- K_T is ABSORBING over ANY call history (any mixture of `properties` and `update` calls, any
    library answers): once the trace shows 0 after call `i` it shows 0 after every later call `j`. -/
theorem K_T_absorbing (par : Params ℝ) (KT : ℝ) (cs : List (Call ℝ)) (i j : Nat) (hij : i ≤ j)
    (hj : j < (ktTrace par KT cs).length) (hi : (ktTrace par KT cs).getD i 1 = 0) :
    (ktTrace par KT cs).getD j 1 = 0 := by
  induction cs generalizing KT i j with
  | nil => simp [ktTrace, run] at hj
  | cons c cs ih =>
    cases j with
    | zero =>
      have : i = 0 := Nat.le_zero.mp hij
      subst this; exact hi
    | succ j' =>
      have hlen : j' < (ktTrace par (stepCall par KT c).1 cs).length := by
        simpa [ktTrace, run] using hj
      cases i with
      | zero =>
        have h0 : (stepCall par KT c).1 = 0 := by simpa [ktTrace, run] using hi
        have hall := K_T_absorbing_from_zero par cs
        have hmem : (ktTrace par 0 cs).getD j' 1 ∈ ktTrace par 0 cs := by
          rw [h0] at hlen
          rw [← List.getElem_eq_getD (h := hlen) 1]
          exact List.getElem_mem hlen
        have := hall _ hmem
        simpa [ktTrace, run, h0] using this
      | succ i' =>
        have hi' : (ktTrace par (stepCall par KT c).1 cs).getD i' 1 = 0 := by
          simpa [ktTrace, run] using hi
        have := ih (stepCall par KT c).1 i' j' (Nat.le_of_succ_le_succ hij) hlen hi'
        simpa [ktTrace, run] using this

/-- the trace is as long as the history (one value per call) -/
theorem ktTrace_length (par : Params ℝ) (KT : ℝ) (cs : List (Call ℝ)) :
    (ktTrace par KT cs).length = cs.length := by
  induction cs generalizing KT with
  | nil => simp [ktTrace, run]
  | cons c cs ih =>
    have := ih (stepCall par KT c).1
    simp only [ktTrace, run, List.map_cons, List.length_cons] at this ⊢
    rw [this]

/-- every value in the trace is the initial factor or 0 (the flag is never set to anything else) -/
theorem K_T_trace_values (par : Params ℝ) (KT : ℝ) (cs : List (Call ℝ)) :
    ∀ k ∈ ktTrace par KT cs, k = KT ∨ k = 0 := by
  induction cs generalizing KT with
  | nil => simp [ktTrace, run]
  | cons c cs ih =>
    intro k hk
    simp only [ktTrace, run, List.map_cons, List.mem_cons] at hk
    rcases hk with h | h
    · rw [h]; exact stepCall_same_or_zero par KT c
    · rcases stepCall_same_or_zero par KT c with e | e
      · rw [e] at h; exact ih KT k h
      · rw [e] at h; exact Or.inr (K_T_absorbing_from_zero par cs k h)

example : ktTrace exPar 3
    [⟨false, { m := [0.5, 0], T := 300, P := 1, Sa := 35, Ta := 280, t := 0 }, exLib, 1000⟩,
     ⟨false, { m := [0.5, 0], T := 280.25, P := 1, Sa := 35, Ta := 280, t := 0 }, exLib, 1000⟩,
     ⟨false, { m := [0.5, 0], T := 300, P := 1, Sa := 35, Ta := 280, t := 0 }, exLib, 1000⟩] = [3, 0, 0] := by
  simp only [ktTrace, run, stepCall, List.map, K_T_switch_iff]
  norm_num [abs_lt]

-- ===================================================================== zero-mass shortcut

/-- [T-def] `PlumeParticle.update` with non-positive total mass: zero slip, ambient density, zero area,
    zero solubilities and coefficients (one per component), ambient temperature, zero
    biodegradation rates, flag untouched, library not consulted (`lib` is arbitrary). -/
theorem zero_mass_shortcut (par : Params ℝ) (KT : ℝ) (x : Inp ℝ) (lib : Lib ℝ) (rhoAmb : ℝ)
    (h : x.m.sum ≤ 0) :
    update par KT x lib rhoAmb =
      (KT, { us := 0, rhoP := rhoAmb, A := 0, Cs := List.replicate par.nc 0,
             beta := List.replicate par.nc 0, betaT := 0, T := x.Ta }, List.replicate par.nc 0) := by
  have hn : ¬ (0 : ℝ) < Num.sum x.m := by rw [Num.real_sum]; exact not_lt.mpr h
  simp only [update, Num.real_zero] at hn ⊢
  rw [if_neg hn]
  simp [zeros, Num.real_zero]

/-- [T-def] … and with positive total mass `update` is `properties` plus the biodegradation rates. -/
theorem update_positive_mass (par : Params ℝ) (KT : ℝ) (x : Inp ℝ) (lib : Lib ℝ) (rhoAmb : ℝ)
    (h : 0 < x.m.sum) :
    update par KT x lib rhoAmb =
      ((properties par KT x lib rhoAmb).1, (properties par KT x lib rhoAmb).2,
       bioRate par.lag par.kbio par.tbio x.t) := by
  have hp : (0 : ℝ) < Num.sum x.m := by rw [Num.real_sum]; exact h
  simp only [update, Num.real_zero] at hp ⊢
  rw [if_pos hp]

example : (update exPar 1 { m := [0, 0], T := 300, P := 1, Sa := 35, Ta := 280, t := 0 } exLib 1027).2.1.rhoP = 1027 := by
  rw [zero_mass_shortcut _ _ _ _ _ (by simp)]

-- ===================================================================== InsolubleParticle.density

/-- At standard conditions (60 °F, 1 atm) the density is the API-gravity definition
    `141.5 / (γ + 131.5) · ρ_water(60 °F, 1 atm)`. -/
theorem api_density_std (rhoConst gamma beta co rhoStp : ℝ) :
    density true rhoConst gamma beta co rhoStp Tstp Pstp = 141.5 / (gamma + 131.5) * rhoStp := by
  simp only [density, Num.real_ofSci, Num.real_one, Num.real_exp]
  simp

/-- [T-def] standard conditions are 60 °F = 288.70555… K and 101325 Pa -/
theorem std_conditions : (Tstp : ℝ) = 273.15 + 140 / 9 ∧ (Pstp : ℝ) = 101325 := by
  simp only [Tstp, Pstp, Num.real_ofSci]
  constructor <;> norm_num

/-- Isothermal compression, multiplicative form (no guard needed):
    `ρ(T,P₂) = ρ(T,P₁) · exp(co·(P₂−P₁))`. -/
theorem compressibility_mul (rhoConst gamma beta co rhoStp T P1 P2 : ℝ) :
    density true rhoConst gamma beta co rhoStp T P2 =
      density true rhoConst gamma beta co rhoStp T P1 * Real.exp (co * (P2 - P1)) := by
  simp only [density, Num.real_ofSci, Num.real_one, Num.real_exp, if_true]
  have : co * (P2 - Pstp) = co * (P1 - Pstp) + co * (P2 - P1) := by ring
  rw [this, Real.exp_add]
  ring

/-- `ρ(T,P₂)/ρ(T,P₁) = exp(co·(P₂−P₁))` wherever the reference density is non-zero. -/
theorem compressibility_exact (rhoConst gamma beta co rhoStp T P1 P2 : ℝ)
    (h : density true rhoConst gamma beta co rhoStp T P1 ≠ 0) :
    density true rhoConst gamma beta co rhoStp T P2 / density true rhoConst gamma beta co rhoStp T P1
      = Real.exp (co * (P2 - P1)) := by
  rw [compressibility_mul rhoConst gamma beta co rhoStp T P1 P2]
  field_simp

/-- Isobaric expansion, multiplicative form: `ρ(T,P) = ρ(T_stp,P) · (1 − β (T − T_stp))`. -/
theorem expansion_mul (rhoConst gamma beta co rhoStp T P : ℝ) :
    density true rhoConst gamma beta co rhoStp T P =
      density true rhoConst gamma beta co rhoStp Tstp P * (1 - beta * (T - Tstp)) := by
  simp only [density, Num.real_ofSci, Num.real_one, Num.real_exp, if_true]
  ring

/-- `ρ(T,P)/ρ(T_stp,P) = 1 − β (T − T_stp)` wherever the reference density is non-zero. -/
theorem expansion_exact (rhoConst gamma beta co rhoStp T P : ℝ)
    (h : density true rhoConst gamma beta co rhoStp Tstp P ≠ 0) :
    density true rhoConst gamma beta co rhoStp T P / density true rhoConst gamma beta co rhoStp Tstp P
      = 1 - beta * (T - Tstp) := by
  rw [expansion_mul rhoConst gamma beta co rhoStp T P]
  field_simp

/-- the reference density is non-zero (indeed positive) for every physical parameter set:
    γ > −131.5, ρ_stp > 0 and, for the expansion factor, `β (T − T_stp) < 1` -/
theorem density_pos (rhoConst gamma beta co rhoStp T P : ℝ)
    (hg : -131.5 < gamma) (hr : 0 < rhoStp) (hb : beta * (T - Tstp) < 1) :
    0 < density true rhoConst gamma beta co rhoStp T P := by
  simp only [density, Num.real_ofSci, Num.real_one, Num.real_exp, if_true]
  have h1 : (0 : ℝ) < gamma + 131.5 := by linarith
  have h2 : (0 : ℝ) < 1 - beta * (T - Tstp) := by linarith
  have h3 := Real.exp_pos (co * (P - Pstp))
  have h4 : (0 : ℝ) < 141.5 / (gamma + 131.5) := div_pos (by norm_num) h1
  exact mul_pos (mul_pos (mul_pos h4 hr) h3) h2

/-- [T-def] incompressible particle: the constant given at construction -/
theorem incompressible_const (rhoConst gamma beta co rhoStp T P : ℝ) :
    density false rhoConst gamma beta co rhoStp T P = rhoConst := by
  simp [density]

example : (0 : ℝ) < density true 930 30 0.0007 2.9e-9 999 300 1e7 := by
  apply density_pos
  · norm_num
  · norm_num
  · rw [std_conditions.1]; norm_num

-- ===================================================================== biodegradation lag

/-- With the lag switched on, the rate constant of a component is 0 strictly before its lag time
    and `k_bio` from the lag time on; with the lag switched off it is `k_bio` always. -/
theorem bio_lag (lag : Bool) (kbio tbio : List ℝ) (t : ℝ) (i : Nat)
    (hk : i < kbio.length) (ht : i < tbio.length) :
    (lag = true → t < tbio.getD i 0 → (bioRate lag kbio tbio t).getD i 0 = 0) ∧
    (lag = true → tbio.getD i 0 ≤ t → (bioRate lag kbio tbio t).getD i 0 = kbio.getD i 0) ∧
    (lag = false → (bioRate lag kbio tbio t).getD i 0 = kbio.getD i 0) := by
  rw [bioRate_getD lag kbio tbio t i hk ht]
  refine ⟨?_, ?_, ?_⟩
  · intro h1 h2; rw [if_pos ⟨h1, h2⟩]
  · intro _ h2; rw [if_neg (fun h => absurd h.2 (not_lt.mpr h2))]
  · intro h1; rw [if_neg (fun h => by rw [h1] at h; exact absurd h.1 (by simp))]

/-- one rate per component -/
theorem bio_lag_length (lag : Bool) (kbio tbio : List ℝ) (t : ℝ) (h : kbio.length = tbio.length) :
    (bioRate lag kbio tbio t).length = kbio.length := by
  rw [bioRate_length, h]; simp

example : bioRate true [0.5, 0.25] [10, 20] (15 : ℝ) = [0.5, 0] := by
  simp [bioRate, Num.real_zero]; norm_num

end TamocV.Props.C17
