/-
  C13 — Seawater properties follow the cited standards.
  Property theorems only.  `TamocV.Gen.SeawaterPy` is regenerated from
  /repo/tamoc/seawater.py on every run; `TamocV.Model.EOS80` is the independent
  table-driven reference typed from the standard.
-/
import TamocV.Real
import TamocV.Gen.SeawaterPy
import TamocV.Model.EOS80
import Mathlib.Tactic.Ring
import Mathlib.Tactic.NormNum
import Mathlib.Tactic.FieldSimp
import Mathlib.Tactic.Linarith
import TamocV.Lemmas.C13

set_option linter.unusedSimpArgs false
set_option linter.unusedVariables false

namespace TamocV.Props.C13
open TamocV TamocV.Gen TamocV.Lemmas.C20 TamocV.Lemmas.C13

/-- Below 40 °C the density computed by `seawater.density` IS the EOS-80 density at
    t = T − 273.15 °C, p = P·10⁻⁵ bar, for every real T, S, P (no range restriction:
    the two sides are the same rational function of T, S, S^{3/2}, P). -/
theorem density_eq_eos80 (T S P : ℝ) (hT : T < 273.15 + 40) :
    Gen.SeawaterPy.density T S P = Model.EOS80.rho (T - 273.15) S (P * 1e-5) := by
  have h : (T < (273.15 : ℝ) + 40) := hT
  simp only [Gen.SeawaterPy.density, Model.EOS80.rho, Model.EOS80.rho', Model.EOS80.rho0',
    Model.EOS80.K', Model.EOS80.s32, Model.EOS80.poly, Model.EOS80.rhoW, Model.EOS80.rhoS1,
    Model.EOS80.rhoS32, Model.EOS80.rhoS2, Model.EOS80.kW, Model.EOS80.kS1, Model.EOS80.kS32,
    Model.EOS80.aW, Model.EOS80.aS1, Model.EOS80.aS32, Model.EOS80.bW, Model.EOS80.bS1,
    List.foldr, Num.real_ofSci, Num.real_ofNat, Num.real_one, Num.real_zero, Num.real_npow,
    Num.real_rpow, if_pos h]
  norm_num
  ring_nf

/-! ### Published check values (UNESCO Tech. Pap. Mar. Sci. 44, 1983, p. 19), to half a unit of the last
    published digit.  S = 0 by exact rational arithmetic; S = 35 through the bracket
    207.06279 ≤ 35^(3/2) ≤ 207.06281 (the density is a linear-fractional function of S^(3/2)). -/

theorem check_rho_0_5_0 : |SeawaterPy.density (278.15 : ℝ) 0 0 - 999.96675| ≤ 5e-6 := by
  have h : (278.15:ℝ) < 273.15 + 40 := by norm_num
  simp only [SeawaterPy.density, Num.real_ofSci, Num.real_ofNat, Num.real_one, Num.real_zero, Num.real_npow,
    Num.real_rpow, if_pos h]
  have h0 : (0:ℝ) ^ ((3.0:ℝ) / 2.0) = 0 := Real.zero_rpow (by norm_num)
  rw [h0]
  norm_num [abs_le]

theorem check_rho_0_5_1000 : |SeawaterPy.density (278.15 : ℝ) 0 1e8 - 1044.12802| ≤ 5e-6 := by
  have h : (278.15:ℝ) < 273.15 + 40 := by norm_num
  simp only [SeawaterPy.density, Num.real_ofSci, Num.real_ofNat, Num.real_one, Num.real_zero, Num.real_npow,
    Num.real_rpow, if_pos h]
  have h0 : (0:ℝ) ^ ((3.0:ℝ) / 2.0) = 0 := Real.zero_rpow (by norm_num)
  rw [h0]
  norm_num [abs_le]

theorem check_rho_0_25_0 : |SeawaterPy.density (298.15 : ℝ) 0 0 - 997.04796| ≤ 5e-6 := by
  have h : (298.15:ℝ) < 273.15 + 40 := by norm_num
  simp only [SeawaterPy.density, Num.real_ofSci, Num.real_ofNat, Num.real_one, Num.real_zero, Num.real_npow,
    Num.real_rpow, if_pos h]
  have h0 : (0:ℝ) ^ ((3.0:ℝ) / 2.0) = 0 := Real.zero_rpow (by norm_num)
  rw [h0]
  norm_num [abs_le]

theorem check_rho_0_25_1000 : |SeawaterPy.density (298.15 : ℝ) 0 1e8 - 1037.90204| ≤ 5e-6 := by
  have h : (298.15:ℝ) < 273.15 + 40 := by norm_num
  simp only [SeawaterPy.density, Num.real_ofSci, Num.real_ofNat, Num.real_one, Num.real_zero, Num.real_npow,
    Num.real_rpow, if_pos h]
  have h0 : (0:ℝ) ^ ((3.0:ℝ) / 2.0) = 0 := Real.zero_rpow (by norm_num)
  rw [h0]
  norm_num [abs_le]

theorem check_rho_35_5_0 : |SeawaterPy.density (278.15 : ℝ) 35 0 - 1027.67547| ≤ 5e-6 := by
  have h : (278.15:ℝ) < 273.15 + 40 := by norm_num
  simp only [SeawaterPy.density, Num.real_ofSci, Num.real_ofNat, Num.real_one, Num.real_zero, Num.real_npow,
    Num.real_rpow, if_pos h]
  obtain ⟨hlo, hhi⟩ := s35_bracket
  generalize (35:ℝ) ^ ((3.0:ℝ) / 2.0) = s at *
  norm_num [abs_le]
  constructor <;> linarith

theorem check_rho_35_5_1000 : |SeawaterPy.density (278.15 : ℝ) 35 1e8 - 1069.48914| ≤ 5e-6 := by
  have h : (278.15:ℝ) < 273.15 + 40 := by norm_num
  simp only [SeawaterPy.density, Num.real_ofSci, Num.real_ofNat, Num.real_one, Num.real_zero, Num.real_npow,
    Num.real_rpow, if_pos h]
  obtain ⟨hlo, hhi⟩ := s35_bracket
  generalize (35:ℝ) ^ ((3.0:ℝ) / 2.0) = s at *
  apply frac_abs
  · norm_num; linarith
  · norm_num
  · norm_num; nlinarith
  · norm_num; nlinarith

theorem check_rho_35_25_0 : |SeawaterPy.density (298.15 : ℝ) 35 0 - 1023.34306| ≤ 5e-6 := by
  have h : (298.15:ℝ) < 273.15 + 40 := by norm_num
  simp only [SeawaterPy.density, Num.real_ofSci, Num.real_ofNat, Num.real_one, Num.real_zero, Num.real_npow,
    Num.real_rpow, if_pos h]
  obtain ⟨hlo, hhi⟩ := s35_bracket
  generalize (35:ℝ) ^ ((3.0:ℝ) / 2.0) = s at *
  norm_num [abs_le]
  constructor <;> linarith

theorem check_rho_35_25_1000 : |SeawaterPy.density (298.15 : ℝ) 35 1e8 - 1062.53817| ≤ 5e-6 := by
  have h : (298.15:ℝ) < 273.15 + 40 := by norm_num
  simp only [SeawaterPy.density, Num.real_ofSci, Num.real_ofNat, Num.real_one, Num.real_zero, Num.real_npow,
    Num.real_rpow, if_pos h]
  obtain ⟨hlo, hhi⟩ := s35_bracket
  generalize (35:ℝ) ^ ((3.0:ℝ) / 2.0) = s at *
  apply frac_abs
  · norm_num; linarith
  · norm_num
  · norm_num; nlinarith
  · norm_num; nlinarith

/-! ### Monotonicity and positivity on the oceanic range -/

/-- **Below 40 °C the density increases strictly with pressure** on the oceanic box -/
theorem density_mono_P (T S P1 P2 : ℝ) (hT0 : 271 ≤ T) (hT1 : T < 273.15 + 40) (hS0 : 0 ≤ S) (hS1 : S ≤ 42)
    (hP0 : 0 ≤ P1) (h12 : P1 < P2) (hP2 : P2 ≤ 1.1e8) :
    SeawaterPy.density T S P1 < SeawaterPy.density T S P2 := by
  rw [density_grouped T S P1 hT1, density_grouped T S P2 hT1]
  obtain ⟨hs0, hs1⟩ := s32_bound S hS0 hS1
  set t := T - 273.15 with ht
  set s := S ^ ((3.0:ℝ)/2.0) with hs
  have h1 : -2.15 ≤ t := by rw [ht]; linarith
  have h2 : t ≤ 40 := by rw [ht]; linarith
  have hp1 : 0 ≤ P1 * 0.00001 := by positivity
  have hp2 : P2 * 0.00001 ≤ 1100 := by nlinarith
  have hp12 : P1 * 0.00001 < P2 * 0.00001 := by nlinarith
  have hKform : ∀ p, K0 t S s + KA t S s * p + KB t S * (p * p) =
      Kw t + S * k1 t + s * k2 t + p * (Aw t + S * a1 t + 0.000191075 * s) + p * p * (Bw t + S * b1 t) := by
    intro p; unfold K0 KA KB; ring
  have hKlow : ∀ p, 0 ≤ p → p ≤ 1100 → 19200 + 3 * p ≤ K0 t S s + KA t S s * p + KB t S * (p * p) := by
    intro p hp0 hp1'
    rw [hKform p]
    exact K_combine (Kw t) (k1 t) (k2 t) (Aw t) (a1 t) (Bw t) (b1 t) S s p
      (by unfold Kw; exact Kw_lb t h1 h2) (by unfold k1; exact k1_lb t h1 h2) (by unfold k2; exact k2_lb t h1 h2)
      (by unfold Aw; exact Aw_lb t h1 h2) (by unfold a1; exact a1_lb t h1 h2) (by unfold Bw; exact Bw_lb t h1 h2)
      (by unfold b1; exact b1_lb t h1 h2) hS0 hS1 hs0 hs1 hp0 hp1'
  have hK0 : 19200 ≤ K0 t S s := by
    have := hKlow 0 (le_refl 0) (by norm_num)
    simpa using this
  have hKB : KB t S ≤ 0.00016 := by
    unfold KB
    have := Bw_ub t h1 h2
    have := b1_ub t h1 h2
    nlinarith
  apply frac_mono _ _ _ _ _ _ (by have := N0_pos t S s h1 h2 hS0 hS1 hs0 hs1; linarith) hp12 hp1
  · have := hKlow (P1 * 0.00001) hp1 (by linarith); linarith
  · have := hKlow (P2 * 0.00001) (by linarith) hp2; linarith
  · have hpp : P1 * 0.00001 * (P2 * 0.00001) ≤ 1100 * 1100 := by
      apply mul_le_mul (by linarith) hp2 (by linarith) (by norm_num)
    have hpp0 : 0 ≤ P1 * 0.00001 * (P2 * 0.00001) := mul_nonneg hp1 (by linarith)
    nlinarith

theorem mu_pos (T S P : ℝ) (hT0 : 271 ≤ T) (hT1 : T ≤ 373.15) (hS0 : 0 ≤ S) (hP : 0 ≤ P) :
    0 < SeawaterPy.mu T S P := by
  simp only [SeawaterPy.mu, Num.real_ofSci, Num.real_ofNat, Num.real_one, Num.real_zero, Num.real_npow]
  set t := T - 273.15 with ht
  have ht0 : -2.15 ≤ t := by rw [ht]; linarith
  have ht1 : t ≤ 100 := by rw [ht]; linarith
  have hq : 0 < 0.15700386464 * (t + 64.99262005) ^ 2 + -91.296496657 := by
    have h : 62.84262005 ≤ t + 64.99262005 := by linarith
    have h2 : (62.84262005:ℝ)^2 ≤ (t + 64.99262005)^2 := pow_le_pow_left₀ (by norm_num) h 2
    nlinarith
  have hmuw : 0 < 0.000042844324477 + 1.0 / (0.15700386464 * (t + 64.99262005) ^ 2 + -91.296496657) := by
    have := one_div_pos.mpr hq
    have h1 : (1.0:ℝ) / (0.15700386464 * (t + 64.99262005) ^ 2 + -91.296496657) = 1 / (0.15700386464 * (t + 64.99262005) ^ 2 + -91.296496657) := by norm_num
    rw [h1]; linarith
  have hA : 0 ≤ 1.540913604 + 0.019981117208 * t + -0.000095203865864 * t ^ 2 := by
    nlinarith [mul_nonneg (by linarith : (0:ℝ) ≤ t + 2.15) (by linarith : (0:ℝ) ≤ 100 - t)]
  have hB : 0 ≤ 7.9739318223 + -0.075614568881 * t + 0.00047237011074 * t ^ 2 := by
    nlinarith [sq_nonneg (t - 80)]
  have hs : 0 ≤ S / 1000.0 := by positivity
  have hF : 0 < 1.0 + (1.540913604 + 0.019981117208 * t + -0.000095203865864 * t ^ 2) * (S / 1000.0) +
      (7.9739318223 + -0.075614568881 * t + 0.00047237011074 * t ^ 2) * (S / 1000.0) ^ 2 := by
    have := mul_nonneg hA hs
    have := mul_nonneg hB (sq_nonneg (S / 1000.0))
    linarith
  have hPf : 0 < 0.9994 + 0.000040295 * (P * 0.00014503773800721815) + 0.0000000031062 * (P * 0.00014503773800721815) ^ 2 := by
    positivity
  exact mul_pos (mul_pos hmuw hF) hPf

theorem sigma_pos (T S : ℝ) (hT0 : 271 ≤ T) (hT1 : T ≤ 373.15) (hS0 : 0 ≤ S) (hS1 : S ≤ 42) :
    0 < SeawaterPy.sigma T S := by
  simp only [SeawaterPy.sigma, Num.real_ofSci, Num.real_ofNat, Num.real_one, Num.real_zero, Num.real_npow,
    Num.real_rpow, Num.real_log]
  have hx : 0 < 1.0 - (T - 273.15 + 273.15) / 647.096 := by
    have : (T - 273.15 + 273.15) / 647.096 < 1 := by rw [div_lt_one (by norm_num)]; linarith
    linarith
  have hw : 0 < 0.2358 * (1.0 - (T - 273.15 + 273.15) / 647.096) ^ (1.256:ℝ) *
      (1.0 - 0.625 * (1.0 - (T - 273.15 + 273.15) / 647.096)) := by
    have h1 : 0 < (1.0 - (T - 273.15 + 273.15) / 647.096) ^ (1.256:ℝ) := Real.rpow_pos_of_pos hx _
    have h2 : (1.0 - (T - 273.15 + 273.15) / 647.096) ≤ 1 := by
      have : 0 ≤ (T - 273.15 + 273.15) / 647.096 := by apply div_nonneg <;> linarith
      linarith
    have h3 : 0 < 1.0 - 0.625 * (1.0 - (T - 273.15 + 273.15) / 647.096) := by nlinarith
    positivity
  split_ifs with hc
  · apply mul_pos hw
    have hlog : 0 ≤ Real.log (1.0 + 0.0331 * (S / 1000.0)) := by
      apply Real.log_nonneg
      have : 0 ≤ 0.0331 * (S / 1000.0) := by positivity
      linarith
    have hc1 : 0 ≤ 0.000226 * (T - 273.15) + 0.00946 := by linarith
    have := mul_nonneg hc1 hlog
    linarith
  · exact hw

theorem k_pos_cold (T S P : ℝ) (hT0 : 271 ≤ T) (hP0 : 0 ≤ P)
    (hc : (T - 0.0682875) / (1.0 - 0.00025) - 273.15 < (30.0:ℝ)) : 0 < SeawaterPy.k T S P := by
  simp only [SeawaterPy.k, Num.real_ofSci, Num.real_ofNat, Num.real_one, Num.real_zero, Num.real_npow]
  rw [if_pos hc]
  have hu0 : -2.3 ≤ (T - 0.0682875) / (1.0 - 0.00025) - 273.15 := by
    have h9 : (1.0 - 0.00025 : ℝ) = 0.99975 := by norm_num
    rw [h9]
    have : 270.9 ≤ (T - 0.0682875) / 0.99975 := by
      rw [le_div_iff₀ (by norm_num)]; linarith
    linarith
  have hu1 : (T - 0.0682875) / (1.0 - 0.00025) - 273.15 ≤ 30 := by
    have : (30.0:ℝ) = 30 := by norm_num
    linarith
  generalize (T - 0.0682875) / (1.0 - 0.00025) - 273.15 = u at *
  have hp : 0 ≤ 0.00034025 * (P * 0.000001) := by positivity
  have hcub : 0.55286 + 0.0018364 * u - 0.00000033058 * u ^ 3 > 0 := by
    nlinarith [mul_nonneg (by linarith : (0:ℝ) ≤ u + 2.3) (by linarith : (0:ℝ) ≤ 30 - u), sq_nonneg u,
      mul_nonneg (mul_nonneg (by linarith : (0:ℝ) ≤ u + 2.3) (by linarith : (0:ℝ) ≤ 30 - u)) (by linarith : (0:ℝ) ≤ u + 2.3)]
  linarith

end TamocV.Props.C13
