/-
  C13 — Seawater properties follow the cited standards.
  Property theorems only.  `TamocV.Gen.SeawaterPy` is regenerated from
  /repo/tamoc/seawater.py on every run; `TamocV.Model.EOS80` is the independent
  table-driven reference typed from the standard.
-/
import TamocV.Real
import TamocV.Gen.SeawaterPy
import TamocV.Model.EOS80
import Mathlib.Tactic.Ring
import Mathlib.Tactic.NormNum
import Mathlib.Tactic.FieldSimp
import Mathlib.Tactic.Linarith

namespace TamocV.Props.C13
open TamocV

/-- Below 40 °C the density computed by `seawater.density` IS the EOS-80 density at
    t = T − 273.15 °C, p = P·10⁻⁵ bar, for every real T, S, P (no range restriction:
    the two sides are the same rational function of T, S, S^{3/2}, P). -/
theorem density_eq_eos80 (T S P : ℝ) (hT : T < 273.15 + 40) :
    Gen.SeawaterPy.density T S P = Model.EOS80.rho (T - 273.15) S (P * 1e-5) := by
  have h : (T < (273.15 : ℝ) + 40) := hT
  simp only [Gen.SeawaterPy.density, Model.EOS80.rho, Model.EOS80.rho', Model.EOS80.rho0',
    Model.EOS80.K', Model.EOS80.s32, Model.EOS80.poly, Model.EOS80.rhoW, Model.EOS80.rhoS1,
    Model.EOS80.rhoS32, Model.EOS80.rhoS2, Model.EOS80.kW, Model.EOS80.kS1, Model.EOS80.kS32,
    Model.EOS80.aW, Model.EOS80.aS1, Model.EOS80.aS32, Model.EOS80.bW, Model.EOS80.bS1,
    List.foldr, Num.real_ofSci, Num.real_ofNat, Num.real_one, Num.real_zero, Num.real_npow,
    Num.real_rpow, if_pos h]
  norm_num
  ring_nf

end TamocV.Props.C13

#print axioms TamocV.Props.C13.density_eq_eos80
