/-
  C01 (continued) — refinement of the hand EOS model by the code REGENERATED from dbm_p.py, group-contribution
  branch (calc_delta > 0).  Complements `coefs_refines_no_gc` of TamocV/Props/C01.lean: together they cover every
  value of `calc_delta`.  Helper lemmas: TamocV/Lemmas/EosRefineGC.lean.
-/
import TamocV.Props.C01
import TamocV.Lemmas.EosRefineGC

namespace TamocV.Props.C01
open TamocV.Model.Eos TamocV.Lemmas.Eos TamocV.Lemmas.EosRefine TamocV.Lemmas.EosRefineGC TamocV.Gen Finset

/-- **Refinement (group contributions on)**: for `calc_delta > 0` every output of the `coefs` regenerated from
    dbm_p.py — whose in-place double loop overwrites the off-diagonal entries of the δ matrix with the Privat–Jaubert
    group-contribution value and mirrors them — equals the corresponding output of the hand model
    `Model.Eos.coefs … true …` (`deltaUsed` / `deltaGC` / `gcTerm`), for all inputs of consistent lengths.
    Hypotheses: the per-component lists have length `n`, δ is an n × n list matrix (otherwise `List.set` on a short
    row is a no-op where numpy would raise).  NO hypothesis on the group table `G` or on `A`, `B` (missing entries read
    as 0 on both sides), none on `Aij k l ≠ 0` (there the code's term is `… * 0 * … = 0`, the model's guard gives 0),
    none on T, P or signs (`sqrt`, `rpow`, `/` are the same totalised real functions on both sides). -/
theorem coefs_refines_gc (T P : ℝ) (m M Pc Tc w : List ℝ) (δ A B G : List (List ℝ)) (cd : ℝ) (n : ℕ)
    (hm : m.length = n) (hM : M.length = n) (hPc : Pc.length = n) (hTc : Tc.length = n) (hδ : δ.length = n)
    (hδr : ∀ r ∈ δ, r.length = n) (hcd : 0 < cd) :
    let g := EosFullPy.coefs T P m M Pc Tc w δ A B G cd
    let h := TamocV.Model.Eos.coefs n T P (ofL m) (ofL M) (ofL Pc) (ofL Tc) (ofL w) true (ofM G) (ofM A) (ofM B) (ofM δ)
    g.1 = h.A ∧ g.2.1 = h.B ∧ (∀ i, i < n → g.2.2.1.getD i 0 = h.Ap i) ∧ (∀ i, i < n → g.2.2.2.1.getD i 0 = h.Bp i)
      ∧ (∀ i, i < n → g.2.2.2.2.getD i 0 = h.yk i) := by
  intro g h
  have hsq := isSq_of_rows n δ hδ hδr
  have hg : g = EosFullPy.coefs T P m M Pc Tc w (matOf n (genDelta T Pc Tc w G A B δ n)) A B G 0 :=
    coefs_gc_eq T P m M Pc Tc w δ A B G cd n hm hcd hsq
  obtain ⟨r1, r2, r3, r4, r5⟩ := coefs_refines_no_gc T P m M Pc Tc w (matOf n (genDelta T Pc Tc w G A B δ n)) A B G 0 n
    hm hM hPc hTc (matOf_length _ _) (le_refl 0)
  obtain ⟨c1, c2, c3, c4, c5⟩ := mix_congr n T P (moleFraction n (ofL m) (ofL M))
    (fun i => aTk T (ofL Tc i) (ofL Pc i) (ofL w i)) (fun i => bk (ofL Tc i) (ofL Pc i))
    (deltaUsed false T (fun i => aTk T (ofL Tc i) (ofL Pc i) (ofL w i)) (fun i => bk (ofL Tc i) (ofL Pc i))
      (ofM G) (ofM A) (ofM B) (ofM (matOf n (genDelta T Pc Tc w G A B δ n))))
    (deltaUsed true T (fun i => aTk T (ofL Tc i) (ofL Pc i) (ofL w i)) (fun i => bk (ofL Tc i) (ofL Pc i))
      (ofM G) (ofM A) (ofM B) (ofM δ))
    (by
      intro i j hi hj
      rw [← genDelta_eq T Pc Tc w G A B δ n i j hPc hTc hi hj,
        ← matOf_ofM n (genDelta T Pc Tc w G A B δ n) i j hi hj]
      simp [deltaUsed])
  rw [hg]
  exact ⟨r1.trans c1, r2.trans c2, fun i hi => (r3 i hi).trans (c3 i hi), fun i hi => (r4 i hi).trans (c4 i),
    fun i hi => (r5 i hi).trans (c5 i)⟩

/-- the hypotheses are satisfiable: two components, a 2 × 2 δ matrix, 15 groups -/
example :
    let g := EosFullPy.coefs (300:ℝ) 1e5 [1, 2] [16, 30] [4.6e6, 4.9e6] [190, 305] [0.01, 0.1] [[0, 0], [0, 0]]
      (List.replicate 15 (List.replicate 15 1)) (List.replicate 15 (List.replicate 15 2))
      [1 :: List.replicate 14 0, 0 :: 1 :: List.replicate 13 0] 1
    let h := TamocV.Model.Eos.coefs 2 (300:ℝ) 1e5 (ofL [1, 2]) (ofL [16, 30]) (ofL [4.6e6, 4.9e6]) (ofL [190, 305])
      (ofL [0.01, 0.1]) true (ofM [1 :: List.replicate 14 0, 0 :: 1 :: List.replicate 13 0])
      (ofM (List.replicate 15 (List.replicate 15 1))) (ofM (List.replicate 15 (List.replicate 15 2))) (ofM [[0, 0], [0, 0]])
    g.1 = h.A ∧ g.2.1 = h.B :=
  let t := coefs_refines_gc (300:ℝ) 1e5 [1, 2] [16, 30] [4.6e6, 4.9e6] [190, 305] [0.01, 0.1] [[0, 0], [0, 0]]
      (List.replicate 15 (List.replicate 15 1)) (List.replicate 15 (List.replicate 15 2))
      [1 :: List.replicate 14 0, 0 :: 1 :: List.replicate 13 0] 1 2 rfl rfl rfl rfl rfl (by simp) (by norm_num)
  ⟨t.1, t.2.1⟩

end TamocV.Props.C01
