/-
  C01 (continued) — the `fugacity` and `density` routines REGENERATED from dbm_p.py (Gen/EosFullPy.lean) are tied
  to the hand model by theorems instead of by value correspondence only:

    * `gen_fugacity_rows`      the regenerated `fugacity` returns exactly two rows, the list expression `fugRow`
                               evaluated at the two compressibility factors the model's `selectZ` picks;
    * `fugRow_getD`            entry i of such a row is the model's `exp (lnPhi …) · y_i · P`  (= `Model.Eos.fugacity`);
    * `gen_fugacity_refines`   both together, on the regenerated `coefs` outputs: entry (k, i) of the regenerated
                               fugacity IS `Model.Eos.fugacity` of the refined coefficient record;
    * `gen_fugacity_pos`       every entry of the regenerated fugacity is positive when every mole fraction the
                               regenerated `coefs` reports is positive and P > 0 (with `gen_fugacity_log_args_pos`
                               this is not an artefact of the totalised logarithm);
    * `gen_density_rows`       the regenerated `density` returns `[[ρ(Z_gas)], [ρ(Z_liq)]]` with
                               ρ(Z) = 1/(Z·R·T/P − Σ y·vt) · Σ y·M — the model's `density` on the lists;
    * `gen_gas_not_denser`     gas row ≤ liquid row of the regenerated `density` under the hypotheses of
                               `gas_not_denser` (positive translated liquid molar volume, non-negative molar mass).
    * `gen_volume_trans_refines` entry i of the regenerated `volume_trans` is the model's `volTransLD` (first user
                               Peneloux coefficient zero) or `volTransUser` (otherwise) of component i;
    * `gen_density_refines`    the two rows of the regenerated `density` are `Model.Eos.density` at the selected roots.
  Helper lemmas: `namespace TamocV.Lemmas.C01Fug` (this file).
-/
import TamocV.Props.C01Gen

set_option linter.unusedSimpArgs false
set_option linter.unusedVariables false

namespace TamocV.Lemmas.C01Fug
open TamocV.Model.Eos TamocV.Lemmas.Eos TamocV.Lemmas.EosRefine Finset

/-- the list expression of one row of `dbm_p.fugacity`, as the translator emits it -/
noncomputable def fugRow (A B : ℝ) (Ap Bp yk : List ℝ) (P Z : ℝ) : List ℝ :=
  (List.zipWith (fun x y => x * y)
    ((List.zipWith (fun x y => x - y)
        ((Bp.map fun y => (Z - 1) * y).map fun x => x - Real.log (Z - B))
        (((List.zipWith (fun x y => x - y) Ap Bp).map fun y => A / ((2:ℝ) ^ (1.5:ℝ) * B) * y).map fun x =>
          x * Real.log ((Z + (Real.sqrt 2 + 1) * B) / (Z - (Real.sqrt 2 - 1) * B)))).map fun x => Real.exp x)
    yk).map fun x => x * P

theorem zipWith_mul_pos : ∀ (a b : List ℝ), (∀ x ∈ a, 0 < x) → (∀ y ∈ b, 0 < y) →
    ∀ z ∈ List.zipWith (fun x y => x * y) a b, 0 < z
  | [], _, _, _, z, hz => by simp at hz
  | _ :: _, [], _, _, z, hz => by simp at hz
  | x :: a, y :: b, ha, hb, z, hz => by
    simp only [List.zipWith_cons_cons, List.mem_cons] at hz
    rcases hz with rfl | hz
    · exact mul_pos (ha x (by simp)) (hb y (by simp))
    · exact zipWith_mul_pos a b (fun x hx => ha x (by simp [hx])) (fun y hy => hb y (by simp [hy])) z hz

theorem fugRow_pos (A B : ℝ) (Ap Bp yk : List ℝ) (P Z : ℝ) (hy : ∀ y ∈ yk, 0 < y) (hP : 0 < P) :
    ∀ f ∈ fugRow A B Ap Bp yk P Z, 0 < f := by
  intro f hf
  simp only [fugRow, List.mem_map] at hf
  obtain ⟨x, hx, rfl⟩ := hf
  refine mul_pos (zipWith_mul_pos _ yk ?_ hy x hx) hP
  intro e he
  simp only [List.mem_map] at he
  obtain ⟨_, _, rfl⟩ := he
  exact Real.exp_pos _

end TamocV.Lemmas.C01Fug

namespace TamocV.Props.C01
open TamocV.Model.Eos TamocV.Lemmas.Eos TamocV.Lemmas.EosRefine TamocV.Lemmas.C01Gen TamocV.Lemmas.C01Fug TamocV.Gen Finset

/-- entry i of a fugacity row is the model's `exp (lnPhi A B Z Ap_i Bp_i) · y_i · P` -/
theorem fugRow_getD (A B : ℝ) (Ap Bp yk : List ℝ) (P Z : ℝ) (n i : ℕ) (hAp : Ap.length = n) (hBp : Bp.length = n)
    (hyk : yk.length = n) (hi : i < n) :
    (fugRow A B Ap Bp yk P Z).getD i 0
      = Real.exp (lnPhi A B Z (Ap.getD i 0) (Bp.getD i 0)) * yk.getD i 0 * P := by
  have hi1 : i < Ap.length := by omega
  have hi2 : i < Bp.length := by omega
  have hi3 : i < yk.length := by omega
  simp [fugRow, lnPhi, List.getD_eq_getElem?_getD, List.getElem?_map, List.getElem?_zipWith,
    List.getElem?_eq_getElem hi1, List.getElem?_eq_getElem hi2, List.getElem?_eq_getElem hi3,
    Num.real_log, Num.real_rpow, Num.real_sqrt, Num.real_ofSci]

/-- **The regenerated `fugacity` is two rows of `fugRow` at the factors the model selects.** -/
theorem gen_fugacity_rows (cr : List ℝ → List ℝ × List ℝ) (T P : ℝ) (m M Pc Tc w : List ℝ) (δ A B G : List (List ℝ))
    (cd r0 r1 r2 i0 i1 i2 : ℝ) (hcr : ∀ p, cr p = ([r0, r1, r2], [i0, i1, i2])) :
    let c := EosFullPy.coefs T P m M Pc Tc w δ A B G cd
    let s := selectZ c.2.1 [(r0, i0), (r1, i1), (r2, i2)]
    EosFullPy.fugacity cr T P m M Pc Tc w δ A B G cd
      = [fugRow c.1 c.2.1 c.2.2.1 c.2.2.2.1 c.2.2.2.2 P s.1, fugRow c.1 c.2.1 c.2.2.1 c.2.2.2.1 c.2.2.2.2 P s.2] := by
  intro c s
  have hsel := z_pr_select_refines cr T P m M Pc Tc w δ A B G cd r0 r1 r2 i0 i1 i2 hcr
  have hA : (EosFullPy.z_pr cr T P m M Pc Tc w δ A B G cd).2.1 = c.1 := rfl
  have hB : (EosFullPy.z_pr cr T P m M Pc Tc w δ A B G cd).2.2.1 = c.2.1 := rfl
  have hAp : (EosFullPy.z_pr cr T P m M Pc Tc w δ A B G cd).2.2.2.1 = c.2.2.1 := rfl
  have hBp : (EosFullPy.z_pr cr T P m M Pc Tc w δ A B G cd).2.2.2.2.1 = c.2.2.2.1 := rfl
  have hyk : (EosFullPy.z_pr cr T P m M Pc Tc w δ A B G cd).2.2.2.2.2 = c.2.2.2.2 := rfl
  have h10 : (1.0:ℝ) = 1 := by norm_num
  have h20 : (2.0:ℝ) = 2 := by norm_num
  simp only [EosFullPy.fugacity, hA, hB, hAp, hBp, hyk]
  simp only [] at hsel
  rw [hsel]
  simp [List.range', List.foldl, fugRow, Num.real_log, Num.real_exp, Num.real_rpow, Num.real_sqrt, Num.real_ofSci,
    h10, h20, s, c]

/-- **Every entry of the regenerated `fugacity` is positive** when every mole fraction reported by the regenerated
    `coefs` is positive and P > 0 (both phases, every component count, every root the finder may return). -/
theorem gen_fugacity_pos (cr : List ℝ → List ℝ × List ℝ) (T P : ℝ) (m M Pc Tc w : List ℝ) (δ A B G : List (List ℝ))
    (cd r0 r1 r2 i0 i1 i2 : ℝ) (hcr : ∀ p, cr p = ([r0, r1, r2], [i0, i1, i2]))
    (hy : ∀ y ∈ (EosFullPy.coefs T P m M Pc Tc w δ A B G cd).2.2.2.2, 0 < y) (hP : 0 < P) :
    ∀ row ∈ EosFullPy.fugacity cr T P m M Pc Tc w δ A B G cd, ∀ f ∈ row, 0 < f := by
  intro row hrow f hf
  rw [gen_fugacity_rows cr T P m M Pc Tc w δ A B G cd r0 r1 r2 i0 i1 i2 hcr] at hrow
  simp only [List.mem_cons, List.not_mem_nil, or_false] at hrow
  rcases hrow with rfl | rfl <;> exact fugRow_pos _ _ _ _ _ _ _ hy hP f hf

/-- lengths of the three per-component lists the regenerated `coefs` returns -/
theorem gen_coefs_lengths (T P : ℝ) (m M Pc Tc w : List ℝ) (δ A B G : List (List ℝ)) (cd : ℝ) (n : ℕ)
    (hm : m.length = n) (hM : M.length = n) (hPc : Pc.length = n) (hTc : Tc.length = n) :
    let g := EosFullPy.coefs T P m M Pc Tc w δ A B G cd
    g.2.2.1.length = n ∧ g.2.2.2.1.length = n ∧ g.2.2.2.2.length = n := by
  intro g
  refine ⟨?_, ?_, ?_⟩
  · subst hm
    simp only [g, EosFullPy.coefs, Nat.sub_zero]
    rw [foldl_set_range' _ _ _ (by simp)]
    simp
  · simp [g, EosFullPy.coefs, hTc, hPc]
  · exact mole_fraction_length m M n hm hM

/-- **Refinement of the regenerated `fugacity`**: entry (phase k, component i) of what the routine regenerated from
    dbm_p.py returns IS `Model.Eos.fugacity` of the refined coefficient record at the compressibility factor the
    model selects for that phase — so `fugacity_pos`, `lnPhi_args_pos` and the identities of the model speak about
    the regenerated code, for every n, composition, δ branch and root-finder result. -/
theorem gen_fugacity_refines (cr : List ℝ → List ℝ × List ℝ) (T P : ℝ) (m M Pc Tc w : List ℝ) (δ A B G : List (List ℝ))
    (cd r0 r1 r2 i0 i1 i2 : ℝ) (n : ℕ) (hcr : ∀ p, cr p = ([r0, r1, r2], [i0, i1, i2]))
    (hm : m.length = n) (hM : M.length = n) (hPc : Pc.length = n) (hTc : Tc.length = n) (hδ : δ.length = n)
    (hδr : ∀ r ∈ δ, r.length = n) :
    let h := TamocV.Model.Eos.coefs n T P (ofL m) (ofL M) (ofL Pc) (ofL Tc) (ofL w) (decide (0 < cd)) (ofM G) (ofM A) (ofM B) (ofM δ)
    let s := selectZ h.B [(r0, i0), (r1, i1), (r2, i2)]
    let f := EosFullPy.fugacity cr T P m M Pc Tc w δ A B G cd
    f.length = 2 ∧ ∀ i, i < n →
      (f.getD 0 []).getD i 0 = TamocV.Model.Eos.fugacity h P s.1 i ∧
      (f.getD 1 []).getD i 0 = TamocV.Model.Eos.fugacity h P s.2 i := by
  intro h s f
  obtain ⟨hA, hB, hAp, hBp, hyk⟩ := coefs_refines T P m M Pc Tc w δ A B G cd n hm hM hPc hTc hδ hδr
  obtain ⟨lAp, lBp, lyk⟩ := gen_coefs_lengths T P m M Pc Tc w δ A B G cd n hm hM hPc hTc
  have hrows := gen_fugacity_rows cr T P m M Pc Tc w δ A B G cd r0 r1 r2 i0 i1 i2 hcr
  simp only [] at hA hB hAp hBp hyk lAp lBp lyk hrows
  refine ⟨by simp only [f, hrows, List.length_cons, List.length_nil], ?_⟩
  intro i hi
  simp only [f, hrows, List.getD_cons_zero, List.getD_cons_succ, s]
  rw [fugRow_getD _ _ _ _ _ _ _ n i lAp lBp lyk hi, fugRow_getD _ _ _ _ _ _ _ n i lAp lBp lyk hi,
    hA, hB, hAp i hi, hBp i hi, hyk i hi]
  exact ⟨rfl, rfl⟩

/-- **The regenerated `density` is `[[ρ(Z_gas)], [ρ(Z_liq)]]`**, ρ(Z) = 1/(Z·R·T/P − Σ y·vt) · Σ y·M, with the
    compressibility factors the model selects, the mole fractions of the regenerated `mole_fraction` and the volume
    translation of the regenerated `volume_trans` (Lin–Duan or user Peneloux, whatever the source says now). -/
theorem gen_density_rows (cr : List ℝ → List ℝ × List ℝ) (T P : ℝ) (m M Pc Tc Vc w : List ℝ) (δ A B G : List (List ℝ))
    (cd : ℝ) (Cp CpT : List ℝ) (r0 r1 r2 i0 i1 i2 : ℝ) (hcr : ∀ p, cr p = ([r0, r1, r2], [i0, i1, i2])) :
    let c := EosFullPy.coefs T P m M Pc Tc w δ A B G cd
    let s := selectZ c.2.1 [(r0, i0), (r1, i1), (r2, i2)]
    let Svt := (List.zipWith (fun x y => x * y) (EosFullPy.mole_fraction m M)
      (EosFullPy.volume_trans T P m M Pc Tc Vc Cp CpT)).sum
    let SM := (List.zipWith (fun x y => x * y) (EosFullPy.mole_fraction m M) M).sum
    EosFullPy.density cr T P m M Pc Tc Vc w δ A B G cd Cp CpT
      = [[1 / (s.1 * 8.31451 * T / P - Svt) * SM], [1 / (s.2 * 8.31451 * T / P - Svt) * SM]] := by
  intro c s Svt SM
  have hsel := z_pr_select_refines cr T P m M Pc Tc w δ A B G cd r0 r1 r2 i0 i1 i2 hcr
  have h10 : (1.0:ℝ) = 1 := by norm_num
  simp only [] at hsel
  simp only [EosFullPy.density]
  rw [hsel]
  simp [Num.real_sum, Num.real_ofSci, h10, s, c, Svt, SM]

/-- **Gas row not denser than liquid row of the regenerated `density`**, under the root-finder contract and the
    hypotheses of the model theorem `gas_not_denser`: T, P > 0, non-negative molar mass Σ y·M and a positive
    translated molar volume of the liquid root. -/
theorem gen_gas_not_denser (cr : List ℝ → List ℝ × List ℝ) (T P : ℝ) (m M Pc Tc Vc w : List ℝ) (δ A B G : List (List ℝ))
    (cd : ℝ) (Cp CpT : List ℝ) (r0 r1 r2 i0 i1 i2 : ℝ) (hcr : ∀ p, cr p = ([r0, r1, r2], [i0, i1, i2])) :
    let c := EosFullPy.coefs T P m M Pc Tc w δ A B G cd
    let roots := [(r0, i0), (r1, i1), (r2, i2)]
    let Svt := (List.zipWith (fun x y => x * y) (EosFullPy.mole_fraction m M)
      (EosFullPy.volume_trans T P m M Pc Tc Vc Cp CpT)).sum
    let SM := (List.zipWith (fun x y => x * y) (EosFullPy.mole_fraction m M) M).sum
    0 < T → 0 < P → 0 < c.2.1 → RootsOf c.1 c.2.1 roots → 0 ≤ SM →
    0 < (selectZ c.2.1 roots).2 * 8.31451 * T / P - Svt →
    ∃ ρg ρl, EosFullPy.density cr T P m M Pc Tc Vc w δ A B G cd Cp CpT = [[ρg], [ρl]] ∧ ρg ≤ ρl ∧ 0 ≤ ρg := by
  intro c roots Svt SM hT hP hB hr hSM hν
  have hp := reported_roots_physical c.1 c.2.1 roots hB hr
  have hle : (selectZ c.2.1 roots).2 ≤ (selectZ c.2.1 roots).1 := hp.2.2.2.1
  have hk : 0 < 8.31451 * T / P := by positivity
  have hνle : (selectZ c.2.1 roots).2 * 8.31451 * T / P - Svt ≤ (selectZ c.2.1 roots).1 * 8.31451 * T / P - Svt := by
    have e1 : (selectZ c.2.1 roots).2 * 8.31451 * T / P = (selectZ c.2.1 roots).2 * (8.31451 * T / P) := by ring
    have e2 : (selectZ c.2.1 roots).1 * 8.31451 * T / P = (selectZ c.2.1 roots).1 * (8.31451 * T / P) := by ring
    rw [e1, e2]
    have := mul_le_mul_of_nonneg_right hle hk.le
    linarith
  refine ⟨_, _, gen_density_rows cr T P m M Pc Tc Vc w δ A B G cd Cp CpT r0 r1 r2 i0 i1 i2 hcr, ?_, ?_⟩
  · exact mul_le_mul_of_nonneg_right (one_div_le_one_div_of_le hν hνle) hSM
  · exact mul_nonneg (one_div_nonneg.mpr (lt_of_lt_of_le hν hνle).le) hSM

/-- **Refinement of the regenerated `volume_trans`**: entry i is the hand model's Lin–Duan translation
    `volTransLD` of component i when the first user Peneloux coefficient is zero, and the user shift
    `volTransUser` otherwise — the branch test of the source (`C_pen[0] == 0`) included. -/
theorem gen_volume_trans_refines (T P : ℝ) (m M Pc Tc Vc Cp CpT : List ℝ) (n i : ℕ)
    (hPc : Pc.length = n) (hTc : Tc.length = n) (hVc : Vc.length = n) (hCp : Cp.length = n) (hCpT : CpT.length = n)
    (hi : i < n) :
    (EosFullPy.volume_trans T P m M Pc Tc Vc Cp CpT).getD i 0
      = if Cp.getD 0 0 = 0 then volTransLD T (Pc.getD i 0) (Tc.getD i 0) (Vc.getD i 0)
        else volTransUser T (Cp.getD i 0) (CpT.getD i 0) := by
  have h1 : i < Pc.length := by omega
  have h2 : i < Tc.length := by omega
  have h3 : i < Vc.length := by omega
  have h4 : i < Cp.length := by omega
  have h5 : i < CpT.length := by omega
  have h00 : (0.0:ℝ) = 0 := by norm_num
  have h10 : (1.0:ℝ) = 1 := by norm_num
  simp only [EosFullPy.volume_trans, Num.real_ofSci, Num.real_zero, Num.real_ofNat, h00]
  by_cases hc : Cp.getD 0 0 = 0
  · rw [if_pos hc, if_pos (by rw [hc]; exact ⟨le_refl _, le_refl _⟩)]
    simp [volTransLD, RU, List.getD_eq_getElem?_getD, List.getElem?_map, List.getElem?_zipWith,
      List.getElem?_eq_getElem h1, List.getElem?_eq_getElem h2, List.getElem?_eq_getElem h3,
      Num.real_exp, Num.real_abs, Num.real_ofSci, h10]
    have hR : (8.314510:ℝ) = 8.31451 := by norm_num
    rw [hR]
  · rw [if_neg hc, if_neg (fun h => hc (le_antisymm h.1 h.2))]
    simp [volTransUser, List.getD_eq_getElem?_getD, List.getElem?_map, List.getElem?_zipWith,
      List.getElem?_eq_getElem h4, List.getElem?_eq_getElem h5, Num.real_ofSci]

theorem gen_volume_trans_length (T P : ℝ) (m M Pc Tc Vc Cp CpT : List ℝ) (n : ℕ)
    (hPc : Pc.length = n) (hTc : Tc.length = n) (hVc : Vc.length = n) (hCp : Cp.length = n) (hCpT : CpT.length = n) :
    (EosFullPy.volume_trans T P m M Pc Tc Vc Cp CpT).length = n := by
  simp only [EosFullPy.volume_trans]
  split_ifs <;> simp [hPc, hTc, hVc, hCp, hCpT]

theorem zipWith_mul_sum (a b : List ℝ) (n : ℕ) (ha : a.length = n) (hb : b.length = n) :
    (List.zipWith (fun x y => x * y) a b).sum = ∑ i ∈ range n, a.getD i 0 * b.getD i 0 := by
  rw [list_sum_eq_range _ n (by simp [ha, hb])]
  apply Finset.sum_congr rfl
  intro i hi
  exact getD_zipWith a b n i ha hb (mem_range.mp hi)

/-- **Refinement of the regenerated `density`**: its two rows are the hand model's `density` at the selected
    compressibility factors, on the refined mole fractions and the per-component translation of
    `gen_volume_trans_refines`. With `gen_volume_trans_refines` and `mole_fraction_refines` the theorem
    `gas_not_denser` of the model therefore speaks about the regenerated routine. -/
theorem gen_density_refines (cr : List ℝ → List ℝ × List ℝ) (T P : ℝ) (m M Pc Tc Vc w : List ℝ) (δ A B G : List (List ℝ))
    (cd : ℝ) (Cp CpT : List ℝ) (r0 r1 r2 i0 i1 i2 : ℝ) (n : ℕ) (hcr : ∀ p, cr p = ([r0, r1, r2], [i0, i1, i2]))
    (hm : m.length = n) (hM : M.length = n) (hPc : Pc.length = n) (hTc : Tc.length = n) (hVc : Vc.length = n)
    (hCp : Cp.length = n) (hCpT : CpT.length = n) :
    let c := EosFullPy.coefs T P m M Pc Tc w δ A B G cd
    let s := selectZ c.2.1 [(r0, i0), (r1, i1), (r2, i2)]
    let y := moleFraction n (ofL m) (ofL M)
    let vt := ofL (EosFullPy.volume_trans T P m M Pc Tc Vc Cp CpT)
    EosFullPy.density cr T P m M Pc Tc Vc w δ A B G cd Cp CpT
      = [[TamocV.Model.Eos.density n T P s.1 y (ofL M) vt], [TamocV.Model.Eos.density n T P s.2 y (ofL M) vt]] := by
  intro c s y vt
  have hy := mole_fraction_length m M n hm hM
  have hvt := gen_volume_trans_length T P m M Pc Tc Vc Cp CpT n hPc hTc hVc hCp hCpT
  have hrows := gen_density_rows cr T P m M Pc Tc Vc w δ A B G cd Cp CpT r0 r1 r2 i0 i1 i2 hcr
  simp only [] at hrows
  have hR : (RU : ℝ) = 8.31451 := RU_real
  have e1 : ∑ i ∈ range n, y i * vt i = (List.zipWith (fun x y => x * y) (EosFullPy.mole_fraction m M)
      (EosFullPy.volume_trans T P m M Pc Tc Vc Cp CpT)).sum := by
    rw [zipWith_mul_sum _ _ n hy hvt]
    apply Finset.sum_congr rfl
    intro i hi
    rw [mole_fraction_refines m M n i hm hM (mem_range.mp hi)]
    rfl
  have e2 : ∑ i ∈ range n, y i * ofL M i = (List.zipWith (fun x y => x * y) (EosFullPy.mole_fraction m M) M).sum := by
    rw [zipWith_mul_sum _ _ n hy hM]
    apply Finset.sum_congr rfl
    intro i hi
    rw [mole_fraction_refines m M n i hm hM (mem_range.mp hi)]
    rfl
  rw [hrows]
  simp only [TamocV.Model.Eos.density, sumN_eq, hR, e1, e2, s, c, Num.real_one, Num.real_ofNat]

end TamocV.Props.C01

namespace TamocV.Props.C01
open TamocV.Gen
/-! ### non-vacuity: the positivity hypothesis of `gen_fugacity_pos` is met by a concrete two-component feed
    (masses 1 and 3 kg, molar masses 1/2 and 1/2 kg/mol give mole fractions 1/4 and 3/4) -/
example : ∀ y ∈ (EosFullPy.coefs (300:ℝ) 1e5 [1, 3] [1/2, 1/2] [1, 1] [1, 1] [0, 0] [[0, 0], [0, 0]] [] [] [] 0).2.2.2.2,
    0 < y := by
  simp only [EosFullPy.coefs, EosFullPy.mole_fraction, Num.real_sum]
  norm_num
end TamocV.Props.C01
