/-
  C01 — Peng–Robinson state is a physical, thermodynamically consistent solution.
  Property theorems only (helper lemmas: TamocV/Lemmas/C01.lean, Eos.lean).
  Model: TamocV/Model/Eos.lean (hand transcription of dbm_p.coefs / z_pr / fugacity / density,
  tied to /repo by the correspondence run of harness/c01.py).  The cubic root finder is a
  parameter: `RootsOf A B roots` is its contract (validated per sample, exactly, in ℚ).

  Proved here for ALL A, B, compositions, component counts:
    * the cubic at the co-volume limit and its equivalence with the PR pressure equation;
    * root selection: both reported factors are real roots of THIS cubic, lie above B, gas ≥ liquid,
      and coincide when only one physical root exists;
    * the criterion under which a spurious root below the co-volume exists (A < B + B²) and that the
      ORIGINAL selection threshold (> 0) picks it — the defect repaired in /repo (fix: z_pr … above B);
    * fugacities positive, log arguments positive, Σ y·Bp = 1, Σ y·Ap = 2, gas not denser than liquid.
  NOT proved (evaluated numerically on the real code by the harness, labelled tests): the pressure-
  derivative identity Σ y ∂lnφ/∂lnP = Z − 1, the Gibbs–Duhem relation in composition, φ → 1 as P → 0,
  positivity of the translated molar volume (Lin–Duan / Peneloux shift is empirical).
-/
import TamocV.Lemmas.C01
import TamocV.Lemmas.EosRefine

namespace TamocV.Props.C01
open TamocV.Model.Eos TamocV.Lemmas.Eos TamocV.Lemmas.C01 TamocV.Lemmas.EosRefine TamocV.Gen Finset

/-- contract of the cubic root finder: the real entries of `roots` are exactly the real roots -/
def RootsOf (A B : ℝ) (roots : List (ℝ × ℝ)) : Prop :=
  (∀ x, cubic A B x = 0 → ∃ z ∈ roots, z.2 = 0 ∧ z.1 = x) ∧ (∀ z ∈ roots, z.2 = 0 → cubic A B z.1 = 0)

theorem cubic_at_B (A B : ℝ) : cubic A B B = -2 * B^2 := by
  rw [cubic_real]; ring

theorem cubic_iff_pr (A B Z : ℝ) (hB : 0 < B) (hZ : B < Z) :
    cubic A B Z = 0 ↔ 1 / (Z - B) - A / (Z^2 + 2*B*Z - B^2) = 1 := by
  have h1 : Z - B ≠ 0 := by linarith
  have h2 : Z^2 + 2*B*Z - B^2 ≠ 0 := by nlinarith
  rw [cubic_factored, div_sub_div _ _ h1 h2, div_eq_one_iff_eq (mul_ne_zero h1 h2)]
  constructor <;> intro h <;> linarith

theorem spurious_root_exists (A B : ℝ) (hB : 0 < B) (hA : A < B + B^2) :
    ∃ z, 0 < z ∧ z < B ∧ cubic A B z = 0 := by
  have h0 : 0 < cubic A B 0 := by rw [cubic_real]; nlinarith
  have hBneg : cubic A B B < 0 := by rw [cubic_at_B]; nlinarith
  have hc := (cubic_continuous A B).continuousOn (s := Set.Icc 0 B)
  have := intermediate_value_Icc' (le_of_lt hB) hc
  have hmem : (0:ℝ) ∈ Set.Icc (cubic A B B) (cubic A B 0) := ⟨le_of_lt hBneg, le_of_lt h0⟩
  obtain ⟨z, hz, hz0⟩ := this hmem
  refine ⟨z, ?_, ?_, hz0⟩
  · rcases eq_or_lt_of_le hz.1 with h | h
    · rw [← h] at hz0; linarith
    · exact h
  · rcases eq_or_lt_of_le hz.2 with h | h
    · rw [h] at hz0; linarith
    · exact h

/-- a real root above B exists -/
theorem root_above_B_exists (A B : ℝ) (hB : 0 < B) : ∃ z, B < z ∧ cubic A B z = 0 := by
  have hBneg : cubic A B B < 0 := by rw [cubic_at_B]; nlinarith
  obtain ⟨X, hXB, hX⟩ : ∃ X, B < X ∧ 0 < cubic A B X := by
    have ha := abs_nonneg A
    have ha2 := neg_abs_le A
    refine ⟨B + 2 + |A|, by linarith, ?_⟩
    rw [cubic_factored]
    set a := |A| with hadef
    have hQ : (2 + a)^2 ≤ (B + 2 + a)^2 + 2*B*(B + 2 + a) - B^2 := by nlinarith
    have h1 : (2 + a)^2 * (1 + a) ≤ ((B + 2 + a)^2 + 2*B*(B + 2 + a) - B^2) * (1 + a) :=
      mul_le_mul_of_nonneg_right hQ (by linarith)
    have h2 : -(a * (2 + a)) ≤ A * (2 + a) := by nlinarith
    have h3 : (B + 2 + a - B - 1) = 1 + a := by ring
    have h4 : (B + 2 + a - B) = 2 + a := by ring
    rw [h3, h4]
    nlinarith
  have hc := (cubic_continuous A B).continuousOn (s := Set.Icc B X)
  obtain ⟨z, hz, hz0⟩ := intermediate_value_Icc (le_of_lt hXB) hc ⟨le_of_lt hBneg, le_of_lt hX⟩
  refine ⟨z, ?_, hz0⟩
  rcases eq_or_lt_of_le hz.1 with h | h
  · rw [← h] at hz0; linarith
  · exact h

/-- **Root selection is sound** (the code's `z_pr` with threshold `B`): with the root finder's
    contract, the reported gas factor `zg` and liquid factor `zl` are real roots of the mixture's
    cubic, both lie above the co-volume limit, `zl ≤ zg`, and they coincide when the cubic has only
    one real root above `B`. -/
theorem reported_roots_physical (A B : ℝ) (roots : List (ℝ × ℝ)) (hB : 0 < B) (hr : RootsOf A B roots) :
    let zg := (selectZ B roots).1
    let zl := (selectZ B roots).2
    cubic A B zg = 0 ∧ cubic A B zl = 0 ∧ B < zl ∧ zl ≤ zg ∧ B < zg ∧
      ((∀ z ∈ roots, z.2 = 0 → B < z.1 → ∀ w ∈ roots, w.2 = 0 → B < w.1 → z.1 = w.1) → zl = zg) := by
  intro zg zl
  have hsel := selectZ_eq B roots
  have hzg : zg = roots.foldl stepMax 0 := by simp only [zg, hsel]
  have hzl : zl = roots.foldl (stepMin B) (roots.foldl stepMax 0) := by simp only [zl, hsel]
  obtain ⟨x, hxB, hx0⟩ := root_above_B_exists A B hB
  obtain ⟨z, hz, hz0, hzx⟩ := hr.1 x hx0
  have hge : x ≤ zg := by rw [hzg, ← hzx]; exact foldMax_upper roots 0 z hz hz0
  have hgB : B < zg := lt_of_lt_of_le hxB hge
  -- zg is a real root
  have hg_root : ∃ w ∈ roots, w.2 = 0 ∧ w.1 = zg := by
    rcases foldMax_mem roots 0 with h | ⟨w, hw, hw0, hww⟩
    · exfalso; rw [← hzg] at h; linarith
    · exact ⟨w, hw, hw0, by rw [hzg]; exact hww⟩
  obtain ⟨wg, hwg, hwg0, hwgz⟩ := hg_root
  have hcg : cubic A B zg = 0 := by rw [← hwgz]; exact hr.2 wg hwg hwg0
  -- zl
  have hle : zl ≤ zg := by rw [hzl, hzg]; exact foldMin_le B roots _
  rcases foldMin_mem B roots (roots.foldl stepMax 0) with h | ⟨w, hw, hw0, hwt, hww⟩
  · have hzlg : zl = zg := by rw [hzl, hzg]; exact h
    exact ⟨hcg, by rw [hzlg]; exact hcg, by rw [hzlg]; exact hgB, hle, hgB, fun _ => hzlg⟩
  · have hwl : w.1 = zl := by rw [hzl]; exact hww
    refine ⟨hcg, by rw [← hwl]; exact hr.2 w hw hw0, by rw [← hwl]; exact hwt, hle, hgB, ?_⟩
    intro huniq
    rw [← hwl, ← hwgz]
    exact huniq w hw hw0 hwt wg hwg hwg0 (by rw [hwgz]; exact hgB)

/-- **The original selection threshold (`> 0`) was unsound**: whenever `A < B + B²` the cubic has a
    root in `(0, B)` and the smallest-positive-root rule reports a liquid factor BELOW the co-volume
    limit (then `log (Z − B)` is undefined and the liquid fugacity is NaN).  Kept as the negation
    witness of the repaired defect: a change of the threshold back to 0 re-introduces it. -/
theorem zero_threshold_picks_spurious_root (A B : ℝ) (roots : List (ℝ × ℝ)) (hB : 0 < B)
    (hA : A < B + B^2) (hr : RootsOf A B roots) : (selectZ 0 roots).2 < B := by
  obtain ⟨x, hx0, hxB, hxr⟩ := spurious_root_exists A B hB hA
  obtain ⟨z, hz, hz0, hzx⟩ := hr.1 x hxr
  have := foldMin_lower 0 roots (roots.foldl stepMax 0) z hz hz0 (by rw [hzx]; exact hx0)
  rw [selectZ_eq]
  simp only
  linarith

/-- Σ y_i Bp_i = 1 -/
theorem sum_y_Bp (n : ℕ) (T P : ℝ) (y a b : ℕ → ℝ) (δ : ℕ → ℕ → ℝ)
    (hbd : ∑ i ∈ range n, y i * b i ≠ 0) :
    ∑ i ∈ range n, y i * (mix n T P y a b δ).Bp i = 1 := by
  simp only [mix, sumN_eq]
  have : ∀ i, y i * (b i / ∑ i ∈ range n, y i * b i) = (y i * b i) / ∑ i ∈ range n, y i * b i := by
    intro i; ring
  simp only [this]
  rw [← Finset.sum_div, div_self hbd]

/-- Σ y_i Ap_i = 2 -/
theorem sum_y_Ap (n : ℕ) (T P : ℝ) (y a b : ℕ → ℝ) (δ : ℕ → ℕ → ℝ)
    (ha : ∀ i, 0 ≤ a i)
    (haT : ∑ j ∈ range n, ∑ i ∈ range n, y i * y j * (a i * a j) ^ ((1:ℝ)/2) * (1 - δ i j) ≠ 0) :
    ∑ i ∈ range n, y i * (mix n T P y a b δ).Ap i = 2 := by
  simp only [mix, sumN_eq, Num.real_rpow, Num.real_one, Num.real_ofNat]
  set aT := ∑ j ∈ range n, ∑ i ∈ range n, y i * y j * (a i * a j) ^ ((1:ℝ)/2) * (1 - δ i j) with haTdef
  have h1 : ∀ i, y i * (1 / aT * (2 * a i ^ ((1:ℝ)/2) * ∑ j ∈ range n, y j * a j ^ ((1:ℝ)/2) * (1 - δ j i)))
      = (2 / aT) * ∑ j ∈ range n, y j * y i * (a j * a i) ^ ((1:ℝ)/2) * (1 - δ j i) := by
    intro i
    rw [Finset.mul_sum, Finset.mul_sum, Finset.mul_sum, Finset.mul_sum]
    apply Finset.sum_congr rfl
    intro j _
    rw [rpow_half_mul _ _ (ha j) (ha i)]
    ring
  simp only [h1]
  rw [← Finset.mul_sum]
  have : ∑ i ∈ range n, ∑ j ∈ range n, y j * y i * (a j * a i) ^ ((1:ℝ)/2) * (1 - δ j i) = aT := by
    rw [haTdef]
  rw [this]
  field_simp

/-- fugacities are positive wherever the mole fraction and the pressure are -/
theorem fugacity_pos (c : Coefs ℝ) (P Z : ℝ) (i : ℕ) (hy : 0 < c.yk i) (hP : 0 < P) :
    0 < fugacity c P Z i := by
  simp only [fugacity, Num.real_exp]
  exact mul_pos (mul_pos (Real.exp_pos _) hy) hP

/-- both logarithm arguments of the fugacity expression are positive for Z > B > 0 -/
theorem lnPhi_args_pos (B Z : ℝ) (hB : 0 < B) (hZ : B < Z) :
    0 < Z - B ∧ 0 < (Z + (Real.sqrt 2 + 1) * B) / (Z - (Real.sqrt 2 - 1) * B) := by
  have hs : Real.sqrt 2 < 2 := by
    rw [Real.sqrt_lt' (by norm_num)]; norm_num
  have hs0 : 0 ≤ Real.sqrt 2 := Real.sqrt_nonneg 2
  refine ⟨by linarith, div_pos ?_ ?_⟩
  · nlinarith
  · nlinarith

theorem gas_not_denser (n : ℕ) (T P Zg Zl : ℝ) (y M vt : ℕ → ℝ) (hT : 0 < T) (hP : 0 < P)
    (hZ : Zl ≤ Zg) (hM : 0 ≤ ∑ i ∈ range n, y i * M i)
    (hnu : 0 < Zl * RU * T / P - ∑ i ∈ range n, y i * vt i) :
    density n T P Zg y M vt ≤ density n T P Zl y M vt := by
  simp only [density, sumN_eq, Num.real_one] at *
  have hR : (0:ℝ) < RU := by simp only [RU, Num.real_ofSci]; norm_num
  have hk : 0 < RU * T / P := div_pos (mul_pos hR hT) hP
  have h1 : Zl * RU * T / P ≤ Zg * RU * T / P := by
    have : Zl * (RU * T / P) ≤ Zg * (RU * T / P) := mul_le_mul_of_nonneg_right hZ (le_of_lt hk)
    calc Zl * RU * T / P = Zl * (RU * T / P) := by ring
      _ ≤ Zg * (RU * T / P) := this
      _ = Zg * RU * T / P := by ring
  have hnug : 0 < Zg * RU * T / P - ∑ i ∈ range n, y i * vt i := by linarith
  have : 1 / (Zg * RU * T / P - ∑ i ∈ range n, y i * vt i) ≤ 1 / (Zl * RU * T / P - ∑ i ∈ range n, y i * vt i) :=
    one_div_le_one_div_of_le hnu (by linarith)
  exact mul_le_mul_of_nonneg_right this hM

/-! ### Refinement: the hand model is refined by the code REGENERATED from dbm_p.py on every run

`Gen.EosFullPy.coefs` / `z_pr` are produced by translate/py2ir2.py from /repo/tamoc/dbm_p.py (and equal the
Fortran transcription by `Props.C08.pair_full_*`).  The theorems above are about `Model.Eos`; the two theorems
below carry them over to the regenerated definitions, so that a change of dbm_p.coefs / z_pr that invalidates
the hand model breaks a proof here (and not only the value correspondence of the harness).
The group-contribution branch (calc_delta > 0: in-place double loop over the δ matrix) is refined in
`Props/C01GC.lean` (`coefs_refines_gc`, closed form of the nested fold in `Lemmas/EosRefineGC.lean`). -/

/-- **Refinement (group contributions off)**: every output of the `coefs` regenerated from dbm_p.py equals the
    corresponding output of the hand model `Model.Eos.coefs`, for all inputs of consistent lengths. -/
theorem coefs_refines_no_gc (T P : ℝ) (m M Pc Tc w : List ℝ) (δ A B G : List (List ℝ)) (cd : ℝ) (n : ℕ)
    (hm : m.length = n) (hM : M.length = n) (hPc : Pc.length = n) (hTc : Tc.length = n) (hδ : δ.length = n)
    (hcd : cd ≤ 0) :
    let g := EosFullPy.coefs T P m M Pc Tc w δ A B G cd
    let h := TamocV.Model.Eos.coefs n T P (ofL m) (ofL M) (ofL Pc) (ofL Tc) (ofL w) false (ofM G) (ofM A) (ofM B) (ofM δ)
    g.1 = h.A ∧ g.2.1 = h.B ∧ (∀ i, i < n → g.2.2.1.getD i 0 = h.Ap i) ∧ (∀ i, i < n → g.2.2.2.1.getD i 0 = h.Bp i)
      ∧ (∀ i, i < n → g.2.2.2.2.getD i 0 = h.yk i) := by
  intro g h
  refine ⟨coefs_A_refines T P m M Pc Tc w δ A B G cd n hm hM hPc hTc hcd,
    coefs_B_refines T P m M Pc Tc w δ A B G cd n hm hM hPc hTc, ?_, ?_, ?_⟩
  · -- Ap
    intro i hi
    have hnc : ¬ ((0:ℝ) < cd) := not_lt.mpr hcd
    subst hm
    simp only [g, h, EosFullPy.coefs, TamocV.Model.Eos.coefs, mix, sumN_eq, Nat.sub_zero, Num.real_ofSci, Num.real_sum,
      Num.real_npow, Num.real_rpow, Num.real_zero, Num.real_one, Num.real_ofNat, if_neg hnc, deltaUsed, Bool.false_and,
      Bool.false_eq_true, if_false, mu_list_eq, foldl_add_range', foldl_set_replicate]
    simp only [← aList.eq_1]
    have h00 : (0.0:ℝ) = 0 := by norm_num
    have h10 : (1.0:ℝ) = 1 := by norm_num
    have h20 : (2.0:ℝ) = 2 := by norm_num
    rw [h00, h10, h20, getD_range_map _ _ i hi, aT_fold_eq T m M Pc Tc w δ hM hPc hTc,
      aList_getD T Pc Tc w _ i hPc hTc hi]
    congr 2
    -- the inner sum over j
    have hy := mole_fraction_length m M _ rfl hM
    have hal := aList_length T Pc Tc w m.length hPc hTc
    have hal2 : ((aList T Pc Tc w m.length).map fun x => x ^ ((1:ℝ) / 2)).length = m.length := by simp [hal]
    have hz1 : (List.zipWith (fun x y => x * y) (EosFullPy.mole_fraction m M)
        ((aList T Pc Tc w m.length).map fun x => x ^ ((1:ℝ) / 2))).length = m.length := by simp [hy, hal]
    have hcol : ((δ.map fun r => r.getD i 0).map fun y => (1:ℝ) - y).length = m.length := by simp [hδ]
    have hz2 : (List.zipWith (fun x y => x * y) (List.zipWith (fun x y => x * y) (EosFullPy.mole_fraction m M)
        ((aList T Pc Tc w m.length).map fun x => x ^ ((1:ℝ) / 2))) ((δ.map fun r => r.getD i 0).map fun y => (1:ℝ) - y)).length
        = m.length := by simp [hy, hal, hδ]
    rw [list_sum_eq_range _ _ hz2]
    apply Finset.sum_congr rfl
    intro j hj
    have hj' := mem_range.mp hj
    rw [getD_zipWith _ _ _ j hz1 hcol hj', getD_zipWith _ _ _ j hy hal2 hj', getD_map _ _ j hal hj',
      mole_fraction_refines m M _ j rfl hM hj', aList_getD T Pc Tc w _ j hPc hTc hj', col_getD δ _ i j hδ hj']
  · -- Bp
    intro i hi
    subst hm
    simp only [g, h, EosFullPy.coefs, TamocV.Model.Eos.coefs, mix, sumN_eq, Nat.sub_zero, Num.real_ofSci, Num.real_sum]
    have hb : (List.zipWith (fun x y => x / y) (List.map (fun y => (0.0778:ℝ) * 8.31451 * y) Tc) Pc).length = m.length := by
      simp [hTc, hPc]
    have hy := mole_fraction_length m M _ rfl hM
    have hz : (List.zipWith (fun x y => x * y) (EosFullPy.mole_fraction m M)
        (List.zipWith (fun x y => x / y) (List.map (fun y => (0.0778:ℝ) * 8.31451 * y) Tc) Pc)).length = m.length := by
      simp [hy, hb]
    rw [getD_map _ _ i hb hi, bk_list_getD Tc Pc _ i hTc hPc hi, list_sum_eq_range _ _ hz]
    congr 1
    apply Finset.sum_congr rfl
    intro j hj
    have hj' := mem_range.mp hj
    rw [getD_zipWith _ _ _ j hy hb hj', mole_fraction_refines m M _ j rfl hM hj', bk_list_getD Tc Pc _ j hTc hPc hj']
  · -- yk
    intro i hi
    simp only [g, h, EosFullPy.coefs, TamocV.Model.Eos.coefs, mix]
    exact mole_fraction_refines m M n i hm hM hi

/-- **The root selection theorem holds of the regenerated `z_pr`**: if the root finder handed to the regenerated
    routine returns the three roots `(r_k, i_k)` and these are the roots of the mixture's cubic (contract), the
    compressibility factors that the regenerated `z_pr` reports are real roots of that cubic above the co-volume
    limit, gas ≥ liquid, and equal when only one physical root exists. -/
theorem gen_reported_roots_physical (cr : List ℝ → List ℝ × List ℝ) (T P : ℝ) (m M Pc Tc w : List ℝ)
    (δ A B G : List (List ℝ)) (cd r0 r1 r2 i0 i1 i2 : ℝ)
    (hcr : ∀ p, cr p = ([r0, r1, r2], [i0, i1, i2])) :
    let c := EosFullPy.coefs T P m M Pc Tc w δ A B G cd
    let roots := [(r0, i0), (r1, i1), (r2, i2)]
    0 < c.2.1 → RootsOf c.1 c.2.1 roots →
    ∃ zg zl, (EosFullPy.z_pr cr T P m M Pc Tc w δ A B G cd).1 = [[zg], [zl]] ∧
      cubic c.1 c.2.1 zg = 0 ∧ cubic c.1 c.2.1 zl = 0 ∧ c.2.1 < zl ∧ zl ≤ zg ∧
      ((∀ z ∈ roots, z.2 = 0 → c.2.1 < z.1 → ∀ w' ∈ roots, w'.2 = 0 → c.2.1 < w'.1 → z.1 = w'.1) → zl = zg) := by
  intro c roots hB hr
  have hsel := z_pr_select_refines cr T P m M Pc Tc w δ A B G cd r0 r1 r2 i0 i1 i2 hcr
  have hp := reported_roots_physical c.1 c.2.1 roots hB hr
  exact ⟨(selectZ c.2.1 roots).1, (selectZ c.2.1 roots).2, hsel, hp.1, hp.2.1, hp.2.2.1, hp.2.2.2.1, hp.2.2.2.2.2⟩

/-- **The regenerated `fugacity` is evaluated inside the domain of its logarithms**: under the root-finder
    contract and 0 < B, both compressibility factors that the regenerated `z_pr` hands to the fugacity expression
    satisfy Z − B > 0 and (Z + (√2+1)B)/(Z − (√2−1)B) > 0 — so the positivity of the fugacities (`fugacity_pos`) is
    not an artefact of the totalised `Real.log`. -/
theorem gen_fugacity_log_args_pos (cr : List ℝ → List ℝ × List ℝ) (T P : ℝ) (m M Pc Tc w : List ℝ)
    (δ A B G : List (List ℝ)) (cd r0 r1 r2 i0 i1 i2 : ℝ)
    (hcr : ∀ p, cr p = ([r0, r1, r2], [i0, i1, i2])) :
    let c := EosFullPy.coefs T P m M Pc Tc w δ A B G cd
    let roots := [(r0, i0), (r1, i1), (r2, i2)]
    0 < c.2.1 → RootsOf c.1 c.2.1 roots →
    ∃ zg zl, (EosFullPy.z_pr cr T P m M Pc Tc w δ A B G cd).1 = [[zg], [zl]] ∧
      (0 < zg - c.2.1 ∧ 0 < (zg + (Real.sqrt 2 + 1) * c.2.1) / (zg - (Real.sqrt 2 - 1) * c.2.1)) ∧
      (0 < zl - c.2.1 ∧ 0 < (zl + (Real.sqrt 2 + 1) * c.2.1) / (zl - (Real.sqrt 2 - 1) * c.2.1)) := by
  intro c roots hB hr
  obtain ⟨zg, zl, hz, _, _, hBl, hlg, _⟩ := gen_reported_roots_physical cr T P m M Pc Tc w δ A B G cd r0 r1 r2 i0 i1 i2 hcr hB hr
  exact ⟨zg, zl, hz, lnPhi_args_pos _ _ hB (lt_of_lt_of_le hBl hlg), lnPhi_args_pos _ _ hB hBl⟩

/-! ### non-vacuity of the root-finder contract: A = 35/36, B = 5/6 has the three real roots −5/3, 1/6 (below B: the
    spurious one) and 5/3 (the single physical root) -/
private theorem cubic_example_factor (x : ℝ) : cubic (35/36) (5/6) x = (x + 5/3) * (x - 1/6) * (x - 5/3) := by
  rw [cubic_real]; ring

example : RootsOf (35/36) (5/6) [((-5/3 : ℝ), 0), (1/6, 0), (5/3, 0)] := by
  constructor
  · intro x hx
    rw [cubic_example_factor] at hx
    rcases mul_eq_zero.mp hx with h | h
    · rcases mul_eq_zero.mp h with h | h
      · exact ⟨(-5/3, 0), by simp, rfl, by simp; linarith⟩
      · exact ⟨(1/6, 0), by simp, rfl, by simp; linarith⟩
    · exact ⟨(5/3, 0), by simp, rfl, by simp; linarith⟩
  · intro z hz _
    rw [cubic_example_factor]
    simp at hz
    rcases hz with rfl | rfl | rfl <;> norm_num

/-- … and on it the selection reports the single physical root for both phases -/
example : ∃ zg zl : ℝ, cubic (35/36) (5/6) zg = 0 ∧ cubic (35/36) (5/6) zl = 0 ∧ (5/6 : ℝ) < zl ∧ zl ≤ zg :=
  ⟨5/3, 5/3, by rw [cubic_example_factor]; norm_num, by rw [cubic_example_factor]; norm_num, by norm_num, le_refl _⟩

/-- the hypotheses of `spurious_root_exists` hold at A = 0, B = 1 -/
example : ∃ z : ℝ, 0 < z ∧ z < 1 ∧ cubic 0 1 z = 0 := spurious_root_exists 0 1 (by norm_num) (by norm_num)

end TamocV.Props.C01
