/-
  C09 — Bundled and individual particle property calls agree.
  Property theorems only.  `TamocV.Model.Particle09` is the hand transcription of the call
  structure of dbm.FluidParticle / dbm.InsolubleParticle over an abstract library; here the
  library is PURE (`Lib Id α`).  All theorems hold for every number type `α` (they use the call
  structure only, no arithmetic law), in particular for `ℝ`; the refutations exhibit concrete
  libraries over `ℝ`.

  The model carries the CODE VARIANT (`FluidPar.code`): `Code.asWritten` transcribes dbm.py as first
  read (the two defects present), `Code.repaired` the text with `elif np.sum(mi[1,:]) == 0.:` in the
  five individual methods and row `[0, 0]` in the single-phase-gas viscosity branch.  The harness
  determines which variant the tree under test is and runs the correspondence against that variant.
    * `return_all_eq_individual`            — FULL statement, for the repaired code;
    * `return_all_eq_individual_partial`    — any variant, the defect conditions as hypotheses;
    * `not_return_all_eq_individual` & co.  — refutation of the full statement for the code as written.

  Hypotheses (each stated explicitly where used):
    * `FlashStable`  — hEq: the phase split returned by the flash does not depend on the
                       warm-start partition coefficients (numerically true to flash tolerance);
    * `ShapeContract` — the library's `particle_shape` answers 1, 2 or 3 (dbm_p.particle_shape
                       l.196-203 has exactly these three exits);
    * `BranchAgree`  — excludes defect (a): in five individual methods the second mixed-phase
                       branch tests `np.sum(mi[1,:] == 0)` (number of zero entries of the liquid
                       row) where `return_all` tests `np.sum(mi[1,:]) == 0` (liquid total);
    * `ViscRowsAgree` / `DirtyIgnoresMuP` — excludes the observable effect of defect (b):
                       `FluidParticle.viscosity` reads row `[1,0]` in the single-phase-gas branch.
-/
import TamocV.Real
import TamocV.Lemmas.Basic
import TamocV.Lemmas.C09
import TamocV.Model.Particle09
import Mathlib.Tactic.NormNum

namespace TamocV.Props.C09
open TamocV.Model.Particle09 TamocV.Lemmas.C09

variable {α : Type} [Num α]

section
variable {lib : Lib Id α} {par : FluidPar α} {m : List α} {T P : α}

-- ------------------------------------------------------------------ FluidParticle: the property

/-- **C09, fluid particles (partial: the two defect conditions are excluded by hypothesis).**
    For every library, particle, cache contents and input: `return_all` returns exactly the tuple
    assembled from `particle_shape()[0]`, `diameter`, `density`, `slip_velocity`, `surface_area`,
    `solubility`, `mass_transfer`, `heat_transfer()[0]` called one after the other — for gas and
    liquid particles (fp_type < 2) unconditionally (given the shape contract of the library), for
    mixed-phase particles under `FlashStable` (hEq), `BranchAgree` (defect (a) excluded) and
    `ViscRowsAgree` (defect (b) excluded).  What is missing for the full statement: the two
    exclusions are NOT consequences of the code — see `not_return_all_eq_individual`. -/
theorem return_all_eq_individual_partial (lib : Lib Id α) (par : FluidPar α) (K K' : KSt α) (x : Inp α)
    (hs : ShapeContract lib) (hf : par.fpType < 2 ∨ FlashStable lib x.m x.T x.P)
    (hd : par.fpType < 2 ∨ (BranchAgree lib par x.m x.T x.P ∧ ViscRowsAgree lib par x.m x.T x.P)) :
    (returnAll lib par K x).1 = (individual lib par K' x).1 := by
  obtain ⟨m, T, P, Sa, Ta, clean⟩ := x
  simp only at hf hd
  have hb : par.fpType < 2 ∨ BranchAgree lib par m T P := hd.imp id And.left
  rw [individual_fst hf]
  unfold returnAll
  simp only [bind, pure, apply_ite Prod.fst, phase_fst hf, phase_rhoP Sa hb, phase_sigma Sa hb,
    phase_muP Sa hd, phase_Cs Sa hb]
  simp only [slipV_eq hf, areaV_eq hf, massTransferV_eq hf, heatTransferV_eq hf, shapeV_eq hf,
    diameterV_eq, effClean_idem, Id.run]
  rcases hs (deOf (Num.sum m) (densityV lib par m T P)) (densityV lib par m T P) (lib.swDensity Ta Sa P)
      (lib.swMu Ta Sa P) (sigmaV lib par m T Sa P) with h1 | h1 | h1 <;> simp [h1]

/-- gas and liquid particles: no hypothesis on the flash, no defect condition -/
theorem return_all_eq_individual_single_phase (lib : Lib Id α) (par : FluidPar α) (K K' : KSt α)
    (x : Inp α) (hs : ShapeContract lib) (hfp : par.fpType < 2) :
    (returnAll lib par K x).1 = (individual lib par K' x).1 :=
  return_all_eq_individual_partial lib par K K' x hs (Or.inl hfp) (Or.inl hfp)

/-- **C09, fluid particles, FULL statement — for the repaired code** (`Code.repaired`: liquid-total
    test in the individual methods, gas row in the single-phase-gas viscosity branch): for every
    library with the shape contract, every particle (gas, liquid, mixed), every cache contents and
    every input, under the single hypothesis hEq (`FlashStable`, needed for mixed-phase particles
    only), `return_all` is exactly the tuple assembled from the individual methods. -/
theorem return_all_eq_individual (lib : Lib Id α) (par : FluidPar α) (K K' : KSt α) (x : Inp α)
    (hcode : par.code = Code.repaired) (hs : ShapeContract lib)
    (hf : par.fpType < 2 ∨ FlashStable lib x.m x.T x.P) :
    (returnAll lib par K x).1 = (individual lib par K' x).1 :=
  return_all_eq_individual_partial lib par K K' x hs hf
    (Or.inr ⟨branchAgree_of_repaired lib par x.m x.T x.P (by rw [hcode]; rfl),
             viscRowsAgree_of_repaired lib par x.m x.T x.P (by rw [hcode]; rfl)⟩)

/-- **Why defect (b) does not reach the returned tuple on the real library.**  Same statement with
    `ViscRowsAgree` replaced by a contract of the library correlations: for dirty particles
    (`status = -1`, which the code forces for fp_type = 2) `us_ellipsoid`, `xfer_sphere` and
    `xfer_ellipsoid` ignore the particle viscosity.  So with such a library only defect (a) can
    separate the two tuples of a mixed-phase particle. -/
theorem return_all_eq_individual_dirty_library (lib : Lib Id α) (par : FluidPar α) (K K' : KSt α)
    (x : Inp α) (hs : ShapeContract lib) (hfp : 2 ≤ par.fpType)
    (hf : FlashStable lib x.m x.T x.P) (hb : BranchAgree lib par x.m x.T x.P)
    (hdirty : DirtyIgnoresMuP lib) :
    (returnAll lib par K x).1 = (individual lib par K' x).1 := by
  obtain ⟨m, T, P, Sa, Ta, clean⟩ := x
  simp only at hf hb
  have hst : Stable lib par m T P := Or.inr hf
  have hb' : par.fpType < 2 ∨ BranchAgree lib par m T P := Or.inr hb
  have hc : effClean par clean = false := by
    unfold effClean; rw [if_neg (Nat.not_lt.mpr hfp)]
  have hc2 : effClean par false = false := by
    unfold effClean; split <;> rfl
  rw [individual_fst hst]
  unfold returnAll
  simp only [bind, pure, apply_ite Prod.fst, phase_fst hst, phase_rhoP Sa hb', phase_sigma Sa hb',
    phase_Cs Sa hb']
  simp only [slipV_eq hst, areaV_eq hst, massTransferV_eq hst, heatTransferV_eq hst, shapeV_eq hst,
    diameterV_eq, Id.run, hc, hc2]
  simp only [hdirty.1 _ _ _ (phaseV lib par m T Sa P).muP (viscosityV lib par m T P),
    hdirty.2.1 _ _ _ _ _ _ (phaseV lib par m T Sa P).muP (viscosityV lib par m T P),
    hdirty.2.2 _ _ _ _ _ _ (phaseV lib par m T Sa P).muP (viscosityV lib par m T P)]
  rcases hs (deOf (Num.sum m) (densityV lib par m T P)) (densityV lib par m T P) (lib.swDensity Ta Sa P)
      (lib.swMu Ta Sa P) (sigmaV lib par m T Sa P) with h1 | h1 | h1 <;> simp [h1]

-- ------------------------------------------------------------------ InsolubleParticle: the property

/-- **C09, inert particles: full strength.**  For every library (with the shape contract), every
    inert particle (fluid or solid, compressible or not, fp_type 0/1) and every input,
    `InsolubleParticle.return_all` is exactly the tuple assembled from `particle_shape()[0]`,
    `diameter`, `density`, `slip_velocity`, `surface_area`, `heat_transfer()[0]`. -/
theorem inert_return_all_eq_individual (lib : Lib Id α) (par : InertPar α) (x : IInp α)
    (hs : ShapeContract lib) : iReturnAll lib par x = iIndividual lib par x := by
  obtain ⟨m, T, P, Sa, Ta, clean⟩ := x
  unfold iReturnAll iIndividual iHeatTransfer iSurfaceArea iSlipVelocity iParticleShape iDiameter thermalDiff
  simp only [bind, pure]
  by_cases hfl : par.isfluid = true
  · simp only [hfl, if_true]
    rcases hs (deOf m (iDensity lib par T P)) (iDensity lib par T P) (lib.swDensity Ta Sa P)
      (lib.swMu Ta Sa P) (iInterfaceTension lib par T) with h1 | h1 | h1 <;> simp [h1]
  · simp [hfl]

end

-- ------------------------------------------------------------------ refutations (concrete libraries over ℝ)
section Refutation

/-- **Defect (a), Lean witness.**  Flash result: gas row (1, 1), liquid row (1, 0) — a liquid phase
    of total mass 1 one of whose components has zero mass; phase densities 1 (gas) and 2 (liquid).
    `return_all` reports the two-phase density (2 + 1)/(2/1 + 1/2) = 6/5, `density` takes the
    single-phase-gas branch and reports 1. -/
theorem zero_entry_density :
    (returnAll constLib mixedPar none someInput).1.rhoP = 6 / 5 ∧
    (individual constLib mixedPar none someInput).1.rhoP = 1 := by
  constructor
  · simp only [returnAll, phaseProps, phaseOfFlash, mixInterfaceTension, bind, pure, constLib, mixedPar, someInput,
      apply_ite Prod.fst, sum11, sum10, not_isZero_two, not_bundle_branch_10, if_false, if_true, mixDensity]
    norm_num
  · rw [individual_fst (Or.inr (constLib_stable _ _ _))]
    simp only [densityV, density, densityOfFlash, bind, pure, constLib, mixedPar, someInput, sum11,
      not_isZero_two, indiv_branch_10, if_false, if_true]
    norm_num

/-- the hypotheses of the partial theorem other than `BranchAgree` hold for this witness -/
theorem zero_entry_hyps :
    ShapeContract constLib ∧ FlashStable constLib someInput.m someInput.T someInput.P ∧
    ViscRowsAgree constLib mixedPar someInput.m someInput.T someInput.P := by
  refine ⟨constLib_shape, constLib_stable _ _ _, ?_⟩
  intro _ _ hl
  exact absurd hl (by simp only [mi1, constLib]; exact not_bundle_branch_10)

/-- **The full-strength statement of C09 is FALSE of the code as written** (negation witness for
    defect (a)): stable flash, shape contract, and still the two tuples differ. -/
theorem not_return_all_eq_individual :
    ¬ ∀ (lib : Lib Id ℝ) (par : FluidPar ℝ) (K K' : KSt ℝ) (x : Inp ℝ), par.code = Code.asWritten →
        ShapeContract lib → FlashStable lib x.m x.T x.P →
        (returnAll lib par K x).1 = (individual lib par K' x).1 := by
  intro h
  have := h constLib mixedPar none none someInput rfl constLib_shape (constLib_stable _ _ _)
  have h1 := zero_entry_density.1
  have h2 := zero_entry_density.2
  rw [this] at h1
  rw [h1] at h2
  norm_num at h2

/-- **Defect (b), Lean witness.**  Flash returns gas only; the gas phase has viscosity rows
    (1, 2).  `return_all` uses the gas row (1); `FluidParticle.viscosity` returns the liquid row (2)
    although `BranchAgree` holds. -/
theorem viscosity_row_witness :
    (phaseProps gasOnlyLib mixedPar none gasInput.m gasInput.T gasInput.Sa gasInput.P).1.muP = 1 ∧
    (viscosity gasOnlyLib mixedPar none gasInput.m gasInput.T gasInput.P).1 = 2 := by
  constructor
  · simp only [phaseProps, phaseOfFlash, mixInterfaceTension, bind, pure, gasOnlyLib, constLib, mixedPar, gasInput,
      sum1, not_isZero_one, bundle_branch_0, if_false, if_true]
    norm_num
  · simp only [viscosity, viscosityOfFlash, bind, pure, gasOnlyLib, constLib, mixedPar, gasInput, sum1,
      not_isZero_one, indiv_branch_0, if_false, if_true]
    norm_num [Code.asWritten]

/-- … and with a library whose ellipsoid slip velocity depends on the particle viscosity for dirty
    particles (here: `us_ellipsoid = mu_p`) the difference reaches the tuple: slip velocity 1 vs 2.
    Hence `ViscRowsAgree` (or `DirtyIgnoresMuP`) cannot be dropped from the partial theorems. -/
theorem viscosity_row_reaches_tuple :
    ShapeContract gasOnlyLib ∧ FlashStable gasOnlyLib gasInput.m gasInput.T gasInput.P ∧
    BranchAgree gasOnlyLib mixedPar gasInput.m gasInput.T gasInput.P ∧
    (returnAll gasOnlyLib mixedPar none gasInput).1.us = 1 ∧
    (individual gasOnlyLib mixedPar none gasInput).1.us = 2 := by
  have hst : FlashStable gasOnlyLib gasInput.m gasInput.T gasInput.P := fun _ _ => ⟨rfl, rfl⟩
  refine ⟨fun _ _ _ _ _ => Or.inr (Or.inl rfl), hst, gasOnly_branchAgree, ?_, ?_⟩
  · simp only [returnAll, phaseProps, phaseOfFlash, mixInterfaceTension, bind, pure, gasOnlyLib, constLib, mixedPar,
      gasInput, apply_ite Prod.fst, sum1, not_isZero_one, bundle_branch_0, if_false, if_true]
    norm_num
  · rw [individual_fst (Or.inr hst)]
    simp only [slipV_eq (Or.inr hst), shapeV_eq (Or.inr hst)]
    simp only [viscosityV, viscosity, viscosityOfFlash, bind, pure, gasOnlyLib, constLib, mixedPar, gasInput, sum1,
      not_isZero_one, indiv_branch_0, if_false, if_true]
    norm_num [Code.asWritten]

end Refutation

-- ------------------------------------------------------------------ non-vacuity of the hypotheses
section Examples

/-- the hypotheses of `return_all_eq_individual_partial` are satisfiable by a genuinely two-phase
    particle (mixed fp_type, both phase totals non-zero, flash independent of the cache) -/
example : ShapeContract twoPhaseLib ∧ FlashStable twoPhaseLib someInput.m someInput.T someInput.P ∧
    BranchAgree twoPhaseLib mixedPar someInput.m someInput.T someInput.P ∧
    ViscRowsAgree twoPhaseLib mixedPar someInput.m someInput.T someInput.P ∧
    ¬ isZero (Num.sum (mi0 twoPhaseLib someInput.m someInput.T someInput.P)) ∧
    ¬ isZero (Num.sum (mi1 twoPhaseLib someInput.m someInput.T someInput.P)) := by
  have h1 : ¬ bundleGasBranch ([1, 1] : List ℝ) := by
    unfold bundleGasBranch; rw [sum11]; exact not_isZero_two
  refine ⟨fun _ _ _ _ _ => Or.inr (Or.inl rfl), fun _ _ => ⟨rfl, rfl⟩, ?_, ?_, ?_, ?_⟩
  · intro _
    simp only [mi1, twoPhaseLib, mixedPar]
    exact ⟨fun h => absurd h not_indiv_branch_11, fun h => absurd h h1⟩
  · intro _ _ hl
    simp only [mi1, twoPhaseLib] at hl
    exact absurd hl h1
  · simp only [mi0, twoPhaseLib]; rw [sum11]; exact not_isZero_two
  · simp only [mi1, twoPhaseLib]; rw [sum11]; exact not_isZero_two

/-- the hypotheses of the full theorem are satisfiable by a mixed-phase particle on the repaired
    code WITH a zero entry in the liquid row (the witness of defect (a)): there the two tuples agree -/
example : (returnAll constLib mixedParRepaired none someInput).1 =
    (individual constLib mixedParRepaired none someInput).1 :=
  return_all_eq_individual constLib mixedParRepaired none none someInput rfl constLib_shape
    (Or.inr (constLib_stable _ _ _))

/-- … and `DirtyIgnoresMuP` by a library whose correlations ignore the particle viscosity -/
example : DirtyIgnoresMuP { constLib with usEllipsoid := fun _ _ _ _ _ _ _ => (0 : ℝ) } :=
  ⟨fun _ _ _ _ _ _ _ => rfl, fun _ _ _ _ _ _ _ _ _ => rfl, fun _ _ _ _ _ _ _ _ _ => rfl⟩

end Examples

end TamocV.Props.C09

#print axioms TamocV.Props.C09.return_all_eq_individual
#print axioms TamocV.Props.C09.return_all_eq_individual_partial
#print axioms TamocV.Props.C09.inert_return_all_eq_individual
#print axioms TamocV.Props.C09.not_return_all_eq_individual
