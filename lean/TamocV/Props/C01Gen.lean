/-
  C01 (continued) — the normalisation identities Σ y·Bp = 1 and Σ y·Ap = 2 (`sum_y_Bp`, `sum_y_Ap` of
  TamocV/Props/C01.lean, proved there about the hand model) carried over to the OUTPUT LISTS of the `coefs`
  REGENERATED from dbm_p.py, on both interaction-coefficient branches (user δ: `coefs_refines_no_gc`; group
  contributions: `coefs_refines_gc`).  Helper lemmas live in `namespace TamocV.Lemmas.C01Gen` (this file).
-/
import TamocV.Props.C01GC

set_option linter.unusedSimpArgs false
set_option linter.unusedVariables false

namespace TamocV.Lemmas.C01Gen
open TamocV.Model.Eos TamocV.Lemmas.Eos TamocV.Lemmas.EosRefine Finset

theorem ofL_eq_zero (l : List ℝ) (n i : ℕ) (hl : l.length = n) (hi : ¬ i < n) : ofL l i = 0 := by
  have : l.length ≤ i := by omega
  simp [ofL, List.getD_eq_getElem?_getD, List.getElem?_eq_none this]

/-- a_i(T) ≥ 0 as soon as the critical pressure is not negative -/
theorem aTk_nonneg (T Tc Pc w : ℝ) (hPc : 0 ≤ Pc) : 0 ≤ aTk T Tc Pc w := by
  simp only [aTk, alphaT, RU_real, Num.real_ofSci, Num.real_npow, Num.real_rpow, Num.real_one, Num.real_ofNat]
  apply mul_nonneg
  · apply div_nonneg _ hPc
    positivity
  · positivity

/-- B ≠ 0 forces Σ y·b ≠ 0 -/
theorem mix_bd_ne_zero (n : ℕ) (T P : ℝ) (y a b : ℕ → ℝ) (δ : ℕ → ℕ → ℝ) (h : (mix n T P y a b δ).B ≠ 0) :
    ∑ i ∈ range n, y i * b i ≠ 0 := by
  intro h0
  apply h
  simp only [mix, sumN_eq, h0, zero_mul, zero_div]

/-- A ≠ 0 forces the double sum a(T) ≠ 0 -/
theorem mix_aT_ne_zero (n : ℕ) (T P : ℝ) (y a b : ℕ → ℝ) (δ : ℕ → ℕ → ℝ) (h : (mix n T P y a b δ).A ≠ 0) :
    ∑ j ∈ range n, ∑ i ∈ range n, y i * y j * (a i * a j) ^ ((1:ℝ)/2) * (1 - δ i j) ≠ 0 := by
  intro h0
  apply h
  simp only [mix, sumN_eq, Num.real_rpow, Num.real_one, Num.real_ofNat, h0, zero_mul, zero_div]

/-- (for the non-vacuity examples) one component, unit constants: the regenerated mole-fraction list is [1] -/
theorem ex_y (T P cd : ℝ) (A B G : List (List ℝ)) :
    (TamocV.Gen.EosFullPy.coefs T P [1] [1] [1] [1] [0] [[0]] A B G cd).2.2.2.2 = [1] := by
  simp [TamocV.Gen.EosFullPy.coefs, TamocV.Gen.EosFullPy.mole_fraction]

theorem ex_a : aTk (1:ℝ) 1 1 0 = 0.45724 * 8.31451 ^ 2 := by
  simp only [aTk, alphaT, muOmega, RU_real, Num.real_ofSci, Num.real_npow, Num.real_rpow, Num.real_one, Num.real_ofNat]
  norm_num

end TamocV.Lemmas.C01Gen

namespace TamocV.Props.C01
open TamocV.Model.Eos TamocV.Lemmas.Eos TamocV.Lemmas.EosRefine TamocV.Lemmas.C01Gen TamocV.Gen Finset

/-- **Refinement, both branches in one statement**: the regenerated `coefs` refines the hand model run with
    `calcDelta := decide (0 < calc_delta)`, for every value of `calc_delta`. -/
theorem coefs_refines (T P : ℝ) (m M Pc Tc w : List ℝ) (δ A B G : List (List ℝ)) (cd : ℝ) (n : ℕ)
    (hm : m.length = n) (hM : M.length = n) (hPc : Pc.length = n) (hTc : Tc.length = n) (hδ : δ.length = n)
    (hδr : ∀ r ∈ δ, r.length = n) :
    let g := EosFullPy.coefs T P m M Pc Tc w δ A B G cd
    let h := TamocV.Model.Eos.coefs n T P (ofL m) (ofL M) (ofL Pc) (ofL Tc) (ofL w) (decide (0 < cd)) (ofM G) (ofM A) (ofM B) (ofM δ)
    g.1 = h.A ∧ g.2.1 = h.B ∧ (∀ i, i < n → g.2.2.1.getD i 0 = h.Ap i) ∧ (∀ i, i < n → g.2.2.2.1.getD i 0 = h.Bp i)
      ∧ (∀ i, i < n → g.2.2.2.2.getD i 0 = h.yk i) := by
  by_cases hcd : 0 < cd
  · rw [decide_eq_true hcd]
    exact coefs_refines_gc T P m M Pc Tc w δ A B G cd n hm hM hPc hTc hδ hδr hcd
  · rw [decide_eq_false hcd]
    exact coefs_refines_no_gc T P m M Pc Tc w δ A B G cd n hm hM hPc hTc hδ (not_lt.mp hcd)

/-- **Σ y_i·Bp_i = 1 for the regenerated `coefs`** (both δ branches), under the hypothesis of the model theorem
    `sum_y_Bp` written on the lists: the co-volume of the mixture Σ y_i b_i, b_i = 0.0778·R·Tc_i/Pc_i, is not 0. -/
theorem gen_sum_y_Bp (T P : ℝ) (m M Pc Tc w : List ℝ) (δ A B G : List (List ℝ)) (cd : ℝ) (n : ℕ)
    (hm : m.length = n) (hM : M.length = n) (hPc : Pc.length = n) (hTc : Tc.length = n) (hδ : δ.length = n)
    (hδr : ∀ r ∈ δ, r.length = n) :
    let g := EosFullPy.coefs T P m M Pc Tc w δ A B G cd
    ∑ i ∈ range n, g.2.2.2.2.getD i 0 * ((0.0778:ℝ) * 8.31451 * Tc.getD i 0 / Pc.getD i 0) ≠ 0 →
    ∑ i ∈ range n, g.2.2.2.2.getD i 0 * g.2.2.2.1.getD i 0 = 1 := by
  intro g hbd
  obtain ⟨_, _, _, r4, r5⟩ := coefs_refines T P m M Pc Tc w δ A B G cd n hm hM hPc hTc hδ hδr
  have hbd' : ∑ i ∈ range n, moleFraction n (ofL m) (ofL M) i * bk (ofL Tc i) (ofL Pc i) ≠ 0 := by
    intro h0
    apply hbd
    refine Eq.trans ?_ h0
    apply Finset.sum_congr rfl
    intro i hi
    rw [r5 i (mem_range.mp hi)]
    simp only [bk, ofL, RU_real, Num.real_ofSci, TamocV.Model.Eos.coefs, mix]
  have key := sum_y_Bp n T P (moleFraction n (ofL m) (ofL M)) (fun i => aTk T (ofL Tc i) (ofL Pc i) (ofL w i))
    (fun i => bk (ofL Tc i) (ofL Pc i))
    (deltaUsed (decide (0 < cd)) T (fun i => aTk T (ofL Tc i) (ofL Pc i) (ofL w i)) (fun i => bk (ofL Tc i) (ofL Pc i))
      (ofM G) (ofM A) (ofM B) (ofM δ)) hbd'
  rw [← key]
  apply Finset.sum_congr rfl
  intro i hi
  rw [r5 i (mem_range.mp hi), r4 i (mem_range.mp hi)]
  rfl

/-- the same with the hypothesis on the regenerated output itself: the reported B is not 0 -/
theorem gen_sum_y_Bp_of_B_ne_zero (T P : ℝ) (m M Pc Tc w : List ℝ) (δ A B G : List (List ℝ)) (cd : ℝ) (n : ℕ)
    (hm : m.length = n) (hM : M.length = n) (hPc : Pc.length = n) (hTc : Tc.length = n) (hδ : δ.length = n)
    (hδr : ∀ r ∈ δ, r.length = n) :
    let g := EosFullPy.coefs T P m M Pc Tc w δ A B G cd
    g.2.1 ≠ 0 → ∑ i ∈ range n, g.2.2.2.2.getD i 0 * g.2.2.2.1.getD i 0 = 1 := by
  intro g hB
  obtain ⟨_, r2, _, _, r5⟩ := coefs_refines T P m M Pc Tc w δ A B G cd n hm hM hPc hTc hδ hδr
  apply gen_sum_y_Bp T P m M Pc Tc w δ A B G cd n hm hM hPc hTc hδ hδr
  rw [r2] at hB
  have h1 := mix_bd_ne_zero n T P _ _ _ _ hB
  intro h0
  apply h1
  refine Eq.trans ?_ h0
  apply Finset.sum_congr rfl
  intro i hi
  rw [r5 i (mem_range.mp hi)]
  simp only [bk, ofL, RU_real, Num.real_ofSci, TamocV.Model.Eos.coefs, mix]

/-- **Σ y_i·Ap_i = 2 for the regenerated `coefs`** (both δ branches), under the hypotheses of the model theorem
    `sum_y_Ap` written on the lists: no critical pressure is negative (then every a_i(T) ≥ 0 and
    √a_i·√a_j = √(a_i a_j)), and the mixture's a(T) = Σ_j Σ_i y_i y_j √(a_i a_j) (1 − δ_ij) is not 0, where
    y is the regenerated mole-fraction list, a_i = `aTk T Tc_i Pc_i ω_i` and δ_ij is the interaction coefficient used
    on the branch selected by `calc_delta` (`deltaUsed`: the input matrix, or the group-contribution value). -/
theorem gen_sum_y_Ap (T P : ℝ) (m M Pc Tc w : List ℝ) (δ A B G : List (List ℝ)) (cd : ℝ) (n : ℕ)
    (hm : m.length = n) (hM : M.length = n) (hPc : Pc.length = n) (hTc : Tc.length = n) (hδ : δ.length = n)
    (hδr : ∀ r ∈ δ, r.length = n) (hP0 : ∀ i, i < n → 0 ≤ Pc.getD i 0) :
    let g := EosFullPy.coefs T P m M Pc Tc w δ A B G cd
    let a := fun i => aTk T (Tc.getD i 0) (Pc.getD i 0) (w.getD i 0)
    let b := fun i => bk (Tc.getD i 0) (Pc.getD i 0)
    let D := deltaUsed (decide (0 < cd)) T a b (ofM G) (ofM A) (ofM B) (ofM δ)
    ∑ j ∈ range n, ∑ i ∈ range n, g.2.2.2.2.getD i 0 * g.2.2.2.2.getD j 0 * (a i * a j) ^ ((1:ℝ)/2) * (1 - D i j) ≠ 0 →
    ∑ i ∈ range n, g.2.2.2.2.getD i 0 * g.2.2.1.getD i 0 = 2 := by
  intro g a b D haT
  obtain ⟨_, _, r3, _, r5⟩ := coefs_refines T P m M Pc Tc w δ A B G cd n hm hM hPc hTc hδ hδr
  have ha : ∀ i, 0 ≤ a i := by
    intro i
    apply aTk_nonneg
    by_cases hi : i < n
    · exact hP0 i hi
    · exact le_of_eq (ofL_eq_zero Pc n i hPc hi).symm
  have haT' : ∑ j ∈ range n, ∑ i ∈ range n, moleFraction n (ofL m) (ofL M) i * moleFraction n (ofL m) (ofL M) j
      * (a i * a j) ^ ((1:ℝ)/2) * (1 - D i j) ≠ 0 := by
    intro h0
    apply haT
    refine Eq.trans ?_ h0
    apply Finset.sum_congr rfl
    intro j hj
    apply Finset.sum_congr rfl
    intro i hi
    rw [r5 i (mem_range.mp hi), r5 j (mem_range.mp hj)]
    rfl
  have key := sum_y_Ap n T P (moleFraction n (ofL m) (ofL M)) a b D ha haT'
  rw [← key]
  apply Finset.sum_congr rfl
  intro i hi
  rw [r5 i (mem_range.mp hi), r3 i (mem_range.mp hi)]
  rfl

/-- the same with the hypothesis on the regenerated output itself: the reported A is not 0 -/
theorem gen_sum_y_Ap_of_A_ne_zero (T P : ℝ) (m M Pc Tc w : List ℝ) (δ A B G : List (List ℝ)) (cd : ℝ) (n : ℕ)
    (hm : m.length = n) (hM : M.length = n) (hPc : Pc.length = n) (hTc : Tc.length = n) (hδ : δ.length = n)
    (hδr : ∀ r ∈ δ, r.length = n) (hP0 : ∀ i, i < n → 0 ≤ Pc.getD i 0) :
    let g := EosFullPy.coefs T P m M Pc Tc w δ A B G cd
    g.1 ≠ 0 → ∑ i ∈ range n, g.2.2.2.2.getD i 0 * g.2.2.1.getD i 0 = 2 := by
  intro g hA
  obtain ⟨r1, _, _, _, r5⟩ := coefs_refines T P m M Pc Tc w δ A B G cd n hm hM hPc hTc hδ hδr
  apply gen_sum_y_Ap T P m M Pc Tc w δ A B G cd n hm hM hPc hTc hδ hδr hP0
  rw [r1] at hA
  have h1 := mix_aT_ne_zero n T P _ _ _ _ hA
  intro h0
  apply h1
  refine Eq.trans ?_ h0
  apply Finset.sum_congr rfl
  intro j hj
  apply Finset.sum_congr rfl
  intro i hi
  rw [r5 i (mem_range.mp hi), r5 j (mem_range.mp hj)]
  rfl

/-! ### non-vacuity: one component with unit constants at T = P = 1, either branch -/
example (cd : ℝ) (A B G : List (List ℝ)) :
    let g := EosFullPy.coefs 1 1 [1] [1] [1] [1] [0] [[0]] A B G cd
    ∑ i ∈ range 1, g.2.2.2.2.getD i 0 * g.2.2.2.1.getD i 0 = 1 := by
  apply gen_sum_y_Bp 1 1 [1] [1] [1] [1] [0] [[0]] A B G cd 1 rfl rfl rfl rfl rfl (by simp)
  rw [ex_y]
  norm_num

example (cd : ℝ) (A B G : List (List ℝ)) :
    let g := EosFullPy.coefs 1 1 [1] [1] [1] [1] [0] [[0]] A B G cd
    ∑ i ∈ range 1, g.2.2.2.2.getD i 0 * g.2.2.1.getD i 0 = 2 := by
  apply gen_sum_y_Ap 1 1 [1] [1] [1] [1] [0] [[0]] A B G cd 1 rfl rfl rfl rfl rfl (by simp)
    (fun i hi => by rw [show i = 0 by omega]; simp)
  rw [ex_y]
  simp only [Finset.sum_range_one, deltaUsed, bne_self_eq_false, Bool.and_false, Bool.false_eq_true, if_false, ofM]
  simp only [List.getD_cons_zero, ex_a]
  rw [← Real.sqrt_eq_rpow, Real.sqrt_mul_self (by norm_num)]
  norm_num

end TamocV.Props.C01
