/-
  C20 — Documented entry points complete on valid input.
  Property theorems only.  For every scalar routine regenerated from /repo by the translator
  (`Gen.SeawaterPy`, `Gen.PhysPy`) the translator also emits a well-definedness predicate `<f>_WD`:
  the path-sensitive conjunction of "every denominator ≠ 0, every log argument > 0, every sqrt
  argument ≥ 0, every real-power base > 0 (≥ 0 for a literal non-negative exponent)".  The theorems
  below prove `<f>_WD` on the documented / physical ranges — i.e. in exact arithmetic the routine
  returns a finite value rather than raising or producing NaN/inf there.  A change of a formula that
  introduces a reachable singularity, or of a branch bound that exposes one, breaks the proof.

  The "rather than raising" half of the property concerns run-time behaviour of NumPy ≥ 2 (one-element
  arrays in scalar slots, column vectors handed to the ODE solver) and is decided through the tie:
  harness/c20.py calls every public calculation listed in docs/_sources/modules/*.rst on valid inputs.
-/
import TamocV.Lemmas.C20
import TamocV.Gen.PhysPy
import TamocV.Gen.SeawaterPy
import Mathlib.Analysis.SpecialFunctions.Trigonometric.Basic

set_option linter.unusedSimpArgs false
set_option linter.unusedVariables false

namespace TamocV.Props.C20
open TamocV.Gen TamocV.Lemmas.C20

theorem eotvos_wd (de rho_p rho sigma : ℝ) (hs : 0 < sigma) : PhysPy.eotvos_WD de rho_p rho sigma := by
  simp only [PhysPy.eotvos_WD, Num.real_zero, Num.real_one, Num.real_ofNat]; exact ⟨ne_of_gt hs, trivial⟩

theorem morton_wd (rho_p rho mu sigma : ℝ) (hr : 0 < rho) (hs : 0 < sigma) : PhysPy.morton_WD rho_p rho mu sigma := by
  simp only [PhysPy.morton_WD, Num.real_npow, Num.real_zero, Num.real_one, Num.real_ofNat]; exact ⟨by positivity, trivial⟩

theorem reynolds_wd (de us rho mu : ℝ) (hm : 0 < mu) : PhysPy.reynolds_WD de us rho mu := by
  simp only [PhysPy.reynolds_WD, Num.real_zero, Num.real_one, Num.real_ofNat]; exact ⟨ne_of_gt hm, trivial⟩

theorem h_parameter_wd (Eo M mu : ℝ) (hM : 0 < M) (hm : 0 < mu) : PhysPy.h_parameter_WD Eo M mu := by
  simp only [PhysPy.h_parameter_WD, Num.real_ofSci, Num.real_zero, Num.real_one, Num.real_ofNat]; exact ⟨hM, by positivity, trivial⟩

theorem morton_pos (rho_p rho mu sigma : ℝ) (hr : 0 < rho) (hs : 0 < sigma) (hm : 0 < mu) (hb : rho_p < rho) :
    0 < PhysPy.morton rho_p rho mu sigma := by
  simp only [PhysPy.morton, Num.real_npow, Num.real_ofSci]
  have : 0 < rho - rho_p := by linarith
  positivity

theorem particle_shape_wd (de rho_p rho mu sigma : ℝ) (hr : 0 < rho) (hs : 0 < sigma) (hm : 0 < mu) (hb : rho_p < rho) :
    PhysPy.particle_shape_WD de rho_p rho mu sigma := by
  simp only [PhysPy.particle_shape_WD, Num.real_zero, Num.real_one, Num.real_ofNat]
  exact ⟨eotvos_wd _ _ _ _ hs, morton_wd _ _ _ _ hr hs, h_parameter_wd _ _ _ (morton_pos _ _ _ _ hr hs hm hb) hm, trivial⟩

theorem theta_w_sc_wd (de us rho mu : ℝ) (hd : 0 ≤ de) (hu : 0 ≤ us) (hr : 0 ≤ rho) (hm : 0 < mu) :
    PhysPy.theta_w_sc_WD de us rho mu := by
  simp only [PhysPy.theta_w_sc_WD, PhysPy.reynolds, Num.real_zero, Num.real_one, Num.real_ofNat]
  exact ⟨reynolds_wd _ _ _ _ hm, by positivity, trivial⟩

theorem us_spherical_cap_wd (de rho_p rho : ℝ) (hd : 0 ≤ de) (hr : 0 < rho) (hb : rho_p ≤ rho) :
    PhysPy.us_spherical_cap_WD de rho_p rho := by
  simp only [PhysPy.us_spherical_cap_WD, Num.real_ofSci, Num.real_zero, Num.real_one, Num.real_ofNat]
  have : 0 ≤ rho - rho_p := by linarith
  exact ⟨ne_of_gt hr, by positivity, trivial⟩

theorem us_sphere_wd (de rho_p rho mu : ℝ) (hd : 0 < de) (hr : 0 < rho) (hm : 0 < mu) (hne : rho ≠ rho_p) :
    PhysPy.us_sphere_WD de rho_p rho mu := by
  simp only [PhysPy.us_sphere_WD, Num.real_ofSci, Num.real_npow, Num.real_abs, Num.real_zero, Num.real_one, Num.real_ofNat]
  have : 0 < |rho - rho_p| := abs_pos.mpr (sub_ne_zero.mpr hne)
  exact ⟨by positivity, by positivity, by positivity, trivial⟩

theorem surface_area_sc_wd (de theta : ℝ) (hd : 0 ≤ de) (hc : Real.cos theta < 1) :
    PhysPy.surface_area_sc_WD de theta := by
  simp only [PhysPy.surface_area_sc_WD, Num.real_ofSci, Num.real_npow, Num.real_cos, Num.real_zero, Num.real_one, Num.real_ofNat]
  have hc1 : -1 ≤ Real.cos theta := Real.neg_one_le_cos theta
  have hden : 0 < (2.0:ℝ) / 3.0 - Real.cos theta + Real.cos theta ^ 3 / 3.0 := by
    have : (2.0:ℝ) / 3.0 - Real.cos theta + Real.cos theta ^ 3 / 3.0 = (1 - Real.cos theta)^2 * (2 + Real.cos theta) / 3 := by
      norm_num; ring
    rw [this]
    have h1 : 0 < 1 - Real.cos theta := by linarith
    have h2 : 0 < 2 + Real.cos theta := by linarith
    positivity
  refine ⟨ne_of_gt hden, ?_, trivial⟩
  apply div_nonneg _ (le_of_lt hden)
  positivity

theorem mu_wd (T S P : ℝ) (hT : 250 ≤ T) : SeawaterPy.mu_WD T S P := by
  simp only [SeawaterPy.mu_WD, Num.real_ofSci, Num.real_npow, Num.real_zero, Num.real_one, Num.real_ofNat]
  refine ⟨?_, trivial⟩
  have h : 41.84262005 ≤ T - 273.15 + 64.99262005 := by linarith
  have h2 : (41.84262005:ℝ)^2 ≤ (T - 273.15 + 64.99262005)^2 := by
    apply pow_le_pow_left₀ (by norm_num) h
  nlinarith

theorem sigma_wd (T S : ℝ) (hT : T ≤ 647.096) (hS : 0 ≤ S) : SeawaterPy.sigma_WD T S := by
  simp only [SeawaterPy.sigma_WD, Num.real_ofSci, Num.real_ofNat, Num.real_zero, Num.real_one, Num.real_ofNat]
  refine ⟨?_, fun _ => ?_, trivial⟩
  · have : (T - 273.15 + 273.15) / 647.096 ≤ 1 := by
      rw [div_le_one (by norm_num)]; linarith
    linarith
  · positivity

theorem k_wd (T S P : ℝ) (hT : T ≤ 640) (hT0 : 1 ≤ T) (hS : 0 ≤ S) : SeawaterPy.k_WD T S P := by
  simp only [SeawaterPy.k_WD, Num.real_ofSci, Num.real_zero, Num.real_one, Num.real_ofNat]
  refine ⟨by norm_num, fun _ => by positivity, fun _ => ?_, fun _ => by positivity, fun _ => ?_, trivial⟩
  · have : 0 < (T - 0.0682875) / (1.0 - 0.00025) := by
      apply div_pos <;> norm_num <;> linarith
    nlinarith
  · have hden : (0:ℝ) < 647.0 + 0.03 * (S / 1000.0) := by positivity
    have : ((T - 0.0682875) / (1.0 - 0.00025) - 273.15 + 273.15) / (647.0 + 0.03 * (S / 1000.0)) ≤ 1 := by
      rw [div_le_one hden]
      have : (T - 0.0682875) / (1.0 - 0.00025) ≤ 647 := by
        rw [div_le_iff₀ (by norm_num)]; nlinarith
      nlinarith
    linarith

/-- **seawater.density completes (no division by zero, no invalid power) on the oceanic range**, cold branch
    and hot branch alike -/
theorem density_wd (T S P : ℝ) (hT0 : 271 ≤ T) (hS0 : 0 ≤ S) (hS1 : S ≤ 42) (hP0 : 0 ≤ P) (hP1 : P ≤ 1.1e8) :
    SeawaterPy.density_WD T S P := by
  simp only [SeawaterPy.density_WD, Num.real_zero, Num.real_one, Num.real_ofNat, Num.real_ofSci, Num.real_npow, Num.real_rpow]
  have hKK : ∀ (hT : T < 273.15 + 40), 19200 + 3 * (P * 0.00001) ≤
      (19652.21 + 148.4206 * (T - 273.15) - 2.327105 * (T - 273.15) ^ 2 + 0.01360477 * (T - 273.15) ^ 3 -
        0.00005155288 * (T - 273.15) ^ 4 + 3.239908 * (P * 0.00001) + 0.00143713 * (T - 273.15) * (P * 0.00001) +
        0.000116092 * (T - 273.15) ^ 2 * (P * 0.00001) - 0.000000577905 * (T - 273.15) ^ 3 * (P * 0.00001) +
        0.0000850935 * (P * 0.00001) ^ 2 - 0.00000612293 * (T - 273.15) * (P * 0.00001) ^ 2 +
        0.000000052787 * (T - 273.15) ^ 2 * (P * 0.00001) ^ 2 + 54.6746 * S - 0.603459 * (T - 273.15) * S +
        0.0109987 * (T - 273.15) ^ 2 * S - 0.00006167 * (T - 273.15) ^ 3 * S + 0.07944 * S ^ ((3.0:ℝ) / 2.0) +
        0.016483 * (T - 273.15) * S ^ ((3.0:ℝ) / 2.0) - 0.00053009 * (T - 273.15) ^ 2 * S ^ ((3.0:ℝ) / 2.0) +
        0.0022838 * (P * 0.00001) * S - 0.000010981 * (T - 273.15) * (P * 0.00001) * S -
        0.0000016078 * (T - 273.15) ^ 2 * (P * 0.00001) * S + 0.000191075 * (P * 0.00001) * S ^ ((3.0:ℝ) / 2.0) -
        0.00000099348 * (P * 0.00001) ^ 2 * S + 0.000000020816 * (T - 273.15) * (P * 0.00001) ^ 2 * S +
        0.00000000091697 * (T - 273.15) ^ 2 * (P * 0.00001) ^ 2 * S) := by
    intro hT
    obtain ⟨hs0, hs1⟩ := s32_bound S hS0 hS1
    have := K_lower (T - 273.15) S (S ^ ((3.0:ℝ) / 2.0)) (P * 0.00001) (by linarith) (by linarith) hS0 hS1 hs0 hs1
      (by positivity) (by nlinarith)
    calc 19200 + 3 * (P * 0.00001) ≤ _ := this
      _ = _ := by ring
  refine ⟨fun _ => hS0, fun hT => ?_, fun hT => ?_, trivial⟩
  · have := hKK hT
    have hp : 0 ≤ P * 0.00001 := by positivity
    intro h0
    rw [h0] at this
    linarith
  · have := hKK hT
    have hp : 0 ≤ P * 0.00001 := by positivity
    exact one_sub_div_ne_zero _ _ (by linarith) (by linarith)

/-! ### non-vacuity: the oceanic box is inhabited -/
example : SeawaterPy.density_WD (283.15 : ℝ) 35 1.0e7 := density_wd 283.15 35 1.0e7 (by norm_num) (by norm_num) (by norm_num) (by norm_num) (by norm_num)

end TamocV.Props.C20
