/-
  C02 — Flash calculation conserves mass and equalises fugacities.
  Property theorems only, about the executable model `TamocV.Model.Flash` (hand transcription of
  dbm.gas_liq_eq, the end of dbm.equil_MM and the back-conversion of FluidMixture.equilibrium,
  tied to /repo by the correspondence run of harness/c02.py) at `α := ℝ`.
  All statements hold for every list length n and every amount of fuel.
  NOT theorems (evaluated on the real code by the harness as labelled tests): termination and
  convergence of the loops, isofugacity of the converged outputs (successive_substitution is not
  modelled), stability of a reported single phase (tangent-plane distance), "feed in the row of the
  EOS root with the lower Gibbs energy".
-/
import TamocV.Real
import TamocV.Lemmas.Basic
import TamocV.Lemmas.C02
import TamocV.Model.Flash

namespace TamocV.Props.C02
open TamocV TamocV.Model.Flash TamocV.Lemmas.C02

/-- a feed composition: non-negative mole fractions summing to one -/
def IsComposition (z : List ℝ) : Prop := (∀ x ∈ z, 0 ≤ x) ∧ z.sum = 1

/-- positive partition coefficients -/
def AllPos (K : List ℝ) : Prop := ∀ k ∈ K, 0 < k

example : IsComposition [1/2, 1/4, 1/4] ∧ AllPos [3, 1/2, 1/100] := by
  refine ⟨⟨?_, by norm_num⟩, ?_⟩ <;> intro x hx <;> simp at hx <;> rcases hx with rfl | rfl | rfl <;> norm_num

private theorem comp_le_one {z : List ℝ} (hz : IsComposition z) : ∀ x ∈ z, x ≤ 1 := by
  intro x hx
  rw [← hz.2]
  exact List.single_le_sum hz.1 x hx

private theorem zip_facts {z K : List ℝ} (hlen : z.length = K.length) :
    (List.zip z K).map Prod.fst = z ∧ (∀ p ∈ List.zip z K, p.1 ∈ z ∧ p.2 ∈ K) := by
  refine ⟨List.map_fst_zip (le_of_eq hlen), ?_⟩
  intro p hp
  exact List.of_mem_zip (a := p.1) (b := p.2) hp

/-! ## 1. The gas fraction and the bracket -/

/-- **Every pass of the loop preserves the bracket** `lo ≤ beta_min ≤ beta_var ≤ beta_max ≤ hi`
    (whatever the values of the objective function and of its derivative — also when the Newton
    step is rejected, also with a vanishing derivative). -/
theorem rr_step_preserves_bracket (z K : List ℝ) (gasForm : Bool) (lo hi : ℝ) (s : RRState ℝ)
    (h : lo ≤ s.bmin ∧ s.bmin ≤ s.bvar ∧ s.bvar ≤ s.bmax ∧ s.bmax ≤ hi) :
    lo ≤ (rrStep z K gasForm s).1.bmin ∧ (rrStep z K gasForm s).1.bmin ≤ (rrStep z K gasForm s).1.bvar ∧
    (rrStep z K gasForm s).1.bvar ≤ (rrStep z K gasForm s).1.bmax ∧ (rrStep z K gasForm s).1.bmax ≤ hi :=
  rrStep_inv z K gasForm lo hi s h

/-- … hence so does the whole loop, for any amount of fuel (induction on fuel). -/
theorem rr_loop_preserves_bracket (z K : List ℝ) (gasForm : Bool) (lo hi : ℝ) (fuel : Nat) (s : RRState ℝ)
    (tr : List ℝ) (h : lo ≤ s.bmin ∧ s.bmin ≤ s.bvar ∧ s.bvar ≤ s.bmax ∧ s.bmax ≤ hi) :
    lo ≤ (rrLoop z K gasForm fuel s tr).1.bmin ∧
    (rrLoop z K gasForm fuel s tr).1.bmin ≤ (rrLoop z K gasForm fuel s tr).1.bvar ∧
    (rrLoop z K gasForm fuel s tr).1.bvar ≤ (rrLoop z K gasForm fuel s tr).1.bmax ∧
    (rrLoop z K gasForm fuel s tr).1.bmax ≤ hi :=
  rrLoop_inv z K gasForm lo hi fuel s tr h

/-- The initial bracket of equations (7)/(8) is non-empty and contained in [0,1] for every feed
    composition and non-negative K. -/
theorem rr_initial_bracket (z K : List ℝ) (hlen : z.length = K.length) (hz : IsComposition z) (hK : AllPos K) :
    0 ≤ (bounds z K).1 ∧ (bounds z K).1 ≤ (bounds z K).2 ∧ (bounds z K).2 ≤ 1 := by
  obtain ⟨hm, hmem⟩ := zip_facts hlen
  unfold bounds
  simp only [Num.real_zero, Num.real_one]
  apply bounds_bracket
  · intro p hp; exact hz.1 _ (hmem p hp).1
  · intro p hp; exact (hK _ (hmem p hp).2).le
  · rw [hm]; exact hz.2

/-- **β ∈ [0,1]** for any K whatsoever, any fuel, as soon as no mole fraction exceeds one. -/
theorem rr_beta_mem (z K : List ℝ) (fuel : Nat) (hlen : z.length = K.length) (hz1 : ∀ x ∈ z, x ≤ 1) :
    0 ≤ (gasLiqEqZ z K fuel).beta ∧ (gasLiqEqZ z K fuel).beta ≤ 1 := by
  show 0 ≤ (rrBeta z K fuel).1 ∧ (rrBeta z K fuel).1 ≤ 1
  obtain ⟨_, hmem⟩ := zip_facts hlen
  have hb : 0 ≤ (bounds z K).1 ∧ (bounds z K).1 ≤ 1 ∧ 0 ≤ (bounds z K).2 ∧ (bounds z K).2 ≤ 1 := by
    unfold bounds
    simp only [Num.real_zero, Num.real_one]
    exact bounds_unit _ (fun p hp => hz1 _ (hmem p hp).1)
  obtain ⟨b1, b2, b3, b4⟩ := hb
  rcases rrBeta_cases z K fuel with ⟨_, h⟩ | ⟨_, _, h⟩ | ⟨_, _, _, h⟩ | ⟨_, _, _, h⟩ <;> rw [h]
  · norm_num
  · norm_num
  · have := rrLoop_winv z K true fuel ⟨(bounds z K).1, (bounds z K).2, 1 / 2 * ((bounds z K).1 + (bounds z K).2)⟩ []
      ⟨b1, b2, b3, b4, by simp only []; linarith, by simp only []; linarith⟩
    exact ⟨this.2.2.2.2.1, this.2.2.2.2.2⟩
  · have := rrLoop_winv z K false fuel ⟨1 - (bounds z K).2, 1 - (bounds z K).1,
      1 - 1 / 2 * ((bounds z K).1 + (bounds z K).2)⟩ []
      ⟨by simp only []; linarith, by simp only []; linarith, by simp only []; linarith, by simp only []; linarith,
       by simp only []; linarith, by simp only []; linarith⟩
    constructor <;> linarith [this.2.2.2.2.1, this.2.2.2.2.2]

/-- In the two-phase branch the returned β lies in the initial bracket of (7)/(8) — for a feed
    composition and positive K, any fuel. -/
theorem rr_beta_in_bracket (z K : List ℝ) (fuel : Nat) (hlen : z.length = K.length) (hz : IsComposition z)
    (hK : AllPos K)
    (h4 : ¬ ((List.zipWith (fun a b => a * b) z K).sum - 1 ≤ 0))
    (h5 : ¬ (0 < 1 - (List.zipWith (fun a b => a / b) z K).sum)) :
    (bounds z K).1 ≤ (gasLiqEqZ z K fuel).beta ∧ (gasLiqEqZ z K fuel).beta ≤ (bounds z K).2 := by
  show (bounds z K).1 ≤ (rrBeta z K fuel).1 ∧ (rrBeta z K fuel).1 ≤ (bounds z K).2
  obtain ⟨b1, b2, b3⟩ := rr_initial_bracket z K hlen hz hK
  rcases rrBeta_cases z K fuel with ⟨h, _⟩ | ⟨_, h, _⟩ | ⟨_, _, _, h⟩ | ⟨_, _, _, h⟩
  · exact absurd h h4
  · exact absurd h h5
  · rw [h]
    have := rrLoop_inv z K true (bounds z K).1 (bounds z K).2 fuel
      ⟨(bounds z K).1, (bounds z K).2, 1 / 2 * ((bounds z K).1 + (bounds z K).2)⟩ []
      ⟨le_refl _, by simp only []; linarith, by simp only []; linarith, le_refl _⟩
    obtain ⟨i1, i2, i3, i4⟩ := this
    constructor <;> linarith
  · rw [h]
    have := rrLoop_inv z K false (1 - (bounds z K).2) (1 - (bounds z K).1) fuel
      ⟨1 - (bounds z K).2, 1 - (bounds z K).1, 1 - 1 / 2 * ((bounds z K).1 + (bounds z K).2)⟩ []
      ⟨le_refl _, by simp only []; linarith, by simp only []; linarith, le_refl _⟩
    obtain ⟨i1, i2, i3, i4⟩ := this
    constructor <;> linarith

/-- **Denominators**: for β ∈ [0,1] and K_i > 0 every denominator `1 + β (K_i − 1)` of the rows and of
    `g_gas`, and every denominator `K_i − β_l (K_i − 1)` of `g_liq`, is positive. -/
theorem rr_denominators_pos (β k : ℝ) (h0 : 0 ≤ β) (h1 : β ≤ 1) (hk : 0 < k) :
    0 < 1 + β * (k - 1) ∧ 0 < k - β * (k - 1) :=
  ⟨den_pos β k h0 h1 hk, den_liq_pos β k h0 h1 hk⟩

/-- the denominators met by the code: at the returned β -/
theorem rr_denominators_pos_at_result (z K : List ℝ) (fuel : Nat) (hlen : z.length = K.length)
    (hz1 : ∀ x ∈ z, x ≤ 1) (hK : AllPos K) :
    ∀ k ∈ K, 0 < 1 + (gasLiqEqZ z K fuel).beta * (k - 1) := by
  intro k hk
  obtain ⟨h0, h1⟩ := rr_beta_mem z K fuel hlen hz1
  exact den_pos _ k h0 h1 (hK k hk)

/-! ## 2. The rows -/

private theorem gasLiqEqZ_rows (z K : List ℝ) (fuel : Nat) :
    (gasLiqEqZ z K fuel).xg = (rows z K (gasLiqEqZ z K fuel).beta).1 ∧
    (gasLiqEqZ z K fuel).xl = (rows z K (gasLiqEqZ z K fuel).beta).2 := ⟨rfl, rfl⟩

/-- **x_gas,i = K_i · x_liq,i** for every component, any z, K, fuel (no hypothesis at all). -/
theorem rr_xgas_eq_K_xliq (z K : List ℝ) (fuel : Nat) :
    (gasLiqEqZ z K fuel).xg = List.zipWith (fun k l => k * l) K (gasLiqEqZ z K fuel).xl :=
  rows_xg_eq z K _

/-- the same, component by component -/
theorem rr_xgas_eq_K_xliq_component (z K : List ℝ) (fuel : Nat) (i : Nat) :
    (gasLiqEqZ z K fuel).xg.getD i 0 = K.getD i 0 * (gasLiqEqZ z K fuel).xl.getD i 0 := by
  rw [rr_xgas_eq_K_xliq, getD_zipWith_mul]

/-- **Component material balance** β·x_gas,i + (1−β)·x_liq,i = z_i, any fuel. -/
theorem rr_material_balance (z K : List ℝ) (fuel : Nat) (hlen : z.length = K.length)
    (hz1 : ∀ x ∈ z, x ≤ 1) (hK : AllPos K) :
    List.zipWith (fun g l => (gasLiqEqZ z K fuel).beta * g + (1 - (gasLiqEqZ z K fuel).beta) * l)
      (gasLiqEqZ z K fuel).xg (gasLiqEqZ z K fuel).xl = z :=
  rows_balance z K _ hlen (fun k hk => (rr_denominators_pos_at_result z K fuel hlen hz1 hK k hk).ne')

theorem rr_material_balance_component (z K : List ℝ) (fuel : Nat) (hlen : z.length = K.length)
    (hz1 : ∀ x ∈ z, x ≤ 1) (hK : AllPos K) (i : Nat) :
    (gasLiqEqZ z K fuel).beta * (gasLiqEqZ z K fuel).xg.getD i 0 +
      (1 - (gasLiqEqZ z K fuel).beta) * (gasLiqEqZ z K fuel).xl.getD i 0 = z.getD i 0 := by
  have h := rr_material_balance z K fuel hlen hz1 hK
  have hl := rows_length z K (gasLiqEqZ z K fuel).beta hlen
  conv_rhs => rw [← h]
  rw [getD_zipWith_len _ (by ring) _ _ (by rw [(gasLiqEqZ_rows z K fuel).1, (gasLiqEqZ_rows z K fuel).2, hl.1, hl.2])]

/-- **Row sums**: Σ x_liq = 1 − β·g(β) and Σ x_gas = 1 + (1−β)·g(β), g the Rachford–Rice residual
    at the returned β. -/
theorem rr_sums (z K : List ℝ) (fuel : Nat) (hlen : z.length = K.length) (hz : IsComposition z) (hK : AllPos K) :
    (gasLiqEqZ z K fuel).xl.sum = 1 - (gasLiqEqZ z K fuel).beta * gGas z K (gasLiqEqZ z K fuel).beta ∧
    (gasLiqEqZ z K fuel).xg.sum = 1 + (1 - (gasLiqEqZ z K fuel).beta) * gGas z K (gasLiqEqZ z K fuel).beta := by
  have := rows_sums z K (gasLiqEqZ z K fuel).beta hlen
    (fun k hk => (rr_denominators_pos_at_result z K fuel hlen (comp_le_one hz) hK k hk).ne')
  rw [hz.2] at this
  exact this

/-- both rows deviate from one by at most the residual -/
theorem rr_sums_dev_le_residual (z K : List ℝ) (fuel : Nat) (hlen : z.length = K.length) (hz : IsComposition z)
    (hK : AllPos K) :
    |(gasLiqEqZ z K fuel).xl.sum - 1| ≤ |gGas z K (gasLiqEqZ z K fuel).beta| ∧
    |(gasLiqEqZ z K fuel).xg.sum - 1| ≤ |gGas z K (gasLiqEqZ z K fuel).beta| := by
  obtain ⟨h1, h2⟩ := rr_sums z K fuel hlen hz hK
  obtain ⟨b0, b1⟩ := rr_beta_mem z K fuel hlen (comp_le_one hz)
  rw [h1, h2]
  constructor
  · have : 1 - (gasLiqEqZ z K fuel).beta * gGas z K (gasLiqEqZ z K fuel).beta - 1
        = -((gasLiqEqZ z K fuel).beta * gGas z K (gasLiqEqZ z K fuel).beta) := by ring
    rw [this, abs_neg, abs_mul, abs_of_nonneg b0]
    exact mul_le_of_le_one_left (abs_nonneg _) b1
  · have : 1 + (1 - (gasLiqEqZ z K fuel).beta) * gGas z K (gasLiqEqZ z K fuel).beta - 1
        = (1 - (gasLiqEqZ z K fuel).beta) * gGas z K (gasLiqEqZ z K fuel).beta := by ring
    rw [this, abs_mul, abs_of_nonneg (by linarith)]
    exact mul_le_of_le_one_left (abs_nonneg _) (by linarith)

/-- at β = 0 the liquid row is the feed and sums to one; at β = 1 the gas row does -/
theorem rr_present_row_sums_to_one (z K : List ℝ) (fuel : Nat) (hlen : z.length = K.length)
    (hz : IsComposition z) (hK : AllPos K) :
    ((gasLiqEqZ z K fuel).beta = 0 → (gasLiqEqZ z K fuel).xl.sum = 1) ∧
    ((gasLiqEqZ z K fuel).beta = 1 → (gasLiqEqZ z K fuel).xg.sum = 1) := by
  obtain ⟨h1, h2⟩ := rr_sums z K fuel hlen hz hK
  constructor
  · intro h; rw [h1, h]; ring
  · intro h; rw [h2, h]; ring

/-- in the two-phase branch: a vanishing residual gives both rows summing to one (that the loop
    exits with a small residual is observed on the real code, not proved) -/
theorem rr_both_rows_sum_to_one_partial (z K : List ℝ) (fuel : Nat) (hlen : z.length = K.length)
    (hz : IsComposition z) (hK : AllPos K) (hg : gGas z K (gasLiqEqZ z K fuel).beta = 0) :
    (gasLiqEqZ z K fuel).xl.sum = 1 ∧ (gasLiqEqZ z K fuel).xg.sum = 1 := by
  obtain ⟨h1, h2⟩ := rr_sums z K fuel hlen hz hK
  rw [h1, h2, hg]; constructor <;> ring

/-- **The literal reading "both rows of `gas_liq_eq` sum to one" is FALSE** (model and code): a
    sub-cooled liquid z = (½,½), K = (½,¼) has β = 0 and a gas row K·z summing to ⅜. -/
theorem rr_not_both_rows_sum_to_one :
    ∃ z K : List ℝ, IsComposition z ∧ AllPos K ∧ z.length = K.length ∧
      ∀ fuel, (gasLiqEqZ z K fuel).beta = 0 ∧ (gasLiqEqZ z K fuel).xg.sum = 3 / 8 := by
  refine ⟨[1/2, 1/2], [1/2, 1/4], ⟨?_, by norm_num⟩, ?_, rfl, ?_⟩
  · intro x hx; simp at hx; rw [hx]; norm_num
  · intro x hx; simp at hx; rcases hx with rfl | rfl <;> norm_num
  · intro fuel
    have hb : (rrBeta ([1/2, 1/2] : List ℝ) [1/2, 1/4] fuel).1 = 0 := by
      rcases rrBeta_cases ([1/2, 1/2] : List ℝ) [1/2, 1/4] fuel with ⟨_, h⟩ | ⟨h, _⟩ | ⟨h, _⟩ | ⟨h, _⟩
      · exact h
      all_goals (exfalso; apply h; norm_num)
    have hb' : (gasLiqEqZ ([1/2, 1/2] : List ℝ) [1/2, 1/4] fuel).beta = 0 := hb
    refine ⟨hb', ?_⟩
    rw [(gasLiqEqZ_rows _ _ _).1, hb']
    simp only [rows, Num.real_one]
    norm_num

/-- both rows are non-negative -/
theorem rr_rows_nonneg (z K : List ℝ) (fuel : Nat) (hlen : z.length = K.length) (hz : IsComposition z)
    (hK : AllPos K) :
    (∀ x ∈ (gasLiqEqZ z K fuel).xg, 0 ≤ x) ∧ (∀ x ∈ (gasLiqEqZ z K fuel).xl, 0 ≤ x) := by
  obtain ⟨b0, b1⟩ := rr_beta_mem z K fuel hlen (comp_le_one hz)
  exact rows_nonneg z K _ hz.1 hK b0 b1

/-- a sub-cooled feed (condition (4), Σ z K ≤ 1): β = 0, liquid row = feed, gas row = K·z -/
theorem rr_subcooled (z K : List ℝ) (fuel : Nat) (hlen : z.length = K.length)
    (h4 : (List.zipWith (fun a b => a * b) z K).sum - 1 ≤ 0) :
    (gasLiqEqZ z K fuel).beta = 0 ∧ (gasLiqEqZ z K fuel).xl = z ∧
    (gasLiqEqZ z K fuel).xg = List.zipWith (fun a b => a * b) z K := by
  have hb : (gasLiqEqZ z K fuel).beta = 0 := by
    show (rrBeta z K fuel).1 = 0
    rcases rrBeta_cases z K fuel with ⟨_, h⟩ | ⟨h, _⟩ | ⟨h, _⟩ | ⟨h, _⟩
    · exact h
    all_goals exact absurd h4 h
  refine ⟨hb, ?_, ?_⟩
  · rw [(gasLiqEqZ_rows z K fuel).2, hb]
    simp only [rows, Num.real_one]
    clear hb h4
    induction z generalizing K with
    | nil => simp
    | cons x xs ih => cases K with
      | nil => simp at hlen
      | cons k ks =>
        simp only [List.zipWith_cons_cons, List.cons.injEq]
        exact ⟨by ring, ih ks (by simpa using hlen)⟩
  · rw [(gasLiqEqZ_rows z K fuel).1, hb]
    simp only [rows, Num.real_one]
    congr 1
    funext a b
    ring

/-- a super-heated feed (condition (5), Σ z/K < 1): β = 1, gas row = feed, liquid row = z/K -/
theorem rr_superheated (z K : List ℝ) (fuel : Nat) (hlen : z.length = K.length) (hK : AllPos K)
    (h4 : ¬ ((List.zipWith (fun a b => a * b) z K).sum - 1 ≤ 0))
    (h5 : 0 < 1 - (List.zipWith (fun a b => a / b) z K).sum) :
    (gasLiqEqZ z K fuel).beta = 1 ∧ (gasLiqEqZ z K fuel).xg = z ∧
    (gasLiqEqZ z K fuel).xl = List.zipWith (fun a b => a / b) z K := by
  have hb : (gasLiqEqZ z K fuel).beta = 1 := by
    show (rrBeta z K fuel).1 = 1
    rcases rrBeta_cases z K fuel with ⟨h, _⟩ | ⟨_, _, h⟩ | ⟨_, h, _⟩ | ⟨_, h, _⟩
    · exact absurd h h4
    · exact h
    all_goals exact absurd h5 h
  refine ⟨hb, ?_, ?_⟩
  · rw [(gasLiqEqZ_rows z K fuel).1, hb]
    simp only [rows, Num.real_one]
    clear hb h4 h5
    induction z generalizing K with
    | nil => simp
    | cons x xs ih => cases K with
      | nil => simp at hlen
      | cons k ks =>
        simp only [List.zipWith_cons_cons, List.cons.injEq]
        have hk : k ≠ 0 := (hK k List.mem_cons_self).ne'
        refine ⟨by rw [show (1:ℝ) + 1 * (k - 1) = k by ring]; exact mul_div_cancel_right₀ x hk, ih ks (by simpa using hlen) (fun k' hk' => hK k' (List.mem_cons_of_mem _ hk'))⟩
  · rw [(gasLiqEqZ_rows z K fuel).2, hb]
    simp only [rows, Num.real_one]
    congr 1
    funext a b
    congr 1; ring

/-- **No mole fraction of either row exceeds one**, in all three branches (this is what the bounds
    (7)/(8) are for), any fuel. -/
theorem rr_rows_le_one (z K : List ℝ) (fuel : Nat) (hlen : z.length = K.length) (hz : IsComposition z)
    (hK : AllPos K) :
    (∀ x ∈ (gasLiqEqZ z K fuel).xg, x ≤ 1) ∧ (∀ x ∈ (gasLiqEqZ z K fuel).xl, x ≤ 1) := by
  obtain ⟨b0, b1⟩ := rr_beta_mem z K fuel hlen (comp_le_one hz)
  obtain ⟨_, hmem⟩ := zip_facts hlen
  by_cases h4 : (List.zipWith (fun a b => a * b) z K).sum - 1 ≤ 0
  · obtain ⟨_, hl, hg⟩ := rr_subcooled z K fuel hlen h4
    rw [hl, hg]
    refine ⟨?_, comp_le_one hz⟩
    intro x hx
    have hnn : ∀ y ∈ List.zipWith (fun a b => a * b) z K, 0 ≤ y := by
      intro y hy
      obtain ⟨p, hp, rfl⟩ := mem_zipWith_zip _ z K y hy
      exact mul_nonneg (hz.1 _ (hmem p hp).1) (hK _ (hmem p hp).2).le
    have := List.single_le_sum hnn x hx
    linarith
  · by_cases h5 : 0 < 1 - (List.zipWith (fun a b => a / b) z K).sum
    · obtain ⟨_, hg, hl⟩ := rr_superheated z K fuel hlen hK h4 h5
      rw [hl, hg]
      refine ⟨comp_le_one hz, ?_⟩
      intro x hx
      have hnn : ∀ y ∈ List.zipWith (fun a b => a / b) z K, 0 ≤ y := by
        intro y hy
        obtain ⟨p, hp, rfl⟩ := mem_zipWith_zip _ z K y hy
        exact div_nonneg (hz.1 _ (hmem p hp).1) (hK _ (hmem p hp).2).le
      have := List.single_le_sum hnn x hx
      linarith
    · obtain ⟨c1, c2⟩ := rr_beta_in_bracket z K fuel hlen hz hK h4 h5
      have key : ∀ p ∈ List.zip z K,
          p.1 * p.2 / (1 + (gasLiqEqZ z K fuel).beta * (p.2 - 1)) ≤ 1 ∧
          p.1 / (1 + (gasLiqEqZ z K fuel).beta * (p.2 - 1)) ≤ 1 := by
        intro p hp
        have hc := bounds_fold_cand (List.zip z K) (0, 1) p hp
        apply row_entries_le_one p.1 p.2 _ (hz.1 _ (hmem p hp).1) (comp_le_one hz _ (hmem p hp).1)
          (hK _ (hmem p hp).2) b0 b1
        · intro hk; refine le_trans (hc.1 hk) ?_
          simpa [bounds] using c1
        · intro hk; refine le_trans ?_ (hc.2 hk)
          simpa [bounds] using c2
      constructor <;> intro x hx
      · rw [(gasLiqEqZ_rows z K fuel).1] at hx
        simp only [rows, Num.real_one] at hx
        obtain ⟨p, hp, rfl⟩ := mem_zipWith_zip _ z K x hx
        exact (key p hp).1
      · rw [(gasLiqEqZ_rows z K fuel).2] at hx
        simp only [rows, Num.real_one] at hx
        obtain ⟨p, hp, rfl⟩ := mem_zipWith_zip _ z K x hx
        exact (key p hp).2

/-- **Newton exit**: when a pass accepts the Newton step (`beta_var = beta_old − g/g'`, `g' ≠ 0`) and
    its increment passes the exit test `|beta_var − beta_old| ≤ 1e-8`, the residual of the objective
    function in use at `beta_old` satisfies `|g| ≤ 1e-8·|g'|`.  (Nothing is proved about an exit
    after a bisection step, nor about the residual at the NEW point: observed on the real code.) -/
theorem rr_newton_exit_residual_partial (z K : List ℝ) (gasForm : Bool) (s : RRState ℝ)
    (hacc : (rrStep z K gasForm s).1.bvar = s.bvar -
      (if gasForm then gGas z K s.bvar else gLiq z K s.bvar) / (if gasForm then gGasP z K s.bvar else gLiqP z K s.bvar))
    (hgp : (if gasForm then gGasP z K s.bvar else gLiqP z K s.bvar) ≠ 0)
    (herr : |(rrStep z K gasForm s).2| ≤ 1e-8) :
    |(if gasForm then gGas z K s.bvar else gLiq z K s.bvar)| ≤
      1e-8 * |(if gasForm then gGasP z K s.bvar else gLiqP z K s.bvar)| := by
  have e : (rrStep z K gasForm s).2 = (rrStep z K gasForm s).1.bvar - s.bvar := rfl
  rw [e, hacc] at herr
  apply newton_exit _ _ _ hgp
  convert herr using 2
  ring

/-- the loop reports `conv = true` only after an increment within the tolerance -/
theorem rr_exit_increment_small (z K : List ℝ) (gasForm : Bool) (fuel : Nat) (s : RRState ℝ) (tr : List ℝ)
    (h : (rrLoop z K gasForm fuel s tr).2.2 = true) :
    ∃ d rest, (rrLoop z K gasForm fuel s tr).2.1 = d :: rest ∧ |d| ≤ 1e-8 :=
  rrLoop_exit z K gasForm fuel s tr h

/-! ## 3. From masses to mole fractions and back (`FluidMixture.equilibrium`) -/

/-- a feed: non-negative masses, at least one positive, positive molar masses -/
def IsFeed (m M : List ℝ) : Prop :=
  M.length = m.length ∧ (∀ x ∈ m, 0 ≤ x) ∧ (∀ x ∈ M, 0 < x) ∧ (∃ x ∈ m, 0 < x)

example : IsFeed [0, 2, 0, 1/2] [1/50, 3/100, 1/10, 1/7] := by
  refine ⟨rfl, ?_, ?_, ⟨2, by simp, by norm_num⟩⟩ <;> intro x hx <;> simp at hx <;>
    rcases hx with rfl | rfl | rfl | rfl <;> norm_num

/-- the mole fractions the code computes from a feed are a composition (so all theorems of §1–2
    apply to `gasLiqEq m M K fuel = gasLiqEqZ (moleFrac m M) K fuel`) -/
theorem feed_moleFrac_isComposition (m M : List ℝ) (h : IsFeed m M) : IsComposition (moleFrac m M) :=
  moleFrac_comp m M h.1 h.2.1 h.2.2.1 h.2.2.2

/-- removing the zero-mass components before the mole fractions are formed and re-inserting zeros
    afterwards gives the mole fractions of the full feed -/
theorem zero_components_reinserted (m M : List ℝ) (h : IsFeed m M) :
    scatter (mask m) (moleFrac (gather (mask m) m) (gather (mask m) M)) = moleFrac m M :=
  scatter_moleFrac m M h.1 h.2.1

/-- **Mass back-conversion conserves every component.**
    For rows of the non-zero components that obey the material balance with the gas fraction β ∈ [0,1]
    returned with them: m_gas,i + m_liq,i = m_i, m_gas,i ≥ 0, m_liq,i ≥ 0 for EVERY component i of the
    full feed, including the removed zero-mass components (index beyond the list: 0 + 0 = 0). -/
theorem masses_conserved (m M : List ℝ) (o : MMOut ℝ) (h : IsFeed m M)
    (hrl : o.xg.length = o.xl.length) (hβ0 : 0 ≤ o.beta) (hβ1 : o.beta ≤ 1)
    (hg : ∀ x ∈ o.xg, 0 ≤ x) (hlq : ∀ x ∈ o.xl, 0 ≤ x)
    (hbal : List.zipWith (fun g l => o.beta * g + (1 - o.beta) * l) o.xg o.xl
      = moleFrac (gather (mask m) m) (gather (mask m) M)) (i : Nat) :
    (equilibriumPost m M o).mg.getD i 0 + (equilibriumPost m M o).ml.getD i 0 = m.getD i 0 ∧
    0 ≤ (equilibriumPost m M o).mg.getD i 0 ∧ 0 ≤ (equilibriumPost m M o).ml.getD i 0 := by
  obtain ⟨e1, e2, e3⟩ := equilibriumPost_masses m M o h.1 h.2.1 h.2.2.1 h.2.2.2 hrl hbal i
  have hN := (vdiv_sum_pos m M h.1 h.2.1 h.2.2.1 h.2.2.2).le
  have hMi : 0 ≤ M.getD i 0 := getD_nonneg M (fun x hx => (h.2.2.1 x hx).le) i
  refine ⟨e3, ?_, ?_⟩
  · rw [e1]
    exact mul_nonneg (mul_nonneg (getD_nonneg _ (scatter_nonneg _ _ hg) i) (mul_nonneg hβ0 hN)) hMi
  · rw [e2]
    exact mul_nonneg (mul_nonneg (getD_nonneg _ (scatter_nonneg _ _ hlq) i) (mul_nonneg (by linarith) hN)) hMi

/-- the whole chain: rows and gas fraction produced by the phase-split solve for ANY positive K, any
    fuel, on the non-zero components of a feed, converted back by `equilibrium` — every component is
    conserved and both phase masses are non-negative -/
theorem flash_masses_conserved (m M K : List ℝ) (fuel : Nat) (h : IsFeed m M) (hK : AllPos K)
    (hlen : (gather (mask m) m).length = K.length)
    (hfeed' : IsFeed (gather (mask m) m) (gather (mask m) M)) (i : Nat) :
    let r := gasLiqEq (gather (mask m) m) (gather (mask m) M) K fuel
    let e := equilibriumPost m M ⟨r.xg, r.xl, r.beta, some K⟩
    e.mg.getD i 0 + e.ml.getD i 0 = m.getD i 0 ∧ 0 ≤ e.mg.getD i 0 ∧ 0 ≤ e.ml.getD i 0 := by
  intro r e
  have hz := feed_moleFrac_isComposition _ _ hfeed'
  have hzl : (moleFrac (gather (mask m) m) (gather (mask m) M)).length = K.length := by
    rw [moleFrac_real]; simp [Num.vdiv, hfeed'.1, hlen]
  obtain ⟨b0, b1⟩ := rr_beta_mem _ K fuel hzl (comp_le_one hz)
  obtain ⟨n1, n2⟩ := rr_rows_nonneg _ K fuel hzl hz hK
  have hl := rows_length (moleFrac (gather (mask m) m) (gather (mask m) M)) K r.beta hzl
  exact masses_conserved m M ⟨r.xg, r.xl, r.beta, some K⟩ h (by
      show (rows _ K r.beta).1.length = (rows _ K r.beta).2.length
      rw [hl.1, hl.2]) b0 b1 n1 n2
    (rr_material_balance _ K fuel hzl (comp_le_one hz) hK) i

/-- single-phase rows: a gas-labelled result puts ALL the mass of every component in the gas row, a
    liquid-labelled one in the liquid row -/
theorem single_phase_masses (m M : List ℝ) (h : IsFeed m M) (i : Nat) :
    let zp := moleFrac (gather (mask m) m) (gather (mask m) M)
    ((equilibriumPost m M ⟨zp, zeros zp, 1, none⟩).mg.getD i 0 = m.getD i 0 ∧
     (equilibriumPost m M ⟨zp, zeros zp, 1, none⟩).ml.getD i 0 = 0) ∧
    ((equilibriumPost m M ⟨zeros zp, zp, 0, none⟩).mg.getD i 0 = 0 ∧
     (equilibriumPost m M ⟨zeros zp, zp, 0, none⟩).ml.getD i 0 = m.getD i 0) := by
  intro zp
  constructor
  · obtain ⟨e1, e2, e3⟩ := equilibriumPost_masses m M ⟨zp, zeros zp, 1, none⟩ h.1 h.2.1 h.2.2.1 h.2.2.2
      (zeros_length zp).symm (zipWith_beta_one zp) i
    have hz : (equilibriumPost m M ⟨zp, zeros zp, 1, none⟩).ml.getD i 0 = 0 := by rw [e2]; ring
    exact ⟨by rw [← e3, hz]; ring, hz⟩
  · obtain ⟨e1, e2, e3⟩ := equilibriumPost_masses m M ⟨zeros zp, zp, 0, none⟩ h.1 h.2.1 h.2.2.1 h.2.2.2
      (zeros_length zp) (zipWith_beta_zero zp) i
    have hz : (equilibriumPost m M ⟨zeros zp, zp, 0, none⟩).mg.getD i 0 = 0 := by rw [e1]; ring
    exact ⟨hz, by rw [← e3, hz]; ring⟩

/-! ## 4. Phase label and single-phase clean-up at the end of `equil_MM` -/

/-- the label of a single-phase result comes from the LAST gas fraction only: `beta > 0.5` → all of the
    feed in the gas row, β = 1, otherwise all in the liquid row, β = 0; K is the NaN vector -/
theorem label_from_last_beta (z : List ℝ) (β : ℝ) :
    (1 / 2 < β → singlePhase z β = ⟨z, zeros z, 1, none⟩) ∧
    (¬ 1 / 2 < β → singlePhase z β = ⟨zeros z, z, 0, none⟩) := by
  have half : (OfScientific.ofScientific 5 true 1 : ℝ) = 1 / 2 := by norm_num
  unfold singlePhase
  simp only [half, Num.real_one, Num.real_zero]
  constructor <;> intro h
  · rw [if_pos h]
  · rw [if_neg h]

/-- the final clean-up does not change a single-phase result of the loop -/
theorem equilMMEnd_single_phase (z : List ℝ) (last : MMOut ℝ) :
    equilMMEnd z false last = singlePhase z last.beta := by
  have half : (OfScientific.ofScientific 5 true 1 : ℝ) = 1 / 2 := by norm_num
  unfold equilMMEnd singlePhase finalCleanup
  simp only [half, Num.real_one, Num.real_zero, Bool.false_eq_true, if_false]
  by_cases h : 1 / 2 < last.beta
  · rw [if_pos h]; norm_num
  · rw [if_neg h]; norm_num

/-- a converged two-phase result (0 ≠ β ≠ 1) is returned unchanged -/
theorem equilMMEnd_two_phase (z : List ℝ) (last : MMOut ℝ) (h0 : last.beta ≠ 0) (h1 : last.beta ≠ 1) :
    equilMMEnd z true last = last := by
  unfold equilMMEnd
  simp only [if_true]
  exact finalCleanup_two_phase z last h0 h1

/-- a converged result with β = 1 (β = 0) is rewritten as pure gas (pure liquid) -/
theorem equilMMEnd_converged_single (z : List ℝ) (last : MMOut ℝ) :
    (last.beta = 1 → equilMMEnd z true last = ⟨z, zeros z, 1, none⟩) ∧
    (last.beta = 0 → equilMMEnd z true last = ⟨zeros z, z, 0, none⟩) := by
  unfold equilMMEnd finalCleanup
  simp only [if_true, Num.real_one, Num.real_zero]
  constructor <;> intro h <;> rw [h] <;> norm_num

/-- whatever happens, a single-phase result has the feed (sum one) in the labelled row, zeros in the
    other row and no K -/
theorem single_phase_rows (z : List ℝ) (last : MMOut ℝ) (hz : IsComposition z) :
    let o := equilMMEnd z false last
    o.K = none ∧ ((o.beta = 1 ∧ o.xg = z ∧ o.xg.sum = 1 ∧ ∀ i, o.xl.getD i 0 = 0) ∨
                  (o.beta = 0 ∧ o.xl = z ∧ o.xl.sum = 1 ∧ ∀ i, o.xg.getD i 0 = 0)) := by
  intro o
  have e : o = singlePhase z last.beta := equilMMEnd_single_phase z last
  by_cases h : 1 / 2 < last.beta
  · rw [e, (label_from_last_beta z last.beta).1 h]
    exact ⟨rfl, Or.inl ⟨rfl, rfl, hz.2, zeros_getD z⟩⟩
  · rw [e, (label_from_last_beta z last.beta).2 h]
    exact ⟨rfl, Or.inr ⟨rfl, rfl, hz.2, zeros_getD z⟩⟩

/-! ## 5. Reported K -/

/-- **Reported K = ratio of gas to liquid mole fraction** when both phases are present: the K vector
    `equilibrium` returns (zero-components re-inserted) satisfies x_gas,i = K_i · x_liq,i for every
    component, hence K_i = x_gas,i / x_liq,i wherever x_liq,i ≠ 0. -/
theorem reported_K_is_ratio (z K m M : List ℝ) (fuel : Nat) (hlen : z.length = K.length)
    (h0 : (gasLiqEqZ z K fuel).beta ≠ 0) (h1 : (gasLiqEqZ z K fuel).beta ≠ 1) :
    let r := gasLiqEqZ z K fuel
    let e := equilibriumPost m M (equilMMEnd z true ⟨r.xg, r.xl, r.beta, some K⟩)
    ∃ Kf, e.K = some Kf ∧ Kf = scatter (mask m) K ∧
      (∀ i, e.xg.getD i 0 = Kf.getD i 0 * e.xl.getD i 0) ∧
      (∀ i, e.xl.getD i 0 ≠ 0 → Kf.getD i 0 = e.xg.getD i 0 / e.xl.getD i 0) := by
  intro r e
  have he : e = equilibriumPost m M ⟨r.xg, r.xl, r.beta, some K⟩ := by
    show equilibriumPost m M (equilMMEnd z true ⟨r.xg, r.xl, r.beta, some K⟩) = _
    rw [equilMMEnd_two_phase z _ h0 h1]
  have hx : ∀ i, e.xg.getD i 0 = (scatter (mask m) K).getD i 0 * e.xl.getD i 0 := by
    intro i
    rw [he]
    show (scatter (mask m) r.xg).getD i 0 = _ * (scatter (mask m) r.xl).getD i 0
    rw [rr_xgas_eq_K_xliq z K fuel, scatter_zipWith _ (by ring) (mask m) K _ (by
      rw [(gasLiqEqZ_rows z K fuel).2, (rows_length z K _ hlen).2, hlen]), getD_zipWith_mul]
  refine ⟨scatter (mask m) K, by rw [he]; rfl, rfl, hx, ?_⟩
  intro i hi
  rw [hx i, mul_div_assoc, div_self hi, mul_one]

/-- a fully evaluated two-phase instance: for z = (⅓,⅓,⅓), K = (1,2,½) the solve returns β = ½,
    x_gas = (⅓,4/9,2/9), x_liq = (⅓,2/9,4/9), with any fuel ≥ 1 (one pass: g = 0 at the first guess β = ½) -/
theorem witness_rows_are_rr_solution (fuel : Nat) :
    (gasLiqEqZ ([1/3, 1/3, 1/3] : List ℝ) [1, 2, 1/2] (fuel + 1)).beta = 1 / 2 ∧
    (gasLiqEqZ ([1/3, 1/3, 1/3] : List ℝ) [1, 2, 1/2] (fuel + 1)).xg = [1/3, 4/9, 2/9] ∧
    (gasLiqEqZ ([1/3, 1/3, 1/3] : List ℝ) [1, 2, 1/2] (fuel + 1)).xl = [1/3, 2/9, 4/9] := by
  have hbounds : bounds ([1/3, 1/3, 1/3] : List ℝ) [1, 2, 1/2] = (0, 1) := by
    simp only [bounds, List.zip_cons_cons, List.zip_nil_right, List.foldl_cons, List.foldl_nil, boundsStep,
      Num.real_one, Num.real_zero, Num.real_max, Num.real_min]
    norm_num
  have hb : (gasLiqEqZ ([1/3, 1/3, 1/3] : List ℝ) [1, 2, 1/2] (fuel + 1)).beta = 1 / 2 := by
    show (rrBeta ([1/3, 1/3, 1/3] : List ℝ) [1, 2, 1/2] (fuel + 1)).1 = 1 / 2
    rcases rrBeta_cases ([1/3, 1/3, 1/3] : List ℝ) [1, 2, 1/2] (fuel + 1) with ⟨h, _⟩ | ⟨_, h, _⟩ | ⟨_, _, h, _⟩ | ⟨_, _, _, h⟩
    · exfalso; norm_num at h
    · exfalso; norm_num at h
    · exfalso
      rw [hbounds, gGas_real] at h
      norm_num at h
    · rw [h, hbounds]
      have half : (OfScientific.ofScientific 5 true 1 : ℝ) = 1 / 2 := by norm_num
      simp only [rrLoop, rrStep, gLiq, gLiqP, Num.real_sum, Num.real_one, Num.real_zero, Num.real_npow,
        Num.real_abs, half, Bool.false_eq_true, if_false, List.zipWith_cons_cons, List.zipWith_nil_right,
        List.sum_cons, List.sum_nil]
      norm_num
  refine ⟨hb, ?_, ?_⟩
  · rw [(gasLiqEqZ_rows _ _ _).1, hb]; simp only [rows, Num.real_one]; norm_num
  · rw [(gasLiqEqZ_rows _ _ _).2, hb]; simp only [rows, Num.real_one]; norm_num

/-! ## 6. Non-vacuity: concrete states satisfying the hypotheses used above -/

/-- a genuinely two-phase state meeting every hypothesis of §1–2 (composition, positive K, equal
    lengths, conditions (4) and (5) both failing) -/
example : IsComposition [1/3, 1/3, 1/3] ∧ AllPos [2, 1, 1/2] ∧ ([1/3, 1/3, 1/3] : List ℝ).length = ([2, 1, 1/2] : List ℝ).length ∧
    ¬ ((List.zipWith (fun a b => a * b) ([1/3, 1/3, 1/3] : List ℝ) [2, 1, 1/2]).sum - 1 ≤ 0) ∧
    ¬ (0 < 1 - (List.zipWith (fun a b => a / b) ([1/3, 1/3, 1/3] : List ℝ) [2, 1, 1/2]).sum) := by
  refine ⟨⟨?_, by norm_num⟩, ?_, rfl, by norm_num, by norm_num⟩
  · intro x hx; simp at hx; rw [hx]; norm_num
  · intro x hx; simp at hx; rcases hx with rfl | rfl | rfl <;> norm_num

/-- the hypotheses of `masses_conserved` are met by a feed with a removed zero-mass component and the
    two-phase rows x_gas = (4/9,1/3,2/9), x_liq = (2/9,1/3,4/9), β = ½ of z = (⅓,⅓,⅓), K = (2,1,½) -/
example : ∃ (m M : List ℝ) (o : MMOut ℝ), IsFeed m M ∧ o.xg.length = o.xl.length ∧ 0 ≤ o.beta ∧ o.beta ≤ 1 ∧
    (∀ x ∈ o.xg, 0 ≤ x) ∧ (∀ x ∈ o.xl, 0 ≤ x) ∧
    List.zipWith (fun g l => o.beta * g + (1 - o.beta) * l) o.xg o.xl = moleFrac (gather (mask m) m) (gather (mask m) M) := by
  refine ⟨[1, 0, 1, 1], [1, 5, 1, 1], ⟨[4/9, 1/3, 2/9], [2/9, 1/3, 4/9], 1/2, some [2, 1, 1/2]⟩,
    ⟨rfl, ?_, ?_, ⟨1, by simp, by norm_num⟩⟩, rfl, by norm_num, by norm_num, ?_, ?_, ?_⟩
  · intro x hx; simp at hx; rcases hx with rfl | rfl | rfl <;> norm_num
  · intro x hx; simp at hx; rcases hx with rfl | rfl | rfl <;> norm_num
  · intro x hx; simp at hx; rcases hx with rfl | rfl | rfl <;> norm_num
  · intro x hx; simp at hx; rcases hx with rfl | rfl | rfl <;> norm_num
  · have hm : mask ([1, 0, 1, 1] : List ℝ) = [true, false, true, true] := by
      rw [mask_cons_pos _ _ one_pos, mask_cons_nonpos _ _ (lt_irrefl 0), mask_cons_pos _ _ one_pos,
        mask_cons_pos _ _ one_pos, mask_nil]
    rw [hm, moleFrac_real]
    simp only [gather, Num.vdiv]
    norm_num

/-! ## 7. The returned β and the Rachford–Rice ROOT (these depend on the direction of the bound update) -/

/-- in the two-phase branch (condition (4) fails) g is strictly decreasing on [0,1] -/
theorem rr_g_strictly_decreasing (z K : List ℝ) (hlen : z.length = K.length) (hz : IsComposition z) (hK : AllPos K)
    (h4 : ¬ ((List.zipWith (fun a b => a * b) z K).sum - 1 ≤ 0)) (b1 b2 : ℝ) (h0 : 0 ≤ b1) (h12 : b1 < b2) (h1 : b2 ≤ 1) :
    gGas z K b2 < gGas z K b1 :=
  gGas_strictAnti z K hlen hz.1 hK (exists_volatile z K hlen hz.1 hz.2 h4) b1 b2 h0 h12 h1

/-- … so the Rachford–Rice equation has at most one root in [0,1] -/
theorem rr_root_unique (z K : List ℝ) (hlen : z.length = K.length) (hz : IsComposition z) (hK : AllPos K)
    (h4 : ¬ ((List.zipWith (fun a b => a * b) z K).sum - 1 ≤ 0)) (r1 r2 : ℝ) (a0 : 0 ≤ r1) (a1 : r1 ≤ 1) (b0 : 0 ≤ r2)
    (b1 : r2 ≤ 1) (e1 : gGas z K r1 = 0) (e2 : gGas z K r2 = 0) : r1 = r2 := by
  rcases lt_trichotomy r1 r2 with h | h | h
  · have := rr_g_strictly_decreasing z K hlen hz hK h4 r1 r2 a0 h b1; rw [e1, e2] at this; exact absurd this (lt_irrefl _)
  · exact h
  · have := rr_g_strictly_decreasing z K hlen hz hK h4 r2 r1 b0 h a1; rw [e1, e2] at this; exact absurd this (lt_irrefl _)

/-- every root lies in the initial bracket of equations (7)/(8) -/
theorem rr_root_in_initial_bracket (z K : List ℝ) (hlen : z.length = K.length) (hz : IsComposition z) (hK : AllPos K)
    (r : ℝ) (hr0 : 0 ≤ r) (hr1 : r ≤ 1) (hroot : gGas z K r = 0) : (bounds z K).1 ≤ r ∧ r ≤ (bounds z K).2 := by
  have := root_in_bounds z K hlen hz.1 hz.2 hK r hr0 hr1 hroot
  simpa [bounds] using this

/-- **One pass keeps the root inside [beta_min, beta_max]** (position of the root in the loop variable: β for the
    gas form, 1 − β for the liquid form).  Unlike the bracket invariant of §1 this is FALSE for a pass whose sign
    tests `g > 0` are flipped: it uses the direction of the update and the monotonicity of g. -/
theorem rr_step_keeps_root (z K : List ℝ) (hlen : z.length = K.length) (hz : IsComposition z) (hK : AllPos K)
    (h4 : ¬ ((List.zipWith (fun a b => a * b) z K).sum - 1 ≤ 0)) (gasForm : Bool)
    (r : ℝ) (hr0 : 0 ≤ r) (hr1 : r ≤ 1) (hroot : gGas z K r = 0) (s : RRState ℝ) (hv0 : 0 ≤ s.bvar) (hv1 : s.bvar ≤ 1)
    (h : s.bmin ≤ (if gasForm then r else 1 - r) ∧ (if gasForm then r else 1 - r) ≤ s.bmax) :
    (rrStep z K gasForm s).1.bmin ≤ (if gasForm then r else 1 - r) ∧
    (if gasForm then r else 1 - r) ≤ (rrStep z K gasForm s).1.bmax :=
  rrStep_keeps_root z K gasForm r hr0 hr1 hroot (rr_g_strictly_decreasing z K hlen hz hK h4) s hv0 hv1 h

/-- **The returned β and the root share the final bracket**, for any fuel: in the two-phase branch there is a
    bracket [lo, hi] — the final [beta_min, beta_max] of the loop that ran, mapped back to β — containing both
    the returned gas fraction and the (unique) root, hence |β − root| ≤ hi − lo. -/
theorem rr_result_brackets_root (z K : List ℝ) (fuel : Nat) (hlen : z.length = K.length) (hz : IsComposition z)
    (hK : AllPos K)
    (h4 : ¬ ((List.zipWith (fun a b => a * b) z K).sum - 1 ≤ 0))
    (h5 : ¬ (0 < 1 - (List.zipWith (fun a b => a / b) z K).sum))
    (r : ℝ) (hr0 : 0 ≤ r) (hr1 : r ≤ 1) (hroot : gGas z K r = 0) :
    ∃ s' : RRState ℝ, ∃ lo hi : ℝ,
      (s' = (rrLoop z K true fuel ⟨(bounds z K).1, (bounds z K).2, 1 / 2 * ((bounds z K).1 + (bounds z K).2)⟩ []).1 ∧
          lo = s'.bmin ∧ hi = s'.bmax ∨
       s' = (rrLoop z K false fuel ⟨1 - (bounds z K).2, 1 - (bounds z K).1,
              1 - 1 / 2 * ((bounds z K).1 + (bounds z K).2)⟩ []).1 ∧ lo = 1 - s'.bmax ∧ hi = 1 - s'.bmin) ∧
      lo ≤ (gasLiqEqZ z K fuel).beta ∧ (gasLiqEqZ z K fuel).beta ≤ hi ∧ lo ≤ r ∧ r ≤ hi ∧
      |(gasLiqEqZ z K fuel).beta - r| ≤ hi - lo := by
  have hanti := rr_g_strictly_decreasing z K hlen hz hK h4
  obtain ⟨b1, b2, b3⟩ := rr_initial_bracket z K hlen hz hK
  obtain ⟨q1, q2⟩ := rr_root_in_initial_bracket z K hlen hz hK r hr0 hr1 hroot
  have hβ : (gasLiqEqZ z K fuel).beta = (rrBeta z K fuel).1 := rfl
  rcases rrBeta_cases z K fuel with ⟨h, _⟩ | ⟨_, h, _⟩ | ⟨_, _, _, h⟩ | ⟨_, _, _, h⟩
  · exact absurd h h4
  · exact absurd h h5
  · have hi := rrLoop_inv z K true 0 1 fuel
      ⟨(bounds z K).1, (bounds z K).2, 1 / 2 * ((bounds z K).1 + (bounds z K).2)⟩ []
      ⟨b1, by simp only []; linarith, by simp only []; linarith, b3⟩
    have hk := rrLoop_keeps_root z K true r hr0 hr1 hroot hanti r rfl fuel
      ⟨(bounds z K).1, (bounds z K).2, 1 / 2 * ((bounds z K).1 + (bounds z K).2)⟩ []
      ⟨b1, by simp only []; linarith, by simp only []; linarith, b3⟩ ⟨q1, q2⟩
    refine ⟨_, _, _, Or.inl ⟨rfl, rfl, rfl⟩, ?_, ?_, hk.1, hk.2, ?_⟩
    · rw [hβ, h]; exact hi.2.1
    · rw [hβ, h]; exact hi.2.2.1
    · rw [hβ, h, abs_le]; constructor <;> linarith [hi.2.1, hi.2.2.1, hk.1, hk.2]
  · have hi := rrLoop_inv z K false 0 1 fuel
      ⟨1 - (bounds z K).2, 1 - (bounds z K).1, 1 - 1 / 2 * ((bounds z K).1 + (bounds z K).2)⟩ []
      ⟨by simp only []; linarith, by simp only []; linarith, by simp only []; linarith, by simp only []; linarith⟩
    have hk := rrLoop_keeps_root z K false r hr0 hr1 hroot hanti (1 - r) (by simp) fuel
      ⟨1 - (bounds z K).2, 1 - (bounds z K).1, 1 - 1 / 2 * ((bounds z K).1 + (bounds z K).2)⟩ []
      ⟨by simp only []; linarith, by simp only []; linarith, by simp only []; linarith, by simp only []; linarith⟩
      ⟨by simp only []; linarith, by simp only []; linarith⟩
    refine ⟨_, _, _, Or.inr ⟨rfl, rfl, rfl⟩, ?_, ?_, ?_, ?_, ?_⟩
    · rw [hβ, h]; linarith [hi.2.2.1]
    · rw [hβ, h]; linarith [hi.2.1]
    · linarith [hk.2]
    · linarith [hk.1]
    · rw [hβ, h, abs_le]; constructor <;> linarith [hi.2.1, hi.2.2.1, hk.1, hk.2]

/-- after any pass the previous iterate is an end point of the new bracket -/
theorem rr_old_iterate_is_endpoint (z K : List ℝ) (gasForm : Bool) (s : RRState ℝ) :
    s.bvar = (rrStep z K gasForm s).1.bmin ∨ s.bvar = (rrStep z K gasForm s).1.bmax := by
  unfold rrStep
  cases gasForm <;> simp only [if_true, if_false, Bool.false_eq_true] <;> split_ifs <;> simp

/-- **Bisection exit**: when a pass takes the bisection branch, the distance of the new iterate to anything that
    lies in the new bracket — in particular to the root, by `rr_step_keeps_root` — is at most the increment
    |beta_var − beta_old| that the exit test compares with 1e-8.  (With `rr_newton_exit_residual_partial` every exit
    of the loop now carries a statement.) -/
theorem rr_bisection_exit_error (z K : List ℝ) (gasForm : Bool) (s : RRState ℝ) (ρ : ℝ)
    (hbis : (rrStep z K gasForm s).1.bvar = 1 / 2 * ((rrStep z K gasForm s).1.bmin + (rrStep z K gasForm s).1.bmax))
    (hρ : (rrStep z K gasForm s).1.bmin ≤ ρ ∧ ρ ≤ (rrStep z K gasForm s).1.bmax) :
    |(rrStep z K gasForm s).1.bvar - ρ| ≤ |(rrStep z K gasForm s).2| := by
  have e : (rrStep z K gasForm s).2 = (rrStep z K gasForm s).1.bvar - s.bvar := rfl
  rw [e, hbis]
  rcases rr_old_iterate_is_endpoint z K gasForm s with h | h <;> rw [h]
  · rw [abs_le]
    have : (0:ℝ) ≤ 1 / 2 * ((rrStep z K gasForm s).1.bmin + (rrStep z K gasForm s).1.bmax) - (rrStep z K gasForm s).1.bmin := by
      linarith [hρ.1, hρ.2]
    rw [abs_of_nonneg this]; constructor <;> linarith [hρ.1, hρ.2]
  · rw [abs_le]
    have : 1 / 2 * ((rrStep z K gasForm s).1.bmin + (rrStep z K gasForm s).1.bmax) - (rrStep z K gasForm s).1.bmax ≤ (0:ℝ) := by
      linarith [hρ.1, hρ.2]
    rw [abs_of_nonpos this]; constructor <;> linarith [hρ.1, hρ.2]

/-- denominators for K_i ≥ 0 (the code replaces a NaN K by 0, l.3007; denormal K are positive): positive whenever
    β < 1 -/
theorem rr_denominators_pos_nonneg_K (β k : ℝ) (h0 : 0 ≤ β) (h1 : β < 1) (hk : 0 ≤ k) : 0 < 1 + β * (k - 1) :=
  den_pos_of_nonneg β k h0 h1 hk

/-- **End-to-end conservation** through the phase-split solve, the end of `equil_MM` (whichever way it is left:
    converged two-phase, converged with β ∈ {0,1}, or the single-phase branch after the stability test) and the
    back-conversion of `equilibrium`: for ANY non-negative K (zeros allowed) for which the denominators at the
    returned β are positive — automatic for K > 0 (`rr_denominators_pos_at_result`) and for K ≥ 0 with β < 1
    (`rr_denominators_pos_nonneg_K`) — every component of the full feed is conserved and both phase masses
    are non-negative. -/
theorem equilibrium_conserves_end_to_end (m M K : List ℝ) (fuel : Nat) (conv : Bool) (h : IsFeed m M)
    (hfeed' : IsFeed (gather (mask m) m) (gather (mask m) M))
    (hlen : (gather (mask m) m).length = K.length) (hK0 : ∀ k ∈ K, 0 ≤ k)
    (hd : ∀ k ∈ K, 0 < 1 + (gasLiqEq (gather (mask m) m) (gather (mask m) M) K fuel).beta * (k - 1)) (i : Nat) :
    let r := gasLiqEq (gather (mask m) m) (gather (mask m) M) K fuel
    let e := equilibriumPost m M
      (equilMMEnd (moleFrac (gather (mask m) m) (gather (mask m) M)) conv ⟨r.xg, r.xl, r.beta, some K⟩)
    e.mg.getD i 0 + e.ml.getD i 0 = m.getD i 0 ∧ 0 ≤ e.mg.getD i 0 ∧ 0 ≤ e.ml.getD i 0 := by
  intro r e
  have hz := feed_moleFrac_isComposition _ _ hfeed'
  have hzl : (moleFrac (gather (mask m) m) (gather (mask m) M)).length = K.length := by
    rw [moleFrac_real]; simp [Num.vdiv, hfeed'.1, hlen]
  obtain ⟨b0, b1⟩ := rr_beta_mem _ K fuel hzl (comp_le_one hz)
  have hmi : 0 ≤ m.getD i 0 := getD_nonneg m h.2.1 i
  obtain ⟨⟨g1, g2⟩, ⟨l1, l2⟩⟩ := single_phase_masses m M h i
  -- the three possible shapes of what `equil_MM` returns
  have shapes : equilMMEnd (moleFrac (gather (mask m) m) (gather (mask m) M)) conv ⟨r.xg, r.xl, r.beta, some K⟩
      = ⟨moleFrac (gather (mask m) m) (gather (mask m) M), zeros (moleFrac (gather (mask m) m) (gather (mask m) M)), 1, none⟩ ∨
    equilMMEnd (moleFrac (gather (mask m) m) (gather (mask m) M)) conv ⟨r.xg, r.xl, r.beta, some K⟩
      = ⟨zeros (moleFrac (gather (mask m) m) (gather (mask m) M)), moleFrac (gather (mask m) m) (gather (mask m) M), 0, none⟩ ∨
    equilMMEnd (moleFrac (gather (mask m) m) (gather (mask m) M)) conv ⟨r.xg, r.xl, r.beta, some K⟩
      = ⟨r.xg, r.xl, r.beta, some K⟩ := by
    cases conv
    · rw [equilMMEnd_single_phase]
      by_cases hb : 1 / 2 < r.beta
      · left; exact (label_from_last_beta _ _).1 hb
      · right; left; exact (label_from_last_beta _ _).2 hb
    · by_cases hb1 : r.beta = 1
      · left; exact (equilMMEnd_converged_single _ ⟨r.xg, r.xl, r.beta, some K⟩).1 hb1
      · by_cases hb0 : r.beta = 0
        · right; left; exact (equilMMEnd_converged_single _ ⟨r.xg, r.xl, r.beta, some K⟩).2 hb0
        · right; right; exact equilMMEnd_two_phase _ ⟨r.xg, r.xl, r.beta, some K⟩ hb0 hb1
  rcases shapes with s | s | s
  · have he : e = equilibriumPost m M ⟨moleFrac (gather (mask m) m) (gather (mask m) M),
        zeros (moleFrac (gather (mask m) m) (gather (mask m) M)), 1, none⟩ := by
      show equilibriumPost m M _ = _; rw [s]
    rw [he, g1, g2]; exact ⟨by ring, hmi, le_refl _⟩
  · have he : e = equilibriumPost m M ⟨zeros (moleFrac (gather (mask m) m) (gather (mask m) M)),
        moleFrac (gather (mask m) m) (gather (mask m) M), 0, none⟩ := by
      show equilibriumPost m M _ = _; rw [s]
    rw [he, l1, l2]; exact ⟨by ring, le_refl _, hmi⟩
  · have he : e = equilibriumPost m M ⟨r.xg, r.xl, r.beta, some K⟩ := by
      show equilibriumPost m M _ = _; rw [s]
    rw [he]
    obtain ⟨n1, n2⟩ := rows_nonneg_of_den (moleFrac (gather (mask m) m) (gather (mask m) M)) K r.beta hz.1 hK0 hd
    have hl := rows_length (moleFrac (gather (mask m) m) (gather (mask m) M)) K r.beta hzl
    exact masses_conserved m M ⟨r.xg, r.xl, r.beta, some K⟩ h (by
        show (rows _ K r.beta).1.length = (rows _ K r.beta).2.length
        rw [hl.1, hl.2]) b0 b1 n1 n2
      (rows_balance _ K r.beta hzl (fun k hk => (hd k hk).ne')) i

end TamocV.Props.C02
