/-
  C06 — Stratified-plume inner/outer exchange is conservative.
  Property theorems only, about `TamocV.Model.Smp` (hand transcription of
  `smp.derivs_inner`, `smp.derivs_outer`, `OuterPlume.update`; tied to /repo by the slot-wise
  correspondence run of harness/c06.py).

  Sign convention of the code.  Both functions return d(state)/dz with z the DEPTH (positive
  downward).  `derivs_inner` fills `yp` with the gradients along the upward path of the inner
  plume and returns `-yp`; `derivs_outer` returns `yp`.  The outer plume flows downward: its
  volume flux Q_o, and therefore u_o = J_o/Q_o, are negative.  Hence, for the RETURNED vectors
  `inner`, `outer`, "what the inner plume gains the outer plume loses, and the two together
  change only by what the outer plume entrains from the ambient" reads

      inner[k] + outer[k'] = E · (ambient value),      E := 2π · b_o · α₃ · u_o   (`ambEntr`; ≤ 0 for Q_o < 0 < J_o, `ambEntr_nonpos`)

  for volume (ambient value 1), salt (Sa), every dissolved compound j (ca_j; the inner side is the
  dissolved slot plus mass slot j of every soluble particle) and heat (ρ_r·cp·Ta; the inner
  side is slot 3 plus the heat slot of every particle, and the right-hand side carries the heat
  of solution of the dissolution gradients).  All statements are for ANY number of particles
  and chemicals (induction over the lists in Lemmas/C06.lean).

  Why the four identities carry no domain hypotheses (u + us ≠ 0, M_j ≠ 0, list lengths = n).
  Lean totalises `x / 0 = 0` and `List.getD`.  Each identity is an equation between sums of the
  SAME model terms: every quotient `A·nb0/(u+us)` and `…/M_j` that occurs on the left occurs, as
  the very same subterm, in a slot it is added to or subtracted from; no step of the proof
  cancels a denominator (`x/x = 1`) or compares a `getD` default with a real entry.  The
  identities therefore hold for the totalised functions for ALL inputs and a guard would only
  weaken them.  What the guards delimit is where the model computes what the CODE computes
  (outside, Python returns inf/nan or raises IndexError): harness/c06.py checks for every state
  pair that the lists have length n, u + us ≠ 0 and M_j ≠ 0 (obligation "every completed state
  pair lies in the domain …") and reports non-finite or raising real code as a violation.
  Theorems that do need hypotheses (`j < n`, the sign of Q, `b_i = 0 ∧ Ep = 0`) state them.
-/
import TamocV.Real
import TamocV.Lemmas.Basic
import TamocV.Lemmas.C06
import TamocV.Model.Smp
import Mathlib.Tactic.Ring
import Mathlib.Tactic.NormNum
import Mathlib.Tactic.FieldSimp

namespace TamocV.Props.C06
open TamocV.Model.Smp TamocV.Lemmas.C06

variable (p : Params ℝ) (n : Nat) (yi : Inner ℝ) (yo : Outer ℝ) (ps : List (Particle ℝ))

/-! ### the four exchange identities on the returned vectors -/

/-- Volume: returned inner slot 0 + returned outer slot 0 = E.  (No division, no list access.) -/
theorem volume_exchange :
    (derivsInner p n yi yo ps).getD 0 0 + (derivsOuter p n yi yo).getD 0 0 = ambEntr p yo := by
  rw [derivsInner_eq]
  simp only [derivsOuter, List.cons_append, List.getD_cons_zero, innerVol, outerVol, ambEntr]
  ring

/-- Salt: returned inner slot 2 + returned outer slot 2 = E·Sa.  (No division, no list access.) -/
theorem salt_exchange :
    (derivsInner p n yi yo ps).getD 2 0 + (derivsOuter p n yi yo).getD 2 0 = ambEntr p yo * yo.Sa := by
  rw [derivsInner_eq]
  simp only [derivsOuter, List.cons_append, List.getD_cons_zero, List.getD_cons_succ, innerSalt,
    outerSalt, ambEntr]
  ring

/-- Compound `j`: inner dissolved slot + Σ over soluble particles of inner mass slot `j`
    + outer slot `4+j` = E·ca_j  (mass leaving the particles re-appears dissolved: `delDiss`).
    `j < n` locates the slots; no guard on `u + us` or on list lengths is needed (file header). -/
theorem compound_exchange (j : Nat) (hj : j < n) :
    (derivsInner p n yi yo ps).getD (dissIdx n ps + j) 0
      + sumMassSlots n j ps 4 (derivsInner p n yi yo ps)
      + (derivsOuter p n yi yo).getD (4 + j) 0
    = ambEntr p yo * yo.ca.getD j 0 := by
  rw [derivsInner_eq]
  rw [dissSlot_flat n yi ps _ (by simp) _ j hj]
  have h4 := sumMassSlots_flat n yi ps
    [-(innerVol p yi yo), -(innerMom p yi yo), -(innerSalt p yi yo),
      -(heatFold p n yi ps (innerHeat0 p yi yo))]
    ((List.range n).map (fun i => -(innerDiss p yi yo (delDiss n yi ps (List.replicate n 0)) i))) j hj
  simp only [List.length_cons, List.length_nil] at h4
  rw [h4]
  have ho : (derivsOuter p n yi yo).getD (4 + j) 0 = outerChem p yi yo j := by
    unfold derivsOuter
    have := getD_tail [outerVol p yi yo, outerMom p yi yo, outerSalt p yi yo, outerHeat p yi yo]
      ((List.range n).map (outerChem p yi yo)) j
    simp only [List.length_cons, List.length_nil] at this
    rw [this, getD_map_range _ _ _ hj]
  rw [ho]
  simp only [innerDiss, outerChem, ambEntr, Num.real_zero]
  rw [delDiss_getD n yi ps _ (by simp) j hj]
  simp [List.getD_eq_getElem?_getD, hj]
  ring

/-- Heat: inner slot 3 + Σ over particles of the inner particle-heat slot + outer slot 3
    = ρ_r·cp·E·Ta − Σ_{soluble particles, j} (inner mass slot j)·neg_dH_solR_j·Ru/M_j,
    i.e. entrained ambient heat plus the heat of solution released by the dissolution gradients
    (the code adds `yp_mass·(−1)·neg_dH_solR·Ru/M` to `yp[3]`, l.132, and returns `−yp`).
    The quotients by `u + us` and `M_j` appear as identical subterms on both sides (file header):
    no guard is needed for the identity; the harness checks `u + us ≠ 0`, `M_j ≠ 0` per state. -/
theorem heat_exchange :
    (derivsInner p n yi yo ps).getD 3 0
      + sumHeatSlots n ps 4 (derivsInner p n yi yo ps)
      + (derivsOuter p n yi yo).getD 3 0
    = p.rho_r * p.cp * ambEntr p yo * yo.Ta - sumHos p n ps 4 (derivsInner p n yi yo ps) := by
  rw [derivsInner_eq]
  have h4 := sumHeatSlots_flat n yi ps
    [-(innerVol p yi yo), -(innerMom p yi yo), -(innerSalt p yi yo),
      -(heatFold p n yi ps (innerHeat0 p yi yo))]
    ((List.range n).map (fun i => -(innerDiss p yi yo (delDiss n yi ps (List.replicate n 0)) i)))
  have h5 := sumHos_flat p n yi ps
    [-(innerVol p yi yo), -(innerMom p yi yo), -(innerSalt p yi yo),
      -(heatFold p n yi ps (innerHeat0 p yi yo))]
    ((List.range n).map (fun i => -(innerDiss p yi yo (delDiss n yi ps (List.replicate n 0)) i)))
  simp only [List.length_cons, List.length_nil] at h4 h5
  rw [h4, h5, heatFold_eq]
  simp only [derivsOuter, List.cons_append, List.getD_cons_zero, List.getD_cons_succ, innerHeat0,
    outerHeat, ambEntr]
  ring

/-! ### composed with `OuterPlume.update`: the exchange in terms of the outer STATE

  `yo := outerUpdate p y Ta Sa rho_a ca dens bi` is the record `OuterPlume.update` derives from the
  outer state vector `y = [Q, J, S, H, C…]`, the ambient look-ups at the depth and the inner
  half-width `bi`. -/

variable (y : List ℝ) (Ta Sa rho_a : ℝ) (ca : List ℝ) (dens : ℝ → ℝ → ℝ) (bi : ℝ)

/-- Outer plume present (`Q < 0`): the ambient entrainment is `2π·√(Q²/(πJ) + b_i²)·α₃·J/Q`. -/
theorem ambEntr_of_state (hQ : y.getD 0 0 < 0) :
    ambEntr p (outerUpdate p y Ta Sa rho_a ca dens bi)
    = 2 * pi * Real.sqrt (y.getD 0 0 ^ 2 / (pi * y.getD 1 0) + bi ^ 2) * p.alpha_3
        * (y.getD 1 0 / y.getD 0 0) := by
  obtain ⟨hu, hb, -⟩ := outerUpdate_present p y Ta Sa rho_a ca dens bi hQ
  simp only [ambEntr, hu, hb]

/-- Downward flow (`Q < 0`, `J > 0`) and `α₃ ≥ 0`: the sum of the two plumes' volume gradients
    `E` is ≤ 0 — with z the depth, the (negative) outer volume flux grows in magnitude by what it
    entrains from the ambient. -/
theorem ambEntr_nonpos (hQ : y.getD 0 0 < 0) (hJ : 0 < y.getD 1 0) (ha : 0 ≤ p.alpha_3) :
    ambEntr p (outerUpdate p y Ta Sa rho_a ca dens bi) ≤ 0 := by
  rw [ambEntr_of_state p y Ta Sa rho_a ca dens bi hQ]
  have hpi : (0 : ℝ) ≤ 2 * pi := by
    simp only [pi, Num.real_ofSci]; norm_num
  have hs := Real.sqrt_nonneg (y.getD 0 0 ^ 2 / (pi * y.getD 1 0) + bi ^ 2)
  have hu : y.getD 1 0 / y.getD 0 0 ≤ 0 := div_nonpos_of_nonneg_of_nonpos hJ.le hQ.le
  have h1 : 0 ≤ 2 * pi * Real.sqrt (y.getD 0 0 ^ 2 / (pi * y.getD 1 0) + bi ^ 2) * p.alpha_3 :=
    mul_nonneg (mul_nonneg hpi hs) ha
  exact mul_nonpos_of_nonneg_of_nonpos h1 hu

/-- Volume exchange for a present outer plume, entirely in terms of the outer state. -/
theorem volume_exchange_of_state (hQ : y.getD 0 0 < 0) :
    (derivsInner p n yi (outerUpdate p y Ta Sa rho_a ca dens bi) ps).getD 0 0
      + (derivsOuter p n yi (outerUpdate p y Ta Sa rho_a ca dens bi)).getD 0 0
    = 2 * pi * Real.sqrt (y.getD 0 0 ^ 2 / (pi * y.getD 1 0) + bi ^ 2) * p.alpha_3
        * (y.getD 1 0 / y.getD 0 0) := by
  rw [volume_exchange, ambEntr_of_state p y Ta Sa rho_a ca dens bi hQ]

/-! ### no outer plume (`Q ≥ 0`, in particular the all-zero state substituted by `derivs_inner`
    above the outer plume): the inner plume exchanges with the ambient

  No guard beyond `¬ Q < 0` is needed: the statements are ring identities in the record fields. -/

/-- volume: the inner plume entrains `2π b α_s u` of AMBIENT water (and peels `Ep`); the outer
    vector carries the same amount with the opposite sign -/
theorem absent_outer_volume (h : ¬ y.getD 0 0 < 0) :
    (derivsInner p n yi (outerUpdate p y Ta Sa rho_a ca dens bi) ps).getD 0 0
      = -(2 * pi * yi.b * (yi.alpha_s * yi.u) + yi.Ep)
    ∧ (derivsInner p n yi (outerUpdate p y Ta Sa rho_a ca dens bi) ps).getD 0 0
      + (derivsOuter p n yi (outerUpdate p y Ta Sa rho_a ca dens bi)).getD 0 0 = 0 := by
  constructor
  · rw [outerUpdate_absent p y Ta Sa rho_a ca dens bi h, derivsInner_eq]
    simp only [List.cons_append, List.getD_cons_zero, innerVol, outerAbsent, Num.real_zero,
      Num.real_ofNat]
    ring
  · rw [volume_exchange, outerUpdate_absent p y Ta Sa rho_a ca dens bi h, ambEntr_absent]

/-- salt: the entrained water carries the AMBIENT salinity -/
theorem absent_outer_salt (h : ¬ y.getD 0 0 < 0) :
    (derivsInner p n yi (outerUpdate p y Ta Sa rho_a ca dens bi) ps).getD 2 0
    = -(2 * pi * yi.b * (yi.alpha_s * yi.u) * Sa + yi.Ep * yi.s) := by
  rw [outerUpdate_absent p y Ta Sa rho_a ca dens bi h, derivsInner_eq]
  simp only [List.cons_append, List.getD_cons_zero, List.getD_cons_succ, innerSalt, outerAbsent,
    Num.real_zero, Num.real_ofNat]
  ring

/-- compound `j` (dissolved + carried by particles): entrained at the AMBIENT concentration -/
theorem absent_outer_compound (h : ¬ y.getD 0 0 < 0) (j : Nat) (hj : j < n) :
    (derivsInner p n yi (outerUpdate p y Ta Sa rho_a ca dens bi) ps).getD (dissIdx n ps + j) 0
      + sumMassSlots n j ps 4 (derivsInner p n yi (outerUpdate p y Ta Sa rho_a ca dens bi) ps)
    = -(2 * pi * yi.b * (yi.alpha_s * yi.u) * ca.getD j 0 + yi.Ep * yi.c.getD j 0) := by
  rw [outerUpdate_absent p y Ta Sa rho_a ca dens bi h]
  have h := compound_exchange p n yi (outerAbsent Ta Sa rho_a ca) ps j hj
  rw [ambEntr_absent] at h
  have ho : (derivsOuter p n yi (outerAbsent Ta Sa rho_a ca)).getD (4 + j) 0
      = 2 * pi * yi.b * (yi.alpha_s * yi.u) * ca.getD j 0 + yi.Ep * yi.c.getD j 0 := by
    unfold derivsOuter
    have := getD_tail [outerVol p yi (outerAbsent Ta Sa rho_a ca), outerMom p yi (outerAbsent Ta Sa rho_a ca),
        outerSalt p yi (outerAbsent Ta Sa rho_a ca), outerHeat p yi (outerAbsent Ta Sa rho_a ca)]
      ((List.range n).map (outerChem p yi (outerAbsent Ta Sa rho_a ca))) j
    simp only [List.length_cons, List.length_nil] at this
    rw [this, getD_map_range _ _ _ hj]
    simp only [outerChem, outerAbsent, Num.real_zero, Num.real_ofNat]
    ring
  rw [ho] at h
  linarith

/-- heat (continuous phase + particles): entrained at the AMBIENT temperature, plus heat of solution -/
theorem absent_outer_heat (h : ¬ y.getD 0 0 < 0) :
    (derivsInner p n yi (outerUpdate p y Ta Sa rho_a ca dens bi) ps).getD 3 0
      + sumHeatSlots n ps 4 (derivsInner p n yi (outerUpdate p y Ta Sa rho_a ca dens bi) ps)
    = -(p.rho_r * p.cp * (2 * pi * yi.b * (yi.alpha_s * yi.u) * Ta + yi.Ep * yi.T))
      - sumHos p n ps 4 (derivsInner p n yi (outerUpdate p y Ta Sa rho_a ca dens bi) ps) := by
  rw [outerUpdate_absent p y Ta Sa rho_a ca dens bi h]
  have h := heat_exchange p n yi (outerAbsent Ta Sa rho_a ca) ps
  rw [ambEntr_absent] at h
  have ho : (derivsOuter p n yi (outerAbsent Ta Sa rho_a ca)).getD 3 0
      = p.rho_r * p.cp * (2 * pi * yi.b * (yi.alpha_s * yi.u) * Ta + yi.Ep * yi.T) := by
    simp only [derivsOuter, List.cons_append, List.getD_cons_zero, List.getD_cons_succ, outerHeat,
      outerAbsent, Num.real_zero, Num.real_ofNat]
    ring
  rw [ho] at h
  linarith

/-! ### no inner plume (`InnerPlume.update` with `Q ≤ 0` leaves `b = 0`, `Ep = 0`; `derivs_outer`
    substitutes the all-zero inner state below the release, l.219-220): the outer plume exchanges
    with the ambient alone -/

theorem inner_absent_outer (hb : yi.b = 0) (hE : yi.Ep = 0) :
    (derivsOuter p n yi yo).getD 0 0 = ambEntr p yo ∧
    (derivsOuter p n yi yo).getD 2 0 = ambEntr p yo * yo.Sa ∧
    (derivsOuter p n yi yo).getD 3 0 = p.rho_r * p.cp * ambEntr p yo * yo.Ta := by
  simp only [derivsOuter, List.cons_append, List.getD_cons_zero, List.getD_cons_succ, outerVol,
    outerSalt, outerHeat, ambEntr, hb, hE]
  refine ⟨by ring, by ring, by ring⟩

theorem inner_absent_outer_compound (hb : yi.b = 0) (hE : yi.Ep = 0) (j : Nat) (hj : j < n) :
    (derivsOuter p n yi yo).getD (4 + j) 0 = ambEntr p yo * yo.ca.getD j 0 := by
  unfold derivsOuter
  have := getD_tail [outerVol p yi yo, outerMom p yi yo, outerSalt p yi yo, outerHeat p yi yo]
    ((List.range n).map (outerChem p yi yo)) j
  simp only [List.length_cons, List.length_nil] at this
  rw [this, getD_map_range _ _ _ hj]
  simp only [outerChem, ambEntr, hb, hE, Num.real_zero]
  ring

/-! ### non-vacuity: a concrete state (one soluble two-component bubble class, one inert droplet
    class, two chemicals, outer plume flowing downward, background concentration) -/

noncomputable def exP : Params ℝ :=
  { c1 := 1/2, alpha_2 := 11/100, alpha_3 := 11/100, gamma_i := 11/10, gamma_o := 11/10,
    lambda_2 := 1, g := 981/100, rho_r := 1025, Ru := 8314/1000, cp := 3997 }
noncomputable def exYi : Inner ℝ :=
  { b := 1, u := 1/2, s := 35, T := 280, c := [1/1000, 0], rho := 1020, rho_a := 1027,
    alpha_s := 1/10, Ep := -1/100, Xi := 1/100, Fb := 1 }
noncomputable def exYo : Outer ℝ :=
  { b := 3, u := -1/10, s := 34, T := 281, c := [0, 1/2000], rho := 1026, rho_a := 1027,
    Sa := 69/2, Ta := 282, ca := [1/10000, 0] }
noncomputable def exGas : Particle ℝ :=
  { issoluble := true, A := 1/10000, nb0 := 1000, us := 1/4, beta := [1/10000, 1/20000],
    Cs := [1/10, 1/20], rho_p := 50, cp := 2000, beta_T := 1/1000, T := 285,
    neg_dH_solR := [1600, 2400], M := [16/1000, 30/1000] }
noncomputable def exOil : Particle ℝ :=
  { issoluble := false, A := 1/10000, nb0 := 500, us := 1/10, beta := [], Cs := [], rho_p := 870,
    cp := 2000, beta_T := 1/1000, T := 283, neg_dH_solR := [], M := [] }

/-- the hypothesis `j < n` of `compound_exchange` is satisfiable; the instance is the identity
    for ethane in a two-particle, two-chemical state -/
example :
    (derivsInner exP 2 exYi exYo [exGas, exOil]).getD (dissIdx 2 [exGas, exOil] + 1) 0
      + sumMassSlots 2 1 [exGas, exOil] 4 (derivsInner exP 2 exYi exYo [exGas, exOil])
      + (derivsOuter exP 2 exYi exYo).getD (4 + 1) 0
    = ambEntr exP exYo * exYo.ca.getD 1 0 :=
  compound_exchange exP 2 exYi exYo [exGas, exOil] 1 (by norm_num)

/-- … and the instance is not `0 = 0`: the ambient entrainment is non-zero (downward flow) -/
example : ambEntr exP exYo < 0 := by
  simp only [ambEntr, exP, exYo, pi, Num.real_ofSci, Num.real_ofNat]
  norm_num

/-- … and the particles do exchange mass with the dissolved phase: the dissolution term of
    methane is non-zero -/
example : massSum exYi [exGas, exOil] 0 < 0 := by
  simp only [massSum, solMass, exYi, exGas, exOil, List.map_cons, List.map_nil, List.sum_cons,
    List.sum_nil, Num.real_zero]
  norm_num

/-- the guards of the `…_of_state` / `absent_outer_…` theorems (both `outerUpdate` branches) and of
    `ambEntr_nonpos` are satisfiable -/
example : 0 ≤ exP.alpha_3 := by
  simp only [exP]; norm_num
example : (0 : ℝ) < ([-2, 1/5, -68, -2300000000, 0, -1/1000] : List ℝ).getD 1 0 := by
  simp [List.getD]
example : ([-2, 1/5, -68, -2300000000, 0, -1/1000] : List ℝ).getD 0 0 < 0 := by
  simp [List.getD]
example : ¬ ([0, 0, 0, 0, 0, 0] : List ℝ).getD 0 0 < 0 := by
  simp [List.getD]

end TamocV.Props.C06
