/-
  C06 — Stratified-plume inner/outer exchange is conservative.
  Property theorems only, about `TamocV.Model.Smp` (hand transcription of
  `smp.derivs_inner`, `smp.derivs_outer`, `OuterPlume.update`; tied to /repo by the slot-wise
  correspondence run of harness/c06.py).

  Sign convention of the code.  Both functions return d(state)/dz with z the DEPTH (positive
  downward).  `derivs_inner` fills `yp` with the gradients along the upward path of the inner
  plume and returns `-yp`; `derivs_outer` returns `yp`.  The outer plume flows downward: its
  volume flux Q_o, and therefore u_o = J_o/Q_o, are negative.  Hence, for the RETURNED vectors
  `inner`, `outer`, "what the inner plume gains the outer plume loses, and the two together
  change only by what the outer plume entrains from the ambient" reads

      inner[k] + outer[k'] = E · (ambient value),      E := 2π · b_o · α₃ · u_o   (`ambEntr`, ≤ 0)

  for volume (ambient value 1), salt (Sa), every dissolved compound j (ca_j; the inner side is the
  dissolved slot plus mass slot j of every soluble particle) and heat (ρ_r·cp·Ta; the inner
  side is slot 3 plus the heat slot of every particle, and the right-hand side carries the heat
  of solution of the dissolution gradients).  All statements are for ANY number of particles
  and chemicals (induction over the lists in Lemmas/C06.lean) and ANY real values of the
  records: they are ring identities, valid also under Lean's totalisation `x/0 = 0`; the real
  code is in-domain when `u + us ≠ 0` for every particle and `M_j ≠ 0` (otherwise it returns
  inf/nan, which the harness does not count as a state).
-/
import TamocV.Real
import TamocV.Lemmas.Basic
import TamocV.Lemmas.C06
import TamocV.Model.Smp
import Mathlib.Tactic.Ring
import Mathlib.Tactic.NormNum
import Mathlib.Tactic.FieldSimp

namespace TamocV.Props.C06
open TamocV.Model.Smp TamocV.Lemmas.C06

variable (p : Params ℝ) (n : Nat) (yi : Inner ℝ) (yo : Outer ℝ) (ps : List (Particle ℝ))

/-! ### the four exchange identities on the returned vectors -/

/-- Volume: returned inner slot 0 + returned outer slot 0 = E. -/
theorem volume_exchange :
    (derivsInner p n yi yo ps).getD 0 0 + (derivsOuter p n yi yo).getD 0 0 = ambEntr p yo := by
  rw [derivsInner_eq]
  simp only [derivsOuter, List.cons_append, List.getD_cons_zero, innerVol, outerVol, ambEntr]
  ring

/-- Salt: returned inner slot 2 + returned outer slot 2 = E·Sa. -/
theorem salt_exchange :
    (derivsInner p n yi yo ps).getD 2 0 + (derivsOuter p n yi yo).getD 2 0 = ambEntr p yo * yo.Sa := by
  rw [derivsInner_eq]
  simp only [derivsOuter, List.cons_append, List.getD_cons_zero, List.getD_cons_succ, innerSalt,
    outerSalt, ambEntr]
  ring

/-- Compound `j`: inner dissolved slot + Σ over soluble particles of inner mass slot `j`
    + outer slot `4+j` = E·ca_j  (mass leaving the particles re-appears dissolved: `delDiss`). -/
theorem compound_exchange (j : Nat) (hj : j < n) :
    (derivsInner p n yi yo ps).getD (dissIdx n ps + j) 0
      + sumMassSlots n j ps 4 (derivsInner p n yi yo ps)
      + (derivsOuter p n yi yo).getD (4 + j) 0
    = ambEntr p yo * yo.ca.getD j 0 := by
  rw [derivsInner_eq]
  rw [dissSlot_flat n yi ps _ (by simp) _ j hj]
  have h4 := sumMassSlots_flat n yi ps
    [-(innerVol p yi yo), -(innerMom p yi yo), -(innerSalt p yi yo),
      -(heatFold p n yi ps (innerHeat0 p yi yo))]
    ((List.range n).map (fun i => -(innerDiss p yi yo (delDiss n yi ps (List.replicate n 0)) i))) j hj
  simp only [List.length_cons, List.length_nil] at h4
  rw [h4]
  have ho : (derivsOuter p n yi yo).getD (4 + j) 0 = outerChem p yi yo j := by
    unfold derivsOuter
    have := getD_tail [outerVol p yi yo, outerMom p yi yo, outerSalt p yi yo, outerHeat p yi yo]
      ((List.range n).map (outerChem p yi yo)) j
    simp only [List.length_cons, List.length_nil] at this
    rw [this, getD_map_range _ _ _ hj]
  rw [ho]
  simp only [innerDiss, outerChem, ambEntr, Num.real_zero]
  rw [delDiss_getD n yi ps _ (by simp) j hj]
  simp [List.getD_eq_getElem?_getD, hj]
  ring

/-- Heat: inner slot 3 + Σ over particles of the inner particle-heat slot + outer slot 3
    = ρ_r·cp·E·Ta − Σ_{soluble particles, j} (inner mass slot j)·neg_dH_solR_j·Ru/M_j,
    i.e. entrained ambient heat plus the heat of solution released by the dissolution gradients
    (the code adds `yp_mass·(−1)·neg_dH_solR·Ru/M` to `yp[3]`, l.132, and returns `−yp`). -/
theorem heat_exchange :
    (derivsInner p n yi yo ps).getD 3 0
      + sumHeatSlots n ps 4 (derivsInner p n yi yo ps)
      + (derivsOuter p n yi yo).getD 3 0
    = p.rho_r * p.cp * ambEntr p yo * yo.Ta - sumHos p n ps 4 (derivsInner p n yi yo ps) := by
  rw [derivsInner_eq]
  have h4 := sumHeatSlots_flat n yi ps
    [-(innerVol p yi yo), -(innerMom p yi yo), -(innerSalt p yi yo),
      -(heatFold p n yi ps (innerHeat0 p yi yo))]
    ((List.range n).map (fun i => -(innerDiss p yi yo (delDiss n yi ps (List.replicate n 0)) i)))
  have h5 := sumHos_flat p n yi ps
    [-(innerVol p yi yo), -(innerMom p yi yo), -(innerSalt p yi yo),
      -(heatFold p n yi ps (innerHeat0 p yi yo))]
    ((List.range n).map (fun i => -(innerDiss p yi yo (delDiss n yi ps (List.replicate n 0)) i)))
  simp only [List.length_cons, List.length_nil] at h4 h5
  rw [h4, h5, heatFold_eq]
  simp only [derivsOuter, List.cons_append, List.getD_cons_zero, List.getD_cons_succ, innerHeat0,
    outerHeat, ambEntr]
  ring

/-- Not claimed by the property, recorded because the same hand-copied exchange term sits in the
    momentum equations: weighted by the momentum amplification factors the exchanged momentum
    cancels and only the two buoyancy terms remain. -/
theorem momentum_exchange_extra (hi : p.gamma_i ≠ 0) (ho : p.gamma_o ≠ 0) :
    p.gamma_i * (derivsInner p n yi yo ps).getD 1 0 + p.gamma_o * (derivsOuter p n yi yo).getD 1 0
    = -(pi * p.g * yi.b ^ 2 / p.rho_r
          * (yi.Fb + p.lambda_2 ^ 2 * (1 - yi.Xi) * (yi.rho_a - yi.rho)))
      - pi * p.g * (yo.b ^ 2 - yi.b ^ 2) / p.rho_r * (yo.rho_a - yo.rho) := by
  rw [derivsInner_eq]
  simp only [derivsOuter, List.cons_append, List.getD_cons_zero, List.getD_cons_succ, innerMom,
    outerMom, Num.real_npow, Num.real_one]
  field_simp
  ring

/-! ### no outer plume: the inner plume exchanges with the ambient -/

/-- `OuterPlume.update` with `Q ≥ 0` (no outer plume, or its momentum is reversing) leaves the
    ambient record: u = b = 0, s = Sa, T = Ta, c = ca, rho = rho_a. -/
theorem outerUpdate_absent (y : List ℝ) (Ta Sa rho_a : ℝ) (ca : List ℝ) (dens : ℝ → ℝ → ℝ) (bi : ℝ)
    (h : ¬ y.getD 0 0 < 0) :
    outerUpdate p y Ta Sa rho_a ca dens bi = outerAbsent Ta Sa rho_a ca := by
  simp only [outerUpdate, Num.real_zero]
  rw [if_neg h]

/-- the all-zero state `derivs_inner` substitutes above the top of the outer plume
    (`yo.update(z, np.zeros(yo.len), …)`, l.89) is such a state -/
theorem outerUpdate_zeros (k : Nat) (Ta Sa rho_a : ℝ) (ca : List ℝ) (dens : ℝ → ℝ → ℝ) (bi : ℝ) :
    outerUpdate p (List.replicate k 0) Ta Sa rho_a ca dens bi = outerAbsent Ta Sa rho_a ca := by
  apply outerUpdate_absent
  cases k <;> simp [List.replicate]

/-- with an outer plume present (`Q < 0`) the derived quantities are those of l.1522-1527 -/
theorem outerUpdate_present (y : List ℝ) (Ta Sa rho_a : ℝ) (ca : List ℝ) (dens : ℝ → ℝ → ℝ) (bi : ℝ)
    (h : y.getD 0 0 < 0) :
    (outerUpdate p y Ta Sa rho_a ca dens bi).u = y.getD 1 0 / y.getD 0 0 ∧
    (outerUpdate p y Ta Sa rho_a ca dens bi).b
      = Real.sqrt (y.getD 0 0 ^ 2 / (pi * y.getD 1 0) + bi ^ 2) ∧
    (outerUpdate p y Ta Sa rho_a ca dens bi).s = y.getD 2 0 / y.getD 0 0 ∧
    (outerUpdate p y Ta Sa rho_a ca dens bi).T = y.getD 3 0 / (p.rho_r * p.cp * y.getD 0 0) ∧
    (outerUpdate p y Ta Sa rho_a ca dens bi).Sa = Sa ∧
    (outerUpdate p y Ta Sa rho_a ca dens bi).Ta = Ta ∧
    (outerUpdate p y Ta Sa rho_a ca dens bi).ca = ca := by
  simp only [outerUpdate, Num.real_zero]
  rw [if_pos h]
  simp

variable (Ta Sa rho_a : ℝ) (ca : List ℝ)

/-- no ambient entrainment term without an outer plume -/
theorem absent_outer_entrainment : ambEntr p (outerAbsent Ta Sa rho_a ca) = 0 := by
  simp [ambEntr, outerAbsent]

/-- volume: the inner plume entrains `2π b α_s u` of AMBIENT water (and peels `Ep`) -/
theorem absent_outer_volume :
    (derivsInner p n yi (outerAbsent Ta Sa rho_a ca) ps).getD 0 0
    = -(2 * pi * yi.b * (yi.alpha_s * yi.u) + yi.Ep) := by
  rw [derivsInner_eq]
  simp only [List.cons_append, List.getD_cons_zero, innerVol, outerAbsent, Num.real_zero,
    Num.real_ofNat]
  ring

/-- salt: the entrained water carries the AMBIENT salinity -/
theorem absent_outer_salt :
    (derivsInner p n yi (outerAbsent Ta Sa rho_a ca) ps).getD 2 0
    = -(2 * pi * yi.b * (yi.alpha_s * yi.u) * Sa + yi.Ep * yi.s) := by
  rw [derivsInner_eq]
  simp only [List.cons_append, List.getD_cons_zero, List.getD_cons_succ, innerSalt, outerAbsent,
    Num.real_zero, Num.real_ofNat]
  ring

/-- compound `j` (dissolved + carried by particles): entrained at the AMBIENT concentration -/
theorem absent_outer_compound (j : Nat) (hj : j < n) :
    (derivsInner p n yi (outerAbsent Ta Sa rho_a ca) ps).getD (dissIdx n ps + j) 0
      + sumMassSlots n j ps 4 (derivsInner p n yi (outerAbsent Ta Sa rho_a ca) ps)
    = -(2 * pi * yi.b * (yi.alpha_s * yi.u) * ca.getD j 0 + yi.Ep * yi.c.getD j 0) := by
  have h := compound_exchange p n yi (outerAbsent Ta Sa rho_a ca) ps j hj
  rw [absent_outer_entrainment] at h
  have ho : (derivsOuter p n yi (outerAbsent Ta Sa rho_a ca)).getD (4 + j) 0
      = 2 * pi * yi.b * (yi.alpha_s * yi.u) * ca.getD j 0 + yi.Ep * yi.c.getD j 0 := by
    unfold derivsOuter
    have := getD_tail [outerVol p yi (outerAbsent Ta Sa rho_a ca), outerMom p yi (outerAbsent Ta Sa rho_a ca),
        outerSalt p yi (outerAbsent Ta Sa rho_a ca), outerHeat p yi (outerAbsent Ta Sa rho_a ca)]
      ((List.range n).map (outerChem p yi (outerAbsent Ta Sa rho_a ca))) j
    simp only [List.length_cons, List.length_nil] at this
    rw [this, getD_map_range _ _ _ hj]
    simp only [outerChem, outerAbsent, Num.real_zero, Num.real_ofNat]
    ring
  rw [ho] at h
  linarith

/-- heat (continuous phase + particles): entrained at the AMBIENT temperature, plus heat of solution -/
theorem absent_outer_heat :
    (derivsInner p n yi (outerAbsent Ta Sa rho_a ca) ps).getD 3 0
      + sumHeatSlots n ps 4 (derivsInner p n yi (outerAbsent Ta Sa rho_a ca) ps)
    = -(p.rho_r * p.cp * (2 * pi * yi.b * (yi.alpha_s * yi.u) * Ta + yi.Ep * yi.T))
      - sumHos p n ps 4 (derivsInner p n yi (outerAbsent Ta Sa rho_a ca) ps) := by
  have h := heat_exchange p n yi (outerAbsent Ta Sa rho_a ca) ps
  rw [absent_outer_entrainment] at h
  have ho : (derivsOuter p n yi (outerAbsent Ta Sa rho_a ca)).getD 3 0
      = p.rho_r * p.cp * (2 * pi * yi.b * (yi.alpha_s * yi.u) * Ta + yi.Ep * yi.T) := by
    simp only [derivsOuter, List.cons_append, List.getD_cons_zero, List.getD_cons_succ, outerHeat,
      outerAbsent, Num.real_zero, Num.real_ofNat]
    ring
  rw [ho] at h
  linarith

/-! ### a discrepancy common to both copies does not disturb the identities

  If the code's vectors `v'`, `w'` differ from vectors `v`, `w` (for instance the model's) only in
  that one and the same amount `d` has been added to the un-negated inner `yp` slot and to the
  outer `yp` slot — what a change made consistently to both hand copies of an exchange term
  produces — while the particle block is untouched, the left-hand sides of the identities are
  unchanged.  (harness/c06.py uses this to tell a stale transcription from a violation.) -/

theorem common_shift_slot (v w v' w' : List ℝ) (d : ℝ) (k k' : Nat)
    (hv : v'.getD k 0 = v.getD k 0 - d) (hw : w'.getD k' 0 = w.getD k' 0 + d) :
    v'.getD k 0 + w'.getD k' 0 = v.getD k 0 + w.getD k' 0 := by
  rw [hv, hw]; ring

theorem common_shift_compound (v w v' w' : List ℝ) (d : ℝ) (j : Nat) (hj : j < n)
    (hpart : ∀ k, 4 ≤ k → k < dissIdx n ps → v'.getD k 0 = v.getD k 0)
    (hv : v'.getD (dissIdx n ps + j) 0 = v.getD (dissIdx n ps + j) 0 - d)
    (hw : w'.getD (4 + j) 0 = w.getD (4 + j) 0 + d) :
    v'.getD (dissIdx n ps + j) 0 + sumMassSlots n j ps 4 v' + w'.getD (4 + j) 0
    = v.getD (dissIdx n ps + j) 0 + sumMassSlots n j ps 4 v + w.getD (4 + j) 0 := by
  rw [sumMassSlots_congr n j hj ps 4 v v' (fun k h1 h2 => hpart k h1 (by unfold dissIdx; exact h2)), hv, hw]
  ring

theorem common_shift_heat (v w v' w' : List ℝ) (d : ℝ)
    (hpart : ∀ k, 4 ≤ k → k < dissIdx n ps → v'.getD k 0 = v.getD k 0)
    (hv : v'.getD 3 0 = v.getD 3 0 - d) (hw : w'.getD 3 0 = w.getD 3 0 + d) :
    v'.getD 3 0 + sumHeatSlots n ps 4 v' + w'.getD 3 0 + sumHos p n ps 4 v'
    = v.getD 3 0 + sumHeatSlots n ps 4 v + w.getD 3 0 + sumHos p n ps 4 v := by
  rw [sumHeatSlots_congr n ps 4 v v' (fun k h1 h2 => hpart k h1 (by unfold dissIdx; exact h2)),
    sumHos_congr p n ps 4 v v' (fun k h1 h2 => hpart k h1 (by unfold dissIdx; exact h2)), hv, hw]
  ring

/-! ### non-vacuity: a concrete state (one soluble two-component bubble class, one inert droplet
    class, two chemicals, outer plume flowing downward, background concentration) -/

noncomputable def exP : Params ℝ :=
  { c1 := 1/2, alpha_2 := 11/100, alpha_3 := 11/100, gamma_i := 11/10, gamma_o := 11/10,
    lambda_2 := 1, g := 981/100, rho_r := 1025, Ru := 8314/1000, cp := 3997 }
noncomputable def exYi : Inner ℝ :=
  { b := 1, u := 1/2, s := 35, T := 280, c := [1/1000, 0], rho := 1020, rho_a := 1027,
    alpha_s := 1/10, Ep := -1/100, Xi := 1/100, Fb := 1 }
noncomputable def exYo : Outer ℝ :=
  { b := 3, u := -1/10, s := 34, T := 281, c := [0, 1/2000], rho := 1026, rho_a := 1027,
    Sa := 69/2, Ta := 282, ca := [1/10000, 0] }
noncomputable def exGas : Particle ℝ :=
  { issoluble := true, A := 1/10000, nb0 := 1000, us := 1/4, beta := [1/10000, 1/20000],
    Cs := [1/10, 1/20], rho_p := 50, cp := 2000, beta_T := 1/1000, T := 285,
    neg_dH_solR := [1600, 2400], M := [16/1000, 30/1000] }
noncomputable def exOil : Particle ℝ :=
  { issoluble := false, A := 1/10000, nb0 := 500, us := 1/10, beta := [], Cs := [], rho_p := 870,
    cp := 2000, beta_T := 1/1000, T := 283, neg_dH_solR := [], M := [] }

/-- the hypothesis `j < n` of `compound_exchange` is satisfiable; the instance is the identity
    for ethane in a two-particle, two-chemical state -/
example :
    (derivsInner exP 2 exYi exYo [exGas, exOil]).getD (dissIdx 2 [exGas, exOil] + 1) 0
      + sumMassSlots 2 1 [exGas, exOil] 4 (derivsInner exP 2 exYi exYo [exGas, exOil])
      + (derivsOuter exP 2 exYi exYo).getD (4 + 1) 0
    = ambEntr exP exYo * exYo.ca.getD 1 0 :=
  compound_exchange exP 2 exYi exYo [exGas, exOil] 1 (by norm_num)

/-- … and the instance is not `0 = 0`: the ambient entrainment is non-zero (downward flow) -/
example : ambEntr exP exYo < 0 := by
  simp only [ambEntr, exP, exYo, pi, Num.real_ofSci, Num.real_ofNat]
  norm_num

/-- … and the particles do exchange mass with the dissolved phase: the dissolution term of
    methane is non-zero -/
example : massSum exYi [exGas, exOil] 0 < 0 := by
  simp only [massSum, solMass, exYi, exGas, exOil, List.map_cons, List.map_nil, List.sum_cons,
    List.sum_nil, Num.real_zero]
  norm_num

/-- the guards of `momentum_exchange_extra` and of the two `outerUpdate` branches are satisfiable -/
example : exP.gamma_i ≠ 0 ∧ exP.gamma_o ≠ 0 := by
  simp only [exP]; norm_num
example : ([-2, 1/5, -68, -2300000000, 0, -1/1000] : List ℝ).getD 0 0 < 0 := by
  simp [List.getD]
example : ¬ ([0, 0, 0, 0, 0, 0] : List ℝ).getD 0 0 < 0 := by
  simp [List.getD]

end TamocV.Props.C06
