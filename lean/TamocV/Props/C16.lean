/-
  C16 — Size distributions are normalised, ordered and capped at the stable size.   Property theorems only.

  All statements are about `TamocV.Model.Psf` (transcription of psf.py, particle_size_models.ModelBase and
  sintef.rosin_rammler; tied to the real code by the driver on every run), over ℝ, for EVERY bin count n and all
  admissible parameters (Rosin-Rammler: k < 0, α > 0; log-normal: σ > 0; median d50 > 0).

  False for the code as written (negation proved here, reproduced on the real code by harness/c16.py):
    * psf.li_etal never applies the d95 rule: d95 > maximum stable size     (liEtal_d95_cap_false; known finding).
  Found by this check and since repaired in /repo (the theorems are now the positive statements):
    * psf.li_etal divided 0 by 0 when the requested phase had zero flow (9f1b754) → liEtal_no_division_by_zero;
    * ModelBase with model_gas='wang_etal', pdf_gas='rosin-rammler' produced no distribution (99832ec)
      → wang_rosin_rammler_yields_distribution.
-/
import TamocV.Real
import TamocV.Lemmas.Basic
import TamocV.Lemmas.C16
import TamocV.Model.Psf

set_option linter.unusedVariables false
set_option linter.unusedSimpArgs false
set_option linter.unusedTactic false

namespace TamocV.Props.C16
open TamocV TamocV.Model.Psf TamocV.Lemmas.C16


/-! ## Rosin-Rammler distribution (psf.rosin_rammler), every bin count n -/

theorem rr_edges_increasing (n : ℕ) (k alpha : ℝ) (hk : k < 0) (ha : 0 < alpha) :
    (∀ i, 0 < rrEdge n k alpha i) ∧ ∀ i j, i < j → j ≤ n → rrEdge n k alpha i < rrEdge n k alpha j :=
  ⟨fun i => rrEdge_pos n k alpha i, fun _ _ hij hj => rrEdge_lt hk ha hij hj⟩

theorem rr_de_strictMono_pos (n : ℕ) (d50 k alpha : ℝ) (hk : k < 0) (ha : 0 < alpha) (hd : 0 < d50) :
    (rrDe n d50 k alpha).length = n ∧ (rrDe n d50 k alpha).Pairwise (· < ·) ∧ ∀ x ∈ rrDe n d50 k alpha, 0 < x := by
  refine ⟨by simp [rrDe], ?_, ?_⟩
  · exact pairwise_range_map _ n (fun i j hij hj => mul_lt_mul_of_pos_left (rrCenter_lt hk ha hij hj) hd)
  · intro x hx
    simp only [rrDe, List.mem_map, List.mem_range] at hx
    obtain ⟨i, _, rfl⟩ := hx
    exact mul_pos hd (center_pos _ _)

theorem rr_de_linear_d50 (n : ℕ) (lam d50 k alpha : ℝ) :
    rrDe n (lam * d50) k alpha = (rrDe n d50 k alpha).map (fun x => lam * x) := by
  simp only [rrDe, List.map_map]
  apply List.map_congr_left
  intro i _
  simp only [Function.comp]; ring

theorem rr_vf_nonneg (n : ℕ) (d50 k alpha : ℝ) (hk : k < 0) (ha : 0 < alpha) :
    (rrVf n d50 k alpha).length = n ∧ ∀ x ∈ rrVf n d50 k alpha, 0 ≤ x := by
  by_cases hz : d50 = 0
  · simp [rrVf, hz]
  · simp only [rrVf, isZero_false_of_ne hz, Bool.false_eq_true, if_false, Num.real_sum]
    refine ⟨by simp, ?_⟩
    intro x hx
    simp only [List.mem_map, List.mem_range, exists_exists_and_eq_and] at hx
    obtain ⟨i, hi, rfl⟩ := hx
    have hn : 0 < n := by omega
    exact (div_pos (rrVf0_pos hk ha hi) (rrVf0_sum_pos hk ha hn)).le

theorem rr_vf_sum_one (n : ℕ) (d50 k alpha : ℝ) (hn : 0 < n) (hk : k < 0) (ha : 0 < alpha) (hd : d50 ≠ 0) :
    (rrVf n d50 k alpha).sum = 1 := by
  simp only [rrVf, isZero_false_of_ne hd, Bool.false_eq_true, if_false, Num.real_sum]
  rw [sum_map_div]
  exact div_self (rrVf0_sum_pos hk ha hn).ne'

theorem rr_vf_indep_d50 (n : ℕ) (d50 d50' k alpha : ℝ) (hd : d50 ≠ 0) (hd' : d50' ≠ 0) :
    rrVf n d50 k alpha = rrVf n d50' k alpha := by
  simp only [rrVf, isZero_false_of_ne hd, isZero_false_of_ne hd']

/-- (helper, not a clause of the property) the un-normalised bin fractions add up to F(a99) − F(a01) (telescoping) -/
theorem rr_vf0_telescopes (n : ℕ) (k alpha : ℝ) :
    ((List.range n).map (rrVf0 n k alpha)).sum = rrVn n k alpha n - rrVn n k alpha 0 := by
  have h : rrVf0 n k alpha = fun i => rrVn n k alpha (i + 1) - rrVn n k alpha i := rfl
  rw [h]
  exact sum_range_telescope (rrVn n k alpha) n

example : ∃ (k alpha d50 : ℝ), k < 0 ∧ 0 < alpha ∧ 0 < d50 := ⟨Real.log 0.5, 1.8, 0.001,
  Real.log_neg (by norm_num) (by norm_num), by norm_num, by norm_num⟩

/-! ## log-normal distribution (psf.log_normal) -/

theorem ln_edges_increasing (n : ℕ) (d50 sigma : ℝ) (hd : 0 < d50) (hs : 0 < sigma) :
    (∀ i, 0 < lnEdge n d50 sigma i) ∧ ∀ i j, i < j → j ≤ n → lnEdge n d50 sigma i < lnEdge n d50 sigma j :=
  ⟨fun i => lnEdge_pos n d50 sigma i, fun _ _ hij hj => lnEdge_lt hd hs hij hj⟩

theorem ln_de_strictMono_pos (n : ℕ) (d50 sigma : ℝ) (hd : 0 < d50) (hs : 0 < sigma) :
    (lnDe n d50 sigma).length = n ∧ (lnDe n d50 sigma).Pairwise (· < ·) ∧ ∀ x ∈ lnDe n d50 sigma, 0 < x := by
  refine ⟨by simp [lnDe], ?_, ?_⟩
  · exact pairwise_range_map _ n (fun i j hij hj =>
      mul_lt_mul_of_pos_left (lnEdge_lt hd hs (by omega : i + 1 < j + 1) (by omega)) hd)
  · intro x hx
    simp only [lnDe, List.mem_map, List.mem_range] at hx
    obtain ⟨i, _, rfl⟩ := hx
    exact mul_pos hd (lnEdge_pos _ _ _ _)

/-- scale equivariance: the diameters for the median lam·d50 are lam times the diameters for d50 -/
theorem ln_de_linear_d50 (n : ℕ) (lam d50 sigma : ℝ) (hl : 0 < lam) (hd : 0 < d50) :
    lnDe n (lam * d50) sigma = (lnDe n d50 sigma).map (fun x => lam * x) := by
  simp only [lnDe, List.map_map]
  apply List.map_congr_left
  intro i _
  simp only [Function.comp]
  rw [lnEdge_indep (mul_pos hl hd) hd]; ring

theorem ln_vf_nonneg (n : ℕ) (d50 sigma : ℝ) (hd : 0 < d50) (hs : 0 < sigma) :
    (lnVf n d50 sigma).length = n ∧ ∀ x ∈ lnVf n d50 sigma, 0 ≤ x := by
  simp only [lnVf, isZero_false_of_ne hd.ne', Bool.false_eq_true, if_false, Num.real_sum]
  refine ⟨by simp, ?_⟩
  intro x hx
  simp only [List.mem_map, List.mem_range, exists_exists_and_eq_and] at hx
  obtain ⟨i, hi, rfl⟩ := hx
  have hn : 0 < n := by omega
  exact (div_pos (lnVf0_pos hd hs hi) (sum_range_pos _ hn (fun _ hj => lnVf0_pos hd hs hj))).le

theorem ln_vf_sum_one (n : ℕ) (d50 sigma : ℝ) (hn : 0 < n) (hd : 0 < d50) (hs : 0 < sigma) :
    (lnVf n d50 sigma).sum = 1 := by
  simp only [lnVf, isZero_false_of_ne hd.ne', Bool.false_eq_true, if_false, Num.real_sum]
  rw [sum_map_div]
  exact div_self (sum_range_pos _ hn (fun _ hj => lnVf0_pos hd hs hj)).ne'

theorem ln_vf_indep_d50 (n : ℕ) (d50 d50' sigma : ℝ) (hd : 0 < d50) (hd' : 0 < d50') :
    lnVf n d50 sigma = lnVf n d50' sigma := by
  simp only [lnVf, isZero_false_of_ne hd.ne', isZero_false_of_ne hd'.ne']
  have : (List.range n).map (lnVf0 n d50 sigma) = (List.range n).map (lnVf0 n d50' sigma) :=
    List.map_congr_left (fun i _ => lnVf0_indep hd hd' n sigma i)
  rw [this]


/-! ## the d95 rule (psf.rosin_rammler_fit, psf.log_normal_fit) -/



/-- after the Rosin-Rammler fit the 95-th percentile does not exceed the maximum stable size -/
theorem rr_fit_d95_le_dmax (d50 dmax alpha : ℝ) (ha : 0 < alpha) :
    rrD95 (rrFit d50 (some dmax) alpha).1 (rrFit d50 (some dmax) alpha).2.1 (rrFit d50 (some dmax) alpha).2.2 ≤ dmax := by
  simp only [rrFit, rrD95, Num.real_rpow, Num.real_log, Num.real_ofSci, Num.real_one]
  split
  · -- adjusted: d50' = dmax·(log .5/log .05)^(1/α);  d95' = d50'·(log .05/log .5)^(1/α) = dmax
    simp only
    have e1 : (1 - 0.95 : ℝ) = 0.05 := by norm_num
    have e2 : (1 - 0.5 : ℝ) = 0.5 := by norm_num
    rw [e1, e2]
    have ha' := log_half_neg
    have hb' := log_005_neg
    have h1 : 0 ≤ Real.log 0.5 / Real.log 0.05 := (div_pos_of_neg_of_neg ha' hb').le
    have h2 : 0 ≤ Real.log 0.05 / Real.log 0.5 := (div_pos_of_neg_of_neg hb' ha').le
    rw [mul_assoc, ← Real.mul_rpow h1 h2]
    have : Real.log 0.5 / Real.log 0.05 * (Real.log 0.05 / Real.log 0.5) = 1 := by
      field_simp
    rw [this, Real.one_rpow, mul_one]
  · rename_i h
    simp only
    exact not_lt.mp h

/-- the median is unchanged whenever it already satisfies the cap -/
theorem rr_fit_unchanged (d50 dmax alpha : ℝ) (h : rrD95 d50 (Real.log 0.5) alpha ≤ dmax) :
    rrFit d50 (some dmax) alpha = (d50, Real.log 0.5, alpha) := by
  simp only [rrFit, rrD95, Num.real_rpow, Num.real_log, Num.real_ofSci, Num.real_one] at h ⊢
  rw [if_neg (not_lt.mpr h)]

theorem rr_fit_none (d50 alpha : ℝ) : rrFit d50 none alpha = (d50, Real.log 0.5, alpha) := by
  simp [rrFit]

/-- the fit only ever shifts the median DOWN -/
theorem rr_fit_le (d50 dmax alpha : ℝ) (ha : 0 < alpha) : (rrFit d50 (some dmax) alpha).1 ≤ d50 := by
  simp only [rrFit, Num.real_rpow, Num.real_log, Num.real_ofSci, Num.real_one]
  split
  · rename_i h
    simp only
    have e1 : (1 - 0.95 : ℝ) = 0.05 := by norm_num
    have e2 : (1 - 0.5 : ℝ) = 0.5 := by norm_num
    rw [e1] at h
    rw [e2]
    have ha' := log_half_neg
    have hb' := log_005_neg
    have h1 : 0 < Real.log 0.5 / Real.log 0.05 := div_pos_of_neg_of_neg ha' hb'
    have h2 : 0 < Real.log 0.05 / Real.log 0.5 := div_pos_of_neg_of_neg hb' ha'
    have hc : 0 < (Real.log 0.5 / Real.log 0.05) ^ (1 / alpha) := Real.rpow_pos_of_pos h1 _
    have hprod : (Real.log 0.05 / Real.log 0.5) ^ (1 / alpha) * (Real.log 0.5 / Real.log 0.05) ^ (1 / alpha) = 1 := by
      rw [← Real.mul_rpow h2.le h1.le]
      have : Real.log 0.05 / Real.log 0.5 * (Real.log 0.5 / Real.log 0.05) = 1 := by field_simp
      rw [this, Real.one_rpow]
    have := mul_lt_mul_of_pos_right h hc
    rw [mul_assoc, hprod, mul_one] at this
    exact this.le
  · simp

/-- after the log-normal fit the 95-th percentile does not exceed the maximum stable size -/
theorem ln_fit_d95_le_dmax (d50 dmax sigma : ℝ) (hm : 0 < dmax) :
    lnD95 (lnFit d50 (some dmax) sigma).1 (lnFit d50 (some dmax) sigma).2 ≤ dmax := by
  simp only [lnFit, lnD95, Num.real_exp, Num.real_log, Num.real_ofSci]
  split
  · simp only
    rw [Real.log_exp, sub_add_cancel, Real.exp_log hm]
  · rename_i h
    simp only
    exact not_lt.mp h

theorem ln_fit_unchanged (d50 dmax sigma : ℝ) (h : lnD95 d50 sigma ≤ dmax) :
    lnFit d50 (some dmax) sigma = (d50, sigma) := by
  simp only [lnFit, lnD95, Num.real_exp, Num.real_log, Num.real_ofSci] at h ⊢
  rw [if_neg (not_lt.mpr h)]

theorem ln_fit_none (d50 sigma : ℝ) : lnFit d50 none sigma = (d50, sigma) := rfl

theorem ln_fit_le (d50 dmax sigma : ℝ) (hd : 0 < d50) (hm : 0 < dmax) : (lnFit d50 (some dmax) sigma).1 ≤ d50 := by
  simp only [lnFit, Num.real_exp, Num.real_log, Num.real_ofSci]
  split
  · rename_i h
    simp only
    rw [← Real.exp_log hm] at h
    have h' := Real.exp_lt_exp.mp h
    calc Real.exp (Real.log dmax - 1.6449 * sigma) ≤ Real.exp (Real.log d50) := Real.exp_le_exp.mpr (by linarith)
      _ = d50 := Real.exp_log hd
  · simp

example : ∃ d50 dmax alpha : ℝ, 0 < alpha ∧ 0 < dmax ∧ dmax < rrD95 d50 (Real.log 0.5) alpha := by
  refine ⟨1, 1, 1, by norm_num, by norm_num, ?_⟩
  simp only [rrD95, Num.real_rpow, Num.real_log, Num.real_ofSci, Num.real_one]
  have e1 : (1 - 0.95 : ℝ) = 0.05 := by norm_num
  have h1 := log_half_neg
  have h2 : Real.log 0.05 < Real.log 0.5 := Real.log_lt_log (by norm_num) (by norm_num)
  have e3 : ((1 : ℝ) / 1) = 1 := by norm_num
  rw [e1, e3, Real.rpow_one, one_mul, lt_div_iff_of_neg h1]; linarith


/-! ## zero flow -/


/-- (helper, not a clause of the property) `get_distributions`: a zero median yields the empty distribution, whatever the pdf and its parameters -/
theorem getDist_zero (pdf n : ℕ) (k : ℝ) (alpha : Option ℝ) (s : ℝ) : getDist pdf n (0 : ℝ) k alpha s = some ([], []) := by
  have : isZero (0 : ℝ) = true := (isZero_iff 0).mpr rfl
  simp [getDist, this]

/-- sintef: the requested phase has zero flow AND THE OTHER PHASE FLOWS ⇒ median 0 and no maximum stable size.
    (With neither phase flowing the code raises ZeroDivisionError — known finding — and nothing is claimed; that this
    configuration is also free of domain errors is `sintef_defined_zero_gas` / `sintef_defined_zero_oil`.) -/
theorem sintef_zero_flow (dmaxGas dpRoot d0 rhoGas rhoOil mu_p sigma rho mu : ℝ) (mGas mOil : List ℝ) (useD95 : Bool)
    (hrg : 0 < rhoGas) (hro : 0 < rhoOil) :
    (¬ 0 < mGas.sum → 0 < mOil.sum → 0 < sintefQ mGas rhoGas + sintefQ mOil rhoOil ∧
        (sintef dmaxGas dpRoot d0 mGas rhoGas mOil rhoOil mu_p sigma rho mu 0 useD95).1 = 0 ∧
        (sintef dmaxGas dpRoot d0 mGas rhoGas mOil rhoOil mu_p sigma rho mu 0 useD95).2.1 = none) ∧
    (¬ 0 < mOil.sum → 0 < mGas.sum → 0 < sintefQ mGas rhoGas + sintefQ mOil rhoOil ∧
        (sintef dmaxGas dpRoot d0 mGas rhoGas mOil rhoOil mu_p sigma rho mu 1 useD95).1 = 0 ∧
        (sintef dmaxGas dpRoot d0 mGas rhoGas mOil rhoOil mu_p sigma rho mu 1 useD95).2.1 = none) := by
  constructor
  · intro h h'
    refine ⟨?_, by simp [sintef, sintefQ, sintefModel, rrFit, Num.real_sum, h]⟩
    simp only [sintefQ, mass2vol, Num.real_sum, Num.real_zero, h, h', if_false, if_true, zero_add]
    exact div_pos h' hro
  · intro h h'
    refine ⟨?_, by simp [sintef, sintefQ, sintefModel, rrFit, Num.real_sum, h]⟩
    simp only [sintefQ, mass2vol, Num.real_sum, Num.real_zero, h, h', if_false, if_true, add_zero]
    exact div_pos h' hrg

/-- li_etal: zero flow of the requested phase ⇒ median 0 and no maximum stable size; since fix 9f1b754 this includes the
    case of neither phase flowing (`liEtal_defined_no_flow`: nothing undefined is evaluated there) -/
theorem liEtal_zero_flow (dmaxGas d0 rhoGas rhoOil mu_p sigma rho mu : ℝ) (mGas mOil : List ℝ) :
    (¬ 0 < mGas.sum → (liEtal dmaxGas d0 mGas rhoGas mOil rhoOil mu_p sigma rho mu 0).1 = 0 ∧
        (liEtal dmaxGas d0 mGas rhoGas mOil rhoOil mu_p sigma rho mu 0).2.1 = none) ∧
    (¬ 0 < mOil.sum → (liEtal dmaxGas d0 mGas rhoGas mOil rhoOil mu_p sigma rho mu 1).1 = 0 ∧
        (liEtal dmaxGas d0 mGas rhoGas mOil rhoOil mu_p sigma rho mu 1).2.1 = none) := by
  constructor
  · intro h
    simp [liEtal, liEtalModel, mass2vol, rrFit, Num.real_sum, h]
  · intro h
    simp [liEtal, liEtalModel, mass2vol, rrFit, Num.real_sum, h]

/-- wang_etal: zero gas flow AND a flowing liquid ⇒ median 0 and no maximum stable size (with neither phase flowing the
    code raises ZeroDivisionError — known finding — and nothing is claimed) -/
theorem wang_zero_flow (dmaxGas rhoA rhoB d0 rho_g mu_g sigma_g rho mu rho_l P : ℝ) (mG mL : List ℝ)
    (h : ¬ 0 < mG.sum) (hl : 0 < mL.sum) (hrl : 0 < rho_l) :
    0 < mass2vol mG rho_g + wangQl mL rho_l ∧
    (wang dmaxGas rhoA rhoB d0 mG rho_g mu_g sigma_g rho mu mL rho_l P).1 = 0 ∧
    (wang dmaxGas rhoA rhoB d0 mG rho_g mu_g sigma_g rho mu mL rho_l P).2.2.2.1 = none := by
  refine ⟨?_, by simp [wang, wangModel, mass2vol, lnFit, Num.real_sum, h]⟩
  have hz : isZero mL.sum = false := isZero_false_of_ne hl.ne'
  simp only [wangQl, mass2vol, Num.real_sum, hz, Num.real_zero, h, hl, if_false, if_true, zero_add, Bool.false_eq_true]
  exact div_pos hl hrl

/-- ModelBase: a gas phase with zero mass flow, the oil flowing, yields the empty distribution — for the model / pdf choices
    that need NO pdf conversion (wang_etal + lognormal, li_etal + rosin-rammler).  Nothing here rests on the totalisation
    of an operation outside its domain: `wang_defined_zero_gas`, `liEtal_defined_zero_gas`. -/
theorem zero_flow_empty_gas (dmaxGas rhoA rhoB : ℝ) (modelGas pdfGas nbins : ℕ)
    (d0 mOil rhoGas muGas sigmaGas rhoOil rho mu P : ℝ) (hOil : 0 < mOil)
    (hcombo : (modelGas = 0 ∧ pdfGas = 1) ∨ (modelGas = 1 ∧ pdfGas = 0)) :
    mbGas dmaxGas rhoA rhoB modelGas pdfGas nbins d0 0 mOil rhoGas muGas sigmaGas rhoOil rho mu P = some ([], []) := by
  have hz : isZero (0 : ℝ) = true := (isZero_iff 0).mpr rfl
  rcases hcombo with ⟨hm, hp⟩ | ⟨hm, hp⟩ <;>
    simp [mbGas, hm, hp, wang, wangModel, liEtal, liEtalModel, mass2vol, lnFit, rrFit, getDist, hz, Num.real_sum]

/-- the same for the choices that DO convert the pdf (wang_etal + rosin-rammler through `ln2rr`, li_etal + lognormal
    through `rr2ln`).  *partial*: the conversion evaluates log(0) on the zero median; the code does this too (NumPy: −inf
    and a divide-by-zero signal — the known findings `FloatingPointError:ln2rr|rr2ln:log-of-zero-median`), the median 0 is
    passed through unchanged and `get_distributions` returns the empty arrays; here the value of `Real.log 0` is simply
    not used.  The statement is about the RESULT only, not about definedness. -/
theorem zero_flow_empty_gas_converted_partial (dmaxGas rhoA rhoB : ℝ) (modelGas pdfGas nbins : ℕ)
    (d0 mOil rhoGas muGas sigmaGas rhoOil rho mu P : ℝ) (hOil : 0 < mOil)
    (hcombo : (modelGas = 0 ∧ pdfGas = 0) ∨ (modelGas = 1 ∧ pdfGas = 1)) :
    mbGas dmaxGas rhoA rhoB modelGas pdfGas nbins d0 0 mOil rhoGas muGas sigmaGas rhoOil rho mu P = some ([], []) := by
  have hz : isZero (0 : ℝ) = true := (isZero_iff 0).mpr rfl
  rcases hcombo with ⟨hm, hp⟩ | ⟨hm, hp⟩ <;>
    simp [mbGas, hm, hp, wang, wangModel, liEtal, liEtalModel, mass2vol, lnFit, rrFit, ln2rr, rr2ln, getDist, hz, Num.real_sum]

/-- ModelBase: an oil phase with zero mass flow, the gas flowing, and the native Rosin-Rammler pdf ⇒ empty distribution
    (definedness: `sintef_defined_zero_oil`, `liEtal_defined_zero_oil`) -/
theorem zero_flow_empty_oil (dmaxGas dpRoot : ℝ) (modelOil nbins : ℕ)
    (d0 mGas rhoGas rhoOil muOil sigmaOil rho mu : ℝ) (hGas : 0 < mGas) :
    mbOil dmaxGas dpRoot modelOil 0 nbins d0 mGas 0 rhoGas rhoOil muOil sigmaOil rho mu = some ([], []) := by
  have hz : isZero (0 : ℝ) = true := (isZero_iff 0).mpr rfl
  by_cases hm : modelOil = 0 <;>
    simp [mbOil, hm, sintef, sintefQ, sintefModel, liEtal, liEtalModel, mass2vol, rrFit, getDist, hz, Num.real_sum]

/-- … with conversion to lognormal (`rr2ln` on the zero median: *partial* in the same sense as above) -/
theorem zero_flow_empty_oil_converted_partial (dmaxGas dpRoot : ℝ) (modelOil nbins : ℕ)
    (d0 mGas rhoGas rhoOil muOil sigmaOil rho mu : ℝ) (hGas : 0 < mGas) :
    mbOil dmaxGas dpRoot modelOil 1 nbins d0 mGas 0 rhoGas rhoOil muOil sigmaOil rho mu = some ([], []) := by
  have hz : isZero (0 : ℝ) = true := (isZero_iff 0).mpr rfl
  by_cases hm : modelOil = 0 <;>
    simp [mbOil, hm, sintef, sintefQ, sintefModel, liEtal, liEtalModel, mass2vol, rrFit, rr2ln, getDist, hz, Num.real_sum]

/-! ## "never a division by zero"

  The definedness predicate is NOT a separate list of denominators: it is the model function itself, elaborated at the
  instance `Chk` (Lemmas/C16.lean) of the same class `Num` at which it is elaborated for `Float` (driver) and `ℝ` (theorems
  above).  At `Chk` every value carries the conjunction of the domain conditions of all operations that produced it
  (divisor ≠ 0, log argument > 0, sqrt argument ≥ 0, power base > 0 or base = 0 with exponent ≥ 0).  `ok4` / `ok5` collect
  the conditions of the result tuple, `allOk (…Aux …)` those of the values that do not flow into the result (operands of
  `if` tests, eagerly computed quantities) — listed once, as model terms, in Model/Psf.lean.  `inp x` is a given input.
  Oracles (Grace maximum stable size, fsolve root, methane densities) are inputs. -/







/-- with neither phase flowing li_etal returns the empty parameters (median 0, no maximum stable size) -/
theorem liEtal_no_flow (dmaxGas d0 rhoGas rhoOil mu_p sigma rho mu : ℝ) (fp : ℕ) :
    (liEtal dmaxGas d0 [0] rhoGas [0] rhoOil mu_p sigma rho mu fp).1 = 0 ∧
    (liEtal dmaxGas d0 [0] rhoGas [0] rhoOil mu_p sigma rho mu fp).2.1 = none := by
  by_cases h : fp = 0 <;> simp [liEtal, liEtalModel, mass2vol, rrFit, Num.real_sum, h]

/-- psf.sintef with ZERO GAS flow and a flowing oil phase, either phase requested, either setting of use_d95: every
    operation the model evaluates — results and `sintefAux` — is in its domain (no zero divisor, no log / power / root
    outside its domain).  The predicate is the model itself evaluated at `Chk`, not a separate list. -/
theorem sintef_defined_zero_gas (dmaxGas dpRoot d0 rhoGas mOil rhoOil mu_p sigma rho mu : ℝ) (fp : ℕ) (useD95 : Bool)
    (hd : 0 < d0) (hm : 0 < mOil) (hro : 0 < rhoOil) (hlt : rhoOil < rho) (hs : 0 < sigma) :
    ok4 (sintef (inp dmaxGas) (inp dpRoot) (inp d0) [inp 0] (inp rhoGas) [inp mOil] (inp rhoOil) (inp mu_p) (inp sigma)
          (inp rho) (inp mu) fp useD95) ∧
    allOk (sintefAux (inp dmaxGas) (inp dpRoot) (inp d0) [inp 0] (inp rhoGas) [inp mOil] (inp rhoOil) (inp mu_p) (inp sigma)
          (inp rho) fp) := by
  obtain ⟨hqok, hqpos⟩ := sintefQ_pos mOil rhoOil hm hro
  have hr : 0 < rho := hro.trans hlt
  obtain ⟨u1, u2, u3, u4, u5⟩ := sintefUc_oil_only_ok (inp d0) (inp rhoGas) (sintefQ [inp mOil] (inp rhoOil)) (inp rhoOil) (inp rho)
    trivial hqok trivial trivial hd hqpos hr hlt
  simp only [sintef, sintefAux, sintefQ_zero, allOk_append, allOk_cons, allOk_nil, and_true]
  by_cases hfp : fp = 0
  · obtain ⟨a, b⟩ := sintefModel_noflow_ok (inp dmaxGas) (inp dpRoot)
      (sintefUc (inp d0) ⟨0, True⟩ (inp rhoGas) (sintefQ [inp mOil] (inp rhoOil)) (inp rhoOil) (inp rho)) (inp d0) ⟨0, True⟩
      (inp rhoGas) (inp mu_p) (inp sigma) (inp rho) (inp mu) true useD95 (lt_irrefl 0)
    simp only [hfp, if_true]
    exact ⟨a, ⟨u1, u2, u3, u4, u5⟩, b⟩
  · obtain ⟨a, b⟩ := sintefModel_liquid_ok (inp dmaxGas) (inp dpRoot)
      (sintefUc (inp d0) ⟨0, True⟩ (inp rhoGas) (sintefQ [inp mOil] (inp rhoOil)) (inp rhoOil) (inp rho)) (inp d0)
      (sintefQ [inp mOil] (inp rhoOil)) (inp rhoOil) (inp mu_p) (inp sigma) (inp rho) (inp mu) useD95 hqpos
      trivial u5 trivial trivial trivial trivial trivial hs hlt
    simp only [hfp, if_false]
    exact ⟨a, ⟨u1, u2, u3, u4, u5⟩, b⟩

/-- psf.sintef with ZERO OIL flow and a flowing gas phase -/
theorem sintef_defined_zero_oil (dmaxGas dpRoot d0 mGas rhoGas rhoOil mu_p sigma rho mu : ℝ) (fp : ℕ) (useD95 : Bool)
    (hd : 0 < d0) (hm : 0 < mGas) (hrg : 0 < rhoGas) (hlt : rhoGas < rho) (hs : 0 < sigma) :
    ok4 (sintef (inp dmaxGas) (inp dpRoot) (inp d0) [inp mGas] (inp rhoGas) [inp 0] (inp rhoOil) (inp mu_p) (inp sigma)
          (inp rho) (inp mu) fp useD95) ∧
    allOk (sintefAux (inp dmaxGas) (inp dpRoot) (inp d0) [inp mGas] (inp rhoGas) [inp 0] (inp rhoOil) (inp mu_p) (inp sigma)
          (inp rho) fp) := by
  obtain ⟨hqok, hqpos⟩ := sintefQ_pos mGas rhoGas hm hrg
  have hr : 0 < rho := hrg.trans hlt
  obtain ⟨u1, u2, u3, u4, u5⟩ := sintefUc_gas_only_ok (inp d0) (sintefQ [inp mGas] (inp rhoGas)) (inp rhoGas) (inp rhoOil) (inp rho)
    trivial hqok trivial trivial hd hqpos hr hlt
  simp only [sintef, sintefAux, sintefQ_zero, allOk_append, allOk_cons, allOk_nil, and_true]
  by_cases hfp : fp = 0
  · obtain ⟨a, b⟩ := sintefModel_gas_ok (inp dmaxGas) (inp dpRoot)
      (sintefUc (inp d0) (sintefQ [inp mGas] (inp rhoGas)) (inp rhoGas) ⟨0, True⟩ (inp rhoOil) (inp rho)) (inp d0)
      (sintefQ [inp mGas] (inp rhoGas)) (inp rhoGas) (inp mu_p) (inp sigma) (inp rho) (inp mu) useD95 hqpos
      trivial trivial u5 trivial trivial trivial trivial hs
    simp only [hfp, if_true]
    exact ⟨a, ⟨u1, u2, u3, u4, u5⟩, b⟩
  · obtain ⟨a, b⟩ := sintefModel_noflow_ok (inp dmaxGas) (inp dpRoot)
      (sintefUc (inp d0) (sintefQ [inp mGas] (inp rhoGas)) (inp rhoGas) ⟨0, True⟩ (inp rhoOil) (inp rho)) (inp d0) ⟨0, True⟩
      (inp rhoOil) (inp mu_p) (inp sigma) (inp rho) (inp mu) false useD95 (lt_irrefl 0)
    simp only [hfp, if_false]
    exact ⟨a, ⟨u1, u2, u3, u4, u5⟩, b⟩


/-- psf.li_etal (with li_etal_model, li_etal_d50) with ZERO GAS flow and a flowing oil phase, either phase requested:
    results and `liEtalAux` are defined -/
theorem liEtal_defined_zero_gas (dmaxGas d0 rhoGas mOil rhoOil mu_p sigma rho mu : ℝ) (fp : ℕ)
    (hd : 0 < d0) (hm : 0 < mOil) (hro : 0 < rhoOil) (hlt : rhoOil < rho) (hs : 0 < sigma) (hsr : sigma < rho) (hmu : 0 ≤ mu_p) :
    ok4 (liEtal (inp dmaxGas) (inp d0) [inp 0] (inp rhoGas) [inp mOil] (inp rhoOil) (inp mu_p) (inp sigma) (inp rho) (inp mu) fp) ∧
    allOk (liEtalAux (inp d0) [inp 0] (inp rhoGas) [inp mOil] (inp rhoOil) (inp sigma) (inp rho) fp) := by
  obtain ⟨hqok, hqpos⟩ := mass2vol_pos mOil rhoOil hm hro
  have hr : 0 < rho := hro.trans hlt
  have hUok := liEtalUc_ok (inp d0) ⟨0, True⟩ (mass2vol [inp mOil] (inp rhoOil)) fp trivial trivial hqok hd
  have hUpos := liEtalUc_val_pos (inp d0) ⟨0, True⟩ (mass2vol [inp mOil] (inp rhoOil)) fp hd (by simpa using hqpos)
  simp only [liEtal, liEtalAux, mass2vol_zero', allOk_append, allOk_cons, allOk_nil, and_true, chk_lt, chk_zero, lt_irrefl, if_false]
  by_cases hfp : fp = 0
  · simp only [hfp, if_true, allOk_nil, and_true]
    exact ⟨liEtalModel_noflow_ok _ _ _ _ _ _ _ _ _ _ (lt_irrefl 0), hfp ▸ hUok⟩
  · simp only [hfp, if_false, hqpos, if_true, allOk_cons, allOk_nil, and_true]
    refine ⟨liEtalModel_flow_ok _ _ _ _ _ _ _ _ _ false hqpos trivial hUok trivial trivial trivial trivial trivial hUpos hd hro hmu hs hr hsr
      (fun _ => hlt), hUok, ?_⟩
    exact deMaxOil_ok (inp sigma) (inp rhoOil) (inp rho) trivial trivial trivial hsr hro.le

/-- psf.li_etal with ZERO OIL flow and a flowing gas phase -/
theorem liEtal_defined_zero_oil (dmaxGas d0 mGas rhoGas rhoOil mu_p sigma rho mu : ℝ) (fp : ℕ)
    (hd : 0 < d0) (hm : 0 < mGas) (hrg : 0 < rhoGas) (hr : 0 < rho) (hs : 0 < sigma) (hsr : sigma < rho) (hmu : 0 ≤ mu_p) :
    ok4 (liEtal (inp dmaxGas) (inp d0) [inp mGas] (inp rhoGas) [inp 0] (inp rhoOil) (inp mu_p) (inp sigma) (inp rho) (inp mu) fp) ∧
    allOk (liEtalAux (inp d0) [inp mGas] (inp rhoGas) [inp 0] (inp rhoOil) (inp sigma) (inp rho) fp) := by
  obtain ⟨hqok, hqpos⟩ := mass2vol_pos mGas rhoGas hm hrg
  have hUok := liEtalUc_ok (inp d0) (mass2vol [inp mGas] (inp rhoGas)) ⟨0, True⟩ fp trivial hqok trivial hd
  have hUpos := liEtalUc_val_pos (inp d0) (mass2vol [inp mGas] (inp rhoGas)) ⟨0, True⟩ fp hd (by simpa using hqpos)
  simp only [liEtal, liEtalAux, mass2vol_zero', allOk_append, allOk_cons, allOk_nil, and_true, chk_lt, chk_zero, lt_irrefl, if_false]
  by_cases hfp : fp = 0
  · simp only [hfp, if_true, hqpos, allOk_cons, allOk_nil, and_true]
    refine ⟨liEtalModel_flow_ok _ _ _ _ _ _ _ _ _ true hqpos trivial (hfp ▸ hUok) trivial trivial trivial trivial trivial (hfp ▸ hUpos) hd hrg hmu hs hr hsr
      (fun h => by cases h), hfp ▸ hUok, ?_⟩
    exact deMaxOil_ok (inp sigma) (inp rhoGas) (inp rho) trivial trivial trivial hsr hrg.le
  · simp only [hfp, if_false, allOk_nil, and_true]
    exact ⟨liEtalModel_noflow_ok _ _ _ _ _ _ _ _ _ _ (lt_irrefl 0), hUok⟩

/-- psf.li_etal with NEITHER phase flowing (since fix 9f1b754): nothing outside its domain is evaluated -/
theorem liEtal_defined_no_flow (dmaxGas d0 rhoGas rhoOil mu_p sigma rho mu : ℝ) (fp : ℕ) (hd : 0 < d0) :
    ok4 (liEtal (inp dmaxGas) (inp d0) [inp 0] (inp rhoGas) [inp 0] (inp rhoOil) (inp mu_p) (inp sigma) (inp rho) (inp mu) fp) ∧
    allOk (liEtalAux (inp d0) [inp 0] (inp rhoGas) [inp 0] (inp rhoOil) (inp sigma) (inp rho) fp) := by
  have hUok := liEtalUc_ok (inp d0) ⟨0, True⟩ ⟨0, True⟩ fp trivial trivial trivial hd
  simp only [liEtal, liEtalAux, mass2vol_zero', allOk_append, allOk_cons, allOk_nil, and_true, chk_lt, chk_zero, lt_irrefl, if_false]
  by_cases hfp : fp = 0
  · simp only [hfp, if_true, allOk_nil, and_true]
    exact ⟨liEtalModel_noflow_ok _ _ _ _ _ _ _ _ _ _ (lt_irrefl 0), hfp ▸ hUok⟩
  · simp only [hfp, if_false, allOk_nil, and_true]
    exact ⟨liEtalModel_noflow_ok _ _ _ _ _ _ _ _ _ _ (lt_irrefl 0), hUok⟩


/-- psf.wang_etal (with wang_etal_model) with ZERO GAS flow and a flowing liquid: results and `wangAux` are defined
    (rhoA < rhoB: the methane density of the speed-of-sound estimate increases with pressure) -/
theorem wang_defined_zero_gas (dmaxGas rhoA rhoB d0 rho_g mu_g sigma_g rho mu mL rho_l P : ℝ)
    (hd : 0 < d0) (hm : 0 < mL) (hl : 0 < rho_l) (hP : 0 < P) (hAB : rhoA < rhoB) :
    ok5 (wang (inp dmaxGas) (inp rhoA) (inp rhoB) (inp d0) [inp 0] (inp rho_g) (inp mu_g) (inp sigma_g) (inp rho) (inp mu)
          [inp mL] (inp rho_l) (inp P)) ∧
    allOk (wangAux (inp dmaxGas) (inp rhoA) (inp rhoB) (inp d0) [inp 0] (inp rho_g) (inp mu_g) (inp sigma_g) (inp rho) (inp mu)
          [inp mL] (inp rho_l) (inp P)) := by
  obtain ⟨hqok, hqpos⟩ := wangQl_pos mL rho_l hm hl
  obtain ⟨hAok, hApos⟩ := wangA_ok (inp d0) trivial hd
  obtain ⟨haok, hapos⟩ := wangSound_ok rhoA rhoB P hP hAB
  set Ql := wangQl [inp mL] (inp rho_l) with hQl
  set A := wangA (inp d0) with hA
  set a := wangSound (inp rhoA) (inp rhoB) (inp P) with ha
  have hUgok : ((⟨0, True⟩ + Ql) / A : Chk).ok := by simp [hqok, hAok, hApos.ne']
  have hUgpos : 0 < ((⟨0, True⟩ + Ql) / A : Chk).val := by simp only [chk_add, chk_div, zero_add]; positivity
  obtain ⟨hUE, hUEpos, hUEaux⟩ := wangUE_ok _ a hUgok haok hUgpos hapos
  have hf := lnFit_none_ok (⟨0, True⟩ : Chk) (0.27 : Chk) trivial (by simp)
  simp only [wang, wangAux, mass2vol_zero', ← hQl, ← hA, ← ha, chk_lt, chk_zero, lt_irrefl, if_false, wangModel, ok5, okOpt,
    allOk_append, allOk_cons, allOk_nil, and_true, hqpos, if_true]
  refine ⟨⟨hf.1, trivial, ?_, trivial, hf.2⟩, ⟨?_, hAok, hUgok, haok, hUE⟩, hUEaux⟩
  · simp only [chk_mul, inp_ok, true_and]; exact ⟨hAok, hUE⟩
  · simp only [chk_add, chk_div, zero_add, true_and]; exact ⟨hqok, hqpos.ne'⟩

/-- psf.wang_etal with ZERO LIQUID flow and a flowing gas phase (n = 1) -/
theorem wang_defined_zero_liquid (dmaxGas rhoA rhoB d0 mG rho_g mu_g sigma_g rho mu rho_l P : ℝ)
    (hd : 0 < d0) (hm : 0 < mG) (hg : 0 < rho_g) (hlt : rho_g < rho) (hs : 0 < sigma_g) (hdm : 0 < dmaxGas)
    (hP : 0 < P) (hAB : rhoA < rhoB) :
    ok5 (wang (inp dmaxGas) (inp rhoA) (inp rhoB) (inp d0) [inp mG] (inp rho_g) (inp mu_g) (inp sigma_g) (inp rho) (inp mu)
          [inp 0] (inp rho_l) (inp P)) ∧
    allOk (wangAux (inp dmaxGas) (inp rhoA) (inp rhoB) (inp d0) [inp mG] (inp rho_g) (inp mu_g) (inp sigma_g) (inp rho) (inp mu)
          [inp 0] (inp rho_l) (inp P)) := by
  obtain ⟨hqok, hqpos⟩ := mass2vol_pos mG rho_g hm hg
  obtain ⟨hAok, hApos⟩ := wangA_ok (inp d0) trivial hd
  obtain ⟨haok, hapos⟩ := wangSound_ok rhoA rhoB P hP hAB
  set Qg := mass2vol [inp mG] (inp rho_g) with hQg
  set A := wangA (inp d0) with hA
  set a := wangSound (inp rhoA) (inp rhoB) (inp P) with ha
  have hnok : (Qg / (Qg + ⟨0, True⟩) : Chk).ok := by
    simp only [chk_add, chk_div, add_zero, and_true]; exact ⟨hqok, hqok, hqpos.ne'⟩
  have hnval : (Qg / (Qg + ⟨0, True⟩) : Chk).val = 1 := by
    simp only [chk_add, chk_div, add_zero]; exact div_self hqpos.ne'
  have hUgok : ((Qg + ⟨0, True⟩) / A : Chk).ok := by
    simp only [chk_add, chk_div, and_true]; exact ⟨hqok, hAok, hApos.ne'⟩
  have hUgpos : 0 < ((Qg + ⟨0, True⟩) / A : Chk).val := by simp only [chk_add, chk_div, add_zero]; positivity
  obtain ⟨hUE, hUEpos, hUEaux⟩ := wangUE_ok _ a hUgok haok hUgpos hapos
  obtain ⟨d1, d2, d3, d4⟩ := wangD50_gas_only_ok A (Qg / (Qg + ⟨0, True⟩)) (wangUE ((Qg + ⟨0, True⟩) / A) a) (inp rho_g) (inp mu_g)
    (inp sigma_g) ⟨0, True⟩ (inp rho_l) (inp rho) (inp mu) hAok hnok hUE trivial trivial trivial trivial trivial hnval hApos hUEpos hg hlt hs
  obtain ⟨f1, f2, f3⟩ := lnFit_some_ok _ (inp dmaxGas) (0.27 : Chk) d1 trivial (by simp) d2 hdm
  simp only [wang, wangAux, wangQl_zero, ← hQg, ← hA, ← ha, chk_lt, chk_zero, lt_irrefl, if_false, hqpos, if_true, wangModel, hUEpos,
    ok5, okOpt, allOk_append, allOk_cons, allOk_nil, and_true]
  exact ⟨⟨f1, d3, d4, trivial, f2⟩, ⟨⟨hnok, hAok, hUgok, haok, hUE⟩, hUEaux⟩, f3⟩


/-! ## ModelBase: model_gas = 'wang_etal' with pdf_gas = 'rosin-rammler' -/

/-- for a flowing gas phase `get_distributions` returns the Rosin-Rammler distribution with the parameters `ln2rr`
    computed from the wang_etal median and spread (before fix 99832ec the shape was stored in `sigma_gas` and
    `get_distributions` raised) -/
theorem wang_rosin_rammler_yields_distribution (dmaxGas rhoA rhoB : ℝ) (nbins : ℕ)
    (d0 mGas mOil rhoGas muGas sigmaGas rhoOil rho mu P : ℝ)
    (h : (wang dmaxGas rhoA rhoB d0 [mGas] rhoGas muGas sigmaGas rho mu [mOil] rhoOil P).1 ≠ 0) :
    mbGas dmaxGas rhoA rhoB 0 0 nbins d0 mGas mOil rhoGas muGas sigmaGas rhoOil rho mu P =
      some (rosinRammler nbins
        (ln2rr (wang dmaxGas rhoA rhoB d0 [mGas] rhoGas muGas sigmaGas rho mu [mOil] rhoOil P).1
               (wang dmaxGas rhoA rhoB d0 [mGas] rhoGas muGas sigmaGas rho mu [mOil] rhoOil P).2.2.2.2).1
        (ln2rr (wang dmaxGas rhoA rhoB d0 [mGas] rhoGas muGas sigmaGas rho mu [mOil] rhoOil P).1
               (wang dmaxGas rhoA rhoB d0 [mGas] rhoGas muGas sigmaGas rho mu [mOil] rhoOil P).2.2.2.2).2.1
        (ln2rr (wang dmaxGas rhoA rhoB d0 [mGas] rhoGas muGas sigmaGas rho mu [mOil] rhoOil P).1
               (wang dmaxGas rhoA rhoB d0 [mGas] rhoGas muGas sigmaGas rho mu [mOil] rhoOil P).2.2.2.2).2.2) := by
  simp only [mbGas, if_true, ln2rr, getDist, isZero_false_of_ne h]
  simp

/-! ## legacy truncation (sintef.rosin_rammler) conserves the total mass flux -/

/-- (helper, not a clause of the property) -/
theorem truncate_conserves (dmax : ℝ) (de md : List ℝ) (h : de.length = md.length) :
    (truncate dmax de md).2.sum = md.sum ∧ (truncate dmax de md).1.length = de.length ∧
      (truncate dmax de md).2.length = md.length := by
  have inv := foldl_truncStep_inv (dmax := dmax) (n := de.length) (s0 := md.sum) de.length le_rfl
    (st := (none, de, md)) ⟨rfl, h.symm, rfl, fun j hj => by cases hj⟩
  exact ⟨inv.sum, inv.lenDe, inv.lenMd.trans h⟩

theorem legacy_truncation_conserves (nbins : ℕ) (d50 mdTotal sigma rho_p rho : ℝ) :
    (legacyRR nbins d50 mdTotal sigma rho_p rho).2.sum =
      ((rrVf nbins d50 (Real.log 0.5) 1.8).map (fun v => v * mdTotal)).sum := by
  simp only [legacyRR, Num.real_log, Num.real_ofSci]
  refine (truncate_conserves _ _ _ ?_).1
  simp only [rrDe, rrVf, List.length_map, List.length_range]
  split <;> simp

/-- … which is the prescribed total when there is at least one bin and the median is not zero -/
theorem legacy_truncation_total (nbins : ℕ) (d50 mdTotal sigma rho_p rho : ℝ) (hn : 0 < nbins) (hd : d50 ≠ 0) :
    (legacyRR nbins d50 mdTotal sigma rho_p rho).2.sum = mdTotal := by
  rw [legacy_truncation_conserves]
  have h1 : ((rrVf nbins d50 (Real.log 0.5) 1.8).map (fun v => v * mdTotal)).sum
      = (rrVf nbins d50 (Real.log 0.5) 1.8).sum * mdTotal := by
    induction (rrVf nbins d50 (Real.log 0.5) 1.8) with
    | nil => simp
    | cons a l ih => simp [ih, add_mul]
  have hk : Real.log 0.5 < 0 := Real.log_neg (by norm_num) (by norm_num)
  have hs : (rrVf nbins d50 (Real.log 0.5) 1.8).sum = 1 := by
    simp only [rrVf, isZero_false_of_ne hd, Bool.false_eq_true, if_false, Num.real_sum]
    rw [sum_map_div]
    exact div_self (rrVf0_sum_pos hk (by norm_num) hn).ne'
  rw [h1, hs, one_mul]



/-- (helper, not a clause of the property) li_etal never applies the d95 rule: for a flowing phase the returned median is the raw correlation value,
    whatever the maximum stable size -/
theorem liEtal_median_uncapped (dmaxGas Uc d0 q rho_p mu_p sigma rho mu : ℝ) (isGas : Bool) (hq : 0 < q) :
    (liEtalModel dmaxGas Uc d0 q rho_p mu_p sigma rho mu isGas).1 = liEtalD50 Uc d0 rho_p mu_p sigma rho isGas := by
  simp [liEtalModel, hq, rrFit]


/-- WITNESS (negation of "after fitting, d95 ≤ maximum stable size" for the li_etal driver): oil only,
    0.9 g/s of a 900 kg/m³ oil (σ = 0.015696 N/m) through a 1 cm orifice into water of 1000 kg/m³: the maximum
    stable droplet size is 16 mm, the returned median is ≥ 140 mm and so is the 95-th percentile. -/
theorem liEtal_d95_cap_false :
    (liEtal (0 : ℝ) 0.01 [0] 100 [0.0009] 900 0.001 0.015696 1000 0.001 1).2.1 = some 0.016 ∧
    (0.016 : ℝ) < rrD95 (liEtal (0 : ℝ) 0.01 [0] 100 [0.0009] 900 0.001 0.015696 1000 0.001 1).1
                        (liEtal (0 : ℝ) 0.01 [0] 100 [0.0009] 900 0.001 0.015696 1000 0.001 1).2.2.1
                        (liEtal (0 : ℝ) 0.01 [0] 100 [0.0009] 900 0.001 0.015696 1000 0.001 1).2.2.2 := by
  have hpi := pi_pos
  have hqg : mass2vol [(0 : ℝ)] 100 = 0 := by simp [mass2vol, Num.real_sum]
  have hqo : mass2vol [(0.0009 : ℝ)] 900 = 0.0009 / 900 := by
    simp only [mass2vol, Num.real_sum, List.sum_cons, List.sum_nil, add_zero, Num.real_zero, Num.real_ofSci]
    rw [if_pos (by norm_num)]
  have hqpos : (0 : ℝ) < 0.0009 / 900 := by norm_num
  -- maximum stable size: 4·sqrt(0.015696/(9.81·100)) = 4·0.004
  have hdm : deMaxOil (900 : ℝ) 0.015696 1000 = 0.016 := by
    simp only [deMaxOil, Model.Psf.G, Num.real_sqrt, Num.real_ofSci, Num.real_ofNat]
    have : (0.015696 : ℝ) / (9.81 * (1000 - 900)) = 0.004 ^ 2 := by norm_num
    rw [this, Real.sqrt_sq (by norm_num)]; norm_num
  -- exit velocity
  set Uc : ℝ := liEtalUc 0.01 0 (0.0009 / 900) 1 with hUc
  have hUcv : Uc = 4 * (0.0009 / 900) / (Model.Psf.pi * 0.01 ^ 2) := by
    simp only [hUc, liEtalUc, Num.real_npow, Num.real_ofNat, Num.real_one, Num.real_zero, Num.real_ofSci]
    norm_num
  have hUcpos : 0 < Uc := by rw [hUcv]; positivity
  have hr : liEtal (0 : ℝ) 0.01 [0] 100 [0.0009] 900 0.001 0.015696 1000 0.001 1 =
      (liEtalD50 Uc 0.01 900 0.001 0.015696 1000 false, some 0.016, Real.log 0.5, 1.8) := by
    simp only [liEtal, hqg, hqo, liEtalModel, Num.real_zero, Num.real_ofSci, Num.real_ofNat, hqpos, if_true, rrFit, hdm,
      Num.real_log, ← hUc]
    simp
  rw [hr]
  refine ⟨rfl, ?_⟩
  -- the correlation value is at least 14.05·d0 = 0.1405
  have hswap : ¬ deMaxOil (0.015696 : ℝ) 900 1000 < 0.01 := by
    simp only [deMaxOil, Model.Psf.G, Num.real_sqrt, Num.real_ofSci, Num.real_ofNat, not_lt]
    have : (0.0025 : ℝ) ≤ Real.sqrt (900 / (9.81 * (1000 - 0.015696))) :=
      Real.le_sqrt_of_sq_le (by norm_num)
    linarith
  have hWe : (1000 : ℝ) * Uc ^ 2 * 0.01 / 0.015696 ≤ 1 := by
    have hpi3 : (3 : ℝ) < Model.Psf.pi := by simp only [Model.Psf.pi, Num.real_ofSci]; norm_num
    have hUle : Uc ≤ 0.014 := by
      rw [hUcv, div_le_iff₀ (by positivity)]
      nlinarith
    have : Uc ^ 2 ≤ 0.014 ^ 2 := pow_le_pow_left₀ hUcpos.le hUle 2
    rw [div_le_one (by norm_num)]
    nlinarith
  have hge := liEtalD50_ge Uc 0.01 900 0.001 0.015696 1000 (by norm_num) (by norm_num) (by norm_num) (by norm_num)
    hUcpos hswap hWe
  -- and the 95-th percentile is at least the median
  simp only [rrD95, Num.real_rpow, Num.real_log, Num.real_ofSci, Num.real_one]
  have e1 : (1 - 0.95 : ℝ) = 0.05 := by norm_num
  rw [e1]
  have hk : Real.log 0.5 < 0 := Real.log_neg (by norm_num) (by norm_num)
  have hlt : Real.log 0.05 < Real.log 0.5 := Real.log_lt_log (by norm_num) (by norm_num)
  have hratio : 1 ≤ Real.log 0.05 / Real.log 0.5 := by
    rw [le_div_iff_of_neg hk]; linarith
  have hpow : (1 : ℝ) ≤ (Real.log 0.05 / Real.log 0.5) ^ ((1 : ℝ) / 1.8) := Real.one_le_rpow hratio (by norm_num)
  have hd50 : (0.1405 : ℝ) ≤ liEtalD50 Uc 0.01 900 0.001 0.015696 1000 false := by
    have : (14.05 : ℝ) * 0.01 = 0.1405 := by norm_num
    linarith
  nlinarith

/-! ## non-vacuity of the hypotheses used above -/

/-- log-normal: σ = 0.27 (the value used by wang_etal), d50 = 1 mm -/
example : ∃ d50 sigma : ℝ, 0 < d50 ∧ 0 < sigma := ⟨0.001, 0.27, by norm_num, by norm_num⟩

/-- the fit theorems: a cap that bites (d_max below the 95th percentile of the log-normal with d50 = 1, σ = 1) -/
example : ∃ d50 dmax sigma : ℝ, 0 < d50 ∧ 0 < dmax ∧ dmax < lnD95 d50 sigma := by
  refine ⟨1, 1, 1, by norm_num, by norm_num, ?_⟩
  simp only [lnD95, Num.real_exp, Num.real_log, Num.real_ofSci]
  rw [Real.log_one, zero_add]
  have : (0 : ℝ) < 1.6449 * 1 := by norm_num
  calc (1 : ℝ) = Real.exp 0 := Real.exp_zero.symm
    _ < Real.exp (1.6449 * 1) := Real.exp_lt_exp.mpr this

/-- sintef with one phase absent: 3 cm orifice, 0.05 m³/s of a 600 kg/m³ oil into 1030 kg/m³ water -/
example : ∃ d0 qOil rhoOil rho : ℝ, 0 < d0 ∧ 0 < qOil ∧ 0 < rho ∧ rhoOil < rho :=
  ⟨0.03, 0.05, 600, 1030, by norm_num, by norm_num, by norm_num, by norm_num⟩

/-- legacy truncation: a three-bin distribution where the two largest bins exceed d_max = 2 -/
example : (truncate (2 : ℝ) [1, 3, 4] [0.2, 0.3, 0.5]).2.sum = ([0.2, 0.3, 0.5] : List ℝ).sum :=
  (truncate_conserves 2 [1, 3, 4] [0.2, 0.3, 0.5] rfl).1

end TamocV.Props.C16
