/-
  C13 (continued) — the remaining analytic claims about `tamoc/seawater.py`:
  density increases with salinity below 40 °C, viscosity decreases with temperature, and the hot-water
  branch (T ≥ 40 °C) of the density is positive and increases with salinity and with pressure; the
  hot branch of the thermal conductivity is positive.
  Property theorems only (same namespace as `TamocV.Props.C13`); helper lemmas are in `TamocV.Lemmas.C13Mono`.
-/
import TamocV.Real
import TamocV.Gen.SeawaterPy
import TamocV.Props.C13
import TamocV.Lemmas.C13Mono
import Mathlib.Tactic.Ring
import Mathlib.Tactic.NormNum
import Mathlib.Tactic.Linarith

set_option linter.unusedSimpArgs false
set_option linter.unusedVariables false

namespace TamocV.Props.C13
open TamocV TamocV.Gen TamocV.Lemmas.C20 TamocV.Lemmas.C13 TamocV.Lemmas.C13Mono

/-- **Below 40 °C the density increases strictly with salinity** on the oceanic box
    (271 K ≤ T < 313.15 K, 0 ≤ S₁ < S₂ ≤ 42, 0 ≤ P ≤ 1.1·10⁸ Pa).  With N₀ the one-atmosphere density
    and K the secant bulk modulus, ρ = N₀·K/(K − p); the finite difference
    N₀(S₂)K(S₂)(K(S₁) − p) − N₀(S₁)K(S₁)(K(S₂) − p) = ΔN₀·K(S₁)(K(S₂) − p) − p·N₀(S₂)·ΔK
    is positive because ΔN₀ ≥ 0.66·ΔS, ΔK ≤ 70·ΔS, K ≥ 19200 + 3p, N₀ ≤ 1100, p ≤ 1100 bar. -/
theorem density_mono_S (T S1 S2 P : ℝ) (hT0 : 271 ≤ T) (hT1 : T < 273.15 + 40) (hS0 : 0 ≤ S1) (h12 : S1 < S2)
    (hS2 : S2 ≤ 42) (hP0 : 0 ≤ P) (hP1 : P ≤ 1.1e8) :
    SeawaterPy.density T S1 P < SeawaterPy.density T S2 P := by
  rw [density_grouped T S1 P hT1, density_grouped T S2 P hT1]
  have hS1' : S1 ≤ 42 := by linarith
  have hS2' : 0 ≤ S2 := by linarith
  obtain ⟨hs10, hs11⟩ := s32_bound S1 hS0 hS1'
  obtain ⟨hs20, hs21⟩ := s32_bound S2 hS2' hS2
  obtain ⟨hd0, hd1⟩ := s32_diff S1 S2 hS0 (le_of_lt h12) hS2
  set t := T - 273.15 with ht
  set s1 := S1 ^ ((3.0:ℝ)/2.0) with hs1
  set s2 := S2 ^ ((3.0:ℝ)/2.0) with hs2
  set p := P * 0.00001 with hp
  have h1 : -2.15 ≤ t := by rw [ht]; linarith
  have h2 : t ≤ 40 := by rw [ht]; linarith
  have hp0 : 0 ≤ p := by rw [hp]; positivity
  have hp1 : p ≤ 1100 := by rw [hp]; nlinarith
  have hKlow : ∀ S s, 0 ≤ S → S ≤ 42 → 0 ≤ s → s ≤ 273 → 19200 + 3 * p ≤ Kp t S s p := by
    intro S s hS0 hS1 hs0 hs1
    have hKform : Kp t S s p =
        Kw t + S * k1 t + s * k2 t + p * (Aw t + S * a1 t + 0.000191075 * s) + p * p * (Bw t + S * b1 t) := by
      unfold Kp K0 KA KB; ring
    rw [hKform]
    exact K_combine (Kw t) (k1 t) (k2 t) (Aw t) (a1 t) (Bw t) (b1 t) S s p
      (by unfold Kw; exact Kw_lb t h1 h2) (by unfold k1; exact k1_lb t h1 h2) (by unfold k2; exact k2_lb t h1 h2)
      (by unfold Aw; exact Aw_lb t h1 h2) (by unfold a1; exact a1_lb t h1 h2) (by unfold Bw; exact Bw_lb t h1 h2)
      (by unfold b1; exact b1_lb t h1 h2) hS0 hS1 hs0 hs1 hp0 hp1
  have hK1 := hKlow S1 s1 hS0 hS1' hs10 hs11
  have hK2 := hKlow S2 s2 hS2' hS2 hs20 hs21
  have hN := N0_diff_lb t S1 S2 s1 s2 h1 h2 hS0 (le_of_lt h12) hd0 hd1
  have hN2 := N0_ub t S2 s2 h1 h2 hS2' hS2 hs20
  have hN2p : 0 ≤ N0 t S2 s2 := by
    have := N0_pos t S2 s2 h1 h2 hS2' hS2 hs20 hs21; linarith
  have hK := Kp_diff_ub t S1 S2 s1 s2 p h1 h2 (le_of_lt h12) hd0 hd1 hp0 hp1
  have core := core_ineq (N0 t S1 s1) (N0 t S2 s2) (Kp t S1 s1 p) (Kp t S2 s2 p) p (S2 - S1) (by linarith)
    hp0 hp1 hN hN2 hN2p hK hK1 hK2
  exact frac_lt (N0 t S1 s1) (N0 t S2 s2) (Kp t S1 s1 p) (Kp t S2 s2 p) p (by linarith) (by linarith) hp0 core

/-- the hypotheses of `density_mono_S` are satisfiable (Atlantic deep water vs. a brackish parcel) -/
example : SeawaterPy.density (277.15:ℝ) 10 4e7 < SeawaterPy.density (277.15:ℝ) 35 4e7 :=
  density_mono_S 277.15 10 35 4e7 (by norm_num) (by norm_num) (by norm_num) (by norm_num) (by norm_num)
    (by norm_num) (by norm_num)

/-- **Viscosity decreases strictly with temperature** over the whole fitted range
    271 K ≤ T₁ < T₂ ≤ 373.15 K, for 0 ≤ S ≤ 42 and P ≥ 0 (the pressure factor does not depend on T). -/
theorem mu_decreasing_T (T1 T2 S P : ℝ) (hT0 : 271 ≤ T1) (h12 : T1 < T2) (hT2 : T2 ≤ 373.15) (hS0 : 0 ≤ S)
    (hS1 : S ≤ 42) (hP0 : 0 ≤ P) :
    SeawaterPy.mu T2 S P < SeawaterPy.mu T1 S P := by
  rw [mu_grouped T1 S P, mu_grouped T2 S P]
  have hs0 : 0 ≤ S / 1000.0 := by positivity
  have hs1 : S / 1000.0 ≤ 0.042 := by
    rw [div_le_iff₀ (by norm_num)]; linarith
  have h := muwF_decreasing (T1 - 273.15) (T2 - 273.15) (S / 1000.0) (by linarith) (by linarith) (by linarith)
    hs0 hs1
  exact mul_lt_mul_of_pos_right h (GG_pos P hP0)

example : SeawaterPy.mu (293.15:ℝ) 35 1e7 < SeawaterPy.mu (277.15:ℝ) 35 1e7 :=
  mu_decreasing_T 277.15 293.15 35 1e7 (by norm_num) (by norm_num) (by norm_num) (by norm_num) (by norm_num)
    (by norm_num)

/-! ### Hot-water branch, 313.15 K ≤ T ≤ 373.15 K -/

/-- the hot-water density is positive (indeed ≥ 950 kg/m³) on 40–100 °C, S ≥ 0, 0 ≤ P ≤ 110 MPa -/
theorem density_hot_pos (T S P : ℝ) (hT0 : 273.15 + 40 ≤ T) (hT1 : T ≤ 373.15) (hS0 : 0 ≤ S)
    (hP0 : 0 ≤ P) (hP1 : P ≤ 1.1e8) : 0 < SeawaterPy.density T S P := by
  rw [density_hot_grouped T S P hT0]
  have hp0 : 0 ≤ P / 1000000.0 := by positivity
  have hp1 : P / 1000000.0 ≤ 110 := by
    rw [div_le_iff₀ (by norm_num)]; norm_num at hP1 ⊢; linarith
  have := rhoh_lb (T - 273.15) S (P / 1000000.0) (by linarith) (by linarith) hS0 hp0 hp1
  linarith

example : 0 < SeawaterPy.density (353.15:ℝ) 35 1e7 :=
  density_hot_pos 353.15 35 1e7 (by norm_num) (by norm_num) (by norm_num) (by norm_num) (by norm_num)

/-- the hot-water density increases strictly with salinity -/
theorem density_hot_mono_S (T S1 S2 P : ℝ) (hT0 : 273.15 + 40 ≤ T) (hT1 : T ≤ 373.15) (h12 : S1 < S2)
    (hP0 : 0 ≤ P) (hP1 : P ≤ 1.1e8) : SeawaterPy.density T S1 P < SeawaterPy.density T S2 P := by
  rw [density_hot_grouped T S1 P hT0, density_hot_grouped T S2 P hT0]
  have hp0 : 0 ≤ P / 1000000.0 := by positivity
  have hp1 : P / 1000000.0 ≤ 110 := by
    rw [div_le_iff₀ (by norm_num)]; norm_num at hP1 ⊢; linarith
  exact rhoh_mono_S (T - 273.15) S1 S2 (P / 1000000.0) (by linarith) (by linarith) h12 hp0 hp1

example : SeawaterPy.density (353.15:ℝ) 0 1e7 < SeawaterPy.density (353.15:ℝ) 35 1e7 :=
  density_hot_mono_S 353.15 0 35 1e7 (by norm_num) (by norm_num) (by norm_num) (by norm_num) (by norm_num)

/-- the hot-water density increases strictly with pressure on 0–110 MPa, S 0–42 -/
theorem density_hot_mono_P (T S P1 P2 : ℝ) (hT0 : 273.15 + 40 ≤ T) (hT1 : T ≤ 373.15) (hS0 : 0 ≤ S)
    (hS1 : S ≤ 42) (hP0 : 0 ≤ P1) (h12 : P1 < P2) (hP2 : P2 ≤ 1.1e8) :
    SeawaterPy.density T S P1 < SeawaterPy.density T S P2 := by
  rw [density_hot_grouped T S P1 hT0, density_hot_grouped T S P2 hT0]
  have hp0 : 0 ≤ P1 / 1000000.0 := by positivity
  have hp12 : P1 / 1000000.0 < P2 / 1000000.0 := div_lt_div_of_pos_right h12 (by norm_num)
  have hp1 : P2 / 1000000.0 ≤ 110 := by
    rw [div_le_iff₀ (by norm_num)]; norm_num at hP2 ⊢; linarith
  exact rhoh_mono_p (T - 273.15) S (P1 / 1000000.0) (P2 / 1000000.0) (by linarith) (by linarith) hS0 hS1
    hp0 hp12 hp1

example : SeawaterPy.density (353.15:ℝ) 35 1e5 < SeawaterPy.density (353.15:ℝ) 35 1e8 :=
  density_hot_mono_P 353.15 35 1e5 1e8 (by norm_num) (by norm_num) (by norm_num) (by norm_num) (by norm_num)
    (by norm_num) (by norm_num)

/-- the thermal conductivity is positive on the hot branch (T₆₈ ≥ 30 °C): it is 10^(…)/1000 -/
theorem k_pos_hot (T S P : ℝ) (hc : ¬ ((T - 0.0682875) / (1.0 - 0.00025) - 273.15 < (30.0:ℝ))) :
    0 < SeawaterPy.k T S P := by
  simp only [SeawaterPy.k, Num.real_ofSci, Num.real_ofNat, Num.real_one, Num.real_zero, Num.real_npow,
    Num.real_rpow]
  rw [if_neg hc]
  apply div_pos (Real.rpow_pos_of_pos (by norm_num) _) (by norm_num)

example : 0 < SeawaterPy.k (353.15:ℝ) 35 1e7 :=
  k_pos_hot 353.15 35 1e7 (by norm_num)

/-- the thermal conductivity is positive on both branches: every T ≥ 271 K, every S, every P ≥ 0 -/
theorem k_pos (T S P : ℝ) (hT0 : 271 ≤ T) (hP0 : 0 ≤ P) : 0 < SeawaterPy.k T S P := by
  by_cases hc : (T - 0.0682875) / (1.0 - 0.00025) - 273.15 < (30.0:ℝ)
  · exact k_pos_cold T S P hT0 hP0 hc
  · exact k_pos_hot T S P hc

end TamocV.Props.C13
