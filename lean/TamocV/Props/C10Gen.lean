/-
  C10 — scale invariance proved DIRECTLY about the code regenerated from tamoc/dbm_p.py on every run
  (translate/py2ir2.py → TamocV/Gen/EosFullPy.lean), for every root finder, every component count, both
  interaction-coefficient branches (user δ and group contributions), and all (also inconsistent) list lengths:
  multiplying all masses by a common non-zero factor changes none of the outputs of mole_fraction, coefs, z_pr,
  fugacity, density.  A change of dbm_p.py that lets an intensive routine see the masses other than through the
  mole fractions (or the component count) breaks these proofs.
-/
import TamocV.Lemmas.EosRefine
import TamocV.Props.C10
import TamocV.Lemmas.C10Gen

set_option linter.unusedSimpArgs false
set_option linter.unusedVariables false

namespace TamocV.Props.C10
open TamocV.Gen TamocV.Lemmas.EosRefine TamocV.Lemmas.C10Gen TamocV.Model.Eos TamocV.Lemmas.C10 TamocV.Lemmas.Eos

/-- regenerated `mole_fraction`: invariant under a common non-zero factor on the masses -/
theorem gen_mole_fraction_smul (c : ℝ) (hc : c ≠ 0) (m M : List ℝ) :
    EosFullPy.mole_fraction (m.map fun x => c * x) M = EosFullPy.mole_fraction m M := by
  simp only [EosFullPy.mole_fraction, zipWith_div_map_mul, Num.real_sum, sum_map_mul, List.map_map]
  apply List.map_congr_left
  intro x _
  simp only [Function.comp]
  by_cases hs : (List.zipWith (fun x y => x / y) m M).sum = 0
  · rw [hs]; simp
  · field_simp

/-- regenerated `coefs` (both δ branches): invariant under a common non-zero factor on the masses -/
theorem gen_coefs_smul (c : ℝ) (hc : c ≠ 0) (T P : ℝ) (m M Pc Tc w : List ℝ) (δ A B G : List (List ℝ)) (cd : ℝ) :
    EosFullPy.coefs T P (m.map fun x => c * x) M Pc Tc w δ A B G cd = EosFullPy.coefs T P m M Pc Tc w δ A B G cd := by
  simp only [EosFullPy.coefs, gen_mole_fraction_smul c hc, List.length_map]

/-- regenerated `z_pr`, for EVERY root finder -/
theorem gen_z_pr_smul (cr : List ℝ → List ℝ × List ℝ) (c : ℝ) (hc : c ≠ 0) (T P : ℝ) (m M Pc Tc w : List ℝ)
    (δ A B G : List (List ℝ)) (cd : ℝ) :
    EosFullPy.z_pr cr T P (m.map fun x => c * x) M Pc Tc w δ A B G cd = EosFullPy.z_pr cr T P m M Pc Tc w δ A B G cd := by
  simp only [EosFullPy.z_pr, gen_coefs_smul c hc]

/-- regenerated `fugacity`, for EVERY root finder -/
theorem gen_fugacity_smul (cr : List ℝ → List ℝ × List ℝ) (c : ℝ) (hc : c ≠ 0) (T P : ℝ) (m M Pc Tc w : List ℝ)
    (δ A B G : List (List ℝ)) (cd : ℝ) :
    EosFullPy.fugacity cr T P (m.map fun x => c * x) M Pc Tc w δ A B G cd
      = EosFullPy.fugacity cr T P m M Pc Tc w δ A B G cd := by
  simp only [EosFullPy.fugacity, gen_z_pr_smul cr c hc, List.length_map]

/-- regenerated `density` (both volume-translation branches), for EVERY root finder -/
theorem gen_density_smul (cr : List ℝ → List ℝ × List ℝ) (c : ℝ) (hc : c ≠ 0) (T P : ℝ) (m M Pc Tc Vc w : List ℝ)
    (δ A B G : List (List ℝ)) (cd : ℝ) (Cp CpT : List ℝ) :
    EosFullPy.density cr T P (m.map fun x => c * x) M Pc Tc Vc w δ A B G cd Cp CpT
      = EosFullPy.density cr T P m M Pc Tc Vc w δ A B G cd Cp CpT := by
  simp only [EosFullPy.density, gen_z_pr_smul cr c hc, gen_mole_fraction_smul c hc, EosFullPy.volume_trans]

/-- regenerated `mole_fraction`: an appended zero-mass component gets mole fraction 0 and changes no other entry -/
theorem gen_mole_fraction_append_zero (m M : List ℝ) (Mn : ℝ) (h : m.length = M.length) :
    EosFullPy.mole_fraction (m ++ [0]) (M ++ [Mn]) = EosFullPy.mole_fraction m M ++ [0] := by
  simp only [EosFullPy.mole_fraction, Num.real_sum]
  rw [List.zipWith_append h]
  simp

/-- **Relabelling the components, proved about the REGENERATED `coefs`** (user / zero interaction matrix, i.e.
    `calc_delta ≤ 0`; superseded by `gen_coefs_perm` in Props/C10GenGC.lean, which also covers the group-contribution double loop): if every per-component list and the interaction matrix are relabelled by a permutation σ of
    {0..n-1}, A and B are unchanged and Ap, Bp, y are relabelled the same way. -/
theorem gen_coefs_perm_no_gc_partial (σ : Equiv.Perm ℕ) (n : ℕ) (hσ : PermOn n σ) (T P : ℝ) (m M Pc Tc w : List ℝ)
    (δ A B G : List (List ℝ)) (cd : ℝ)
    (hm : m.length = n) (hM : M.length = n) (hPc : Pc.length = n) (hTc : Tc.length = n) (hw : w.length = n)
    (hδ : δ.length = n) (hδr : ∀ r ∈ δ, r.length = n) (hcd : cd ≤ 0) :
    let g' := EosFullPy.coefs T P (permL σ n m) (permL σ n M) (permL σ n Pc) (permL σ n Tc) (permL σ n w) (permM σ n δ) A B G cd
    let g := EosFullPy.coefs T P m M Pc Tc w δ A B G cd
    g'.1 = g.1 ∧ g'.2.1 = g.2.1 ∧ (∀ i, i < n → g'.2.2.1.getD i 0 = g.2.2.1.getD (σ i) 0)
      ∧ (∀ i, i < n → g'.2.2.2.1.getD i 0 = g.2.2.2.1.getD (σ i) 0)
      ∧ (∀ i, i < n → g'.2.2.2.2.getD i 0 = g.2.2.2.2.getD (σ i) 0) := by
  intro g' g
  have r' := TamocV.Props.C01.coefs_refines_no_gc T P (permL σ n m) (permL σ n M) (permL σ n Pc) (permL σ n Tc) (permL σ n w)
    (permM σ n δ) A B G cd n (permL_length σ n m) (permL_length σ n M) (permL_length σ n Pc) (permL_length σ n Tc)
    (permM_length σ n δ) hcd
  have r := TamocV.Props.C01.coefs_refines_no_gc T P m M Pc Tc w δ A B G cd n hm hM hPc hTc hδ hcd
  simp only [ofL_permL σ n hσ m hm, ofL_permL σ n hσ M hM, ofL_permL σ n hσ Pc hPc, ofL_permL σ n hσ Tc hTc,
    ofL_permL σ n hσ w hw, ofM_permM σ n hσ δ hδ hδr] at r'
  rw [coefs_false_groups_irrel n T P _ _ _ _ _ (ofM G) (fun r => ofM G (σ r))] at r'
  have hp := coefs_perm n σ hσ T P (ofL m) (ofL M) (ofL Pc) (ofL Tc) (ofL w) false (ofM G) (ofM A) (ofM B) (ofM δ)
  simp only at hp
  obtain ⟨pA, pB, pAp, pBp, py⟩ := hp
  obtain ⟨a1, b1, c1, d1, e1⟩ := r'
  obtain ⟨a2, b2, c2, d2, e2⟩ := r
  have hs : ∀ i, i < n → σ i < n := fun i hi => (hσ i).mpr hi
  refine ⟨by rw [a1, a2]; exact pA, by rw [b1, b2]; exact pB, ?_, ?_, ?_⟩
  · intro i hi; rw [c1 i hi, c2 (σ i) (hs i hi)]; exact pAp i
  · intro i hi; rw [d1 i hi, d2 (σ i) (hs i hi)]; exact pBp i
  · intro i hi; rw [e1 i hi, e2 (σ i) (hs i hi)]; exact py i


/-! ### non-vacuity -/
example : EosFullPy.mole_fraction (([1, 3] : List ℝ).map fun x => 2 * x) [1, 1] = EosFullPy.mole_fraction [1, 3] [1, 1] :=
  gen_mole_fraction_smul 2 (by norm_num) _ _

end TamocV.Props.C10
