/-
  C10 — scale invariance proved DIRECTLY about the code regenerated from tamoc/dbm_p.py on every run
  (translate/py2ir2.py → TamocV/Gen/EosFullPy.lean), for every root finder, every component count, both
  interaction-coefficient branches (user δ and group contributions), and all (also inconsistent) list lengths:
  multiplying all masses by a common non-zero factor changes none of the outputs of mole_fraction, coefs, z_pr,
  fugacity, density.  A change of dbm_p.py that lets an intensive routine see the masses other than through the
  mole fractions (or the component count) breaks these proofs.
-/
import TamocV.Lemmas.EosRefine
import TamocV.Props.C10

set_option linter.unusedSimpArgs false
set_option linter.unusedVariables false

namespace TamocV.Props.C10
open TamocV.Gen TamocV.Lemmas.EosRefine

/-- regenerated `mole_fraction`: invariant under a common non-zero factor on the masses -/
theorem gen_mole_fraction_smul (c : ℝ) (hc : c ≠ 0) (m M : List ℝ) :
    EosFullPy.mole_fraction (m.map fun x => c * x) M = EosFullPy.mole_fraction m M := by
  simp only [EosFullPy.mole_fraction, zipWith_div_map_mul, Num.real_sum, sum_map_mul, List.map_map]
  apply List.map_congr_left
  intro x _
  simp only [Function.comp]
  by_cases hs : (List.zipWith (fun x y => x / y) m M).sum = 0
  · rw [hs]; simp
  · field_simp

/-- regenerated `coefs` (both δ branches): invariant under a common non-zero factor on the masses -/
theorem gen_coefs_smul (c : ℝ) (hc : c ≠ 0) (T P : ℝ) (m M Pc Tc w : List ℝ) (δ A B G : List (List ℝ)) (cd : ℝ) :
    EosFullPy.coefs T P (m.map fun x => c * x) M Pc Tc w δ A B G cd = EosFullPy.coefs T P m M Pc Tc w δ A B G cd := by
  simp only [EosFullPy.coefs, gen_mole_fraction_smul c hc, List.length_map]

/-- regenerated `z_pr`, for EVERY root finder -/
theorem gen_z_pr_smul (cr : List ℝ → List ℝ × List ℝ) (c : ℝ) (hc : c ≠ 0) (T P : ℝ) (m M Pc Tc w : List ℝ)
    (δ A B G : List (List ℝ)) (cd : ℝ) :
    EosFullPy.z_pr cr T P (m.map fun x => c * x) M Pc Tc w δ A B G cd = EosFullPy.z_pr cr T P m M Pc Tc w δ A B G cd := by
  simp only [EosFullPy.z_pr, gen_coefs_smul c hc]

/-- regenerated `fugacity`, for EVERY root finder -/
theorem gen_fugacity_smul (cr : List ℝ → List ℝ × List ℝ) (c : ℝ) (hc : c ≠ 0) (T P : ℝ) (m M Pc Tc w : List ℝ)
    (δ A B G : List (List ℝ)) (cd : ℝ) :
    EosFullPy.fugacity cr T P (m.map fun x => c * x) M Pc Tc w δ A B G cd
      = EosFullPy.fugacity cr T P m M Pc Tc w δ A B G cd := by
  simp only [EosFullPy.fugacity, gen_z_pr_smul cr c hc, List.length_map]

/-- regenerated `density` (both volume-translation branches), for EVERY root finder -/
theorem gen_density_smul (cr : List ℝ → List ℝ × List ℝ) (c : ℝ) (hc : c ≠ 0) (T P : ℝ) (m M Pc Tc Vc w : List ℝ)
    (δ A B G : List (List ℝ)) (cd : ℝ) (Cp CpT : List ℝ) :
    EosFullPy.density cr T P (m.map fun x => c * x) M Pc Tc Vc w δ A B G cd Cp CpT
      = EosFullPy.density cr T P m M Pc Tc Vc w δ A B G cd Cp CpT := by
  simp only [EosFullPy.density, gen_z_pr_smul cr c hc, gen_mole_fraction_smul c hc, EosFullPy.volume_trans]

/-- regenerated `mole_fraction`: an appended zero-mass component gets mole fraction 0 and changes no other entry -/
theorem gen_mole_fraction_append_zero (m M : List ℝ) (Mn : ℝ) (h : m.length = M.length) :
    EosFullPy.mole_fraction (m ++ [0]) (M ++ [Mn]) = EosFullPy.mole_fraction m M ++ [0] := by
  simp only [EosFullPy.mole_fraction, Num.real_sum]
  rw [List.zipWith_append h]
  simp

/-! ### non-vacuity -/
example : EosFullPy.mole_fraction (([1, 3] : List ℝ).map fun x => 2 * x) [1, 1] = EosFullPy.mole_fraction [1, 3] [1, 1] :=
  gen_mole_fraction_smul 2 (by norm_num) _ _

end TamocV.Props.C10
