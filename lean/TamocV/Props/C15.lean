/-
  C15 — Quantity and unit conversions are exact and mutually inverse.   Property theorems only.

  (a) algebraic round trips of `TamocV.Model.Convert` (transcription of dbm.FluidMixture.masses/moles/
      mass_frac/mol_frac, FluidParticle.masses_by_diameter/diameter, InsolubleParticle.mass_by_diameter/
      diameter) over ℝ, for vectors of ANY length;
  (b) tables `TamocV.Gen.UnitsData`, regenerated from /repo on every run (ambient `convert` dict, chemical
      unit chain, ChemData.csv), against the independent `Model.Convert.Std` tables typed from the
      documentation / standard definitions.
-/
import TamocV.Real
import TamocV.Lemmas.Basic
import TamocV.Lemmas.C15
import TamocV.Model.Convert

set_option linter.unusedTactic false
set_option linter.unreachableTactic false
set_option linter.unusedSimpArgs false
set_option linter.unusedVariables false

namespace TamocV.Props.C15
open TamocV TamocV.Model.Convert TamocV.Gen.UnitsData TamocV.Lemmas.C15

/-! ## (a) moles ↔ masses, mole fractions ↔ mass fractions -/

/-- moles → masses → moles returns the starting vector (any length, positive molecular weights) -/
theorem moles_masses (M n : List ℝ) (hl : n.length = M.length) (hM : ∀ x ∈ M, 0 < x) :
    moles M (masses M n) = n := by
  simp only [moles, masses, Num.vdiv, Num.vmul]
  exact zipWith_div_mul_cancel n M hl (fun x hx => (hM x hx).ne')

/-- masses → moles → masses returns the starting vector -/
theorem masses_moles (M m : List ℝ) (hl : m.length = M.length) (hM : ∀ x ∈ M, 0 < x) :
    masses M (moles M m) = m := by
  simp only [moles, masses, Num.vdiv, Num.vmul]
  exact zipWith_mul_div_cancel m M hl (fun x hx => (hM x hx).ne')

example : ∃ M n : List ℝ, n.length = M.length ∧ (∀ x ∈ M, 0 < x) ∧ n ≠ [] ∧ (∀ x ∈ n, 0 < x) :=
  ⟨[0.016, 0.030, 0.044], [1, 2, 0.5], rfl, by intro x hx; simp at hx; rcases hx with rfl | rfl | rfl <;> norm_num,
   by simp, by intro x hx; simp at hx; rcases hx with rfl | rfl | rfl <;> norm_num⟩

/-- mole fractions (more generally: any positive mole vector y) → mass fractions → mole fractions returns y/Σy -/
theorem molfrac_massfrac_roundtrip (M y : List ℝ) (hl : y.length = M.length) (hne : y ≠ [])
    (hM : ∀ x ∈ M, 0 < x) (hy : ∀ x ∈ y, 0 < x) :
    molFrac M (massFrac M y) = y.map (fun v => v / y.sum) := by
  have hM0 : ∀ x ∈ M, x ≠ 0 := fun x hx => (hM x hx).ne'
  have hS : 0 < (List.zipWith (· * ·) y M).sum :=
    sum_pos_of_pos _ (zipWith_ne_nil hl hne) (zipWith_mul_pos y M hy hM)
  simp only [molFrac, massFrac, masses, Num.vdiv, Num.vmul, Num.real_sum]
  rw [zipWith_div_map_div y M _ hl hM0, sum_map_div, List.map_map]
  apply List.map_congr_left
  intro v _
  simp only [Function.comp]
  exact div_div_div_cancel_right₀ hS.ne' v y.sum

/-- … and returns y itself when y is a vector of fractions -/
theorem molfrac_massfrac_roundtrip_normalised (M y : List ℝ) (hl : y.length = M.length) (hne : y ≠ [])
    (hM : ∀ x ∈ M, 0 < x) (hy : ∀ x ∈ y, 0 < x) (hsum : y.sum = 1) :
    molFrac M (massFrac M y) = y := by
  rw [molfrac_massfrac_roundtrip M y hl hne hM hy, hsum]; simp

/-- mass fractions → mole fractions → mass fractions returns m/Σm -/
theorem massfrac_molfrac_roundtrip (M m : List ℝ) (hl : m.length = M.length) (hne : m ≠ [])
    (hM : ∀ x ∈ M, 0 < x) (hm : ∀ x ∈ m, 0 < x) :
    massFrac M (molFrac M m) = m.map (fun v => v / m.sum) := by
  have hM0 : ∀ x ∈ M, x ≠ 0 := fun x hx => (hM x hx).ne'
  have hN : 0 < (List.zipWith (· / ·) m M).sum :=
    sum_pos_of_pos _ (zipWith_ne_nil hl hne) (zipWith_div_pos m M hm hM)
  simp only [molFrac, massFrac, masses, Num.vdiv, Num.vmul, Num.real_sum]
  rw [zipWith_mul_map_div m M _ hl hM0, sum_map_div, List.map_map]
  apply List.map_congr_left
  intro v _
  simp only [Function.comp]
  exact div_div_div_cancel_right₀ hN.ne' v m.sum

/-! ## (a) diameter ↔ component masses -/

/-! `Intensive ρ` (Lemmas/C15.lean): "the density depends only on composition at the fixed T, P" — scaling every
    component mass by the same c > 0 leaves ρ unchanged.  This is the hypothesis about `FluidParticle.density`. -/

example : Intensive (fun m => m.sum / (m.map (fun x => x / 700)).sum) := by
  intro c m hc
  simp only [List.map_map, sum_map_mul_left]
  have : (m.map ((fun x => x / 700) ∘ fun x => c * x)) = (m.map (fun x => x / 700)).map (fun x => c * x) := by
    simp only [List.map_map]; apply List.map_congr_left; intro a _; simp only [Function.comp]; ring
  rw [this, sum_map_mul_left]
  exact mul_div_mul_left _ _ hc.ne'

/-- (helper, not a clause of the property) the masses returned for a requested diameter are a multiple of the masses of one mole of the mixture -/
theorem massesByDiameter_eq_scale (ρ : List ℝ → ℝ) (M yk : List ℝ) (de : ℝ) :
    massesByDiameter ρ M de yk =
      (masses M yk).map (fun x => (1 / 6 * pi * de ^ 3 * ρ (masses M yk)) / (masses M yk).sum * x) := by
  simp only [massesByDiameter, Num.real_sum, Num.real_npow, Num.real_ofNat, Num.real_one]
  simp only [masses, Num.vmul]
  exact zipWith_mul_map_scale yk M _ _

/-- FluidParticle: diameter → component masses → diameter returns the requested diameter -/
theorem diameter_masses_roundtrip (ρ : List ℝ → ℝ) (hρ : Intensive ρ) (M yk : List ℝ) (de : ℝ)
    (hl : yk.length = M.length) (hne : yk ≠ []) (hM : ∀ x ∈ M, 0 < x) (hy : ∀ x ∈ yk, 0 < x)
    (hde : 0 < de) (hρpos : 0 < ρ (masses M yk)) :
    diameter ρ (massesByDiameter ρ M de yk) = de := by
  have hS : 0 < (masses M yk).sum := by
    simp only [masses, Num.vmul]
    exact sum_pos_of_pos _ (zipWith_ne_nil hl hne) (zipWith_mul_pos yk M hy hM)
  have hpi := pi_pos
  set r := ρ (masses M yk) with hr
  set S := (masses M yk).sum with hSdef
  have hmt : 0 < 1 / 6 * pi * de ^ 3 * r := by positivity
  have hc : 0 < (1 / 6 * pi * de ^ 3 * r) / S := div_pos hmt hS
  rw [massesByDiameter_eq_scale]
  simp only [diameter, Num.real_sum, Num.real_rpow, Num.real_ofNat, Num.real_one]
  rw [hρ _ _ hc, sum_map_mul_left, ← hSdef, ← hr, div_mul_cancel₀ _ hS.ne']
  have h3 : 6 * (1 / 6 * pi * de ^ 3 * r) / (pi * r) = de ^ 3 := by
    field_simp
  rw [h3]
  exact cube_rpow_third hde.le

example : ∃ (ρ : List ℝ → ℝ) (M yk : List ℝ) (de : ℝ), Intensive ρ ∧ yk.length = M.length ∧ yk ≠ [] ∧
    (∀ x ∈ M, 0 < x) ∧ (∀ x ∈ yk, 0 < x) ∧ 0 < de ∧ 0 < ρ (masses M yk) :=
  ⟨fun _ => 150, [0.016, 0.030], [0.8, 0.2], 0.005, fun _ _ _ => rfl, rfl, by simp,
   by intro x hx; simp at hx; rcases hx with rfl | rfl <;> norm_num,
   by intro x hx; simp at hx; rcases hx with rfl | rfl <;> norm_num, by norm_num, by norm_num⟩

/-- (helper, not a clause of the property) mole fractions are invariant under scaling of the masses -/
theorem molFrac_scale (M m : List ℝ) (c : ℝ) (hc : c ≠ 0) :
    molFrac M (m.map (fun x => c * x)) = molFrac M m := by
  simp only [molFrac, Num.vdiv, Num.real_sum]
  rw [zipWith_div_map_scale, sum_map_mul_left, List.map_map]
  apply List.map_congr_left
  intro v _
  simp only [Function.comp]
  exact mul_div_mul_left v _ hc

/-- (helper, not a clause of the property) -/
theorem molFrac_masses (M y : List ℝ) (hl : y.length = M.length) (hM : ∀ x ∈ M, 0 < x) :
    molFrac M (masses M y) = y.map (fun v => v / y.sum) := by
  have h := moles_masses M y hl hM
  simp only [molFrac, Num.real_sum]
  simp only [moles] at h
  rw [h]

/-- the masses produced for a requested diameter have the requested mole fractions (yk/Σyk in general) -/
theorem masses_have_requested_fractions (ρ : List ℝ → ℝ) (M yk : List ℝ) (de : ℝ)
    (hl : yk.length = M.length) (hne : yk ≠ []) (hM : ∀ x ∈ M, 0 < x) (hy : ∀ x ∈ yk, 0 < x)
    (hde : 0 < de) (hρpos : 0 < ρ (masses M yk)) :
    molFrac M (massesByDiameter ρ M de yk) = yk.map (fun v => v / yk.sum) := by
  have hS : 0 < (masses M yk).sum := by
    simp only [masses, Num.vmul]
    exact sum_pos_of_pos _ (zipWith_ne_nil hl hne) (zipWith_mul_pos yk M hy hM)
  have hpi := pi_pos
  have hmt : 0 < 1 / 6 * pi * de ^ 3 * ρ (masses M yk) := by positivity
  rw [massesByDiameter_eq_scale, molFrac_scale _ _ _ (div_pos hmt hS).ne', molFrac_masses M yk hl hM]

/-- … exactly yk when Σyk = 1 -/
theorem masses_have_requested_fractions_normalised (ρ : List ℝ → ℝ) (M yk : List ℝ) (de : ℝ)
    (hl : yk.length = M.length) (hne : yk ≠ []) (hM : ∀ x ∈ M, 0 < x) (hy : ∀ x ∈ yk, 0 < x)
    (hsum : yk.sum = 1) (hde : 0 < de) (hρpos : 0 < ρ (masses M yk)) :
    molFrac M (massesByDiameter ρ M de yk) = yk := by
  rw [masses_have_requested_fractions ρ M yk de hl hne hM hy hde hρpos, hsum]
  simp

/-- FluidParticle: component masses → (diameter, mole fractions) → component masses returns the starting masses -/
theorem masses_diameter_roundtrip (ρ : List ℝ → ℝ) (hρ : Intensive ρ) (M m : List ℝ)
    (hl : m.length = M.length) (hne : m ≠ []) (hM : ∀ x ∈ M, 0 < x) (hm : ∀ x ∈ m, 0 < x)
    (hρpos : 0 < ρ m) :
    massesByDiameter ρ M (diameter ρ m) (molFrac M m) = m := by
  have hM0 : ∀ x ∈ M, x ≠ 0 := fun x hx => (hM x hx).ne'
  have hN : 0 < (List.zipWith (· / ·) m M).sum :=
    sum_pos_of_pos _ (zipWith_ne_nil hl hne) (zipWith_div_pos m M hm hM)
  have hSm : 0 < m.sum := sum_pos_of_pos m hne hm
  have hpi := pi_pos
  set N := (List.zipWith (· / ·) m M).sum with hNdef
  have h1 : masses M (molFrac M m) = m.map (fun x => 1 / N * x) := by
    simp only [masses, molFrac, Num.vmul, Num.vdiv, Num.real_sum]
    rw [zipWith_mul_map_div m M _ hl hM0]
    apply List.map_congr_left
    intro v _
    rw [← hNdef]; ring
  have hρ1 : ρ (masses M (molFrac M m)) = ρ m := by
    rw [h1]; exact hρ _ _ (by positivity)
  have hS1 : (masses M (molFrac M m)).sum = m.sum / N := by
    rw [h1, sum_map_mul_left]; ring
  have hde3 : (diameter ρ m) ^ 3 = 6 * m.sum / (pi * ρ m) := by
    simp only [diameter, Num.real_sum, Num.real_rpow, Num.real_ofNat, Num.real_one]
    exact rpow_third_cube (by positivity)
  rw [massesByDiameter_eq_scale, hρ1, hS1, hde3, h1, List.map_map]
  have hc : ∀ v : ℝ, (1 / 6 * pi * (6 * m.sum / (pi * ρ m)) * ρ m) / (m.sum / N) * (1 / N * v) = v := by
    intro v
    field_simp
  conv_rhs => rw [← List.map_id m]
  apply List.map_congr_left
  intro v _
  simp only [Function.comp, id]
  exact hc v

/-- InsolubleParticle: diameter → mass → diameter -/
theorem insoluble_diameter_mass_roundtrip (ρ de : ℝ) (hρ : 0 < ρ) (hde : 0 < de) :
    diameterInsol ρ (massByDiameter ρ de) = de := by
  have hpi := pi_pos
  simp only [diameterInsol, massByDiameter, Num.real_rpow, Num.real_npow, Num.real_ofNat, Num.real_one]
  have h3 : 6 * (1 / 6 * pi * de ^ 3 * ρ) / (pi * ρ) = de ^ 3 := by field_simp
  rw [h3]
  exact cube_rpow_third hde.le

/-- InsolubleParticle: mass → diameter → mass -/
theorem insoluble_mass_diameter_roundtrip (ρ m : ℝ) (hρ : 0 < ρ) (hm : 0 ≤ m) :
    massByDiameter ρ (diameterInsol ρ m) = m := by
  have hpi := pi_pos
  simp only [diameterInsol, massByDiameter, Num.real_rpow, Num.real_npow, Num.real_ofNat, Num.real_one]
  rw [rpow_third_cube (by positivity)]
  field_simp

example : (0 : ℝ) < 930 ∧ (0 : ℝ) < 1e-5 := by norm_num

/-! ## (b) ambient.convert_units — the regenerated `convert` table -/

/-- every row of the regenerated table has the documented factor (to the accuracy the constant is documented
    to: `tol = 0` means exactly), offset and standard unit of the independent table `Std.ambient` -/
theorem ambient_units_table :
    ∀ r ∈ ambientQ, ∃ s ∈ Std.ambient, s.unit = r.unit ∧ r.out = s.out ∧ r.offset = s.offset ∧
      Std.ratAbs (r.factor - s.factor) ≤ s.tol * s.factor := by
  decide +kernel

/-- no unit string is documented that the code does not recognise -/
theorem ambient_units_table_complete : ∀ s ∈ Std.ambient, ∃ r ∈ ambientQ, r.unit = s.unit := by
  decide +kernel

/-- (helper, not a clause of the property) -/
theorem ambient_keys_nodup : (ambientQ.map (·.unit)).Nodup := by
  decide +kernel

/-- (helper, not a clause of the property) the table the driver executes (generic literals, here at ℝ) is the cast of the exact table -/
theorem ambient_real_eq_cast : ambient (α := ℝ) = ambientQ.map castRow := by
  simp only [ambient, ambientQ, castRow, List.map_cons, List.map_nil, Num.real_ofSci, Num.real_ofNat, Num.real_one,
    Num.real_zero]
  norm_num [mkRat]

/-- for every recognised unit string, `convert_units` applies  value · factor + offset  of that row to every value
    and reports that row's standard unit -/
theorem ambient_convert_documented :
    ∀ r ∈ ambientQ, ∀ x : ℝ, convCol (ambient (α := ℝ)) r.unit x = x * (r.factor : ℝ) + (r.offset : ℝ) ∧
      outUnit (ambient (α := ℝ)) r.unit = r.out := by
  intro r hr x
  have h := lookupQ_of_mem ambient_keys_nodup hr
  simp only [convCol, outUnit, ambient_real_eq_cast, lookup_map_cast, h, Option.map_some, castRow, and_self]

/-- rows whose standard unit is the unit itself are the identity … -/
theorem standard_units_identity_table :
    ∀ r ∈ ambientQ, ∀ r' ∈ ambientQ, r'.unit = r.out → r'.factor = 1 ∧ r'.offset = 0 := by
  decide +kernel

/-- … hence values already in a standard unit of the table are returned unchanged (whether the standard unit is
    itself a key — factor 1, offset 0 — or not a key, like `kg/m^2/s`, where the code leaves the data alone) -/
theorem standard_units_unchanged :
    ∀ r ∈ ambientQ, ∀ x : ℝ, convCol (ambient (α := ℝ)) r.out x = x := by
  intro r hr x
  simp only [convCol, ambient_real_eq_cast, lookup_map_cast]
  cases h : lookupQ ambientQ r.out with
  | none => rfl
  | some r' =>
    obtain ⟨hm, hu⟩ := lookupQ_some_mem h
    obtain ⟨h1, h0⟩ := standard_units_identity_table r hr r' hm hu
    simp [castRow, h1, h0]

/-- every standard unit but `kg/m^2/s` is itself a recognised key (so its label is returned unchanged too) -/
theorem standard_units_are_keys_partial :
    ∀ r ∈ ambientQ, r.out ≠ "kg/m^2/s" → ∃ r' ∈ ambientQ, r'.unit = r.out ∧ r'.out = r.out := by
  decide +kernel

/-- `kg/m^2/s`, the standard unit of `kg/m^2/year`, is NOT a key of the table: such a column takes the
    `except KeyError` path (values unchanged, message printed, unit label mangled by `out_units += units[i]`) -/
theorem standard_unit_kg_m2_s_not_a_key :
    (∃ r ∈ ambientQ, r.out = "kg/m^2/s") ∧ ∀ r ∈ ambientQ, r.unit ≠ "kg/m^2/s" := by
  decide +kernel

/-! ### shape rule of `convert_units`: scalar / row / column / 2-D are converted element-wise -/

section shape
variable (tab : List (UnitRow ℝ))

theorem convert_shape_scalar (u : String) (x : ℝ) : convertUnits tab [[x]] [u] = [convCol tab u x] := by
  simp [convertUnits]

/-- a row with one unit per element -/
theorem convert_shape_row (units : List String) (row : List ℝ) (h : row.length = units.length)
    (h1 : units.length ≠ 1) : convertUnits tab [row] units = List.zipWith (convCol tab) units row := by
  simp only [convertUnits, h1, false_and, if_false, List.map_cons, List.map_nil, List.flatten_cons, List.flatten_nil,
    List.append_nil]
  exact range_map_eq_zipWith (convCol tab) units row _ _ h

/-- a row (1-D array) whose elements all carry the same single unit -/
theorem convert_shape_row_single_unit (u : String) (row : List ℝ) :
    convertUnits tab [row] [u] = row.map (convCol tab u) := by
  by_cases hlen : 1 < row.length
  · simp only [convertUnits, List.length_singleton, List.headD_cons, hlen, and_self, if_true, transpose,
      List.map_cons, List.map_nil, List.map_map]
    rw [← range_map_getD (convCol tab u) row (@OfNat.ofNat ℝ 0 (Num.instOfNat 0))]
    induction (List.range row.length) with
    | nil => simp
    | cons a l ih => simpa using ih
  · have : row = [] ∨ ∃ x, row = [x] := by
      match row, hlen with
      | [], _ => exact Or.inl rfl
      | [x], _ => exact Or.inr ⟨x, rfl⟩
      | _ :: _ :: _, h => simp at h
    rcases this with rfl | ⟨x, rfl⟩
    · simp [convertUnits]
    · simp [convertUnits]

/-- a column (n × 1) with one unit -/
theorem convert_shape_column (u : String) (col : List ℝ) :
    convertUnits tab (col.map (fun x => [x])) [u] = col.map (convCol tab u) := by
  have hh : ¬ (1 < ((col.map (fun x => [x])).headD []).length) := by
    cases col <;> simp
  simp only [convertUnits, hh, and_false, if_false, List.map_map]
  clear hh
  induction col with
  | nil => simp
  | cons a l ih => simpa using ih

/-- a 2-D array with one unit per column -/
theorem convert_shape_2d (units : List String) (rows : List (List ℝ)) (h : ∀ r ∈ rows, r.length = units.length)
    (h1 : units.length ≠ 1) :
    convertUnits tab rows units = (rows.map (fun r => List.zipWith (convCol tab) units r)).flatten := by
  simp only [convertUnits, h1, false_and, if_false]
  congr 1
  apply List.map_congr_left
  intro r hr
  exact range_map_eq_zipWith (convCol tab) units r _ _ (h r hr)

end shape

/-! ### what `convert_units` gets WRONG (negations, reproduced on the real code by harness/c15.py; known findings) -/

/-- a 2-D array whose values all carry ONE unit string is NOT converted element-wise: the array is transposed, only
    column 0 of the transpose (= row 0 of the data) is converted and everything else is returned as 0.
    Witness: `convert_units([[10,20],[30,40]], 'deg C')` = [[283.15, 0], [293.15, 0]] instead of
    [[283.15, 293.15], [303.15, 313.15]]. -/
theorem convert_shape_2d_one_unit_false :
    convertUnits (ambient (α := ℝ)) [[10, 20], [30, 40]] ["deg C"] = [283.15, 0, 293.15, 0] ∧
    [[(10 : ℝ), 20], [30, 40]].flatten.map (convCol (ambient (α := ℝ)) "deg C") = [283.15, 293.15, 303.15, 313.15] := by
  have hr : ∃ r ∈ ambientQ, r.unit = "deg C" ∧ r.factor = 1 ∧ r.offset = 273.15 := by decide +kernel
  obtain ⟨r, hr, hu, hf, ho⟩ := hr
  have h : ∀ x : ℝ, convCol (ambient (α := ℝ)) "deg C" x = x + 273.15 := by
    intro x
    have := (ambient_convert_documented r hr x).1
    rw [hu, hf, ho] at this
    rw [this]; push_cast; ring
  constructor
  · simp [convertUnits, transpose, h, List.range_succ]
    norm_num
  · simp [h]
    norm_num

/-- the label of a unit string the table does not know — in particular its own standard unit `kg/m^2/s` — comes
    back split into characters -/
theorem convert_units_label_split :
    outUnits (ambient (α := ℝ)) ["kg/m^2/s"] = ["k", "g", "/", "m", "^", "2", "/", "s"] := by
  have hn : lookupQ ambientQ "kg/m^2/s" = none := by decide +kernel
  simp only [outUnits, ambient_real_eq_cast, lookup_map_cast, hn, Option.map_none, List.flatMap_cons, List.flatMap_nil,
    List.append_nil]
  decide

/-- for every recognised unit string the returned label is the documented standard unit -/
theorem convert_units_labels_documented :
    ∀ r ∈ ambientQ, outUnits (ambient (α := ℝ)) [r.unit] = [r.out] := by
  intro r hr
  have h := lookupQ_of_mem ambient_keys_nodup hr
  simp [outUnits, ambient_real_eq_cast, lookup_map_cast, h, castRow]

/-! ## (b) chemical_properties.convert_units — the regenerated chain of unit blocks -/

/-- the affine reduction `chemRulesQ` computed by the generator IS the expression of each `if` block
    (transcribed operation by operation in `chemRules`), for all real x and M -/
theorem chem_rules_affine : List.Forall₂ RuleRel (chemRules (α := ℝ)) chemRulesQ := by
  simp only [chemRules, chemRulesQ, RuleRel, applyQ, List.forall₂_cons, List.Forall₂.nil, and_true, true_and]
  and_intros
  all_goals first
    | rfl
    | (intro x M
       simp only [Num.real_ofSci, Num.real_ofNat, Num.real_one, Num.real_zero, Num.real_npow, Rat.mkRat_eq_div,
         if_true, if_false, Bool.false_eq_true]
       push_cast
       first | ring | (norm_num; ring) | (norm_num; done))

/-- (helper, not a clause of the property) for each recognised unit string exactly one block of the chain fires (substring tests do not overlap) -/
theorem chem_single_rule_fires :
    ∀ q ∈ chemRulesQ, chemRulesQ.filter (fun q' => ruleMatches q'.pat q'.hasAlt q'.alt q.pat) = [q] ∧
      (q.hasAlt = true → chemRulesQ.filter (fun q' => ruleMatches q'.pat q'.hasAlt q'.alt q.alt) = [q]) := by
  decide +kernel

/-- what `chemical_properties.convert_units` does to a value whose unit string is a recognised pattern -/
theorem chem_convert_documented :
    ∀ q ∈ chemRulesQ, ∀ x M : ℝ,
      chemConvert (chemRules (α := ℝ)) q.pat x M =
        (if q.usesM then (q.a : ℝ) * x * M + (q.b : ℝ) else (q.a : ℝ) * x + (q.b : ℝ)) ∧
      chemOutUnit (chemRules (α := ℝ)) q.pat = q.out := by
  intro q hq x M
  have h := (chem_single_rule_fires q hq).1
  rw [chemConvert_eq_fold chem_rules_affine, chemOutUnit_eq_fold chem_rules_affine, h]
  simp [applyQ]

/-- FULL statement (`ChemChainDocumented`, Lemmas/C15.lean): each block's pattern, alternative spelling, factor, offset,
    M-dependence and new unit is the documented one of `Std.chem` (exactly, or to the accuracy of the rounded constant).
    True since the repair of the `(L/mol/deg F)` block (fix 543e1ec in /repo: `/ (5./9.)`); before it only
    `chem_units_chain_partial` held; `chem_units_chain_LmolF_witness` is the negation for the old block. -/
theorem chem_units_chain : ChemChainDocumented := by
  decide +kernel

/-- the same for every block except `(L/mol/deg F)` (kept: it is what remains provable if that block regresses) -/
theorem chem_units_chain_partial :
    ∀ q ∈ chemRulesQ, q.pat ≠ "(L/mol/deg F)" → RuleDocumented q := by
  decide +kernel

/-- the defect this check found in the original source (non-vacuous: about the literal old block): multiplying a quantity
    per °F by 1e-3·(5/9) = 1/1800 is NOT the documented conversion — a quantity per °F is 9/5 of the quantity per °C (as the
    sibling blocks `(ft^3/lb-mol/deg F)`, `(BTU/lb-mol/deg F)` have it), documented factor 9/5000, 3.24 times larger -/
theorem chem_units_chain_LmolF_witness :
    ¬ RuleDocumented oldLmolFRule ∧ RuleDocumented { oldLmolFRule with a := 9 / 5000 } := by
  decide +kernel

theorem chem_units_table_complete : ∀ s ∈ Std.chem, ∃ q ∈ chemRulesQ, q.pat = s.pat := by
  decide +kernel

/-! ## (b) the distributed database -/


/-- every compound of ChemData.csv has a complete row, and after conversion to SI by the regenerated chain its
    molecular weight, critical pressure, critical temperature and critical volume are positive -/
theorem database_positive :
    ∀ c ∈ chemRows, c.2.length = chemKeys.length ∧
      (let r := chemConvertRowQ chemRulesQ chemKeys chemUnits c.2
       0 < colQ chemKeys "M" r ∧ 0 < colQ chemKeys "Pc" r ∧ 0 < colQ chemKeys "Tc" r ∧ 0 < colQ chemKeys "Vc" r) := by
  decide +kernel

/-- the four columns exist, the three files list the same compounds in the same order, rows are complete -/
theorem database_complete :
    (∀ k ∈ ["M", "Pc", "Tc", "Vc"], k ∈ chemKeys) ∧ chemKeys.length = chemUnits.length ∧
    chemRows.map (·.1) = bioRows.map (·.1) ∧ chemRows.map (·.1) = pjRows.map (·.1) ∧
    (chemRows.map (·.1)).Nodup ∧ chemRows ≠ [] ∧
    (∀ c ∈ bioRows, c.2.length = bioKeys.length) ∧ (∀ c ∈ pjRows, c.2.length = pjKeys.length) := by
  decide +kernel

end TamocV.Props.C15
