/-
  C19 — Queries are pure and configuration history does not leak.
  Property theorems only.

  (a) purity, the three aliasing sites of the property's anchors
      * `dbm_p.coefs` `delta = delta_in` (Model.Purity19.coefsDelta, explicit store = the caller's
        matrix, i.e. `FluidMixture.delta`): frame theorem for `calc_delta ≤ 0`, REFUTATION of the
        frame property for `calc_delta > 0` (the code as written overwrites the object's matrix),
        what exactly is overwritten, and repeat-call equality of every query after any history;
      * `ambient.BaseProfile.get_values` (Model.Purity19.getValues, as repaired: clamps a copy):
        frame theorem; the pre-repair in-place clamp is refuted for contrast;
      * `FluidParticle.K` (Model.Particle09, cache threaded explicitly): every query's answer is
        independent of the cache contents / of the history under `Stable` (single-phase particle,
        or flash result independent of the warm start); refuted without that hypothesis.
  Both models carry the CODE VARIANT of their defect site (`aliased` for `coefs`, `revisit` for
  `update_num_oil_elements`): the statements are REFUTED for the code as first read and PROVED at full
  strength for the repaired text; the harness determines which variant the tree under test is.
  (b) `blowout.Blowout` (Model.Blowout): `refresh (foldl apply (construct p) ops) =
      construct (final p ops)` under the hypothesis that the update sequence does not change the
      constructor-only flow-rate convention `q_type`; REFUTED without it.
-/
import TamocV.Real
import TamocV.Lemmas.Basic
import TamocV.Lemmas.C09
import TamocV.Lemmas.C19
import TamocV.Model.Particle09
import TamocV.Model.Blowout
import Mathlib.Tactic.NormNum

namespace TamocV.Props.C19
open TamocV.Lemmas.C19

-- ====================================================================== (a) coefs / FluidMixture.delta
section Coefs
open TamocV.Model.Purity19
variable {α β : Type}

/-- frame theorem (partial: `calc_delta ≤ 0` only): without group contributions a query leaves the
    caller's interaction matrix untouched -/
theorem query_frame_partial (eos : Mat α → β) (aliased : Bool) (gc : Nat → Nat → α) (nc : Nat) (store : Mat α) :
    (query eos aliased false gc nc store).2 = store := rfl

/-- **frame theorem, FULL statement — for the repaired code** (`coefs` works on a copy): no query,
    with or without group contributions, alters the caller's interaction matrix -/
theorem query_frame (eos : Mat α → β) (calcDelta : Bool) (gc : Nat → Nat → α) (nc : Nat) (store : Mat α) :
    (query eos false calcDelta gc nc store).2 = store := by
  cases calcDelta <;> rfl

/-- what a query with `calc_delta > 0` does to the caller's matrix: every off-diagonal entry
    (both indices < nc) is REPLACED by the group-contribution value of the query's temperature;
    diagonal entries and entries outside the nc × nc block are kept -/
theorem query_store_after (eos : Mat α → β) (gc : Nat → Nat → α) (nc : Nat) (store : Mat α) (a b : Nat) :
    (query eos true true gc nc store).2 a b =
      if a < b ∧ b < nc then gc a b else if b < a ∧ a < nc then gc b a else store a b := by
  simp only [query, coefsDelta, if_true]
  exact writeAll_apply gc nc store a b

/-- **the frame property is FALSE for the code as written** (`aliased = true`; negation witness: two components,
    zero matrix, group-contribution value 1/100 for the pair): after one query the object's matrix
    holds 1/100 off the diagonal.  Maps to `FluidMixture(..., delta_groups=...)`: `delta` changes
    from zeros to the group-contribution values after one `density()` call. -/
theorem not_query_frame :
    ¬ ∀ (eos : Mat ℝ → ℝ) (calcDelta : Bool) (gc : Nat → Nat → ℝ) (nc : Nat) (store : Mat ℝ),
        (query eos true calcDelta gc nc store).2 = store := by
  intro h
  have := congrFun (congrFun (h (fun _ => 0) true (fun _ _ => 1 / 100) 2 (fun _ _ => 0)) 0) 1
  rw [query_store_after] at this
  norm_num at this

/-- the matrix the mixing rule USES does not depend on what earlier queries left in the store:
    with group contributions it is determined by the diagonal / outer part of the ORIGINAL matrix
    and the present temperature; without, the store never changes -/
theorem store_after_history (aliased calcDelta : Bool) (nc : Nat) (store : Mat α)
    (qs : List ((Nat → Nat → α) × (Mat α → β))) :
    (runQueries aliased calcDelta nc store qs).2 = store ∨
      ∃ g, calcDelta = true ∧ (runQueries aliased calcDelta nc store qs).2 = writeAll g nc store := by
  induction qs generalizing store with
  | nil => exact Or.inl rfl
  | cons q qs ih =>
    cases calcDelta with
    | false =>
      left
      have := ih store
      simp only [runQueries, query, coefsDelta] at *
      rcases this with h | ⟨_, h, _⟩
      · exact h
      · exact absurd h (by simp)
    | true =>
      cases aliased with
      | false =>
        left
        simp only [runQueries, query, coefsDelta, if_true, Bool.false_eq_true, if_false]
        rcases ih store with h | ⟨g, _, h⟩
        · exact h
        · -- the repaired code never changes the store: the second alternative collapses
          have hst : ∀ (st : Mat α) (l : List ((Nat → Nat → α) × (Mat α → β))),
              (runQueries false true nc st l).2 = st := by
            intro st l
            induction l generalizing st with
            | nil => rfl
            | cons a l ihl =>
              simp only [runQueries, query, coefsDelta, if_true, Bool.false_eq_true, if_false]
              exact ihl st
          exact hst store qs
      | true =>
        right
        simp only [runQueries, query, coefsDelta, if_true]
        rcases ih (writeAll q.1 nc store) with h | ⟨g, _, h⟩
        · exact ⟨q.1, by simp, h⟩
        · exact ⟨g, by simp, by rw [h, writeAll_absorb]⟩

/-- **repeat-call equality for mixture queries** (either code variant): the answer of a query asked
    after ANY history of queries on the same object equals its answer on the fresh object -/
theorem query_answer_indep_of_history (aliased calcDelta : Bool) (nc : Nat) (store : Mat α)
    (qs : List ((Nat → Nat → α) × (Mat α → β))) (gc : Nat → Nat → α) (eos : Mat α → β) :
    (query eos aliased calcDelta gc nc (runQueries aliased calcDelta nc store qs).2).1 =
      (query eos aliased calcDelta gc nc store).1 := by
  rcases store_after_history aliased calcDelta nc store qs with h | ⟨g, hc, h⟩
  · rw [h]
  · subst hc
    rw [h]
    simp only [query, coefsDelta, if_true]
    rw [writeAll_absorb]

end Coefs

-- ====================================================================== (a) get_values
section GetValues
open TamocV.Model.Purity19

/-- frame theorem: `get_values` (as repaired) does not alter the caller's depth array -/
theorem get_values_frame {α : Type} [Num α] (zmin zmax : α) (z : List α) :
    (getValues zmin zmax z).2 = z := rfl

/-- … and asking again returns the same interpolation depths -/
theorem get_values_repeat {α : Type} [Num α] (zmin zmax : α) (z : List α) :
    (getValues zmin zmax (getValues zmin zmax z).2).1 = (getValues zmin zmax z).1 := rfl

/-- the pre-repair behaviour (clamp in place) violated the frame property: the caller's
    `[-5, 100, 5000]` became `[0, 100, 3950]` for a profile spanning 0 – 3950 m.  Kept as the
    witness of the repaired defect; the harness confirms on the real code that it is gone. -/
theorem get_values_in_place_not_frame :
    (getValuesInPlace (0 : ℝ) 3950 [-5, 100, 5000]).2 = [0, 100, 3950] ∧
    (getValuesInPlace (0 : ℝ) 3950 [-5, 100, 5000]).2 ≠ [-5, 100, 5000] := by
  have h : (getValuesInPlace (0 : ℝ) 3950 [-5, 100, 5000]).2 = [0, 100, 3950] := by
    simp only [getValuesInPlace, clamp, List.map]
    norm_num
  exact ⟨h, by rw [h]; norm_num⟩

end GetValues

-- ====================================================================== (a) FluidParticle.K
section Cache
open TamocV.Model.Particle09 TamocV.Lemmas.C09
variable {α : Type} [Num α]

/-- **the answer of every particle query is independent of the cache contents**: whatever
    `FluidParticle.K` holds when the query is issued, the answer is the one a fresh object gives —
    for gas / liquid particles unconditionally, for mixed-phase particles if the flash result does
    not depend on its warm start (numerically: to flash tolerance) -/
theorem answer_indep_of_cache (lib : Lib Id α) (par : FluidPar α) (K : KSt α) (q : Query α)
    (h : StableQ lib par q) : (answer lib par K q).1 = (answer lib par none q).1 := by
  cases q with
  | density m T P =>
    have h' : Stable lib par m T P := h
    simp only [answer, bind, pure]; rw [density_fst h', density_fst h']
  | fugacity m T P =>
    have h' : Stable lib par m T P := h
    simp only [answer, bind, pure]; rw [fugacity_fst h', fugacity_fst h']
  | viscosity m T P =>
    have h' : Stable lib par m T P := h
    simp only [answer, bind, pure]; rw [viscosity_fst h', viscosity_fst h']
  | interfaceTension m T S P =>
    have h' : Stable lib par m T P := h
    simp only [answer, bind, pure]; rw [sigma_fst h', sigma_fst h']
  | solubility m T P Sa =>
    have h' : Stable lib par m T P := h
    simp only [answer, bind, pure]; rw [solubility_fst h', solubility_fst h']
  | diameter m T P =>
    have h' : Stable lib par m T P := h
    simp only [answer, bind, pure]; rw [diameter_fst h', diameter_fst h']
  | particleShape m T P Sa Ta =>
    have h' : Stable lib par m T P := h
    simp only [answer, bind, pure]; rw [shape_fst h', shape_fst h']
  | slipVelocity m T P Sa Ta c =>
    have h' : Stable lib par m T P := h
    simp only [answer, bind, pure]; rw [slip_fst h', slip_fst h']
  | surfaceArea m T P Sa Ta =>
    have h' : Stable lib par m T P := h
    simp only [answer, bind, pure]; rw [area_fst h', area_fst h']
  | massTransfer m T P Sa Ta c =>
    have h' : Stable lib par m T P := h
    simp only [answer, bind, pure]; rw [massTransfer_fst h', massTransfer_fst h']
  | heatTransfer m T P Sa Ta c =>
    have h' : Stable lib par m T P := h
    simp only [answer, bind, pure]; rw [heatTransfer_fst h', heatTransfer_fst h']
  | returnAll x =>
    obtain ⟨m, T, P, Sa, Ta, clean⟩ := x
    have h' : Stable lib par m T P := h
    simp only [answer, bind, pure]
    have hk : ∀ K : KSt α, (phaseProps lib par K m T Sa P).1 = phaseV lib par m T Sa P := fun K => phase_fst h' K Sa
    unfold returnAll
    simp only [bind, pure, apply_ite Prod.fst, hk]

/-- **repeat-call equality over histories**: asked again after any sequence of other queries
    (other states, other compositions) on the same object, a query gives the same answer -/
theorem answer_indep_of_history (lib : Lib Id α) (par : FluidPar α) (K : KSt α) (qs : List (Query α))
    (q : Query α) (h : StableQ lib par q) :
    (answer lib par (cacheAfter lib par K qs) q).1 = (answer lib par none q).1 :=
  answer_indep_of_cache lib par _ q h

/-- without the stability hypothesis the statement is false: a library whose flash follows its
    warm start (gas-only from a cold start, liquid-only from any warm start) makes `density`
    answer 1 the first time and 2 the second time -/
theorem cache_leaks_without_stability :
    ∃ (lib : Lib Id ℝ) (par : FluidPar ℝ) (m : List ℝ) (T P : ℝ),
      (density lib par none m T P).1 ≠ (density lib par (density lib par none m T P).2 m T P).1 := by
  let L : Lib Id ℝ := { constLib with flash := fun _ _ _ K => match K with
              | none => (([1] : List ℝ), ([0] : List ℝ), (some [1] : KSt ℝ))
              | some _ => (([0] : List ℝ), ([1] : List ℝ), (some [1] : KSt ℝ)) }
  have hfp : ¬ (mixedPar.fpType < 2) := by simp [mixedPar]
  have hcode : mixedPar.code = Code.asWritten := rfl
  have h1 : density L mixedPar none [1] 300 1 = ((1 : ℝ), (some [1] : KSt ℝ)) := by
    simp only [density, densityOfFlash, bind, pure, hfp, if_false, L, constLib, sum1, not_isZero_one,
      hcode, indiv_branch_0, if_true]
  have h2 : density L mixedPar (some [1]) [1] 300 1 = ((2 : ℝ), (some [1] : KSt ℝ)) := by
    simp only [density, densityOfFlash, bind, pure, hfp, if_false, L, constLib, sum0]
    rw [if_pos isZero_zero]
  refine ⟨L, mixedPar, [1], 300, 1, ?_⟩
  rw [h1]
  simp only
  rw [h2]
  norm_num

end Cache

-- ====================================================================== (b) Blowout
section Blowout
open TamocV.Model.Blowout
variable {α O R : Type}

/-- **C19 (b), partial — code as written** (`apply false`): for every library, every parameter set
    and EVERY sequence of update calls (all 13 methods, any length), the object refreshed the way
    `simulate()` does equals the object constructed directly with the final parameters — PROVIDED the
    sequence leaves the constructor-only flow-rate convention unchanged (`num_oil_elements` is
    positive before iff it is positive after).  Missing for the full statement: exactly that
    proviso, see `not_blowout_refines_fresh`. -/
theorem blowout_refines_fresh_partial (lib : Lib α O R) (p : Params α) (ops : List (Op α))
    (hq : qTypeOf (final p ops) = qTypeOf p) :
    refresh lib (ops.foldl (apply false) (construct lib p)) = construct lib (final p ops) := by
  cases ops with
  | nil => simp [refresh, construct, doUpdate, final]
  | cons op ops =>
    have hu := foldl_update_false false (construct lib p) (op :: ops) (Or.inl (by simp))
    have hp := foldl_p false (construct lib p) (op :: ops)
    have hqt := foldl_qType (construct lib p) (op :: ops)
    have hok := foldl_oilOK false lib _ (op :: ops) (construct_oilOK lib p)
    generalize (List.foldl (apply false) (construct lib p) (op :: ops)) = s at *
    have hp' : s.p = final p (op :: ops) := by rw [hp]; rfl
    have hqt' : s.qType = qTypeOf p := by rw [hqt]; rfl
    unfold refresh
    rw [if_neg (by simp [hu])]
    unfold OilOK at hok
    unfold construct doUpdate
    rcases hok with hn | ho
    · simp [hn, hp', hqt', hq]
    · cases hn : s.newOil
      · simp [ho, hp', hqt', hq]
      · simp [hp', hqt', hq]

/-- **C19 (b), FULL statement — for the repaired code** (`apply true`: `update_num_oil_elements`
    re-evaluates `q_type` and sets `new_oil` when it changes): for every library, every parameter
    set and every sequence of update calls, the refreshed object IS the object constructed with the
    final parameters. -/
theorem blowout_refines_fresh (lib : Lib α O R) (p : Params α) (ops : List (Op α)) :
    refresh lib (ops.foldl (apply true) (construct lib p)) = construct lib (final p ops) := by
  cases ops with
  | nil => simp [refresh, construct, doUpdate, final]
  | cons op ops =>
    have hu := foldl_update_false true (construct lib p) (op :: ops) (Or.inl (by simp))
    have hp := foldl_p true (construct lib p) (op :: ops)
    have hqt := foldl_qType_revisit (construct lib p) (op :: ops) rfl
    have hok := foldl_oilOK true lib _ (op :: ops) (construct_oilOK lib p)
    generalize (List.foldl (apply true) (construct lib p) (op :: ops)) = s at *
    have hp' : s.p = final p (op :: ops) := by rw [hp]; rfl
    have hqt' : s.qType = qTypeOf (final p (op :: ops)) := by rw [hqt, hp']
    unfold refresh
    rw [if_neg (by simp [hu])]
    unfold OilOK at hok
    unfold construct doUpdate
    rcases hok with hn | ho
    · simp [hn, hp', hqt']
    · cases hn : s.newOil
      · simp [ho, hp', hqt']
      · simp [hp', hqt']

/-- the flags after a refresh are those of a fresh object -/
theorem refresh_flags (lib : Lib α O R) (s : State α O R) (h : s.update = true → s.newOil = false) :
    (refresh lib s).update = true ∧ (refresh lib s).newOil = false := by
  unfold refresh
  split
  · rename_i hu; exact ⟨hu, h hu⟩
  · exact ⟨rfl, rfl⟩

/-- code as written: `q_type` is chosen once, no update sequence changes it -/
theorem qType_constructor_only (lib : Lib α O R) (p : Params α) (ops : List (Op α)) :
    (refresh lib (ops.foldl (apply false) (construct lib p))).qType = qTypeOf p := by
  have h1 := foldl_qType (construct lib p) ops
  unfold refresh
  split
  · rw [h1]; rfl
  · show (List.foldl (apply false) (construct lib p) ops).qType = _
    rw [h1]; rfl

/-- **C19 (b) is FALSE of the code as written** (`apply false`; negation witness: one call
    `update_num_oil_elements(0)`): the refreshed object keeps `q_type = 1` and the oil / mass
    fluxes computed for the OIL flow rate, the fresh object has `q_type = 0` and the mass fluxes
    for the GAS flow rate -/
theorem not_blowout_refines_fresh :
    ¬ ∀ (lib : Lib ℝ Nat Nat) (p : Params ℝ) (ops : List (Op ℝ)),
        refresh lib (ops.foldl (apply false) (construct lib p)) = construct lib (final p ops) := by
  intro h
  have := congrArg State.oil (h witnessLib witnessParams [Op.numOilElements 0])
  simp [refresh, construct, doUpdate, apply, final, Op.onParams, Op.setsNewOil, Op.isNumOil, witnessLib,
    witnessParams, qTypeOf] at this

/-- the hypothesis of the partial theorem is satisfiable by a non-trivial history that switches
    the gas bins to zero and back, changes the flow rate, the substance and the depth -/
example : qTypeOf (final witnessParams
      [Op.numGasElements 0, Op.qOil 15000, Op.numGasElements 5, Op.substance 1, Op.releaseDepth 500,
       Op.numOilElements 7]) = qTypeOf witnessParams := by
  simp [final, Op.onParams, witnessParams, qTypeOf]

end Blowout

end TamocV.Props.C19

#print axioms TamocV.Props.C19.query_frame
#print axioms TamocV.Props.C19.not_query_frame
#print axioms TamocV.Props.C19.query_answer_indep_of_history
#print axioms TamocV.Props.C19.get_values_frame
#print axioms TamocV.Props.C19.answer_indep_of_history
#print axioms TamocV.Props.C19.blowout_refines_fresh
#print axioms TamocV.Props.C19.not_blowout_refines_fresh
