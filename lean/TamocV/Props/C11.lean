/-
  C11 — Release set-up reproduces the prescribed fluxes and sizes.
  Property theorems only (over ℝ; any number of compounds, any number of size bins), about the
  executable model `TamocV.Model.Release` (hand transcription of
  dispersed_phases.initial_conditions, blowout.particles, the phase hand-off of Blowout._update,
  stratified_plume_model.particle_from_Q / particle_from_mb0, the particle part of
  lmp.bent_plume_ic and dispersed_phases.particles_state_space; tied to /repo by oracle-table
  correspondence, harness/c11.py).

  The library answers (`o : Oracle ℝ`: density functions, masses_by_diameter; `amb`: ambient values)
  are universally quantified.  What a statement needs of the library is an EXPLICIT, NAMED HYPOTHESIS
  (these are hypotheses, not lemmas, unless said otherwise):
    * `ScaleInvariant ρ`  — ρ(c·m, T, P) = ρ(m, T, P) for c > 0.  HYPOTHESIS for an arbitrary oracle;
      PROVED (`eos_density_scaleInvariant`, from `Props.C10.gen_density_smul`) for the density that is
      regenerated from tamoc/dbm_p.py on every run, for every cubic root finder — so the `…_eos`
      corollaries below carry no scale-invariance hypothesis.
    * `DiameterRoundTrip o M`, `DiameterRoundTripI o`, `CompositionRoundTrip o M` — the library's
      masses_by_diameter round trips, GUARDED (|yk| = |M|, Σ yk = 1, yk ≥ 0, density positive at the
      one state involved).  HYPOTHESES for an arbitrary oracle; PROVED (`roundTrips_hold`) for the
      transcribed `masses_by_diameter` / `mass_by_diameter` from `ScaleInvariant` and positive molar
      masses, so the per-particle theorems are not vacuous (`…_transcribed` corollaries).
    * `PhaseConsistent M m xi` — the flash hands over phase masses m = n·(xi ⊙ M) for its own mole
      fractions (HYPOTHESIS; sampled on every real flash output by the harness).
    * conservation of the flash, m_gas + m_liq = mass_flux compound by compound (HYPOTHESIS; it is
      property C02, NOT imported as a lemma here; sampled by the harness).
  and the in-domain guards (positive densities and diameters, positive molar masses).  Fluxes and
  volume fractions may be zero (an empty size bin carries nothing: `bins_total` needs no positivity of vf).

  Theorems marked (definitional) restate what the model computes; they pin the packing / conventions
  and carry no algebraic content.
-/
import TamocV.Real
import TamocV.Lemmas.Basic
import TamocV.Lemmas.C11
import TamocV.Model.Release
import TamocV.Props.C10Gen
import Mathlib.Tactic.Ring
import Mathlib.Tactic.NormNum
import Mathlib.Tactic.FieldSimp
import Mathlib.Tactic.Linarith
import Mathlib.Tactic.Positivity

namespace TamocV.Props.C11
open TamocV TamocV.Model.Release TamocV.Lemmas.C11

-- ===================================================================== named hypotheses

/-- density is an intensive property: scaling all masses by `c > 0` does not change it (C10) -/
def ScaleInvariant (ρ : List ℝ → ℝ → ℝ → ℝ) : Prop :=
  ∀ (c : ℝ) (m : List ℝ) (T P : ℝ), 0 < c → ρ (m.map (c * ·)) T P = ρ m T P

/-- all entries positive / non-negative -/
def AllPos (l : List ℝ) : Prop := ∀ x ∈ l, 0 < x
def AllNonneg (l : List ℝ) : Prop := ∀ x ∈ l, 0 ≤ x

/-- `yk` is a vector of mole fractions for the compounds with molar masses `M` -/
def MoleFractions (M yk : List ℝ) : Prop := yk.length = M.length ∧ yk.sum = 1 ∧ AllNonneg yk

/-- the library's diameter/mass round trip for a soluble particle (C15), guarded -/
def DiameterRoundTrip (o : Oracle ℝ) (M : List ℝ) : Prop :=
  ∀ (de T P : ℝ) (yk : List ℝ), 0 < de → MoleFractions M yk → 0 < o.rho (masses M yk) T P →
    diameter o.rho (o.mbd de T P yk) T P = de

/-- the library's diameter/mass round trip for an insoluble particle (C15), guarded -/
def DiameterRoundTripI (o : Oracle ℝ) : Prop :=
  ∀ (de T P Sa Ta : ℝ), 0 < de → 0 < o.rhoI T P Sa Ta →
    diameterI o.rhoI (o.mbdI de T P Sa Ta) T P Sa Ta = de

/-- `masses_by_diameter` builds a particle of the requested mole fractions (C15), guarded -/
def CompositionRoundTrip (o : Oracle ℝ) (M : List ℝ) : Prop :=
  ∀ (de T P : ℝ) (yk : List ℝ), 0 < de → MoleFractions M yk → 0 < o.rho (masses M yk) T P →
    molFrac M (o.mbd de T P yk) = yk

/-- what `FluidMixture.equilibrium` hands over for one phase: `m = masses(xi * n)` (dbm.py l.700-710) -/
def PhaseConsistent (M m xi : List ℝ) : Prop :=
  ∃ n : ℝ, 0 < n ∧ (masses M xi).sum ≠ 0 ∧ m = (masses M xi).map (n * ·)

-- concrete state for the non-vacuity examples: a two-compound particle whose density depends on
-- temperature and pressure only
private noncomputable def exO : Oracle ℝ :=
  fluidOracle (fun _ T P => P / (T * 100)) (fun T _ _ _ => 1000 - T) [2, 4]
private noncomputable def exAmb : Amb ℝ := { Ta := 280, Sa := 35, P := 56000 }

private theorem exScale : ScaleInvariant (fun _ T P => P / (T * 100)) := fun _ _ _ _ _ => rfl

private theorem exM : AllPos [2, 4] := by
  intro x hx; simp at hx; rcases hx with h | h <;> rw [h] <;> norm_num

private theorem exYk : MoleFractions [2, 4] [1/2, 1/2] := by
  refine ⟨rfl, by norm_num, ?_⟩
  intro x hx; simp at hx; rw [hx]; norm_num

-- ===================================================================== scale invariance of the EOS density

/-- the particle density of tamoc as regenerated from `dbm_p.density` on every run: phase row `fp`
    (0 gas, 1 liquid) of the 2×1 result, for the mixture data `(M, Pc, Tc, Vc, ω, δ, Aij, Bij,
    groups, calc_delta, C_pen, C_pen_T)` and ANY cubic root finder `cr` -/
noncomputable def eosRho (cr : List ℝ → List ℝ × List ℝ) (fp : Nat) (M Pc Tc Vc w : List ℝ)
    (δ A B G : List (List ℝ)) (cd : ℝ) (Cp CpT : List ℝ) : List ℝ → ℝ → ℝ → ℝ :=
  fun m T P => ((Gen.EosFullPy.density cr T P m M Pc Tc Vc w δ A B G cd Cp CpT).getD fp []).getD 0 0

/-- `ScaleInvariant` is a THEOREM for the regenerated equation of state (chained with
    `Props.C10.gen_density_smul`): a change of dbm_p.py that lets the density see the total mass breaks
    this proof. -/
theorem eos_density_scaleInvariant (cr : List ℝ → List ℝ × List ℝ) (fp : Nat) (M Pc Tc Vc w : List ℝ)
    (δ A B G : List (List ℝ)) (cd : ℝ) (Cp CpT : List ℝ) :
    ScaleInvariant (eosRho cr fp M Pc Tc Vc w δ A B G cd Cp CpT) := by
  intro c m T P hc
  simp only [eosRho]
  rw [Props.C10.gen_density_smul cr c (ne_of_gt hc)]

-- ===================================================================== flux conventions

/-- core: for the volume- and mass-flux conventions (`q_type` 1, 2), soluble or not,
    number flux × per-particle component masses = total mass flux × mass fractions
    (also for a zero flux: then the number flux is 0 and the per-particle masses stay finite). -/
theorem flux_eq_mdot (o : Oracle ℝ) (M : List ℝ) (sol : Bool) (amb : Amb ℝ) (yk : List ℝ) (q : ℝ)
    (qType : Nat) (de : ℝ) (T0 : Option ℝ) (hq : qType ≠ 0)
    (hr : icRhoP o M sol amb yk (releaseT amb T0) ≠ 0) (hd : de ≠ 0) :
    flux (initialConditions o M sol amb yk q qType de T0)
      = Num.smul (icMdot qType q (icRhoN o M sol yk)) (icMf M sol yk) := by
  simp only [initialConditions, if_neg hq, flux, Num.smul]
  exact flux_core _ _ _ _ hr hd

/-- MASS-FLUX convention (`q_type = 2`): `nb0 • m0 = q • mf` as vectors (soluble: `mf` = mass
    fractions of the prescribed mole fractions; insoluble: the single entry `q`). -/
theorem flux_closed (o : Oracle ℝ) (M : List ℝ) (sol : Bool) (amb : Amb ℝ) (yk : List ℝ) (q de : ℝ)
    (T0 : Option ℝ) (hr : icRhoP o M sol amb yk (releaseT amb T0) ≠ 0) (hd : de ≠ 0) :
    flux (initialConditions o M sol amb yk q 2 de T0) = Num.smul q (icMf M sol yk) := by
  have h := flux_eq_mdot o M sol amb yk q 2 de T0 (by norm_num) hr hd
  simpa [icMdot] using h

/-- … and summed over the compounds the carried flux is exactly the prescribed mass flux. -/
theorem flux_closed_sum (o : Oracle ℝ) (M : List ℝ) (sol : Bool) (amb : Amb ℝ) (yk : List ℝ) (q de : ℝ)
    (T0 : Option ℝ) (hr : icRhoP o M sol amb yk (releaseT amb T0) ≠ 0) (hd : de ≠ 0)
    (hS : (masses M yk).sum ≠ 0) :
    Num.sum (flux (initialConditions o M sol amb yk q 2 de T0)) = q := by
  rw [flux_closed o M sol amb yk q de T0 hr hd, Num.real_sum]
  simp only [Num.smul, sum_map_mul_left]
  cases sol with
  | true => simp [icMf, massFrac_sum M yk hS]
  | false => simp [icMf]; norm_num

/-- STANDARD-VOLUME-FLUX convention (`q_type = 1`): `nb0 • m0 = (q · ρ_N) • mf`, `ρ_N` the particle
    density at 273.15 K, 1e5 Pa. -/
theorem std_volume_flux (o : Oracle ℝ) (M : List ℝ) (sol : Bool) (amb : Amb ℝ) (yk : List ℝ) (q de : ℝ)
    (T0 : Option ℝ) (hr : icRhoP o M sol amb yk (releaseT amb T0) ≠ 0) (hd : de ≠ 0) :
    flux (initialConditions o M sol amb yk q 1 de T0)
      = Num.smul (q * icRhoN o M sol yk) (icMf M sol yk) := by
  have h := flux_eq_mdot o M sol amb yk q 1 de T0 (by norm_num) hr hd
  simpa [icMdot] using h

/-- … and the total is the prescribed standard-condition volume flux × standard density. -/
theorem std_volume_flux_sum (o : Oracle ℝ) (M : List ℝ) (sol : Bool) (amb : Amb ℝ) (yk : List ℝ)
    (q de : ℝ) (T0 : Option ℝ)
    (hr : icRhoP o M sol amb yk (releaseT amb T0) ≠ 0) (hd : de ≠ 0) (hS : (masses M yk).sum ≠ 0) :
    Num.sum (flux (initialConditions o M sol amb yk q 1 de T0)) = q * icRhoN o M sol yk := by
  rw [std_volume_flux o M sol amb yk q de T0 hr hd, Num.real_sum]
  simp only [Num.smul, sum_map_mul_left]
  cases sol with
  | true => simp [icMf, massFrac_sum M yk hS]
  | false => simp [icMf]; norm_num

/-- (definitional) the standard density of `std_volume_flux` is the library density of the prescribed
    composition at exactly 273.15 K and 1e5 Pa (insoluble: at `(273.15, 1e5, 0, 273.15)`). -/
theorem std_density_state (o : Oracle ℝ) (M : List ℝ) (yk : List ℝ) :
    icRhoN o M true yk = o.rho (massFrac M yk) 273.15 100000 ∧
    icRhoN o M false yk = o.rhoI 273.15 100000 0 273.15 := by
  simp only [icRhoN, Num.real_ofSci]
  norm_num

/-- (definitional) PER-PARTICLE convention (`q_type = 0`): the number flux is 1 and the masses are those
    the library returns for ONE particle of the prescribed diameter at release conditions. -/
theorem per_particle (o : Oracle ℝ) (M : List ℝ) (sol : Bool) (amb : Amb ℝ) (yk : List ℝ) (q de : ℝ)
    (T0 : Option ℝ) :
    (initialConditions o M sol amb yk q 0 de T0).nb0 = 1 ∧
    (initialConditions o M sol amb yk q 0 de T0).m0
      = (if sol then o.mbd de (releaseT amb T0) amb.P yk
         else [o.mbdI de (releaseT amb T0) amb.P amb.Sa amb.Ta]) := by
  simp only [initialConditions, if_true, Num.real_ofSci]
  norm_num

/-- (definitional) the release state handed on is the ambient one at the release depth, and the
    particle temperature is the prescribed one (ambient when none is given). -/
theorem release_state (o : Oracle ℝ) (M : List ℝ) (sol : Bool) (amb : Amb ℝ) (yk : List ℝ) (q : ℝ)
    (qType : Nat) (de : ℝ) (T0 : Option ℝ) :
    let ic := initialConditions o M sol amb yk q qType de T0
    ic.P = amb.P ∧ ic.Sa = amb.Sa ∧ ic.Ta = amb.Ta ∧ ic.T0 = T0.getD amb.Ta := by
  simp only [initialConditions, releaseT]
  split <;> simp

example : flux (initialConditions exO [2, 4] true exAmb [1/2, 1/2] 3 2 (1/100) (some 290))
    = [3 * (1/3), 3 * (2/3)] := by
  rw [flux_closed]
  · simp [icMf, massFrac, masses, Num.vmul, Num.smul]; norm_num
  · simp [icRhoP, exO, fluidOracle, releaseT, exAmb]
  · norm_num

-- a zero flux is in the domain: number flux 0, finite per-particle masses, flux 0
example : flux (initialConditions exO [2, 4] true exAmb [1/2, 1/2] 0 2 (1/100) (some 290)) = [0 * (1/3), 0 * (2/3)] := by
  rw [flux_closed]
  · simp [icMf, massFrac, masses, Num.vmul, Num.smul]
  · simp [icRhoP, exO, fluidOracle, releaseT, exAmb]
  · norm_num

example : Num.sum (flux (initialConditions exO [2, 4] true exAmb [1/2, 1/2] 3 1 (1/100) none))
    = 3 * (100000 / (273.15 * 100)) := by
  rw [std_volume_flux_sum]
  · simp [icRhoN, exO, fluidOracle]; norm_num
  · simp [icRhoP, exO, fluidOracle, releaseT, exAmb]
  · norm_num
  · simp [masses, Num.vmul]; norm_num

-- ===================================================================== prescribed diameter

/-- flux conventions 1 and 2, SOLUBLE particle: the particle built has exactly the prescribed
    equivalent spherical diameter at release conditions (T0, P) — given that density is scale
    invariant (`ScaleInvariant`: hypothesis here, theorem for the EOS density, see `diameter_prescribed_eos`).
    Holds for any flux, also zero. -/
theorem diameter_prescribed (o : Oracle ℝ) (M : List ℝ) (amb : Amb ℝ) (yk : List ℝ) (q : ℝ)
    (qType : Nat) (de : ℝ) (T0 : Option ℝ) (hq : qType ≠ 0) (hscale : ScaleInvariant o.rho)
    (hr : 0 < o.rho (massFrac M yk) (releaseT amb T0) amb.P) (hd : 0 < de)
    (hS : (masses M yk).sum ≠ 0) :
    let ic := initialConditions o M true amb yk q qType de T0
    diameter o.rho ic.m0 ic.T0 ic.P = de := by
  have hc := icMass_pos _ _ hr hd
  simp only [initialConditions, if_neg hq, icMf, icRhoP, if_true, diameter, Num.real_sum,
    Num.real_rpow, Num.real_ofSci]
  rw [hscale _ _ _ _ hc, sum_map_mul_left, massFrac_sum M yk hS, mul_one]
  have e6 : (6.0 : ℝ) = 6 := by norm_num
  have e3 : ((1.0 : ℝ) / 3.0) = (1 : ℝ) / 3 := by norm_num
  rw [e6, e3, six_mass _ _ (ne_of_gt hr)]
  exact cube_root_cube de (le_of_lt hd)

/-- the same for the density REGENERATED from tamoc's equation of state, with NO scale-invariance
    hypothesis (it is `eos_density_scaleInvariant`): any oracle whose `rho` is that density. -/
theorem diameter_prescribed_eos (o : Oracle ℝ) (cr : List ℝ → List ℝ × List ℝ) (fp : Nat)
    (M Pc Tc Vc w : List ℝ) (δ A B G : List (List ℝ)) (cd : ℝ) (Cp CpT : List ℝ)
    (ho : o.rho = eosRho cr fp M Pc Tc Vc w δ A B G cd Cp CpT)
    (amb : Amb ℝ) (yk : List ℝ) (q : ℝ) (qType : Nat) (de : ℝ) (T0 : Option ℝ) (hq : qType ≠ 0)
    (hr : 0 < o.rho (massFrac M yk) (releaseT amb T0) amb.P) (hd : 0 < de)
    (hS : (masses M yk).sum ≠ 0) :
    let ic := initialConditions o M true amb yk q qType de T0
    diameter o.rho ic.m0 ic.T0 ic.P = de :=
  diameter_prescribed o M amb yk q qType de T0 hq
    (by rw [ho]; exact eos_density_scaleInvariant cr fp M Pc Tc Vc w δ A B G cd Cp CpT) hr hd hS

/-- flux conventions 1 and 2, INSOLUBLE particle: prescribed diameter, no library fact needed. -/
theorem diameter_prescribed_insoluble (o : Oracle ℝ) (M : List ℝ) (amb : Amb ℝ) (yk : List ℝ) (q : ℝ)
    (qType : Nat) (de : ℝ) (T0 : Option ℝ) (hq : qType ≠ 0)
    (hr : 0 < o.rhoI (releaseT amb T0) amb.P amb.Sa amb.Ta) (hd : 0 < de) :
    let ic := initialConditions o M false amb yk q qType de T0
    diameterI o.rhoI (ic.m0.headD 0) ic.T0 ic.P ic.Sa ic.Ta = de := by
  simp only [initialConditions, if_neg hq, icMf, icRhoP, diameterI, Num.real_rpow, Num.real_ofSci,
    Bool.false_eq_true, if_false, List.map_cons, List.map_nil, List.headD_cons]
  have e6 : (6.0 : ℝ) = 6 := by norm_num
  have e1 : (1.0 : ℝ) = 1 := by norm_num
  have e3 : ((1.0 : ℝ) / 3.0) = (1 : ℝ) / 3 := by norm_num
  rw [e3, e6, e1, mul_one, six_mass _ _ (ne_of_gt hr)]
  exact cube_root_cube de (le_of_lt hd)

/-- per-particle convention: prescribed diameter, from the library's (guarded) round trips — named
    hypotheses that `roundTrips_hold` discharges for the transcribed library. -/
theorem diameter_prescribed_per_particle (o : Oracle ℝ) (M : List ℝ) (amb : Amb ℝ) (yk : List ℝ)
    (q de : ℝ) (T0 : Option ℝ) (hd : 0 < de) :
    (DiameterRoundTrip o M → MoleFractions M yk → 0 < o.rho (masses M yk) (releaseT amb T0) amb.P →
      let ic := initialConditions o M true amb yk q 0 de T0
      diameter o.rho ic.m0 ic.T0 ic.P = de) ∧
    (DiameterRoundTripI o → 0 < o.rhoI (releaseT amb T0) amb.P amb.Sa amb.Ta →
      let ic := initialConditions o M false amb yk q 0 de T0
      diameterI o.rhoI (ic.m0.headD 0) ic.T0 ic.P ic.Sa ic.Ta = de) := by
  constructor
  · intro h hy hr
    simp only [initialConditions, if_true]
    exact h de _ _ yk hd hy hr
  · intro h hr
    simp only [initialConditions, if_true, Bool.false_eq_true, if_false, List.headD_cons]
    exact h de _ _ _ _ hd hr

/-- THE ROUND TRIPS HOLD for the transcribed `masses_by_diameter` / `mass_by_diameter` (the code as
    written, density an arbitrary scale-invariant oracle, molar masses positive): the three named
    hypotheses are consequences of C10 — they are satisfiable and the per-particle theorems are not
    vacuous. -/
theorem roundTrips_hold (ρ : List ℝ → ℝ → ℝ → ℝ) (ρI : ℝ → ℝ → ℝ → ℝ → ℝ) (M : List ℝ)
    (hscale : ScaleInvariant ρ) (hM : AllPos M) :
    DiameterRoundTrip (fluidOracle ρ ρI M) M ∧ CompositionRoundTrip (fluidOracle ρ ρI M) M ∧
    DiameterRoundTripI (fluidOracle ρ ρI M) := by
  have hp := pi_pos
  have e6 : (6.0 : ℝ) = 6 := by norm_num
  have e3 : ((1.0 : ℝ) / 3.0) = (1 : ℝ) / 3 := by norm_num
  refine ⟨?_, ?_, ?_⟩
  · intro de T P yk hd hy hr
    obtain ⟨hl, hsum, hnn⟩ := hy
    have hS : 0 < (masses M yk).sum := masses_sum_pos M yk hl hM hnn (by rw [hsum]; norm_num)
    have hr' : 0 < ρ (masses M yk) T P := hr
    have hcpos : 0 < 1 / 6 * pi * de ^ 3 * ρ (masses M yk) T P / (masses M yk).sum := by positivity
    simp only [fluidOracle, diameter, Num.real_sum, Num.real_rpow, Num.real_ofSci]
    rw [massesByDiameter_eq, hscale _ _ _ _ hcpos, sum_map_mul_left]
    have e : (6.0 : ℝ) * (1 / 6 * pi * de ^ 3 * ρ (masses M yk) T P / (masses M yk).sum * (masses M yk).sum)
        / (pi * ρ (masses M yk) T P) = de ^ 3 := by
      field_simp
      norm_num
    rw [e, e3]
    exact cube_root_cube de (le_of_lt hd)
  · intro de T P yk hd hy hr
    obtain ⟨hl, hsum, hnn⟩ := hy
    have hS : 0 < (masses M yk).sum := masses_sum_pos M yk hl hM hnn (by rw [hsum]; norm_num)
    have hr' : 0 < ρ (masses M yk) T P := hr
    have hcpos : 0 < 1 / 6 * pi * de ^ 3 * ρ (masses M yk) T P / (masses M yk).sum := by positivity
    simp only [fluidOracle]
    rw [massesByDiameter_eq, molFrac_scaled_masses _ M yk hl (fun x hx => ne_of_gt (hM x hx))
      (ne_of_gt hcpos) (by rw [hsum]; norm_num), hsum, map_div_one]
  · intro de T P Sa Ta hd hr
    have hr' : 0 < ρI T P Sa Ta := hr
    simp only [fluidOracle, massByDiameterI, diameterI, Num.real_rpow, Num.real_ofSci, Num.real_npow]
    have e : (6.0 : ℝ) * (1.0 / 6.0 * pi * de ^ 3 * ρI T P Sa Ta) / (pi * ρI T P Sa Ta) = de ^ 3 := by
      field_simp
      norm_num
    rw [e, e3]
    exact cube_root_cube de (le_of_lt hd)

/-- per-particle convention for the code as written (transcribed `masses_by_diameter`): prescribed
    diameter AND mole fractions from scale invariance alone — no round-trip hypothesis left. -/
theorem per_particle_transcribed (ρ : List ℝ → ℝ → ℝ → ℝ) (ρI : ℝ → ℝ → ℝ → ℝ → ℝ) (M : List ℝ)
    (hscale : ScaleInvariant ρ) (hM : AllPos M) (amb : Amb ℝ) (yk : List ℝ) (q de : ℝ) (T0 : Option ℝ)
    (hd : 0 < de) (hy : MoleFractions M yk) (hr : 0 < ρ (masses M yk) (releaseT amb T0) amb.P) :
    let ic := initialConditions (fluidOracle ρ ρI M) M true amb yk q 0 de T0
    diameter ρ ic.m0 ic.T0 ic.P = de ∧ molFrac M ic.m0 = yk := by
  obtain ⟨h1, h2, _⟩ := roundTrips_hold ρ ρI M hscale hM
  simp only [initialConditions, if_true]
  exact ⟨h1 de _ _ yk hd hy hr, h2 de _ _ yk hd hy hr⟩

example : diameter exO.rho (initialConditions exO [2, 4] true exAmb [1/2, 1/2] 3 2 (1/100) (some 290)).m0
    290 56000 = 1/100 := by
  have h := diameter_prescribed exO [2, 4] exAmb [1/2, 1/2] 3 2 (1/100) (some 290) (by norm_num)
    exScale (by simp [exO, fluidOracle, releaseT, exAmb]) (by norm_num)
    (by simp [masses, Num.vmul]; norm_num)
  simpa [initialConditions, releaseT, exAmb] using h

-- the guarded round-trip hypotheses are satisfied by a concrete oracle (non-vacuity) …
example : DiameterRoundTrip exO [2, 4] ∧ CompositionRoundTrip exO [2, 4] ∧ DiameterRoundTripI exO :=
  roundTrips_hold _ _ [2, 4] exScale exM

-- … and give the prescribed diameter and composition of a single particle
example : let ic := initialConditions exO [2, 4] true exAmb [1/2, 1/2] 0 0 (1/100) (some 290)
    diameter (fun _ T P => P / (T * 100)) ic.m0 ic.T0 ic.P = 1/100 ∧ molFrac [2, 4] ic.m0 = [1/2, 1/2] :=
  per_particle_transcribed _ _ [2, 4] exScale exM exAmb [1/2, 1/2] 0 (1/100) (some 290) (by norm_num) exYk
    (by simp [releaseT, exAmb])

-- ===================================================================== prescribed mole fractions

/-- flux conventions 1 and 2: the particle built has exactly the prescribed mole fractions
    (any flux, also zero). -/
theorem mole_fractions_prescribed (o : Oracle ℝ) (M : List ℝ) (amb : Amb ℝ) (yk : List ℝ) (q : ℝ)
    (qType : Nat) (de : ℝ) (T0 : Option ℝ) (hq : qType ≠ 0)
    (hr : o.rho (massFrac M yk) (releaseT amb T0) amb.P ≠ 0) (hd : de ≠ 0)
    (hl : yk.length = M.length) (hM : AllPos M) (hS : (masses M yk).sum ≠ 0) (hsum : yk.sum = 1) :
    molFrac M (initialConditions o M true amb yk q qType de T0).m0 = yk := by
  have hp := pi_ne
  have hc : icMass (o.rho (massFrac M yk) (releaseT amb T0) amb.P) de ≠ 0 := by
    rw [icMass_eq]
    exact div_ne_zero (mul_ne_zero (mul_ne_zero hr hp) (pow_ne_zero 3 hd)) (by norm_num)
  simp only [initialConditions, if_neg hq, icMf, icRhoP, if_true]
  rw [molFrac_scaled_massFrac _ M yk hl (fun x hx => ne_of_gt (hM x hx)) hc hS
    (by rw [hsum]; norm_num), hsum, map_div_one]

/-- per-particle convention: prescribed mole fractions, from the library's (guarded) round trip. -/
theorem mole_fractions_prescribed_per_particle (o : Oracle ℝ) (M : List ℝ) (amb : Amb ℝ) (yk : List ℝ)
    (q de : ℝ) (T0 : Option ℝ) (hd : 0 < de) (hy : MoleFractions M yk)
    (hr : 0 < o.rho (masses M yk) (releaseT amb T0) amb.P) (h : CompositionRoundTrip o M) :
    molFrac M (initialConditions o M true amb yk q 0 de T0).m0 = yk := by
  simp only [initialConditions, if_true]
  exact h de _ _ yk hd hy hr

example : molFrac [2, 4] (initialConditions exO [2, 4] true exAmb [1/2, 1/2] 3 2 (1/100) (some 290)).m0
    = [1/2, 1/2] := by
  apply mole_fractions_prescribed
  · norm_num
  · simp [exO, fluidOracle, releaseT, exAmb]
  · norm_num
  · rfl
  · exact exM
  · simp [masses, Num.vmul]; norm_num
  · norm_num

-- ===================================================================== size bins

/-- one bin of `blowout.particles` carries `mb0 · mf_j` of compound `j` (`mb0 = vf_i · m_tot`, may be 0). -/
theorem bin_flux (o : Oracle ℝ) (M : List ℝ) (amb : Amb ℝ) (yk : List ℝ) (mb0 de Tj : ℝ) (j : Nat)
    (hr : o.rho (massFrac M yk) Tj amb.P ≠ 0) (hd : de ≠ 0) :
    let ic := initialConditions o M true amb yk mb0 2 de (some Tj)
    ic.nb0 * ic.m0.getD j 0 = mb0 * (massFrac M yk).getD j 0 := by
  intro ic
  rw [← flux_getD, flux_closed o M true amb yk mb0 de (some Tj) (by simpa [icRhoP, releaseT] using hr) hd,
    smul_getD]
  simp [icMf]

/-- any volume fractions (also zero ones — empty bins): the bins together carry
    `(Σ vf) · m_tot · mf_j` of every compound `j` -/
theorem bins_sum (o : Oracle ℝ) (M : List ℝ) (amb : Amb ℝ) (mTot : ℝ) (yk : List ℝ) (Tj : ℝ) (j : Nat)
    (hr : 0 < o.rho (massFrac M yk) Tj amb.P) :
    ∀ (d vf : List ℝ), d.length = vf.length → AllPos d →
      compFlux j (particles o M amb mTot d vf yk Tj) = vf.sum * mTot * (massFrac M yk).getD j 0
  | [], [], _, _ => by simp [particles, compFlux_nil]
  | [], _ :: _, h, _ => by simp at h
  | _ :: _, [], h, _ => by simp at h
  | d :: ds, v :: vs, h, hd => by
      have hd0 : 0 < d := hd d (by simp)
      have ih := bins_sum o M amb mTot yk Tj j hr ds vs (by simpa using h)
        (fun x hx => hd x (by simp [hx]))
      have hb := bin_flux o M amb yk (v * mTot) d Tj j (ne_of_gt hr) (ne_of_gt hd0)
      simp only [particles, compFlux_cons, ih, List.sum_cons]
      simp only at hb
      rw [hb]
      ring

/-- SIZE DISTRIBUTION: with `Σ vf = 1` the bins of `blowout.particles` together carry exactly the
    phase total `m_tot · mf_j` of every compound `j` (any number of bins, any number of compounds;
    volume fractions may vanish: an empty bin carries nothing and spoils nothing). -/
theorem bins_total (o : Oracle ℝ) (M : List ℝ) (amb : Amb ℝ) (mTot : ℝ) (yk : List ℝ) (Tj : ℝ) (j : Nat)
    (d vf : List ℝ) (hr : 0 < o.rho (massFrac M yk) Tj amb.P)
    (hl : d.length = vf.length) (hd : AllPos d) (hsum : vf.sum = 1) :
    compFlux j (particles o M amb mTot d vf yk Tj) = mTot * (massFrac M yk).getD j 0 := by
  rw [bins_sum o M amb mTot yk Tj j hr d vf hl hd, hsum, one_mul]

/-- one particle class per size bin (`for i in range(len(d))`; volume fractions beyond `len(d)` are
    not used). -/
theorem bins_number (o : Oracle ℝ) (M : List ℝ) (amb : Amb ℝ) (mTot : ℝ) (yk : List ℝ) (Tj : ℝ)
    (d vf : List ℝ) : (particles o M amb mTot d vf yk Tj).length = min d.length vf.length := by
  induction d generalizing vf with
  | nil => simp [particles]
  | cons x xs ih =>
    cases vf with
    | nil => simp [particles]
    | cons v vs => simp [particles, ih, Nat.succ_min_succ]

private theorem exD : AllPos [1/100, 1/50, 1/25] := by
  intro x hx; simp at hx; rcases hx with h | h | h <;> rw [h] <;> norm_num

example : compFlux 1 (particles exO [2, 4] exAmb 5 [1/100, 1/50, 1/25] [1/4, 1/4, 1/2] [1/2, 1/2] 290)
    = 5 * (2/3) := by
  rw [bins_total]
  · simp [massFrac, masses, Num.vmul]; norm_num
  · simp [exO, fluidOracle, exAmb]
  · rfl
  · exact exD
  · norm_num

-- an empty bin in the distribution
example : compFlux 1 (particles exO [2, 4] exAmb 5 [1/100, 1/50, 1/25] [1/2, 0, 1/2] [1/2, 1/2] 290)
    = 5 * (2/3) := by
  rw [bins_total]
  · simp [massFrac, masses, Num.vmul]; norm_num
  · simp [exO, fluidOracle, exAmb]
  · rfl
  · exact exD
  · norm_num

-- ===================================================================== blowout

/-- one phase of the blowout: its bins carry the phase's mass of compound `j` as returned by the
    flash — because the mass fractions of the handed-over mole fractions times the handed-over total
    reproduce the flash's own phase masses (`PhaseConsistent`, a hypothesis about the flash). -/
theorem phase_total (o : Oracle ℝ) (M : List ℝ) (amb : Amb ℝ) (m xi : List ℝ) (Tj : ℝ) (j : Nat)
    (d vf : List ℝ) (hc : PhaseConsistent M m xi) (hr : 0 < o.rho (massFrac M xi) Tj amb.P)
    (hl : d.length = vf.length) (hd : AllPos d) (hsum : vf.sum = 1) :
    compFlux j (particles o M amb (Num.sum m) d vf xi Tj) = m.getD j 0 := by
  obtain ⟨n, _hn, hS', hmeq⟩ := hc
  have hsumm : Num.sum m = n * (masses M xi).sum := by
    rw [Num.real_sum, hmeq, sum_map_mul_left]
  rw [bins_total o M amb _ xi Tj j d vf hr hl hd hsum, hsumm,
    massFrac_getD, hmeq, getD_map0 _ (by simp)]
  field_simp

/-- BLOWOUT, both phases present: the particle fluxes summed over ALL gas and liquid bins equal the
    released mass flux of EVERY compound — GIVEN (hypotheses, not lemmas) that the equilibrium split
    conserves mass (`hcons`; this is property C02) and hands over consistent phase data
    (`PhaseConsistent`). -/
theorem blowout_total (oGas oLiq : Oracle ℝ) (M : List ℝ) (amb : Amb ℝ)
    (massFlux mGas mLiq xiGas xiLiq dGas vfGas dLiq vfLiq : List ℝ) (Tj : ℝ) (j : Nat)
    (hcons : mGas.getD j 0 + mLiq.getD j 0 = massFlux.getD j 0)
    (hcG : PhaseConsistent M mGas xiGas) (hcL : PhaseConsistent M mLiq xiLiq)
    (hrG : 0 < oGas.rho (massFrac M xiGas) Tj amb.P) (hrL : 0 < oLiq.rho (massFrac M xiLiq) Tj amb.P)
    (hlG : dGas.length = vfGas.length) (hdG : AllPos dGas) (hsG : vfGas.sum = 1)
    (hlL : dLiq.length = vfLiq.length) (hdL : AllPos dLiq) (hsL : vfLiq.sum = 1) :
    compFlux j (blowoutPhases oGas oLiq M amb mGas mLiq xiGas xiLiq dGas vfGas dLiq vfLiq Tj)
      = massFlux.getD j 0 := by
  rw [blowoutPhases, compFlux_append,
    phase_total oGas M amb mGas xiGas Tj j dGas vfGas hcG hrG hlG hdG hsG,
    phase_total oLiq M amb mLiq xiLiq Tj j dLiq vfLiq hcL hrL hlL hdL hsL, hcons]

/-- BLOWOUT with an absent gas phase (GOR 0, or all gas dissolved at depth) and NO gas bins (what the
    size-distribution model returns then): the liquid bins alone carry the released mass flux of every
    compound.  (Gas bins supplied for an absent gas phase are outside this statement: the real code
    turns them into NaN — known finding `blowout-total-user-bins-absent-phase`.) -/
theorem blowout_total_no_gas (oGas oLiq : Oracle ℝ) (M : List ℝ) (amb : Amb ℝ)
    (massFlux mGas mLiq xiGas xiLiq vfGas dLiq vfLiq : List ℝ) (Tj : ℝ) (j : Nat)
    (hcons : mGas.getD j 0 + mLiq.getD j 0 = massFlux.getD j 0) (hG0 : mGas.getD j 0 = 0)
    (hcL : PhaseConsistent M mLiq xiLiq)
    (hrL : 0 < oLiq.rho (massFrac M xiLiq) Tj amb.P)
    (hlL : dLiq.length = vfLiq.length) (hdL : AllPos dLiq) (hsL : vfLiq.sum = 1) :
    compFlux j (blowoutPhases oGas oLiq M amb mGas mLiq xiGas xiLiq [] vfGas dLiq vfLiq Tj)
      = massFlux.getD j 0 := by
  rw [blowoutPhases, compFlux_append,
    phase_total oLiq M amb mLiq xiLiq Tj j dLiq vfLiq hcL hrL hlL hdL hsL, ← hcons, hG0]
  simp [particles, compFlux_nil]

/-- BLOWOUT with an absent liquid phase (gas release) and no liquid bins: symmetric. -/
theorem blowout_total_no_liquid (oGas oLiq : Oracle ℝ) (M : List ℝ) (amb : Amb ℝ)
    (massFlux mGas mLiq xiGas xiLiq dGas vfGas vfLiq : List ℝ) (Tj : ℝ) (j : Nat)
    (hcons : mGas.getD j 0 + mLiq.getD j 0 = massFlux.getD j 0) (hL0 : mLiq.getD j 0 = 0)
    (hcG : PhaseConsistent M mGas xiGas)
    (hrG : 0 < oGas.rho (massFrac M xiGas) Tj amb.P)
    (hlG : dGas.length = vfGas.length) (hdG : AllPos dGas) (hsG : vfGas.sum = 1) :
    compFlux j (blowoutPhases oGas oLiq M amb mGas mLiq xiGas xiLiq dGas vfGas [] vfLiq Tj)
      = massFlux.getD j 0 := by
  rw [blowoutPhases, compFlux_append,
    phase_total oGas M amb mGas xiGas Tj j dGas vfGas hcG hrG hlG hdG hsG, ← hcons, hL0]
  simp [particles, compFlux_nil]

example : compFlux 0 (blowoutPhases exO exO [2, 4] exAmb [1, 2] [3, 2] [1/2, 1/2] [3/4, 1/4]
    [1/100] [1] [1/50, 1/25] [1/2, 1/2] 290) = ([4, 4] : List ℝ).getD 0 0 := by
  apply blowout_total
  · norm_num
  · exact ⟨1, by norm_num, by simp [masses, Num.vmul]; norm_num, by simp [masses, Num.vmul]; norm_num⟩
  · exact ⟨2, by norm_num, by simp [masses, Num.vmul]; norm_num, by simp [masses, Num.vmul]; norm_num⟩
  · simp [exO, fluidOracle, exAmb]
  · simp [exO, fluidOracle, exAmb]
  · rfl
  · intro x hx; simp at hx; rw [hx]; norm_num
  · norm_num
  · rfl
  · intro x hx; simp at hx; rcases hx with h | h <;> rw [h] <;> norm_num
  · norm_num

-- ===================================================================== stratified-plume helpers

/-- (corollary) `particle_from_mb0` / `particle_from_Q` are `initial_conditions` with the mass-flux /
    the standard-volume-flux convention: their particles satisfy `flux_closed` / `std_volume_flux`. -/
theorem particle_from_flux (o : Oracle ℝ) (M : List ℝ) (sol : Bool) (amb : Amb ℝ) (yk : List ℝ)
    (x de : ℝ) (T0 : Option ℝ) (hr : icRhoP o M sol amb yk (releaseT amb T0) ≠ 0) (hd : de ≠ 0) :
    flux (particleFromMb0 o M sol amb yk x de T0) = Num.smul x (icMf M sol yk) ∧
    flux (particleFromQ o M sol amb yk x de T0) = Num.smul (x * icRhoN o M sol yk) (icMf M sol yk) :=
  ⟨flux_closed o M sol amb yk x de T0 hr hd, std_volume_flux o M sol amb yk x de T0 hr hd⟩

-- ===================================================================== first plume element

/-- the fill time of the first Lagrangian element is its volume (release cross-section `A` × height
    `h = D/5`, `D = √(4A/π)`) divided by the discharge `Q`. -/
theorem fill_time (A Q : ℝ) (hA : 0 ≤ A) :
    fillTime A Q = A * (Real.sqrt (4 * A / pi) / 5) / Q := fillTime_eq A Q hA

/-- FIRST ELEMENT ROW (unfolds the packing loop for any number of particle classes): the
    dispersed-phase section of the initial state is, particle after particle, `m · (nb0 · dt)` for
    every compound, the heat `Σm · (nb0 · dt) · cp · T`, then age 0 and position (0, 0, 0) — `dt` the
    fill time: the element carries the particles released during its fill time. -/
theorem first_element_row (A Q : ℝ) (ps : List (Prt ℝ)) :
    firstRow A Q ps = (ps.map fun p =>
      p.m.map (· * (p.nb0 * fillTime A Q))
        ++ [p.m.sum * (p.nb0 * fillTime A Q) * p.cp * p.T, 0, 0, 0, 0]).flatten := by
  simp only [firstRow, nbe]
  induction ps with
  | nil => simp [stateSpace]
  | cons p ps ih =>
    simp only [List.map_cons, stateSpace, ih, List.flatten_cons, block, Num.real_sum, Num.real_ofSci]
    norm_num

/-- (definitional) the number of particles of class `i` in the first element is `nb0_i · dt`. -/
theorem first_element_number (A Q : ℝ) (ps : List (Prt ℝ)) (i : Nat) (hi : i < ps.length) :
    (nbe (fillTime A Q) ps).getD i 0 = (ps.map (·.nb0)).getD i 0 * fillTime A Q := by
  simp only [nbe]
  induction ps generalizing i with
  | nil => simp at hi
  | cons p ps ih =>
    cases i with
    | zero => simp
    | succ i => simpa using ih i (by simpa using hi)

/-- the component masses stored for a particle class add up to (mass of one particle) × (number
    released during the fill time). -/
theorem first_element_mass (p : Prt ℝ) (nb : ℝ) :
    ((block p nb).take p.m.length).sum = p.m.sum * nb := by
  simp [block, sum_map_mul_right]

/-- shape of the packed row: `nc_i + 5` slots per particle class. -/
theorem first_element_length (A Q : ℝ) (ps : List (Prt ℝ)) :
    (firstRow A Q ps).length = (ps.map fun p => p.m.length + 5).sum := by
  rw [first_element_row]
  simp [List.length_flatten, Function.comp_def]

/-- END TO END: a particle class set up by `initial_conditions` with mass flux `q` contributes
    `q · mf_j · dt` of compound `j` to the first element — the prescribed flux times the fill time. -/
theorem first_element_carries_flux (o : Oracle ℝ) (M : List ℝ) (amb : Amb ℝ) (yk : List ℝ) (q de : ℝ)
    (T0 : Option ℝ) (dt : ℝ) (j : Nat)
    (hr : o.rho (massFrac M yk) (releaseT amb T0) amb.P ≠ 0) (hd : de ≠ 0) :
    let ic := initialConditions o M true amb yk q 2 de T0
    (ic.m0.map (· * (ic.nb0 * dt))).getD j 0 = q * (massFrac M yk).getD j 0 * dt := by
  intro ic
  rw [getD_map0 _ (by simp)]
  have h := bin_flux o M amb yk q de ((releaseT amb T0)) j hr hd
  have e : initialConditions o M true amb yk q 2 de (some (releaseT amb T0)) = ic := by
    simp [ic, initialConditions, releaseT]
  simp only [e] at h
  calc ic.m0.getD j 0 * (ic.nb0 * dt) = ic.nb0 * ic.m0.getD j 0 * dt := by ring
    _ = q * (massFrac M yk).getD j 0 * dt := by rw [h]

example : firstRow (2 : ℝ) 4 [{ m := [1, 2], nb0 := 10, cp := 3, T := 5 }]
    = [1 * (10 * fillTime 2 4), 2 * (10 * fillTime 2 4), (1 + 2) * (10 * fillTime 2 4) * 3 * 5, 0, 0, 0, 0] := by
  rw [first_element_row]; simp

end TamocV.Props.C11
