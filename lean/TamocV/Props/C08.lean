/-
  C08 — Python fallback and Fortran library are interchangeable.
  Property theorems only.  `Gen.PhysPy`/`Gen.EosPy` are regenerated from tamoc/dbm_p.py and
  `Gen.PhysF`/`Gen.EosF` from tamoc/src/dbm_phys.f95, dbm_eos.f95 on every run (translate/);
  `Gen.Signatures` holds the parameter lists of both libraries and every `dbm_f.<name>(…)`
  call site of tamoc/*.py.

  Each `pair_*` theorem says: for ALL real arguments (and all vector lengths) the Python
  routine and the Fortran routine it replaces denote the same real function.  The translator
  honours Fortran literal kinds (a default-real literal is the rational value of its binary32
  rounding), so a literal written without a `D` exponent makes the pair differ and the proof
  fail.  What the real-number model cannot express is REFUSED by translate/f2ir.py, not modelled as double: a
  real object not declared `kind = DP`, `REAL(x)` without a kind, integer division, an operation whose operands
  are default-real literals / integers only.  Such a routine then has no generated model, this file no longer
  builds, and the check falls back to its failing-input search (differential execution).  So the `pair_*`
  theorems speak about the double-precision, real-division reading of both sources — which is what both
  sources are, as long as the translator accepts them.  Proofs are `rfl` where the two transcriptions are syntactically identical after
  translation, otherwise `simp only` with the callee pairs and the sign rules `neg_mul`,
  `neg_div` (Fortran parses `-a*b` as `-(a*b)`, Python as `(-a)*b`).

  The matrix / loop-nest routines coefs, z_pr, fugacity, density are translated by the general
  imperative-to-functional mode (translate/py2ir2.py: loops become `List.foldl` over `List.range'`,
  element stores `List.set`), with the cubic root finder as a PARAMETER `cubic_roots` of the generated
  routines: `pair_full_*` below hold for every root finder.  Not covered by a theorem (differential
  execution only, see harness/c08.py): viscosity (numpy (2,1)-array broadcasting outside the
  translator subset) and cubic_roots itself (numpy.roots vs the PDAS solver: not transcriptions of
  each other).
-/
import TamocV.Real
import TamocV.Gen.PhysPy
import TamocV.Gen.PhysF
import TamocV.Gen.EosPy
import TamocV.Gen.EosF
import TamocV.Gen.Signatures
import TamocV.Gen.EosFullPy
import TamocV.Gen.EosFullF

namespace TamocV.Props.C08
open TamocV.Gen

theorem pair_eotvos (a0 : ℝ) (a1 : ℝ) (a2 : ℝ) (a3 : ℝ) :
    PhysPy.eotvos a0 a1 a2 a3 = PhysF.eotvos a0 a1 a2 a3 := rfl

theorem pair_morton (a0 : ℝ) (a1 : ℝ) (a2 : ℝ) (a3 : ℝ) :
    PhysPy.morton a0 a1 a2 a3 = PhysF.morton a0 a1 a2 a3 := rfl

theorem pair_reynolds (a0 : ℝ) (a1 : ℝ) (a2 : ℝ) (a3 : ℝ) :
    PhysPy.reynolds a0 a1 a2 a3 = PhysF.reynolds a0 a1 a2 a3 := rfl

theorem pair_h_parameter (a0 : ℝ) (a1 : ℝ) (a2 : ℝ) :
    PhysPy.h_parameter a0 a1 a2 = PhysF.h_parameter a0 a1 a2 := rfl

theorem pair_particle_shape (a0 : ℝ) (a1 : ℝ) (a2 : ℝ) (a3 : ℝ) (a4 : ℝ) :
    PhysPy.particle_shape a0 a1 a2 a3 a4 = PhysF.particle_shape a0 a1 a2 a3 a4 := by
  simp only [PhysPy.particle_shape, PhysF.particle_shape, pair_eotvos, pair_morton, pair_h_parameter] <;> rfl

theorem pair_theta_w_sc (a0 : ℝ) (a1 : ℝ) (a2 : ℝ) (a3 : ℝ) :
    PhysPy.theta_w_sc a0 a1 a2 a3 = PhysF.theta_w_sc a0 a1 a2 a3 := by
  simp only [PhysPy.theta_w_sc, PhysF.theta_w_sc, pair_reynolds, neg_mul] <;> rfl

theorem pair_surface_area_sc (a0 : ℝ) (a1 : ℝ) :
    PhysPy.surface_area_sc a0 a1 = PhysF.surface_area_sc a0 a1 := rfl

theorem pair_surface_area_sphere (a0 : ℝ) :
    PhysPy.surface_area_sphere a0 = PhysF.surface_area_sphere a0 := rfl

theorem pair_us_sphere (a0 : ℝ) (a1 : ℝ) (a2 : ℝ) (a3 : ℝ) :
    PhysPy.us_sphere a0 a1 a2 a3 = PhysF.us_sphere a0 a1 a2 a3 := rfl

theorem pair_us_ellipsoid (a0 : ℝ) (a1 : ℝ) (a2 : ℝ) (a3 : ℝ) (a4 : ℝ) (a5 : ℝ) (a6 : ℝ) :
    PhysPy.us_ellipsoid a0 a1 a2 a3 a4 a5 a6 = PhysF.us_ellipsoid a0 a1 a2 a3 a4 a5 a6 := by
  simp only [PhysPy.us_ellipsoid, PhysF.us_ellipsoid, pair_eotvos, pair_morton, pair_h_parameter, neg_div] <;> rfl

theorem pair_us_spherical_cap (a0 : ℝ) (a1 : ℝ) (a2 : ℝ) :
    PhysPy.us_spherical_cap a0 a1 a2 = PhysF.us_spherical_cap a0 a1 a2 := rfl

theorem pair_xfer_kumar_hartland (a0 : ℝ) (a1 : ℝ) (a2 : ℝ) (a3 : ℝ) (a4 : List ℝ) (a5 : ℝ) (a6 : ℝ) :
    PhysPy.xfer_kumar_hartland a0 a1 a2 a3 a4 a5 a6 = PhysF.xfer_kumar_hartland a0 a1 a2 a3 a4 a5 a6 := rfl

theorem pair_xfer_johnson (a0 : ℝ) (a1 : ℝ) (a2 : List ℝ) :
    PhysPy.xfer_johnson a0 a1 a2 = PhysF.xfer_johnson a0 a1 a2 := rfl

theorem pair_xfer_clift (a0 : ℝ) (a1 : ℝ) (a2 : ℝ) (a3 : ℝ) (a4 : List ℝ) :
    PhysPy.xfer_clift a0 a1 a2 a3 a4 = PhysF.xfer_clift a0 a1 a2 a3 a4 := by
  simp only [PhysPy.xfer_clift, PhysF.xfer_clift, pair_reynolds] <;> rfl

theorem pair_xfer_sphere (a0 : ℝ) (a1 : ℝ) (a2 : ℝ) (a3 : ℝ) (a4 : List ℝ) (a5 : ℝ) (a6 : ℝ) (a7 : ℝ) (a8 : ℝ) :
    PhysPy.xfer_sphere a0 a1 a2 a3 a4 a5 a6 a7 a8 = PhysF.xfer_sphere a0 a1 a2 a3 a4 a5 a6 a7 a8 := by
  simp only [PhysPy.xfer_sphere, PhysF.xfer_sphere, pair_xfer_kumar_hartland, pair_xfer_johnson, pair_xfer_clift] <;> rfl

theorem pair_xfer_ellipsoid (a0 : ℝ) (a1 : ℝ) (a2 : ℝ) (a3 : ℝ) (a4 : List ℝ) (a5 : ℝ) (a6 : ℝ) (a7 : ℝ) (a8 : ℝ) :
    PhysPy.xfer_ellipsoid a0 a1 a2 a3 a4 a5 a6 a7 a8 = PhysF.xfer_ellipsoid a0 a1 a2 a3 a4 a5 a6 a7 a8 := by
  simp only [PhysPy.xfer_ellipsoid, PhysF.xfer_ellipsoid, pair_xfer_kumar_hartland, pair_xfer_johnson, pair_xfer_clift] <;> rfl

theorem pair_xfer_spherical_cap (a0 : ℝ) (a1 : ℝ) (a2 : ℝ) (a3 : ℝ) (a4 : ℝ) (a5 : List ℝ) (a6 : ℝ) :
    PhysPy.xfer_spherical_cap a0 a1 a2 a3 a4 a5 a6 = PhysF.xfer_spherical_cap a0 a1 a2 a3 a4 a5 a6 := by
  simp only [PhysPy.xfer_spherical_cap, PhysF.xfer_spherical_cap, pair_theta_w_sc, pair_surface_area_sc, pair_xfer_johnson] <;> rfl

theorem pair_mole_fraction (a0 : List ℝ) (a1 : List ℝ) :
    EosPy.mole_fraction a0 a1 = EosF.mole_fraction a0 a1 := rfl

theorem pair_volume_trans (a0 : ℝ) (a1 : ℝ) (a2 : List ℝ) (a3 : List ℝ) (a4 : List ℝ) (a5 : List ℝ) (a6 : List ℝ) (a7 : List ℝ) (a8 : List ℝ) :
    EosPy.volume_trans a0 a1 a2 a3 a4 a5 a6 a7 a8 = EosF.volume_trans a0 a1 a2 a3 a4 a5 a6 a7 a8 := by
  simp only [EosPy.volume_trans, EosF.volume_trans, neg_mul] <;> rfl

theorem pair_kh_insitu (a0 : ℝ) (a1 : ℝ) (a2 : ℝ) (a3 : List ℝ) (a4 : List ℝ) (a5 : List ℝ) (a6 : List ℝ) (a7 : List ℝ) :
    EosPy.kh_insitu a0 a1 a2 a3 a4 a5 a6 a7 = EosF.kh_insitu a0 a1 a2 a3 a4 a5 a6 a7 := by
  simp only [EosPy.kh_insitu, EosF.kh_insitu, neg_div, neg_mul] <;> rfl

theorem pair_sw_solubility (a0 : List ℝ) (a1 : List ℝ) :
    EosPy.sw_solubility a0 a1 = EosF.sw_solubility a0 a1 := rfl

theorem pair_diffusivity (a0 : ℝ) (a1 : List ℝ) :
    EosPy.diffusivity a0 a1 = EosF.diffusivity a0 a1 := rfl

theorem pair_kvsi_hydrate (a0 : ℝ) (a1 : ℝ) (a2 : List ℝ) :
    EosPy.kvsi_hydrate a0 a1 a2 = EosF.kvsi_hydrate a0 a1 a2 := by
  simp only [EosPy.kvsi_hydrate, EosF.kvsi_hydrate, pair_mole_fraction] <;> rfl

/-! ### Matrix / loop-nest routines (full mode), for every cubic root finder `cr` -/

theorem pair_full_mole_fraction (a b : List ℝ) : EosFullPy.mole_fraction a b = EosFullF.mole_fraction a b := by
  rfl

theorem pair_full_volume_trans (T P : ℝ) (a b c d e f g : List ℝ) :
    EosFullPy.volume_trans T P a b c d e f g = EosFullF.volume_trans T P a b c d e f g := by
  simp only [EosFullPy.volume_trans, EosFullF.volume_trans, List.map_map, Function.comp_def, neg_mul]

/-- `coefs`: mole fractions, m(ω) with its ω > 0.49 branch, a_i(T), b_i, the group-contribution δ_ij double loop
    over all pairs i < j with its 15 × 15 inner sum and NaN skip, the mixing rule, A, B, Ap, Bp -/
theorem pair_full_coefs (T P : ℝ) (m M Pc Tc w : List ℝ) (d A B g : List (List ℝ)) (cd : ℝ) :
    EosFullPy.coefs T P m M Pc Tc w d A B g cd = EosFullF.coefs T P m M Pc Tc w d A B g cd := by
  simp only [EosFullPy.coefs, EosFullF.coefs, pair_full_mole_fraction, neg_div]

/-- `z_pr`: cubic assembly and the selection of the gas / liquid compressibility factors among the roots that
    `cr` returns -/
theorem pair_full_z_pr (cr : List ℝ → List ℝ × List ℝ) (T P : ℝ) (m M Pc Tc w : List ℝ) (d A B g : List (List ℝ))
    (cd : ℝ) :
    EosFullPy.z_pr cr T P m M Pc Tc w d A B g cd = EosFullF.z_pr cr T P m M Pc Tc w d A B g cd := by
  simp only [EosFullPy.z_pr, EosFullF.z_pr, pair_full_coefs]

theorem pair_full_fugacity (cr : List ℝ → List ℝ × List ℝ) (T P : ℝ) (m M Pc Tc w : List ℝ) (d A B g : List (List ℝ))
    (cd : ℝ) :
    EosFullPy.fugacity cr T P m M Pc Tc w d A B g cd = EosFullF.fugacity cr T P m M Pc Tc w d A B g cd := by
  simp only [EosFullPy.fugacity, EosFullF.fugacity, pair_full_z_pr]

theorem pair_full_density (cr : List ℝ → List ℝ × List ℝ) (T P : ℝ) (m M Pc Tc Vc w : List ℝ) (d A B g : List (List ℝ))
    (cd : ℝ) (Cp CpT : List ℝ) :
    EosFullPy.density cr T P m M Pc Tc Vc w d A B g cd Cp CpT
      = EosFullF.density cr T P m M Pc Tc Vc w d A B g cd Cp CpT := by
  simp only [EosFullPy.density, EosFullF.density, pair_full_z_pr, pair_full_mole_fraction, pair_full_volume_trans]

/-! ### Signature tables (finite: decided by the kernel over the whole regenerated table) -/

open TamocV.Gen.Signatures in
/-- every library name used at a `dbm_f.<name>(…)` call site of the object layer exists in
    BOTH libraries, with the same parameter names in the same order, and the call site passes
    exactly that many positional arguments -/
theorem call_sites_resolve :
    callSites.all (fun c =>
      match pyParams.lookup c.1, fParams.lookup c.1 with
      | some p, some f => p == f && p.length == c.2.1
      | _, _ => false) = true := by
  decide +kernel

open TamocV.Gen.Signatures in
/-- all 29 routines of the Python fallback have a Fortran routine of the same name and arity,
    and apart from `cubic_roots` (`p` vs `a_t`) the parameter names agree in order -/
theorem routine_pairs_match :
    pyParams.length = 29 ∧
    pyParams.all (fun r =>
      match fParams.lookup r.1 with
      | some f => f.length == r.2.length && (r.1 == "cubic_roots" || f == r.2)
      | none => false) = true := by
  constructor <;> decide +kernel

end TamocV.Props.C08
