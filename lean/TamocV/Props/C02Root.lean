/-
  C02 — existence (and uniqueness) of the Rachford–Rice root in the two-phase branch; property theorems only,
  same namespace as `TamocV.Props.C02` (helper lemmas: TamocV/Lemmas/C02Root.lean).
-/
import TamocV.Lemmas.C02Root

namespace TamocV.Props.C02
open TamocV.Model.Flash TamocV.Lemmas.C02 TamocV.Lemmas.C02Root

/-- **Existence of the Rachford–Rice root** (intermediate value theorem): in the two-phase branch — conditions (4)
    and (5) of the code both fail, i.e. g(0) > 0 ≥ g(1) — the equation g(β) = 0 has a root in [0, 1]; with
    `rr_root_unique` it is THE root, and `rr_result_brackets_root` locates the returned β relative to it. -/
theorem rr_root_exists (z K : List ℝ) (hlen : z.length = K.length) (hz : IsComposition z) (hK : AllPos K)
    (h4 : ¬ ((List.zipWith (fun a b => a * b) z K).sum - 1 ≤ 0))
    (h5 : ¬ (0 < 1 - (List.zipWith (fun a b => a / b) z K).sum)) :
    ∃ r, 0 ≤ r ∧ r ≤ 1 ∧ gGas z K r = 0 := by
  have g0 : 0 ≤ gGas z K 0 := by rw [gGas_at_zero z K hlen, hz.2]; linarith [not_le.mp h4]
  have g1 : gGas z K 1 ≤ 0 := by rw [gGas_at_one z K hlen hK, hz.2]; exact not_lt.mp h5
  have := intermediate_value_Icc' (zero_le_one : (0:ℝ) ≤ 1) (gGas_continuousOn z K hK)
  obtain ⟨r, hr, hg⟩ := this ⟨g1, g0⟩
  exact ⟨r, hr.1, hr.2, hg⟩

/-- existence and uniqueness together -/
theorem rr_root_exists_unique (z K : List ℝ) (hlen : z.length = K.length) (hz : IsComposition z) (hK : AllPos K)
    (h4 : ¬ ((List.zipWith (fun a b => a * b) z K).sum - 1 ≤ 0))
    (h5 : ¬ (0 < 1 - (List.zipWith (fun a b => a / b) z K).sum)) :
    ∃! r, 0 ≤ r ∧ r ≤ 1 ∧ gGas z K r = 0 := by
  obtain ⟨r, h0, h1, hg⟩ := rr_root_exists z K hlen hz hK h4 h5
  refine ⟨r, ⟨h0, h1, hg⟩, ?_⟩
  rintro y ⟨y0, y1, yg⟩
  exact rr_root_unique z K hlen hz hK h4 y r y0 y1 h0 h1 yg hg
end TamocV.Props.C02
