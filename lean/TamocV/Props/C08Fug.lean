/-
  C08 (continued) — what C01 proves about the routines regenerated from dbm_p.py holds, verbatim, of the routines
  regenerated from dbm_eos.f95: the pair theorems `pair_full_*` of Props/C08.lean rewrite one into the other, so the
  physical-state theorems are backend-independent BY THEOREM (not by a tolerance):
    * `fortran_reported_roots_physical`  both compressibility factors of the Fortran `z_pr` are real roots of the
                                         mixture's cubic above the co-volume limit, gas ≥ liquid;
    * `fortran_fugacity_refines`         entry (phase, i) of the Fortran `fugacity` is `Model.Eos.fugacity`;
    * `fortran_fugacity_pos`             every entry of the Fortran `fugacity` is positive;
    * `fortran_density_refines`          the Fortran `density` rows are `Model.Eos.density` at the selected roots;
    * `fortran_gas_not_denser`           gas row ≤ liquid row of the Fortran `density`.
-/
import TamocV.Props.C08
import TamocV.Props.C01Fug

set_option linter.unusedVariables false

namespace TamocV.Props.C08
open TamocV.Model.Eos TamocV.Lemmas.Eos TamocV.Lemmas.EosRefine TamocV.Lemmas.C01 TamocV.Gen TamocV.Props.C01

theorem fortran_reported_roots_physical (cr : List ℝ → List ℝ × List ℝ) (T P : ℝ) (m M Pc Tc w : List ℝ)
    (δ A B G : List (List ℝ)) (cd r0 r1 r2 i0 i1 i2 : ℝ)
    (hcr : ∀ p, cr p = ([r0, r1, r2], [i0, i1, i2])) :
    let c := EosFullF.coefs T P m M Pc Tc w δ A B G cd
    let roots := [(r0, i0), (r1, i1), (r2, i2)]
    0 < c.2.1 → RootsOf c.1 c.2.1 roots →
    ∃ zg zl, (EosFullF.z_pr cr T P m M Pc Tc w δ A B G cd).1 = [[zg], [zl]] ∧
      cubic c.1 c.2.1 zg = 0 ∧ cubic c.1 c.2.1 zl = 0 ∧ c.2.1 < zl ∧ zl ≤ zg ∧
      ((∀ z ∈ roots, z.2 = 0 → c.2.1 < z.1 → ∀ w' ∈ roots, w'.2 = 0 → c.2.1 < w'.1 → z.1 = w'.1) → zl = zg) := by
  rw [← pair_full_coefs, ← pair_full_z_pr]
  exact gen_reported_roots_physical cr T P m M Pc Tc w δ A B G cd r0 r1 r2 i0 i1 i2 hcr

theorem fortran_fugacity_refines (cr : List ℝ → List ℝ × List ℝ) (T P : ℝ) (m M Pc Tc w : List ℝ) (δ A B G : List (List ℝ))
    (cd r0 r1 r2 i0 i1 i2 : ℝ) (n : ℕ) (hcr : ∀ p, cr p = ([r0, r1, r2], [i0, i1, i2]))
    (hm : m.length = n) (hM : M.length = n) (hPc : Pc.length = n) (hTc : Tc.length = n) (hδ : δ.length = n)
    (hδr : ∀ r ∈ δ, r.length = n) :
    let h := TamocV.Model.Eos.coefs n T P (ofL m) (ofL M) (ofL Pc) (ofL Tc) (ofL w) (decide (0 < cd)) (ofM G) (ofM A) (ofM B) (ofM δ)
    let s := selectZ h.B [(r0, i0), (r1, i1), (r2, i2)]
    let f := EosFullF.fugacity cr T P m M Pc Tc w δ A B G cd
    f.length = 2 ∧ ∀ i, i < n →
      (f.getD 0 []).getD i 0 = TamocV.Model.Eos.fugacity h P s.1 i ∧
      (f.getD 1 []).getD i 0 = TamocV.Model.Eos.fugacity h P s.2 i := by
  rw [← pair_full_fugacity]
  exact gen_fugacity_refines cr T P m M Pc Tc w δ A B G cd r0 r1 r2 i0 i1 i2 n hcr hm hM hPc hTc hδ hδr

theorem fortran_fugacity_pos (cr : List ℝ → List ℝ × List ℝ) (T P : ℝ) (m M Pc Tc w : List ℝ) (δ A B G : List (List ℝ))
    (cd r0 r1 r2 i0 i1 i2 : ℝ) (hcr : ∀ p, cr p = ([r0, r1, r2], [i0, i1, i2]))
    (hy : ∀ y ∈ (EosFullF.coefs T P m M Pc Tc w δ A B G cd).2.2.2.2, 0 < y) (hP : 0 < P) :
    ∀ row ∈ EosFullF.fugacity cr T P m M Pc Tc w δ A B G cd, ∀ f ∈ row, 0 < f := by
  rw [← pair_full_fugacity]
  rw [← pair_full_coefs] at hy
  exact gen_fugacity_pos cr T P m M Pc Tc w δ A B G cd r0 r1 r2 i0 i1 i2 hcr hy hP

theorem fortran_density_refines (cr : List ℝ → List ℝ × List ℝ) (T P : ℝ) (m M Pc Tc Vc w : List ℝ) (δ A B G : List (List ℝ))
    (cd : ℝ) (Cp CpT : List ℝ) (r0 r1 r2 i0 i1 i2 : ℝ) (n : ℕ) (hcr : ∀ p, cr p = ([r0, r1, r2], [i0, i1, i2]))
    (hm : m.length = n) (hM : M.length = n) (hPc : Pc.length = n) (hTc : Tc.length = n) (hVc : Vc.length = n)
    (hCp : Cp.length = n) (hCpT : CpT.length = n) :
    let c := EosFullF.coefs T P m M Pc Tc w δ A B G cd
    let s := selectZ c.2.1 [(r0, i0), (r1, i1), (r2, i2)]
    let y := moleFraction n (ofL m) (ofL M)
    let vt := ofL (EosFullF.volume_trans T P m M Pc Tc Vc Cp CpT)
    EosFullF.density cr T P m M Pc Tc Vc w δ A B G cd Cp CpT
      = [[TamocV.Model.Eos.density n T P s.1 y (ofL M) vt], [TamocV.Model.Eos.density n T P s.2 y (ofL M) vt]] := by
  rw [← pair_full_coefs, ← pair_full_volume_trans, ← pair_full_density]
  exact gen_density_refines cr T P m M Pc Tc Vc w δ A B G cd Cp CpT r0 r1 r2 i0 i1 i2 n hcr hm hM hPc hTc hVc hCp hCpT

theorem fortran_gas_not_denser (cr : List ℝ → List ℝ × List ℝ) (T P : ℝ) (m M Pc Tc Vc w : List ℝ) (δ A B G : List (List ℝ))
    (cd : ℝ) (Cp CpT : List ℝ) (r0 r1 r2 i0 i1 i2 : ℝ) (hcr : ∀ p, cr p = ([r0, r1, r2], [i0, i1, i2])) :
    let c := EosFullF.coefs T P m M Pc Tc w δ A B G cd
    let roots := [(r0, i0), (r1, i1), (r2, i2)]
    let Svt := (List.zipWith (fun x y => x * y) (EosFullF.mole_fraction m M)
      (EosFullF.volume_trans T P m M Pc Tc Vc Cp CpT)).sum
    let SM := (List.zipWith (fun x y => x * y) (EosFullF.mole_fraction m M) M).sum
    0 < T → 0 < P → 0 < c.2.1 → RootsOf c.1 c.2.1 roots → 0 ≤ SM →
    0 < (selectZ c.2.1 roots).2 * 8.31451 * T / P - Svt →
    ∃ ρg ρl, EosFullF.density cr T P m M Pc Tc Vc w δ A B G cd Cp CpT = [[ρg], [ρl]] ∧ ρg ≤ ρl ∧ 0 ≤ ρg := by
  rw [← pair_full_coefs, ← pair_full_volume_trans, ← pair_full_density, ← pair_full_mole_fraction]
  exact gen_gas_not_denser cr T P m M Pc Tc Vc w δ A B G cd Cp CpT r0 r1 r2 i0 i1 i2 hcr

end TamocV.Props.C08
