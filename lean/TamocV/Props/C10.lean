/-
  C10 — Intensive properties depend only on composition.
  Property theorems only.  Model: TamocV/Model/Eos.lean (hand transcription of dbm_p.mole_fraction,
  coefs incl. the group-contribution interaction coefficients, mixing rule; tied to /repo by the
  correspondence runs of harness/c01.py and harness/c10.py).

  For ALL component counts n, masses, constants and relabellings σ of the components:
    * scaling all masses by a common non-zero factor leaves the mole fractions, hence A, B, Ap, Bp
      (and everything computed from them: Z, fugacity coefficients, density) unchanged;
    * relabelling the components (with all per-component constants, group vectors and a user δ
      relabelled consistently) merely relabels Ap, Bp, y and leaves A, B unchanged — this uses that the
      group-contribution δ_ij is pairwise and symmetric (`deltaGC_symm`), the property violated by the
      original Python loop `for i in range(j-1)` (repaired in /repo);
    * appending a component of zero mass changes nothing;
    * the equivalent spherical diameter scales with the cube root of the factor.
  Viscosity, interfacial tension, solubility and the flash are not re-proved here: they consume the
  masses only through `mole_fraction` / `coefs` (structural argument) and are checked on the real code
  by harness/c10.py on (m, λm, permuted m, m ⊕ 0) for both back ends.
-/
import TamocV.Lemmas.C10

namespace TamocV.Props.C10
open TamocV.Model.Eos TamocV.Lemmas.Eos TamocV.Lemmas.C10 Finset

theorem moleFraction_smul (n : ℕ) (c : ℝ) (hc : c ≠ 0) (m M : ℕ → ℝ) :
    moleFraction n (fun i => c * m i) M = moleFraction n m M := by
  funext i
  simp only [moleFraction, sumN_eq]
  have : ∑ j ∈ range n, c * m j / M j = c * ∑ j ∈ range n, m j / M j := by
    rw [Finset.mul_sum]; apply Finset.sum_congr rfl; intro j _; ring
  rw [this]
  by_cases hs : ∑ j ∈ range n, m j / M j = 0
  · rw [hs]; simp
  · field_simp

theorem coefs_smul (n : ℕ) (c : ℝ) (hc : c ≠ 0) (T P : ℝ) (m M Pc Tc w : ℕ → ℝ) (cd : Bool)
    (g A B δ : ℕ → ℕ → ℝ) :
    coefs n T P (fun i => c * m i) M Pc Tc w cd g A B δ = coefs n T P m M Pc Tc w cd g A B δ := by
  simp only [coefs, moleFraction_smul n c hc]

theorem moleFraction_perm (n : ℕ) (σ : Equiv.Perm ℕ) (h : PermOn n σ) (m M : ℕ → ℝ) (i : ℕ) :
    moleFraction n (m ∘ σ) (M ∘ σ) i = moleFraction n m M (σ i) := by
  simp only [moleFraction, sumN_eq, Function.comp]
  rw [sum_perm n σ h (fun j => m j / M j)]

theorem moleFraction_append_zero (n : ℕ) (m M : ℕ → ℝ) (hz : m n = 0) (i : ℕ) :
    moleFraction (n+1) m M i = moleFraction n m M i := by
  simp only [moleFraction, sumN_eq, Finset.sum_range_succ, hz, zero_div, add_zero]

theorem mix_perm (n : ℕ) (σ : Equiv.Perm ℕ) (h : PermOn n σ) (T P : ℝ) (y a b : ℕ → ℝ) (δ : ℕ → ℕ → ℝ) :
    (mix n T P (y ∘ σ) (a ∘ σ) (b ∘ σ) (fun i j => δ (σ i) (σ j))).A = (mix n T P y a b δ).A ∧
    (mix n T P (y ∘ σ) (a ∘ σ) (b ∘ σ) (fun i j => δ (σ i) (σ j))).B = (mix n T P y a b δ).B ∧
    (∀ i, (mix n T P (y ∘ σ) (a ∘ σ) (b ∘ σ) (fun i j => δ (σ i) (σ j))).Ap i = (mix n T P y a b δ).Ap (σ i)) ∧
    (∀ i, (mix n T P (y ∘ σ) (a ∘ σ) (b ∘ σ) (fun i j => δ (σ i) (σ j))).Bp i = (mix n T P y a b δ).Bp (σ i)) := by
  simp only [mix, sumN_eq, Function.comp, Num.real_rpow, Num.real_one, Num.real_ofNat, Num.real_npow]
  have hb : ∑ i ∈ range n, y (σ i) * b (σ i) = ∑ i ∈ range n, y i * b i := sum_perm n σ h (fun i => y i * b i)
  have haT : ∑ j ∈ range n, ∑ i ∈ range n, y (σ i) * y (σ j) * (a (σ i) * a (σ j)) ^ ((1:ℝ)/2) * (1 - δ (σ i) (σ j))
      = ∑ j ∈ range n, ∑ i ∈ range n, y i * y j * (a i * a j) ^ ((1:ℝ)/2) * (1 - δ i j) := by
    rw [← sum_perm n σ h (fun j => ∑ i ∈ range n, y i * y j * (a i * a j) ^ ((1:ℝ)/2) * (1 - δ i j))]
    apply Finset.sum_congr rfl; intro j _
    exact sum_perm n σ h (fun i => y i * y (σ j) * (a i * a (σ j)) ^ ((1:ℝ)/2) * (1 - δ i (σ j)))
  refine ⟨by rw [haT], by rw [hb], ?_, ?_⟩
  · intro i
    rw [haT]
    congr 2
    exact sum_perm n σ h (fun j => y j * (a j) ^ ((1:ℝ)/2) * (1 - δ j (σ i)))
  · intro i; rw [hb]

theorem mix_append_zero (n : ℕ) (T P : ℝ) (y a b : ℕ → ℝ) (δ : ℕ → ℕ → ℝ) (hz : y n = 0) :
    (mix (n+1) T P y a b δ).A = (mix n T P y a b δ).A ∧
    (mix (n+1) T P y a b δ).B = (mix n T P y a b δ).B ∧
    (∀ i, (mix (n+1) T P y a b δ).Ap i = (mix n T P y a b δ).Ap i) ∧
    (∀ i, (mix (n+1) T P y a b δ).Bp i = (mix n T P y a b δ).Bp i) := by
  simp only [mix, sumN_eq, Finset.sum_range_succ, hz, zero_mul, mul_zero, add_zero, Finset.sum_const_zero]
  exact ⟨trivial, trivial, fun _ => trivial, fun _ => trivial⟩

/-- the interaction matrix used by the mixing rule is equivariant under a relabelling of the
    components (group-contribution δ is pairwise and symmetric; a user matrix is relabelled with them) -/
theorem deltaUsed_perm (σ : Equiv.Perm ℕ) (cd : Bool) (T : ℝ) (a b : ℕ → ℝ) (g : ℕ → ℕ → ℝ)
    (A B δ : ℕ → ℕ → ℝ) (i j : ℕ) :
    deltaUsed cd T (a ∘ σ) (b ∘ σ) (fun r => g (σ r)) A B (fun r s => δ (σ r) (σ s)) i j
      = deltaUsed cd T a b g A B δ (σ i) (σ j) := by
  unfold deltaUsed
  have hne : (i != j) = (σ i != σ j) := by
    by_cases h : i = j
    · subst h; rw [bne_self_eq_false, bne_self_eq_false]
    · have : σ i ≠ σ j := fun hh => h (σ.injective hh)
      rw [bne_iff_ne.mpr h, bne_iff_ne.mpr this]
  rw [hne]
  by_cases hc : (cd && σ i != σ j) = true
  · simp only [hc, if_true, Function.comp]
    have hij : σ i ≠ σ j := by
      simp only [Bool.and_eq_true, bne_iff_ne] at hc; exact hc.2
    have hij' : i ≠ j := fun h => hij (by rw [h])
    by_cases h1 : i < j <;> by_cases h2 : σ i < σ j
    · simp only [h1, h2, if_true]
    · have h2' : σ j < σ i := lt_of_le_of_ne (not_lt.mp h2) (Ne.symm hij)
      simp only [h1, h2, if_true, if_false]
      exact deltaGC_symm _ _ _ _ _ _ _ _ _
    · simp only [h1, h2, if_true, if_false]
      exact deltaGC_symm _ _ _ _ _ _ _ _ _
    · simp only [h1, h2, if_false]
  · simp only [hc]
    simp

/-- **Relabelling the components relabels the coefficients** (all of `coefs`, including the
    group-contribution interaction coefficients computed inside it). -/
theorem coefs_perm (n : ℕ) (σ : Equiv.Perm ℕ) (h : PermOn n σ) (T P : ℝ) (m M Pc Tc w : ℕ → ℝ) (cd : Bool)
    (g A B δ : ℕ → ℕ → ℝ) :
    let c' := coefs n T P (m ∘ σ) (M ∘ σ) (Pc ∘ σ) (Tc ∘ σ) (w ∘ σ) cd (fun r => g (σ r)) A B (fun r s => δ (σ r) (σ s))
    let c := coefs n T P m M Pc Tc w cd g A B δ
    c'.A = c.A ∧ c'.B = c.B ∧ (∀ i, c'.Ap i = c.Ap (σ i)) ∧ (∀ i, c'.Bp i = c.Bp (σ i)) ∧ (∀ i, c'.yk i = c.yk (σ i)) := by
  intro c' c
  have hy : moleFraction n (m ∘ σ) (M ∘ σ) = (moleFraction n m M) ∘ σ := by
    funext i; exact moleFraction_perm n σ h m M i
  have hd : deltaUsed cd T ((fun i => aTk T (Tc i) (Pc i) (w i)) ∘ σ) ((fun i => bk (Tc i) (Pc i)) ∘ σ)
      (fun r => g (σ r)) A B (fun r s => δ (σ r) (σ s))
      = fun i j => deltaUsed cd T (fun i => aTk T (Tc i) (Pc i) (w i)) (fun i => bk (Tc i) (Pc i)) g A B δ (σ i) (σ j) := by
    funext i j; exact deltaUsed_perm σ cd T _ _ g A B δ i j
  have hc' : c' = mix n T P ((moleFraction n m M) ∘ σ) ((fun i => aTk T (Tc i) (Pc i) (w i)) ∘ σ)
      ((fun i => bk (Tc i) (Pc i)) ∘ σ)
      (fun i j => deltaUsed cd T (fun i => aTk T (Tc i) (Pc i) (w i)) (fun i => bk (Tc i) (Pc i)) g A B δ (σ i) (σ j)) := by
    simp only [c', coefs, hy]
    rw [← hd]
    rfl
  have := mix_perm n σ h T P (moleFraction n m M) (fun i => aTk T (Tc i) (Pc i) (w i)) (fun i => bk (Tc i) (Pc i))
    (deltaUsed cd T (fun i => aTk T (Tc i) (Pc i) (w i)) (fun i => bk (Tc i) (Pc i)) g A B δ)
  rw [hc']
  refine ⟨this.1, this.2.1, this.2.2.1, this.2.2.2, ?_⟩
  intro i
  simp only [mix, coefs, c, Function.comp]

/-- **A component of zero mass is invisible.** -/
theorem coefs_append_zero (n : ℕ) (T P : ℝ) (m M Pc Tc w : ℕ → ℝ) (cd : Bool) (g A B δ : ℕ → ℕ → ℝ)
    (hz : m n = 0) :
    let c' := coefs (n+1) T P m M Pc Tc w cd g A B δ
    let c := coefs n T P m M Pc Tc w cd g A B δ
    c'.A = c.A ∧ c'.B = c.B ∧ (∀ i, c'.Ap i = c.Ap i) ∧ (∀ i, c'.Bp i = c.Bp i) ∧ (∀ i, c'.yk i = c.yk i) := by
  intro c' c
  have hy : moleFraction (n+1) m M = moleFraction n m M := by
    funext i; exact moleFraction_append_zero n m M hz i
  have hyn : moleFraction n m M n = 0 := by
    simp only [moleFraction, hz, zero_div]
  have := mix_append_zero n T P (moleFraction n m M) (fun i => aTk T (Tc i) (Pc i) (w i)) (fun i => bk (Tc i) (Pc i))
    (deltaUsed cd T (fun i => aTk T (Tc i) (Pc i) (w i)) (fun i => bk (Tc i) (Pc i)) g A B δ) hyn
  simp only [c', c, coefs, hy]
  refine ⟨this.1, this.2.1, this.2.2.1, this.2.2.2, fun i => ?_⟩
  simp only [mix]

/-- equivalent spherical diameter: scaling all masses by c > 0 scales it by c^(1/3) when the density is
    intensive -/
theorem diameter_smul (c mtot rho : ℝ) (hc : 0 ≤ c) (hm : 0 ≤ mtot) (hr : 0 < rho) :
    (6 * (c * mtot) / (Real.pi * rho)) ^ ((1:ℝ)/3) = c ^ ((1:ℝ)/3) * (6 * mtot / (Real.pi * rho)) ^ ((1:ℝ)/3) := by
  have : 6 * (c * mtot) / (Real.pi * rho) = c * (6 * mtot / (Real.pi * rho)) := by ring
  rw [this, Real.mul_rpow hc]
  have := Real.pi_pos
  positivity

/-! ### non-vacuity -/
example : PermOn 3 (Equiv.swap 0 2) := by
  intro i
  by_cases h0 : i = 0
  · subst h0; simp [Equiv.swap_apply_left]
  · by_cases h2 : i = 2
    · subst h2; simp [Equiv.swap_apply_right]
    · rw [Equiv.swap_apply_of_ne_of_ne h0 h2]

end TamocV.Props.C10
