/-
  C16 (continued) — the closed-form routines of tamoc/psf.py REGENERATED from the source on every run
  (Gen/PsfPy.lean, translate/gen.py target `psf`) equal the hand model Model/Psf.lean, over the reals, for all
  arguments: the maximum stable size `de_max_oil` (the cap of the property), the two conversions between the
  Rosin–Rammler and the log-normal parameters, and the Wang et al. median.  The theorems of Props/C16.lean about
  `deMaxOil`, `ln2rr`, `rr2ln`, `wangD50` therefore speak about what psf.py says NOW; an edit of one of these
  routines breaks the equation below even when the change is far inside the correspondence tolerance.
-/
import TamocV.Props.C16
import TamocV.Gen.PsfPy

set_option linter.unusedSimpArgs false
set_option linter.unusedVariables false

namespace TamocV.Props.C16
open TamocV.Model.Psf TamocV.Gen

theorem gen_de_max_oil_refines (rho_p sigma rho : ℝ) :
    PsfPy.de_max_oil rho_p sigma rho = deMaxOil rho_p sigma rho := by
  simp only [PsfPy.de_max_oil, deMaxOil, G, Num.real_ofSci, Num.real_sqrt, Num.real_ofNat]
  norm_num

theorem gen_ln2rr_refines (d50 sigma : ℝ) : PsfPy.ln2rr d50 sigma = ln2rr d50 sigma := by
  simp only [PsfPy.ln2rr, ln2rr, Num.real_ofSci, Num.real_log, Num.real_exp, Num.real_ofNat, Num.real_one]
  norm_num

theorem gen_rr2ln_refines (d50 k alpha : ℝ) : PsfPy.rr2ln d50 k alpha = rr2ln d50 k alpha := by
  simp only [PsfPy.rr2ln, rr2ln, Num.real_ofSci, Num.real_log, Num.real_rpow, Num.real_ofNat, Num.real_one]
  norm_num

theorem gen_wang_etal_d50_refines (A n Ug rho_g mu_g sigma_g Ul rho_l rho mu : ℝ) :
    PsfPy.wang_etal_d50 A n Ug rho_g mu_g sigma_g Ul rho_l rho mu = wangD50 A n Ug rho_g mu_g sigma_g Ul rho_l rho mu := by
  have hiff : (n ≤ 1 ∧ 1 ≤ n) ↔ (n - 1 ≤ 0 ∧ 0 ≤ n - 1) := by constructor <;> intro h <;> constructor <;> linarith [h.1, h.2]
  by_cases h : n ≤ 1 ∧ 1 ≤ n
  · have h' := hiff.mp h
    simp only [PsfPy.wang_etal_d50, wangD50, G, isZero, Num.real_ofSci, Num.real_sqrt, Num.real_rpow, Num.real_npow,
      Num.real_ofNat, Num.real_one, Num.real_zero, if_pos h, decide_eq_true h'.1, decide_eq_true h'.2, Bool.and_self, if_true]
    norm_num
  · have h' : ¬ (n - 1 ≤ 0 ∧ 0 ≤ n - 1) := fun x => h (hiff.mpr x)
    have hb : (decide (n - 1 ≤ 0) && decide (0 ≤ n - 1)) = false := by
      simpa [Bool.and_eq_true, decide_eq_true_eq] using h'
    simp only [PsfPy.wang_etal_d50, wangD50, G, isZero, Num.real_ofSci, Num.real_sqrt, Num.real_rpow, Num.real_npow,
      Num.real_ofNat, Num.real_one, Num.real_zero, if_neg h, hb, Bool.false_eq_true, if_false]
    norm_num

end TamocV.Props.C16
