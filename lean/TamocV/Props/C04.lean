/-
  C04 — Bent-plume simulations conserve every released compound   (PARTIAL by design)

  Property theorems only.  What is proved here (for every particle list, every number of
  compounds, every history of the loop):

  * a linear functional annihilated by the right-hand side is preserved by any integrator step
    of the form  q' = Σ a_j q_j + Σ w_k f(x_k),  Σ a_j = 1  (`linear_invariant_preserved`);
  * with C03's compound budget, in water free of the compound (`ca = 0`) and without
    biodegradation (`k_bio = 0`) the per-compound total (particles + dissolved pool) is such a
    functional (`compound_total_annihilated`, `compound_total_step`), likewise the mass slot of an
    inert particle (`inert_mass_step`);
  * `correct_temperature` and `correct_particle_tracking` leave every compound total and every
    mass slot unchanged (they touch heat / position slots only);
  * after exit (`integrate = False`) the position slots are the NaN mark and the particle's
    whole block has zero derivative;
  * the loop of `lmp.calculate` returns after at most `cap + 1 = 50 001` iterations, either
    because one of the five documented stop tests fired or because the integrator reported failure.

  NOT proved (partial): VODE itself — that its steps have the affine form above is contract 6 of
  DESIGN §3 (the theorem is about any integrator that has it); that the closure values keep the
  shape hypotheses; floating point.  `exited_slot_step_partial` needs all history states used
  by the step to carry the same slot value — a multistep integrator violates this for the
  first steps after the exit (the history still contains the pre-exit trend), which is exactly
  what the harness observes on the real code (key `exit-masses-drift`).
-/
import TamocV.Real
import TamocV.Lemmas.Basic
import TamocV.Lemmas.C03
import TamocV.Lemmas.C04
import TamocV.Props.C03
import TamocV.Model.Lmp
import Mathlib.Tactic.Ring
import Mathlib.Tactic.Linarith
import Mathlib.Tactic.NormNum

namespace TamocV.Props.C04
open TamocV.Model.Lmp TamocV.Lemmas.C03 TamocV.Lemmas.C04

/-- **Any linear functional annihilated by the right-hand side is preserved by the step.**
    `states` are the stored states the integrator combines (weights sum to 1), `rhs` the weighted
    right-hand-side evaluations. -/
theorem linear_invariant_preserved {n : Nat} {L : List ℝ → ℝ} (hL : LinearOn n L) (L0 : ℝ)
    (states rhs : List (ℝ × List ℝ))
    (hs : ∀ t ∈ states, t.2.length = n ∧ L t.2 = L0)
    (hr : ∀ t ∈ rhs, t.2.length = n ∧ L t.2 = 0)
    (hsum : (states.map (fun t => t.1)).sum = 1) :
    L (integratorStep n states rhs) = L0 := by
  unfold integratorStep
  rw [hL.add _ _ (linComb_length n states (fun t ht => (hs t ht).1))
        (linComb_length n rhs (fun t ht => (hr t ht).1)),
      L_linComb hL states (fun t ht => (hs t ht).1), L_linComb hL rhs (fun t ht => (hr t ht).1)]
  have h1 : (states.map (fun t => t.1 * L t.2)).sum = L0 := by
    have : states.map (fun t => t.1 * L t.2) = states.map (fun t => L0 * t.1) := by
      apply List.map_congr_left
      intro t ht
      rw [(hs t ht).2]; ring
    rw [this, List.sum_map_mul_left, hsum]; ring
  have h2 : (rhs.map (fun t => t.1 * L t.2)).sum = 0 := by
    apply List.sum_eq_zero
    intro x hx
    obtain ⟨t, ht, rfl⟩ := List.mem_map.mp hx
    rw [(hr t ht).2]; ring
  rw [h1, h2]; ring

/-- The compound total `totalOf c ps` (linear: `Lemmas.C04.totalOf_linear`) is annihilated by `lmp.derivs` when the ambient is free of compound `c` and nothing
    biodegrades — at ANY state and for ANY closure values (`e`, `ps'` are those of the
    evaluation; only the shape of the particle list is shared with the read-out) -/
theorem compound_total_annihilated (c : Nat) (ps ps' : List (Particle ℝ)) (e : Env ℝ)
    (hshape : shape ps' = shape ps) (hE : WfE e) (hW : Wf e ps') (hc : c < e.nchems)
    (hca : e.ca_chems.getD c 0 = 0) (hke : e.k_bio.getD c 0 = 0)
    (hkp : ∀ p ∈ ps', p.k_bio.getD c 0 = 0) :
    totalOf c ps (derivs e ps') = 0 := by
  unfold totalOf
  rw [compoundTotal_shape c ps ps' _ hshape.symm]
  exact TamocV.Props.C03.compound_conserved e ps' hE hW c hc hca hke hkp

/-- **Conservation through one integrator step**: if every stored state used by the step carries the
    compound total `T0` and every right-hand-side evaluation is an `lmp.derivs` vector of a
    compound-free, biodegradation-free configuration, the new state carries `T0`. -/
theorem compound_total_step (c : Nat) (ps : List (Particle ℝ)) (n : Nat) (T0 : ℝ)
    (states : List (ℝ × List ℝ)) (evals : List (ℝ × Env ℝ × List (Particle ℝ)))
    (hs : ∀ t ∈ states, t.2.length = n ∧ totalOf c ps t.2 = T0)
    (hev : ∀ ev ∈ evals, (derivs ev.2.1 ev.2.2).length = n ∧ shape ev.2.2 = shape ps ∧ WfE ev.2.1 ∧
        Wf ev.2.1 ev.2.2 ∧ c < ev.2.1.nchems ∧ ev.2.1.ca_chems.getD c 0 = 0 ∧ ev.2.1.k_bio.getD c 0 = 0 ∧
        ∀ p ∈ ev.2.2, p.k_bio.getD c 0 = 0)
    (hsum : (states.map (fun t => t.1)).sum = 1) :
    totalOf c ps (integratorStep n states (evals.map (fun ev => (ev.1, derivs ev.2.1 ev.2.2)))) = T0 := by
  apply linear_invariant_preserved (totalOf_linear c ps n) T0 states _ hs _ hsum
  intro t ht
  obtain ⟨ev, hev', rfl⟩ := List.mem_map.mp ht
  obtain ⟨hl, hsh, hE, hW, hc, hca, hke, hkp⟩ := hev ev hev'
  exact ⟨hl, compound_total_annihilated c ps ev.2.2 ev.2.1 hsh hE hW hc hca hke hkp⟩

/-- **The two post-step corrections do not change any compound total** (`q` is the full state
    vector; the corrected vector is what `Lmp.correct` of the driver computes). -/
theorem corrections_preserve_total (c : Nat) (ps : List (Particle ℝ)) (hs : List ℝ) (mark : ℝ) (q : List ℝ)
    (hlen : 11 + slotsLen ps ≤ q.length) (hc : ∀ p ∈ ps, p.issoluble = true → c < p.nc) :
    totalOf c ps (q.take 11 ++ correctParticleTracking mark ps (correctTemperature ps hs (q.drop 11)))
      = totalOf c ps q := by
  unfold totalOf
  have h11 : (q.take 11).length = 11 := by simp; omega
  have hd : slotsLen ps ≤ (q.drop 11).length := by simp; omega
  rw [drop_append_eq _ _ _ h11,
    compoundTotal_correctParticleTracking c mark ps _
      (by rw [correctTemperature_length ps hs _ hd]; exact hd) hc,
    compoundTotal_correctTemperature c ps hs _ hd hc]

/-- … nor any mass slot (`k < nc`) of any particle -/
theorem corrections_preserve_mass_slots (ps : List (Particle ℝ)) (hs : List ℝ) (mark : ℝ) (q : List ℝ)
    (hlen : 11 + slotsLen ps ≤ q.length) (i : Nat) (p : Particle ℝ) (hi : ps[i]? = some p) (k : Nat)
    (hk : k < p.nc) :
    slotOf ps i k (q.take 11 ++ correctParticleTracking mark ps (correctTemperature ps hs (q.drop 11)))
      = slotOf ps i k q := by
  unfold slotOf
  have h11 : (q.take 11).length = 11 := by simp; omega
  have hd : slotsLen ps ≤ (q.drop 11).length := by simp; omega
  rw [drop_append_eq _ _ _ h11,
    particleBlock_correctParticleTracking mark ps _ i p
      (by rw [correctTemperature_length ps hs _ hd]; exact hd) hi]
  split
  · exact massSlot_correctTemperature ps hs _ i p k hd hi hk
  · rw [getD_append_left _ _ _ (by
        rw [List.length_take, particleBlock_full_length ps _ i p
          (by rw [correctTemperature_length ps hs _ hd]; exact hd) hi]
        omega),
      getD_take _ _ _ (by omega)]
    exact massSlot_correctTemperature ps hs _ i p k hd hi hk


/-- **Whole run, solver sequence**: every state the solver ever holds carries the value `L y0` of a linear
    functional annihilated by all right-hand sides — by induction over the run, whatever history each step uses. -/
theorem run_invariant {n : Nat} {L : List ℝ → ℝ} (hL : LinearOn n L) (Ann : List ℝ → Prop)
    (hAnn : ∀ f, Ann f → L f = 0) (y0 : List ℝ) (ys : List (List ℝ)) (hrun : SolverRun n Ann y0 ys) :
    ∀ y ∈ ys, y.length = n ∧ L y = L y0 := by
  induction hrun with
  | init h0 =>
    intro y hy
    simp only [List.mem_singleton] at hy
    subst hy; exact ⟨h0, rfl⟩
  | step ys states rhs _ hst hrhs hsum ih =>
    intro y hy
    rcases List.mem_append.mp hy with h | h
    · exact ih y h
    · simp only [List.mem_singleton] at h
      subst h
      have hs : ∀ t ∈ states, t.2.length = n ∧ L t.2 = L y0 := fun t ht => ih t.2 (hst t ht)
      exact ⟨integratorStep_length n states rhs (fun t ht => (hs t ht).1) (fun t ht => (hrhs t ht).1),
        linear_invariant_preserved hL (L y0) states rhs hs (fun t ht => ⟨(hrhs t ht).1, hAnn _ (hrhs t ht).2⟩) hsum⟩

/-- **Whole run, stored rows** (the two-sequence structure of `lmp.calculate`): the solver advances its own
    uncorrected states; what is STORED after each step is the corrected copy
    `take 11 ++ correctParticleTracking (correctTemperature …)`.  Every stored row carries the compound total of the
    first element, for any heats written by `correct_temperature` and any in/out flags. -/
theorem stored_rows_conserve (c : Nat) (ps : List (Particle ℝ)) (n : Nat) (y0 : List ℝ) (ys : List (List ℝ))
    (hrun : SolverRun n (CleanRhs c ps) y0 ys) (hn : 11 + slotsLen ps ≤ n)
    (hc : ∀ p ∈ ps, p.issoluble = true → c < p.nc) :
    ∀ y ∈ ys, ∀ (flags : List (Particle ℝ)) (hs : List ℝ) (mark : ℝ), shape flags = shape ps →
      totalOf c ps (y.take 11 ++ correctParticleTracking mark flags (correctTemperature flags hs (y.drop 11)))
        = totalOf c ps y0 := by
  intro y hy flags hs mark hsh
  have hinv := run_invariant (totalOf_linear c ps n) (CleanRhs c ps)
    (by
      rintro f ⟨e, ps', rfl, hshape, hE, hW, hce, hca, hke, hkp⟩
      exact compound_total_annihilated c ps ps' e hshape hE hW hce hca hke hkp)
    y0 ys hrun y hy
  have hslots : slotsLen flags = slotsLen ps := slotsLen_shape flags ps hsh
  have hcf := soluble_lt_shape c flags ps hsh hc
  rw [← hinv.2]
  unfold totalOf
  rw [compoundTotal_shape c ps flags _ hsh.symm, compoundTotal_shape c ps flags (y.drop 11) hsh.symm]
  have := corrections_preserve_total c flags hs mark y (by rw [hslots, hinv.1]; exact hn) hcf
  unfold totalOf at this
  exact this

/-- **Inert mass**: the mass slot of an inert particle with zero rate constant has zero derivative
    (inside or outside the plume), hence is preserved by every step. -/
theorem inert_mass_step (ps : List (Particle ℝ)) (i : Nat) (n : Nat) (m0 : ℝ)
    (states : List (ℝ × List ℝ)) (evals : List (ℝ × Env ℝ × List (Particle ℝ)))
    (hs : ∀ t ∈ states, t.2.length = n ∧ slotOf ps i 0 t.2 = m0)
    (hev : ∀ ev ∈ evals, (derivs ev.2.1 ev.2.2).length = n ∧ shape ev.2.2 = shape ps ∧ WfE ev.2.1 ∧
        Wf ev.2.1 ev.2.2 ∧ ∃ p, ev.2.2[i]? = some p ∧ p.issoluble = false ∧ ∀ k ∈ p.k_bio, k = 0)
    (hsum : (states.map (fun t => t.1)).sum = 1) :
    slotOf ps i 0 (integratorStep n states (evals.map (fun ev => (ev.1, derivs ev.2.1 ev.2.2)))) = m0 := by
  apply linear_invariant_preserved (slotOf_linear ps i 0 n) m0 states _ hs _ hsum
  intro t ht
  obtain ⟨ev, hev', rfl⟩ := List.mem_map.mp ht
  obtain ⟨hl, hsh, hE, hW, p, hp, hsol, hk⟩ := hev ev hev'
  refine ⟨hl, ?_⟩
  unfold slotOf
  rw [particleBlock_shape ps ev.2.2 i _ hsh.symm, derivs_drop11,
    particleBlock_blocks ev.2.1 hE _ ev.2.2 hW i p hp]
  exact inert_block_mass_zero ev.2.1 p hsol hk

/-- **After exit (1)**: `correct_particle_tracking` leaves the block of an integrated particle alone and
    replaces exactly the three position slots of a particle with `integrate = False` by the mark. -/
theorem after_exit_positions_marked (mark : ℝ) (ps : List (Particle ℝ)) (v : List ℝ) (i : Nat) (p : Particle ℝ)
    (hlen : slotsLen ps ≤ v.length) (hi : ps[i]? = some p) :
    particleBlock ps i (correctParticleTracking mark ps v)
      = if p.integrate = true then particleBlock ps i v
        else (particleBlock ps i v).take (p.nc + 2) ++ [mark, mark, mark] :=
  particleBlock_correctParticleTracking mark ps v i p hlen hi

/-- **After exit (2)**: the whole block (masses, heat, age, position) of a particle with
    `integrate = False` has zero derivative. -/
theorem after_exit_zero_derivative (e : Env ℝ) (ps : List (Particle ℝ)) (hE : WfE e) (hW : Wf e ps)
    (i : Nat) (p : Particle ℝ) (hi : ps[i]? = some p) (hout : p.integrate = false) :
    particleBlock ps i ((derivs e ps).drop 11) = List.replicate (p.nc + 5) 0 := by
  rw [derivs_drop11, particleBlock_blocks e hE _ ps hW i p hi]
  exact TamocV.Props.C03.outside_zero e p hout

/-- **After exit (3), PARTIAL**: a slot of an exited particle is unchanged by a step IF every stored state the step
    combines already carries the same value `x0` of that slot.  For a one-step method this is the single previous
    state, so the slot is frozen from the exit on.  For the BDF method lmp.calculate actually uses the hypothesis is
    FALSE during the first stored steps after the exit (the history holds pre-exit values with a trend), and nothing
    here bounds how long VODE keeps old history; on the real code the slot moves by up to ~17 times the per-step
    tolerance in the first step and settles within about 8 stored steps (harness, key `exit-masses-drift`).
    "Masses stop changing at exit" is therefore NOT a theorem of this model, only this conditional statement. -/
theorem exited_slot_step_partial (ps : List (Particle ℝ)) (i k : Nat) (n : Nat) (x0 : ℝ)
    (states : List (ℝ × List ℝ)) (evals : List (ℝ × Env ℝ × List (Particle ℝ)))
    (hs : ∀ t ∈ states, t.2.length = n ∧ slotOf ps i k t.2 = x0)
    (hev : ∀ ev ∈ evals, (derivs ev.2.1 ev.2.2).length = n ∧ shape ev.2.2 = shape ps ∧ WfE ev.2.1 ∧
        Wf ev.2.1 ev.2.2 ∧ ∃ p, ev.2.2[i]? = some p ∧ p.integrate = false)
    (hsum : (states.map (fun t => t.1)).sum = 1) :
    slotOf ps i k (integratorStep n states (evals.map (fun ev => (ev.1, derivs ev.2.1 ev.2.2)))) = x0 := by
  apply linear_invariant_preserved (slotOf_linear ps i k n) x0 states _ hs _ hsum
  intro t ht
  obtain ⟨ev, hev', rfl⟩ := List.mem_map.mp ht
  obtain ⟨hl, hsh, hE, hW, p, hp, hout⟩ := hev ev hev'
  refine ⟨hl, ?_⟩
  unfold slotOf
  rw [particleBlock_shape ps ev.2.2 i _ hsh.symm, after_exit_zero_derivative ev.2.1 ev.2.2 hE hW i p hp hout]
  exact getD_replicate_zero _ _

/-- **Stop reasons / iteration cap** (any number type): `lmp.calculate` with iteration cap `cap`
    (50 000 in the code) returns after at most `cap + 1` passes through the loop body; it returns
    either because at least one of the five stop tests fired, or because the integrator reported
    failure at the top of an iteration; the fuel of the model is never exhausted. -/
theorem stop_reason {α : Type} [Num α] (cap : Nat) (succ : Nat → Bool) (obs : Nat → Obs α) :
    match calculate cap succ obs with
    | .stopped c r => (r.neutral = true ∨ r.distance = true ∨ r.cap = true ∨ r.surface = true ∨ r.stall = true)
                        ∧ 1 ≤ c.k ∧ c.k ≤ cap + 1
    | .failed c => succ c.k = false ∧ c.k ≤ cap
    | .outOfFuel _ => False := by
  have h := loop_good cap succ obs (cap + 1) { k := 0, top := 0, neutral := 0 } (by simp) (by omega)
  unfold calculate
  generalize loop cap succ obs (cap + 1) { k := 0, top := 0, neutral := 0 } = out at h
  cases out with
  | stopped c r =>
    obtain ⟨hr, h1, h2⟩ := h
    refine ⟨?_, h2, h1⟩
    simp only [Reasons.any, Bool.or_eq_true] at hr
    tauto
  | failed c => exact h
  | outOfFuel c => exact h


/-- **The loop stops at the FIRST pass in which one of the five tests fires** (any number type): if `calculate`
    returns `stopped c r`, then `r` are exactly the tests of pass `c.k - 1` evaluated with the counters accumulated
    over the earlier passes, at least one of them holds, and in no earlier pass did any test hold; if it returns
    `failed c`, the integrator reported failure at the top of pass `c.k` and no test had fired before.  Together
    with `stop_tests` (Lemmas: what each test compares) this ties the ending to the stored observations. -/
theorem stops_at_first_test {α : Type} [Num α] (cap : Nat) (succ : Nat → Bool) (obs : Nat → Obs α) :
    match calculate cap succ obs with
    | .stopped c r => ∃ j, c.k = j + 1 ∧ c = ctlAt cap obs (j + 1) ∧ r = testsAt cap obs j ∧ r.any = true ∧
        ∀ i, i < j → succ i = true ∧ (testsAt cap obs i).any = false
    | .failed c => succ c.k = false ∧ c = ctlAt cap obs c.k ∧ ∀ i, i < c.k → succ i = true ∧ (testsAt cap obs i).any = false
    | .outOfFuel _ => True := by
  have h := loop_spec cap succ obs (cap + 1) 0
  unfold calculate
  have h0 : ({ k := 0, top := 0, neutral := 0 } : Ctl) = ctlAt cap obs 0 := rfl
  rw [h0]
  generalize loop cap succ obs (cap + 1) (ctlAt cap obs 0) = out at h
  cases out with
  | stopped c r =>
    obtain ⟨j, _, h1, h2, h3, _, h5⟩ := h
    exact ⟨j, by rw [h1, ctlAt_k], h1, h2, h3, fun i hi => h5 i (Nat.zero_le _) hi⟩
  | failed c =>
    obtain ⟨j, _, h1, h2, h5⟩ := h
    have hk : c.k = j := by rw [h1, ctlAt_k]
    exact ⟨by rw [hk]; exact h2, by rw [hk]; exact h1, fun i hi => h5 i (Nat.zero_le _) (by omega)⟩
  | outOfFuel c => trivial

/-! ### non-vacuity -/

/-- the hypotheses of `compound_total_annihilated` are satisfiable by a state with a dissolving particle -/
example : totalOf 0 exPs0 (derivs exEnv0 exPs0) = 0 := by
  apply compound_total_annihilated 0 exPs0 exPs0 exEnv0 rfl
  · constructor <;> rfl
  · intro p hp
    simp only [exPs0, List.mem_cons, List.not_mem_nil, or_false] at hp
    rcases hp with rfl | rfl | rfl <;> constructor <;> simp [exSol, exInert, exEnv0, exEnv]
  · simp [exEnv0, exEnv]
  · simp [exEnv0]
  · simp [exEnv0]
  · intro p hp
    simp only [exPs0, List.mem_cons, List.not_mem_nil, or_false] at hp
    rcases hp with rfl | rfl | rfl <;> simp

/-- the loop with cap 1 and no test ever firing stops at the cap after 2 passes -/
example : calculate (α := ℝ) 1 (fun _ => true)
    (fun _ => { Jz0 := -1, Jz1 := -1, dr0 := 1, dr1 := 1, s := 1, sPrev := 0, z := 5, D := 1, sdMax := 10 })
      = .stopped { k := 2, top := 0, neutral := 0 }
          { neutral := false, distance := false, cap := true, surface := false, stall := false } := by
  simp only [calculate, loop, stepControl, signDiffers, signCode, Reasons.any, Num.real_zero]
  norm_num

end TamocV.Props.C04
