/-
  C14 — Profile construction gives a monotone, hydrostatic, stable column.
  Property theorems only, over ℝ, about `TamocV.Model.Profile` (hand transcription of
  ambient.coarsen / stabilize / compute_pressure / extract_profile; tied to /repo by harness/c14.py).
  Seawater density `ρ` is an arbitrary function: every theorem holds for all ρ.

  Where the property is FALSE of model and code the negation is proved on a concrete witness:
    * `stabilize_last_row_counterexample`   (the loop `range(1, n-1)` never tests the deepest row)
    * `extract_reversal_counterexample`     (the first sample of the up-cast is kept)
    * `pressure_bottom_first_counterexample`, `pressure_negative_surface_first_raises`
      (two of the four documented (sign, fs_loc) combinations of compute_pressure)
-/
import TamocV.Real
import TamocV.Lemmas.Basic
import TamocV.Lemmas.C07
import TamocV.Lemmas.C14
import TamocV.Model.Profile
import TamocV.Props.C07

namespace TamocV.Props.C14
open TamocV TamocV.Model.Profile TamocV.Lemmas.C07 TamocV.Lemmas.C14

/-! ## coarsen -/

/-- The input is the kept rows, each followed by the (possibly empty) run of rows dropped after it,
    and every dropped row is within `err` (relative to the dropped value; zero entries exempt — the
    code's rule) of the kept row that precedes it, in every dependent variable. -/
theorem coarsen_error_bound (rows : List (List ℝ)) (err : ℝ) :
    ∃ segs : List (List ℝ × List (List ℝ)),
      rows = unseg segs ∧ coarsen rows err = segs.map (·.1) ∧
      ∀ s ∈ segs, ∀ r ∈ s.2, Within err s.1 r := by
  cases rows with
  | nil => exact ⟨[], by simp [unseg], by simp [coarsen], by simp⟩
  | cons first rest =>
    by_cases hne : rest = []
    · subst hne
      exact ⟨[(first, [])], by simp [unseg], by simp [coarsen, coarsenGo], by simp⟩
    · obtain ⟨d0, segs, h1, h2, h3, h4⟩ := coarsenGo_segments err rest hne first
      refine ⟨(first, d0) :: segs, ?_, ?_, ?_⟩
      · simp only [unseg, List.flatMap_cons, List.cons_append, List.cons.injEq, true_and]
        exact h1
      · simp only [coarsen, List.map_cons, h2]
      · intro s hs
        simp only [List.mem_cons] at hs
        rcases hs with rfl | hs
        · exact h3
        · exact h4 s hs

example : Within (0.1 : ℝ) [0, 10, 7] [1, 10.5, 0] ∧ ¬ Within (0.01 : ℝ) [0, 10, 5] [1, 10.5, 5] := by
  constructor
  · intro p hp
    simp [vals] at hp
    rcases hp with rfl | rfl
    · right; rw [abs_le]; constructor <;> norm_num
    · left; rfl
  · intro h
    have := h (10.5, 10) (by simp [vals])
    rcases this with h0 | h1
    · norm_num at h0
    · rw [abs_le] at h1; norm_num at h1

/-- Retained rows are rows of the input, in their original order. -/
theorem coarsen_sublist (rows : List (List ℝ)) (err : ℝ) : (coarsen rows err).Sublist rows := by
  cases rows with
  | nil => simp [coarsen]
  | cons first rest => exact (coarsenGo_sublist err rest first).cons_cons first

/-- The first and the last input row are kept. -/
theorem coarsen_first_last (first last : List ℝ) (mid : List (List ℝ)) (err : ℝ) :
    ∃ mid', coarsen (first :: (mid ++ [last])) err = first :: (mid' ++ [last]) := by
  obtain ⟨m, hm⟩ := coarsenGo_last err mid last first
  exact ⟨m, by simp [coarsen, hm]⟩

/-- Strictly increasing depths stay strictly increasing. -/
theorem strictly_increasing_preserved (rows : List (List ℝ)) (err : ℝ) (h : StrictInc rows) :
    StrictInc (coarsen rows err) :=
  List.Pairwise.sublist (coarsen_sublist rows err) h

/-! ## stabilize -/

/-- In the code's domain (no negative depth, strictly increasing depths, at least depth, T, S in
    every row) stabilisation returns exactly the rows selected by its mask: re-interpolating T and S
    of the kept rows from the kept rows changes nothing.  Hence retained rows are rows of the input. -/
theorem stabilize_rows_subset (ρ : ℝ → ℝ → ℝ → ℝ) (k : Nat) (hk : 2 ≤ k) (first last : List ℝ)
    (mid : List (List ℝ)) (hw : Width k (first :: (mid ++ [last])))
    (hs : StrictInc (first :: (mid ++ [last]))) (hz : ∀ r ∈ first :: (mid ++ [last]), 0 ≤ depth r) :
    stabilize ρ (first :: (mid ++ [last]))
      = selectRows (first :: (mid ++ [last])) (stabMask ρ (first :: (mid ++ [last])))
    ∧ (stabilize ρ (first :: (mid ++ [last]))).Sublist (first :: (mid ++ [last])) := by
  have hK := stab_kept ρ first (mid ++ [last]) hz
  have hsub : (first :: keepGo ρ (sigma ρ first) (mid ++ [last])).Sublist (first :: (mid ++ [last])) :=
    (keepGo_sublist ρ _ _).cons_cons first
  have hsK : StrictInc (first :: keepGo ρ (sigma ρ first) (mid ++ [last])) := List.Pairwise.sublist hsub hs
  have hwK : Width k (first :: keepGo ρ (sigma ρ first) (mid ++ [last])) :=
    fun r hr => hw r (hsub.subset hr)
  have hlen : 2 ≤ (first :: keepGo ρ (sigma ρ first) (mid ++ [last])).length := by
    have := keepGo_ne_nil ρ (mid ++ [last]) (by simp) (sigma ρ first)
    have : 0 < (keepGo ρ (sigma ρ first) (mid ++ [last])).length := List.length_pos_of_ne_nil this
    simp only [List.length_cons]; omega
  have hmain : stabilize ρ (first :: (mid ++ [last]))
      = selectRows (first :: (mid ++ [last])) (stabMask ρ (first :: (mid ++ [last]))) := by
    unfold stabilize
    simp only []
    apply selectRows_map_congr
    intro r hr
    rw [hK] at hr ⊢
    rw [sortRows_of_strictInc _ hsK, Props.C07.interp_node k _ hwK hsK hlen r hr]
    have hr3 : r.length = k + 1 := hwK r hr
    match r, hr3 with
    | a :: b :: c :: tl, _ => simp [depth, vals]
    | [], h => simp at h
    | [_], h => simp at h; omega
    | [_, _], h => simp at h; omega
  exact ⟨hmain, by rw [hmain, hK]; exact hsub⟩

/-- The first and the last row are kept. -/
theorem stabilize_first_last (ρ : ℝ → ℝ → ℝ → ℝ) (k : Nat) (hk : 2 ≤ k) (first last : List ℝ)
    (mid : List (List ℝ)) (hw : Width k (first :: (mid ++ [last])))
    (hs : StrictInc (first :: (mid ++ [last]))) (hz : ∀ r ∈ first :: (mid ++ [last]), 0 ≤ depth r) :
    ∃ mid', stabilize ρ (first :: (mid ++ [last])) = first :: (mid' ++ [last]) := by
  rw [(stabilize_rows_subset ρ k hk first last mid hw hs hz).1, stab_kept ρ first _ hz]
  obtain ⟨m, hm⟩ := keepGo_last ρ mid last (sigma ρ first)
  exact ⟨m, by rw [hm]⟩

/-- PARTIAL (all but the deepest row): the potential density of the kept rows other than the last
    never decreases with depth.  The full statement is false, see the counterexample below: the
    loop is `for i in range(1, raw.shape[0]-1)`, the deepest row is never compared. -/
theorem stabilize_monotone_except_last (ρ : ℝ → ℝ → ℝ → ℝ) (k : Nat) (hk : 2 ≤ k) (first last : List ℝ)
    (mid : List (List ℝ)) (hw : Width k (first :: (mid ++ [last])))
    (hs : StrictInc (first :: (mid ++ [last]))) (hz : ∀ r ∈ first :: (mid ++ [last]), 0 ≤ depth r) :
    ((stabilize ρ (first :: (mid ++ [last]))).dropLast.map (sigma ρ)).Pairwise (· ≤ ·) := by
  rw [(stabilize_rows_subset ρ k hk first last mid hw hs hz).1, stab_kept ρ first _ hz]
  have hne := keepGo_ne_nil ρ (mid ++ [last]) (by simp) (sigma ρ first)
  obtain ⟨h1, h2⟩ := keepGo_sorted ρ (mid ++ [last]) (sigma ρ first)
  rw [List.dropLast_cons_of_ne_nil hne, List.map_cons, List.pairwise_cons]
  refine ⟨?_, h1⟩
  intro y hy
  obtain ⟨x, hx, rfl⟩ := List.mem_map.mp hy
  exact h2 x hx

/-- The property "potential density never decreases with depth" FAILS at the deepest row:
    a 3-level cast (depths 0, 10, 20; density = salinity 35, 36, 34) satisfies every hypothesis,
    is returned unchanged, and its last row is lighter than the row above it. -/
theorem stabilize_last_row_counterexample :
    ∃ (ρ : ℝ → ℝ → ℝ → ℝ) (first last : List ℝ) (mid : List (List ℝ)),
      Width 3 (first :: (mid ++ [last])) ∧ StrictInc (first :: (mid ++ [last])) ∧
      (∀ r ∈ first :: (mid ++ [last]), 0 ≤ depth r) ∧
      stabilize ρ (first :: (mid ++ [last])) = first :: (mid ++ [last]) ∧
      ¬ ((stabilize ρ (first :: (mid ++ [last]))).map (sigma ρ)).Pairwise (· ≤ ·) := by
  have hw : Width 3 (([0, 280, 35, 101325] : List ℝ) :: ([[10, 280, 36, 201325]] ++ [[20, 280, 34, 301325]])) := by
    intro r hr; simp at hr; rcases hr with rfl | rfl | rfl <;> rfl
  have hs : StrictInc (([0, 280, 35, 101325] : List ℝ) :: ([[10, 280, 36, 201325]] ++ [[20, 280, 34, 301325]])) := by
    unfold StrictInc depth; simp; norm_num
  have hz : ∀ r ∈ (([0, 280, 35, 101325] : List ℝ) :: ([[10, 280, 36, 201325]] ++ [[20, 280, 34, 301325]])),
      0 ≤ depth r := by
    intro r hr; simp at hr; rcases hr with rfl | rfl | rfl <;> simp [depth]
  have key : stabilize (fun (_ S _ : ℝ) => S)
      (([0, 280, 35, 101325] : List ℝ) :: ([[10, 280, 36, 201325]] ++ [[20, 280, 34, 301325]]))
      = ([0, 280, 35, 101325] : List ℝ) :: ([[10, 280, 36, 201325]] ++ [[20, 280, 34, 301325]]) := by
    rw [(stabilize_rows_subset (fun (_ S _ : ℝ) => S) 3 (by norm_num) _ _ _ hw hs hz).1,
      stab_kept (fun (_ S _ : ℝ) => S) _ _ hz]
    simp [keepGo, sigma]
    norm_num
  refine ⟨fun _ S _ => S, [0, 280, 35, 101325], [20, 280, 34, 301325], [[10, 280, 36, 201325]],
    hw, hs, hz, key, ?_⟩
  rw [key]
  simp [sigma]
  norm_num

/-! ## compute_pressure -/

/-- hydrostatic column, depth positive downward, free surface first: atmospheric pressure plus
    the weight of the water above the first level, then
    `P_{i+1} = P_i + ρ(T_i, S_i, P_i)·g·(z_{i+1} − z_i)` — density evaluated at the UPPER level with
    the pressure just computed there -/
def Hydrostatic (ρ : ℝ → ℝ → ℝ → ℝ) (z T S P : List ℝ) : Prop :=
  P.length = z.length ∧
  P.getD 0 0 = 101325 + ρ (T.getD 0 0) (S.getD 0 0) 101325 * 9.81 * z.getD 0 0 ∧
  ∀ i, i + 1 < z.length →
    P.getD (i + 1) 0 = P.getD i 0 + ρ (T.getD i 0) (S.getD i 0) (P.getD i 0) * 9.81 * (z.getD (i + 1) 0 - z.getD i 0)

/-- Positive depths, free surface in the first entry (`fs_loc = 0`): the code returns the
    hydrostatic column (surface value and recurrence). -/
theorem pressure_recurrence (ρ : ℝ → ℝ → ℝ → ℝ) (z T S : List ℝ) (hn : 1 ≤ z.length)
    (_hT : T.length = z.length) (_hS : S.length = z.length)   -- in-domain guard: the code indexes T, S like z
    (hpos : 0 < z.getD (z.length / 2) 0) :
    ∃ P, computePressure ρ z T S false = some P ∧ Hydrostatic ρ z T S P := by
  unfold computePressure
  simp only [Num.real_zero, Bool.false_eq_true, if_false]
  rw [sgnOf_pos _ hpos]
  obtain ⟨P', h1, h2, h3, h4⟩ := cp_forward ρ z T S z.length (z.length - 1) (by omega)
    ((List.replicate z.length (0 : ℝ)).set 0
      (101325 + ρ (T.getD 0 0) (S.getD 0 0) 101325 * 9.81 * 1 * z.getD 0 0)) (by simp)
  refine ⟨P', ?_, h2, ?_, ?_⟩
  · have e : (ofSgn 1 : ℝ) = 1 := by unfold ofSgn; simp [Num.real_one]
    simp only [e, Num.real_ofSci]
    norm_num at h1 ⊢
    exact h1
  · rw [h3, getD_set]
    have : (0 = 0 ∧ 0 < (List.replicate z.length (0 : ℝ)).length) := ⟨rfl, by simp; omega⟩
    rw [if_pos this]; ring
  · intro i hi
    exact h4 i (by omega)

/-- Surface value is atmospheric when the first level is at the surface (immediate from `Hydrostatic`). -/
theorem pressure_surface (ρ : ℝ → ℝ → ℝ → ℝ) (z T S P : List ℝ) (h : Hydrostatic ρ z T S P)
    (h0 : z.getD 0 0 = 0) : P.getD 0 0 = 101325 := by
  rw [h.2.1, h0]; ring

/-- Pressure increases with depth when the density is positive AT THE STATES THE COLUMN VISITS
    (no assumption on ρ elsewhere: a real equation of state is not positive for every T, S, P). -/
theorem pressure_increasing (ρ : ℝ → ℝ → ℝ → ℝ) (z T S P : List ℝ) (h : Hydrostatic ρ z T S P)
    (hρ : ∀ i, i + 1 < z.length → 0 < ρ (T.getD i 0) (S.getD i 0) (P.getD i 0))
    (hz : ∀ i, i + 1 < z.length → z.getD i 0 < z.getD (i + 1) 0)
    (i : Nat) (hi : i + 1 < z.length) : P.getD i 0 < P.getD (i + 1) 0 := by
  rw [h.2.2 i hi]
  have h1 := hρ i hi
  have h2 := hz i hi
  have : 0 < ρ (T.getD i 0) (S.getD i 0) (P.getD i 0) * 9.81 * (z.getD (i + 1) 0 - z.getD i 0) := by
    apply mul_pos (mul_pos h1 (by norm_num)) (sub_pos.mpr h2)
  linarith

example : ∃ P, computePressure (fun _ _ _ => (1000 : ℝ)) [0, 10, 20] [280, 280, 280] [35, 35, 35] false = some P
    ∧ Hydrostatic (fun _ _ _ => (1000 : ℝ)) [0, 10, 20] [280, 280, 280] [35, 35, 35] P :=
  pressure_recurrence _ _ _ _ (by simp) rfl rfl (by simp)

/-- Negative depths in ascending order, free surface in the LAST entry (`fs_loc = -1`): the
    recurrence runs upward from the last entry.  The surface value uses `T[0], S[0]` — the
    DEEPEST sample — which matters only when the last depth is not 0 (as the code does it). -/
theorem pressure_recurrence_negative (ρ : ℝ → ℝ → ℝ → ℝ) (z T S : List ℝ) (hn : 1 ≤ z.length)
    (_hT : T.length = z.length) (_hS : S.length = z.length)   -- in-domain guard
    (hneg : z.getD (z.length / 2) 0 < 0) :
    ∃ P, computePressure ρ z T S true = some P ∧ P.length = z.length ∧
      P.getD (z.length - 1) 0
        = 101325 + ρ (T.getD 0 0) (S.getD 0 0) 101325 * 9.81 * (-(z.getD (z.length - 1) 0)) ∧
      ∀ i, i + 1 < z.length →
        P.getD i 0 = P.getD (i + 1) 0
          + ρ (T.getD (i + 1) 0) (S.getD (i + 1) 0) (P.getD (i + 1) 0) * 9.81 * (z.getD (i + 1) 0 - z.getD i 0) := by
  unfold computePressure
  simp only [Num.real_zero, if_true]
  rw [sgnOf_neg _ hneg]
  obtain ⟨P', h1, h2, h3, h4⟩ := cp_backward ρ z T S z.length (z.length - 1) (by omega)
    ((List.replicate z.length (0 : ℝ)).set (z.length - 1)
      (101325 + ρ (T.getD 0 0) (S.getD 0 0) 101325 * 9.81 * (-1) * z.getD (z.length - 1) 0)) (by simp)
  refine ⟨P', ?_, h2, ?_, ?_⟩
  · have e : (ofSgn (-1) : ℝ) = -1 := by
      unfold ofSgn
      simp only [Num.real_one, Num.real_zero]
      norm_num
    simp only [e, Num.real_ofSci]
    norm_num at h1 ⊢
    exact h1
  · rw [h3 _ le_rfl, getD_set]
    have : (z.length - 1 = z.length - 1 ∧ z.length - 1 < (List.replicate z.length (0 : ℝ)).length) :=
      ⟨rfl, by simp; omega⟩
    rw [if_pos this]; ring
  · intro i hi
    exact h4 i (by omega)

/-- FALSE for positive depths stored bottom-first (`fs_loc = -1`, the case
    `_create_profile_from_xarray` l.183-188 selects for an up-cast): entries are read before they
    are computed.  With constant density 1000 the cast z = 20, 10, 0 m gets −98100 Pa at 10 m. -/
theorem pressure_bottom_first_counterexample :
    computePressure (fun _ _ _ => (1000 : ℝ)) [20, 10, 0] [280, 280, 280] [35, 35, 35] true
      = some [297525, -98100, 101325] := by
  simp [computePressure, cpStep, pyIdx, sgnOf, ofSgn, List.range, List.range.loop, Num.real_zero,
    Num.real_one, Num.real_ofSci]
  norm_num

/-- Negative depths with the free surface in the FIRST entry (`fs_loc = 0`): IndexError. -/
theorem pressure_negative_surface_first_raises :
    computePressure (fun _ _ _ => (1000 : ℝ)) [0, -10, -20] [280, 280, 280] [35, 35, 35] false = none := by
  have h : sgnOf (([0, -10, -20] : List ℝ).getD (([0, -10, -20] : List ℝ).length / 2) 0) = -1 := by
    apply sgnOf_neg; norm_num
  unfold computePressure
  simp only [Num.real_zero]
  rw [h]
  simp [cpStep, pyIdx, List.range']

/-! ## extract_profile -/

/-- the row put at the free surface: an input row with its depth set to 0 and (if `p_col` is given)
    its pressure set to `P_atm` -/
def surfaceRow (src : List ℝ) (zcol : Nat) (pcol : Option Nat) (patm : ℝ) : List ℝ :=
  match pcol with
  | none => src.set zcol 0
  | some k => (src.set zcol 0).set k patm

/-- What extract_profile returns is a contiguous block of input rows, optionally preceded by ONE row
    that is a copy of an input row with depth 0 and atmospheric pressure. -/
theorem extract_rows_infix (rows : List (List ℝ)) (zcol : Nat) (zstart patm : ℝ) (pcol : Option Nat)
    (out : List (List ℝ)) (h : extractProfile rows zcol zstart pcol patm = some out) :
    ∃ body, body <:+: rows ∧
      (out = body ∨ ∃ src, (src ∈ rows ∨ src = []) ∧ out = surfaceRow src zcol pcol patm :: body) := by
  unfold extractProfile at h
  simp only [] at h
  split at h
  · exact absurd h (by simp)
  · rename_i start i _
    have hinf : ∀ m, ((rows.drop start).take m) <:+: rows :=
      fun m => (List.take_prefix _ _).isInfix.trans (List.drop_suffix _ _).isInfix
    have hsrc : rows.getD start [] ∈ rows ∨ rows.getD start [] = [] := by
      rw [List.getD_eq_getElem?_getD]
      by_cases hlt : start < rows.length
      · left; simp [List.getElem?_eq_getElem hlt]
      · right; simp [List.getElem?_eq_none (not_lt.mp hlt)]
    split at h
    · simp only [Option.some.injEq] at h
      subst h
      refine ⟨?body, ?h1, Or.inr ⟨rows.getD start [], hsrc, ?h2⟩⟩
      case h2 =>
        congr 1
        · unfold surfaceRow
          cases pcol <;> simp [Num.real_zero]
        · rfl
      case h1 => exact hinf _
    · simp only [Option.some.injEq] at h
      exact ⟨_, hinf _, Or.inl h.symm⟩

/-- The stored depths need NOT be increasing after extract_profile: of a cast that goes down to 70 m
    and comes back up, the first sample of the up-cast (65 m) is kept after the deepest one. -/
theorem extract_reversal_counterexample :
    extractProfile ([[0], [60], [70], [65], [60], [30]] : List (List ℝ)) 0 50 none 101325
      = some [[0], [60], [70], [65]] := by
  simp [extractProfile, epTop, epBottom, Num.real_zero]
  norm_num

/-! ## the construction pipeline -/

/-- Construction from a table that carries its pressure, stabilisation off: the stored rows are the
    coarsened input (or the input when err ≤ 0) — a sub-list of the input that keeps the first and
    the last row and strictly increasing depths; the names are unchanged.
    (With stabilisation ON the pipeline additionally reorders the columns and applies `stabilize`; only
    the function-level statements above are proved for that branch, the composition is covered by the
    differential run against the real `Profile(...)`.) -/
theorem construct_nostab (ρ : ℝ → ℝ → ℝ → ℝ) (zt : Ztsp) (rows : List (List ℝ)) (names : List String)
    (err : ℝ) (hp : names.contains zt.p = true) (p : Profile ℝ)
    (h : construct ρ zt rows names err false = some p) :
    p.rows = (if 0 < err then coarsen rows err else rows) ∧ p.names = names ∧ p.rows.Sublist rows ∧
    (StrictInc rows → StrictInc p.rows) ∧
    (∀ first last mid, rows = first :: (mid ++ [last]) → ∃ mid', p.rows = first :: (mid' ++ [last])) := by
  unfold construct at h
  simp only [hp, if_true, Bool.false_eq_true, and_false, if_false, Option.some.injEq, Num.real_zero] at h
  subst h
  refine ⟨rfl, rfl, ?_, ?_, ?_⟩
  · show (if 0 < err then coarsen rows err else rows).Sublist rows
    split
    · exact coarsen_sublist rows err
    · exact List.Sublist.refl _
  · intro hs
    show StrictInc (if 0 < err then coarsen rows err else rows)
    split
    · exact strictly_increasing_preserved rows err hs
    · exact hs
  · intro first last mid hrows
    show ∃ mid', (if 0 < err then coarsen rows err else rows) = first :: (mid' ++ [last])
    split
    · rw [hrows]; exact coarsen_first_last first last mid err
    · exact ⟨mid, hrows⟩

end TamocV.Props.C14
