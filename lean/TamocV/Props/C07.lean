/-
  C07 — Profile look-up is exact clamped linear interpolation.
  Property theorems only, over ℝ, about `TamocV.Model.Profile` (hand transcription of
  ambient.BaseProfile.get_values / _build_interpolator / the mutating operations and of
  scipy interp1d._call_linear; tied to /repo by harness/c07.py).

  A table is `first :: (mid ++ [last])`: any length ≥ 2, `Width k`: any number `k` of columns,
  `StrictInc`: depths strictly increasing.
-/
import TamocV.Real
import TamocV.Lemmas.Basic
import TamocV.Lemmas.C07
import TamocV.Lemmas.C14
import TamocV.Model.Profile

namespace TamocV.Props.C07
open TamocV TamocV.Model.Profile TamocV.Lemmas.C07 TamocV.Lemmas.C14

/-! ## the interpolant -/

/-- At a stored depth the stored row is returned — exactly. -/
theorem interp_node (k : Nat) (rows : List (List ℝ)) (hw : Width k rows) (hs : StrictInc rows)
    (h2 : 2 ≤ rows.length) (r : List ℝ) (hr : r ∈ rows) :
    interpRow rows (depth r) = vals r := by
  obtain ⟨s, t, rfl⟩ := List.append_of_mem hr
  rcases List.eq_nil_or_concat s with rfl | ⟨pre, lo, rfl⟩
  · -- r is the first row
    cases t with
    | nil => simp at h2
    | cons hi post =>
      simp only [List.nil_append] at *
      rw [interpRow_first r hi post (depth r) le_rfl]
      have hlt : depth r < depth hi := by
        have := (strictInc_append_cons (pre := []) (r := r) (post := hi :: post) (by simpa using hs)).2
        exact this hi (by simp)
      apply segVal_at_lo _ _ (ne_of_lt hlt)
      rw [vals_length (hw hi (by simp)), vals_length (hw r (by simp))]
  · -- r has a predecessor `lo`
    have e : pre.concat lo ++ r :: t = pre ++ lo :: r :: t := by simp
    rw [e] at hs hw ⊢
    have hlt : depth lo < depth r := by
      have := (strictInc_append_cons (pre := pre) (r := lo) (post := r :: t) hs).2
      exact this r (by simp)
    rw [interpRow_segment pre lo r t (depth r) hs hlt le_rfl]
    apply segVal_at_hi _ _ (ne_of_lt hlt)
    rw [vals_length (hw r (by simp)), vals_length (hw lo (by simp))]

example : interpRow ([[0, 10, 5], [2, 20, 7], [5, 0, 9]] : List (List ℝ)) 2 = [20, 7] := by
  have := interp_node 2 [[0, 10, 5], [2, 20, 7], [5, 0, 9]]
    (by intro r hr; simp at hr; rcases hr with rfl | rfl | rfl <;> rfl)
    (by unfold StrictInc depth; simp; norm_num) (by simp) [2, 20, 7] (by simp)
  simpa [depth, vals] using this

/-- Between two consecutive stored depths every value is the convex combination of the two
    neighbouring stored values with weight `w = (z − x_i)/(x_{i+1} − x_i)`. -/
theorem interp_between (pre : List (List ℝ)) (lo hi : List ℝ) (post : List (List ℝ)) (k : Nat) (z : ℝ)
    (hw : Width k (pre ++ lo :: hi :: post)) (hs : StrictInc (pre ++ lo :: hi :: post))
    (h1 : depth lo ≤ z) (h2 : z ≤ depth hi) :
    interpRow (pre ++ lo :: hi :: post) z
      = List.zipWith (fun yl yh => (1 - (z - depth lo) / (depth hi - depth lo)) * yl
          + ((z - depth lo) / (depth hi - depth lo)) * yh) (vals lo) (vals hi) := by
  have hlt : depth lo < depth hi := by
    have := (strictInc_append_cons (pre := pre) (r := lo) (post := hi :: post) hs).2
    exact this hi (by simp)
  rcases eq_or_lt_of_le h1 with heq | hlt1
  · -- z is the stored depth of `lo`
    rw [← heq, interp_node k _ hw hs (by simp only [List.length_append, List.length_cons]; omega) lo (by simp)]
    have hl : (vals lo).length = (vals hi).length := by
      rw [vals_length (hw lo (by simp)), vals_length (hw hi (by simp))]
    simp only [sub_self, zero_div, sub_zero, one_mul, zero_mul, add_zero]
    generalize vals lo = a at hl
    generalize vals hi = b at hl
    induction a generalizing b with
    | nil => simp
    | cons x xs ih =>
      cases b with
      | nil => simp at hl
      | cons y ys => simp at hl; simp [← ih ys hl]
  · rw [interpRow_segment pre lo hi post z hs hlt1 h2, segVal_convex lo hi z (ne_of_lt hlt)]

/-- …hence each returned value lies between its two neighbours. -/
theorem interp_between_bounds (pre : List (List ℝ)) (lo hi : List ℝ) (post : List (List ℝ)) (k : Nat)
    (z : ℝ) (hw : Width k (pre ++ lo :: hi :: post)) (hs : StrictInc (pre ++ lo :: hi :: post))
    (h1 : depth lo ≤ z) (h2 : z ≤ depth hi) (j : Nat) (hj : j < k) :
    min ((vals lo).getD j 0) ((vals hi).getD j 0) ≤ (interpRow (pre ++ lo :: hi :: post) z).getD j 0
    ∧ (interpRow (pre ++ lo :: hi :: post) z).getD j 0 ≤ max ((vals lo).getD j 0) ((vals hi).getD j 0) := by
  rw [interp_between pre lo hi post k z hw hs h1 h2]
  have hlt : depth lo < depth hi := by
    have := (strictInc_append_cons (pre := pre) (r := lo) (post := hi :: post) hs).2
    exact this hi (by simp)
  have hl : j < (vals lo).length := by rw [vals_length (hw lo (by simp))]; exact hj
  have hh : j < (vals hi).length := by rw [vals_length (hw hi (by simp))]; exact hj
  set w := (z - depth lo) / (depth hi - depth lo) with hwdef
  have hd : 0 < depth hi - depth lo := sub_pos.mpr hlt
  have w0 : 0 ≤ w := div_nonneg (sub_nonneg.mpr h1) (le_of_lt hd)
  have w1 : w ≤ 1 := by rw [hwdef, div_le_one hd]; linarith
  simp only [List.getD_eq_getElem?_getD, List.getElem?_zipWith, List.getElem?_eq_getElem hl,
    List.getElem?_eq_getElem hh, Option.getD_some]
  set a := (vals lo)[j]
  set b := (vals hi)[j]
  rcases le_total a b with hab | hab
  · rw [min_eq_left hab, max_eq_right hab]; constructor <;> nlinarith
  · rw [min_eq_right hab, max_eq_left hab]; constructor <;> nlinarith

/-! ## get_values on a freshly built cache -/

/-- Values come back in the order requested; unknown names yield zero: the answer at position j
    is the interpolated column of `names[j]`, or 0. -/
theorem names_order (c : Cache ℝ) (zmin zmax z : ℝ) (names : List String) (hnd : names.Nodup)
    (j : Nat) (hj : j < names.length) :
    (getValues1 c zmin zmax z names).length = names.length ∧
    (getValues1 c zmin zmax z names).getD j 0
      = if c.names.contains names[j]
        then (interpRow c.rows (clampZ zmin zmax z)).getD (c.names.idxOf names[j]) 0 else 0 := by
  rw [getValues1_eq_pick c zmin zmax z names hnd]
  unfold pick
  constructor
  · simp
  · simp [List.getD_eq_getElem?_getD, hj]

/-- Unknown names yield zero. -/
theorem unknown_zero (c : Cache ℝ) (zmin zmax z : ℝ) (names : List String) (hnd : names.Nodup)
    (j : Nat) (hj : j < names.length) (hun : names[j] ∉ c.names) :
    (getValues1 c zmin zmax z names).getD j 0 = 0 := by
  rw [(names_order c zmin zmax z names hnd j hj).2]
  simp [hun]

/-- At a stored depth `get_values` returns the stored values of the requested names. -/
theorem get_node (k : Nat) (first last : List ℝ) (mid : List (List ℝ)) (fnames names : List String)
    (hw : Width k (first :: (mid ++ [last]))) (hs : StrictInc (first :: (mid ++ [last])))
    (hnd : names.Nodup) (r : List ℝ) (hr : r ∈ first :: (mid ++ [last])) :
    getValues1 (build (first :: (mid ++ [last])) fnames) (depth first) (depth last) (depth r) names
      = pick fnames (vals r) names := by
  rw [getValues1_eq_pick _ _ _ _ _ hnd]
  have hb := strictInc_bounds first last mid hs r hr
  show pick fnames (interpRow (sortRows (first :: (mid ++ [last]))) _) names = _
  rw [sortRows_of_strictInc _ hs, clampZ_inside _ _ _ hb.1 hb.2,
    interp_node k _ hw hs (by simp) r hr]

/-- Above the shallowest stored depth the first row is returned (clamping). -/
theorem clamp_below (k : Nat) (first last : List ℝ) (mid : List (List ℝ)) (fnames names : List String)
    (hw : Width k (first :: (mid ++ [last]))) (hs : StrictInc (first :: (mid ++ [last])))
    (hnd : names.Nodup) (z : ℝ) (hz : z < depth first) :
    getValues1 (build (first :: (mid ++ [last])) fnames) (depth first) (depth last) z names
      = pick fnames (vals first) names := by
  have hfl := (strictInc_bounds first last mid hs last (by simp)).1
  rw [← get_node k first last mid fnames names hw hs hnd first (by simp)]
  rw [getValues1_eq_pick _ _ _ _ _ hnd, getValues1_eq_pick _ _ _ _ _ hnd,
    clampZ_below _ _ _ hz hfl, clampZ_inside _ _ _ le_rfl hfl]

/-- Below the deepest stored depth the last row is returned (clamping). -/
theorem clamp_above (k : Nat) (first last : List ℝ) (mid : List (List ℝ)) (fnames names : List String)
    (hw : Width k (first :: (mid ++ [last]))) (hs : StrictInc (first :: (mid ++ [last])))
    (hnd : names.Nodup) (z : ℝ) (hz : depth last < z) :
    getValues1 (build (first :: (mid ++ [last])) fnames) (depth first) (depth last) z names
      = pick fnames (vals last) names := by
  have hfl := (strictInc_bounds first last mid hs last (by simp)).1
  rw [← get_node k first last mid fnames names hw hs hnd last (by simp)]
  rw [getValues1_eq_pick _ _ _ _ _ hnd, getValues1_eq_pick _ _ _ _ _ hnd,
    clampZ_above _ _ _ hz hfl, clampZ_inside _ _ _ hfl le_rfl]

/-- Between stored depths `get_values` returns, for every requested name, the convex combination
    of the neighbouring stored values. -/
theorem get_between (pre : List (List ℝ)) (lo hi : List ℝ) (post : List (List ℝ)) (k : Nat)
    (fnames names : List String) (zmin zmax z : ℝ)
    (hw : Width k (pre ++ lo :: hi :: post)) (hs : StrictInc (pre ++ lo :: hi :: post))
    (hnd : names.Nodup) (hmin : zmin ≤ depth lo) (hmax : depth hi ≤ zmax)
    (h1 : depth lo ≤ z) (h2 : z ≤ depth hi) :
    getValues1 (build (pre ++ lo :: hi :: post) fnames) zmin zmax z names
      = pick fnames (List.zipWith (fun yl yh => (1 - (z - depth lo) / (depth hi - depth lo)) * yl
          + ((z - depth lo) / (depth hi - depth lo)) * yh) (vals lo) (vals hi)) names := by
  rw [getValues1_eq_pick _ _ _ _ _ hnd]
  show pick fnames (interpRow (sortRows _) _) names = _
  rw [sortRows_of_strictInc _ hs, clampZ_inside _ _ _ (le_trans hmin h1) (le_trans h2 hmax),
    interp_between pre lo hi post k z hw hs h1 h2]

/-- Querying many depths at once equals querying them one at a time (and the documented shape
    rule: exactly one depth gives a 1-D answer).  DEFINITIONAL in the model (the model's batch query is a
    `map`); the content is on the code side and is carried by the harness (batch vs. single calls of the
    real `get_values`, bit for bit). -/
theorem batch_eq_map (c : Cache ℝ) (zmin zmax : ℝ) (zs : List ℝ) (names : List String) :
    (zs.length ≠ 1 → getValues c zmin zmax zs names = .mat (zs.map (fun z => getValues1 c zmin zmax z names)))
    ∧ (∀ z, zs = [z] → getValues c zmin zmax zs names = .vec (getValues1 c zmin zmax z names)) := by
  constructor
  · intro h
    unfold getValues
    match zs, h with
    | [], _ => rfl
    | [z], h => simp at h
    | _ :: _ :: _, _ => rfl
  · intro z hz
    subst hz
    rfl

/-! ## the interpolator is rebuilt after each mutation -/

/-- For EVERY sequence of append / extend_profile_deeper / insert_density(P0) /
    insert_potential_density / insert_buoyancy_frequency operations, performed as the code performs
    them, the cached interpolant equals `build` of the data the profile holds. -/
theorem cache_fresh (ρ : ℝ → ℝ → ℝ → ℝ) (zt : Ztsp) (ops : List (Op ℝ)) (p : Profile ℝ)
    (h : p.cache = build p.rows p.names) :
    (run ρ zt p ops).cache = build (run ρ zt p ops).rows (run ρ zt p ops).names :=
  run_fresh ρ zt ops p h

/-- …so after any history a query is answered from the CURRENT table (this is what turns the table
    theorems above into theorems about a profile with a history: see the `…_after_history` theorems). -/
theorem query_after_history (ρ : ℝ → ℝ → ℝ → ℝ) (zt : Ztsp) (ops : List (Op ℝ)) (p : Profile ℝ)
    (h : p.cache = build p.rows p.names) (z : ℝ) (names : List String) (hnd : names.Nodup) :
    (run ρ zt p ops).get1 z names
      = pick (run ρ zt p ops).names
          (interpRow (sortRows (run ρ zt p ops).rows) (clampZ (run ρ zt p ops).zmin (run ρ zt p ops).zmax z))
          names := by
  unfold Profile.get1
  rw [getValues1_eq_pick _ _ _ _ _ hnd, cache_fresh ρ zt ops p h]
  rfl

/-- A profile as constructed (`_create_profile_from_xarray`: pressure integration, coarsening,
    stabilisation, then `_build_interpolator`) starts every history with a fresh cache.
    DEFINITIONAL in the model (the last line of `construct` is the build). -/
theorem construct_fresh (ρ : ℝ → ℝ → ℝ → ℝ) (zt : Ztsp) (rows : List (List ℝ)) (names : List String)
    (err : ℝ) (stab : Bool) (p : Profile ℝ) (h : construct ρ zt rows names err stab = some p) :
    p.cache = build p.rows p.names := by
  unfold construct at h
  simp only [] at h
  split at h
  · exact absurd h (by simp)
  · simp only [Option.some.injEq] at h
    subst h
    rfl

/-! ## the table theorems for a profile WITH A HISTORY

  `p' = run ops p` is any profile reached from a fresh one by any operations.  The hypotheses about the
  table `p'` holds (strictly increasing depths, uniform width, z_min / z_max = its first / last depth)
  are facts about DATA, checked on every real state by the harness (`pred:z-range`, depth order);
  `Inv` / `inv_run` below discharge them for all histories of applicable operations
  (`…_after_valid_history`). -/

/-- After any history: at a stored depth the stored values come back. -/
theorem node_after_history (ρ : ℝ → ℝ → ℝ → ℝ) (zt : Ztsp) (ops : List (Op ℝ)) (p : Profile ℝ)
    (h : p.cache = build p.rows p.names) (k : Nat) (first last : List ℝ) (mid : List (List ℝ))
    (hrows : (run ρ zt p ops).rows = first :: (mid ++ [last]))
    (hw : Width k (first :: (mid ++ [last]))) (hs : StrictInc (first :: (mid ++ [last])))
    (hzmin : (run ρ zt p ops).zmin = depth first) (hzmax : (run ρ zt p ops).zmax = depth last)
    (names : List String) (hnd : names.Nodup) (r : List ℝ) (hr : r ∈ first :: (mid ++ [last])) :
    (run ρ zt p ops).get1 (depth r) names = pick (run ρ zt p ops).names (vals r) names := by
  unfold Profile.get1
  rw [cache_fresh ρ zt ops p h, hrows, hzmin, hzmax]
  exact get_node k first last mid _ names hw hs hnd r hr

/-- After any history: above the shallowest stored depth the first row comes back. -/
theorem clamp_below_after_history (ρ : ℝ → ℝ → ℝ → ℝ) (zt : Ztsp) (ops : List (Op ℝ)) (p : Profile ℝ)
    (h : p.cache = build p.rows p.names) (k : Nat) (first last : List ℝ) (mid : List (List ℝ))
    (hrows : (run ρ zt p ops).rows = first :: (mid ++ [last]))
    (hw : Width k (first :: (mid ++ [last]))) (hs : StrictInc (first :: (mid ++ [last])))
    (hzmin : (run ρ zt p ops).zmin = depth first) (hzmax : (run ρ zt p ops).zmax = depth last)
    (names : List String) (hnd : names.Nodup) (z : ℝ) (hz : z < depth first) :
    (run ρ zt p ops).get1 z names = pick (run ρ zt p ops).names (vals first) names := by
  unfold Profile.get1
  rw [cache_fresh ρ zt ops p h, hrows, hzmin, hzmax]
  exact clamp_below k first last mid _ names hw hs hnd z hz

/-- After any history: below the deepest stored depth the last row comes back. -/
theorem clamp_above_after_history (ρ : ℝ → ℝ → ℝ → ℝ) (zt : Ztsp) (ops : List (Op ℝ)) (p : Profile ℝ)
    (h : p.cache = build p.rows p.names) (k : Nat) (first last : List ℝ) (mid : List (List ℝ))
    (hrows : (run ρ zt p ops).rows = first :: (mid ++ [last]))
    (hw : Width k (first :: (mid ++ [last]))) (hs : StrictInc (first :: (mid ++ [last])))
    (hzmin : (run ρ zt p ops).zmin = depth first) (hzmax : (run ρ zt p ops).zmax = depth last)
    (names : List String) (hnd : names.Nodup) (z : ℝ) (hz : depth last < z) :
    (run ρ zt p ops).get1 z names = pick (run ρ zt p ops).names (vals last) names := by
  unfold Profile.get1
  rw [cache_fresh ρ zt ops p h, hrows, hzmin, hzmax]
  exact clamp_above k first last mid _ names hw hs hnd z hz

/-- After any history: between two consecutive stored depths the convex combination comes back. -/
theorem between_after_history (ρ : ℝ → ℝ → ℝ → ℝ) (zt : Ztsp) (ops : List (Op ℝ)) (p : Profile ℝ)
    (h : p.cache = build p.rows p.names) (k : Nat) (pre : List (List ℝ)) (lo hi : List ℝ) (post : List (List ℝ))
    (hrows : (run ρ zt p ops).rows = pre ++ lo :: hi :: post)
    (hw : Width k (pre ++ lo :: hi :: post)) (hs : StrictInc (pre ++ lo :: hi :: post))
    (hzmin : (run ρ zt p ops).zmin ≤ depth lo) (hzmax : depth hi ≤ (run ρ zt p ops).zmax)
    (names : List String) (hnd : names.Nodup) (z : ℝ) (h1 : depth lo ≤ z) (h2 : z ≤ depth hi) :
    (run ρ zt p ops).get1 z names
      = pick (run ρ zt p ops).names (List.zipWith (fun yl yh => (1 - (z - depth lo) / (depth hi - depth lo)) * yl
          + ((z - depth lo) / (depth hi - depth lo)) * yh) (vals lo) (vals hi)) names := by
  unfold Profile.get1
  rw [cache_fresh ρ zt ops p h, hrows]
  exact get_between pre lo hi post k _ names _ _ z hw hs hnd hzmin hzmax h1 h2

/-! ## the invariant, for all histories of applicable operations

  `Inv p`: fresh cache, uniform width = number of names, strictly increasing depths, ≥ 2 rows,
  z_min / z_max = first / last stored depth.  `RunOk`: every `extend_profile_deeper(z_new)` of the history
  is performed on a state with `0 ≤ z_max < z_new` (the only operation with a precondition). -/

/-- Every operation, performed as the code performs it, preserves the invariant
    (append: interpolation onto the stored depths + unit conversion + rebuild; extend: 49 new
    depths `linspace(z_max, z_new, 50)[1:]`, z_max updated, rebuild; insert_*: one column + rebuild). -/
theorem inv_step (ρ : ℝ → ℝ → ℝ → ℝ) (zt : Ztsp) (p : Profile ℝ) (hp : Inv p) (op : Op ℝ) (hok : OpOk p op) :
    Inv (step ρ zt p op) := step_inv ρ zt p hp op hok

/-- …hence every history of applicable operations does. -/
theorem inv_run (ρ : ℝ → ℝ → ℝ → ℝ) (zt : Ztsp) (ops : List (Op ℝ)) (p : Profile ℝ) (hp : Inv p)
    (hok : RunOk ρ zt p ops) : Inv (run ρ zt p ops) := by
  unfold run
  induction ops generalizing p with
  | nil => exact hp
  | cons op ops ih => exact ih _ (step_inv ρ zt p hp op hok.1) hok.2

/-- THE PROPERTY FOR HISTORIES (node): after any history of applicable operations on a well-formed
    profile, querying at any stored depth returns the stored values of the requested names (in the
    requested order, 0 for unknown names). -/
theorem node_after_valid_history (ρ : ℝ → ℝ → ℝ → ℝ) (zt : Ztsp) (ops : List (Op ℝ)) (p : Profile ℝ)
    (hp : Inv p) (hok : RunOk ρ zt p ops) (names : List String) (hnd : names.Nodup)
    (r : List ℝ) (hr : r ∈ (run ρ zt p ops).rows) :
    (run ρ zt p ops).get1 (depth r) names = pick (run ρ zt p ops).names (vals r) names := by
  have hI := inv_run ρ zt ops p hp hok
  obtain ⟨k, first, last, mid, hrows, hw, hs, hzmin, hzmax, _⟩ := inv_shape _ hI
  unfold Profile.get1
  rw [hI.fresh, hrows, hzmin, hzmax]
  rw [hrows] at hr
  exact get_node k first last mid _ names hw hs hnd r hr

/-- THE PROPERTY FOR HISTORIES (clamping): above the shallowest / below the deepest stored depth the
    first / last stored row is returned. -/
theorem clamp_after_valid_history (ρ : ℝ → ℝ → ℝ → ℝ) (zt : Ztsp) (ops : List (Op ℝ)) (p : Profile ℝ)
    (hp : Inv p) (hok : RunOk ρ zt p ops) (names : List String) (hnd : names.Nodup) :
    ∃ first last mid, (run ρ zt p ops).rows = first :: (mid ++ [last]) ∧
      (∀ z, z < depth first → (run ρ zt p ops).get1 z names = pick (run ρ zt p ops).names (vals first) names) ∧
      (∀ z, depth last < z → (run ρ zt p ops).get1 z names = pick (run ρ zt p ops).names (vals last) names) := by
  have hI := inv_run ρ zt ops p hp hok
  obtain ⟨k, first, last, mid, hrows, hw, hs, hzmin, hzmax, _⟩ := inv_shape _ hI
  refine ⟨first, last, mid, hrows, ?_, ?_⟩
  · intro z hz
    unfold Profile.get1
    rw [hI.fresh, hrows, hzmin, hzmax]
    exact clamp_below k first last mid _ names hw hs hnd z hz
  · intro z hz
    unfold Profile.get1
    rw [hI.fresh, hrows, hzmin, hzmax]
    exact clamp_above k first last mid _ names hw hs hnd z hz

/-- THE PROPERTY FOR HISTORIES (between): between two consecutive stored depths the convex combination
    of the neighbouring stored values is returned. -/
theorem between_after_valid_history (ρ : ℝ → ℝ → ℝ → ℝ) (zt : Ztsp) (ops : List (Op ℝ)) (p : Profile ℝ)
    (hp : Inv p) (hok : RunOk ρ zt p ops) (names : List String) (hnd : names.Nodup)
    (pre : List (List ℝ)) (lo hi : List ℝ) (post : List (List ℝ))
    (hsplit : (run ρ zt p ops).rows = pre ++ lo :: hi :: post) (z : ℝ) (h1 : depth lo ≤ z) (h2 : z ≤ depth hi) :
    (run ρ zt p ops).get1 z names
      = pick (run ρ zt p ops).names (List.zipWith (fun yl yh => (1 - (z - depth lo) / (depth hi - depth lo)) * yl
          + ((z - depth lo) / (depth hi - depth lo)) * yh) (vals lo) (vals hi)) names := by
  have hI := inv_run ρ zt ops p hp hok
  obtain ⟨k, first, last, mid, hrows, hw, hs, hzmin, hzmax, _⟩ := inv_shape _ hI
  have hw' : Width k (pre ++ lo :: hi :: post) := by rw [← hsplit, hrows]; exact hw
  have hs' : StrictInc (pre ++ lo :: hi :: post) := by rw [← hsplit, hrows]; exact hs
  have hmemlo : lo ∈ first :: (mid ++ [last]) := by rw [← hrows, hsplit]; simp
  have hmemhi : hi ∈ first :: (mid ++ [last]) := by rw [← hrows, hsplit]; simp
  have blo := strictInc_bounds first last mid hs lo hmemlo
  have bhi := strictInc_bounds first last mid hs hi hmemhi
  unfold Profile.get1
  rw [hI.fresh, hsplit]
  exact get_between pre lo hi post k _ names _ _ z hw' hs' hnd (by rw [hzmin]; exact blo.1) (by rw [hzmax]; exact bhi.2) h1 h2

/-- non-vacuity of `Inv` and `RunOk`: a concrete profile and a history with an extension -/
example : ∃ (p : Profile ℝ) (ops : List (Op ℝ)), Inv p ∧ RunOk (fun _ _ _ => (1000 : ℝ)) ({} : Ztsp) p ops ∧ ops.length = 2 := by
  refine ⟨Profile.mk [[0, 290, 34, 101325], [10, 285, 35, 201325], [30, 280, 35.5, 401325]]
     ["temperature", "salinity", "pressure"] 0 30
     (build [[0, 290, 34, 101325], [10, 285, 35, 201325], [30, 280, 35.5, 401325]]
       ["temperature", "salinity", "pressure"]),
   [.insertPotentialDensity, .extendDeeper 50 36], ?_⟩
  have hInv : Inv (Profile.mk [[0, 290, 34, 101325], [10, 285, 35, 201325], [30, 280, 35.5, 401325]]
     ["temperature", "salinity", "pressure"] (0 : ℝ) 30
     (build [[0, 290, 34, 101325], [10, 285, 35, 201325], [30, 280, 35.5, 401325]]
       ["temperature", "salinity", "pressure"])) := by
    refine ⟨rfl, ⟨3, ?_, rfl⟩, ?_, by simp, ?_, ?_⟩
    · intro r hr; simp at hr; rcases hr with rfl | rfl | rfl <;> rfl
    · unfold StrictInc depth; simp; norm_num
    · simp [depth]
    · simp [depth]
  refine ⟨hInv, ⟨trivial, ⟨?_, ?_⟩, trivial⟩, rfl⟩
  · rw [(step_sameGrid _ _ _ hInv Op.insertPotentialDensity (by intro _ _ h; cases h)).zmax]; norm_num
  · rw [(step_sameGrid _ _ _ hInv Op.insertPotentialDensity (by intro _ _ h; cases h)).zmax]; norm_num

/-- non-vacuity: a concrete fresh profile and a history containing every kind of operation -/
example : ∃ (p : Profile ℝ) (ops : List (Op ℝ)), p.cache = build p.rows p.names ∧ ops.length = 6 :=
  ⟨{ rows := [[0, 290, 34, 101325], [10, 285, 35, 201325], [30, 280, 35.5, 401325]],
     names := ["temperature", "salinity", "pressure"], zmin := 0, zmax := 30,
     cache := build [[0, 290, 34, 101325], [10, 285, 35, 201325], [30, 280, 35.5, 401325]]
       ["temperature", "salinity", "pressure"] },
   [.append [[0, 1], [40, 2]] 0 [⟨"z", 0, 1, 0⟩, ⟨"oxygen", 1, 0.001, 0⟩], .insertDensity none,
    .insertDensity (some 101325), .extendDeeper 50 36, .insertPotentialDensity, .insertBuoyancyFrequency],
   rfl, rfl⟩

end TamocV.Props.C07
