/-
  C03 — Bent-plume element budgets close exactly at every state.
  Property theorems only.  `TamocV.Model.Lmp.derivs` is the hand transcription of
  `lmp.derivs` (/repo/tamoc/lmp.py l.20-184); it is tied to the code by the slot-by-slot
  correspondence run of harness/c03.py.  Every theorem holds for ANY list of particles
  (any number, any mix soluble / inert, inside / outside the plume) and any number of
  tracked compounds and tracers, under the shape hypotheses `WfE`/`Wf` under which NumPy
  evaluates the code without raising (soluble particles share the composition, `nc = 1`
  for an inert particle).

  Read-out functionals (Model/Lmp.lean, PART 2) mirror the index arithmetic of
  `LagElement.update`: `compoundTotal c ps v` = Σ_particles (mass slot c) + dissolved slot c,
  `heatTotal ps v` = element heat slot + Σ particle heat slots.
-/
import TamocV.Real
import TamocV.Lemmas.Basic
import TamocV.Lemmas.C03
import TamocV.Model.Lmp
import Mathlib.Tactic.Ring
import Mathlib.Tactic.Linarith
import Mathlib.Tactic.NormNum

namespace TamocV.Props.C03
open TamocV.Model.Lmp TamocV.Lemmas.C03

/-- **Compound budget.**  For every tracked compound `c`: the derivatives of the mass slot `c` of all
    particles plus the derivative of the dissolved slot `c` equal the entrained ambient mass
    `md/ρa·ca[c]`, minus the first-order biodegradation `k_bio·m·nbe·dtp/dt` of the particles inside
    the plume, minus the biodegradation `k_bio_e·cpe[c]` of the dissolved pool.  The dissolution terms
    `dm_pc` cancel exactly whatever the mass-transfer closures return. -/
theorem compound_budget (e : Env ℝ) (ps : List (Particle ℝ)) (hE : WfE e) (hW : Wf e ps)
    (c : Nat) (hc : c < e.nchems) :
    compoundTotal c ps ((derivs e ps).drop 11)
      = e.md / e.rho_a * e.ca_chems.getD c 0
        - (ps.map (bioTerm c)).sum
        - e.k_bio.getD c 0 * e.cpe.getD c 0 := by
  rw [derivs_drop11]
  have hpos : 0 < e.nchems := by omega
  simp only [dissolvedSlots, hpos, if_true, dmFinal]
  rw [compound_aux e hE c hc (tracerSlots e) ps hW _ (by simp)]
  simp only [Num.real_zero]
  rw [getD_replicate_zero]
  ring

/-- without background concentration and without biodegradation the compound total is conserved -/
theorem compound_conserved (e : Env ℝ) (ps : List (Particle ℝ)) (hE : WfE e) (hW : Wf e ps)
    (c : Nat) (hc : c < e.nchems) (hca : e.ca_chems.getD c 0 = 0) (hke : e.k_bio.getD c 0 = 0)
    (hkp : ∀ p ∈ ps, p.k_bio.getD c 0 = 0) :
    compoundTotal c ps ((derivs e ps).drop 11) = 0 := by
  rw [compound_budget e ps hE hW c hc, hca, hke]
  have : (ps.map (bioTerm c)).sum = 0 := by
    apply List.sum_eq_zero
    intro x hx
    obtain ⟨p, hp, rfl⟩ := List.mem_map.mp hx
    unfold bioTerm
    split
    · rw [hkp p hp]; ring
    · rfl
  rw [this]; ring

/-- **Heat budget.**  Element heat slot plus all particle heat slots = entrained ambient heat
    `md·cp·Ta` + heat of solution of the soluble particles inside the plume
    (`heatSol e p = Σ_c dm_pc[c]·(−1)·neg_dH_solR[c]·Ru / M[c]`, see `heatSol_term`).
    The convective heat-transfer terms and the heat carried by lost mass cancel exactly. -/
theorem heat_budget (e : Env ℝ) (ps : List (Particle ℝ)) (hE : WfE e) (hW : Wf e ps) :
    heatTotal ps (derivs e ps) = e.md * e.cpw * e.Ta + (ps.map (solTerm e)).sum := by
  have h2 : (derivs e ps).getD 2 (0 : ℝ) = heFinal e ps := by simp [derivs, headSlots]
  unfold heatTotal
  simp only [Num.real_zero]
  rw [derivs_drop11, h2]
  unfold heFinal
  exact heat_aux e hE _ ps hW _

/-- the summands of the heat of solution: compound `c` of a soluble particle inside the plume
    contributes (dissolution rate) · neg_dH_solR · Ru / M, with dissolution rate
    `A·nbe·β_c·(Cs_c − c_c)·dtp/dt` -/
theorem heatSol_term (e : Env ℝ) (p : Particle ℝ) (hE : WfE e) (hp : WfP e p) (hi : p.integrate = true)
    (hs : p.issoluble = true) :
    ∃ terms : List ℝ, heatSol e p = terms.sum ∧ terms.length = e.nchems ∧
      ∀ c, c < e.nchems → terms.getD c 0
        = (p.A * p.nbe * p.beta.getD c 0 * (p.Cs.getD c 0 - e.c_chems.getD c 0) * p.dtp)
            * p.negdH.getD c 0 * e.Ru / p.Mw.getD c 0 := by
  have hH := hp.negdH hi hs
  have hM := hp.Mw hi hs
  refine ⟨_, by unfold heatSol; rw [Num.real_sum], ?_, ?_⟩
  · simp [dmPc_length e hE p hp hi, hH, hM]
  · intro c hc
    rw [getD_zipWith _ _ _ _ (by simp [dmPc_length e hE p hp hi, hH]; exact hc) (by rw [hM]; exact hc),
        getD_zipWith _ _ _ _ (by rw [dmPc_length e hE p hp hi]; exact hc) (by rw [hH]; exact hc),
        dmPc_getD e hE p hp hi hs c hc]
    simp only [Num.real_one]
    ring

/-- **Mass, salt, horizontal momentum**: only what the entrained ambient water carries in.
    DEFINITIONAL (read-back of four slots of the model; its content is the correspondence of the model with
    the code plus the independent oracle for `md`, `Sa`, `ua`, `va` in harness/c03.py). -/
theorem mass_salt_momentum (e : Env ℝ) (ps : List (Particle ℝ)) :
    (derivs e ps).getD 0 0 = e.md ∧ (derivs e ps).getD 1 0 = e.md * e.Sa ∧
    (derivs e ps).getD 3 0 = e.md * e.ua ∧ (derivs e ps).getD 4 0 = e.md * e.va := by
  simp [derivs, headSlots]

/-- passive tracers change by entrainment only -/
theorem tracer_budget (e : Env ℝ) (ps : List (Particle ℝ)) (hE : WfE e) (hW : Wf e ps)
    (j : Nat) (hj : j < e.ca_tracers.length) :
    ((derivs e ps).drop (11 + slotsLen ps + e.nchems)).getD j 0 = e.md / e.rho_a * e.ca_tracers.getD j 0 := by
  have hl : (dissolvedSlots e ps).length = e.nchems := by
    unfold dissolvedSlots
    by_cases h : 0 < e.nchems
    · simp [h, dissolved, hE.ca_chems, hE.k_bio, hE.cpe, dmFinal,
        dmFold_length e hE ps hW (List.replicate e.nchems 0) (by simp)]
    · simp [h]; omega
  have : (derivs e ps).drop (11 + slotsLen ps + e.nchems) = tracerSlots e := by
    rw [Nat.add_assoc, ← List.drop_drop, derivs_drop11, ← List.drop_drop,
      drop_append_eq _ _ _ (blocks_length e hE ps hW), drop_append_eq _ _ _ hl]
  rw [this]
  unfold tracerSlots
  exact getD_map _ _ _ hj

/-- **Particles that have left the plume**: all their `nc + 5` slots are zero …  DEFINITIONAL (one unfolding of
    `block`); the substantive statements are `outside_no_budget` below and the removal predicate of the harness. -/
theorem outside_zero (e : Env ℝ) (p : Particle ℝ) (h : p.integrate = false) :
    block e p = List.replicate (p.nc + 5) 0 := by
  simp [block, h]

/-- … and every other slot of the vector is what it would be without that particle: the vector
    with the particle present is the vector without it, with `nc + 5` zeros inserted at the
    particle's offset.  (No field of the outside particle other than `nc` is read.) -/
theorem outside_no_budget (e : Env ℝ) (ps₁ ps₂ : List (Particle ℝ)) (p : Particle ℝ) (h : p.integrate = false) :
    derivs e (ps₁ ++ p :: ps₂)
      = (derivs e (ps₁ ++ ps₂)).take (11 + (ps₁.flatMap (block e)).length)
        ++ List.replicate (p.nc + 5) 0
        ++ (derivs e (ps₁ ++ ps₂)).drop (11 + (ps₁.flatMap (block e)).length) := by
  have hhe : heFinal e (ps₁ ++ p :: ps₂) = heFinal e (ps₁ ++ ps₂) := by
    simp [heFinal, List.foldl_append, heStep_outside e _ p h]
  have hdm : dmFinal e (ps₁ ++ p :: ps₂) = dmFinal e (ps₁ ++ ps₂) := by
    simp [dmFinal, List.foldl_append, dmStep_outside e _ p h]
  have hds : dissolvedSlots e (ps₁ ++ p :: ps₂) = dissolvedSlots e (ps₁ ++ ps₂) := by
    simp [dissolvedSlots, hdm]
  have hHl : (headSlots e (heFinal e (ps₁ ++ ps₂))).length = 11 := by simp [headSlots]
  unfold derivs
  rw [hhe, hds]
  simp only [List.flatMap_append, List.flatMap_cons, outside_zero e p h]
  generalize headSlots e (heFinal e (ps₁ ++ ps₂)) = H at hHl ⊢
  generalize List.flatMap (block e) ps₁ = B₁
  generalize List.flatMap (block e) ps₂ = B₂
  generalize dissolvedSlots e (ps₁ ++ ps₂) ++ tracerSlots e = R
  have e1 : H ++ (B₁ ++ B₂ ++ R) = (H ++ B₁) ++ (B₂ ++ R) := by simp
  have hlen : (H ++ B₁).length = 11 + B₁.length := by simp [hHl]
  rw [e1, ← hlen, List.take_left', List.drop_left']
  · simp
  · rfl
  · rfl

/-- **Layout**: the assembled vector has `11 + Σ(nc_i+5) + nchems + ntracers` slots -/
theorem layout (e : Env ℝ) (ps : List (Particle ℝ)) (hE : WfE e) (hW : Wf e ps) :
    (derivs e ps).length = 11 + slotsLen ps + e.nchems + e.ca_tracers.length := by
  have hl : (dissolvedSlots e ps).length = e.nchems := by
    unfold dissolvedSlots
    by_cases h : 0 < e.nchems
    · simp [h, dissolved, hE.ca_chems, hE.k_bio, hE.cpe, dmFinal,
        dmFold_length e hE ps hW (List.replicate e.nchems 0) (by simp)]
    · simp [h]; omega
  simp [derivs, headSlots, blocks_length e hE ps hW, hl, tracerSlots]
  omega


/-! ### the closures (Model/Lmp.lean PART 4) -/

/-- **Maximum hypothesis**: the entrainment is at least the shear and at least the forced entrainment -/
theorem entrainment_ge (i : EntIn ℝ) : mdShear i ≤ entrainment i ∧ mdForced i ≤ entrainment i := by
  unfold entrainment
  split
  · rename_i h; exact ⟨le_refl _, le_of_lt h⟩
  · rename_i h; exact ⟨not_lt.mp h, le_refl _⟩

/-- … and it IS one of the two -/
theorem entrainment_is_max (i : EntIn ℝ) : entrainment i = max (mdShear i) (mdForced i) := by
  unfold entrainment
  split
  · rename_i h; exact (max_eq_left (le_of_lt h)).symm
  · rename_i h; exact (max_eq_right (not_lt.mp h)).symm

/-- **Particle time dilation is non-negative** while the element advances (`0 ≤ V`, `0 ≤ ds`) -/
theorem dtp_nonneg (V fe ds : ℝ) (up : List ℝ) (Xn Xm : ℝ) (x0 x1 : List ℝ) (hV : 0 ≤ V) (hds : 0 ≤ ds) :
    0 ≤ dtpOf V fe ds up Xn Xm x0 x1 := by
  unfold dtpOf
  simp only [Num.real_sqrt, Num.real_zero, Num.real_one]
  split
  · exact le_refl _
  · split
    · exact zero_le_one
    · exact div_nonneg (mul_nonneg (div_nonneg hV (Real.sqrt_nonneg _)) (Real.sqrt_nonneg _)) hds

/-- **A particle outside the plume exerts no buoyant force**: `p_fac = 0`, hence `fb = 0`, whatever its masses -/
theorem buoyant_force_outside_zero (sol neu : Bool) (rho rho_a rho_p nbe b Xl Xn Xm : ℝ) (Mp : List ℝ) :
    fbOf sol neu rho rho_a rho_p nbe (pFac false b Xl Xn Xm) Mp = 0 := by
  unfold fbOf pFac
  simp only [Bool.false_eq_true, if_false, Num.real_zero]
  split <;> simp

/-- the buoyancy reduction factor is 0 beyond the half-width and never negative -/
theorem pFac_nonneg (integ : Bool) (b Xl Xn Xm : ℝ) : 0 ≤ pFac integ b Xl Xn Xm := by
  unfold pFac
  simp only [Num.real_zero]
  split
  · split
    · exact le_refl _
    · split
      · exact le_refl _
      · rename_i h; exact not_lt.mp h
  · exact le_refl _

/-! ### non-vacuity: a concrete state with a soluble particle inside the plume, an inert particle
    inside, and a soluble particle outside; two compounds with background concentration,
    biodegradation, one tracer -/

example : WfE exEnv := by constructor <;> rfl

example : Wf exEnv exPs := by
  intro p hp
  simp only [exPs, List.mem_cons, List.not_mem_nil, or_false] at hp
  rcases hp with rfl | rfl | rfl <;> constructor <;> simp [exSol, exInert, exEnv]

/-- the budget is not the trivial `0 = 0` on that state: the biodegradation sink of the first
    compound is non-zero -/
example : (exPs.map (bioTerm 0)).sum ≠ 0 := by
  simp [exPs, bioTerm, exSol, exInert]
  norm_num

end TamocV.Props.C03
