/-
  C12 — Live-oil builder meets its gas-to-oil ratio and flow-rate targets.   (PARTIAL by design)
  Property theorems only (over ℝ; any number of dead-oil compounds, any number of tracked
  atmospheric gases), about the executable model `TamocV.Model.Oil` (hand transcription of
  dbm_utilities.get_oil (TAMOC-database branch), mix_gas_for_gor, gas_fraction, set_mass_fluxes;
  tied to /repo by oracle-table correspondence, harness/c12.py).

  The flash and the densities at standard conditions (`lib : Lib ℝ`) are universally quantified.
  Facts about them that a statement needs are EXPLICIT, NAMED hypotheses:
    * `FlashHomogeneous lib`   — flashing c·m gives c times the phase masses of flashing m (c > 0)
    * `RhoScaleInvariant lib`  — density depends on composition only (C10)
  and the in-domain guards (requested rate > 0, the rated phase present with positive density).

  Both are HYPOTHESES (sampled on every generated case by the harness), not lemmas.

  NOT PROVED (observed by the harness on the real `get_oil`, re-flashed at 288.15 K, 101325 Pa):
  that `fsolve` returns a root of `gas_fraction`.  The GOR statement is therefore conditional —
  `gor_target_if_root` is the PARTIAL form of the GOR clause (missing: `fsolve` returns a root; it
  demonstrably does not always, see known finding gor-fsolve-start-beyond-dew-point).  Also only
  observed: that the returned root lies in [0, 1] (used by `get_oil_nonneg`).

  Theorems marked (corollary) / (helper) / (definitional) are instances or unfoldings; the pinned
  inventory harness/theorems/C12.txt lists the property theorems proper.
-/
import TamocV.Real
import TamocV.Lemmas.Basic
import TamocV.Lemmas.C12
import TamocV.Model.Oil
import Mathlib.Tactic.Ring
import Mathlib.Tactic.NormNum
import Mathlib.Tactic.FieldSimp
import Mathlib.Tactic.Linarith
import Mathlib.Tactic.Positivity

namespace TamocV.Props.C12
open TamocV TamocV.Model.Oil TamocV.Lemmas.C12

-- ===================================================================== named hypotheses

/-- the equilibrium split is homogeneous of degree one in the masses -/
def FlashHomogeneous (lib : Lib ℝ) : Prop :=
  ∀ (c : ℝ) (m : List ℝ), 0 < c →
    lib.flashGas (m.map (· * c)) = (lib.flashGas m).map (· * c) ∧
    lib.flashLiq (m.map (· * c)) = (lib.flashLiq m).map (· * c)

/-- density is intensive: it does not change when all masses are scaled (C10) -/
def RhoScaleInvariant (lib : Lib ℝ) : Prop :=
  ∀ (c : ℝ) (m : List ℝ), 0 < c →
    lib.rhoGas (m.map (· * c)) = lib.rhoGas m ∧ lib.rhoLiq (m.map (· * c)) = lib.rhoLiq m

def AllNonneg (l : List ℝ) : Prop := ∀ x ∈ l, 0 ≤ x

-- concrete library for the non-vacuity examples: a quarter of every compound goes to the gas
private noncomputable def exLib : Lib ℝ :=
  { flashGas := fun m => m.map (· * (1/4)), flashLiq := fun m => m.map (· * (3/4)),
    rhoGas := fun _ => 2, rhoLiq := fun _ => 800 }

private theorem exHom : FlashHomogeneous exLib := by
  intro c m _
  simp only [exLib, List.map_map]
  constructor <;> (apply List.map_congr_left; intro x _; simp only [Function.comp]; ring)

private theorem exInv : RhoScaleInvariant exLib := fun _ _ _ => ⟨rfl, rfl⟩

-- ===================================================================== homogeneity of the targets

/-- (helper) -/
theorem phaseRow_scale (lib : Lib ℝ) (hF : FlashHomogeneous lib) (fp : Nat) (m : List ℝ) (c : ℝ)
    (hc : 0 < c) : phaseRow lib fp (m.map (· * c)) = (phaseRow lib fp m).map (· * c) := by
  unfold phaseRow
  split
  · exact (hF c m hc).1
  · exact (hF c m hc).2

/-- (helper) -/
theorem phaseRho_scale (lib : Lib ℝ) (hR : RhoScaleInvariant lib) (fp : Nat) (m : List ℝ) (c : ℝ)
    (hc : 0 < c) : phaseRho lib fp (m.map (· * c)) = phaseRho lib fp m := by
  unfold phaseRho
  split
  · exact (hR c m hc).1
  · exact (hR c m hc).2

/-- the gas-to-oil ratio at standard conditions is an intensive property of the fluxes -/
theorem gorOf_scale (lib : Lib ℝ) (hF : FlashHomogeneous lib) (hR : RhoScaleInvariant lib)
    (m : List ℝ) (c : ℝ) (hc : 0 < c) : gorOf lib (m.map (· * c)) = gorOf lib m := by
  simp only [gorOf, Num.real_sum]
  rw [(hF c m hc).1, (hF c m hc).2, (hR c _ hc).1, (hR c _ hc).2, sum_map_mul_right, sum_map_mul_right]
  have h1 : (lib.flashGas m).sum * c / lib.rhoGas (lib.flashGas m) / ft3
      = (lib.flashGas m).sum / lib.rhoGas (lib.flashGas m) / ft3 * c := by ring
  have h2 : (lib.flashLiq m).sum * c / lib.rhoLiq (lib.flashLiq m) / bbl
      = (lib.flashLiq m).sum / lib.rhoLiq (lib.flashLiq m) / bbl * c := by ring
  rw [h1, h2, mul_div_mul_right _ _ (ne_of_gt hc)]

-- ===================================================================== non-negativity

/-- (helper) the scale factor is non-negative when the requested rate is, the rated phase carries
    non-negative mass and its density is positive -/
theorem kFac_nonneg (lib : Lib ℝ) (mf : List ℝ) (q : ℝ) (fp : Nat) (hq : 0 ≤ q)
    (hrow : 0 ≤ (phaseRow lib fp mf).sum) (hrho : 0 < phaseRho lib fp (phaseRow lib fp mf)) :
    0 ≤ kFac lib mf q fp := by
  simp only [kFac, Num.real_sum, bbl, Num.real_ofSci]
  have : (0 : ℝ) ≤ (phaseRow lib fp mf).sum / phaseRho lib fp (phaseRow lib fp mf) / (158987 / 1000000) := by
    positivity
  have hq' : (0 : ℝ) ≤ q / 86400 := by positivity
  norm_num
  exact div_nonneg hq' (by norm_num at this; exact this)

/-- NON-NEGATIVE: `set_mass_fluxes` returns non-negative fluxes for non-negative mass fractions. -/
theorem flux_nonneg (lib : Lib ℝ) (mf : List ℝ) (q : ℝ) (fp : Nat) (hmf : AllNonneg mf) (hq : 0 ≤ q)
    (hrow : 0 ≤ (phaseRow lib fp mf).sum) (hrho : 0 < phaseRho lib fp (phaseRow lib fp mf)) :
    AllNonneg (setMassFluxes lib mf q fp) :=
  mem_map_mul_right_nonneg _ _ (kFac_nonneg lib mf q fp hq hrow hrho) hmf

/-- the live-oil mass fractions are non-negative when the dead-oil masses are and the root of the
    gas mass fraction lies in [0, 1] (the latter is OBSERVED, not proved). -/
theorem liveMassFrac_nonneg (masses : List ℝ) (nca : Nat) (gor beta : ℝ) (hm : AllNonneg masses)
    (hS : 0 < masses.sum) (hb0 : 0 ≤ beta) (hb1 : beta ≤ 1) :
    AllNonneg (liveMassFrac masses nca gor beta) := by
  have hdead : AllNonneg (withCa (loadMassFrac masses) nca) := by
    intro x hx
    simp only [withCa, loadMassFrac, zeros_eq, Num.real_sum, List.mem_append, List.mem_map,
      List.mem_replicate] at hx
    rcases hx with ⟨y, hy, rfl⟩ | ⟨_, rfl⟩
    · exact div_nonneg (hm y hy) (le_of_lt hS)
    · exact le_refl 0
  simp only [liveMassFrac]
  split
  · rw [mixGasForGor, mix_blocks]
    intro x hx
    rcases List.mem_append.mp hx with h | h
    · exact mem_map_mul_nonneg _ _ hb0 gasMf_nonneg x h
    · exact mem_map_mul_nonneg _ _ (by linarith) hdead x h
  · exact hdead

/-- (corollary of `flux_nonneg` and `liveMassFrac_nonneg`) NON-NEGATIVE, whole builder: every returned mass flux is ≥ 0. -/
theorem get_oil_nonneg (lib : Lib ℝ) (masses : List ℝ) (nca : Nat) (gor beta q : ℝ) (fp : Nat)
    (hm : AllNonneg masses) (hS : 0 < masses.sum) (hb0 : 0 ≤ beta) (hb1 : beta ≤ 1) (hq : 0 ≤ q)
    (hrow : 0 ≤ (phaseRow lib fp (liveMassFrac masses nca gor beta)).sum)
    (hrho : 0 < phaseRho lib fp (phaseRow lib fp (liveMassFrac masses nca gor beta))) :
    AllNonneg (getOil lib masses nca gor beta q fp) :=
  flux_nonneg lib _ q fp (liveMassFrac_nonneg masses nca gor beta hm hS hb0 hb1) hq hrow hrho

-- ===================================================================== proportional to the rate

/-- PROPORTIONAL TO THE REQUESTED RATE: scaling `q_oil` by `c` scales every mass flux by `c`
    (exactly; the composition found by the root finder does not depend on the rate). -/
theorem flux_linear_in_rate (lib : Lib ℝ) (masses : List ℝ) (nca : Nat) (gor beta q c : ℝ) (fp : Nat) :
    getOil lib masses nca gor beta (c * q) fp = (getOil lib masses nca gor beta q fp).map (c * ·) := by
  have hk : kFac lib (liveMassFrac masses nca gor beta) (c * q) fp
      = c * kFac lib (liveMassFrac masses nca gor beta) q fp := by
    simp only [kFac]
    rw [mul_div_assoc, mul_div_assoc]
  simp only [getOil, setMassFluxes, List.map_map, hk]
  apply List.map_congr_left
  intro x _
  simp only [Function.comp]
  ring

-- ===================================================================== dead-oil proportions

/-- the composition handed to `set_mass_fluxes`, block by block (`gor > 0`): natural gas in the
    proportions of `natural_gas()` scaled by β, the dead oil in its GIVEN proportions scaled by
    `(1-β)/Σ masses`, zero for the tracked atmospheric gases. -/
theorem live_composition (masses : List ℝ) (nca : Nat) (gor beta : ℝ) (hg : 0 < gor) :
    liveMassFrac masses nca gor beta
      = (gasMf : List ℝ).map (beta * ·) ++ (masses.map fun x => (1 - beta) * (x / masses.sum))
          ++ List.replicate nca 0 := by
  simp only [liveMassFrac, Num.real_zero, if_pos hg, mixGasForGor]
  rw [mix_blocks]
  simp [withCa, loadMassFrac, zeros_eq, List.map_append, Function.comp_def, List.append_assoc]

/-- … and without added gas (`gor ≤ 0`): the normalised dead oil, zeros for the atmospheric gases. -/
theorem dead_composition (masses : List ℝ) (nca : Nat) (gor beta : ℝ) (hg : ¬ 0 < gor) :
    liveMassFrac masses nca gor beta = (masses.map fun x => x / masses.sum) ++ List.replicate nca 0 := by
  simp [liveMassFrac, Num.real_zero, if_neg hg, withCa, loadMassFrac, zeros_eq]

/-- DEAD-OIL PROPORTIONS: in the returned fluxes the dead-oil components (positions 5 … 5+n-1 after
    the five natural-gas compounds when gas is added, positions 0 … n-1 otherwise) are one common
    factor times the GIVEN masses — none dropped, none reordered, whatever the normalisation. -/
theorem dead_oil_proportions (lib : Lib ℝ) (masses : List ℝ) (nca : Nat) (gor beta q : ℝ) (fp : Nat) :
    ((getOil lib masses nca gor beta q fp).drop (if 0 < gor then 5 else 0)).take masses.length
      = masses.map ((((if 0 < gor then 1 - beta else 1) / masses.sum)
          * kFac lib (liveMassFrac masses nca gor beta) q fp) * ·) := by
  by_cases hg : 0 < gor
  · simp only [getOil, setMassFluxes, if_pos hg]
    rw [live_composition masses nca gor beta hg]
    simp only [List.map_append, List.append_assoc]
    rw [List.drop_left' (by simp [gasMf_length]), List.take_left' (by simp), List.map_map]
    apply List.map_congr_left
    intro x _
    simp only [Function.comp]
    ring
  · simp only [getOil, setMassFluxes, if_neg hg]
    rw [dead_composition masses nca gor beta hg]
    simp only [List.map_append, List.drop_zero]
    rw [List.take_left' (by simp), List.map_map]
    apply List.map_congr_left
    intro x _
    simp only [Function.comp]
    ring

/-- the tracked atmospheric gases carry zero flux, and the added gas is natural gas in the
    proportions of `natural_gas()`. -/
theorem gas_and_air_blocks (lib : Lib ℝ) (masses : List ℝ) (nca : Nat) (gor beta q : ℝ) (fp : Nat)
    (hg : 0 < gor) :
    (getOil lib masses nca gor beta q fp).take 5
      = (gasMf : List ℝ).map ((beta * kFac lib (liveMassFrac masses nca gor beta) q fp) * ·) ∧
    (getOil lib masses nca gor beta q fp).drop (5 + masses.length) = List.replicate nca 0 := by
  simp only [getOil, setMassFluxes]
  rw [live_composition masses nca gor beta hg]
  simp only [List.map_append]
  constructor
  · rw [List.append_assoc, List.take_left' (by simp [gasMf_length]), List.map_map]
    apply List.map_congr_left
    intro x _
    simp only [Function.comp]
    ring
  · rw [List.drop_left' (by simp [gasMf_length])]
    simp

/-- the result does not depend on whether the given masses are normalised. -/
theorem normalisation_irrelevant (masses : List ℝ) (c : ℝ) (hc : c ≠ 0) :
    loadMassFrac (masses.map (c * ·)) = loadMassFrac masses := by
  simp only [loadMassFrac, Num.real_sum, List.map_map]
  have hs : (masses.map (c * ·)).sum = c * masses.sum := by
    induction masses with
    | nil => simp
    | cons x xs ih => simp [ih, mul_add]
  rw [hs]
  apply List.map_congr_left
  intro x _
  simp only [Function.comp]
  by_cases h : masses.sum = 0
  · simp [h]
  · field_simp

-- ===================================================================== rate target

/-- RATE TARGET (exact): the fluxes returned by `set_mass_fluxes`, brought to equilibrium at standard
    conditions, give a volume flow of the rated phase (liquid for `fp = 1`, gas for `fp = 0`) equal to
    the requested `q_oil` bbl/d — given homogeneity of the flash and scale invariance of density. -/
theorem rate_target (lib : Lib ℝ) (hF : FlashHomogeneous lib) (hR : RhoScaleInvariant lib)
    (mf : List ℝ) (q : ℝ) (fp : Nat) (hq : 0 < q) (hrow : 0 < (phaseRow lib fp mf).sum)
    (hrho : 0 < phaseRho lib fp (phaseRow lib fp mf)) :
    stdRate lib fp (setMassFluxes lib mf q fp) = q := by
  have hk : 0 < kFac lib mf q fp := by
    simp only [kFac, Num.real_sum, bbl, Num.real_ofSci]
    norm_num
    positivity
  simp only [stdRate, setMassFluxes, Num.real_sum]
  rw [phaseRow_scale lib hF fp mf _ hk, phaseRho_scale lib hR fp _ _ hk, sum_map_mul_right]
  simp only [kFac, Num.real_sum, bbl, Num.real_ofSci]
  norm_num
  field_simp

/-- (corollary: `rate_target` at the composition `get_oil` hands over) RATE TARGET for the whole builder. -/
theorem get_oil_rate_target (lib : Lib ℝ) (hF : FlashHomogeneous lib) (hR : RhoScaleInvariant lib)
    (masses : List ℝ) (nca : Nat) (gor beta q : ℝ) (fp : Nat) (hq : 0 < q)
    (hrow : 0 < (phaseRow lib fp (liveMassFrac masses nca gor beta)).sum)
    (hrho : 0 < phaseRho lib fp (phaseRow lib fp (liveMassFrac masses nca gor beta))) :
    stdRate lib fp (getOil lib masses nca gor beta q fp) = q :=
  rate_target lib hF hR _ q fp hq hrow hrho

example : stdRate exLib 1 (getOil exLib [3, 1] 2 100 (1/10) 5000 1) = 5000 := by
  apply get_oil_rate_target exLib exHom exInv
  · norm_num
  · rw [live_composition _ _ _ _ (by norm_num)]
    simp [phaseRow, exLib, gasMf, Num.real_ofSci]; norm_num
  · simp [phaseRho, exLib]

-- ===================================================================== GOR target (conditional)

/-- PARTIAL (GOR clause of C12).  GOR TARGET, conditional on the root finder: IF the value `beta` returned by `fsolve` is a root
    of the residual (`gas_fraction beta = 0`), THEN the returned mass fluxes, brought to equilibrium
    at standard conditions, have exactly the requested gas-to-oil ratio.  MISSING for the full clause:
    that `fsolve` returns such a root (observed only).  `_hGasPresent` / `_hLiqPresent` are the in-domain
    guards of the ratio (both phases present with positive density; otherwise the code divides by 0
    or by the density of nothing and Lean's `x/0 = 0` would make the statement meaningless). -/
theorem gor_target_if_root (lib : Lib ℝ) (hF : FlashHomogeneous lib) (hR : RhoScaleInvariant lib)
    (masses : List ℝ) (nca : Nat) (gor beta q : ℝ) (fp : Nat) (hg : 0 < gor) (hq : 0 < q)
    (hrow : 0 < (phaseRow lib fp (liveMassFrac masses nca gor beta)).sum)
    (hrho : 0 < phaseRho lib fp (phaseRow lib fp (liveMassFrac masses nca gor beta)))
    (_hGasPresent : 0 < (lib.flashGas (liveMassFrac masses nca gor beta)).sum ∧
        0 < lib.rhoGas (lib.flashGas (liveMassFrac masses nca gor beta)))
    (_hLiqPresent : 0 < (lib.flashLiq (liveMassFrac masses nca gor beta)).sum ∧
        0 < lib.rhoLiq (lib.flashLiq (liveMassFrac masses nca gor beta)))
    (hroot : gasFraction lib beta gor (mfGasFull (withCa (loadMassFrac masses) nca).length)
              (mfOilFull (withCa (loadMassFrac masses) nca)) = 0) :
    gorOf lib (getOil lib masses nca gor beta q fp) = gor := by
  have hk : 0 < kFac lib (liveMassFrac masses nca gor beta) q fp := by
    simp only [kFac, Num.real_sum, bbl, Num.real_ofSci]
    norm_num
    positivity
  rw [getOil, setMassFluxes, gorOf_scale lib hF hR _ _ hk]
  simp only [gasFraction] at hroot
  simp only [liveMassFrac, Num.real_zero, if_pos hg, mixGasForGor]
  linarith

/-- (near-definitional: the hypothesis `hliq` is the conclusion before scaling; content = scale
    invariance of the ratio)  GOR 0: no gas is added; if the dead oil itself is all liquid at standard
    conditions the returned fluxes have gas-to-oil ratio 0. -/
theorem gor_zero (lib : Lib ℝ) (hF : FlashHomogeneous lib) (hR : RhoScaleInvariant lib)
    (masses : List ℝ) (nca : Nat) (gor beta q : ℝ) (fp : Nat) (hq : 0 < q)
    (hrow : 0 < (phaseRow lib fp (liveMassFrac masses nca gor beta)).sum)
    (hrho : 0 < phaseRho lib fp (phaseRow lib fp (liveMassFrac masses nca gor beta)))
    (hliq : (lib.flashGas (liveMassFrac masses nca gor beta)).sum = 0) :
    gorOf lib (getOil lib masses nca gor beta q fp) = 0 := by
  have hk : 0 < kFac lib (liveMassFrac masses nca gor beta) q fp := by
    simp only [kFac, Num.real_sum, bbl, Num.real_ofSci]
    norm_num
    positivity
  rw [getOil, setMassFluxes, gorOf_scale lib hF hR _ _ hk]
  simp [gorOf, hliq]

example : gorOf exLib (getOil exLib [3, 1] 0 100 (1/10) 5000 1)
    = gorOf exLib (liveMassFrac [3, 1] 0 100 (1/10)) := by
  have hk : 0 < kFac exLib (liveMassFrac [3, 1] 0 100 (1/10)) 5000 1 := by
    rw [live_composition _ _ _ _ (by norm_num)]
    simp [kFac, phaseRow, phaseRho, exLib, gasMf, bbl, Num.real_ofSci]; norm_num
  rw [getOil, setMassFluxes, gorOf_scale exLib exHom exInv _ _ hk]


-- ===================================================================== the rated phase must be present

/-- ABSENT RATED PHASE (the guard `hrow` of `rate_target` is necessary): when the rated phase does
    not form at standard conditions (e.g. gas-rate convention for a gas-free dead oil, GOR 0), NO
    positive scale factor meets a positive rate — the volume flow of that phase is 0 for every
    scaling.  The request is infeasible; the real code answers it with NaN fluxes (0/NaN), known
    finding `gas-rate-absent-gas-nan`. -/
theorem rate_target_infeasible_absent_phase (lib : Lib ℝ) (hF : FlashHomogeneous lib) (mf : List ℝ)
    (fp : Nat) (habs : (phaseRow lib fp mf).sum = 0) (k : ℝ) (hk : 0 < k) :
    stdRate lib fp (mf.map (· * k)) = 0 := by
  simp only [stdRate, Num.real_sum]
  rw [phaseRow_scale lib hF fp mf k hk, sum_map_mul_right, habs]
  simp

example : stdRate exLib 0 (([0, 0] : List ℝ).map (· * 7)) = 0 :=
  rate_target_infeasible_absent_phase exLib exHom [0, 0] 0 (by simp [phaseRow, exLib]) 7 (by norm_num)

-- ===================================================================== further non-vacuity examples

example : AllNonneg (setMassFluxes exLib [1/4, 3/4] 5000 1) :=
  flux_nonneg exLib [1/4, 3/4] 5000 1
    (by intro x hx; simp at hx; rcases hx with h | h <;> rw [h] <;> norm_num) (by norm_num)
    (by simp [phaseRow, exLib]; norm_num) (by simp [phaseRho, exLib])

example : getOil exLib [3, 1] 2 100 (1/10) (2 * 5000) 1 = (getOil exLib [3, 1] 2 100 (1/10) 5000 1).map (2 * ·) :=
  flux_linear_in_rate exLib [3, 1] 2 100 (1/10) 5000 2 1

example : ((getOil exLib [3, 1] 2 100 (1/10) 5000 1).drop 5).take 2
    = [((1 - 1/10) / (3 + 1 + 0) * kFac exLib (liveMassFrac [3, 1] 2 100 (1/10)) 5000 1) * 3,
       ((1 - 1/10) / (3 + 1 + 0) * kFac exLib (liveMassFrac [3, 1] 2 100 (1/10)) 5000 1) * 1] := by
  have h := dead_oil_proportions exLib [3, 1] 2 100 (1/10) 5000 1
  simpa using h

-- the conditional GOR theorem is not vacuous: for `exLib` (a fixed split) every β is a root at the
-- library's own GOR, and the returned fluxes have it
example : gorOf exLib (getOil exLib [3, 1] 0 (gorOf exLib (liveMassFrac [3, 1] 0 1 (1/10))) (1/10) 5000 1)
    = gorOf exLib (liveMassFrac [3, 1] 0 1 (1/10)) := by
  have hpos : (0 : ℝ) < gorOf exLib (liveMassFrac [3, 1] 0 1 (1/10)) := by
    rw [live_composition _ _ _ _ (by norm_num)]
    simp [gorOf, exLib, gasMf, ft3, bbl, Num.real_ofSci]; norm_num
  have hsame : ∀ g : ℝ, 0 < g → liveMassFrac [3, 1] 0 g (1/10) = liveMassFrac [3, 1] 0 1 (1/10) := by
    intro g hg
    rw [live_composition _ _ _ _ hg, live_composition _ _ _ _ (by norm_num)]
  apply gor_target_if_root exLib exHom exInv
  · exact hpos
  · norm_num
  · rw [hsame _ hpos, live_composition _ _ _ _ (by norm_num)]
    simp [phaseRow, exLib, gasMf, Num.real_ofSci]; norm_num
  · simp [phaseRho, exLib]
  · rw [hsame _ hpos, live_composition _ _ _ _ (by norm_num)]
    simp [exLib, gasMf, Num.real_ofSci]; norm_num
  · rw [hsame _ hpos, live_composition _ _ _ _ (by norm_num)]
    simp [exLib, gasMf, Num.real_ofSci]; norm_num
  · have e : mix (1/10 : ℝ) (mfGasFull (withCa (loadMassFrac ([3, 1] : List ℝ)) 0).length)
        (mfOilFull (withCa (loadMassFrac ([3, 1] : List ℝ)) 0)) = liveMassFrac ([3, 1] : List ℝ) 0 1 (1/10) := by
      simp [liveMassFrac, mixGasForGor, Num.real_zero]
    simp only [gasFraction, e]
    ring

end TamocV.Props.C12
