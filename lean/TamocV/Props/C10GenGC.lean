/-
  C10 (continued) — relabelling and zero-mass-component invariance proved about the `coefs` REGENERATED from
  dbm_p.py on BOTH interaction-coefficient branches (user δ, `calc_delta ≤ 0`: `coefs_refines_no_gc`; group
  contributions, `calc_delta > 0`: `coefs_refines_gc`), from the hand-model theorems `coefs_perm` /
  `coefs_append_zero` of TamocV/Props/C10.lean.  Helper lemmas live in `namespace TamocV.Lemmas.C10GenGC` (this file).
-/
import TamocV.Props.C10Gen
import TamocV.Props.C01GC

set_option linter.unusedSimpArgs false
set_option linter.unusedVariables false

namespace TamocV.Lemmas.C10GenGC
open TamocV.Gen TamocV.Lemmas.EosRefine TamocV.Lemmas.C10Gen TamocV.Model.Eos TamocV.Lemmas.C10 TamocV.Lemmas.Eos Finset

/-- the group table relabelled by σ (rows only: row i of the result is row σ i of `G`) -/
def permRows (σ : Equiv.Perm ℕ) (n : ℕ) (G : List (List ℝ)) : List (List ℝ) :=
  (List.range n).map fun i => G.getD (σ i) []

theorem ofM_permRows (σ : Equiv.Perm ℕ) (n : ℕ) (h : PermOn n σ) (G : List (List ℝ)) (hG : G.length = n) :
    ofM (permRows σ n G) = fun r => ofM G (σ r) := by
  funext i k
  simp only [ofM, permRows]
  by_cases hi : i < n
  · simp [List.getD_eq_getElem?_getD, List.getElem?_map, List.getElem?_range hi]
  · have h1 : ¬ σ i < n := fun hh => hi ((h i).mp hh)
    have h2 : G.length ≤ σ i := by omega
    simp [List.getD_eq_getElem?_getD, List.getElem?_eq_none (by simpa using not_lt.mp hi : ((List.range n).map _).length ≤ i),
      List.getElem?_eq_none h2]

theorem permM_rows (σ : Equiv.Perm ℕ) (n : ℕ) (d : List (List ℝ)) : ∀ r ∈ permM σ n d, r.length = n := by
  intro r hr
  simp only [permM, List.mem_map] at hr
  obtain ⟨i, _, rfl⟩ := hr
  simp

theorem ofL_append (l : List ℝ) (x : ℝ) (n i : ℕ) (hl : l.length = n) (hi : i < n) : ofL (l ++ [x]) i = ofL l i := by
  simp only [ofL, List.getD_eq_getElem?_getD]
  rw [List.getElem?_append_left (by omega)]

theorem ofL_append_last (l : List ℝ) (x : ℝ) (n : ℕ) (hl : l.length = n) : ofL (l ++ [x]) n = x := by
  subst hl
  simp [ofL, List.getD_eq_getElem?_getD]

/-- the mixing rules only read y, a, b, δ on the index range -/
theorem mix_congr_all (n : ℕ) (T P : ℝ) (y y' a a' b b' : ℕ → ℝ) (δ δ' : ℕ → ℕ → ℝ)
    (hy : ∀ i, i < n → y' i = y i) (ha : ∀ i, i < n → a' i = a i) (hb : ∀ i, i < n → b' i = b i)
    (hδ : ∀ i j, i < n → j < n → δ' i j = δ i j) :
    (mix n T P y' a' b' δ').A = (mix n T P y a b δ).A ∧ (mix n T P y' a' b' δ').B = (mix n T P y a b δ).B ∧
      (∀ i, i < n → (mix n T P y' a' b' δ').Ap i = (mix n T P y a b δ).Ap i) ∧
      (∀ i, i < n → (mix n T P y' a' b' δ').Bp i = (mix n T P y a b δ).Bp i) ∧
      (∀ i, i < n → (mix n T P y' a' b' δ').yk i = (mix n T P y a b δ).yk i) := by
  have hbd : ∑ i ∈ range n, y' i * b' i = ∑ i ∈ range n, y i * b i := by
    apply Finset.sum_congr rfl
    intro i hi
    rw [hy i (mem_range.mp hi), hb i (mem_range.mp hi)]
  have haT : ∑ j ∈ range n, ∑ i ∈ range n, y' i * y' j * (a' i * a' j) ^ ((1:ℝ) / 2) * (1 - δ' i j)
      = ∑ j ∈ range n, ∑ i ∈ range n, y i * y j * (a i * a j) ^ ((1:ℝ) / 2) * (1 - δ i j) := by
    apply Finset.sum_congr rfl
    intro j hj
    apply Finset.sum_congr rfl
    intro i hi
    have hi' := mem_range.mp hi
    have hj' := mem_range.mp hj
    rw [hy i hi', hy j hj', ha i hi', ha j hj', hδ i j hi' hj']
  simp only [mix, sumN_eq, Num.real_rpow, Num.real_one, Num.real_ofNat, Num.real_npow]
  refine ⟨by rw [haT], by rw [hbd], ?_, ?_, hy⟩
  · intro i hi
    rw [haT, ha i hi]
    congr 2
    apply Finset.sum_congr rfl
    intro j hj
    have hj' := mem_range.mp hj
    rw [hy j hj', ha j hj', hδ j i hj' hi]
  · intro i hi
    rw [hbd, hb i hi]

/-- the hand model's `coefs` only reads its per-component inputs on the index range -/
theorem coefs_congr (n : ℕ) (T P : ℝ) (m m' M M' Pc Pc' Tc Tc' w w' : ℕ → ℝ) (cd : Bool) (g g' A B δ δ' : ℕ → ℕ → ℝ)
    (hm : ∀ i, i < n → m' i = m i) (hM : ∀ i, i < n → M' i = M i) (hPc : ∀ i, i < n → Pc' i = Pc i)
    (hTc : ∀ i, i < n → Tc' i = Tc i) (hw : ∀ i, i < n → w' i = w i) (hg : ∀ i, i < n → g' i = g i)
    (hδ : ∀ i j, i < n → j < n → δ' i j = δ i j) :
    let c' := coefs n T P m' M' Pc' Tc' w' cd g' A B δ'
    let c := coefs n T P m M Pc Tc w cd g A B δ
    c'.A = c.A ∧ c'.B = c.B ∧ (∀ i, i < n → c'.Ap i = c.Ap i) ∧ (∀ i, i < n → c'.Bp i = c.Bp i)
      ∧ (∀ i, i < n → c'.yk i = c.yk i) := by
  intro c' c
  have ha : ∀ i, i < n → aTk T (Tc' i) (Pc' i) (w' i) = aTk T (Tc i) (Pc i) (w i) := by
    intro i hi; rw [hTc i hi, hPc i hi, hw i hi]
  have hb : ∀ i, i < n → bk (Tc' i) (Pc' i) = bk (Tc i) (Pc i) := by
    intro i hi; rw [hTc i hi, hPc i hi]
  have hy : ∀ i, i < n → moleFraction n m' M' i = moleFraction n m M i := by
    intro i hi
    simp only [moleFraction, sumN_eq]
    rw [hm i hi, hM i hi]
    congr 1
    apply Finset.sum_congr rfl
    intro j hj
    rw [hm j (mem_range.mp hj), hM j (mem_range.mp hj)]
  have hd : ∀ i j, i < n → j < n →
      deltaUsed cd T (fun i => aTk T (Tc' i) (Pc' i) (w' i)) (fun i => bk (Tc' i) (Pc' i)) g' A B δ' i j
        = deltaUsed cd T (fun i => aTk T (Tc i) (Pc i) (w i)) (fun i => bk (Tc i) (Pc i)) g A B δ i j := by
    intro i j hi hj
    unfold deltaUsed
    by_cases hc : (cd && i != j) = true
    · simp only [hc, if_true]
      by_cases hlt : i < j
      · simp only [if_pos hlt, ha i hi, ha j hj, hb i hi, hb j hj, hg i hi, hg j hj]
      · simp only [if_neg hlt, ha i hi, ha j hj, hb i hi, hb j hj, hg i hi, hg j hj]
    · simp only [hc, Bool.false_eq_true, if_false, hδ i j hi hj]
  exact mix_congr_all n T P _ _ _ _ _ _ _ _ hy ha hb hd

/-- (for the non-vacuity example) the transposition of 0 and 1 is a relabelling of {0, 1} -/
theorem permOn_swap01 : PermOn 2 (Equiv.swap 0 1) := by
  intro i
  by_cases h0 : i = 0
  · subst h0; simp [Equiv.swap_apply_left]
  · by_cases h1 : i = 1
    · subst h1; simp [Equiv.swap_apply_right]
    · rw [Equiv.swap_apply_of_ne_of_ne h0 h1]

end TamocV.Lemmas.C10GenGC

namespace TamocV.Props.C10
open TamocV.Gen TamocV.Lemmas.EosRefine TamocV.Lemmas.C10Gen TamocV.Lemmas.C10GenGC TamocV.Model.Eos TamocV.Lemmas.C10
  TamocV.Lemmas.Eos

/-- **Relabelling the components, proved about the REGENERATED `coefs`, for every `calc_delta`** (user / zero
    interaction matrix AND the group-contribution double loop): if every per-component list, the interaction matrix
    (rows and columns) and the group table (rows) are relabelled by a permutation σ of {0..n-1}, A and B are unchanged
    and Ap, Bp, y are relabelled the same way.  `G.length = n` is only used on the group-contribution branch (rows
    beyond the table read as empty on both sides). -/
theorem gen_coefs_perm (σ : Equiv.Perm ℕ) (n : ℕ) (hσ : PermOn n σ) (T P : ℝ) (m M Pc Tc w : List ℝ)
    (δ A B G : List (List ℝ)) (cd : ℝ)
    (hm : m.length = n) (hM : M.length = n) (hPc : Pc.length = n) (hTc : Tc.length = n) (hw : w.length = n)
    (hδ : δ.length = n) (hδr : ∀ r ∈ δ, r.length = n) (hG : G.length = n) :
    let g' := EosFullPy.coefs T P (permL σ n m) (permL σ n M) (permL σ n Pc) (permL σ n Tc) (permL σ n w) (permM σ n δ)
      A B (permRows σ n G) cd
    let g := EosFullPy.coefs T P m M Pc Tc w δ A B G cd
    g'.1 = g.1 ∧ g'.2.1 = g.2.1 ∧ (∀ i, i < n → g'.2.2.1.getD i 0 = g.2.2.1.getD (σ i) 0)
      ∧ (∀ i, i < n → g'.2.2.2.1.getD i 0 = g.2.2.2.1.getD (σ i) 0)
      ∧ (∀ i, i < n → g'.2.2.2.2.getD i 0 = g.2.2.2.2.getD (σ i) 0) := by
  intro g' g
  have hs : ∀ i, i < n → σ i < n := fun i hi => (hσ i).mpr hi
  by_cases hcd : 0 < cd
  · have r' := TamocV.Props.C01.coefs_refines_gc T P (permL σ n m) (permL σ n M) (permL σ n Pc) (permL σ n Tc) (permL σ n w)
      (permM σ n δ) A B (permRows σ n G) cd n (permL_length σ n m) (permL_length σ n M) (permL_length σ n Pc)
      (permL_length σ n Tc) (permM_length σ n δ) (permM_rows σ n δ) hcd
    have r := TamocV.Props.C01.coefs_refines_gc T P m M Pc Tc w δ A B G cd n hm hM hPc hTc hδ hδr hcd
    simp only [ofL_permL σ n hσ m hm, ofL_permL σ n hσ M hM, ofL_permL σ n hσ Pc hPc, ofL_permL σ n hσ Tc hTc,
      ofL_permL σ n hσ w hw, ofM_permM σ n hσ δ hδ hδr, ofM_permRows σ n hσ G hG] at r'
    have hp := coefs_perm n σ hσ T P (ofL m) (ofL M) (ofL Pc) (ofL Tc) (ofL w) true (ofM G) (ofM A) (ofM B) (ofM δ)
    simp only at hp
    obtain ⟨pA, pB, pAp, pBp, py⟩ := hp
    obtain ⟨a1, b1, c1, d1, e1⟩ := r'
    obtain ⟨a2, b2, c2, d2, e2⟩ := r
    refine ⟨by rw [a1, a2]; exact pA, by rw [b1, b2]; exact pB, ?_, ?_, ?_⟩
    · intro i hi; rw [c1 i hi, c2 (σ i) (hs i hi)]; exact pAp i
    · intro i hi; rw [d1 i hi, d2 (σ i) (hs i hi)]; exact pBp i
    · intro i hi; rw [e1 i hi, e2 (σ i) (hs i hi)]; exact py i
  · have hcd' : cd ≤ 0 := not_lt.mp hcd
    have r' := TamocV.Props.C01.coefs_refines_no_gc T P (permL σ n m) (permL σ n M) (permL σ n Pc) (permL σ n Tc) (permL σ n w)
      (permM σ n δ) A B (permRows σ n G) cd n (permL_length σ n m) (permL_length σ n M) (permL_length σ n Pc)
      (permL_length σ n Tc) (permM_length σ n δ) hcd'
    have r := TamocV.Props.C01.coefs_refines_no_gc T P m M Pc Tc w δ A B G cd n hm hM hPc hTc hδ hcd'
    simp only [ofL_permL σ n hσ m hm, ofL_permL σ n hσ M hM, ofL_permL σ n hσ Pc hPc, ofL_permL σ n hσ Tc hTc,
      ofL_permL σ n hσ w hw, ofM_permM σ n hσ δ hδ hδr] at r'
    rw [coefs_false_groups_irrel n T P _ _ _ _ _ (ofM (permRows σ n G)) (fun r => ofM G (σ r))] at r'
    have hp := coefs_perm n σ hσ T P (ofL m) (ofL M) (ofL Pc) (ofL Tc) (ofL w) false (ofM G) (ofM A) (ofM B) (ofM δ)
    simp only at hp
    obtain ⟨pA, pB, pAp, pBp, py⟩ := hp
    obtain ⟨a1, b1, c1, d1, e1⟩ := r'
    obtain ⟨a2, b2, c2, d2, e2⟩ := r
    refine ⟨by rw [a1, a2]; exact pA, by rw [b1, b2]; exact pB, ?_, ?_, ?_⟩
    · intro i hi; rw [c1 i hi, c2 (σ i) (hs i hi)]; exact pAp i
    · intro i hi; rw [d1 i hi, d2 (σ i) (hs i hi)]; exact pBp i
    · intro i hi; rw [e1 i hi, e2 (σ i) (hs i hi)]; exact py i

/-- **A component of zero mass is invisible to the REGENERATED `coefs`, for every `calc_delta`**: appending a
    component with mass 0 (and arbitrary constants Mn, pc, tc, wn), with the interaction matrix extended to any
    (n+1) × (n+1) matrix δ' that agrees with δ on the old indices and the group table extended to any G' whose first n
    rows are those of G, leaves A and B unchanged and the first n entries of Ap, Bp and y unchanged. -/
theorem gen_coefs_append_zero (T P : ℝ) (m M Pc Tc w : List ℝ) (Mn pc tc wn : ℝ) (δ δ' A B G G' : List (List ℝ))
    (cd : ℝ) (n : ℕ)
    (hm : m.length = n) (hM : M.length = n) (hPc : Pc.length = n) (hTc : Tc.length = n) (hw : w.length = n)
    (hδ : δ.length = n) (hδr : ∀ r ∈ δ, r.length = n) (hδ' : δ'.length = n + 1) (hδ'r : ∀ r ∈ δ', r.length = n + 1)
    (hδδ : ∀ i j, i < n → j < n → ofM δ' i j = ofM δ i j) (hGG : ∀ i, i < n → ∀ k, ofM G' i k = ofM G i k) :
    let g' := EosFullPy.coefs T P (m ++ [0]) (M ++ [Mn]) (Pc ++ [pc]) (Tc ++ [tc]) (w ++ [wn]) δ' A B G' cd
    let g := EosFullPy.coefs T P m M Pc Tc w δ A B G cd
    g'.1 = g.1 ∧ g'.2.1 = g.2.1 ∧ (∀ i, i < n → g'.2.2.1.getD i 0 = g.2.2.1.getD i 0)
      ∧ (∀ i, i < n → g'.2.2.2.1.getD i 0 = g.2.2.2.1.getD i 0)
      ∧ (∀ i, i < n → g'.2.2.2.2.getD i 0 = g.2.2.2.2.getD i 0) := by
  intro g' g
  have lm : (m ++ [0]).length = n + 1 := by simp [hm]
  have lM : (M ++ [Mn]).length = n + 1 := by simp [hM]
  have lPc : (Pc ++ [pc]).length = n + 1 := by simp [hPc]
  have lTc : (Tc ++ [tc]).length = n + 1 := by simp [hTc]
  have hz : ofL (m ++ [0]) n = 0 := ofL_append_last m 0 n hm
  -- the model on the extended inputs, at n+1 and at n components, and on the original inputs
  have key : ∀ cb : Bool,
      let c' := TamocV.Model.Eos.coefs (n + 1) T P (ofL (m ++ [0])) (ofL (M ++ [Mn])) (ofL (Pc ++ [pc])) (ofL (Tc ++ [tc]))
        (ofL (w ++ [wn])) cb (ofM G') (ofM A) (ofM B) (ofM δ')
      let c := TamocV.Model.Eos.coefs n T P (ofL m) (ofL M) (ofL Pc) (ofL Tc) (ofL w) cb (ofM G) (ofM A) (ofM B) (ofM δ)
      c'.A = c.A ∧ c'.B = c.B ∧ (∀ i, i < n → c'.Ap i = c.Ap i) ∧ (∀ i, i < n → c'.Bp i = c.Bp i)
        ∧ (∀ i, i < n → c'.yk i = c.yk i) := by
    intro cb c' c
    obtain ⟨z1, z2, z3, z4, z5⟩ := coefs_append_zero n T P (ofL (m ++ [0])) (ofL (M ++ [Mn])) (ofL (Pc ++ [pc]))
      (ofL (Tc ++ [tc])) (ofL (w ++ [wn])) cb (ofM G') (ofM A) (ofM B) (ofM δ') hz
    obtain ⟨k1, k2, k3, k4, k5⟩ := coefs_congr n T P (ofL m) (ofL (m ++ [0])) (ofL M) (ofL (M ++ [Mn])) (ofL Pc)
      (ofL (Pc ++ [pc])) (ofL Tc) (ofL (Tc ++ [tc])) (ofL w) (ofL (w ++ [wn])) cb (ofM G) (ofM G') (ofM A) (ofM B)
      (ofM δ) (ofM δ')
      (fun i hi => ofL_append m 0 n i hm hi) (fun i hi => ofL_append M Mn n i hM hi)
      (fun i hi => ofL_append Pc pc n i hPc hi) (fun i hi => ofL_append Tc tc n i hTc hi)
      (fun i hi => ofL_append w wn n i hw hi) (fun i hi => funext (hGG i hi)) hδδ
    exact ⟨z1.trans k1, z2.trans k2, fun i hi => (z3 i).trans (k3 i hi), fun i hi => (z4 i).trans (k4 i hi),
      fun i hi => (z5 i).trans (k5 i hi)⟩
  have hlt : ∀ i, i < n → i < n + 1 := fun i hi => Nat.lt_succ_of_lt hi
  by_cases hcd : 0 < cd
  · obtain ⟨a1, b1, c1, d1, e1⟩ := TamocV.Props.C01.coefs_refines_gc T P (m ++ [0]) (M ++ [Mn]) (Pc ++ [pc]) (Tc ++ [tc])
      (w ++ [wn]) δ' A B G' cd (n + 1) lm lM lPc lTc hδ' hδ'r hcd
    obtain ⟨a2, b2, c2, d2, e2⟩ := TamocV.Props.C01.coefs_refines_gc T P m M Pc Tc w δ A B G cd n hm hM hPc hTc hδ hδr hcd
    obtain ⟨kA, kB, kAp, kBp, ky⟩ := key true
    refine ⟨by rw [a1, a2]; exact kA, by rw [b1, b2]; exact kB, ?_, ?_, ?_⟩
    · intro i hi; rw [c1 i (hlt i hi), c2 i hi]; exact kAp i hi
    · intro i hi; rw [d1 i (hlt i hi), d2 i hi]; exact kBp i hi
    · intro i hi; rw [e1 i (hlt i hi), e2 i hi]; exact ky i hi
  · have hcd' : cd ≤ 0 := not_lt.mp hcd
    obtain ⟨a1, b1, c1, d1, e1⟩ := TamocV.Props.C01.coefs_refines_no_gc T P (m ++ [0]) (M ++ [Mn]) (Pc ++ [pc]) (Tc ++ [tc])
      (w ++ [wn]) δ' A B G' cd (n + 1) lm lM lPc lTc hδ' hcd'
    obtain ⟨a2, b2, c2, d2, e2⟩ := TamocV.Props.C01.coefs_refines_no_gc T P m M Pc Tc w δ A B G cd n hm hM hPc hTc hδ hcd'
    obtain ⟨kA, kB, kAp, kBp, ky⟩ := key false
    refine ⟨by rw [a1, a2]; exact kA, by rw [b1, b2]; exact kB, ?_, ?_, ?_⟩
    · intro i hi; rw [c1 i (hlt i hi), c2 i hi]; exact kAp i hi
    · intro i hi; rw [d1 i (hlt i hi), d2 i hi]; exact kBp i hi
    · intro i hi; rw [e1 i (hlt i hi), e2 i hi]; exact ky i hi

/-! ### non-vacuity -/
/-- two components swapped, group contributions on (cd = 1) -/
example :
    let σ : Equiv.Perm ℕ := Equiv.swap 0 1
    let G : List (List ℝ) := [1 :: List.replicate 14 0, 0 :: 1 :: List.replicate 13 0]
    let A : List (List ℝ) := List.replicate 15 (List.replicate 15 1)
    let g' := EosFullPy.coefs (300:ℝ) 1e5 (permL σ 2 [1, 2]) (permL σ 2 [16, 30]) (permL σ 2 [4.6e6, 4.9e6])
      (permL σ 2 [190, 305]) (permL σ 2 [0.01, 0.1]) (permM σ 2 [[0, 0], [0, 0]]) A A (permRows σ 2 G) 1
    let g := EosFullPy.coefs (300:ℝ) 1e5 [1, 2] [16, 30] [4.6e6, 4.9e6] [190, 305] [0.01, 0.1] [[0, 0], [0, 0]] A A G 1
    g'.1 = g.1 ∧ g'.2.1 = g.2.1 := by
  intro σ G A g' g
  have t := gen_coefs_perm σ 2 permOn_swap01 (300:ℝ) 1e5 [1, 2] [16, 30] [4.6e6, 4.9e6] [190, 305] [0.01, 0.1]
    [[0, 0], [0, 0]] A A G 1 rfl rfl rfl rfl rfl rfl (by simp) rfl
  exact ⟨t.1, t.2.1⟩

/-- one component plus a massless second one, concrete extension of δ and G, either branch -/
example (cd : ℝ) :
    let A : List (List ℝ) := List.replicate 15 (List.replicate 15 1)
    let g' := EosFullPy.coefs (300:ℝ) 1e5 ([1] ++ [0]) ([16] ++ [30]) ([4.6e6] ++ [4.9e6]) ([190] ++ [305]) ([0.01] ++ [0.1])
      [[0, 0.1], [0.1, 0]] A A [1 :: List.replicate 14 0, 0 :: 1 :: List.replicate 13 0] cd
    let g := EosFullPy.coefs (300:ℝ) 1e5 [1] [16] [4.6e6] [190] [0.01] [[0]] A A [1 :: List.replicate 14 0] cd
    g'.1 = g.1 ∧ g'.2.1 = g.2.1 := by
  intro A g' g
  have t := gen_coefs_append_zero (300:ℝ) 1e5 [1] [16] [4.6e6] [190] [0.01] 30 4.9e6 305 0.1 [[0]] [[0, 0.1], [0.1, 0]] A A
    [1 :: List.replicate 14 0] [1 :: List.replicate 14 0, 0 :: 1 :: List.replicate 13 0] cd 1 rfl rfl rfl rfl rfl rfl
    (by simp) rfl (by simp)
    (fun i j hi hj => by rw [show i = 0 by omega, show j = 0 by omega]; simp [ofM])
    (fun i hi k => by rw [show i = 0 by omega]; simp [ofM])
  exact ⟨t.1, t.2.1⟩

end TamocV.Props.C10
