/-
  C05 — Single-particle trajectories obey mass and motion invariants   (PARTIAL by design).
  Property theorems only (over ℝ, all inputs, all list lengths, every integrator), about the
  executable model `TamocV.Model.Sbm` (hand transcription of single_bubble_model.derivs, the loop
  control of calculate_path, sbm_ic and the K_T bookkeeping of Model.simulate; tied to /repo by
  value correspondence on sampled states of real simulations, harness/c05.py).

  PARTIAL: the ODE integrator (scipy VODE) is NOT modelled — it is an arbitrary function `integ`
  with its own hidden state `σ` (VODE keeps its Nordsieck history between steps) in the loop theorems.  "Recorded times never decrease", "successive outputs no further apart
  than delta_t", "depth never increases along the stored trajectory" and "no component mass exceeds
  its initial value by more than the solver tolerance" are statements about VODE's steps and are
  OBSERVED on real trajectories by the harness only.  What is proved is the right-hand side the
  integrator is given (sign of the depth rate, zero / non-positive mass rates) and everything the
  loop does around the integrator (clipping, heat reset, stop tests, caps, row removal, first row,
  K_T restore).
-/
import TamocV.Real
import TamocV.Lemmas.Basic
import TamocV.Lemmas.C17
import TamocV.Lemmas.C05
import TamocV.Model.Sbm
import Mathlib.Tactic.Ring
import Mathlib.Tactic.NormNum
import Mathlib.Tactic.FieldSimp
import Mathlib.Tactic.Linarith
import Mathlib.Tactic.Positivity

namespace TamocV.Props.C05
open TamocV TamocV.Model TamocV.Model.Sbm TamocV.Lemmas.C05

private noncomputable def exOut : Particle17.Out ℝ :=
  { us := 0.2, rhoP := 200, A := 0.01, Cs := [3, 4], beta := [0.5, 0.25], betaT := 0.125, T := 285 }

-- ===================================================================== right-hand side

/-- [T-def] layout of `yp`: horizontal advection with the current, vertical slip, mass rates, heat rate -/
theorem rhs_structure (cp Ta ua va wa : ℝ) (C : List ℝ) (o : Particle17.Out ℝ) (kbio m : List ℝ) :
    rhs cp Ta ua va wa C o kbio m =
      [ua, va, -o.us - wa] ++ massRhs o C kbio m ++ [heatRhs cp Ta o (massRhs o C kbio m)] := rfl

/-- With zero vertical current and a non-negative slip velocity the depth rate is ≤ 0
    (the particle never moves down); in still water the horizontal rates are exactly 0. -/
theorem depth_nonincreasing_rhs (cp Ta ua va wa : ℝ) (C : List ℝ) (o : Particle17.Out ℝ)
    (kbio m : List ℝ) (hwa : wa = 0) (hus : 0 ≤ o.us) :
    (rhs cp Ta ua va wa C o kbio m).getD 2 0 ≤ 0 := by
  simp [rhs, hwa]
  linarith

/-- [T-def] -/
theorem still_water_no_drift (cp Ta : ℝ) (C : List ℝ) (o : Particle17.Out ℝ) (kbio m : List ℝ) :
    (rhs cp Ta 0 0 0 C o kbio m).getD 0 1 = 0 ∧ (rhs cp Ta 0 0 0 C o kbio m).getD 1 1 = 0 ∧
    (rhs cp Ta 0 0 0 C o kbio m).getD 2 1 = -o.us := by
  simp [rhs]

example : (rhs 2000 280 0 0 0 [0, 0] exOut [0, 0] [1, 1]).getD 2 0 ≤ 0 :=
  depth_nonincreasing_rhs _ _ _ _ _ _ _ _ _ rfl (by simp [exOut]; norm_num)

/-- The mass-rate vector has one entry per component when all closures have the state's length
    (soluble particle, n ≥ 1 components) — the guard under which the element-wise statements below
    speak about EVERY component (`zipWith` would silently truncate otherwise). -/
theorem massRhs_length (o : Particle17.Out ℝ) (C kbio m : List ℝ) (n : Nat) (hn : 0 < n)
    (hb : o.beta.length = n) (hs : o.Cs.length = n) (hC : C.length = n) (hk : kbio.length = n)
    (hm : m.length = n) : (massRhs o C kbio m).length = n := by
  have hpos : 0 < o.Cs.length := by omega
  have hd : (mdDiss o.A o.beta o.Cs C).length = n := by
    unfold mdDiss
    rw [if_pos hpos, diss3_length, hb, hs, hC]; simp
  have hbio : (mdBio kbio m).length = n := by simp [mdBio, hk, hm]
  simp [massRhs, Num.vadd, hd, hbio]

/-- inert particle: one entry (`md_diss = [0.]`, one rate constant, one mass) -/
theorem massRhs_length_inert (o : Particle17.Out ℝ) (C : List ℝ) (k m1 : ℝ) (hCs : o.Cs = []) :
    (massRhs o C [k] [m1]).length = 1 := by
  simp [massRhs, mdDiss, hCs, Num.vadd, mdBio]

/-- Inert particle (`properties` returns empty `Cs`) without biodegradation: every mass rate is 0. -/
theorem inert_mass_const (o : Particle17.Out ℝ) (C kbio m : List ℝ) (hCs : o.Cs = [])
    (hk : ∀ k ∈ kbio, k = 0) : ∀ x ∈ massRhs o C kbio m, x = 0 := by
  intro x hx
  obtain ⟨a, ha, b, hb, rfl⟩ := vadd_mem _ _ _ hx
  obtain ⟨k, hk', mi, _, rfl⟩ := mdBio_mem _ _ _ hb
  have ha0 : a = 0 := by simpa [mdDiss, hCs, Num.real_zero] using ha
  rw [hk k hk', ha0]; simp

/-- [T-def] … and it is a single rate: `yp[3:-1] = [0]` for the one-entry state of an inert particle. -/
theorem inert_mass_const_one (o : Particle17.Out ℝ) (C : List ℝ) (m1 : ℝ) (hCs : o.Cs = []) :
    massRhs o C [0] [m1] = [0] := by
  simp [massRhs, mdDiss, hCs, mdBio, Num.vadd, Num.real_zero]

/-- With mass-transfer factor `K = 0` every coefficient handed to `derivs` is exactly 0 … -/
theorem zero_factor_beta_zero (par : Particle17.Params ℝ) (KT : ℝ) (x : Particle17.Inp ℝ)
    (lib : Particle17.Lib ℝ) (rhoAmb : ℝ) (hK : par.K = 0) :
    ∀ b ∈ (Particle17.properties par KT x lib rhoAmb).2.beta, b = 0 := by
  intro b hb
  unfold Particle17.properties at hb
  split at hb
  · simp only [Num.smul, List.mem_map] at hb
    obtain ⟨a, _, rfl⟩ := hb
    rw [hK]; simp
  · simp at hb

/-- … hence the dissolution term vanishes component by component … -/
theorem zero_transfer_factor_dissolution_zero (A : ℝ) (beta Cs C : List ℝ)
    (hb : ∀ b ∈ beta, b = 0) : ∀ x ∈ mdDiss A beta Cs C, x = 0 := by
  intro x hx
  unfold mdDiss at hx
  split at hx
  · obtain ⟨bi, hbi, si, _, ci, _, rfl⟩ := diss3_mem _ _ _ _ _ hx
    rw [hb bi hbi]; ring
  · simpa [Num.real_zero] using hx

/-- … and, without biodegradation, every component mass rate is 0 (masses constant). -/
theorem zero_transfer_factor_mass_const (o : Particle17.Out ℝ) (C kbio m : List ℝ)
    (hb : ∀ b ∈ o.beta, b = 0) (hk : ∀ k ∈ kbio, k = 0) : ∀ x ∈ massRhs o C kbio m, x = 0 := by
  intro x hx
  obtain ⟨a, ha, b, hbm, rfl⟩ := vadd_mem _ _ _ hx
  obtain ⟨k, hk', mi, _, rfl⟩ := mdBio_mem _ _ _ hbm
  rw [zero_transfer_factor_dissolution_zero _ _ _ _ hb a ha, hk k hk']; simp

/-- In water free of the particle's compounds (`C = 0`) with non-negative area, coefficients,
    solubilities, rate constants and masses, every component mass rate is ≤ 0. -/
theorem clean_water_nonincreasing (o : Particle17.Out ℝ) (C kbio m : List ℝ)
    (hC : ∀ c ∈ C, c = 0) (hA : 0 ≤ o.A) (hb : ∀ b ∈ o.beta, 0 ≤ b) (hs : ∀ s ∈ o.Cs, 0 ≤ s)
    (hk : ∀ k ∈ kbio, 0 ≤ k) (hm : ∀ mi ∈ m, 0 ≤ mi) : ∀ x ∈ massRhs o C kbio m, x ≤ 0 := by
  intro x hx
  obtain ⟨a, ha, b, hbm, rfl⟩ := vadd_mem _ _ _ hx
  obtain ⟨k, hk', mi, hmi, rfl⟩ := mdBio_mem _ _ _ hbm
  have h1 : a ≤ 0 := by
    unfold mdDiss at ha
    split at ha
    · obtain ⟨bi, hbi, si, hsi, ci, hci, rfl⟩ := diss3_mem _ _ _ _ _ ha
      rw [hC ci hci]
      have := mul_nonneg (mul_nonneg hA (hb bi hbi)) (hs si hsi)
      nlinarith
    · have : a = 0 := by simpa [Num.real_zero] using ha
      rw [this]
  have h2 : -k * mi ≤ 0 := by
    have := mul_nonneg (hk k hk') (hm mi hmi)
    linarith
  linarith

example : ∀ x ∈ massRhs exOut [0, 0] [0.001, 0] [1, 1], x ≤ 0 := by
  apply clean_water_nonincreasing <;> simp [exOut] <;> norm_num

-- ===================================================================== clipping, heat reset

/-- After the clipping of l.851-854 every stored mass is ≥ 0 — whatever the integrator returned. -/
theorem clip_preserves_nonneg (y : List ℝ) (h : 4 ≤ y.length) :
    ∀ x ∈ masses (clipMasses y), 0 ≤ x := by
  rw [masses_clipMasses y h]; exact Lemmas.C17.clip_nonneg _

/-- the whole post-processing of a step (heat reset, then clipping) stores non-negative masses,
    keeps the vector length and does not move the particle -/
theorem postStep_masses_nonneg (KT cp Ta : ℝ) (y : List ℝ) (h : 4 ≤ y.length) :
    (∀ x ∈ masses (postStep KT cp Ta y), 0 ≤ x) ∧ (postStep KT cp Ta y).length = y.length ∧
    depth (postStep KT cp Ta y) = depth y := by
  have hl := heatReset_length KT cp Ta y h
  have h' : 4 ≤ (heatReset KT cp Ta y).length := by omega
  refine ⟨clip_preserves_nonneg _ h', ?_, ?_⟩
  · unfold postStep; rw [clipMasses_length _ h', hl]
  · unfold postStep; rw [depth_clipMasses _ h', depth_heatReset _ _ _ _ h]

/-- non-negative masses pass through unchanged -/
theorem postStep_masses_unchanged (KT cp Ta : ℝ) (y : List ℝ) (h : 4 ≤ y.length)
    (hm : ∀ x ∈ masses y, 0 ≤ x) : masses (postStep KT cp Ta y) = masses y := by
  have hl := heatReset_length KT cp Ta y h
  unfold postStep
  rw [masses_clipMasses _ (by omega), masses_heatReset _ _ _ _ h]
  exact Lemmas.C17.clip_of_nonneg _ hm

/-- Heat reset after equilibration (`K_T = 0`): the stored heat is `Σm · cp · Ta`; with heat
    transfer still on (`K_T ≠ 0`) the heat is what the integrator returned. -/
theorem heat_reset_value (KT cp Ta : ℝ) (y : List ℝ) :
    (KT = 0 → heat (postStep KT cp Ta y) = (masses y).sum * cp * Ta) ∧
    (KT ≠ 0 → heat (postStep KT cp Ta y) = heat y) := by
  unfold postStep
  rw [heat_clipMasses]
  unfold heatReset
  constructor
  · intro h0
    rw [if_pos ((Lemmas.C17.isZero_real KT).mpr h0), heat_append, Num.real_sum]
  · intro h0
    rw [if_neg (fun hz => h0 ((Lemmas.C17.isZero_real KT).mp hz))]

example : ∀ x ∈ masses (clipMasses [0, 0, 100, -1e-9, 2e-6, 5]), (0 : ℝ) ≤ x :=
  clip_preserves_nonneg _ (by simp)

-- ===================================================================== first stored row

/-- The initial state is release position ++ initial masses ++ [T0 · Σ m0 · cp]
    (`T0` = ambient temperature when not given). -/
theorem initial_row (X0 m0 : List ℝ) (T0 : Option ℝ) (Ta cp : ℝ) (hX : X0.length = 3) :
    (ic X0 m0 T0 Ta cp).take 3 = X0 ∧ masses (ic X0 m0 T0 Ta cp) = m0 ∧
    heat (ic X0 m0 T0 Ta cp) = T0.getD Ta * m0.sum * cp := by
  unfold ic
  refine ⟨?_, masses_append _ _ _ hX, ?_⟩
  · rw [List.append_assoc, take3_append _ _ hX]
  · rw [heat_append, Num.real_sum]

/-- masses from diameter and mole fractions: `m_i = y_i M_i · (π/6 de³ ρ) / Σ y_j M_j` … -/
theorem masses_by_diameter_components (pi de rho : ℝ) (yk M : List ℝ) :
    massesByDiameter pi de rho yk M =
      (Num.vmul yk M).map fun v => v * (1.0 / 6.0 * pi * de ^ 3 * rho / (Num.vmul yk M).sum) := by
  simp only [massesByDiameter, Num.real_sum, Num.real_npow, Num.real_ofSci]
  exact vmul_scaled _ _ yk M

/-- … so that the total mass is exactly the mass of a sphere of diameter `de` and density `ρ`. -/
theorem masses_by_diameter_total (pi de rho : ℝ) (yk M : List ℝ) (h : (Num.vmul yk M).sum ≠ 0) :
    (massesByDiameter pi de rho yk M).sum = pi / 6 * de ^ 3 * rho := by
  simp only [massesByDiameter, Num.real_sum, Num.real_npow, Num.real_ofSci]
  rw [vmul_scaled_sum]
  have h16 : (1.0 : ℝ) / 6.0 = 1 / 6 := by norm_num
  rw [h16]
  field_simp

theorem mass_by_diameter_inert (pi de rho : ℝ) : massByDiameter pi de rho = pi / 6 * de ^ 3 * rho := by
  simp only [massByDiameter, Num.real_npow, Num.real_ofSci]
  have : (1.0 : ℝ) / 6.0 = 1 / 6 := by norm_num
  rw [this]
  ring

example : (massesByDiameter (3 : ℝ) 0.01 100 [0.5, 0.5] [0.016, 0.030]).sum = 3 / 6 * 0.01 ^ 3 * 100 :=
  masses_by_diameter_total 3 0.01 100 [0.5, 0.5] [0.016, 0.030] (by simp [Num.vmul]; norm_num)

-- ===================================================================== loop control

/-- [T-def] meaning of the five stop flags -/
theorem stopTests_spec (zmin fdis f : ℝ) (k : Nat) (tPrev zPrev t z : ℝ) :
    ((stopTests zmin fdis f k tPrev zPrev t z).surface = true ↔ z ≤ zmin) ∧
    ((stopTests zmin fdis f k tPrev zPrev t z).stall = true ↔ -(zPrev - z) / (tPrev - t) ≤ 0) ∧
    ((stopTests zmin fdis f k tPrev zPrev t z).dissolved = true ↔ f < fdis) ∧
    ((stopTests zmin fdis f k tPrev zPrev t z).capK = true ↔ 300000 < k) ∧
    ((stopTests zmin fdis f k tPrev zPrev t z).capT = true ↔ 1209600 < t) ∧
    (stopTests zmin fdis f k tPrev zPrev t z).failed = false := by
  simp [stopTests, Num.real_zero]

/-- A particle that does not move up between two stored rows (`z ≥ zPrev`, `t > tPrev`) stalls. -/
theorem stall_of_no_rise (zmin fdis f : ℝ) (k : Nat) (tPrev zPrev t z : ℝ) (ht : tPrev < t)
    (hz : zPrev ≤ z) : (stopTests zmin fdis f k tPrev zPrev t z).stall = true := by
  rw [(stopTests_spec zmin fdis f k tPrev zPrev t z).2.1]
  have h1 : tPrev - t < 0 := by linarith
  have h2 : 0 ≤ -(zPrev - z) := by linarith
  exact div_nonpos_of_nonneg_of_nonpos h2 (le_of_lt h1)

/-- [T-def] -/
theorem loopBody_count {σ : Type} (integ : σ → ℝ → List ℝ → ℝ → σ × Integ ℝ) (TaOf : ℝ → ℝ) (cp zmin fdis : ℝ)
    (first : ℝ × List ℝ) (s : σ) (last : ℝ × List ℝ) (k : Nat) (KT : ℝ) :
    (loopBody integ TaOf cp zmin fdis first s last k KT).2.1 = k + 1 := rfl

/-- the step cap: the 300001st pass always stops (cap reached or integrator failed) -/
theorem loopBody_stops_at_cap {σ : Type} (integ : σ → ℝ → List ℝ → ℝ → σ × Integ ℝ) (TaOf : ℝ → ℝ) (cp zmin fdis : ℝ)
    (first : ℝ × List ℝ) (s : σ) (last : ℝ × List ℝ) (k : Nat) (KT : ℝ) (hk : 300000 ≤ k) :
    (loopBody integ TaOf cp zmin fdis first s last k KT).2.2.1.any = true := by
  simp only [loopBody]
  by_cases hok : (integ s last.1 last.2 KT).2.ok = true
  · simp [hok, stopTests, Stop.any]
    exact Or.inl (Or.inr hk)
  · simp [hok, Stop.any, stopNone]

/-- The loop of `calculate_path` returns — for EVERY integrator — within 300001 passes, and at
    return at least one documented stop reason holds: surface reached, stall (`us ≤ 0`), dissolved
    (`f < fdis`), step cap, 14-day time cap, or the integrator reported failure. -/
theorem loop_stops {σ : Type} (integ : σ → ℝ → List ℝ → ℝ → σ × Integ ℝ) (TaOf : ℝ → ℝ) (cp zmin fdis : ℝ)
    (first : ℝ × List ℝ) :
    ∀ (fuel : Nat) (s : σ) (last : ℝ × List ℝ) (older : List (ℝ × List ℝ)) (k : Nat) (KT : ℝ),
      300001 ≤ fuel + k → k ≤ 300000 →
      (loop integ TaOf cp zmin fdis first fuel s last older k KT).outOfFuel = false ∧
      (loop integ TaOf cp zmin fdis first fuel s last older k KT).stop.any = true ∧
      (loop integ TaOf cp zmin fdis first fuel s last older k KT).k ≤ 300001 := by
  intro fuel
  induction fuel with
  | zero => intro s last older k KT h1 h2; omega
  | succ n ih =>
    intro s last older k KT h1 h2
    by_cases hb : (loopBody integ TaOf cp zmin fdis first s last k KT).2.2.1.any = true
    · simp only [loop, hb, if_true]
      refine ⟨trivial, trivial, ?_⟩
      show k + 1 ≤ 300001
      omega
    · have hk : k < 300000 := by
        by_contra hc
        exact hb (loopBody_stops_at_cap integ TaOf cp zmin fdis first s last k KT (by omega))
      have := ih (loopBody integ TaOf cp zmin fdis first s last k KT).2.2.2.2 (loopBody integ TaOf cp zmin fdis first s last k KT).1 (last :: older) (k + 1)
        (loopBody integ TaOf cp zmin fdis first s last k KT).2.2.2.1 (by omega) (by omega)
      simp only [loop, hb, Bool.false_eq_true, if_false]
      exact this

/-- `calculate_path` as a whole: never out of fuel, stops for a documented reason, ≤ 300001 steps. -/
theorem stop_reason_sbm {σ : Type} (integ : σ → ℝ → List ℝ → ℝ → σ × Integ ℝ) (s0 : σ) (TaOf : ℝ → ℝ) (cp zmin fdis KT : ℝ)
    (y0 : List ℝ) :
    (calculatePath integ s0 TaOf cp zmin fdis KT y0).outOfFuel = false ∧
    (calculatePath integ s0 TaOf cp zmin fdis KT y0).stop.any = true ∧
    (calculatePath integ s0 TaOf cp zmin fdis KT y0).k ≤ 300001 := by
  have := loop_stops integ TaOf cp zmin fdis (0, y0) 300001 s0 (0, y0) [] 0 KT (by omega) (by omega)
  simpa [calculatePath] using this

/-- [T-def] `Stop.any` is the disjunction of the six documented reasons -/
theorem stop_any_iff (s : Stop) :
    s.any = true ↔ s.surface = true ∨ s.stall = true ∨ s.dissolved = true ∨ s.capK = true ∨
      s.capT = true ∨ s.failed = true := by
  simp [Stop.any, or_assoc]

/-- guarded form of the stall test: for a step forward in time the test fires iff the particle did
    not rise -/
theorem stall_iff_no_rise (zmin fdis f : ℝ) (k : Nat) (tPrev zPrev t z : ℝ) (ht : tPrev < t) :
    (stopTests zmin fdis f k tPrev zPrev t z).stall = true ↔ zPrev ≤ z := by
  rw [(stopTests_spec zmin fdis f k tPrev zPrev t z).2.1]
  have h1 : tPrev - t < 0 := by linarith
  constructor
  · intro h
    by_contra hc
    have h2 : -(zPrev - z) < 0 := by linarith
    have := div_pos_of_neg_of_neg h2 h1
    linarith
  · intro h
    exact div_nonpos_of_nonneg_of_nonpos (by linarith) (le_of_lt h1)

/-- a pass on which the integrator succeeded, time advanced and the particle did not rise ends the
    loop at once with the stall flag (composition of `stall_iff_no_rise` with the loop) -/
theorem loop_stops_on_no_rise {σ : Type} (integ : σ → ℝ → List ℝ → ℝ → σ × Integ ℝ) (TaOf : ℝ → ℝ)
    (cp zmin fdis : ℝ) (first : ℝ × List ℝ) (fuel : Nat) (s : σ) (last : ℝ × List ℝ)
    (older : List (ℝ × List ℝ)) (k : Nat) (KT : ℝ)
    (hok : (integ s last.1 last.2 KT).2.ok = true) (hlen : 4 ≤ (integ s last.1 last.2 KT).2.y.length)
    (ht : last.1 < (integ s last.1 last.2 KT).2.t)
    (hz : depth last.2 ≤ depth (integ s last.1 last.2 KT).2.y) :
    (loop integ TaOf cp zmin fdis first (fuel + 1) s last older k KT).stop.stall = true ∧
    (loop integ TaOf cp zmin fdis first (fuel + 1) s last older k KT).k = k + 1 ∧
    (loop integ TaOf cp zmin fdis first (fuel + 1) s last older k KT).outOfFuel = false := by
  have hd := (postStep_masses_nonneg (integ s last.1 last.2 KT).2.KT cp
    (TaOf (depth (integ s last.1 last.2 KT).2.y)) (integ s last.1 last.2 KT).2.y hlen).2.2
  have hst : (loopBody integ TaOf cp zmin fdis first s last k KT).2.2.1.stall = true := by
    simp only [loopBody, hok, if_true]
    rw [stall_iff_no_rise _ _ _ _ _ _ _ _ ht, hd]
    exact hz
  have hany : (loopBody integ TaOf cp zmin fdis first s last k KT).2.2.1.any = true := by
    rw [stop_any_iff]; exact Or.inr (Or.inl hst)
  simp only [loop, hany, if_true]
  exact ⟨hst, rfl, trivial⟩

/-- With an integrator that never reports failure the loop never ends with the `failed` flag … -/
theorem loop_stops_ok {σ : Type} (integ : σ → ℝ → List ℝ → ℝ → σ × Integ ℝ) (TaOf : ℝ → ℝ)
    (cp zmin fdis : ℝ) (first : ℝ × List ℝ) (hok : ∀ s t y k, (integ s t y k).2.ok = true) :
    ∀ (fuel : Nat) (s : σ) (last : ℝ × List ℝ) (older : List (ℝ × List ℝ)) (k : Nat) (KT : ℝ),
      300001 ≤ fuel + k → k ≤ 300000 →
      (loop integ TaOf cp zmin fdis first fuel s last older k KT).stop.failed = false := by
  intro fuel
  induction fuel with
  | zero => intro s last older k KT h1 h2; omega
  | succ n ih =>
    intro s last older k KT h1 h2
    have hf : (loopBody integ TaOf cp zmin fdis first s last k KT).2.2.1.failed = false := by
      simp [loopBody, hok, stopTests]
    by_cases hb : (loopBody integ TaOf cp zmin fdis first s last k KT).2.2.1.any = true
    · simp only [loop, hb, if_true]; exact hf
    · have hk : k < 300000 := by
        by_contra hc
        exact hb (loopBody_stops_at_cap integ TaOf cp zmin fdis first s last k KT (by omega))
      have := ih (loopBody integ TaOf cp zmin fdis first s last k KT).2.2.2.2
        (loopBody integ TaOf cp zmin fdis first s last k KT).1 (last :: older) (k + 1)
        (loopBody integ TaOf cp zmin fdis first s last k KT).2.2.2.1 (by omega) (by omega)
      simp only [loop, hb, Bool.false_eq_true, if_false]
      exact this

/-- … so that it ends for one of the FIVE documented reasons (surface, stall, dissolved, step cap,
    time cap).  (`stop_reason_sbm` alone is also satisfied by an integrator that fails at once.) -/
theorem stop_reason_sbm_ok {σ : Type} (integ : σ → ℝ → List ℝ → ℝ → σ × Integ ℝ) (s0 : σ)
    (TaOf : ℝ → ℝ) (cp zmin fdis KT : ℝ) (y0 : List ℝ) (hok : ∀ s t y k, (integ s t y k).2.ok = true) :
    (calculatePath integ s0 TaOf cp zmin fdis KT y0).stop.surface = true ∨
    (calculatePath integ s0 TaOf cp zmin fdis KT y0).stop.stall = true ∨
    (calculatePath integ s0 TaOf cp zmin fdis KT y0).stop.dissolved = true ∨
    (calculatePath integ s0 TaOf cp zmin fdis KT y0).stop.capK = true ∨
    (calculatePath integ s0 TaOf cp zmin fdis KT y0).stop.capT = true := by
  have hany := (stop_reason_sbm integ s0 TaOf cp zmin fdis KT y0).2.1
  have hf : (calculatePath integ s0 TaOf cp zmin fdis KT y0).stop.failed = false := by
    have := loop_stops_ok integ TaOf cp zmin fdis (0, y0) hok 300001 s0 (0, y0) [] 0 KT (by omega) (by omega)
    simpa [calculatePath] using this
  rw [stop_any_iff] at hany
  rcases hany with h | h | h | h | h | h
  · exact Or.inl h
  · exact Or.inr (Or.inl h)
  · exact Or.inr (Or.inr (Or.inl h))
  · exact Or.inr (Or.inr (Or.inr (Or.inl h)))
  · exact Or.inr (Or.inr (Or.inr (Or.inr h)))
  · rw [hf] at h; exact absurd h (by simp)

/-- rows already stored are never touched again: the result ends with what was there -/
theorem loop_rows_suffix {σ : Type} (integ : σ → ℝ → List ℝ → ℝ → σ × Integ ℝ) (TaOf : ℝ → ℝ) (cp zmin fdis : ℝ)
    (first : ℝ × List ℝ) :
    ∀ (fuel : Nat) (s : σ) (last : ℝ × List ℝ) (older : List (ℝ × List ℝ)) (k : Nat) (KT : ℝ),
      ∃ pre, (loop integ TaOf cp zmin fdis first fuel s last older k KT).rows = pre ++ last :: older := by
  intro fuel
  induction fuel with
  | zero => intro s last older k KT; exact ⟨[], rfl⟩
  | succ n ih =>
    intro s last older k KT
    by_cases hb : (loopBody integ TaOf cp zmin fdis first s last k KT).2.2.1.any = true
    · exact ⟨[(loopBody integ TaOf cp zmin fdis first s last k KT).1], by simp [loop, hb]⟩
    · obtain ⟨pre, hp⟩ := ih (loopBody integ TaOf cp zmin fdis first s last k KT).2.2.2.2 (loopBody integ TaOf cp zmin fdis first s last k KT).1 (last :: older) (k + 1)
        (loopBody integ TaOf cp zmin fdis first s last k KT).2.2.2.1
      refine ⟨pre ++ [(loopBody integ TaOf cp zmin fdis first s last k KT).1], ?_⟩
      simp only [loop, hb, Bool.false_eq_true, if_false]
      rw [show (loopBody integ TaOf cp zmin fdis first s last k KT).2.1 = k + 1 from rfl, hp]
      simp

/-- The first stored row is the initial state at t = 0 (the release position, the initial masses
    and heat of `sbm_ic`), provided the release depth is not negative. -/
theorem first_row_is_release {σ : Type} (integ : σ → ℝ → List ℝ → ℝ → σ × Integ ℝ) (s0 : σ) (TaOf : ℝ → ℝ)
    (cp zmin fdis KT : ℝ) (y0 : List ℝ) (h0 : 0 ≤ depth y0) :
    (calculatePath integ s0 TaOf cp zmin fdis KT y0).rows.head? = some (0, y0) := by
  obtain ⟨pre, hp⟩ := loop_rows_suffix integ TaOf cp zmin fdis (0, y0) 300001 s0 (0, y0) [] 0 KT
  have hd : decide ((0 : ℝ) ≤ depth y0) = true := by simpa using h0
  simp only [calculatePath, hp, List.reverse_append, List.reverse_cons, List.reverse_nil,
    List.nil_append, List.singleton_append, dropNegDepth, Num.real_zero]
  rw [List.filter_cons_of_pos (by simpa using hd)]
  rfl

/-- Rows with a negative depth (overshoot of the free surface) are removed. -/
theorem no_negative_depth_rows {σ : Type} (integ : σ → ℝ → List ℝ → ℝ → σ × Integ ℝ) (s0 : σ) (TaOf : ℝ → ℝ)
    (cp zmin fdis KT : ℝ) (y0 : List ℝ) :
    ∀ r ∈ (calculatePath integ s0 TaOf cp zmin fdis KT y0).rows, 0 ≤ depth r.2 := by
  intro r hr
  simp only [calculatePath, dropNegDepth, List.mem_filter, Num.real_zero] at hr
  simpa using hr.2

/-- Every stored mass is ≥ 0, for every integrator that returns state vectors (length ≥ 4),
    when the initial masses are. -/
theorem loop_rows_masses_nonneg {σ : Type} (integ : σ → ℝ → List ℝ → ℝ → σ × Integ ℝ) (TaOf : ℝ → ℝ)
    (cp zmin fdis : ℝ) (first : ℝ × List ℝ) (hinteg : ∀ s t y k, 4 ≤ (integ s t y k).2.y.length) :
    ∀ (fuel : Nat) (s : σ) (last : ℝ × List ℝ) (older : List (ℝ × List ℝ)) (k : Nat) (KT : ℝ),
      (∀ r ∈ last :: older, ∀ x ∈ masses r.2, 0 ≤ x) →
      ∀ r ∈ (loop integ TaOf cp zmin fdis first fuel s last older k KT).rows, ∀ x ∈ masses r.2, 0 ≤ x := by
  intro fuel
  induction fuel with
  | zero => intro s last older k KT h; exact h
  | succ n ih =>
    intro s last older k KT h
    have hnew : ∀ x ∈ masses (loopBody integ TaOf cp zmin fdis first s last k KT).1.2, 0 ≤ x :=
      (postStep_masses_nonneg _ _ _ _ (hinteg s last.1 last.2 KT)).1
    have hall : ∀ r ∈ (loopBody integ TaOf cp zmin fdis first s last k KT).1 :: last :: older,
        ∀ x ∈ masses r.2, 0 ≤ x := by
      intro r hr
      rcases List.mem_cons.mp hr with e | e
      · rw [e]; exact hnew
      · exact h r e
    by_cases hb : (loopBody integ TaOf cp zmin fdis first s last k KT).2.2.1.any = true
    · simpa only [loop, hb, if_true] using hall
    · have := ih (loopBody integ TaOf cp zmin fdis first s last k KT).2.2.2.2 (loopBody integ TaOf cp zmin fdis first s last k KT).1 (last :: older) (k + 1)
        (loopBody integ TaOf cp zmin fdis first s last k KT).2.2.2.1 hall
      simp only [loop, hb, Bool.false_eq_true, if_false]
      exact this

theorem stored_masses_nonneg {σ : Type} (integ : σ → ℝ → List ℝ → ℝ → σ × Integ ℝ) (s0 : σ) (TaOf : ℝ → ℝ)
    (cp zmin fdis KT : ℝ) (y0 : List ℝ) (hinteg : ∀ s t y k, 4 ≤ (integ s t y k).2.y.length)
    (h0 : ∀ x ∈ masses y0, 0 ≤ x) :
    ∀ r ∈ (calculatePath integ s0 TaOf cp zmin fdis KT y0).rows, ∀ x ∈ masses r.2, 0 ≤ x := by
  intro r hr
  simp only [calculatePath, dropNegDepth, List.mem_filter, List.mem_reverse, Num.real_zero] at hr
  exact loop_rows_masses_nonneg integ TaOf cp zmin fdis (0, y0) hinteg 300001 s0 (0, y0) [] 0 KT
    (by intro r' hr'; simp at hr'; rw [hr']; exact h0) r hr.1

-- ===================================================================== K_T restored

/-- [T-def] `simulate` writes the factor it was called with back into the particle after the loop
    (l.282 `self.K_T0 = K_T`, l.301 `self.particle.K_T = self.K_T0`), whatever the integration did to the
    flag.  (Every `simulate` builds a fresh `SingleParticle` in `sbm_ic`, so repeated calls do not depend
    on this; the write-back matters for the post-processing of the stored particle.  That the REAL
    method does it is checked on every real run by the harness predicate `K_T-not-restored`.) -/
theorem K_T_restored {σ : Type} (integ : σ → ℝ → List ℝ → ℝ → σ × Integ ℝ) (s0 : σ) (TaOf : ℝ → ℝ) (cp zmin fdis KT0 : ℝ)
    (y0 : List ℝ) : (simulate integ s0 TaOf cp zmin fdis KT0 y0).2 = KT0 := rfl

/-- [T-def] … and the trajectory is a function of the inputs alone (the model is a pure function:
    identical inputs give identical rows). -/
theorem simulate_deterministic {σ : Type} (integ : σ → ℝ → List ℝ → ℝ → σ × Integ ℝ) (s0 : σ) (TaOf : ℝ → ℝ)
    (cp zmin fdis KT0 : ℝ) (y0 : List ℝ) :
    simulate integ s0 TaOf cp zmin fdis (simulate integ s0 TaOf cp zmin fdis KT0 y0).2 y0 =
      simulate integ s0 TaOf cp zmin fdis KT0 y0 := rfl

end TamocV.Props.C05
