import TamocV.Model.SaveLoad
import TamocV.Lemmas.C18
namespace TamocV.Props.C18
open TamocV.Model.SaveLoad
theorem b2i_true : b2i true = 1 := rfl
end TamocV.Props.C18
