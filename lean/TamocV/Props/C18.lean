/-
  C18 — Saved simulations reload identically.   Property theorems only.

  Model: TamocV/Model/SaveLoad.lean (the file as a finite map; writers/readers transcribed from
  dispersed_phases, single_bubble_model, bent_plume_model, stratified_plume_model, ambient).
  The theorems about data movement are generic in the value type `α` (any `[Num α]`: they hold
  for ℝ and for Float, NaN included); the witnesses of the losses and the normalisation of the
  group-contribution array are over ℝ.

  LABELS.  [T-def] marks a theorem that merely restates a branch of the model's definition (it pins
  the transcription; the tie to /repo is the correspondence run) or a non-vacuity witness.

  * `…_load_save_partial`  load (save x) = x with the unsaved fields reset (`Particle.forget`)
       (`load_save_id_partial` = the particle list; for the bent plume model `bpm_file_…` is the file
       reader and `bpm_load_save_partial` the whole `load_sim`, whose LagElement reset of
       integrate/t/x/y/z is an explicit exclusion: `Particle.noState`, `bpm_state_reset_on_load`):
       every solution array, every model parameter, every stored particle-definition field,
       for any number of particles / compounds / tracers / rows
  * `…_arrays_exact`       the solution arrays alone, with no hypothesis on the particles
  * `…_resave_fixpoint`    save (load (save x)) = save x  (bent / stratified plume, particle lists);
       `sbm_resave_raises`: FALSE for the single bubble model as written (the writer raises)
  * `load_save_id`         full strength under `NoLoss`
  * `load_save_id_false`, `…_not_saved`  the full statement is FALSE for the code as written:
       concrete witnesses (two definitions, one file) for delta, lag_time, the optional user-data
       keys, k_bio/t_bio/fp_type of insoluble particles, cj
  * `bpm_save_raises_without_tracers`
  * `normGroups_*`         the constructor's normalisation of delta_groups is idempotent (ℝ)
  * `profile_*`            create_nc_db/fill_nc_db followed by get_nc_data returns the table
-/
import TamocV.Real
import TamocV.Lemmas.Basic
import TamocV.Lemmas.C18
import Mathlib.Tactic.NormNum
import Mathlib.Tactic.FieldSimp
import Mathlib.Tactic.Linarith
set_option linter.unusedSimpArgs false
set_option linter.unusedVariables false
set_option linter.unusedSectionVars false

namespace TamocV.Props.C18
open TamocV.Model.SaveLoad TamocV.Lemmas.C18

section Generic
variable {α : Type} [Num α]

theorem particles_load_save_partial (pt : Nat) (hpt : pt ≤ 2) (chem ucomp : List String) (Ta : α)
    (ps : List (Particle α)) (tbl : Table α)
    (hs : saveTable pt chem ps (ps.map (·.K_T)) = some tbl) (hwf : ListWF pt chem ucomp Ta ps) :
    loadParticles ((taFile Ta).add (tbl.toFile pt)) = (ps.map Particle.forget, chem) := by
  have ht := saveTable_some _ _ _ _ _ hs
  subst ht
  unfold loadParticles
  rw [ofFile_plain Ta pt hpt _ (mkTable_ok _ _ _ _)]
  exact loadParticlesT_mkTable pt hpt chem ucomp ps _ (by simpa [at1, valF, ListWF] using hwf)

/-- DESIGN §4 name of `particles_load_save_partial` -/
theorem load_save_id_partial (pt : Nat) (hpt : pt ≤ 2) (chem ucomp : List String) (Ta : α)
    (ps : List (Particle α)) (tbl : Table α)
    (hs : saveTable pt chem ps (ps.map (·.K_T)) = some tbl) (hwf : ListWF pt chem ucomp Ta ps) :
    loadParticles ((taFile Ta).add (tbl.toFile pt)) = (ps.map Particle.forget, chem) :=
  particles_load_save_partial pt hpt chem ucomp Ta ps tbl hs hwf

theorem sbm_load_save_partial (h : Header) (s : Sbm α) (f : File α) (ucomp : List String) (Ta : α)
    (hs : saveSbm h s = some f)
    (hK : s.K_T0 = s.particle.K_T)
    (hwf : ParticleWF 0 s.composition ucomp Ta s.particle)
    (hy : ∀ row ∈ s.y, row.length = (s.y.headD []).length) (hlen : s.y.length = s.t.length) :
    loadSbm f = { s with particle := s.particle.forget, K_T0_0d := true } := by
  obtain ⟨tbl, h0d, hst, rfl⟩ := saveSbm_eq h s f hs
  obtain ⟨h1, h2, h3, h4⟩ := sbm_arrays h s _ hs hy hlen
  have ht := saveTable_some _ _ _ _ _ hst
  have hp : loadParticles ((header h).add ((sbmOwn s).add (tbl.toFile 0))) = ([s.particle.forget], s.composition) := by
    unfold loadParticles
    subst ht
    rw [ofFile_sbm h s _ (mkTable_ok _ _ _ _), hK]
    have := loadParticlesT_mkTable 0 (by decide) s.composition ucomp [s.particle] []
      (by intro p hp; rw [List.mem_singleton.mp hp]; exact hwf.ta_irrel)
    simpa [mkTable] using this
  rcases s with ⟨particle, composition, K_T0, K_T0_0d, delta_t, t, y⟩
  simp only at h1 h2 h3 h4 hp ⊢
  unfold loadSbm at h1 h2 h3 h4 ⊢
  simp only [Sbm.mk.injEq]
  refine ⟨?_, ?_, h3, trivial, h4, h1, h2⟩
  · rw [hp]; rfl
  · rw [hp]

theorem bpm_file_load_save_partial (h : Header) (s : Bpm α) (f : File α) (ucomp : List String)
    (hs : saveBpm h s = some f)
    (hX : s.X.length = 3)
    (hK : s.K_T0 = s.particles.map (·.K_T))
    (hwf : ListWF 2 s.chem_names ucomp s.Ta s.particles)
    (hq : ∀ row ∈ s.q, row.length = s.ns) (hlen : s.q.length = s.t.length) :
    ∃ c, s.cj.getLast? = some c ∧
      loadBpmFile f = { s with particles := s.particles.map Particle.forget, cj := [c] } := by
  obtain ⟨c, tbl, hc, hst, rfl⟩ := saveBpm_eq h s f hs
  refine ⟨c, hc, ?_⟩
  have ht := saveTable_some _ _ _ _ _ hst
  have hp : loadParticles ((header h).add ((bpmOwn s c).add (tbl.toFile 2))) =
      (s.particles.map Particle.forget, s.chem_names) := by
    unfold loadParticles
    subst ht
    rw [ofFile_bpm h s c _ (mkTable_ok _ _ _ _), hK]
    exact loadParticlesT_mkTable 2 (by decide) s.chem_names ucomp s.particles _ (by simpa [at1, valF, ListWF] using hwf)
  have hqq := tab_roundtrip s.q s.t.length s.t.length s.ns hlen (Nat.le_refl _) hq
  have htt := col0_roundtrip s.t
  have hx := list3 s.X hX
  rcases s with ⟨X, D, Vj, phi_0, theta_0, Sj, Tj, cj, tracers, chem_names, particles, track, dt_max, sd_max, K_T0, ns, t, q, Ta, Sa, P⟩
  simp only at hp hqq htt hx hK ⊢
  unfold loadBpmFile
  rw [hp]
  simp only [Bpm.mk.injEq]
  simp [bpmOwn, p1, File.f1, File.f2, File.i1, File.dim, File.names, File.vattrN, File.add, header, vF, vF2, vI, va,
    List.lookup, at1, valF_some, valI_some, hqq, htt, hx, hK, forget_K_T', b2i]
  cases track <;> simp

/-- `load_sim` itself ends by building the local Lagrangian element from the FIRST row of the
    solution (l.1378), which overwrites `integrate, t, x, y, z` of every particle with the state at
    the release (`st`: what the plume kinematics give; not data movement, an input here).  So the
    reloaded model equals the saved one in every array, parameter and stored definition field, and
    in the particle state ONLY up to that reset: the end-of-simulation state the file holds
    (`tp, xp, yp, zp`, `integrate`) is read and then discarded. -/
theorem bpm_load_save_partial (h : Header) (s : Bpm α) (f : File α) (ucomp : List String) (st : List (PState α))
    (hs : saveBpm h s = some f) (hX : s.X.length = 3) (hK : s.K_T0 = s.particles.map (·.K_T))
    (hwf : ListWF 2 s.chem_names ucomp s.Ta s.particles)
    (hq : ∀ row ∈ s.q, row.length = s.ns) (hlen : s.q.length = s.t.length) :
    ∃ c, s.cj.getLast? = some c ∧
      loadBpm st f = { s with particles := lagReset st (s.particles.map Particle.forget), cj := [c] } ∧
      (loadBpm st f).particles.map Particle.noState = (s.particles.map Particle.forget).map Particle.noState := by
  obtain ⟨c, hc, hl⟩ := bpm_file_load_save_partial h s f ucomp hs hX hK hwf hq hlen
  refine ⟨c, hc, ?_, ?_⟩
  · simp only [loadBpm, hl]
  · simp only [loadBpm, hl, lagReset_noState]

/-- [T-def] hence the particle state of a reloaded bent-plume model is NOT the saved one: a
    particle that had left the plume (`integrate = false`, position of the exit) comes back as
    inside the plume at the release point -/
theorem bpm_state_reset_on_load (p : Particle α) (x : PState α) (hx : x.integrate ≠ p.integrate) :
    lagReset [x] [p] ≠ [p] := by
  intro h
  simp only [lagReset, List.cons.injEq, and_true] at h
  exact hx (by rw [← h])

theorem spm_load_save_partial (h : Header) (s : Spm α) (f : File α) (ucomp : List String)
    (hs : saveSpm h s = some f)
    (hK : s.K_T0 = s.particles.map (·.K_T))
    (hwf : ListWF 1 s.chem_names ucomp s.Ta s.particles)
    (hyi : ∀ row ∈ s.yi, row.length = s.nsi) (hli : s.yi.length = s.zi.length)
    (hyo : ∀ row ∈ s.yo, row.length = s.nso) (hlo : s.yo.length = s.zo.length) :
    loadSpm f = { s with particles := s.particles.map Particle.forget } := by
  obtain ⟨tbl, hst, rfl⟩ := saveSpm_eq h s f hs
  have ht := saveTable_some _ _ _ _ _ hst
  have hp : loadParticles ((header h).add ((spmOwn s).add (tbl.toFile 1))) =
      (s.particles.map Particle.forget, s.chem_names) := by
    unfold loadParticles
    subst ht
    rw [ofFile_spm h s _ (mkTable_ok _ _ _ _), hK]
    exact loadParticlesT_mkTable 1 (by decide) s.chem_names ucomp s.particles _ (by simpa [at1, valF, ListWF] using hwf)
  have h1 := tab_roundtrip s.yi s.zi.length (Nat.max s.zi.length s.zo.length) s.nsi hli (Nat.le_max_left _ _) hyi
  have h2 := tab_roundtrip s.yo s.zo.length (Nat.max s.zi.length s.zo.length) s.nso hlo (Nat.le_max_right _ _) hyo
  obtain ⟨h3, h4⟩ := zcol_roundtrip s.zi s.zo
  rcases s with ⟨particles, chem_names, K_T0, R, maxit, toler, delta_z, nsi, nso, zi, yi, zo, yo, Ta, Sa, P⟩
  simp only at hp h1 h2 h3 h4 hK ⊢
  unfold loadSpm
  rw [hp]
  simp only [Spm.mk.injEq]
  simp [spmOwn, p1, File.f1, File.f2, File.i1, File.dim, File.names, File.vattrN, File.add, header, vF, vF2, vI, va,
    List.lookup, at1, valF_some, valI_some, h1, h2, h3, h4, hK, forget_K_T', zAttrs]

/-! ### the solution arrays alone: no hypothesis on the particles -/

/-- restates `Lemmas.C18.sbm_arrays` -/
theorem sbm_arrays_exact (h : Header) (s : Sbm α) (f : File α) (hs : saveSbm h s = some f)
    (hy : ∀ row ∈ s.y, row.length = (s.y.headD []).length) (hlen : s.y.length = s.t.length) :
    (loadSbm f).t = s.t ∧ (loadSbm f).y = s.y ∧ (loadSbm f).K_T0 = s.K_T0 ∧ (loadSbm f).delta_t = s.delta_t :=
  sbm_arrays h s f hs hy hlen

theorem bpm_arrays_exact (h : Header) (s : Bpm α) (f : File α) (hs : saveBpm h s = some f)
    (hq : ∀ row ∈ s.q, row.length = s.ns) (hlen : s.q.length = s.t.length) :
    (loadBpmFile f).t = s.t ∧ (loadBpmFile f).q = s.q := by
  obtain ⟨c, tbl, hc, hst, rfl⟩ := saveBpm_eq h s f hs
  have hqq := tab_roundtrip s.q s.t.length s.t.length s.ns hlen (Nat.le_refl _) hq
  have htt := col0_roundtrip s.t
  rcases s with ⟨X, D, Vj, phi_0, theta_0, Sj, Tj, cj, tracers, chem_names, particles, track, dt_max, sd_max, K_T0, ns, t, q, Ta, Sa, P⟩
  simp only at hqq htt ⊢
  unfold loadBpmFile
  simp [bpmOwn, p1, File.f1, File.f2, File.i1, File.dim, File.names, File.vattrN, File.add, header, vF, vF2, vI, va,
    List.lookup, hqq, htt]

theorem spm_arrays_exact (h : Header) (s : Spm α) (f : File α) (hs : saveSpm h s = some f)
    (hyi : ∀ row ∈ s.yi, row.length = s.nsi) (hli : s.yi.length = s.zi.length)
    (hyo : ∀ row ∈ s.yo, row.length = s.nso) (hlo : s.yo.length = s.zo.length) :
    (loadSpm f).zi = s.zi ∧ (loadSpm f).yi = s.yi ∧ (loadSpm f).zo = s.zo ∧ (loadSpm f).yo = s.yo := by
  obtain ⟨tbl, hst, rfl⟩ := saveSpm_eq h s f hs
  have h1 := tab_roundtrip s.yi s.zi.length (Nat.max s.zi.length s.zo.length) s.nsi hli (Nat.le_max_left _ _) hyi
  have h2 := tab_roundtrip s.yo s.zo.length (Nat.max s.zi.length s.zo.length) s.nso hlo (Nat.le_max_right _ _) hyo
  obtain ⟨h3, h4⟩ := zcol_roundtrip s.zi s.zo
  rcases s with ⟨particles, chem_names, K_T0, R, maxit, toler, delta_z, nsi, nso, zi, yi, zo, yo, Ta, Sa, P⟩
  simp only at h1 h2 h3 h4 ⊢
  unfold loadSpm
  simp [spmOwn, p1, File.f1, File.f2, File.i1, File.dim, File.names, File.vattrN, File.add, header, vF, vF2, vI, va,
    List.lookup, h1, h2, h3, h4, zAttrs]

/-! ### re-save fixpoint: save (load (save x)) = save x -/

theorem particles_resave_fixpoint (pt : Nat) (hpt : pt ≤ 2) (chem ucomp : List String) (Ta : α)
    (ps : List (Particle α)) (tbl : Table α)
    (hs : saveTable pt chem ps (ps.map (·.K_T)) = some tbl) (hwf : ListWF pt chem ucomp Ta ps) :
    let r := loadParticles ((taFile Ta).add (tbl.toFile pt))
    saveTable pt r.2 r.1 (r.1.map (·.K_T)) = some tbl := by
  simp only [particles_load_save_partial pt hpt chem ucomp Ta ps tbl hs hwf, forget_K_T, saveTable_forget, hs]

/-- [T-def] re-saving a reloaded single-particle simulation RAISES in the code as written (the reader
    leaves `K_T0` as a 0-d array, the particle writer indexes it): the fixpoint is false here -/
theorem sbm_resave_raises (h : Header) (f : File α) : saveSbm h (loadSbm f) = none := by
  simp [saveSbm, loadSbm]

/-- … and holds as soon as `K_T0` is handed over as a float again -/
theorem sbm_resave_fixpoint_partial (h : Header) (s : Sbm α) (f : File α) (ucomp : List String) (Ta : α)
    (hs : saveSbm h s = some f) (hK : s.K_T0 = s.particle.K_T)
    (hwf : ParticleWF 0 s.composition ucomp Ta s.particle)
    (hy : ∀ row ∈ s.y, row.length = (s.y.headD []).length) (hlen : s.y.length = s.t.length) :
    saveSbm h { loadSbm f with K_T0_0d := false } = some f := by
  obtain ⟨_, h0d, _, _⟩ := saveSbm_eq h s f hs
  rw [sbm_load_save_partial h s f ucomp Ta hs hK hwf hy hlen, ← hs]
  have := saveTable_forget 0 s.composition [s.particle] [s.K_T0]
  simp only [List.map_cons, List.map_nil] at this
  simp only [saveSbm, this, h0d]
  rfl

theorem bpm_file_resave_fixpoint (h : Header) (s : Bpm α) (f : File α) (ucomp : List String)
    (hs : saveBpm h s = some f) (hX : s.X.length = 3) (hK : s.K_T0 = s.particles.map (·.K_T))
    (hwf : ListWF 2 s.chem_names ucomp s.Ta s.particles)
    (hq : ∀ row ∈ s.q, row.length = s.ns) (hlen : s.q.length = s.t.length) :
    saveBpm h (loadBpmFile f) = some f := by
  obtain ⟨c, hc, hl⟩ := bpm_file_load_save_partial h s f ucomp hs hX hK hwf hq hlen
  rw [hl, ← hs]
  simp only [saveBpm, hc, List.getLast?_singleton, saveTable_forget]
  rfl

/-- the heat-transfer factors of a reloaded bent-plume model are the saved ones: whatever the first
    Lagrangian element does to the particles, `load_sim` restores `K_T` from `K_T0` (= the file) -/
theorem bpm_K_T_restored_on_load (h : Header) (s : Bpm α) (f : File α) (ucomp : List String) (st : List (PState α))
    (hs : saveBpm h s = some f) (hX : s.X.length = 3) (hK : s.K_T0 = s.particles.map (·.K_T))
    (hwf : ListWF 2 s.chem_names ucomp s.Ta s.particles)
    (hq : ∀ row ∈ s.q, row.length = s.ns) (hlen : s.q.length = s.t.length) :
    (loadBpm st f).particles.map (·.K_T) = s.K_T0 ∧ (loadBpm st f).K_T0 = s.K_T0 := by
  obtain ⟨c, hc, hl, _⟩ := bpm_load_save_partial h s f ucomp st hs hX hK hwf hq hlen
  rw [hl]
  simp only [lagReset_K_T, forget_K_T, hK, and_self]

/-- re-saving what `load_sim` returns writes the file of the saved model with the particle state
    replaced by the reset one (columns integrate, tp, xp, yp, zp); everything else is a fixpoint -/
theorem bpm_resave_after_load (h : Header) (s : Bpm α) (f : File α) (ucomp : List String) (st : List (PState α))
    (hs : saveBpm h s = some f) (hX : s.X.length = 3) (hK : s.K_T0 = s.particles.map (·.K_T))
    (hwf : ListWF 2 s.chem_names ucomp s.Ta s.particles)
    (hq : ∀ row ∈ s.q, row.length = s.ns) (hlen : s.q.length = s.t.length) :
    saveBpm h (loadBpm st f) = saveBpm h { s with particles := lagReset st s.particles } := by
  obtain ⟨c, hc, hl, _⟩ := bpm_load_save_partial h s f ucomp st hs hX hK hwf hq hlen
  rw [hl]
  simp only [saveBpm, hc, List.getLast?_singleton, lagReset_forget, saveTable_forget]
  rfl

theorem spm_resave_fixpoint (h : Header) (s : Spm α) (f : File α) (ucomp : List String)
    (hs : saveSpm h s = some f) (hK : s.K_T0 = s.particles.map (·.K_T))
    (hwf : ListWF 1 s.chem_names ucomp s.Ta s.particles)
    (hyi : ∀ row ∈ s.yi, row.length = s.nsi) (hli : s.yi.length = s.zi.length)
    (hyo : ∀ row ∈ s.yo, row.length = s.nso) (hlo : s.yo.length = s.zo.length) :
    saveSpm h (loadSpm f) = some f := by
  rw [spm_load_save_partial h s f ucomp hs hK hwf hyi hli hyo hlo, ← hs]
  simp only [saveSpm, saveTable_forget]
  rfl

/-! ### full strength, where nothing the file lacks was set -/

theorem load_save_id (pt : Nat) (hpt : pt ≤ 2) (chem ucomp : List String) (Ta : α)
    (ps : List (Particle α)) (tbl : Table α)
    (hs : saveTable pt chem ps (ps.map (·.K_T)) = some tbl) (hwf : ListWF pt chem ucomp Ta ps)
    (hn : ∀ p ∈ ps, NoLoss p) :
    loadParticles ((taFile Ta).add (tbl.toFile pt)) = (ps, chem) := by
  rw [particles_load_save_partial pt hpt chem ucomp Ta ps tbl hs hwf]
  congr 1
  conv => rhs; rw [← List.map_id ps]
  exact List.map_congr_left hn

/-- two particle lists that agree on what the file holds give the same file -/
theorem save_eq_of_forget_eq (pt : Nat) (chem : List String) (ps qs : List (Particle α)) (K : List α)
    (h : ps.map Particle.forget = qs.map Particle.forget) :
    saveTable pt chem ps K = saveTable pt chem qs K := by
  rw [← saveTable_forget pt chem ps K, ← saveTable_forget pt chem qs K, h]

/-- [T-def] `cj[0] = self.cj` with an empty array: IndexError -/
theorem bpm_save_raises_without_tracers (h : Header) (s : Bpm α) (hc : s.cj = []) : saveBpm h s = none := by
  simp [saveBpm, hc]

/-! ### ambient profile data base -/

/-- A profile written with `create_nc_db` + `fill_nc_db` and read back with `get_nc_data`
    is the table that was written: every column (depth first), value by value, with its
    units — for any number of columns and rows.  (`Profile(nc)` and `Profile(array)` then run
    the same constructor on identical input, hence interpolate identically.) -/
theorem profile_load_save (c m : String) (p : ProfileDb α) (f : File α)
    (hs : saveProfile c m p = some f)
    (hnd : (p.cols.map (·.name)).Nodup) (hz : p.z.name ∉ p.cols.map (·.name)) :
    loadProfile f [p.z.name] (p.cols.map (·.name)) =
      (p.z.name, p.z.units, p.z.vals) :: p.cols.map fun c => (c.name, c.units, c.vals) := by
  unfold saveProfile at hs
  cases h1 : fillVar (createVars p) p.z "" "" with
  | none => simp [h1] at hs
  | some v1 =>
    cases h2 : fillCols (setValid v1 p.z) p.cols with
    | none => simp [h1, h2] at hs
    | some vars =>
      simp only [h1, h2, bind, Option.bind, pure] at hs
      cases hs
      obtain ⟨hA, hB⟩ := fillCols_holds p.cols _ _ h2 hnd
      have hzH : Holds vars p.z :=
        holds_congr _ _ _ (hB _ hz) (setValid_holds _ _ _ (fillVar_holds _ _ _ _ _ h1))
      unfold loadProfile
      simp only [List.singleton_append, List.map_cons, List.map_map]
      congr 1
      · exact loadCol_of_holds _ _ hzH
      · apply List.map_congr_left
        intro d hd
        exact loadCol_of_holds _ _ (hA d hd)

end Generic
section Reals

/-- group contributions switched off: the all-zero array is what the constructor keeps -/
theorem normGroups_zero (nc : Nat) : normGroups nc (zeros nc 15 : List (List ℝ)) = (-1, zeros nc 15) := by
  unfold normGroups
  have : Num.sum ((zeros nc 15 : List (List ℝ)).map Num.sum) = 0 := by
    simp [zeros, Num.real_zero]
  rw [this, isZero_real]
  simp

/-- an array whose rows are already normalised (each sums to 1) is kept as it is -/
theorem normGroups_stable (nc : Nat) (g : List (List ℝ)) (hnc : 0 < nc) (hl : g.length = nc)
    (hr : ∀ r ∈ g, r.length = 15 ∧ r.sum = 1) : normGroups nc g = (1, g) := by
  unfold normGroups
  have hs : Num.sum (g.map Num.sum) = (nc : ℝ) := by
    simp only [Num.real_sum]
    have : g.map List.sum = List.replicate nc (1 : ℝ) := by
      apply List.ext_getElem
      · simp [hl]
      · intro i h1 h2
        have hi : i < g.length := by simpa using h1
        simp [(hr _ (List.getElem_mem hi)).2]
    have h2 : (Num.sum : List ℝ → ℝ) = List.sum := by funext l; simp
    rw [h2, this]; simp
  have hne : (nc : ℝ) ≠ 0 := by exact_mod_cast (Nat.pos_iff_ne_zero.mp hnc)
  rw [hs, isZero_real]
  simp only [hne, decide_false, Bool.false_eq_true, if_false]
  have hall : (g.all fun r => decide (r.length = 15)) = true := by
    simp only [List.all_eq_true, decide_eq_true_eq]
    exact fun r hr' => (hr r hr').1
  simp only [hl, hall, and_self, if_true]
  congr 1
  conv => rhs; rw [← List.map_id g]
  apply List.map_congr_left
  intro r hr'
  simp only [Num.real_sum, (hr r hr').2, div_one, id]
  simp

/-- the constructor's normalisation is idempotent: applying it to its own result changes
    nothing (rows with non-zero sums; exact over ℝ, a few ulp in floating point) -/
theorem normGroups_idempotent (nc : Nat) (g : List (List ℝ)) (hnc : 0 < nc) (hl : g.length = nc)
    (hr : ∀ r ∈ g, r.length = 15 ∧ r.sum ≠ 0) (htot : (g.map List.sum).sum ≠ 0) :
    normGroups nc (normGroups nc g).2 = normGroups nc g := by
  have h1 : normGroups nc g = (1, g.map fun r => r.map fun x => x / r.sum) := by
    unfold normGroups
    have h2 : (Num.sum : List ℝ → ℝ) = List.sum := by funext l; simp
    simp only [Num.real_sum, h2, isZero_real, htot, decide_false, Bool.false_eq_true, if_false]
    have hall : (g.all fun r => decide (r.length = 15)) = true := by
      simp only [List.all_eq_true, decide_eq_true_eq]
      exact fun r hr' => (hr r hr').1
    simp [hl, hall]
  rw [h1]
  apply normGroups_stable nc _ hnc (by simp [hl])
  intro r hr'
  obtain ⟨r0, hr0, rfl⟩ := List.mem_map.mp hr'
  refine ⟨by simp [(hr r0 hr0).1], ?_⟩
  rw [sum_map_div]
  exact div_self (hr r0 hr0).2


/-! ### the full statement is false for the code as written: witnesses -/

/-- [T-def] (non-vacuity) the witness particle is well formed as a particle of any of the three classes
    (ambient temperature 280 K, particle 290 K: heat transfer stays on) -/
theorem witness_particle_wf (pt : Nat) : ParticleWF pt ["methane", "ethane"] ["methane"] (280 : ℝ) wP := by
  refine ⟨?_, ?_, ?_, ?_⟩
  · show FluidWF _ _ wFluid ∧ _
    refine ⟨⟨rfl, Or.inr rfl, by simp [wFluid, wUser], ?_, by decide, ?_, ?_, by decide, by simp [wFluid, zeros]⟩, rfl⟩
    · intro u hu
      simp only [wFluid, List.mem_singleton] at hu
      subst hu; rfl
    · exact normGroups_zero 2
    · intro h; exact absurd h (by decide)
  · constructor <;> intro _ <;> simp [wP, wBase, Num.real_zero]
  · intro e he; cases he
  · intro _ hc
    have := hc.2
    simp only [wP, wBase, Num.real_abs, Num.real_ofSci] at this
    norm_num at this

/-- [T-def] (non-vacuity) -/
theorem witness_insoluble_wf (pt : Nat) : ParticleWF pt ["methane", "ethane"] ["methane"] (280 : ℝ) wI := by
  refine ⟨rfl, ?_, ?_, ?_⟩
  · constructor <;> intro _ <;> simp [wI, wBase, Num.real_zero]
  · intro e he; cases he
  · intro _ hc
    have := hc.2
    simp only [wI, wBase, Num.real_abs, Num.real_ofSci] at this
    norm_num at this

/-- [T-def] (non-vacuity) -/
theorem witness_wf : ListWF 0 ["methane", "ethane"] ["methane"] (280 : ℝ) [wP] := by
  intro p hp
  rw [List.mem_singleton.mp hp]
  exact witness_particle_wf 0

/-- [T-def] (non-vacuity) the writer accepts the witness -/
theorem witness_saves : saveTable 0 ["methane", "ethane"] [wP] ([wP].map (·.K_T)) =
    some (mkTable 0 ["methane", "ethane"] [wP] ([wP].map (·.K_T))) := by
  simp [saveTable, saveOk, m0Ok, userOk, userComposition, nchemsOf, wP, wBase, wFluid, wUser, findUser, zeros]

/-- `∀ x, load (save x) = x` does not hold: the witness is a valid single particle whose file
    loads to a different particle (lag_time, delta and the optional user-data keys are gone) -/
theorem load_save_id_false :
    ¬ (∀ (pt : Nat) (chem ucomp : List String) (Ta : ℝ) (ps : List (Particle ℝ)) (tbl : Table ℝ),
        pt ≤ 2 → saveTable pt chem ps (ps.map (·.K_T)) = some tbl → ListWF pt chem ucomp Ta ps →
        loadParticles ((taFile Ta).add (tbl.toFile pt)) = (ps, chem)) := by
  intro H
  have h1 := H 0 _ _ 280 [wP] _ (by decide) witness_saves witness_wf
  have h2 := particles_load_save_partial 0 (by decide) _ _ 280 [wP] _ witness_saves witness_wf
  rw [h2] at h1
  have h3 := congrArg (fun r => (r.1.map (·.lag_time))) h1
  simp [Particle.forget, wP, wBase] at h3

/-- interaction coefficients: two definitions that differ only in `delta` give the same file -/
theorem delta_not_saved :
    ∃ p q : Particle ℝ, (∃ f g, p.dbm = .fluid f ∧ q.dbm = .fluid g ∧ f.delta ≠ g.delta) ∧
      ∀ pt chem K, saveTable pt chem [p] K = saveTable pt chem [q] K := by
  refine ⟨wP, wBase (.fluid { wFluid with delta := zeros 2 2 }) [1e-6, 1e-6] false, ?_, ?_⟩
  · refine ⟨wFluid, { wFluid with delta := zeros 2 2 }, rfl, rfl, ?_⟩
    simp [wFluid, zeros, Num.real_zero]
    norm_num
  · intro pt chem K
    exact save_eq_of_forget_eq pt chem _ _ K rfl

theorem lag_time_not_saved :
    ∃ p q : Particle ℝ, p.lag_time ≠ q.lag_time ∧
      ∀ pt chem K, saveTable pt chem [p] K = saveTable pt chem [q] K := by
  refine ⟨wP, wBase (.fluid wFluid) [1e-6, 1e-6] true, by simp [wP, wBase], ?_⟩
  intro pt chem K
  exact save_eq_of_forget_eq pt chem _ _ K rfl

/-- user-supplied chemical data: k_bio, t_bio, C_pen, C_pen_T of a `user_data` entry -/
theorem user_data_extras_not_saved :
    ∃ p q : Particle ℝ, (∃ f g u v, p.dbm = .fluid f ∧ q.dbm = .fluid g ∧ f.user_data = [u] ∧ g.user_data = [v] ∧
        u.k_bio ≠ v.k_bio ∧ u.t_bio ≠ v.t_bio ∧ u.C_pen ≠ v.C_pen ∧ u.C_pen_T ≠ v.C_pen_T) ∧
      ∀ pt chem K, saveTable pt chem [p] K = saveTable pt chem [q] K := by
  refine ⟨wP, wBase (.fluid { wFluid with user_data := [wUser.forget] }) [1e-6, 1e-6] false, ?_, ?_⟩
  · exact ⟨wFluid, { wFluid with user_data := [wUser.forget] }, wUser, wUser.forget, rfl, rfl, rfl, rfl,
      by simp [wUser, UserChem.forget], by simp [wUser, UserChem.forget], by simp [wUser, UserChem.forget],
      by simp [wUser, UserChem.forget]⟩
  · intro pt chem K
    exact save_eq_of_forget_eq pt chem _ _ K rfl

/-- insoluble particles: k_bio, t_bio and the phase type fp_type -/
theorem insoluble_bio_fp_type_not_saved :
    ∃ p q : Particle ℝ, (∃ i j, p.dbm = .insol i ∧ q.dbm = .insol j ∧ i.k_bio ≠ j.k_bio ∧ i.t_bio ≠ j.t_bio ∧
        i.fp_type ≠ j.fp_type) ∧
      ∀ pt chem K, saveTable pt chem [p] K = saveTable pt chem [q] K := by
  refine ⟨wI, wI.forget, ?_, ?_⟩
  · refine ⟨_, _, rfl, rfl, ?_, ?_, ?_⟩
    · simp only [Num.real_zero]; norm_num
    · simp only [Num.real_zero]; norm_num
    · decide
  · intro pt chem K
    exact save_eq_of_forget_eq pt chem _ _ K rfl

/-- composition: the writer never looks at a soluble particle's OWN composition (it writes the
    `chem_names` argument once, for all): two particles whose compounds are listed in different
    orders give the same file, and the reader labels both with `chem_names` — the masses of the
    second are attached to the wrong compounds.  (A particle with fewer compounds than `chem_names`
    has its single mass repeated: `bcast`.) -/
theorem composition_not_saved :
    ∃ p q : Particle ℝ, (∃ f g, p.dbm = .fluid f ∧ q.dbm = .fluid g ∧ f.composition ≠ g.composition) ∧
      ∀ pt chem K, saveTable pt chem [p] K = saveTable pt chem [q] K := by
  refine ⟨wP, wBase (.fluid { wFluid with composition := ["ethane", "methane"] }) [1e-6, 1e-6] false, ?_, ?_⟩
  · exact ⟨wFluid, { wFluid with composition := ["ethane", "methane"] }, rfl, rfl, by simp [wFluid]⟩
  · intro pt chem K
    rfl

/-- tracer concentrations: only the last element of `cj` reaches the file -/
theorem cj_not_saved :
    ∃ s s' : Bpm ℝ, s.cj ≠ s'.cj ∧ s.tracers = s'.tracers ∧ ∀ h, saveBpm h s = saveBpm h s' := by
  let s : Bpm ℝ := ⟨[0, 0, 300], 0.2, 1, -1.5, 0, 0, 290, [1, 2], ["a", "b"], [], [], false, 60, 50, [], 11,
    [], [], 290, 34, 3e6⟩
  refine ⟨s, { s with cj := [5, 2] }, ?_, rfl, ?_⟩
  · simp [s]
  · intro h
    simp [saveBpm, s, bpmOwn]


/-! ### the hypotheses of the round-trip theorems are satisfiable (concrete, non-trivial states) -/

/-- a single-particle simulation of the witness particle: 2 rows, state vector x,y,z,m₁,m₂,H -/
noncomputable example : ∃ (s : Sbm ℝ), (saveSbm ⟨"t", "prf.nc", "i", "c", "m"⟩ s).isSome ∧
    s.K_T0 = s.particle.K_T ∧ ParticleWF 0 s.composition ["methane"] (280 : ℝ) s.particle ∧
    (∀ row ∈ s.y, row.length = (s.y.headD []).length) ∧ s.y.length = s.t.length ∧ s.t.length = 2 := by
  refine ⟨⟨wP, ["methane", "ethane"], 1, false, 10, [0, 10], [[0, 0, 300, 1e-6, 1e-6, 5], [0, 0, 290, 9e-7, 9e-7, 4]]⟩, ?_,
    rfl, witness_particle_wf 0, by simp, rfl, rfl⟩
  simp [saveSbm, saveTable, saveOk, m0Ok, userOk, userComposition, nchemsOf, wP, wBase, wFluid, wUser, findUser, zeros]

/-- a bent-plume simulation with a soluble and an inert particle, two tracers, three rows -/
noncomputable example : ∃ (s : Bpm ℝ), s.X.length = 3 ∧ s.K_T0 = s.particles.map (·.K_T) ∧
    ListWF 2 s.chem_names ["methane"] s.Ta s.particles ∧ (∀ row ∈ s.q, row.length = s.ns) ∧
    s.q.length = s.t.length ∧ s.particles.length = 2 ∧ s.cj.length = 2 ∧
    (saveBpm ⟨"t", "prf.nc", "i", "c", "m"⟩ s).isSome := by
  refine ⟨⟨[0, 0, 300], 0.2, 1, -1.5, 0, 0, 290, [1, 2], ["a", "b"], ["methane", "ethane"], [wP, wI], false, 60, 50,
    [1, 1], 2, [0, 1, 2], [[1, 2], [3, 4], [5, 6]], 280, 34, 3e6⟩, rfl, rfl, ?_, by simp, rfl, rfl, rfl, ?_⟩
  · intro p hp
    simp only [List.mem_cons, List.not_mem_nil, or_false] at hp
    rcases hp with rfl | rfl
    · exact witness_particle_wf 2
    · exact witness_insoluble_wf 2
  · simp [saveBpm, saveTable, saveOk, m0Ok, userOk, userComposition, nchemsOf, wP, wI, wBase, wFluid, wUser, findUser, zeros]

/-- a stratified-plume simulation: inner and outer solutions of different lengths -/
noncomputable example : ∃ (s : Spm ℝ), s.K_T0 = s.particles.map (·.K_T) ∧
    ListWF 1 s.chem_names ["methane"] s.Ta s.particles ∧
    (∀ row ∈ s.yi, row.length = s.nsi) ∧ s.yi.length = s.zi.length ∧
    (∀ row ∈ s.yo, row.length = s.nso) ∧ s.yo.length = s.zo.length ∧ s.zi.length ≠ s.zo.length ∧
    (saveSpm ⟨"t", "prf.nc", "i", "c", "m"⟩ s).isSome := by
  refine ⟨⟨[wP, wI], ["methane", "ethane"], [1, 1], 0.1, 2, 0.2, 1, 2, 1, [100, 99], [[1, 2], [3, 4]], [99, 99.5, 100],
    [[1], [2], [3]], 280, 34, 1e6⟩, rfl, ?_, by simp, rfl, by simp, rfl, by decide, ?_⟩
  · intro p hp
    simp only [List.mem_cons, List.not_mem_nil, or_false] at hp
    rcases hp with rfl | rfl
    · exact witness_particle_wf 1
    · exact witness_insoluble_wf 1
  · simp [saveSpm, saveTable, saveOk, m0Ok, userOk, userComposition, nchemsOf, wP, wI, wBase, wFluid, wUser, findUser, zeros]

/-- group-contribution arrays: a normalised 2 × 15 array satisfies `normGroups_stable` -/
example : ∀ r ∈ ([[0, 0, 0, 0, 1, 0, 0, 0, 0, 0, 0, 0, 0, 0, 0], [0.5, 0.25, 0.25, 0, 0, 0, 0, 0, 0, 0, 0, 0, 0, 0, 0]] :
    List (List ℝ)), r.length = 15 ∧ r.sum = 1 := by
  intro r hr
  simp only [List.mem_cons, List.not_mem_nil, or_false] at hr
  rcases hr with rfl | rfl <;> constructor <;> norm_num

/-- a profile data base with two dependent columns -/
noncomputable example : ∃ (p : ProfileDb ℝ), (saveProfile "c" "m" p).isSome ∧
    (p.cols.map (·.name)).Nodup ∧ p.z.name ∉ p.cols.map (·.name) ∧ p.cols.length = 2 := by
  refine ⟨⟨"s", "src", "sea", 28, 270, 0, ⟨"z", "m", "c", [0, 100]⟩,
    [⟨"temperature", "K", "c", [290, 280]⟩, ⟨"oxygen", "kg/m^3", "c", [1e-3, 2e-3]⟩]⟩, ?_, by simp, by simp, rfl⟩
  simp [saveProfile, fillVar, fillCols, createVars, setValid, mapVal, List.lookup, va, zAttrs, coordAttr, setAttr, bind, pure]

end Reals

end TamocV.Props.C18
