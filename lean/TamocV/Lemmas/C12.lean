/-
  Helper lemmas for C12: list algebra of the mixing rule and of scalings.
-/
import TamocV.Real
import TamocV.Lemmas.Basic
import TamocV.Model.Oil
import Mathlib.Tactic.Ring
import Mathlib.Tactic.Linarith
import Mathlib.Tactic.FieldSimp
import Mathlib.Tactic.NormNum
import Mathlib.Tactic.Positivity
import Mathlib.Algebra.BigOperators.Group.List.Basic

namespace TamocV.Lemmas.C12
open TamocV.Model.Oil

theorem sum_map_mul_right (c : ℝ) : ∀ l : List ℝ, (l.map (· * c)).sum = l.sum * c
  | [] => by simp
  | x :: xs => by simp [sum_map_mul_right c xs, add_mul]

theorem zeros_eq (n : Nat) : (zeros n : List ℝ) = List.replicate n 0 := by
  simp only [zeros, Num.real_ofSci]; norm_num

/-- `0·β + (1-β)·x`: mixing a zero block of the gas vector with the dead-oil block -/
theorem zipWith_zeros_left (a b : ℝ) : ∀ (l : List ℝ),
    List.zipWith (· + ·) ((List.replicate l.length (0 : ℝ)).map (a * ·)) (l.map (b * ·)) = l.map (b * ·)
  | [] => by simp
  | x :: xs => by
      simp only [List.length_cons, List.replicate_succ, List.map_cons, List.zipWith_cons_cons,
        zipWith_zeros_left a b xs]
      simp

/-- `β·x + (1-β)·0`: mixing the gas block with a zero block of the dead-oil vector -/
theorem zipWith_zeros_right (a b : ℝ) : ∀ (l : List ℝ),
    List.zipWith (· + ·) (l.map (a * ·)) ((List.replicate l.length (0 : ℝ)).map (b * ·)) = l.map (a * ·)
  | [] => by simp
  | x :: xs => by
      simp only [List.length_cons, List.replicate_succ, List.map_cons, List.zipWith_cons_cons,
        zipWith_zeros_right a b xs]
      simp

theorem gasMf_length : (gasMf : List ℝ).length = 5 := by simp [gasMf]

theorem gasMf_nonneg : ∀ x ∈ (gasMf : List ℝ), 0 ≤ x := by
  intro x hx
  simp only [gasMf, Num.real_ofSci, List.mem_cons, List.not_mem_nil, or_false] at hx
  rcases hx with h | h | h | h | h <;> rw [h] <;> norm_num

/-- the mixing rule block by block: natural gas scaled by β, then the dead-oil vector scaled by 1-β -/
theorem mix_blocks (beta : ℝ) (dead : List ℝ) :
    mix beta (mfGasFull dead.length) (mfOilFull dead)
      = (gasMf : List ℝ).map (beta * ·) ++ dead.map ((1 - beta) * ·) := by
  simp only [mix, mfGasFull, mfOilFull, Num.vadd, Num.smul, zeros_eq, List.map_append, Num.real_ofSci]
  rw [List.zipWith_append (by simp)]
  have h5 : (gasMf : List ℝ).length = 5 := gasMf_length
  have e1 := zipWith_zeros_right beta (1.0 - beta) (gasMf : List ℝ)
  have e2 := zipWith_zeros_left beta (1.0 - beta) dead
  simp only [Num.real_ofSci] at e1 e2
  rw [e1, e2]
  norm_num

theorem mem_map_mul_nonneg (c : ℝ) (l : List ℝ) (hc : 0 ≤ c) (hl : ∀ x ∈ l, 0 ≤ x) :
    ∀ x ∈ l.map (c * ·), 0 ≤ x := by
  intro x hx
  obtain ⟨y, hy, rfl⟩ := List.mem_map.mp hx
  exact mul_nonneg hc (hl y hy)

theorem mem_map_mul_right_nonneg (c : ℝ) (l : List ℝ) (hc : 0 ≤ c) (hl : ∀ x ∈ l, 0 ≤ x) :
    ∀ x ∈ l.map (· * c), 0 ≤ x := by
  intro x hx
  obtain ⟨y, hy, rfl⟩ := List.mem_map.mp hx
  exact mul_nonneg (hl y hy) hc

theorem sum_nonneg_of (l : List ℝ) (hl : ∀ x ∈ l, 0 ≤ x) : 0 ≤ l.sum := List.sum_nonneg hl

end TamocV.Lemmas.C12
