/-
  Helper lemmas for C11: list algebra of scalings / mass and mole fractions, the closed form of the
  number flux, and the cube-root round trip.
-/
import TamocV.Real
import TamocV.Lemmas.Basic
import TamocV.Model.Release
import Mathlib.Tactic.Ring
import Mathlib.Tactic.Linarith
import Mathlib.Tactic.FieldSimp
import Mathlib.Tactic.NormNum
import Mathlib.Tactic.Positivity
import Mathlib.Algebra.BigOperators.Group.List.Basic
import Mathlib.Analysis.SpecialFunctions.Pow.Real

namespace TamocV.Lemmas.C11
open TamocV.Model.Release

/-! ### generic list facts -/

theorem sum_map_mul_left (c : ℝ) : ∀ l : List ℝ, (l.map (c * ·)).sum = c * l.sum
  | [] => by simp
  | x :: xs => by simp [sum_map_mul_left c xs, mul_add]

theorem sum_map_mul_right (c : ℝ) : ∀ l : List ℝ, (l.map (· * c)).sum = l.sum * c
  | [] => by simp
  | x :: xs => by simp [sum_map_mul_right c xs, add_mul]

theorem sum_map_div (c : ℝ) : ∀ l : List ℝ, (l.map (· / c)).sum = l.sum / c
  | [] => by simp
  | x :: xs => by simp [sum_map_div c xs, add_div]

/-- `getD` through a map that fixes 0 (no length guard needed) -/
theorem getD_map0 (f : ℝ → ℝ) (hf : f 0 = 0) : ∀ (l : List ℝ) (j : Nat),
    (l.map f).getD j 0 = f (l.getD j 0)
  | [], j => by simp [hf]
  | x :: xs, 0 => by simp
  | x :: xs, j+1 => by
      simp only [List.map_cons, List.getD_cons_succ]
      exact getD_map0 f hf xs j

theorem map_map_mul (a b : ℝ) (l : List ℝ) : (l.map (a * ·)).map (b * ·) = l.map ((b * a) * ·) := by
  simp [List.map_map, Function.comp_def, mul_assoc]

/-! ### `pi`, the number flux -/

theorem pi_pos : (0 : ℝ) < (pi : ℝ) := by
  simp only [pi, Num.real_ofSci]; norm_num

theorem pi_ne : (pi : ℝ) ≠ 0 := ne_of_gt pi_pos

/-- closed form of l.575-576 -/
theorem icNb0_eq (mDot rhoP de : ℝ) (hr : rhoP ≠ 0) (hd : de ≠ 0) :
    icNb0 mDot rhoP de = 6 * mDot / (rhoP * pi * de ^ 3) := by
  have hp := pi_ne
  simp only [icNb0, Num.real_ofSci, Num.real_npow]
  norm_num
  field_simp

theorem icNb0_ne (mDot rhoP de : ℝ) (hm : mDot ≠ 0) (hr : rhoP ≠ 0) (hd : de ≠ 0) :
    icNb0 mDot rhoP de ≠ 0 := by
  have hp := pi_ne
  rw [icNb0_eq mDot rhoP de hr hd]
  exact div_ne_zero (mul_ne_zero (by norm_num) hm) (mul_ne_zero (mul_ne_zero hr hp) (pow_ne_zero 3 hd))

theorem icNb0_pos (mDot rhoP de : ℝ) (hm : 0 < mDot) (hr : 0 < rhoP) (hd : 0 < de) :
    0 < icNb0 mDot rhoP de := by
  have hp := pi_pos
  rw [icNb0_eq mDot rhoP de (ne_of_gt hr) (ne_of_gt hd)]
  positivity

/-- closed form of l.581 -/
theorem icMass_eq (rhoP de : ℝ) : icMass rhoP de = rhoP * pi * de ^ 3 / 6 := by
  simp only [icMass, Num.real_ofSci, Num.real_npow]
  norm_num
  ring

theorem icMass_pos (rhoP de : ℝ) (hr : 0 < rhoP) (hd : 0 < de) : 0 < icMass rhoP de := by
  have hp := pi_pos
  rw [icMass_eq]
  positivity

/-- number flux × mass of one particle = total mass flux (also when the flux is zero) -/
theorem nb0_mul_mass (mDot rhoP de : ℝ) (hr : rhoP ≠ 0) (hd : de ≠ 0) :
    icNb0 mDot rhoP de * icMass rhoP de = mDot := by
  have hp := pi_ne
  rw [icNb0_eq mDot rhoP de hr hd, icMass_eq]
  field_simp

/-- `nb0 • (mass • mf) = m_dot • mf` -/
theorem flux_core (mDot rhoP de : ℝ) (mf : List ℝ) (hr : rhoP ≠ 0) (hd : de ≠ 0) :
    (mf.map (icMass rhoP de * ·)).map (icNb0 mDot rhoP de * ·) = mf.map (mDot * ·) := by
  rw [map_map_mul, nb0_mul_mass mDot rhoP de hr hd]

/-- 6 · mass / (π ρ) = de³ -/
theorem six_mass (rhoP de : ℝ) (hr : rhoP ≠ 0) : 6 * icMass rhoP de / (pi * rhoP) = de ^ 3 := by
  have hp := pi_ne
  rw [icMass_eq]
  field_simp

/-- weights `y ≥ 0` with positive total against positive molar masses: `Σ y_i M_i > 0` -/
theorem masses_sum_pos_aux : ∀ (y M : List ℝ), y.length = M.length → (∀ x ∈ M, 0 < x) → (∀ x ∈ y, 0 ≤ x) →
    0 ≤ (List.zipWith (· * ·) y M).sum ∧ (0 < y.sum → 0 < (List.zipWith (· * ·) y M).sum)
  | [], [], _, _, _ => by simp
  | [], _ :: _, h, _, _ => by simp at h
  | _ :: _, [], h, _, _ => by simp at h
  | y :: ys, m :: ms, h, hM, hy => by
      have hm : 0 < m := hM m (by simp)
      have hy0 : 0 ≤ y := hy y (by simp)
      have ih := masses_sum_pos_aux ys ms (by simpa using h) (fun x hx => hM x (by simp [hx]))
        (fun x hx => hy x (by simp [hx]))
      simp only [List.zipWith_cons_cons, List.sum_cons]
      refine ⟨add_nonneg (mul_nonneg hy0 (le_of_lt hm)) ih.1, fun hs => ?_⟩
      rcases lt_or_eq_of_le hy0 with hpos | hzero
      · exact add_pos_of_pos_of_nonneg (mul_pos hpos hm) ih.1
      · have : 0 < ys.sum := by rw [← hzero] at hs; simpa using hs
        rw [← hzero]
        simpa using ih.2 this

theorem masses_sum_pos (M yk : List ℝ) (hl : yk.length = M.length) (hM : ∀ x ∈ M, 0 < x)
    (hy : ∀ x ∈ yk, 0 ≤ x) (hs : 0 < yk.sum) : 0 < (masses M yk).sum :=
  (masses_sum_pos_aux yk M hl hM hy).2 hs

/-! ### mass and mole fractions -/

theorem masses_eq (M n : List ℝ) : masses M n = List.zipWith (· * ·) n M := rfl

theorem massFrac_eq (M n : List ℝ) :
    massFrac M n = (masses M n).map (· / (masses M n).sum) := by
  simp [massFrac]

theorem massFrac_sum (M n : List ℝ) (h : (masses M n).sum ≠ 0) : (massFrac M n).sum = 1 := by
  rw [massFrac_eq, sum_map_div, div_self h]

theorem massFrac_getD (M n : List ℝ) (j : Nat) :
    (massFrac M n).getD j 0 = (masses M n).getD j 0 / (masses M n).sum := by
  rw [massFrac_eq, getD_map0 _ (by simp)]

/-- `(c • (y ⊙ M)) / M = c • y` when no molar mass vanishes -/
theorem vdiv_scaled_masses (c : ℝ) : ∀ (y M : List ℝ), y.length = M.length → (∀ x ∈ M, x ≠ 0) →
    List.zipWith (· / ·) ((List.zipWith (· * ·) y M).map (c * ·)) M = y.map (c * ·)
  | [], [], _, _ => by simp
  | [], _ :: _, h, _ => by simp at h
  | _ :: _, [], h, _ => by simp at h
  | y :: ys, m :: ms, h, hM => by
      have hm : m ≠ 0 := hM m (by simp)
      have ih := vdiv_scaled_masses c ys ms (by simpa using h) (fun x hx => hM x (by simp [hx]))
      simp only [List.zipWith_cons_cons, List.map_cons, ih]
      congr 1
      field_simp

/-- mole fractions of `c • massFrac(yk)` are `yk / Σ yk` -/
theorem molFrac_scaled_massFrac (c : ℝ) (M yk : List ℝ) (hl : yk.length = M.length)
    (hM : ∀ x ∈ M, x ≠ 0) (hc : c ≠ 0) (hS : (masses M yk).sum ≠ 0) (hy : yk.sum ≠ 0) :
    molFrac M ((massFrac M yk).map (c * ·)) = yk.map (· / yk.sum) := by
  have h1 : (massFrac M yk).map (c * ·) = (List.zipWith (· * ·) yk M).map ((c / (masses M yk).sum) * ·) := by
    rw [massFrac_eq, masses_eq, List.map_map]
    congr 1
    funext x
    simp only [Function.comp]
    field_simp
  simp only [molFrac, Num.vdiv, Num.real_sum]
  rw [h1, vdiv_scaled_masses _ yk M hl hM, sum_map_mul_left, List.map_map]
  apply List.map_congr_left
  intro x _
  simp only [Function.comp]
  have : c / (masses M yk).sum ≠ 0 := div_ne_zero hc hS
  field_simp

/-! ### cube root -/

theorem cube_root_cube (d : ℝ) (hd : 0 ≤ d) : (d ^ 3) ^ ((1 : ℝ) / 3) = d := by
  have h := Real.pow_rpow_inv_natCast hd (n := 3) (by norm_num)
  have e : ((3 : ℕ) : ℝ)⁻¹ = (1 : ℝ) / 3 := by norm_num
  rw [e] at h
  exact h

/-! ### the transcribed `masses_by_diameter` -/

theorem zipWith_map_scaled (t s : ℝ) : ∀ (y M : List ℝ),
    List.zipWith (· * ·) (y.map (fun x => x * t / s)) M = (List.zipWith (· * ·) y M).map ((t / s) * ·)
  | [], _ => by simp
  | _ :: _, [] => by simp
  | y :: ys, m :: ms => by
      simp only [List.map_cons, List.zipWith_cons_cons, zipWith_map_scaled t s ys ms]
      congr 1
      ring

/-- `masses_by_diameter(de, T, P, yk) = (m_tot / Σ m) • m`, `m = masses(yk)` -/
theorem massesByDiameter_eq (ρ : List ℝ → ℝ → ℝ → ℝ) (M : List ℝ) (de T P : ℝ) (yk : List ℝ) :
    massesByDiameter ρ M de T P yk
      = (masses M yk).map ((1 / 6 * pi * de ^ 3 * ρ (masses M yk) T P / (masses M yk).sum) * ·) := by
  simp only [massesByDiameter, Num.real_sum, Num.real_npow, Num.real_ofSci]
  rw [masses_eq, masses_eq, zipWith_map_scaled]
  norm_num

/-- mole fractions of `c • masses(yk)` are `yk / Σ yk` -/
theorem molFrac_scaled_masses (c : ℝ) (M yk : List ℝ) (hl : yk.length = M.length)
    (hM : ∀ x ∈ M, x ≠ 0) (hc : c ≠ 0) (hy : yk.sum ≠ 0) :
    molFrac M ((masses M yk).map (c * ·)) = yk.map (· / yk.sum) := by
  simp only [molFrac, Num.vdiv, Num.real_sum]
  rw [masses_eq, vdiv_scaled_masses _ yk M hl hM, sum_map_mul_left, List.map_map]
  apply List.map_congr_left
  intro x _
  simp only [Function.comp]
  field_simp

theorem map_div_one (l : List ℝ) : l.map (· / (1 : ℝ)) = l := by simp

/-! ### component fluxes over lists of particle classes -/

theorem compFlux_nil (j : Nat) : compFlux j ([] : List (IC ℝ)) = 0 := by
  simp [compFlux]

theorem compFlux_cons (j : Nat) (p : IC ℝ) (ps : List (IC ℝ)) :
    compFlux j (p :: ps) = p.nb0 * p.m0.getD j 0 + compFlux j ps := by
  simp [compFlux]

theorem compFlux_append (j : Nat) (a b : List (IC ℝ)) :
    compFlux j (a ++ b) = compFlux j a + compFlux j b := by
  simp [compFlux]

/-- component `j` of `nb0 • m0` -/
theorem flux_getD (p : IC ℝ) (j : Nat) : (flux p).getD j 0 = p.nb0 * p.m0.getD j 0 := by
  simp only [flux, Num.smul]
  exact getD_map0 _ (by simp) _ _

theorem smul_getD (c : ℝ) (l : List ℝ) (j : Nat) : (Num.smul c l).getD j 0 = c * l.getD j 0 := by
  simp only [Num.smul]
  exact getD_map0 _ (by simp) _ _

/-! ### the fill time of the first element -/

theorem fillTime_eq (A Q : ℝ) (hA : 0 ≤ A) :
    fillTime A Q = A * (Real.sqrt (4 * A / pi) / 5) / Q := by
  have hp := pi_pos
  have hs : Real.sqrt (4 * A / pi) ^ 2 = 4 * A / pi := Real.sq_sqrt (by positivity)
  simp only [fillTime, Num.real_ofSci, Num.real_npow, Num.real_sqrt]
  norm_num
  rw [div_pow, hs]
  field_simp
  ring

end TamocV.Lemmas.C11
