/-
  Refinement of the hand EOS model by the REGENERATED code (C01, C10): helper lemmas connecting the list /
  fold form that translate/py2ir2.py produces from dbm_p.py (`Gen.EosFullPy`) with the index-function /
  finite-sum form of `TamocV.Model.Eos`.
-/
import TamocV.Lemmas.Eos
import TamocV.Gen.EosFullPy
import Mathlib.Tactic.Ring
import Mathlib.Tactic.Linarith
import Mathlib.Tactic.NormNum

set_option linter.unusedSimpArgs false
set_option linter.unusedVariables false

namespace TamocV.Lemmas.EosRefine
open Finset TamocV.Model.Eos TamocV.Lemmas.Eos TamocV.Gen

theorem getD_zipWith {f : ℝ → ℝ → ℝ} (a b : List ℝ) (n i : ℕ) (ha : a.length = n) (hb : b.length = n) (hi : i < n) :
    (List.zipWith f a b).getD i 0 = f (a.getD i 0) (b.getD i 0) := by
  have h1 : i < a.length := by omega
  have h2 : i < b.length := by omega
  simp [List.getD_eq_getElem?_getD, List.getElem?_zipWith, List.getElem?_eq_getElem h1, List.getElem?_eq_getElem h2]

theorem getD_map {f : ℝ → ℝ} (a : List ℝ) (n i : ℕ) (ha : a.length = n) (hi : i < n) :
    (a.map f).getD i 0 = f (a.getD i 0) := by
  have h1 : i < a.length := by omega
  simp [List.getD_eq_getElem?_getD, List.getElem?_map, List.getElem?_eq_getElem h1]

theorem list_sum_eq_range (l : List ℝ) (n : ℕ) (h : l.length = n) : l.sum = ∑ i ∈ range n, l.getD i 0 := by
  induction l generalizing n with
  | nil => subst h; simp
  | cons x xs ih =>
    subst h
    rw [List.sum_cons, List.length_cons, Finset.sum_range_succ', ih xs.length rfl]
    simp [add_comm]

def ofL (l : List ℝ) : ℕ → ℝ := fun i => l.getD i 0
def ofM (m : List (List ℝ)) : ℕ → ℕ → ℝ := fun i j => (m.getD i []).getD j 0

theorem mole_fraction_refines (m M : List ℝ) (n i : ℕ) (hm : m.length = n) (hM : M.length = n) (hi : i < n) :
    (EosFullPy.mole_fraction m M).getD i 0 = moleFraction n (ofL m) (ofL M) i := by
  simp only [EosFullPy.mole_fraction, moleFraction, sumN_eq, ofL]
  have hz : (List.zipWith (fun x y => x / y) m M).length = n := by simp [hm, hM]
  rw [getD_map _ n i hz hi, getD_zipWith m M n i hm hM hi, Num.real_sum, list_sum_eq_range _ n hz]
  congr 1
  apply Finset.sum_congr rfl
  intro j hj
  exact getD_zipWith m M n j hm hM (mem_range.mp hj)

theorem mole_fraction_length (m M : List ℝ) (n : ℕ) (hm : m.length = n) (hM : M.length = n) :
    (EosFullPy.mole_fraction m M).length = n := by
  simp [EosFullPy.mole_fraction, hm, hM]

theorem foldl_set_range' {β : Type} (f : ℕ → β) (n : ℕ) (l0 : List β) (h : l0.length = n) :
    (List.range' 0 n).foldl (fun st i => st.set i (f i)) l0 = (List.range n).map f := by
  have key : ∀ k, k ≤ n → (List.range' 0 k).foldl (fun st i => st.set i (f i)) l0
      = (List.range k).map f ++ l0.drop k := by
    intro k
    induction k with
    | zero => intro _; simp
    | succ k ih =>
      intro hk
      have hk' : k ≤ n := Nat.le_of_succ_le hk
      rw [List.range'_concat, List.foldl_append, ih hk']
      simp only [List.foldl_cons, List.foldl_nil, Nat.zero_add, Nat.one_mul]
      have hlen : ((List.range k).map f).length = k := by simp
      rw [List.set_append_right _ _ (by rw [hlen])]
      rw [hlen, Nat.sub_self]
      have hk2 : k < l0.length := by omega
      rw [List.range_succ, List.map_append, List.append_assoc]
      congr 1
      rw [List.drop_eq_getElem_cons hk2, List.set_cons_zero]
      simp
  have := key n (le_refl n)
  rw [this, List.drop_of_length_le (by omega)]
  simp

theorem foldl_set_replicate (f : ℕ → ℝ) (n : ℕ) :
    (List.range' 0 n).foldl (fun st i => st.set i (f i)) (List.replicate n (0:ℝ)) = (List.range n).map f :=
  foldl_set_range' f n _ (by simp)

theorem foldl_add_range' (g : ℕ → ℝ) (n : ℕ) (a : ℝ) :
    (List.range' 0 n).foldl (fun acc i => acc + g i) a = a + ∑ i ∈ range n, g i := by
  induction n with
  | zero => simp
  | succ n ih =>
    rw [List.range'_concat, List.foldl_append, ih]
    simp only [List.foldl_cons, List.foldl_nil, Nat.zero_add, Nat.one_mul, Finset.sum_range_succ]
    ring

theorem ite_set {c : Prop} [Decidable c] (l : List ℝ) (i : ℕ) (a b : ℝ) :
    (if c then l.set i a else l.set i b) = l.set i (if c then a else b) := by
  split <;> rfl

theorem RU_real : (RU : ℝ) = 8.31451 := by simp only [RU, Num.real_ofSci]; norm_num

/-- per-component a_i(T), b_i of the generated code, as index functions -/
theorem bk_list_getD (Tc Pc : List ℝ) (n i : ℕ) (hTc : Tc.length = n) (hPc : Pc.length = n) (hi : i < n) :
    (List.zipWith (fun x y => x / y) (List.map (fun y => (0.0778:ℝ) * 8.31451 * y) Tc) Pc).getD i 0
      = bk (ofL Tc i) (ofL Pc i) := by
  have h1 : (List.map (fun y => (0.0778:ℝ) * 8.31451 * y) Tc).length = n := by simp [hTc]
  rw [getD_zipWith _ _ n i h1 hPc hi, getD_map _ n i hTc hi]
  simp only [bk, ofL, RU_real, Num.real_ofSci]

theorem coefs_B_refines (T P : ℝ) (m M Pc Tc w : List ℝ) (δ A B G : List (List ℝ)) (cd : ℝ) (n : ℕ)
    (hm : m.length = n) (hM : M.length = n) (hPc : Pc.length = n) (hTc : Tc.length = n) :
    (EosFullPy.coefs T P m M Pc Tc w δ A B G cd).2.1
      = (TamocV.Model.Eos.coefs n T P (ofL m) (ofL M) (ofL Pc) (ofL Tc) (ofL w) false (ofM G) (ofM A) (ofM B) (ofM δ)).B := by
  simp only [EosFullPy.coefs, TamocV.Model.Eos.coefs, mix, sumN_eq, Nat.sub_zero, Num.real_ofSci, Num.real_sum]
  have hb : (List.zipWith (fun x y => x / y) (List.map (fun y => (0.0778:ℝ) * 8.31451 * y) Tc) Pc).length = n := by
    simp [hTc, hPc]
  have hy := mole_fraction_length m M n hm hM
  have hz : (List.zipWith (fun x y => x * y) (EosFullPy.mole_fraction m M)
      (List.zipWith (fun x y => x / y) (List.map (fun y => (0.0778:ℝ) * 8.31451 * y) Tc) Pc)).length = n := by
    simp [hy, hb]
  rw [list_sum_eq_range _ n hz, RU_real]
  congr 2
  apply Finset.sum_congr rfl
  intro i hi
  have hi' := mem_range.mp hi
  rw [getD_zipWith _ _ n i hy hb hi', mole_fraction_refines m M n i hm hM hi', bk_list_getD Tc Pc n i hTc hPc hi']

theorem range_getD (n i : ℕ) (hi : i < n) : (List.range n).getD i 0 = i := by
  simp [List.getD_eq_getElem?_getD, List.getElem?_range hi]

theorem getD_range_map (f : ℕ → ℝ) (n i : ℕ) (hi : i < n) : ((List.range n).map f).getD i 0 = f i := by
  have h1 : i < (List.range n).length := by simp [hi]
  simp [List.getD_eq_getElem?_getD, List.getElem?_map, List.getElem?_eq_getElem h1]

/-- the m(ω) loop of the generated code builds the list of `muOmega (ω_i)` -/
theorem mu_list_eq (w : List ℝ) (n : ℕ) :
    (List.range' 0 n).foldl (fun (st : List ℝ) (i : ℕ) =>
        if (0.49:ℝ) < w.getD i 0 then
          st.set i (0.379642 + 1.48503 * w.getD i 0 - 0.164423 * w.getD i 0 ^ 2 + 0.016666 * w.getD i 0 ^ 3)
        else st.set i (0.37464 + 1.54226 * w.getD i 0 - 0.26992 * w.getD i 0 ^ 2)) (List.replicate n (0:ℝ))
      = (List.range n).map (fun i => muOmega (w.getD i 0)) := by
  simp only [ite_set]
  rw [foldl_set_replicate]
  apply List.map_congr_left
  intro i _
  simp only [muOmega, Num.real_ofSci, Num.real_npow]

/-- the a_i(T) list of the generated code -/
noncomputable def aList (T : ℝ) (Pc Tc w : List ℝ) (n : ℕ) : List ℝ :=
  List.zipWith (fun x y => x * y)
    (List.zipWith (fun x y => x / y) (List.map (fun y => (0.45724:ℝ) * (8.31451:ℝ) ^ 2 * y) (List.map (fun x => x ^ 2) Tc)) Pc)
    (List.map (fun x => x ^ 2) (List.map (fun y => (1.0:ℝ) + y)
      (List.zipWith (fun x y => x * y) ((List.range n).map (fun i => muOmega (w.getD i 0)))
        (List.map (fun y => (1.0:ℝ) - y) (List.map (fun x => x ^ ((1.0:ℝ) / 2.0)) (List.map (fun y => T / y) Tc))))))

theorem aList_length (T : ℝ) (Pc Tc w : List ℝ) (n : ℕ) (hPc : Pc.length = n) (hTc : Tc.length = n) :
    (aList T Pc Tc w n).length = n := by
  simp [aList, hPc, hTc]

theorem aList_getD (T : ℝ) (Pc Tc w : List ℝ) (n i : ℕ) (hPc : Pc.length = n) (hTc : Tc.length = n) (hi : i < n) :
    (aList T Pc Tc w n).getD i 0 = aTk T (ofL Tc i) (ofL Pc i) (ofL w i) := by
  unfold aList
  have l1 : (List.map (fun x => x ^ 2) Tc).length = n := by simp [hTc]
  have l2 : (List.map (fun y => (0.45724:ℝ) * (8.31451:ℝ) ^ 2 * y) (List.map (fun x => x ^ 2) Tc)).length = n := by simp [hTc]
  have l3 : (List.zipWith (fun x y => x / y) (List.map (fun y => (0.45724:ℝ) * (8.31451:ℝ) ^ 2 * y) (List.map (fun x => x ^ 2) Tc)) Pc).length = n := by simp [hTc, hPc]
  have l4 : (List.map (fun y => T / y) Tc).length = n := by simp [hTc]
  have l5 : (List.map (fun x => x ^ ((1.0:ℝ) / 2.0)) (List.map (fun y => T / y) Tc)).length = n := by simp [hTc]
  have l6 : (List.map (fun y => (1.0:ℝ) - y) (List.map (fun x => x ^ ((1.0:ℝ) / 2.0)) (List.map (fun y => T / y) Tc))).length = n := by simp [hTc]
  have l7 : ((List.range n).map (fun i => muOmega (w.getD i 0))).length = n := by simp
  have l8 : (List.zipWith (fun x y => x * y) ((List.range n).map (fun i => muOmega (w.getD i 0)))
        (List.map (fun y => (1.0:ℝ) - y) (List.map (fun x => x ^ ((1.0:ℝ) / 2.0)) (List.map (fun y => T / y) Tc)))).length = n := by
    simp [hTc]
  have l9 : (List.map (fun y => (1.0:ℝ) + y) (List.zipWith (fun x y => x * y) ((List.range n).map (fun i => muOmega (w.getD i 0)))
        (List.map (fun y => (1.0:ℝ) - y) (List.map (fun x => x ^ ((1.0:ℝ) / 2.0)) (List.map (fun y => T / y) Tc))))).length = n := by
    simp [hTc]
  have l10 : (List.map (fun x => x ^ 2) (List.map (fun y => (1.0:ℝ) + y) (List.zipWith (fun x y => x * y) ((List.range n).map (fun i => muOmega (w.getD i 0)))
        (List.map (fun y => (1.0:ℝ) - y) (List.map (fun x => x ^ ((1.0:ℝ) / 2.0)) (List.map (fun y => T / y) Tc)))))).length = n := by
    simp [hTc]
  rw [getD_zipWith _ _ n i l3 l10 hi, getD_zipWith _ _ n i l2 hPc hi, getD_map _ n i l1 hi, getD_map _ n i hTc hi,
    getD_map _ n i l9 hi, getD_map _ n i l8 hi, getD_zipWith _ _ n i l7 l6 hi, getD_range_map _ n i hi,
    getD_map _ n i l5 hi, getD_map _ n i l4 hi, getD_map _ n i hTc hi]
  simp only [aTk, alphaT, ofL, RU_real, Num.real_ofSci, Num.real_npow, Num.real_rpow, Num.real_one, Num.real_ofNat]
  norm_num

theorem coefs_A_refines (T P : ℝ) (m M Pc Tc w : List ℝ) (δ A B G : List (List ℝ)) (cd : ℝ) (n : ℕ)
    (hm : m.length = n) (hM : M.length = n) (hPc : Pc.length = n) (hTc : Tc.length = n) (hcd : cd ≤ 0) :
    (EosFullPy.coefs T P m M Pc Tc w δ A B G cd).1
      = (TamocV.Model.Eos.coefs n T P (ofL m) (ofL M) (ofL Pc) (ofL Tc) (ofL w) false (ofM G) (ofM A) (ofM B) (ofM δ)).A := by
  have hnc : ¬ ((0:ℝ) < cd) := not_lt.mpr hcd
  subst hm
  simp only [EosFullPy.coefs, TamocV.Model.Eos.coefs, mix, sumN_eq, Nat.sub_zero, Num.real_ofSci, Num.real_sum,
    Num.real_npow, Num.real_rpow, Num.real_zero, Num.real_one, Num.real_ofNat, if_neg hnc, deltaUsed, Bool.false_and,
    Bool.false_eq_true, if_false, mu_list_eq, foldl_add_range']
  simp only [← aList.eq_1]
  rw [RU_real]
  have h00 : (0.0:ℝ) = 0 := by norm_num
  have h10 : (1.0:ℝ) = 1 := by norm_num
  have h20 : (2.0:ℝ) = 2 := by norm_num
  rw [h00, h10, h20, zero_add]
  congr 2
  apply Finset.sum_congr rfl
  intro j hj
  apply Finset.sum_congr rfl
  intro i hi
  have hi' := mem_range.mp hi
  have hj' := mem_range.mp hj
  rw [mole_fraction_refines m M _ i rfl hM hi', mole_fraction_refines m M _ j rfl hM hj',
    aList_getD T Pc Tc w _ i hPc hTc hi', aList_getD T Pc Tc w _ j hPc hTc hj']
  rfl

/-- the double loop for aT of the generated code is the double sum of the model -/
theorem aT_fold_eq (T : ℝ) (m M Pc Tc w : List ℝ) (δ : List (List ℝ))
    (hM : M.length = m.length) (hPc : Pc.length = m.length) (hTc : Tc.length = m.length) :
    (0:ℝ) + ∑ x ∈ range m.length, ∑ x_1 ∈ range m.length,
        (EosFullPy.mole_fraction m M).getD x_1 0 * (EosFullPy.mole_fraction m M).getD x 0 *
          ((aList T Pc Tc w m.length).getD x_1 0 * (aList T Pc Tc w m.length).getD x 0) ^ ((1:ℝ) / 2) *
          (1 - (δ.getD x_1 []).getD x 0)
      = ∑ j ∈ range m.length, ∑ i ∈ range m.length,
          moleFraction m.length (ofL m) (ofL M) i * moleFraction m.length (ofL m) (ofL M) j *
            (aTk T (ofL Tc i) (ofL Pc i) (ofL w i) * aTk T (ofL Tc j) (ofL Pc j) (ofL w j)) ^ ((1:ℝ) / 2) *
            (1 - ofM δ i j) := by
  rw [zero_add]
  apply Finset.sum_congr rfl
  intro j hj
  apply Finset.sum_congr rfl
  intro i hi
  have hi' := mem_range.mp hi
  have hj' := mem_range.mp hj
  rw [mole_fraction_refines m M _ i rfl hM hi', mole_fraction_refines m M _ j rfl hM hj',
    aList_getD T Pc Tc w _ i hPc hTc hi', aList_getD T Pc Tc w _ j hPc hTc hj']
  rfl

theorem col_getD (δ : List (List ℝ)) (n i j : ℕ) (hδ : δ.length = n) (hj : j < n) :
    ((δ.map fun r => r.getD i 0).map fun y => (1:ℝ) - y).getD j 0 = 1 - ofM δ j i := by
  have h1 : j < δ.length := by omega
  simp [List.getD_eq_getElem?_getD, List.getElem?_map, List.getElem?_eq_getElem h1, ofM]

/-- root selection of the regenerated `z_pr` IS the model's `selectZ` on the three roots the finder returned -/
theorem z_pr_select_refines (cr : List ℝ → List ℝ × List ℝ) (T P : ℝ) (m M Pc Tc w : List ℝ) (δ A B G : List (List ℝ)) (cd : ℝ)
    (r0 r1 r2 i0 i1 i2 : ℝ)
    (hcr : ∀ p, cr p = ([r0, r1, r2], [i0, i1, i2])) :
    let c := EosFullPy.coefs T P m M Pc Tc w δ A B G cd
    let z := (EosFullPy.z_pr cr T P m M Pc Tc w δ A B G cd).1
    let s := selectZ c.2.1 [(r0, i0), (r1, i1), (r2, i2)]
    z = [[s.1], [s.2]] := by
  intro c z s
  have h00 : (0.0:ℝ) = 0 := by norm_num
  simp only [z, s, c, EosFullPy.z_pr, hcr, selectZ, Num.real_zero, Num.real_ofSci]
  simp [List.range', List.foldl, h00]

theorem zipWith_div_map_mul (c : ℝ) (m M : List ℝ) :
    List.zipWith (fun x y => x / y) (m.map fun x => c * x) M = (List.zipWith (fun x y => x / y) m M).map fun x => c * x := by
  induction m generalizing M with
  | nil => simp
  | cons a as ih =>
    cases M with
    | nil => simp
    | cons b bs => simp [ih, mul_div_assoc]

theorem sum_map_mul (c : ℝ) (l : List ℝ) : (l.map fun x => c * x).sum = c * l.sum := by
  induction l with
  | nil => simp
  | cons a as ih => simp [ih, mul_add]

end TamocV.Lemmas.EosRefine
