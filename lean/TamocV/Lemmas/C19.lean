/-
  Helper lemmas for Props/C19:
    * closed form of the loops by which `dbm_p.coefs` writes the group-contribution interaction
      coefficients into the caller's matrix (`TamocV.Model.Purity19.writeAll`);
    * invariants of the `Blowout` flag machine over any sequence of update calls.
-/
import TamocV.Real
import TamocV.Lemmas.Basic
import TamocV.Lemmas.C09
import TamocV.Model.Blowout
import Mathlib.Tactic.NormNum

namespace TamocV.Lemmas.C19

-- ------------------------------------------------------------------ coefs: the matrix loops
section Coefs
open TamocV.Model.Purity19
variable {α : Type}

theorem set_apply (d : Mat α) (i j : Nat) (v : α) (a b : Nat) :
    (d.set i j v) a b = if a = i ∧ b = j then v else d a b := rfl

theorem writePair_apply (gc : Nat → Nat → α) (d : Mat α) (i j a b : Nat) (hij : i ≠ j) :
    writePair gc d i j a b =
      if a = i ∧ b = j then gc i j else if a = j ∧ b = i then gc i j else d a b := by
  unfold writePair
  simp only [set_apply]
  by_cases h1 : a = j ∧ b = i
  · obtain ⟨rfl, rfl⟩ := h1
    have : ¬ (a = b ∧ b = a) := fun h => hij h.1.symm
    simp [this]
  · simp only [h1, if_false]

/-- column `j`, rows `0 … i-1` written (i ≤ j) -/
theorem writeCol_apply (gc : Nat → Nat → α) (j : Nat) (d : Mat α) (i : Nat) (hi : i ≤ j) (a b : Nat) :
    writeCol gc j i d a b =
      if a < i ∧ b = j then gc a j else if b < i ∧ a = j then gc b j else d a b := by
  induction i with
  | zero => simp [writeCol]
  | succ i ih =>
    have hij : i ≠ j := by omega
    rw [writeCol, writePair_apply gc _ i j a b hij, ih (by omega)]
    by_cases h1 : a = i ∧ b = j
    · obtain ⟨rfl, rfl⟩ := h1
      simp
    · by_cases h2 : a = j ∧ b = i
      · obtain ⟨rfl, rfl⟩ := h2
        simp [h1]
        intro _ e; omega
      · simp only [h1, h2, if_false]
        have e1 : (a < i + 1 ∧ b = j) ↔ (a < i ∧ b = j) := by
          constructor
          · rintro ⟨h, rfl⟩; exact ⟨by have : a ≠ i := fun e => h1 ⟨e, rfl⟩; omega, rfl⟩
          · rintro ⟨h, rfl⟩; exact ⟨by omega, rfl⟩
        have e2 : (b < i + 1 ∧ a = j) ↔ (b < i ∧ a = j) := by
          constructor
          · rintro ⟨h, rfl⟩; exact ⟨by have : b ≠ i := fun e => h2 ⟨rfl, e⟩; omega, rfl⟩
          · rintro ⟨h, rfl⟩; exact ⟨by omega, rfl⟩
        simp only [e1, e2]

/-- **closed form of the double loop**: every off-diagonal entry with both indices below `nc` is
    overwritten by the (symmetrised) group-contribution value, every other entry is kept -/
theorem writeAll_apply (gc : Nat → Nat → α) (nc : Nat) (d : Mat α) (a b : Nat) :
    writeAll gc nc d a b =
      if a < b ∧ b < nc then gc a b else if b < a ∧ a < nc then gc b a else d a b := by
  induction nc with
  | zero => simp [writeAll]
  | succ n ih =>
    rw [writeAll, writeCol_apply gc n _ n (Nat.le_refl n), ih]
    by_cases h1 : a < n ∧ b = n
    · obtain ⟨h, rfl⟩ := h1
      have : a < b ∧ b < b + 1 := ⟨h, by omega⟩
      simp [h, this]
    · by_cases h2 : b < n ∧ a = n
      · obtain ⟨h, rfl⟩ := h2
        have h3 : ¬ (a < b ∧ b < a + 1) := by omega
        have h4 : b < a ∧ a < a + 1 := ⟨h, by omega⟩
        have h5 : ¬ (a < a ∧ b = a) := by omega
        simp [h, h4]
      · simp only [h1, h2, if_false]
        have e1 : (a < b ∧ b < n + 1) ↔ (a < b ∧ b < n) := by
          constructor
          · rintro ⟨h, h'⟩; exact ⟨h, by have : ¬ (b = n) := fun e => h1 ⟨by omega, e⟩; omega⟩
          · rintro ⟨h, h'⟩; exact ⟨h, by omega⟩
        have e2 : (b < a ∧ a < n + 1) ↔ (b < a ∧ a < n) := by
          constructor
          · rintro ⟨h, h'⟩; exact ⟨h, by have : ¬ (a = n) := fun e => h2 ⟨by omega, e⟩; omega⟩
          · rintro ⟨h, h'⟩; exact ⟨h, by omega⟩
        simp only [e1, e2]

/-- a second pass of the loops forgets the first one -/
theorem writeAll_absorb (g g' : Nat → Nat → α) (nc : Nat) (d : Mat α) :
    writeAll g nc (writeAll g' nc d) = writeAll g nc d := by
  funext a b
  simp only [writeAll_apply]
  split
  · rfl
  · split
    · rfl
    · simp

end Coefs

-- ------------------------------------------------------------------ Blowout: invariants over update sequences
section Blowout
open TamocV.Model.Blowout
variable {α O R : Type}

theorem foldl_p (rv : Bool) (s : State α O R) (ops : List (Op α)) : (ops.foldl (apply rv) s).p = final s.p ops := by
  induction ops generalizing s with
  | nil => rfl
  | cons op ops ih => simp only [List.foldl, final]; rw [ih]; rfl

theorem foldl_update_false (rv : Bool) (s : State α O R) (ops : List (Op α)) (h : ops ≠ [] ∨ s.update = false) :
    (ops.foldl (apply rv) s).update = false := by
  induction ops generalizing s with
  | nil => simpa using h
  | cons op ops ih => simp only [List.foldl]; exact ih _ (Or.inr rfl)

theorem foldl_qType (s : State α O R) (ops : List (Op α)) : (ops.foldl (apply false) s).qType = s.qType := by
  induction ops generalizing s with
  | nil => rfl
  | cons op ops ih => simp only [List.foldl]; rw [ih]; simp [apply]

theorem onParams_numOil (p : Params α) (op : Op α) (h : op.isNumOil = false) :
    (op.onParams p).numOil = p.numOil := by
  cases op <;> simp_all [Op.onParams, Op.isNumOil]

/-- repaired code: the flow-rate convention always matches the current parameters -/
theorem apply_qType_revisit (s : State α O R) (op : Op α) (h : s.qType = qTypeOf s.p) :
    (apply true s op).qType = qTypeOf (apply true s op).p := by
  unfold apply
  cases hn : op.isNumOil
  · simp only [Bool.and_false, Bool.false_eq_true, if_false]
    rw [h]; unfold qTypeOf; rw [onParams_numOil s.p op hn]
  · simp

theorem foldl_qType_revisit (s : State α O R) (ops : List (Op α)) (h : s.qType = qTypeOf s.p) :
    (ops.foldl (apply true) s).qType = qTypeOf (ops.foldl (apply true) s).p := by
  induction ops generalizing s with
  | nil => exact h
  | cons op ops ih => simp only [List.foldl]; exact ih _ (apply_qType_revisit s op h)

/-- the cached oil is the oil of the CURRENT parameters (under the object's q_type), or the
    `new_oil` flag is set -/
def OilOK (lib : Lib α O R) (s : State α O R) : Prop :=
  s.newOil = true ∨ s.oil = some (lib.getOil s.p.substance s.p.qOil s.p.gor s.p.ca s.qType)

theorem onParams_keeps (p : Params α) (op : Op α) (h : op.setsNewOil = false) :
    (op.onParams p).substance = p.substance ∧ (op.onParams p).qOil = p.qOil ∧
    (op.onParams p).gor = p.gor ∧ (op.onParams p).ca = p.ca := by
  cases op <;> simp_all [Op.onParams, Op.setsNewOil]

theorem apply_oilOK (rv : Bool) (lib : Lib α O R) (s : State α O R) (op : Op α) (h : OilOK lib s) :
    OilOK lib (apply rv s op) := by
  unfold OilOK apply at *
  cases hn : op.setsNewOil
  · obtain ⟨h1, h2, h3, h4⟩ := onParams_keeps s.p op hn
    simp only [h1, h2, h3, h4, Bool.or_false]
    by_cases hc : (rv && op.isNumOil) = true
    · by_cases hq : qTypeOf (op.onParams s.p) = s.qType
      · simp only [hc, if_true, hq]; simpa using h
      · left; simp [hc, hq]
    · simp only [hc]; simpa using h
  · simp

theorem foldl_oilOK (rv : Bool) (lib : Lib α O R) (s : State α O R) (ops : List (Op α)) (h : OilOK lib s) :
    OilOK lib (ops.foldl (apply rv) s) := by
  induction ops generalizing s with
  | nil => exact h
  | cons op ops ih => simp only [List.foldl]; exact ih _ (apply_oilOK rv lib s op h)

theorem construct_oilOK (lib : Lib α O R) (p : Params α) : OilOK lib (construct lib p) := by
  unfold OilOK construct doUpdate; simp

/-- the parameters used in the refreshed object -/
noncomputable def witnessParams : Params ℝ :=
  { z0 := 800, d0 := 1 / 5, substance := 0, qOil := 20000, gor := 500, x0 := 0, y0 := 0, u0 := 0,
    phi0 := 0, theta0 := 0, numGas := 3, numOil := 3, water := 0, current := 0, track := true,
    ca := 0, sizeDist := 0 }

/-- a library whose oil is the flow-rate convention it was built with -/
def witnessLib : Lib ℝ Nat Nat := { getOil := fun _ _ _ _ qt => qt, derive := fun _ _ _ _ _ _ _ _ o => o }

end Blowout

section Cache
open TamocV.Model.Particle09 TamocV.Lemmas.C09
variable {α : Type} [Num α]

/-- `Stable` for the state a query is asked at -/
def StableQ (lib : Lib Id α) (par : FluidPar α) (q : Query α) : Prop :=
  Stable lib par q.state.1 q.state.2.1 q.state.2.2

end Cache

end TamocV.Lemmas.C19
