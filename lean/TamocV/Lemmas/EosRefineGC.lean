/-
  Refinement of the hand EOS model by the REGENERATED code, GROUP-CONTRIBUTION branch (calc_delta > 0) — helper
  lemmas for TamocV/Props/C01GC.lean.

  `Gen.EosFullPy.coefs` fills the binary-interaction matrix in place:
      for j in 1..nc-1: for i in 0..j-1:  δ[i][j] := v i j ;  δ[j][i] := δ[i][j]
  (nested `List.foldl` over `List.range'`, `List.set` on rows).  Here:
    * `nested_fold_closed` — closed form of that loop for ANY value function `v` on an n × n list matrix: the result is
      `matOf n (fun a b => if a ≠ b then v (min a b) (max a b) else δ a b)` (invariants `inner_inv`, `outer_inv`
      over `List.set`; lengths preserved: `step_sq`);
    * `coefs_gc_eq` — hence the generated `coefs` with calc_delta > 0 equals the generated `coefs` with calc_delta = 0
      run on that matrix (`genDelta`; the NaN-skip `if ¬¬(t ≤ t)` is vacuous over ℝ, the 15 × 15 accumulation loops are sums);
    * `gcTerm_real`, `genV_eq`, `genDelta_eq` — `genDelta` is the model's `deltaUsed true` on the index range (the model's
      NaN guard excludes only `Aij k l = 0`, where the code's unguarded term is `… * 0 * … = 0` as well);
    * `mix_congr` — the mixing rules read δ only on the index range.
-/
import TamocV.Lemmas.EosRefine

set_option linter.unusedSimpArgs false
set_option linter.unusedVariables false

namespace TamocV.Lemmas.EosRefineGC
open Finset TamocV.Model.Eos TamocV.Lemmas.Eos TamocV.Lemmas.EosRefine TamocV.Gen

/-- an n × n matrix as a list of rows -/
def IsSq (n : ℕ) (R : List (List ℝ)) : Prop := R.length = n ∧ ∀ a, a < n → (R.getD a []).length = n

/-- the n × n matrix with entries `f a b` -/
def matOf (n : ℕ) (f : ℕ → ℕ → ℝ) : List (List ℝ) :=
  (List.range n).map fun a => (List.range n).map fun b => f a b

theorem getD_set_real (r : List ℝ) (j b : ℕ) (x : ℝ) :
    (r.set j x).getD b 0 = if b = j ∧ j < r.length then x else r.getD b 0 := by
  simp only [List.getD_eq_getElem?_getD, List.getElem?_set]
  by_cases h : j = b
  · subst h
    by_cases h2 : j < r.length
    · simp [h2]
    · simp [h2]
  · have : ¬ (b = j) := fun e => h e.symm
    simp [h, this]

theorem getD_set_row (R : List (List ℝ)) (i a : ℕ) (r : List ℝ) :
    (R.set i r).getD a [] = if a = i ∧ i < R.length then r else R.getD a [] := by
  simp only [List.getD_eq_getElem?_getD, List.getElem?_set]
  by_cases h : i = a
  · subst h
    by_cases h2 : i < R.length
    · simp [h2]
    · simp [h2]
  · have : ¬ (a = i) := fun e => h e.symm
    simp [h, this]

/-- one pass of the inner body: write `x` at (i,j), then copy it to (j,i) -/
def step (v : ℕ → ℕ → ℝ) (j : ℕ) (st : List (List ℝ)) (i : ℕ) : List (List ℝ) :=
  (st.set i ((st.getD i []).set j (v i j))).set j
     (((st.set i ((st.getD i []).set j (v i j))).getD j []).set i
        (((st.set i ((st.getD i []).set j (v i j))).getD i []).getD j 0))

theorem step_sq (v : ℕ → ℕ → ℝ) (n i j : ℕ) (st : List (List ℝ)) (h : IsSq n st) (hi : i < n) (hj : j < n) :
    IsSq n (step v j st i) := by
  obtain ⟨hl, hr⟩ := h
  refine ⟨by simp [step, hl], ?_⟩
  intro a ha
  have hri := hr i hi
  have hrj := hr j hj
  have hra := hr a ha
  simp only [step, getD_set_row, List.length_set]
  split_ifs <;> simp only [List.length_set, hri, hrj, hra]

theorem step_ofM (v : ℕ → ℕ → ℝ) (n i j : ℕ) (st : List (List ℝ)) (h : IsSq n st) (hi : i < n) (hj : j < n)
    (hij : i ≠ j) (a b : ℕ) :
    ofM (step v j st i) a b = if (a = i ∧ b = j) ∨ (a = j ∧ b = i) then v i j else ofM st a b := by
  obtain ⟨hl, hr⟩ := h
  have hri := hr i hi
  have hrj := hr j hj
  simp only [ofM, step, getD_set_row, getD_set_real, List.length_set, hl, hi, hj, and_true, if_true, hri, hrj,
    if_neg hij, if_neg (Ne.symm hij), if_pos rfl]
  by_cases ha : a = j
  · have hai : ¬ a = i := fun e => hij (e.symm.trans ha)
    simp only [if_pos ha, hai, false_and, false_or, true_and, getD_set_real, hrj, hi, and_true]
    simp [ha]
  · by_cases ha2 : a = i
    · simp only [if_neg ha, if_pos ha2, false_and, or_false, true_and, getD_set_real, hri, hj, and_true]
      simp [ha2, hij]
    · simp [ha, ha2]

/-- value at an unordered pair: `v lo hi` -/
def symv (v : ℕ → ℕ → ℝ) (a b : ℕ) : ℝ := if a < b then v a b else v b a

/-- invariant of the inner loop (column j, rows i < k) -/
theorem inner_inv (v : ℕ → ℕ → ℝ) (n j : ℕ) (st : List (List ℝ)) (h : IsSq n st) (hj : j < n) :
    ∀ k, k ≤ j → IsSq n ((List.range' 0 k).foldl (step v j) st) ∧
      ∀ a b, ofM ((List.range' 0 k).foldl (step v j) st) a b
        = if (a < k ∧ b = j) ∨ (a = j ∧ b < k) then symv v a b else ofM st a b := by
  intro k
  induction k with
  | zero => intro _; exact ⟨h, by intro a b; simp⟩
  | succ k ih =>
    intro hk
    obtain ⟨hsq, hof⟩ := ih (by omega)
    rw [List.range'_concat, List.foldl_append]
    simp only [List.foldl_cons, List.foldl_nil, Nat.zero_add, Nat.one_mul]
    have hkn : k < n := by omega
    have hkj : k ≠ j := by omega
    refine ⟨step_sq v n k j _ hsq hkn hj, ?_⟩
    intro a b
    rw [step_ofM v n k j _ hsq hkn hj hkj a b, hof a b]
    by_cases h1 : (a = k ∧ b = j) ∨ (a = j ∧ b = k)
    · rw [if_pos h1, if_pos (by omega)]
      rcases h1 with ⟨rfl, rfl⟩ | ⟨rfl, rfl⟩
      · simp only [symv]; rw [if_pos (by omega)]
      · simp only [symv]; rw [if_neg (by omega)]
    · rw [if_neg h1]
      by_cases h2 : (a < k ∧ b = j) ∨ (a = j ∧ b < k)
      · rw [if_pos h2, if_pos (by omega)]
      · rw [if_neg h2, if_neg (by omega)]

/-- invariant of the outer loop (columns 1 … c) -/
theorem outer_inv (v : ℕ → ℕ → ℝ) (n : ℕ) (δ : List (List ℝ)) (h : IsSq n δ) :
    ∀ c, c + 1 ≤ n → IsSq n ((List.range' 1 c).foldl (fun st j => (List.range' 0 j).foldl (step v j) st) δ) ∧
      ∀ a b, ofM ((List.range' 1 c).foldl (fun st j => (List.range' 0 j).foldl (step v j) st) δ) a b
        = if a ≠ b ∧ a < c + 1 ∧ b < c + 1 then symv v a b else ofM δ a b := by
  intro c
  induction c with
  | zero =>
    intro _
    refine ⟨h, ?_⟩
    intro a b
    rw [if_neg (by omega)]
    rfl
  | succ c ih =>
    intro hc
    obtain ⟨hsq, hof⟩ := ih (by omega)
    rw [List.range'_concat, List.foldl_append]
    simp only [List.foldl_cons, List.foldl_nil, Nat.one_mul]
    obtain ⟨hsq', hof'⟩ := inner_inv v n (1 + c) _ hsq (by omega) (1 + c) (le_refl _)
    refine ⟨hsq', ?_⟩
    intro a b
    rw [hof' a b, hof a b]
    by_cases h2 : (a < 1 + c ∧ b = 1 + c) ∨ (a = 1 + c ∧ b < 1 + c)
    · rw [if_pos h2, if_pos (by omega)]
    · rw [if_neg h2]
      by_cases h3 : a ≠ b ∧ a < c + 1 ∧ b < c + 1
      · rw [if_pos h3, if_pos (by omega)]
      · rw [if_neg h3, if_neg (by omega)]

theorem matOf_ofM (n : ℕ) (f : ℕ → ℕ → ℝ) (a b : ℕ) (ha : a < n) (hb : b < n) : ofM (matOf n f) a b = f a b := by
  simp [ofM, matOf, List.getD_eq_getElem?_getD, List.getElem?_map, List.getElem?_range ha, List.getElem?_range hb]

theorem matOf_length (n : ℕ) (f : ℕ → ℕ → ℝ) : (matOf n f).length = n := by simp [matOf]

theorem matOf_sq (n : ℕ) (f : ℕ → ℕ → ℝ) : IsSq n (matOf n f) := by
  refine ⟨matOf_length n f, ?_⟩
  intro a ha
  simp [matOf, List.getD_eq_getElem?_getD, List.getElem?_map, List.getElem?_range ha]

/-- a square matrix is determined by its entries -/
theorem sq_eq_matOf (n : ℕ) (R : List (List ℝ)) (h : IsSq n R) : R = matOf n (ofM R) := by
  obtain ⟨hl, hr⟩ := h
  apply List.ext_getElem
  · simp [matOf, hl]
  · intro a h1 h2
    have ha : a < n := by omega
    have hra := hr a ha
    simp only [List.getD_eq_getElem?_getD, List.getElem?_eq_getElem h1, Option.getD_some] at hra
    apply List.ext_getElem
    · simp [matOf, hra]
    · intro b h3 h4
      have hb : b < n := by omega
      simp [matOf, ofM, List.getD_eq_getElem?_getD, List.getElem?_eq_getElem h1, List.getElem?_eq_getElem h3]

theorem matOf_congr (n : ℕ) (f g : ℕ → ℕ → ℝ) (h : ∀ a b, a < n → b < n → f a b = g a b) : matOf n f = matOf n g := by
  unfold matOf
  apply List.map_congr_left
  intro a ha
  apply List.map_congr_left
  intro b hb
  exact h a b (List.mem_range.mp ha) (List.mem_range.mp hb)

/-- **closed form of the in-place double loop**: after `for j in 1..n-1: for i in 0..j-1: δ[i][j] = v i j; δ[j][i] = δ[i][j]`
    on an n × n matrix, every off-diagonal entry (a,b) holds `v (min a b) (max a b)`, the diagonal is the input's. -/
theorem nested_fold_closed (v : ℕ → ℕ → ℝ) (n : ℕ) (δ : List (List ℝ)) (h : IsSq n δ) :
    (List.range' 1 (n - 1)).foldl (fun st j => (List.range' 0 j).foldl (fun st i =>
        (st.set i ((st.getD i []).set j (v i j))).set j
          (((st.set i ((st.getD i []).set j (v i j))).getD j []).set i
            (((st.set i ((st.getD i []).set j (v i j))).getD i []).getD j 0))) st) δ
      = matOf n (fun a b => if a ≠ b then symv v a b else ofM δ a b) := by
  rcases Nat.eq_zero_or_pos n with h0 | hpos
  · subst h0
    have : δ = [] := List.eq_nil_of_length_eq_zero h.1
    subst this
    simp [matOf]
  · obtain ⟨hsq, hof⟩ := outer_inv v n δ h (n - 1) (by omega)
    have hfold : ((List.range' 1 (n - 1)).foldl (fun st j => (List.range' 0 j).foldl (fun st i =>
        (st.set i ((st.getD i []).set j (v i j))).set j
          (((st.set i ((st.getD i []).set j (v i j))).getD j []).set i
            (((st.set i ((st.getD i []).set j (v i j))).getD i []).getD j 0))) st) δ)
        = (List.range' 1 (n - 1)).foldl (fun st j => (List.range' 0 j).foldl (step v j) st) δ := rfl
    rw [hfold, sq_eq_matOf n _ hsq]
    apply matOf_congr
    intro a b ha hb
    rw [hof a b]
    by_cases hab : a ≠ b
    · rw [if_pos (by omega), if_pos hab]
    · rw [if_neg (by omega), if_neg hab]



/-- the b_i list of the generated code -/
noncomputable def bList (Tc Pc : List ℝ) : List ℝ :=
  List.zipWith (fun x y => x / y) (List.map (fun y => (0.0778:ℝ) * 8.31451 * y) Tc) Pc

/-- the value the generated code writes at (i,j), i < j (after the NaN-skip, which is vacuous over ℝ, and with the
    15 × 15 accumulation loops written as sums) -/
noncomputable def genV (T : ℝ) (Pc Tc w : List ℝ) (G A B : List (List ℝ)) (n : ℕ) : ℕ → ℕ → ℝ := fun i j =>
  (-(0.5 * (0.0 + ∑ l ∈ range 15, ∑ k ∈ range 15,
            ((G.getD i []).getD k 0 - (G.getD j []).getD k 0) * ((G.getD i []).getD l 0 - (G.getD j []).getD l 0) *
              (A.getD k []).getD l 0 * ((298.15:ℝ) / T) ^ ((B.getD k []).getD l 0 / (A.getD k []).getD l 0 - 1.0))
          + (√((aList T Pc Tc w n).getD i 0) / (bList Tc Pc).getD i 0
              - √((aList T Pc Tc w n).getD j 0) / (bList Tc Pc).getD j 0) ^ 2)
        / (2.0 * √((aList T Pc Tc w n).getD i 0 * (aList T Pc Tc w n).getD j 0)
            / ((bList Tc Pc).getD i 0 * (bList Tc Pc).getD j 0)))

/-- the δ matrix the generated code uses when calc_delta > 0 -/
noncomputable def genDelta (T : ℝ) (Pc Tc w : List ℝ) (G A B δ : List (List ℝ)) (n : ℕ) : ℕ → ℕ → ℝ :=
  fun a b => if a ≠ b then symv (genV T Pc Tc w G A B n) a b else ofM δ a b

theorem gen_fold_closed (T : ℝ) (Pc Tc w : List ℝ) (G A B δ : List (List ℝ)) (n : ℕ) (h : IsSq n δ) :
    (List.range' 1 (n - 1)).foldl (fun st j => (List.range' 0 j).foldl (fun st i =>
        (st.set i ((st.getD i []).set j (-(0.5 * (0.0 + ∑ l ∈ range 15, ∑ k ∈ range 15,
          ((G.getD i []).getD k 0 - (G.getD j []).getD k 0) * ((G.getD i []).getD l 0 - (G.getD j []).getD l 0) *
            (A.getD k []).getD l 0 * ((298.15:ℝ) / T) ^ ((B.getD k []).getD l 0 / (A.getD k []).getD l 0 - 1.0))
        + (√((aList T Pc Tc w n).getD i 0) / (bList Tc Pc).getD i 0
            - √((aList T Pc Tc w n).getD j 0) / (bList Tc Pc).getD j 0) ^ 2)
      / (2.0 * √((aList T Pc Tc w n).getD i 0 * (aList T Pc Tc w n).getD j 0)
          / ((bList Tc Pc).getD i 0 * (bList Tc Pc).getD j 0))))).set j
          (((st.set i ((st.getD i []).set j (-(0.5 * (0.0 + ∑ l ∈ range 15, ∑ k ∈ range 15,
          ((G.getD i []).getD k 0 - (G.getD j []).getD k 0) * ((G.getD i []).getD l 0 - (G.getD j []).getD l 0) *
            (A.getD k []).getD l 0 * ((298.15:ℝ) / T) ^ ((B.getD k []).getD l 0 / (A.getD k []).getD l 0 - 1.0))
        + (√((aList T Pc Tc w n).getD i 0) / (bList Tc Pc).getD i 0
            - √((aList T Pc Tc w n).getD j 0) / (bList Tc Pc).getD j 0) ^ 2)
      / (2.0 * √((aList T Pc Tc w n).getD i 0 * (aList T Pc Tc w n).getD j 0)
          / ((bList Tc Pc).getD i 0 * (bList Tc Pc).getD j 0))))).getD j []).set i
            (((st.set i ((st.getD i []).set j (-(0.5 * (0.0 + ∑ l ∈ range 15, ∑ k ∈ range 15,
          ((G.getD i []).getD k 0 - (G.getD j []).getD k 0) * ((G.getD i []).getD l 0 - (G.getD j []).getD l 0) *
            (A.getD k []).getD l 0 * ((298.15:ℝ) / T) ^ ((B.getD k []).getD l 0 / (A.getD k []).getD l 0 - 1.0))
        + (√((aList T Pc Tc w n).getD i 0) / (bList Tc Pc).getD i 0
            - √((aList T Pc Tc w n).getD j 0) / (bList Tc Pc).getD j 0) ^ 2)
      / (2.0 * √((aList T Pc Tc w n).getD i 0 * (aList T Pc Tc w n).getD j 0)
          / ((bList Tc Pc).getD i 0 * (bList Tc Pc).getD j 0))))).getD i []).getD j 0))) st) δ
      = matOf n (genDelta T Pc Tc w G A B δ n) :=
  nested_fold_closed (genV T Pc Tc w G A B n) n δ h

/-- with group contributions on, the generated `coefs` is the generated `coefs` with group contributions off, run on
    the matrix `genDelta` -/
theorem coefs_gc_eq (T P : ℝ) (m M Pc Tc w : List ℝ) (δ A B G : List (List ℝ)) (cd : ℝ) (n : ℕ)
    (hm : m.length = n) (hcd : 0 < cd) (hδ : IsSq n δ) :
    EosFullPy.coefs T P m M Pc Tc w δ A B G cd
      = EosFullPy.coefs T P m M Pc Tc w (matOf n (genDelta T Pc Tc w G A B δ n)) A B G 0 := by
  subst hm
  simp only [EosFullPy.coefs, Nat.sub_zero, Num.real_ofSci, Num.real_sum,
    Num.real_npow, Num.real_rpow, Num.real_sqrt, Num.real_zero, Num.real_one, Num.real_ofNat, if_pos hcd, lt_irrefl, if_false,
    not_not, le_refl, if_true, mu_list_eq, foldl_add_range']
  simp only [← aList.eq_1, ← bList.eq_1]
  rw [gen_fold_closed T Pc Tc w G A B δ m.length hδ]


theorem isSq_of_rows (n : ℕ) (δ : List (List ℝ)) (hδ : δ.length = n) (hr : ∀ r ∈ δ, r.length = n) : IsSq n δ := by
  refine ⟨hδ, ?_⟩
  intro a ha
  have h1 : a < δ.length := by omega
  rw [List.getD_eq_getElem?_getD, List.getElem?_eq_getElem h1, Option.getD_some]
  exact hr _ (List.getElem_mem h1)

/-- over ℝ the model's NaN guard only excludes `Aij k l = 0`, where the unguarded term of the code is `… * 0 * … = 0` too -/
theorem gcTerm_real (T : ℝ) (gi gj : ℕ → ℝ) (A B : ℕ → ℕ → ℝ) (k l : ℕ) :
    gcTerm T gi gj A B k l = (gi k - gj k) * (gi l - gj l) * A k l * ((298.15:ℝ) / T) ^ (B k l / A k l - 1) := by
  unfold gcTerm
  simp only [Num.real_zero, Num.real_one, Num.real_rpow, Num.real_ofSci]
  split_ifs with h
  · rfl
  · have hA : A k l = 0 := by
      by_contra hne
      exact h ⟨lt_or_gt_of_ne hne, le_total _ _⟩
    rw [hA]
    simp

theorem genV_eq (T : ℝ) (Pc Tc w : List ℝ) (G A B : List (List ℝ)) (n i j : ℕ)
    (hPc : Pc.length = n) (hTc : Tc.length = n) (hi : i < n) (hj : j < n) :
    genV T Pc Tc w G A B n i j
      = deltaGC T (aTk T (ofL Tc i) (ofL Pc i) (ofL w i)) (aTk T (ofL Tc j) (ofL Pc j) (ofL w j))
          (bk (ofL Tc i) (ofL Pc i)) (bk (ofL Tc j) (ofL Pc j)) (ofM G i) (ofM G j) (ofM A) (ofM B) := by
  unfold genV bList
  rw [aList_getD T Pc Tc w n i hPc hTc hi, aList_getD T Pc Tc w n j hPc hTc hj,
    bk_list_getD Tc Pc n i hTc hPc hi, bk_list_getD Tc Pc n j hTc hPc hj]
  simp only [deltaGC, sumN_eq, gcTerm_real, Num.real_npow, Num.real_sqrt, Num.real_ofNat, Num.real_ofSci, ofM]
  have h00 : (0.0:ℝ) = 0 := by norm_num
  have h10 : (1.0:ℝ) = 1 := by norm_num
  have h20 : (2.0:ℝ) = 2 := by norm_num
  rw [h00, h10, h20, zero_add]

/-- the matrix used by the generated code is the model's `deltaUsed true` (on the index range) -/
theorem genDelta_eq (T : ℝ) (Pc Tc w : List ℝ) (G A B δ : List (List ℝ)) (n i j : ℕ)
    (hPc : Pc.length = n) (hTc : Tc.length = n) (hi : i < n) (hj : j < n) :
    genDelta T Pc Tc w G A B δ n i j
      = deltaUsed true T (fun i => aTk T (ofL Tc i) (ofL Pc i) (ofL w i)) (fun i => bk (ofL Tc i) (ofL Pc i))
          (ofM G) (ofM A) (ofM B) (ofM δ) i j := by
  unfold genDelta deltaUsed symv
  by_cases hij : i = j
  · subst hij; simp
  · rw [if_pos hij]
    have : (true && i != j) = true := by simp [hij]
    rw [if_pos this]
    by_cases hlt : i < j
    · simp only [if_pos hlt]
      exact genV_eq T Pc Tc w G A B n i j hPc hTc hi hj
    · simp only [if_neg hlt]
      exact genV_eq T Pc Tc w G A B n j i hPc hTc hj hi

/-- the mixing rules only read δ on the index range -/
theorem mix_congr (n : ℕ) (T P : ℝ) (y a b : ℕ → ℝ) (δ1 δ2 : ℕ → ℕ → ℝ)
    (h : ∀ i j, i < n → j < n → δ1 i j = δ2 i j) :
    (mix n T P y a b δ1).A = (mix n T P y a b δ2).A ∧ (mix n T P y a b δ1).B = (mix n T P y a b δ2).B ∧
      (∀ i, i < n → (mix n T P y a b δ1).Ap i = (mix n T P y a b δ2).Ap i) ∧
      (∀ i, (mix n T P y a b δ1).Bp i = (mix n T P y a b δ2).Bp i) ∧
      (∀ i, (mix n T P y a b δ1).yk i = (mix n T P y a b δ2).yk i) := by
  have haT : ∑ j ∈ range n, ∑ i ∈ range n, y i * y j * (a i * a j) ^ ((1:ℝ) / 2) * (1 - δ1 i j)
      = ∑ j ∈ range n, ∑ i ∈ range n, y i * y j * (a i * a j) ^ ((1:ℝ) / 2) * (1 - δ2 i j) := by
    apply Finset.sum_congr rfl
    intro j hj
    apply Finset.sum_congr rfl
    intro i hi
    rw [h i j (mem_range.mp hi) (mem_range.mp hj)]
  simp only [mix, sumN_eq, Num.real_rpow, Num.real_one, Num.real_ofNat, Num.real_npow]
  refine ⟨by rw [haT], trivial, ?_, fun _ => trivial, fun _ => trivial⟩
  intro i hi
  rw [haT]
  congr 2
  apply Finset.sum_congr rfl
  intro j hj
  rw [h j i (mem_range.mp hj) hi]

end TamocV.Lemmas.EosRefineGC
