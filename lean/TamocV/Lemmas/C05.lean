/-
  Helper lemmas for C05: list primitives of `TamocV.Model.Sbm` at ℝ.
-/
import TamocV.Real
import TamocV.Lemmas.Basic
import TamocV.Lemmas.C17
import TamocV.Model.Sbm
import Mathlib.Tactic.Ring
import Mathlib.Tactic.NormNum
import Mathlib.Tactic.FieldSimp
import Mathlib.Tactic.Linarith
import Mathlib.Tactic.Positivity

namespace TamocV.Lemmas.C05
open TamocV TamocV.Model TamocV.Model.Sbm

-- ---------------------------------------------------------------- state vector slicing

theorem masses_append (a b : List ℝ) (c : ℝ) (ha : a.length = 3) :
    masses (a ++ b ++ [c]) = b := by
  unfold masses
  rw [List.append_assoc, List.drop_append_of_le_length (by omega)]
  have : List.drop 3 a = [] := List.drop_eq_nil_of_le (by omega)
  rw [this, List.nil_append, List.dropLast_concat]

theorem heat_append (a : List ℝ) (c : ℝ) : heat (a ++ [c]) = c := by
  simp [heat]

theorem take3_append (a b : List ℝ) (ha : a.length = 3) : (a ++ b).take 3 = a := by
  rw [List.take_append_of_le_length (by omega), List.take_of_length_le (by omega)]

theorem depth_append (a b : List ℝ) (ha : a.length = 3) : depth (a ++ b) = depth a := by
  unfold depth
  rw [List.getD_eq_getElem?_getD, List.getD_eq_getElem?_getD, List.getElem?_append_left (by omega)]

/-- a state vector of length ≥ 4 is position ++ masses ++ [heat] -/
theorem split_state (y : List ℝ) (h : 4 ≤ y.length) :
    y = y.take 3 ++ masses y ++ [heat y] := by
  unfold masses heat
  simp only [Num.real_zero]
  have hne : y.drop 3 ≠ [] := by
    intro hn
    have := congrArg List.length hn
    simp at this; omega
  have h1 : (y.drop 3).dropLast ++ [(y.drop 3).getLast hne] = y.drop 3 := List.dropLast_append_getLast hne
  have h2 : y.getLastD 0 = (y.drop 3).getLast hne := by
    have hy : y ≠ [] := by intro hn; simp [hn] at h
    rw [List.getLastD_eq_getLast?, List.getLast?_eq_getLast_of_ne_nil hy, Option.getD_some]
    exact (List.getLast_drop hne).symm
  rw [h2, List.append_assoc, h1, List.take_append_drop]

theorem take3_length (y : List ℝ) (h : 4 ≤ y.length) : (y.take 3).length = 3 := by
  rw [List.length_take]; omega

theorem masses_clipMasses (y : List ℝ) (h : 4 ≤ y.length) :
    masses (clipMasses y) = Particle17.clip (masses y) := by
  unfold clipMasses
  exact masses_append _ _ _ (take3_length y h)

theorem clipMasses_length (y : List ℝ) (h : 4 ≤ y.length) : (clipMasses y).length = y.length := by
  have hs := congrArg List.length (split_state y h)
  unfold clipMasses
  simp only [List.length_append, C17.clip_length, List.length_cons, List.length_nil] at hs ⊢
  omega

theorem heatReset_length (KT cp Ta : ℝ) (y : List ℝ) (h : 4 ≤ y.length) :
    (heatReset KT cp Ta y).length = y.length := by
  unfold heatReset
  split
  · simp; omega
  · rfl

theorem masses_heatReset (KT cp Ta : ℝ) (y : List ℝ) (h : 4 ≤ y.length) :
    masses (heatReset KT cp Ta y) = masses y := by
  unfold heatReset
  split
  · have hs := split_state y h
    have hd : y.dropLast = y.take 3 ++ masses y := by
      conv_lhs => rw [hs]
      rw [List.dropLast_concat]
    rw [hd]
    exact masses_append _ _ _ (take3_length y h)
  · rfl

theorem depth_clipMasses (y : List ℝ) (h : 4 ≤ y.length) : depth (clipMasses y) = depth y := by
  unfold clipMasses
  rw [List.append_assoc, depth_append _ _ (take3_length y h)]
  unfold depth
  rw [List.getD_eq_getElem?_getD, List.getD_eq_getElem?_getD, List.getElem?_take]
  simp

theorem depth_heatReset (KT cp Ta : ℝ) (y : List ℝ) (h : 4 ≤ y.length) :
    depth (heatReset KT cp Ta y) = depth y := by
  unfold heatReset
  split
  · have hs := split_state y h
    have hd : y.dropLast = y.take 3 ++ masses y := by
      conv_lhs => rw [hs]
      rw [List.dropLast_concat]
    rw [hd, List.append_assoc, depth_append _ _ (take3_length y h)]
    conv_rhs => rw [hs, List.append_assoc, depth_append _ _ (take3_length y h)]
  · rfl

theorem heat_clipMasses (y : List ℝ) : heat (clipMasses y) = heat y := by
  unfold clipMasses
  exact heat_append _ _

-- ---------------------------------------------------------------- right-hand side

theorem diss3_mem (A : ℝ) (b s c : List ℝ) (x : ℝ) (hx : x ∈ diss3 A b s c) :
    ∃ bi ∈ b, ∃ si ∈ s, ∃ ci ∈ c, x = -A * bi * (si - ci) := by
  induction b generalizing s c with
  | nil => simp [diss3] at hx
  | cons b0 bs ih =>
    cases s with
    | nil => simp [diss3] at hx
    | cons s0 ss =>
      cases c with
      | nil => simp [diss3] at hx
      | cons c0 cs =>
        simp only [diss3, List.mem_cons] at hx
        rcases hx with h | h
        · exact ⟨b0, by simp, s0, by simp, c0, by simp, h⟩
        · obtain ⟨bi, hb, si, hs, ci, hc, e⟩ := ih ss cs h
          exact ⟨bi, by simp [hb], si, by simp [hs], ci, by simp [hc], e⟩

theorem mdBio_mem (kbio m : List ℝ) (x : ℝ) (hx : x ∈ mdBio kbio m) :
    ∃ k ∈ kbio, ∃ mi ∈ m, x = -k * mi := by
  induction kbio generalizing m with
  | nil => simp [mdBio] at hx
  | cons k ks ih =>
    cases m with
    | nil => simp [mdBio] at hx
    | cons m0 ms =>
      simp only [mdBio, List.zipWith_cons_cons, List.mem_cons] at hx
      rcases hx with h | h
      · exact ⟨k, by simp, m0, by simp, h⟩
      · obtain ⟨k', hk, mi, hm, e⟩ := ih ms h
        exact ⟨k', by simp [hk], mi, by simp [hm], e⟩

theorem vadd_mem (a b : List ℝ) (x : ℝ) (hx : x ∈ Num.vadd a b) :
    ∃ ai ∈ a, ∃ bi ∈ b, x = ai + bi := by
  induction a generalizing b with
  | nil => simp [Num.vadd] at hx
  | cons a0 as ih =>
    cases b with
    | nil => simp [Num.vadd] at hx
    | cons b0 bs =>
      simp only [Num.vadd, List.zipWith_cons_cons, List.mem_cons] at hx
      rcases hx with h | h
      · exact ⟨a0, by simp, b0, by simp, h⟩
      · obtain ⟨ai, ha, bi, hb, e⟩ := ih bs h
        exact ⟨ai, by simp [ha], bi, by simp [hb], e⟩

theorem diss3_length (A : ℝ) (b s c : List ℝ) :
    (diss3 A b s c).length = min b.length (min s.length c.length) := by
  induction b generalizing s c with
  | nil => simp [diss3]
  | cons b0 bs ih =>
    cases s with
    | nil => simp [diss3]
    | cons s0 ss =>
      cases c with
      | nil => simp [diss3]
      | cons c0 cs => simp [diss3, ih, Nat.succ_min_succ]

-- ---------------------------------------------------------------- masses_by_diameter

theorem vmul_scaled_sum (a b : ℝ) (yk M : List ℝ) :
    (Num.vmul (yk.map fun y => y * a / b) M).sum = a / b * (Num.vmul yk M).sum := by
  induction yk generalizing M with
  | nil => simp [Num.vmul]
  | cons y ys ih =>
    cases M with
    | nil => simp [Num.vmul]
    | cons m ms =>
      have := ih ms
      simp only [Num.vmul, List.map_cons, List.zipWith_cons_cons, List.sum_cons] at this ⊢
      rw [this]; ring

theorem vmul_scaled (a b : ℝ) (yk M : List ℝ) :
    Num.vmul (yk.map fun y => y * a / b) M = (Num.vmul yk M).map fun v => v * (a / b) := by
  induction yk generalizing M with
  | nil => simp [Num.vmul]
  | cons y ys ih =>
    cases M with
    | nil => simp [Num.vmul]
    | cons m ms =>
      have := ih ms
      simp only [Num.vmul, List.map_cons, List.zipWith_cons_cons] at this ⊢
      rw [this]
      congr 1
      ring

end TamocV.Lemmas.C05
