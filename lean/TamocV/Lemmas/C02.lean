/-
  Helper lemmas for C02 (Flash): invariants of the Rachford–Rice iteration, the bounds
  (7)/(8), algebra of the rows, scatter/gather of zero components, back-conversion.
  Everything is about `TamocV.Model.Flash` at `α := ℝ`.
-/
import TamocV.Real
import TamocV.Lemmas.Basic
import TamocV.Model.Flash
import Mathlib.Tactic.Ring
import Mathlib.Tactic.Linarith
import Mathlib.Tactic.NormNum
import Mathlib.Tactic.FieldSimp
import Mathlib.Tactic.Positivity

namespace TamocV.Lemmas.C02
open TamocV TamocV.Model.Flash

def Inv (lo hi : ℝ) (s : RRState ℝ) : Prop :=
  lo ≤ s.bmin ∧ s.bmin ≤ s.bvar ∧ s.bvar ≤ s.bmax ∧ s.bmax ≤ hi

/-- weak invariant: everything stays in [0,1] (needs no ordering of the two bounds) -/
def WInv (s : RRState ℝ) : Prop :=
  0 ≤ s.bmin ∧ s.bmin ≤ 1 ∧ 0 ≤ s.bmax ∧ s.bmax ≤ 1 ∧ 0 ≤ s.bvar ∧ s.bvar ≤ 1

theorem rrStep_inv (z K : List ℝ) (gf : Bool) (lo hi : ℝ) (s : RRState ℝ) (h : Inv lo hi s) :
    Inv lo hi (rrStep z K gf s).1 := by
  obtain ⟨h1, h2, h3, h4⟩ := h
  unfold rrStep Inv
  simp only [Num.real_ofSci, Num.real_zero]
  cases gf <;> simp only [if_true, if_false, Bool.false_eq_true] <;> split_ifs <;>
    (refine ⟨?_, ?_, ?_, ?_⟩ <;> norm_num <;> linarith)

theorem rrStep_winv (z K : List ℝ) (gf : Bool) (s : RRState ℝ) (h : WInv s) :
    WInv (rrStep z K gf s).1 := by
  obtain ⟨h1, h2, h3, h4, h5, h6⟩ := h
  unfold rrStep WInv
  simp only [Num.real_ofSci, Num.real_zero]
  cases gf <;> simp only [if_true, if_false, Bool.false_eq_true] <;> split_ifs <;>
    (refine ⟨?_, ?_, ?_, ?_, ?_, ?_⟩ <;> norm_num <;> linarith)

theorem rrLoop_inv (z K : List ℝ) (gf : Bool) (lo hi : ℝ) :
    ∀ (fuel : Nat) (s : RRState ℝ) (tr : List ℝ), Inv lo hi s → Inv lo hi (rrLoop z K gf fuel s tr).1 := by
  intro fuel
  induction fuel with
  | zero => intro s tr h; simpa [rrLoop] using h
  | succ n ih =>
    intro s tr h
    have hs := rrStep_inv z K gf lo hi s h
    unfold rrLoop
    simp only []
    split_ifs
    · exact ih _ _ hs
    · exact hs

theorem rrLoop_winv (z K : List ℝ) (gf : Bool) :
    ∀ (fuel : Nat) (s : RRState ℝ) (tr : List ℝ), WInv s → WInv (rrLoop z K gf fuel s tr).1 := by
  intro fuel
  induction fuel with
  | zero => intro s tr h; simpa [rrLoop] using h
  | succ n ih =>
    intro s tr h
    have hs := rrStep_winv z K gf s h
    unfold rrLoop
    simp only []
    split_ifs
    · exact ih _ _ hs
    · exact hs

/-! bounds -/

theorem boundsStep_mono (acc p : ℝ × ℝ) : acc.1 ≤ (boundsStep acc p).1 ∧ (boundsStep acc p).2 ≤ acc.2 := by
  unfold boundsStep
  simp only [Num.real_one, Num.real_max, Num.real_min]
  split_ifs
  · exact ⟨le_max_left _ _, le_refl _⟩
  · exact ⟨le_refl _, min_le_left _ _⟩

theorem bounds_fold_mono (l : List (ℝ × ℝ)) : ∀ acc : ℝ × ℝ,
    acc.1 ≤ (l.foldl boundsStep acc).1 ∧ (l.foldl boundsStep acc).2 ≤ acc.2 := by
  induction l with
  | nil => intro acc; simp
  | cons p ps ih =>
    intro acc
    simp only [List.foldl_cons]
    have h1 := boundsStep_mono acc p
    have h2 := ih (boundsStep acc p)
    exact ⟨le_trans h1.1 h2.1, le_trans h2.2 h1.2⟩

/-- candidate of eq. (7) -/
noncomputable def cmin (p : ℝ × ℝ) : ℝ := (p.2 * p.1 - 1) / (p.2 - 1)
/-- candidate of eq. (8) -/
noncomputable def cmax (p : ℝ × ℝ) : ℝ := (1 - p.1) / (1 - p.2)

theorem boundsStep_eq (acc p : ℝ × ℝ) :
    boundsStep acc p = if 1 ≤ p.2 then (max acc.1 (cmin p), acc.2) else (acc.1, min acc.2 (cmax p)) := by
  unfold boundsStep cmin cmax
  simp only [Num.real_one, Num.real_max, Num.real_min]

/-- every candidate is respected by the final bounds -/
theorem bounds_fold_cand (l : List (ℝ × ℝ)) : ∀ acc : ℝ × ℝ, ∀ p ∈ l,
    (1 ≤ p.2 → cmin p ≤ (l.foldl boundsStep acc).1) ∧ (p.2 < 1 → (l.foldl boundsStep acc).2 ≤ cmax p) := by
  induction l with
  | nil => intro acc p hp; simp at hp
  | cons q qs ih =>
    intro acc p hp
    simp only [List.foldl_cons]
    rcases List.mem_cons.mp hp with rfl | hp'
    · have hm := bounds_fold_mono qs (boundsStep acc p)
      constructor
      · intro hk
        refine le_trans ?_ hm.1
        rw [boundsStep_eq, if_pos hk]
        exact le_max_right _ _
      · intro hk
        refine le_trans hm.2 ?_
        rw [boundsStep_eq, if_neg (not_le.mpr hk)]
        exact min_le_right _ _
    · exact ih _ p hp'

/-- the final bounds are the start values or one of the candidates -/
theorem bounds_fold_is_cand (l : List (ℝ × ℝ)) : ∀ acc : ℝ × ℝ,
    ((l.foldl boundsStep acc).1 = acc.1 ∨ ∃ p ∈ l, 1 ≤ p.2 ∧ (l.foldl boundsStep acc).1 = cmin p) ∧
    ((l.foldl boundsStep acc).2 = acc.2 ∨ ∃ p ∈ l, p.2 < 1 ∧ (l.foldl boundsStep acc).2 = cmax p) := by
  induction l with
  | nil => intro acc; simp
  | cons q qs ih =>
    intro acc
    simp only [List.foldl_cons]
    obtain ⟨h1, h2⟩ := ih (boundsStep acc q)
    constructor
    · rcases h1 with h1 | ⟨p, hp, hk, he⟩
      · rw [h1, boundsStep_eq]
        split_ifs with hq
        · rcases max_choice acc.1 (cmin q) with hc | hc
          · left; simpa using hc
          · right; exact ⟨q, List.mem_cons_self, hq, by simpa using hc⟩
        · left; rfl
      · right; exact ⟨p, List.mem_cons_of_mem _ hp, hk, he⟩
    · rcases h2 with h2 | ⟨p, hp, hk, he⟩
      · rw [h2, boundsStep_eq]
        split_ifs with hq
        · left; rfl
        · rcases min_choice acc.2 (cmax q) with hc | hc
          · left; simpa using hc
          · right; exact ⟨q, List.mem_cons_self, not_le.mp hq, by simpa using hc⟩
      · right; exact ⟨p, List.mem_cons_of_mem _ hp, hk, he⟩

theorem cmin_le_one (p : ℝ × ℝ) (hz : p.1 ≤ 1) (hk : 1 ≤ p.2) : cmin p ≤ 1 := by
  unfold cmin
  rcases eq_or_lt_of_le hk with h | h
  · rw [← h]; simp
  · rw [div_le_one (by linarith)]
    nlinarith

theorem cmax_nonneg (p : ℝ × ℝ) (hz : p.1 ≤ 1) (hk : p.2 < 1) : 0 ≤ cmax p := by
  unfold cmax
  exact div_nonneg (by linarith) (by linarith)

/-- (7) ≤ (8) for two different components of a composition -/
theorem cmin_le_cmax (p q : ℝ × ℝ) (hp : 1 ≤ p.2) (hq : q.2 < 1) (hq0 : 0 ≤ q.2)
    (hzp : 0 ≤ p.1) (hzq : 0 ≤ q.1) (hsum : p.1 + q.1 ≤ 1) : cmin p ≤ cmax q := by
  unfold cmin cmax
  rcases eq_or_lt_of_le hp with h | h
  · rw [← h]; simp
    exact div_nonneg (by linarith) (by linarith)
  · rw [div_le_div_iff₀ (by linarith) (by linarith)]
    have ha : p.1 ≤ 1 - q.1 := by linarith
    by_cases hc : p.2 * (1 - q.1) ≤ 1
    · nlinarith [mul_nonneg (sub_nonneg.mpr (le_of_lt hq)) (sub_nonneg.mpr hc), mul_nonneg (sub_nonneg.mpr ha) (mul_nonneg (le_of_lt (lt_of_lt_of_le one_pos hp)) (sub_nonneg.mpr (le_of_lt hq)))]
    · rw [not_le] at hc
      nlinarith [mul_nonneg hq0 (le_of_lt (sub_pos.mpr hc)), mul_nonneg (sub_nonneg.mpr ha) (mul_nonneg (le_of_lt (lt_of_lt_of_le one_pos hp)) (sub_nonneg.mpr (le_of_lt hq)))]

theorem fst_le_sum (l : List (ℝ × ℝ)) (h0 : ∀ p ∈ l, 0 ≤ p.1) : ∀ p ∈ l, p.1 ≤ (l.map Prod.fst).sum := by
  induction l with
  | nil => intro p hp; simp at hp
  | cons x xs ih =>
    intro p hp
    have hx : 0 ≤ x.1 := h0 x List.mem_cons_self
    have hs : 0 ≤ (xs.map Prod.fst).sum := List.sum_nonneg (by
      intro a ha; obtain ⟨q, hq, rfl⟩ := List.mem_map.mp ha; exact h0 q (List.mem_cons_of_mem _ hq))
    simp only [List.map_cons, List.sum_cons]
    rcases List.mem_cons.mp hp with rfl | hp'
    · linarith
    · have := ih (fun q hq => h0 q (List.mem_cons_of_mem _ hq)) p hp'
      linarith

/-- two different entries of a non-negative list: their sum is at most the total -/
theorem pair_le_sum (l : List (ℝ × ℝ)) (h0 : ∀ p ∈ l, 0 ≤ p.1) :
    ∀ p ∈ l, ∀ q ∈ l, p ≠ q → p.1 + q.1 ≤ (l.map Prod.fst).sum := by
  induction l with
  | nil => intro p hp; simp at hp
  | cons x xs ih =>
    intro p hp q hq hne
    have h0' : ∀ p ∈ xs, 0 ≤ p.1 := fun q hq => h0 q (List.mem_cons_of_mem _ hq)
    have hx : 0 ≤ x.1 := h0 x List.mem_cons_self
    simp only [List.map_cons, List.sum_cons]
    rcases List.mem_cons.mp hp with rfl | hp'
    · rcases List.mem_cons.mp hq with rfl | hq'
      · exact absurd rfl hne
      · have := fst_le_sum xs h0' q hq'; linarith
    · rcases List.mem_cons.mp hq with rfl | hq'
      · have := fst_le_sum xs h0' p hp'; linarith
      · have := ih h0' p hp' q hq' hne; linarith

/-- the bracket [beta_min, beta_max] of (7)/(8) is non-empty and inside [0,1] for a composition -/
theorem bounds_bracket (l : List (ℝ × ℝ)) (hz : ∀ p ∈ l, 0 ≤ p.1) (hk : ∀ p ∈ l, 0 ≤ p.2)
    (hsum : (l.map Prod.fst).sum = 1) :
    0 ≤ (l.foldl boundsStep (0, 1)).1 ∧ (l.foldl boundsStep (0, 1)).1 ≤ (l.foldl boundsStep (0, 1)).2
      ∧ (l.foldl boundsStep (0, 1)).2 ≤ 1 := by
  have hmono := bounds_fold_mono l (0, 1)
  have hc := bounds_fold_is_cand l (0, 1)
  have hz1 : ∀ p ∈ l, p.1 ≤ 1 := fun p hp => hsum ▸ fst_le_sum l hz p hp
  refine ⟨hmono.1, ?_, hmono.2⟩
  rcases hc.1 with h1 | ⟨p, hp, hpk, h1⟩ <;> rcases hc.2 with h2 | ⟨q, hq, hqk, h2⟩ <;> rw [h1, h2]
  · norm_num
  · exact cmax_nonneg q (hz1 q hq) hqk
  · exact cmin_le_one p (hz1 p hp) hpk
  · have hne : p ≠ q := by
      intro h; rw [h] at hpk; linarith
    have := pair_le_sum l hz p hp q hq hne
    exact cmin_le_cmax p q hpk hqk (hk q hq) (hz p hp) (hz q hq) (by linarith)

/-- without any ordering: both bounds lie in [0,1] as soon as every z ≤ 1 -/
theorem bounds_unit (l : List (ℝ × ℝ)) (hz1 : ∀ p ∈ l, p.1 ≤ 1) :
    0 ≤ (l.foldl boundsStep (0, 1)).1 ∧ (l.foldl boundsStep (0, 1)).1 ≤ 1 ∧
    0 ≤ (l.foldl boundsStep (0, 1)).2 ∧ (l.foldl boundsStep (0, 1)).2 ≤ 1 := by
  have hmono := bounds_fold_mono l (0, 1)
  have hc := bounds_fold_is_cand l (0, 1)
  refine ⟨hmono.1, ?_, ?_, hmono.2⟩
  · rcases hc.1 with h1 | ⟨p, hp, hpk, h1⟩ <;> rw [h1]
    · norm_num
    · exact cmin_le_one p (hz1 p hp) hpk
  · rcases hc.2 with h2 | ⟨q, hq, hqk, h2⟩ <;> rw [h2]
    · norm_num
    · exact cmax_nonneg q (hz1 q hq) hqk

/-! ### `getD` with default 0 through `zipWith` / `map` -/

theorem getD_zipWith_len (f : ℝ → ℝ → ℝ) (h00 : f 0 0 = 0) :
    ∀ (a b : List ℝ), a.length = b.length → ∀ i, (List.zipWith f a b).getD i 0 = f (a.getD i 0) (b.getD i 0) := by
  intro a
  induction a with
  | nil => intro b hb i; cases b with
    | nil => simp [h00]
    | cons y ys => simp at hb
  | cons x xs ih =>
    intro b hb i
    cases b with
    | nil => simp at hb
    | cons y ys =>
      cases i with
      | zero => simp
      | succ j =>
        simp only [List.zipWith_cons_cons, List.getD_cons_succ]
        exact ih ys (by simpa using hb) j

theorem getD_map0 (f : ℝ → ℝ) (h0 : f 0 = 0) (a : List ℝ) (i : Nat) : (a.map f).getD i 0 = f (a.getD i 0) := by
  induction a generalizing i with
  | nil => simp [h0]
  | cons x xs ih => cases i with
    | zero => simp
    | succ j => simp only [List.map_cons, List.getD_cons_succ]; exact ih j

end TamocV.Lemmas.C02
