/-
  Helper lemmas for C02 (Flash): invariants of the Rachford–Rice iteration, the bounds
  (7)/(8), algebra of the rows, scatter/gather of zero components, back-conversion.
  Everything is about `TamocV.Model.Flash` at `α := ℝ`.
-/
import TamocV.Real
import TamocV.Lemmas.Basic
import TamocV.Model.Flash
import Mathlib.Tactic.Ring
import Mathlib.Tactic.Linarith
import Mathlib.Tactic.NormNum
import Mathlib.Tactic.FieldSimp
import Mathlib.Tactic.Positivity

namespace TamocV.Lemmas.C02
open TamocV TamocV.Model.Flash

def Inv (lo hi : ℝ) (s : RRState ℝ) : Prop :=
  lo ≤ s.bmin ∧ s.bmin ≤ s.bvar ∧ s.bvar ≤ s.bmax ∧ s.bmax ≤ hi

/-- weak invariant: everything stays in [0,1] (needs no ordering of the two bounds) -/
def WInv (s : RRState ℝ) : Prop :=
  0 ≤ s.bmin ∧ s.bmin ≤ 1 ∧ 0 ≤ s.bmax ∧ s.bmax ≤ 1 ∧ 0 ≤ s.bvar ∧ s.bvar ≤ 1

theorem rrStep_inv (z K : List ℝ) (gf : Bool) (lo hi : ℝ) (s : RRState ℝ) (h : Inv lo hi s) :
    Inv lo hi (rrStep z K gf s).1 := by
  obtain ⟨h1, h2, h3, h4⟩ := h
  unfold rrStep Inv
  simp only [Num.real_ofSci, Num.real_zero]
  cases gf <;> simp only [if_true, if_false, Bool.false_eq_true] <;> split_ifs <;>
    (refine ⟨?_, ?_, ?_, ?_⟩ <;> norm_num <;> linarith)

theorem rrStep_winv (z K : List ℝ) (gf : Bool) (s : RRState ℝ) (h : WInv s) :
    WInv (rrStep z K gf s).1 := by
  obtain ⟨h1, h2, h3, h4, h5, h6⟩ := h
  unfold rrStep WInv
  simp only [Num.real_ofSci, Num.real_zero]
  cases gf <;> simp only [if_true, if_false, Bool.false_eq_true] <;> split_ifs <;>
    (refine ⟨?_, ?_, ?_, ?_, ?_, ?_⟩ <;> norm_num <;> linarith)

theorem rrLoop_inv (z K : List ℝ) (gf : Bool) (lo hi : ℝ) :
    ∀ (fuel : Nat) (s : RRState ℝ) (tr : List ℝ), Inv lo hi s → Inv lo hi (rrLoop z K gf fuel s tr).1 := by
  intro fuel
  induction fuel with
  | zero => intro s tr h; simpa [rrLoop] using h
  | succ n ih =>
    intro s tr h
    have hs := rrStep_inv z K gf lo hi s h
    unfold rrLoop
    simp only []
    split_ifs
    · exact ih _ _ hs
    · exact hs

theorem rrLoop_winv (z K : List ℝ) (gf : Bool) :
    ∀ (fuel : Nat) (s : RRState ℝ) (tr : List ℝ), WInv s → WInv (rrLoop z K gf fuel s tr).1 := by
  intro fuel
  induction fuel with
  | zero => intro s tr h; simpa [rrLoop] using h
  | succ n ih =>
    intro s tr h
    have hs := rrStep_winv z K gf s h
    unfold rrLoop
    simp only []
    split_ifs
    · exact ih _ _ hs
    · exact hs

/-! bounds -/

theorem boundsStep_mono (acc p : ℝ × ℝ) : acc.1 ≤ (boundsStep acc p).1 ∧ (boundsStep acc p).2 ≤ acc.2 := by
  unfold boundsStep
  simp only [Num.real_one, Num.real_max, Num.real_min]
  split_ifs
  · exact ⟨le_max_left _ _, le_refl _⟩
  · exact ⟨le_refl _, min_le_left _ _⟩

theorem bounds_fold_mono (l : List (ℝ × ℝ)) : ∀ acc : ℝ × ℝ,
    acc.1 ≤ (l.foldl boundsStep acc).1 ∧ (l.foldl boundsStep acc).2 ≤ acc.2 := by
  induction l with
  | nil => intro acc; simp
  | cons p ps ih =>
    intro acc
    simp only [List.foldl_cons]
    have h1 := boundsStep_mono acc p
    have h2 := ih (boundsStep acc p)
    exact ⟨le_trans h1.1 h2.1, le_trans h2.2 h1.2⟩

/-- candidate of eq. (7) -/
noncomputable def cmin (p : ℝ × ℝ) : ℝ := (p.2 * p.1 - 1) / (p.2 - 1)
/-- candidate of eq. (8) -/
noncomputable def cmax (p : ℝ × ℝ) : ℝ := (1 - p.1) / (1 - p.2)

theorem boundsStep_eq (acc p : ℝ × ℝ) :
    boundsStep acc p = if 1 ≤ p.2 then (max acc.1 (cmin p), acc.2) else (acc.1, min acc.2 (cmax p)) := by
  unfold boundsStep cmin cmax
  simp only [Num.real_one, Num.real_max, Num.real_min]

/-- every candidate is respected by the final bounds -/
theorem bounds_fold_cand (l : List (ℝ × ℝ)) : ∀ acc : ℝ × ℝ, ∀ p ∈ l,
    (1 ≤ p.2 → cmin p ≤ (l.foldl boundsStep acc).1) ∧ (p.2 < 1 → (l.foldl boundsStep acc).2 ≤ cmax p) := by
  induction l with
  | nil => intro acc p hp; simp at hp
  | cons q qs ih =>
    intro acc p hp
    simp only [List.foldl_cons]
    rcases List.mem_cons.mp hp with rfl | hp'
    · have hm := bounds_fold_mono qs (boundsStep acc p)
      constructor
      · intro hk
        refine le_trans ?_ hm.1
        rw [boundsStep_eq, if_pos hk]
        exact le_max_right _ _
      · intro hk
        refine le_trans hm.2 ?_
        rw [boundsStep_eq, if_neg (not_le.mpr hk)]
        exact min_le_right _ _
    · exact ih _ p hp'

/-- the final bounds are the start values or one of the candidates -/
theorem bounds_fold_is_cand (l : List (ℝ × ℝ)) : ∀ acc : ℝ × ℝ,
    ((l.foldl boundsStep acc).1 = acc.1 ∨ ∃ p ∈ l, 1 ≤ p.2 ∧ (l.foldl boundsStep acc).1 = cmin p) ∧
    ((l.foldl boundsStep acc).2 = acc.2 ∨ ∃ p ∈ l, p.2 < 1 ∧ (l.foldl boundsStep acc).2 = cmax p) := by
  induction l with
  | nil => intro acc; simp
  | cons q qs ih =>
    intro acc
    simp only [List.foldl_cons]
    obtain ⟨h1, h2⟩ := ih (boundsStep acc q)
    constructor
    · rcases h1 with h1 | ⟨p, hp, hk, he⟩
      · rw [h1, boundsStep_eq]
        split_ifs with hq
        · rcases max_choice acc.1 (cmin q) with hc | hc
          · left; simpa using hc
          · right; exact ⟨q, List.mem_cons_self, hq, by simpa using hc⟩
        · left; rfl
      · right; exact ⟨p, List.mem_cons_of_mem _ hp, hk, he⟩
    · rcases h2 with h2 | ⟨p, hp, hk, he⟩
      · rw [h2, boundsStep_eq]
        split_ifs with hq
        · left; rfl
        · rcases min_choice acc.2 (cmax q) with hc | hc
          · left; simpa using hc
          · right; exact ⟨q, List.mem_cons_self, not_le.mp hq, by simpa using hc⟩
      · right; exact ⟨p, List.mem_cons_of_mem _ hp, hk, he⟩

theorem cmin_le_one (p : ℝ × ℝ) (hz : p.1 ≤ 1) (hk : 1 ≤ p.2) : cmin p ≤ 1 := by
  unfold cmin
  rcases eq_or_lt_of_le hk with h | h
  · rw [← h]; simp
  · rw [div_le_one (by linarith)]
    nlinarith

theorem cmax_nonneg (p : ℝ × ℝ) (hz : p.1 ≤ 1) (hk : p.2 < 1) : 0 ≤ cmax p := by
  unfold cmax
  exact div_nonneg (by linarith) (by linarith)

/-- (7) ≤ (8) for two different components of a composition -/
theorem cmin_le_cmax (p q : ℝ × ℝ) (hp : 1 ≤ p.2) (hq : q.2 < 1) (hq0 : 0 ≤ q.2)
    (hzp : 0 ≤ p.1) (hzq : 0 ≤ q.1) (hsum : p.1 + q.1 ≤ 1) : cmin p ≤ cmax q := by
  unfold cmin cmax
  rcases eq_or_lt_of_le hp with h | h
  · rw [← h]; simp
    exact div_nonneg (by linarith) (by linarith)
  · rw [div_le_div_iff₀ (by linarith) (by linarith)]
    have ha : p.1 ≤ 1 - q.1 := by linarith
    by_cases hc : p.2 * (1 - q.1) ≤ 1
    · nlinarith [mul_nonneg (sub_nonneg.mpr (le_of_lt hq)) (sub_nonneg.mpr hc), mul_nonneg (sub_nonneg.mpr ha) (mul_nonneg (le_of_lt (lt_of_lt_of_le one_pos hp)) (sub_nonneg.mpr (le_of_lt hq)))]
    · rw [not_le] at hc
      nlinarith [mul_nonneg hq0 (le_of_lt (sub_pos.mpr hc)), mul_nonneg (sub_nonneg.mpr ha) (mul_nonneg (le_of_lt (lt_of_lt_of_le one_pos hp)) (sub_nonneg.mpr (le_of_lt hq)))]

theorem fst_le_sum (l : List (ℝ × ℝ)) (h0 : ∀ p ∈ l, 0 ≤ p.1) : ∀ p ∈ l, p.1 ≤ (l.map Prod.fst).sum := by
  induction l with
  | nil => intro p hp; simp at hp
  | cons x xs ih =>
    intro p hp
    have hx : 0 ≤ x.1 := h0 x List.mem_cons_self
    have hs : 0 ≤ (xs.map Prod.fst).sum := List.sum_nonneg (by
      intro a ha; obtain ⟨q, hq, rfl⟩ := List.mem_map.mp ha; exact h0 q (List.mem_cons_of_mem _ hq))
    simp only [List.map_cons, List.sum_cons]
    rcases List.mem_cons.mp hp with rfl | hp'
    · linarith
    · have := ih (fun q hq => h0 q (List.mem_cons_of_mem _ hq)) p hp'
      linarith

/-- two different entries of a non-negative list: their sum is at most the total -/
theorem pair_le_sum (l : List (ℝ × ℝ)) (h0 : ∀ p ∈ l, 0 ≤ p.1) :
    ∀ p ∈ l, ∀ q ∈ l, p ≠ q → p.1 + q.1 ≤ (l.map Prod.fst).sum := by
  induction l with
  | nil => intro p hp; simp at hp
  | cons x xs ih =>
    intro p hp q hq hne
    have h0' : ∀ p ∈ xs, 0 ≤ p.1 := fun q hq => h0 q (List.mem_cons_of_mem _ hq)
    have hx : 0 ≤ x.1 := h0 x List.mem_cons_self
    simp only [List.map_cons, List.sum_cons]
    rcases List.mem_cons.mp hp with rfl | hp'
    · rcases List.mem_cons.mp hq with rfl | hq'
      · exact absurd rfl hne
      · have := fst_le_sum xs h0' q hq'; linarith
    · rcases List.mem_cons.mp hq with rfl | hq'
      · have := fst_le_sum xs h0' p hp'; linarith
      · have := ih h0' p hp' q hq' hne; linarith

/-- the bracket [beta_min, beta_max] of (7)/(8) is non-empty and inside [0,1] for a composition -/
theorem bounds_bracket (l : List (ℝ × ℝ)) (hz : ∀ p ∈ l, 0 ≤ p.1) (hk : ∀ p ∈ l, 0 ≤ p.2)
    (hsum : (l.map Prod.fst).sum = 1) :
    0 ≤ (l.foldl boundsStep (0, 1)).1 ∧ (l.foldl boundsStep (0, 1)).1 ≤ (l.foldl boundsStep (0, 1)).2
      ∧ (l.foldl boundsStep (0, 1)).2 ≤ 1 := by
  have hmono := bounds_fold_mono l (0, 1)
  have hc := bounds_fold_is_cand l (0, 1)
  have hz1 : ∀ p ∈ l, p.1 ≤ 1 := fun p hp => hsum ▸ fst_le_sum l hz p hp
  refine ⟨hmono.1, ?_, hmono.2⟩
  rcases hc.1 with h1 | ⟨p, hp, hpk, h1⟩ <;> rcases hc.2 with h2 | ⟨q, hq, hqk, h2⟩ <;> rw [h1, h2]
  · norm_num
  · exact cmax_nonneg q (hz1 q hq) hqk
  · exact cmin_le_one p (hz1 p hp) hpk
  · have hne : p ≠ q := by
      intro h; rw [h] at hpk; linarith
    have := pair_le_sum l hz p hp q hq hne
    exact cmin_le_cmax p q hpk hqk (hk q hq) (hz p hp) (hz q hq) (by linarith)

/-- without any ordering: both bounds lie in [0,1] as soon as every z ≤ 1 -/
theorem bounds_unit (l : List (ℝ × ℝ)) (hz1 : ∀ p ∈ l, p.1 ≤ 1) :
    0 ≤ (l.foldl boundsStep (0, 1)).1 ∧ (l.foldl boundsStep (0, 1)).1 ≤ 1 ∧
    0 ≤ (l.foldl boundsStep (0, 1)).2 ∧ (l.foldl boundsStep (0, 1)).2 ≤ 1 := by
  have hmono := bounds_fold_mono l (0, 1)
  have hc := bounds_fold_is_cand l (0, 1)
  refine ⟨hmono.1, ?_, ?_, hmono.2⟩
  · rcases hc.1 with h1 | ⟨p, hp, hpk, h1⟩ <;> rw [h1]
    · norm_num
    · exact cmin_le_one p (hz1 p hp) hpk
  · rcases hc.2 with h2 | ⟨q, hq, hqk, h2⟩ <;> rw [h2]
    · norm_num
    · exact cmax_nonneg q (hz1 q hq) hqk

/-! ### `getD` with default 0 through `zipWith` / `map` -/

theorem getD_zipWith_len (f : ℝ → ℝ → ℝ) (h00 : f 0 0 = 0) :
    ∀ (a b : List ℝ), a.length = b.length → ∀ i, (List.zipWith f a b).getD i 0 = f (a.getD i 0) (b.getD i 0) := by
  intro a
  induction a with
  | nil => intro b hb i; cases b with
    | nil => simp [h00]
    | cons y ys => simp at hb
  | cons x xs ih =>
    intro b hb i
    cases b with
    | nil => simp at hb
    | cons y ys =>
      cases i with
      | zero => simp
      | succ j =>
        simp only [List.zipWith_cons_cons, List.getD_cons_succ]
        exact ih ys (by simpa using hb) j

theorem getD_map0 (f : ℝ → ℝ) (h0 : f 0 = 0) (a : List ℝ) (i : Nat) : (a.map f).getD i 0 = f (a.getD i 0) := by
  induction a generalizing i with
  | nil => simp [h0]
  | cons x xs ih => cases i with
    | zero => simp
    | succ j => simp only [List.map_cons, List.getD_cons_succ]; exact ih j

/-! ### denominators and rows -/

theorem den_pos (β k : ℝ) (h0 : 0 ≤ β) (h1 : β ≤ 1) (hk : 0 < k) : 0 < 1 + β * (k - 1) := by
  have e : 1 + β * (k - 1) = (1 - β) + β * k := by ring
  rw [e]
  rcases eq_or_lt_of_le h1 with h | h
  · rw [h]; simpa using hk
  · have : 0 ≤ β * k := mul_nonneg h0 hk.le
    linarith

theorem den_liq_pos (bl k : ℝ) (h0 : 0 ≤ bl) (h1 : bl ≤ 1) (hk : 0 < k) : 0 < k - bl * (k - 1) := by
  have e : k - bl * (k - 1) = 1 + (1 - bl) * (k - 1) := by ring
  rw [e]
  exact den_pos (1 - bl) k (by linarith) (by linarith) hk

theorem gGas_real (z K : List ℝ) (β : ℝ) :
    gGas z K β = (List.zipWith (fun zi k => zi * (k - 1) / (1 + β * (k - 1))) z K).sum := by
  unfold gGas; simp only [Num.real_sum, Num.real_one]

theorem gLiq_eq_gGas (z K : List ℝ) (bl : ℝ) : gLiq z K bl = gGas z K (1 - bl) := by
  unfold gLiq gGas
  simp only [Num.real_one]
  congr 1
  induction z generalizing K with
  | nil => simp
  | cons x xs ih => cases K with
    | nil => simp
    | cons k ks =>
      simp only [List.zipWith_cons_cons, List.cons.injEq]
      refine ⟨?_, ih ks⟩
      congr 1; ring

theorem rows_length (z K : List ℝ) (β : ℝ) (hlen : z.length = K.length) :
    (rows z K β).1.length = z.length ∧ (rows z K β).2.length = z.length := by
  unfold rows; simp [hlen]

/-- x_gas = K · x_liq, as lists -/
theorem rows_xg_eq (z K : List ℝ) (β : ℝ) :
    (rows z K β).1 = List.zipWith (fun k l => k * l) K (rows z K β).2 := by
  unfold rows
  simp only [Num.real_one]
  induction z generalizing K with
  | nil => simp
  | cons x xs ih => cases K with
    | nil => simp
    | cons k ks =>
      simp only [List.zipWith_cons_cons, List.cons.injEq]
      exact ⟨by ring, ih ks⟩

/-- component material balance, as lists -/
theorem rows_balance (z K : List ℝ) (β : ℝ) (hlen : z.length = K.length)
    (hd : ∀ k ∈ K, 1 + β * (k - 1) ≠ 0) :
    List.zipWith (fun g l => β * g + (1 - β) * l) (rows z K β).1 (rows z K β).2 = z := by
  unfold rows
  simp only [Num.real_one]
  induction z generalizing K with
  | nil => simp
  | cons x xs ih => cases K with
    | nil => simp at hlen
    | cons k ks =>
      simp only [List.zipWith_cons_cons, List.cons.injEq]
      have hk := hd k List.mem_cons_self
      refine ⟨?_, ih ks (by simpa using hlen) (fun k' hk' => hd k' (List.mem_cons_of_mem _ hk'))⟩
      field_simp
      ring

/-- Σ x_liq = Σ z − β·g(β)   and   Σ x_gas = Σ z + (1−β)·g(β) -/
theorem rows_sums (z K : List ℝ) (β : ℝ) (hlen : z.length = K.length)
    (hd : ∀ k ∈ K, 1 + β * (k - 1) ≠ 0) :
    (rows z K β).2.sum = z.sum - β * gGas z K β ∧ (rows z K β).1.sum = z.sum + (1 - β) * gGas z K β := by
  rw [gGas_real]
  unfold rows
  simp only [Num.real_one]
  induction z generalizing K with
  | nil => simp
  | cons x xs ih => cases K with
    | nil => simp at hlen
    | cons k ks =>
      simp only [List.zipWith_cons_cons, List.sum_cons]
      have hk := hd k List.mem_cons_self
      obtain ⟨h1, h2⟩ := ih ks (by simpa using hlen) (fun k' hk' => hd k' (List.mem_cons_of_mem _ hk'))
      rw [h1, h2]
      constructor
      · field_simp; ring
      · field_simp; ring

/-! ### zero components: mask / gather / scatter -/

theorem mask_cons_pos (x : ℝ) (xs : List ℝ) (h : 0 < x) : mask (x :: xs) = true :: mask xs := by
  unfold mask; simp only [List.map_cons, Num.real_zero]; simp [h]

theorem mask_cons_nonpos (x : ℝ) (xs : List ℝ) (h : ¬ 0 < x) : mask (x :: xs) = false :: mask xs := by
  unfold mask; simp only [List.map_cons, Num.real_zero]; simp [h]

theorem mask_nil : mask ([] : List ℝ) = [] := rfl

theorem scatter_map (f : ℝ → ℝ) (h0 : f 0 = 0) : ∀ (mk : List Bool) (v : List ℝ),
    scatter mk (v.map f) = (scatter mk v).map f := by
  intro mk
  induction mk with
  | nil => intro v; simp [scatter]
  | cons b bs ih =>
    intro v
    cases b with
    | false => simp only [scatter, List.map_cons, Num.real_zero, h0, ih v]
    | true => cases v with
      | nil =>
        have := ih []
        simp only [List.map_nil] at this
        simp only [scatter, List.map_nil, List.map_cons, Num.real_zero, h0]
        rw [← this]
      | cons x xs => simp only [scatter, List.map_cons, ih xs]

theorem scatter_zipWith (f : ℝ → ℝ → ℝ) (h00 : f 0 0 = 0) : ∀ (mk : List Bool) (a b : List ℝ),
    a.length = b.length → scatter mk (List.zipWith f a b) = List.zipWith f (scatter mk a) (scatter mk b) := by
  intro mk
  induction mk with
  | nil => intro a b _; simp [scatter]
  | cons c cs ih =>
    intro a b hl
    cases c with
    | false => simp only [scatter, List.zipWith_cons_cons, Num.real_zero, h00, ih a b hl]
    | true => cases a with
      | nil => cases b with
        | nil =>
          have := ih [] [] rfl
          simp only [List.zipWith_nil_left] at this
          simp only [scatter, List.zipWith_nil_left, List.zipWith_cons_cons, Num.real_zero, h00]
          rw [← this]
        | cons y ys => simp at hl
      | cons x xs => cases b with
        | nil => simp at hl
        | cons y ys =>
          simp only [scatter, List.zipWith_cons_cons, ih xs ys (by simpa using hl)]

/-- moles of the kept components, scattered back, are the moles of all components (zero masses
    give zero moles) -/
theorem scatter_gather_vdiv : ∀ (m M : List ℝ), M.length = m.length → (∀ x ∈ m, 0 ≤ x) →
    scatter (mask m) (Num.vdiv (gather (mask m) m) (gather (mask m) M)) = Num.vdiv m M := by
  intro m
  induction m with
  | nil => intro M _ _; simp [mask_nil, scatter, Num.vdiv]
  | cons x xs ih =>
    intro M hl h0
    cases M with
    | nil => simp at hl
    | cons y ys =>
      have hl' : ys.length = xs.length := by simpa using hl
      have h0' : ∀ x ∈ xs, 0 ≤ x := fun a ha => h0 a (List.mem_cons_of_mem _ ha)
      have ih' := ih ys hl' h0'
      by_cases hx : 0 < x
      · rw [mask_cons_pos x xs hx]
        simp only [gather, Num.vdiv, List.zipWith_cons_cons, scatter]
        simp only [Num.vdiv] at ih'
        rw [ih']
      · rw [mask_cons_nonpos x xs hx]
        have hx0 : x = 0 := le_antisymm (not_lt.mp hx) (h0 x List.mem_cons_self)
        simp only [gather, Num.vdiv, List.zipWith_cons_cons, scatter, Num.real_zero]
        simp only [Num.vdiv] at ih'
        rw [ih', hx0]; simp

theorem sum_vdiv_gather : ∀ (m M : List ℝ), M.length = m.length → (∀ x ∈ m, 0 ≤ x) →
    (Num.vdiv (gather (mask m) m) (gather (mask m) M)).sum = (Num.vdiv m M).sum := by
  intro m
  induction m with
  | nil => intro M _ _; simp [mask_nil, gather, Num.vdiv]
  | cons x xs ih =>
    intro M hl h0
    cases M with
    | nil => simp at hl
    | cons y ys =>
      have hl' : ys.length = xs.length := by simpa using hl
      have h0' : ∀ x ∈ xs, 0 ≤ x := fun a ha => h0 a (List.mem_cons_of_mem _ ha)
      have ih' := ih ys hl' h0'
      by_cases hx : 0 < x
      · rw [mask_cons_pos x xs hx]
        simp only [gather, Num.vdiv, List.zipWith_cons_cons, List.sum_cons]
        simp only [Num.vdiv] at ih'
        rw [ih']
      · rw [mask_cons_nonpos x xs hx]
        have hx0 : x = 0 := le_antisymm (not_lt.mp hx) (h0 x List.mem_cons_self)
        simp only [gather, Num.vdiv, List.zipWith_cons_cons, List.sum_cons]
        simp only [Num.vdiv] at ih'
        rw [ih', hx0]; simp

theorem moleFrac_real (m M : List ℝ) :
    moleFrac m M = (Num.vdiv m M).map (fun x => x / (Num.vdiv m M).sum) := by
  unfold moleFrac; simp only [Num.real_sum]

/-- removing zero-mass components, computing mole fractions and re-inserting zeros gives the mole
    fractions of the full feed -/
theorem scatter_moleFrac (m M : List ℝ) (hl : M.length = m.length) (h0 : ∀ x ∈ m, 0 ≤ x) :
    scatter (mask m) (moleFrac (gather (mask m) m) (gather (mask m) M)) = moleFrac m M := by
  rw [moleFrac_real, moleFrac_real, scatter_map _ (by simp), scatter_gather_vdiv m M hl h0,
    sum_vdiv_gather m M hl h0]

theorem scatter_length : ∀ (mk : List Bool) (v : List ℝ), (scatter mk v).length = mk.length := by
  intro mk
  induction mk with
  | nil => intro v; simp [scatter]
  | cons b bs ih =>
    intro v
    cases b with
    | false => simp [scatter, ih]
    | true => cases v <;> simp [scatter, ih]

theorem scatter_nonneg : ∀ (mk : List Bool) (v : List ℝ), (∀ x ∈ v, 0 ≤ x) → ∀ x ∈ scatter mk v, 0 ≤ x := by
  intro mk
  induction mk with
  | nil => intro v _ x hx; simp [scatter] at hx
  | cons b bs ih =>
    intro v hv x hx
    cases b with
    | false =>
      simp only [scatter, Num.real_zero, List.mem_cons] at hx
      rcases hx with rfl | hx
      · exact le_refl _
      · exact ih v hv x hx
    | true => cases v with
      | nil =>
        simp only [scatter, Num.real_zero, List.mem_cons] at hx
        rcases hx with rfl | hx
        · exact le_refl _
        · exact ih [] (by simp) x hx
      | cons y ys =>
        simp only [scatter, List.mem_cons] at hx
        rcases hx with rfl | hx
        · exact hv _ List.mem_cons_self
        · exact ih ys (fun a ha => hv a (List.mem_cons_of_mem _ ha)) x hx

theorem getD_zipWith_mul : ∀ (a b : List ℝ) (i : Nat),
    (List.zipWith (fun x y => x * y) a b).getD i 0 = a.getD i 0 * b.getD i 0 := by
  intro a
  induction a with
  | nil => intro b i; simp
  | cons x xs ih =>
    intro b i
    cases b with
    | nil => simp
    | cons y ys => cases i with
      | zero => simp
      | succ j => simp only [List.zipWith_cons_cons, List.getD_cons_succ]; exact ih ys j

theorem getD_zipWith_div : ∀ (a b : List ℝ) (i : Nat),
    (List.zipWith (fun x y => x / y) a b).getD i 0 = a.getD i 0 / b.getD i 0 := by
  intro a
  induction a with
  | nil => intro b i; simp
  | cons x xs ih =>
    intro b i
    cases b with
    | nil => simp
    | cons y ys => cases i with
      | zero => simp
      | succ j => simp only [List.zipWith_cons_cons, List.getD_cons_succ]; exact ih ys j

theorem getD_nonneg (l : List ℝ) (h : ∀ x ∈ l, 0 ≤ x) (i : Nat) : 0 ≤ l.getD i 0 := by
  rw [List.getD_eq_getElem?_getD]
  cases hi : l[i]? with
  | none => simp
  | some v => simp; exact h v (List.mem_of_getElem? hi)

/-- back-conversion of mole fractions and gas fraction to phase masses (`ng = beta N`) conserves every
    component as soon as the rows obey the component material balance -/
theorem backConvert_conserves (m M xg xl : List ℝ) (β : ℝ)
    (hbal : ∀ i, (Num.vdiv m M).sum * (β * xg.getD i 0 + (1 - β) * xl.getD i 0) = m.getD i 0 / M.getD i 0)
    (hM0 : ∀ i, M.getD i 0 = 0 → m.getD i 0 = 0) (i : Nat) :
    (backConvert m M xg xl β).1.getD i 0 = xg.getD i 0 * (β * (Num.vdiv m M).sum) * M.getD i 0 ∧
    (backConvert m M xg xl β).2.getD i 0 = xl.getD i 0 * ((1 - β) * (Num.vdiv m M).sum) * M.getD i 0 ∧
    (backConvert m M xg xl β).1.getD i 0 + (backConvert m M xg xl β).2.getD i 0 = m.getD i 0 := by
  have e1 : (backConvert m M xg xl β).1.getD i 0 = xg.getD i 0 * (β * (Num.vdiv m M).sum) * M.getD i 0 := by
    unfold backConvert
    simp only [Num.real_sum, Num.vmul]
    rw [getD_zipWith_mul, getD_map0 _ (by simp)]
  have e2 : (backConvert m M xg xl β).2.getD i 0 = xl.getD i 0 * ((1 - β) * (Num.vdiv m M).sum) * M.getD i 0 := by
    unfold backConvert
    simp only [Num.real_sum, Num.vmul]
    rw [getD_zipWith_mul, getD_map0 _ (by simp)]
    ring
  refine ⟨e1, e2, ?_⟩
  rw [e1, e2]
  have hb := hbal i
  by_cases hMi : M.getD i 0 = 0
  · rw [hMi, hM0 i hMi]; ring
  · have : m.getD i 0 = m.getD i 0 / M.getD i 0 * M.getD i 0 := by field_simp
    rw [this, ← hb]; ring

/-- the four ways `rrBeta` produces its gas fraction -/
theorem rrBeta_cases (z K : List ℝ) (fuel : Nat) :
    ((List.zipWith (fun a b => a * b) z K).sum - 1 ≤ 0 ∧ (rrBeta z K fuel).1 = 0) ∨
    (¬ ((List.zipWith (fun a b => a * b) z K).sum - 1 ≤ 0) ∧ 0 < 1 - (List.zipWith (fun a b => a / b) z K).sum ∧
        (rrBeta z K fuel).1 = 1) ∨
    (¬ ((List.zipWith (fun a b => a * b) z K).sum - 1 ≤ 0) ∧ ¬ (0 < 1 - (List.zipWith (fun a b => a / b) z K).sum) ∧
        0 < gGas z K (1 / 2 * ((bounds z K).1 + (bounds z K).2)) ∧
        (rrBeta z K fuel).1 =
          (rrLoop z K true fuel ⟨(bounds z K).1, (bounds z K).2, 1 / 2 * ((bounds z K).1 + (bounds z K).2)⟩ []).1.bvar) ∨
    (¬ ((List.zipWith (fun a b => a * b) z K).sum - 1 ≤ 0) ∧ ¬ (0 < 1 - (List.zipWith (fun a b => a / b) z K).sum) ∧
        ¬ (0 < gGas z K (1 / 2 * ((bounds z K).1 + (bounds z K).2))) ∧
        (rrBeta z K fuel).1 =
          1 - (rrLoop z K false fuel ⟨1 - (bounds z K).2, 1 - (bounds z K).1,
            1 - 1 / 2 * ((bounds z K).1 + (bounds z K).2)⟩ []).1.bvar) := by
  have half : (OfScientific.ofScientific 5 true 1 : ℝ) = 1 / 2 := by norm_num
  unfold rrBeta
  simp only [Num.real_sum, Num.vmul, Num.vdiv, Num.real_one, Num.real_zero, half]
  split_ifs with h1 h2 h3
  · left; exact ⟨h1, rfl⟩
  · right; left; exact ⟨h1, h2, rfl⟩
  · right; right; left; exact ⟨h1, h2, h3, rfl⟩
  · right; right; right; exact ⟨h1, h2, h3, rfl⟩

theorem mem_zipWith_zip (f : ℝ → ℝ → ℝ) : ∀ (z K : List ℝ) (x : ℝ), x ∈ List.zipWith f z K →
    ∃ p ∈ List.zip z K, x = f p.1 p.2 := by
  intro z
  induction z with
  | nil => intro K x hx; simp at hx
  | cons a as ih =>
    intro K x hx
    cases K with
    | nil => simp at hx
    | cons k ks =>
      simp only [List.zipWith_cons_cons, List.mem_cons] at hx
      rcases hx with rfl | hx
      · exact ⟨(a, k), by simp, rfl⟩
      · obtain ⟨p, hp, he⟩ := ih ks x hx
        exact ⟨p, by simp only [List.zip_cons_cons, List.mem_cons]; right; exact hp, he⟩

/-- what the bounds (7)/(8) are for: within them no mole fraction of either row exceeds one -/
theorem row_entries_le_one (zi k β : ℝ) (hz0 : 0 ≤ zi) (hz1 : zi ≤ 1) (hk : 0 < k) (h0 : 0 ≤ β) (h1 : β ≤ 1)
    (hmin : 1 ≤ k → cmin (zi, k) ≤ β) (hmax : k < 1 → β ≤ cmax (zi, k)) :
    zi * k / (1 + β * (k - 1)) ≤ 1 ∧ zi / (1 + β * (k - 1)) ≤ 1 := by
  have hd := den_pos β k h0 h1 hk
  rw [div_le_one hd, div_le_one hd]
  rcases le_or_gt 1 k with hk1 | hk1
  · have hc := hmin hk1
    unfold cmin at hc
    simp only at hc
    rcases eq_or_lt_of_le hk1 with h | h
    · rw [← h]; constructor <;> nlinarith
    · rw [div_le_iff₀ (by linarith)] at hc
      constructor
      · nlinarith
      · nlinarith [mul_nonneg h0 (sub_nonneg.mpr hk1)]
  · have hc := hmax hk1
    unfold cmax at hc
    simp only at hc
    rw [le_div_iff₀ (by linarith)] at hc
    constructor
    · nlinarith [mul_nonneg hz0 (sub_nonneg.mpr hk1.le)]
    · nlinarith

theorem rows_nonneg (z K : List ℝ) (β : ℝ) (hz : ∀ x ∈ z, 0 ≤ x) (hK : ∀ k ∈ K, 0 < k) (h0 : 0 ≤ β) (h1 : β ≤ 1) :
    (∀ x ∈ (rows z K β).1, 0 ≤ x) ∧ (∀ x ∈ (rows z K β).2, 0 ≤ x) := by
  unfold rows
  simp only [Num.real_one]
  constructor <;> intro x hx <;> obtain ⟨p, hp, rfl⟩ := mem_zipWith_zip _ z K x hx <;>
    have hm := List.of_mem_zip (a := p.1) (b := p.2) hp <;>
    have hd := den_pos β p.2 h0 h1 (hK _ hm.2)
  · exact div_nonneg (mul_nonneg (hz _ hm.1) (hK _ hm.2).le) hd.le
  · exact div_nonneg (hz _ hm.1) hd.le

/-- an increment below the tolerance after an accepted Newton step bounds the residual of the step -/
theorem newton_exit (g gp tol : ℝ) (hgp : gp ≠ 0) (h : |(-(g / gp))| ≤ tol) : |g| ≤ tol * |gp| := by
  rw [abs_neg, abs_div] at h
  rwa [div_le_iff₀ (abs_pos.mpr hgp)] at h

/-- if the loop stopped through its exit test, the last increment is within the tolerance -/
theorem rrLoop_exit (z K : List ℝ) (gf : Bool) : ∀ (fuel : Nat) (s : RRState ℝ) (tr : List ℝ),
    (rrLoop z K gf fuel s tr).2.2 = true →
    ∃ d rest, (rrLoop z K gf fuel s tr).2.1 = d :: rest ∧ |d| ≤ 1e-8 := by
  intro fuel
  induction fuel with
  | zero => intro s tr h; simp [rrLoop] at h
  | succ n ih =>
    intro s tr h
    unfold rrLoop at h ⊢
    simp only [] at h ⊢
    split_ifs at h ⊢ with hc
    · exact ih _ _ h
    · refine ⟨_, _, rfl, ?_⟩
      simp only [Num.real_abs, Num.real_ofSci, not_lt] at hc
      exact hc

theorem sum_map_div (l : List ℝ) (s : ℝ) : (l.map (fun x => x / s)).sum = l.sum / s := by
  induction l with
  | nil => simp
  | cons x xs ih => simp only [List.map_cons, List.sum_cons, ih, add_div]

theorem vdiv_nonneg (m M : List ℝ) (hm : ∀ x ∈ m, 0 ≤ x) (hM : ∀ x ∈ M, 0 < x) : ∀ x ∈ Num.vdiv m M, 0 ≤ x := by
  intro x hx
  unfold Num.vdiv at hx
  obtain ⟨p, hp, rfl⟩ := mem_zipWith_zip _ m M x hx
  have hmm := List.of_mem_zip (a := p.1) (b := p.2) hp
  exact div_nonneg (hm _ hmm.1) (hM _ hmm.2).le

theorem vdiv_sum_pos : ∀ (m M : List ℝ), M.length = m.length → (∀ x ∈ m, 0 ≤ x) → (∀ x ∈ M, 0 < x) →
    (∃ x ∈ m, 0 < x) → 0 < (Num.vdiv m M).sum := by
  intro m
  induction m with
  | nil => intro M _ _ _ h; obtain ⟨x, hx, _⟩ := h; simp at hx
  | cons x xs ih =>
    intro M hl hm hM hpos
    cases M with
    | nil => simp at hl
    | cons y ys =>
      have hy : 0 < y := hM y List.mem_cons_self
      have hm' : ∀ a ∈ xs, 0 ≤ a := fun a ha => hm a (List.mem_cons_of_mem _ ha)
      have hM' : ∀ a ∈ ys, 0 < a := fun a ha => hM a (List.mem_cons_of_mem _ ha)
      simp only [Num.vdiv, List.zipWith_cons_cons, List.sum_cons]
      have hrest : 0 ≤ (List.zipWith (fun x1 x2 => x1 / x2) xs ys).sum :=
        List.sum_nonneg (vdiv_nonneg xs ys hm' hM')
      by_cases hx : 0 < x
      · have : 0 < x / y := div_pos hx hy
        linarith
      · have hx0 : 0 ≤ x / y := div_nonneg (hm x List.mem_cons_self) hy.le
        obtain ⟨a, ha, hapos⟩ := hpos
        rcases List.mem_cons.mp ha with rfl | ha'
        · exact absurd hapos hx
        · have := ih ys (by simpa using hl) hm' hM' ⟨a, ha', hapos⟩
          simp only [Num.vdiv] at this
          linarith

/-- mole fractions of a feed with non-negative masses, positive molar masses and some mass are a
    composition -/
theorem moleFrac_comp (m M : List ℝ) (hl : M.length = m.length) (hm : ∀ x ∈ m, 0 ≤ x) (hM : ∀ x ∈ M, 0 < x)
    (hpos : ∃ x ∈ m, 0 < x) : (∀ x ∈ moleFrac m M, 0 ≤ x) ∧ (moleFrac m M).sum = 1 := by
  have hN := vdiv_sum_pos m M hl hm hM hpos
  rw [moleFrac_real]
  constructor
  · intro x hx
    obtain ⟨a, ha, rfl⟩ := List.mem_map.mp hx
    exact div_nonneg (vdiv_nonneg m M hm hM a ha) hN.le
  · rw [sum_map_div, div_self hN.ne']

theorem moleFrac_getD (m M : List ℝ) (i : Nat) :
    (moleFrac m M).getD i 0 = m.getD i 0 / M.getD i 0 / (Num.vdiv m M).sum := by
  rw [moleFrac_real, getD_map0 _ (by simp)]
  unfold Num.vdiv
  rw [getD_zipWith_div]

theorem getD_pos_or_zero (M : List ℝ) (hM : ∀ x ∈ M, 0 < x) (i : Nat) : (i < M.length ∧ 0 < M.getD i 0) ∨ (M.length ≤ i ∧ M.getD i 0 = 0) := by
  by_cases h : i < M.length
  · left
    refine ⟨h, ?_⟩
    have e : M.getD i 0 = M[i] := by simp [List.getD_eq_getElem?_getD, h]
    rw [e]
    exact hM _ (List.getElem_mem h)
  · right
    exact ⟨not_lt.mp h, by simp [List.getD_eq_getElem?_getD, not_lt.mp h]⟩

theorem finalCleanup_two_phase (z : List ℝ) (o : MMOut ℝ) (h0 : o.beta ≠ 0) (h1 : o.beta ≠ 1) :
    finalCleanup z o = o := by
  unfold finalCleanup
  simp only [Num.real_one, Num.real_zero]
  rw [if_neg (fun h => h1 (le_antisymm h.1 h.2)), if_neg (fun h => h0 (le_antisymm h.1 h.2))]

/-- explicit phase masses produced by `equilibriumPost` from rows obeying the material balance of the
    non-zero components -/
theorem equilibriumPost_masses (m M : List ℝ) (o : MMOut ℝ)
    (hl : M.length = m.length) (hm : ∀ x ∈ m, 0 ≤ x) (hM : ∀ x ∈ M, 0 < x) (hpos : ∃ x ∈ m, 0 < x)
    (hrl : o.xg.length = o.xl.length)
    (hbal : List.zipWith (fun g l => o.beta * g + (1 - o.beta) * l) o.xg o.xl
      = moleFrac (gather (mask m) m) (gather (mask m) M)) (i : Nat) :
    (equilibriumPost m M o).mg.getD i 0
      = (scatter (mask m) o.xg).getD i 0 * (o.beta * (Num.vdiv m M).sum) * M.getD i 0 ∧
    (equilibriumPost m M o).ml.getD i 0
      = (scatter (mask m) o.xl).getD i 0 * ((1 - o.beta) * (Num.vdiv m M).sum) * M.getD i 0 ∧
    (equilibriumPost m M o).mg.getD i 0 + (equilibriumPost m M o).ml.getD i 0 = m.getD i 0 := by
  have hN := vdiv_sum_pos m M hl hm hM hpos
  have hfull : List.zipWith (fun g l => o.beta * g + (1 - o.beta) * l) (scatter (mask m) o.xg) (scatter (mask m) o.xl)
      = moleFrac m M := by
    rw [← scatter_zipWith _ (by ring) (mask m) o.xg o.xl hrl, hbal, scatter_moleFrac m M hl hm]
  have hbal' : ∀ j, (Num.vdiv m M).sum * (o.beta * (scatter (mask m) o.xg).getD j 0
      + (1 - o.beta) * (scatter (mask m) o.xl).getD j 0) = m.getD j 0 / M.getD j 0 := by
    intro j
    have := congrArg (fun l => l.getD j 0) hfull
    rw [getD_zipWith_len _ (by ring) _ _ (by rw [scatter_length, scatter_length]), moleFrac_getD] at this
    rw [this]
    field_simp
  have hM0 : ∀ j, M.getD j 0 = 0 → m.getD j 0 = 0 := by
    intro j hj
    rcases getD_pos_or_zero M hM j with ⟨_, h⟩ | ⟨h, _⟩
    · rw [hj] at h; exact absurd h (lt_irrefl _)
    · have h' : m.length ≤ j := by rw [← hl]; exact h
      simp [List.getD_eq_getElem?_getD, h']
  exact backConvert_conserves m M (scatter (mask m) o.xg) (scatter (mask m) o.xl) o.beta hbal' hM0 i

theorem zipWith_beta_one (a : List ℝ) : List.zipWith (fun g l => (1:ℝ) * g + (1 - 1) * l) a (zeros a) = a := by
  unfold zeros
  simp only [Num.real_zero]
  induction a with
  | nil => rfl
  | cons x xs ih => simp only [List.map_cons, List.zipWith_cons_cons, List.cons.injEq]; exact ⟨by ring, ih⟩

theorem zipWith_beta_zero (a : List ℝ) : List.zipWith (fun g l => (0:ℝ) * g + (1 - 0) * l) (zeros a) a = a := by
  unfold zeros
  simp only [Num.real_zero]
  induction a with
  | nil => rfl
  | cons x xs ih => simp only [List.map_cons, List.zipWith_cons_cons, List.cons.injEq]; exact ⟨by ring, ih⟩

theorem zeros_length (a : List ℝ) : (zeros a).length = a.length := by unfold zeros; simp

theorem zeros_getD (a : List ℝ) (i : Nat) : (zeros a).getD i 0 = 0 := by
  unfold zeros
  simp only [Num.real_zero]
  rw [getD_map0 (fun _ => (0:ℝ)) rfl]

/-- the first kept component has a positive mole fraction -/
theorem moleFrac_gather_head_pos : ∀ (m M : List ℝ), M.length = m.length → (∀ x ∈ m, 0 ≤ x) → (∀ x ∈ M, 0 < x) →
    (∃ x ∈ m, 0 < x) → 0 < (moleFrac (gather (mask m) m) (gather (mask m) M)).getD 0 0 := by
  intro m M hl hm hM hpos
  have hN := vdiv_sum_pos m M hl hm hM hpos
  rw [moleFrac_getD, sum_vdiv_gather m M hl hm]
  apply div_pos _ hN
  clear hN
  induction m generalizing M with
  | nil => obtain ⟨x, hx, _⟩ := hpos; simp at hx
  | cons x xs ih =>
    cases M with
    | nil => simp at hl
    | cons y ys =>
      by_cases hx : 0 < x
      · rw [mask_cons_pos x xs hx]
        simp only [gather, List.getD_cons_zero]
        exact div_pos hx (hM y List.mem_cons_self)
      · rw [mask_cons_nonpos x xs hx]
        simp only [gather]
        apply ih ys (by simpa using hl) (fun a ha => hm a (List.mem_cons_of_mem _ ha))
          (fun a ha => hM a (List.mem_cons_of_mem _ ha))
        obtain ⟨a, ha, hapos⟩ := hpos
        rcases List.mem_cons.mp ha with rfl | ha'
        · exact absurd hapos hx
        · exact ⟨a, ha', hapos⟩

/-! ### monotonicity of the Rachford–Rice function and the root bracket -/

/-- g(β₁) − g(β₂) = (β₂ − β₁) · Σ z (K−1)² / (d₁ d₂) -/
theorem gGas_sub (z K : List ℝ) (b1 b2 : ℝ) (hlen : z.length = K.length)
    (h1 : ∀ k ∈ K, 1 + b1 * (k - 1) ≠ 0) (h2 : ∀ k ∈ K, 1 + b2 * (k - 1) ≠ 0) :
    gGas z K b1 - gGas z K b2 =
      (b2 - b1) * (List.zipWith (fun zi k => zi * (k - 1) ^ 2 / ((1 + b1 * (k - 1)) * (1 + b2 * (k - 1)))) z K).sum := by
  rw [gGas_real, gGas_real]
  induction z generalizing K with
  | nil => simp
  | cons x xs ih => cases K with
    | nil => simp at hlen
    | cons k ks =>
      simp only [List.zipWith_cons_cons, List.sum_cons]
      have ih' := ih ks (by simpa using hlen) (fun k' hk' => h1 k' (List.mem_cons_of_mem _ hk'))
        (fun k' hk' => h2 k' (List.mem_cons_of_mem _ hk'))
      have a1 := h1 k List.mem_cons_self
      have a2 := h2 k List.mem_cons_self
      have : x * (k - 1) / (1 + b1 * (k - 1)) - x * (k - 1) / (1 + b2 * (k - 1))
          = (b2 - b1) * (x * (k - 1) ^ 2 / ((1 + b1 * (k - 1)) * (1 + b2 * (k - 1)))) := by
        rw [div_sub_div _ _ a1 a2, ← mul_div_assoc, div_left_inj' (mul_ne_zero a1 a2)]; ring
      linarith [ih', this, mul_add (b2 - b1) (x * (k - 1) ^ 2 / ((1 + b1 * (k - 1)) * (1 + b2 * (k - 1))))
        (List.zipWith (fun zi k => zi * (k - 1) ^ 2 / ((1 + b1 * (k - 1)) * (1 + b2 * (k - 1)))) xs ks).sum]

theorem sum_pos_of_nonneg_of_exists (l : List ℝ) (h0 : ∀ x ∈ l, 0 ≤ x) (h : ∃ x ∈ l, 0 < x) : 0 < l.sum := by
  obtain ⟨x, hx, hpos⟩ := h
  exact lt_of_lt_of_le hpos (List.single_le_sum h0 x hx)

theorem mem_zipWith_of_mem_zip (f : ℝ → ℝ → ℝ) : ∀ (z K : List ℝ) (p : ℝ × ℝ), p ∈ List.zip z K →
    f p.1 p.2 ∈ List.zipWith f z K := by
  intro z
  induction z with
  | nil => intro K p hp; simp at hp
  | cons a as ih =>
    intro K p hp
    cases K with
    | nil => simp at hp
    | cons k ks =>
      simp only [List.zip_cons_cons, List.mem_cons] at hp
      simp only [List.zipWith_cons_cons, List.mem_cons]
      rcases hp with rfl | hp
      · left; rfl
      · right; exact ih ks p hp

/-- **g is strictly decreasing on [0,1]** as soon as one component with z > 0 has K ≠ 1 (all K > 0, z ≥ 0) -/
theorem gGas_strictAnti (z K : List ℝ) (hlen : z.length = K.length) (hz : ∀ x ∈ z, 0 ≤ x) (hK : ∀ k ∈ K, 0 < k)
    (hex : ∃ p ∈ List.zip z K, 0 < p.1 ∧ p.2 ≠ 1) (b1 b2 : ℝ) (h0 : 0 ≤ b1) (h12 : b1 < b2) (h1 : b2 ≤ 1) :
    gGas z K b2 < gGas z K b1 := by
  have d1 : ∀ k ∈ K, 0 < 1 + b1 * (k - 1) := fun k hk => den_pos b1 k h0 (by linarith) (hK k hk)
  have d2 : ∀ k ∈ K, 0 < 1 + b2 * (k - 1) := fun k hk => den_pos b2 k (by linarith) h1 (hK k hk)
  have e := gGas_sub z K b1 b2 hlen (fun k hk => (d1 k hk).ne') (fun k hk => (d2 k hk).ne')
  have hpos : 0 < (List.zipWith (fun zi k => zi * (k - 1) ^ 2 / ((1 + b1 * (k - 1)) * (1 + b2 * (k - 1)))) z K).sum := by
    apply sum_pos_of_nonneg_of_exists
    · intro x hx
      obtain ⟨p, hp, rfl⟩ := mem_zipWith_zip _ z K x hx
      have hm := List.of_mem_zip (a := p.1) (b := p.2) hp
      exact div_nonneg (mul_nonneg (hz _ hm.1) (sq_nonneg _)) (mul_pos (d1 _ hm.2) (d2 _ hm.2)).le
    · obtain ⟨p, hp, hzp, hkp⟩ := hex
      have hm := List.of_mem_zip (a := p.1) (b := p.2) hp
      refine ⟨_, mem_zipWith_of_mem_zip _ z K p hp, ?_⟩
      exact div_pos (mul_pos hzp (by positivity)) (mul_pos (d1 _ hm.2) (d2 _ hm.2))
  have : 0 < (b2 - b1) * (List.zipWith (fun zi k => zi * (k - 1) ^ 2 / ((1 + b1 * (k - 1)) * (1 + b2 * (k - 1)))) z K).sum :=
    mul_pos (by linarith) hpos
  linarith

theorem exists_pos_of_sum_pos : ∀ (l : List ℝ), 0 < l.sum → ∃ x ∈ l, 0 < x := by
  intro l
  induction l with
  | nil => intro h; simp at h
  | cons a as ih =>
    intro h
    simp only [List.sum_cons] at h
    by_cases ha : 0 < a
    · exact ⟨a, List.mem_cons_self, ha⟩
    · obtain ⟨x, hx, hp⟩ := ih (by linarith)
      exact ⟨x, List.mem_cons_of_mem _ hx, hp⟩

theorem sum_zK_sub (z K : List ℝ) (hlen : z.length = K.length) :
    (List.zipWith (fun a b => a * b) z K).sum - z.sum = (List.zipWith (fun a b => a * (b - 1)) z K).sum := by
  induction z generalizing K with
  | nil => simp
  | cons x xs ih => cases K with
    | nil => simp at hlen
    | cons k ks =>
      simp only [List.zipWith_cons_cons, List.sum_cons]
      have := ih ks (by simpa using hlen)
      linarith [mul_sub x k 1]

/-- when condition (4) fails for a composition, some component with z > 0 has K > 1 -/
theorem exists_volatile (z K : List ℝ) (hlen : z.length = K.length) (hz : ∀ x ∈ z, 0 ≤ x) (hsum : z.sum = 1)
    (h4 : ¬ ((List.zipWith (fun a b => a * b) z K).sum - 1 ≤ 0)) : ∃ p ∈ List.zip z K, 0 < p.1 ∧ p.2 ≠ 1 := by
  have h := sum_zK_sub z K hlen
  rw [hsum] at h
  obtain ⟨x, hx, hpos⟩ := exists_pos_of_sum_pos _ (by rw [← h]; linarith [not_le.mp h4])
  obtain ⟨p, hp, rfl⟩ := mem_zipWith_zip _ z K x hx
  have hm := List.of_mem_zip (a := p.1) (b := p.2) hp
  have hz0 := hz _ hm.1
  refine ⟨p, hp, ?_, ?_⟩
  · rcases eq_or_lt_of_le hz0 with h0 | h0
    · rw [← h0] at hpos; simp at hpos
    · exact h0
  · intro h1; rw [h1] at hpos; simp at hpos

/-- at a root of g in [0,1] both rows sum to one, so no mole fraction exceeds one, so the root obeys every
    bound (7) and (8): the initial bracket contains every root -/
theorem root_in_bounds (z K : List ℝ) (hlen : z.length = K.length) (hz : ∀ x ∈ z, 0 ≤ x) (hsum : z.sum = 1)
    (hK : ∀ k ∈ K, 0 < k) (r : ℝ) (hr0 : 0 ≤ r) (hr1 : r ≤ 1) (hroot : gGas z K r = 0) :
    ((List.zip z K).foldl boundsStep (0, 1)).1 ≤ r ∧ r ≤ ((List.zip z K).foldl boundsStep (0, 1)).2 := by
  have hd : ∀ k ∈ K, 0 < 1 + r * (k - 1) := fun k hk => den_pos r k hr0 hr1 (hK k hk)
  obtain ⟨sl, sg⟩ := rows_sums z K r hlen (fun k hk => (hd k hk).ne')
  rw [hroot, hsum] at sl sg
  obtain ⟨ng, nl⟩ := rows_nonneg z K r hz hK hr0 hr1
  have hc := bounds_fold_is_cand (List.zip z K) (0, 1)
  constructor
  · rcases hc.1 with h | ⟨p, hp, hk, h⟩ <;> rw [h]
    · exact hr0
    · have hm := List.of_mem_zip (a := p.1) (b := p.2) hp
      have hmem : p.1 * p.2 / (1 + r * (p.2 - 1)) ∈ (rows z K r).1 := by
        unfold rows; simp only [Num.real_one]; exact mem_zipWith_of_mem_zip _ z K p hp
      have hle := List.single_le_sum ng _ hmem
      rw [sg] at hle
      have hdp := hd _ hm.2
      rw [div_le_iff₀ hdp] at hle
      unfold cmin
      rcases eq_or_lt_of_le hk with h1 | h1
      · rw [← h1]; simpa using hr0
      · rw [div_le_iff₀ (by linarith)]; nlinarith
  · rcases hc.2 with h | ⟨p, hp, hk, h⟩ <;> rw [h]
    · exact hr1
    · have hm := List.of_mem_zip (a := p.1) (b := p.2) hp
      have hmem : p.1 / (1 + r * (p.2 - 1)) ∈ (rows z K r).2 := by
        unfold rows; simp only [Num.real_one]; exact mem_zipWith_of_mem_zip _ z K p hp
      have hle := List.single_le_sum nl _ hmem
      rw [sl] at hle
      have hdp := hd _ hm.2
      rw [div_le_iff₀ hdp] at hle
      unfold cmax
      rw [le_div_iff₀ (by linarith)]; nlinarith

/-- the root stays inside the bracket: position `ρ` of the root in the loop's variable (β for the gas
    form, 1 − β for the liquid form) -/
def KInv (ρ : ℝ) (s : RRState ℝ) : Prop := s.bmin ≤ ρ ∧ ρ ≤ s.bmax

/-- **one pass keeps the root in the bracket** — this uses the DIRECTION of the bound update (l.3253-3270)
    and the strict monotonicity of g -/
theorem rrStep_keeps_root (z K : List ℝ) (gf : Bool) (r : ℝ) (hr0 : 0 ≤ r) (hr1 : r ≤ 1) (hroot : gGas z K r = 0)
    (hanti : ∀ b1 b2 : ℝ, 0 ≤ b1 → b1 < b2 → b2 ≤ 1 → gGas z K b2 < gGas z K b1)
    (s : RRState ℝ) (hv0 : 0 ≤ s.bvar) (hv1 : s.bvar ≤ 1) (h : KInv (if gf then r else 1 - r) s) :
    KInv (if gf then r else 1 - r) (rrStep z K gf s).1 := by
  obtain ⟨k1, k2⟩ := h
  unfold rrStep KInv
  cases gf
  · -- liquid form
    simp only [Bool.false_eq_true, if_false, Num.real_zero] at k1 k2 ⊢
    rw [gLiq_eq_gGas]
    split_ifs with hg
    · refine ⟨k1, ?_⟩
      by_contra hc
      have := hanti (1 - (1 - r)) (1 - s.bvar) (by linarith) (by linarith [not_le.mp hc]) (by linarith)
      simp only [sub_sub_cancel] at this
      rw [hroot] at this; linarith
    · refine ⟨?_, k2⟩
      by_contra hc
      have := hanti (1 - s.bvar) (1 - (1 - r)) (by linarith) (by linarith [not_le.mp hc]) (by linarith)
      simp only [sub_sub_cancel] at this
      rw [hroot] at this; linarith [not_lt.mp hg]
  · -- gas form
    simp only [if_true, Num.real_zero] at k1 k2 ⊢
    split_ifs with hg
    · refine ⟨?_, k2⟩
      by_contra hc
      have := hanti r s.bvar hr0 (not_le.mp hc) hv1
      rw [hroot] at this; linarith
    · refine ⟨k1, ?_⟩
      by_contra hc
      have := hanti s.bvar r hv0 (not_le.mp hc) hr1
      rw [hroot] at this; linarith [not_lt.mp hg]

theorem rrLoop_keeps_root (z K : List ℝ) (gf : Bool) (r : ℝ) (hr0 : 0 ≤ r) (hr1 : r ≤ 1) (hroot : gGas z K r = 0)
    (hanti : ∀ b1 b2 : ℝ, 0 ≤ b1 → b1 < b2 → b2 ≤ 1 → gGas z K b2 < gGas z K b1)
    (ρ : ℝ) (hρ : ρ = if gf then r else 1 - r) :
    ∀ (fuel : Nat) (s : RRState ℝ) (tr : List ℝ), Inv 0 1 s → KInv ρ s → KInv ρ (rrLoop z K gf fuel s tr).1 := by
  intro fuel
  induction fuel with
  | zero => intro s tr _ h; simpa [rrLoop] using h
  | succ n ih =>
    intro s tr hi h
    have hs := rrStep_inv z K gf 0 1 s hi
    have hk : KInv ρ (rrStep z K gf s).1 := by
      rw [hρ]
      exact rrStep_keeps_root z K gf r hr0 hr1 hroot hanti s (by linarith [hi.1, hi.2.1])
        (by linarith [hi.2.2.1, hi.2.2.2]) (by rw [← hρ]; exact h)
    unfold rrLoop
    simp only []
    split_ifs
    · exact ih _ _ hs hk
    · exact hk

/-- denominators stay positive for K_i = 0 (the code sets a NaN K to 0, l.3007) as long as β < 1 -/
theorem den_pos_of_nonneg (β k : ℝ) (h0 : 0 ≤ β) (h1 : β < 1) (hk : 0 ≤ k) : 0 < 1 + β * (k - 1) := by
  have e : 1 + β * (k - 1) = (1 - β) + β * k := by ring
  rw [e]
  have : 0 ≤ β * k := mul_nonneg h0 hk
  linarith

theorem rows_nonneg_of_den (z K : List ℝ) (β : ℝ) (hz : ∀ x ∈ z, 0 ≤ x) (hK : ∀ k ∈ K, 0 ≤ k)
    (hd : ∀ k ∈ K, 0 < 1 + β * (k - 1)) :
    (∀ x ∈ (rows z K β).1, 0 ≤ x) ∧ (∀ x ∈ (rows z K β).2, 0 ≤ x) := by
  unfold rows
  simp only [Num.real_one]
  constructor <;> intro x hx <;> obtain ⟨p, hp, rfl⟩ := mem_zipWith_zip _ z K x hx <;>
    have hm := List.of_mem_zip (a := p.1) (b := p.2) hp <;>
    have hdp := hd _ hm.2
  · exact div_nonneg (mul_nonneg (hz _ hm.1) (hK _ hm.2)) hdp.le
  · exact div_nonneg (hz _ hm.1) hdp.le

end TamocV.Lemmas.C02
