/-
  Helper lemmas for C15 (quantity and unit conversions): element-wise list algebra over ℝ.
-/
import TamocV.Real
import TamocV.Lemmas.Basic
import TamocV.Model.Convert
import Mathlib.Tactic.Ring
import Mathlib.Tactic.FieldSimp
import Mathlib.Tactic.Linarith
import Mathlib.Tactic.Positivity
import Mathlib.Tactic.NormNum
import Mathlib.Analysis.SpecialFunctions.Pow.Real
import Mathlib.Algebra.BigOperators.Group.List.Basic

namespace TamocV.Lemmas.C15
open TamocV TamocV.Model.Convert

theorem zipWith_div_mul_cancel : ∀ (n M : List ℝ), n.length = M.length → (∀ x ∈ M, x ≠ 0) →
    List.zipWith (· / ·) (List.zipWith (· * ·) n M) M = n
  | [], [], _, _ => rfl
  | [], _ :: _, h, _ => by simp at h
  | _ :: _, [], h, _ => by simp at h
  | a :: n, b :: M, h, hM => by
      have hb : b ≠ 0 := hM b (by simp)
      have ih := zipWith_div_mul_cancel n M (by simpa using h) (fun x hx => hM x (by simp [hx]))
      simp only [List.zipWith_cons_cons, ih]
      rw [mul_div_assoc, div_self hb, mul_one]

theorem zipWith_mul_div_cancel : ∀ (m M : List ℝ), m.length = M.length → (∀ x ∈ M, x ≠ 0) →
    List.zipWith (· * ·) (List.zipWith (· / ·) m M) M = m
  | [], [], _, _ => rfl
  | [], _ :: _, h, _ => by simp at h
  | _ :: _, [], h, _ => by simp at h
  | a :: n, b :: M, h, hM => by
      have hb : b ≠ 0 := hM b (by simp)
      have ih := zipWith_mul_div_cancel n M (by simpa using h) (fun x hx => hM x (by simp [hx]))
      simp only [List.zipWith_cons_cons, ih]
      rw [div_mul_cancel₀ a hb]

/-- `(y ∘ M / S) / M = y / S` element-wise -/
theorem zipWith_div_map_div : ∀ (y M : List ℝ) (S : ℝ), y.length = M.length → (∀ x ∈ M, x ≠ 0) →
    List.zipWith (· / ·) ((List.zipWith (· * ·) y M).map (fun x => x / S)) M = y.map (fun x => x / S)
  | [], [], _, _, _ => rfl
  | [], _ :: _, _, h, _ => by simp at h
  | _ :: _, [], _, h, _ => by simp at h
  | a :: y, b :: M, S, h, hM => by
      have hb : b ≠ 0 := hM b (by simp)
      have ih := zipWith_div_map_div y M S (by simpa using h) (fun x hx => hM x (by simp [hx]))
      simp only [List.zipWith_cons_cons, List.map_cons, ih, List.cons.injEq, and_true]
      field_simp

/-- `(m / M / N) · M = m / N` element-wise -/
theorem zipWith_mul_map_div : ∀ (m M : List ℝ) (N : ℝ), m.length = M.length → (∀ x ∈ M, x ≠ 0) →
    List.zipWith (· * ·) ((List.zipWith (· / ·) m M).map (fun x => x / N)) M = m.map (fun x => x / N)
  | [], [], _, _, _ => rfl
  | [], _ :: _, _, h, _ => by simp at h
  | _ :: _, [], _, h, _ => by simp at h
  | a :: y, b :: M, N, h, hM => by
      have hb : b ≠ 0 := hM b (by simp)
      have ih := zipWith_mul_map_div y M N (by simpa using h) (fun x hx => hM x (by simp [hx]))
      simp only [List.zipWith_cons_cons, List.map_cons, ih, List.cons.injEq, and_true]
      field_simp

/-- `(y·t/s) ∘ M = (t/s) · (y ∘ M)` element-wise (no hypotheses: pure ring identity with totalised `/`) -/
theorem zipWith_mul_map_scale : ∀ (y M : List ℝ) (t s : ℝ),
    List.zipWith (· * ·) (y.map (fun v => v * t / s)) M = (List.zipWith (· * ·) y M).map (fun x => t / s * x)
  | [], _, _, _ => by simp
  | _ :: _, [], _, _ => by simp
  | a :: y, b :: M, t, s => by
      simp only [List.map_cons, List.zipWith_cons_cons, zipWith_mul_map_scale y M t s, List.cons.injEq, and_true]
      ring

/-- `(c·m) / M = c · (m / M)` element-wise -/
theorem zipWith_div_map_scale : ∀ (m M : List ℝ) (c : ℝ),
    List.zipWith (· / ·) (m.map (fun x => c * x)) M = (List.zipWith (· / ·) m M).map (fun x => c * x)
  | [], _, _ => by simp
  | _ :: _, [], _ => by simp
  | a :: m, b :: M, c => by
      simp only [List.map_cons, List.zipWith_cons_cons, zipWith_div_map_scale m M c, List.cons.injEq, and_true]
      ring

theorem sum_map_div (l : List ℝ) (c : ℝ) : (l.map (fun x => x / c)).sum = l.sum / c := by
  induction l with
  | nil => simp
  | cons a l ih => simp [ih, add_div]

theorem sum_map_mul_left (l : List ℝ) (c : ℝ) : (l.map (fun x => c * x)).sum = c * l.sum := by
  induction l with
  | nil => simp
  | cons a l ih => simp [ih, mul_add]

theorem sum_pos_of_pos : ∀ (l : List ℝ), l ≠ [] → (∀ x ∈ l, 0 < x) → 0 < l.sum
  | [], h, _ => absurd rfl h
  | [a], _, hp => by simpa using hp a (by simp)
  | a :: b :: l, _, hp => by
      have h1 : 0 < a := hp a (by simp)
      have h2 := sum_pos_of_pos (b :: l) (by simp) (fun x hx => hp x (by simp [hx]))
      simp only [List.sum_cons] at h2 ⊢
      linarith

theorem zipWith_mul_pos : ∀ (a b : List ℝ), (∀ x ∈ a, 0 < x) → (∀ x ∈ b, 0 < x) →
    ∀ x ∈ List.zipWith (· * ·) a b, 0 < x
  | [], _, _, _ => by simp
  | _ :: _, [], _, _ => by simp
  | x :: a, y :: b, ha, hb => by
      intro z hz
      simp only [List.zipWith_cons_cons, List.mem_cons] at hz
      rcases hz with rfl | hz
      · exact mul_pos (ha x (by simp)) (hb y (by simp))
      · exact zipWith_mul_pos a b (fun t ht => ha t (by simp [ht])) (fun t ht => hb t (by simp [ht])) z hz

theorem zipWith_div_pos : ∀ (a b : List ℝ), (∀ x ∈ a, 0 < x) → (∀ x ∈ b, 0 < x) →
    ∀ x ∈ List.zipWith (· / ·) a b, 0 < x
  | [], _, _, _ => by simp
  | _ :: _, [], _, _ => by simp
  | x :: a, y :: b, ha, hb => by
      intro z hz
      simp only [List.zipWith_cons_cons, List.mem_cons] at hz
      rcases hz with rfl | hz
      · exact div_pos (ha x (by simp)) (hb y (by simp))
      · exact zipWith_div_pos a b (fun t ht => ha t (by simp [ht])) (fun t ht => hb t (by simp [ht])) z hz

theorem zipWith_ne_nil {f : ℝ → ℝ → ℝ} {a b : List ℝ} (h : a.length = b.length) (ha : a ≠ []) :
    List.zipWith f a b ≠ [] := by
  cases a with
  | nil => exact absurd rfl ha
  | cons x a => cases b with
    | nil => simp at h
    | cons y b => simp

/-- "the density of the particle depends only on composition (at the fixed T, P)": scaling every component mass
    by the same c > 0 leaves it unchanged.  This is the hypothesis about `FluidParticle.density`. -/
def Intensive (ρ : List ℝ → ℝ) : Prop := ∀ (c : ℝ) (m : List ℝ), 0 < c → ρ (m.map (fun x => c * x)) = ρ m

/-- value of column `k` of a (converted) row -/
def colQ (keys : List String) (k : String) (row : List Rat) : Rat := row.getD (idxOf keys k) 0

theorem pi_pos : (0 : ℝ) < Model.Convert.pi (α := ℝ) := by
  simp only [Model.Convert.pi, Num.real_ofSci]; norm_num

/-- cube root of a cube -/
theorem cube_rpow_third {x : ℝ} (hx : 0 ≤ x) : (x ^ 3) ^ ((1 : ℝ) / 3) = x := by
  have h : ((1 : ℝ) / 3) = ((3 : ℕ) : ℝ)⁻¹ := by norm_num
  rw [h]
  exact Real.pow_rpow_inv_natCast hx (by norm_num)

/-- cube of a cube root -/
theorem rpow_third_cube {x : ℝ} (hx : 0 ≤ x) : (x ^ ((1 : ℝ) / 3)) ^ 3 = x := by
  have h : ((1 : ℝ) / 3) = ((3 : ℕ) : ℝ)⁻¹ := by norm_num
  rw [h]
  exact Real.rpow_inv_natCast_pow hx (by norm_num)

open TamocV.Gen.UnitsData

def castRow (r : UnitRow ℚ) : UnitRow ℝ := ⟨r.unit, (r.factor : ℝ), (r.offset : ℝ), r.out⟩

/-- `lookup` over ℚ rows (the generic `lookup` needs `[Num α]`, which ℚ is not) -/
def lookupQ (tab : List (UnitRow ℚ)) (u : String) : Option (UnitRow ℚ) :=
  match tab with
  | [] => none
  | r :: rest => if r.unit = u then some r else lookupQ rest u

theorem lookup_map_cast (tab : List (UnitRow ℚ)) (u : String) :
    lookup (tab.map castRow) u = (lookupQ tab u).map castRow := by
  induction tab with
  | nil => rfl
  | cons r rest ih =>
    simp only [List.map_cons, lookup, lookupQ, castRow]
    split
    · rfl
    · exact ih

theorem lookupQ_some_mem {tab : List (UnitRow ℚ)} {u : String} {r : UnitRow ℚ} (h : lookupQ tab u = some r) :
    r ∈ tab ∧ r.unit = u := by
  induction tab with
  | nil => simp [lookupQ] at h
  | cons a rest ih =>
    simp only [lookupQ] at h
    split at h
    · rename_i hu
      cases h
      exact ⟨by simp, hu⟩
    · obtain ⟨h1, h2⟩ := ih h
      exact ⟨by simp [h1], h2⟩

theorem lookupQ_of_mem {tab : List (UnitRow ℚ)} (hnd : (tab.map (·.unit)).Nodup) {r : UnitRow ℚ} (hr : r ∈ tab) :
    lookupQ tab r.unit = some r := by
  induction tab with
  | nil => simp at hr
  | cons a rest ih =>
    simp only [List.map_cons, List.nodup_cons] at hnd
    simp only [lookupQ]
    rcases List.mem_cons.mp hr with rfl | hr'
    · simp
    · have hne : a.unit ≠ r.unit := by
        intro he
        exact hnd.1 (he ▸ List.mem_map_of_mem hr')
      rw [if_neg hne]
      exact ih hnd.2 hr'

theorem range_map_eq_zipWith (f : String → ℝ → ℝ) (units : List String) (row : List ℝ) (d z : ℝ)
    (h : row.length = units.length) :
    (List.range row.length).map (fun i => if i < units.length then f (units.getD i "") (row.getD i d) else z)
      = List.zipWith f units row := by
  apply List.ext_getElem
  · simp [h]
  · intro i h1 h2
    simp only [List.length_map, List.length_range] at h1
    have hu : i < units.length := h ▸ h1
    simp [hu, h1]

theorem range_map_getD (g : ℝ → ℝ) (row : List ℝ) (d : ℝ) :
    (List.range row.length).map (fun j => g (row.getD j d)) = row.map g := by
  apply List.ext_getElem
  · simp
  · intro i h1 h2
    simp only [List.length_map, List.length_range] at h1
    simp [h1]


/-! ### the chain of `if` blocks as a fold -/

theorem foldl_ite_eq_foldl_filter {β γ : Type} (p : β → Bool) (g : γ → β → γ) (l : List β) (x : γ) :
    l.foldl (fun acc q => if p q then g acc q else acc) x = (l.filter p).foldl g x := by
  induction l generalizing x with
  | nil => rfl
  | cons a l ih =>
    simp only [List.foldl_cons, List.filter_cons]
    split
    · simp only [List.foldl_cons]; exact ih _
    · exact ih _

/-- one rule of the chain applied to a real value, in the affine form of `chemRulesQ` -/
def applyQ (M : ℝ) (acc : ℝ) (q : ChemRuleQ) : ℝ :=
  if q.usesM then (q.a : ℝ) * acc * M + (q.b : ℝ) else (q.a : ℝ) * acc + (q.b : ℝ)

/-- the relation proved between the transcribed rules and their affine reduction (Props.C15.chem_rules_affine) -/
def RuleRel (r : ChemRule ℝ) (q : ChemRuleQ) : Prop :=
  r.pat = q.pat ∧ r.hasAlt = q.hasAlt ∧ r.alt = q.alt ∧ r.out = q.out ∧ ∀ x M : ℝ, r.f x M = applyQ M x q

theorem chemConvert_eq_fold {rules : List (ChemRule ℝ)} {rulesQ : List ChemRuleQ}
    (h : List.Forall₂ RuleRel rules rulesQ) (u : String) (x M : ℝ) :
    chemConvert rules u x M =
      (rulesQ.filter (fun q => ruleMatches q.pat q.hasAlt q.alt u)).foldl (applyQ M) x := by
  rw [← foldl_ite_eq_foldl_filter]
  unfold chemConvert
  induction h generalizing x with
  | nil => rfl
  | cons hr _ ih =>
    obtain ⟨h1, h2, h3, _, h5⟩ := hr
    simp only [List.foldl_cons, h1, h2, h3, h5]
    exact ih _

theorem chemOutUnit_fold_aux {rules : List (ChemRule ℝ)} {rulesQ : List ChemRuleQ}
    (h : List.Forall₂ RuleRel rules rulesQ) (u acc : String) :
    rules.foldl (fun acc r => if ruleMatches r.pat r.hasAlt r.alt u then r.out else acc) acc =
      rulesQ.foldl (fun acc q => if ruleMatches q.pat q.hasAlt q.alt u then q.out else acc) acc := by
  induction h generalizing acc with
  | nil => rfl
  | cons hr _ ih =>
    obtain ⟨h1, h2, h3, h4, _⟩ := hr
    simp only [List.foldl_cons, h1, h2, h3, h4]
    exact ih _

theorem chemOutUnit_eq_fold {rules : List (ChemRule ℝ)} {rulesQ : List ChemRuleQ}
    (h : List.Forall₂ RuleRel rules rulesQ) (u : String) :
    chemOutUnit rules u =
      (rulesQ.filter (fun q => ruleMatches q.pat q.hasAlt q.alt u)).foldl (fun _ q => q.out) u := by
  rw [← foldl_ite_eq_foldl_filter]
  exact chemOutUnit_fold_aux h u u

/-- one block is the documented one: pattern, alternative spelling, new unit, M-dependence and offset as in `Std.chem`,
    factor exactly or to the accuracy of the rounded constant -/
def RuleDocumented (q : ChemRuleQ) : Prop :=
  ∃ s ∈ Std.chem, s.pat = q.pat ∧ q.alt = s.alt ∧ q.hasAlt = (s.alt != "") ∧ q.out = s.out ∧
    q.usesM = s.usesM ∧ q.b = s.b ∧ Std.ratAbs (q.a - s.a) ≤ s.tol * s.a

instance (q : ChemRuleQ) : Decidable (RuleDocumented q) := by unfold RuleDocumented; infer_instance

/-- the FULL statement: every block of the chain is the documented one -/
def ChemChainDocumented : Prop := ∀ q ∈ chemRulesQ, RuleDocumented q

instance : Decidable ChemChainDocumented := by unfold ChemChainDocumented; infer_instance

/-- the block `(L/mol/deg F)` as it stood in the original source: `data * 1.e-3 * (5./9.)` -/
def oldLmolFRule : ChemRuleQ := ⟨"(L/mol/deg F)", false, "", 1 / 1800, 0, false, "(m^3/mol/deg C)"⟩

end TamocV.Lemmas.C15
