/-
  Helper lemmas for C20 / C13: bounds of the EOS-80 secant bulk modulus polynomials on the oceanic box.
-/
import TamocV.Real
import TamocV.Lemmas.Basic
import Mathlib.Tactic.Ring
import Mathlib.Tactic.NormNum
import Mathlib.Tactic.Linarith
import Mathlib.Tactic.Positivity
import Mathlib.Analysis.SpecialFunctions.Pow.Real

namespace TamocV.Lemmas.C20

/-- S^(3/2) ≤ 273 on the oceanic salinity range -/
theorem s32_bound (S : ℝ) (h0 : 0 ≤ S) (h1 : S ≤ 42) : 0 ≤ S ^ ((3.0:ℝ) / 2.0) ∧ S ^ ((3.0:ℝ) / 2.0) ≤ 273 := by
  refine ⟨Real.rpow_nonneg h0 _, ?_⟩
  have hle : S ^ ((3.0:ℝ) / 2.0) ≤ (42:ℝ) ^ ((3.0:ℝ) / 2.0) := Real.rpow_le_rpow h0 h1 (by norm_num)
  have h42 : ((42:ℝ) ^ ((3.0:ℝ) / 2.0)) ^ 2 = 42 ^ 3 := by
    rw [← Real.rpow_natCast, ← Real.rpow_mul (by norm_num)]
    norm_num
  have hpos : 0 ≤ (42:ℝ) ^ ((3.0:ℝ) / 2.0) := Real.rpow_nonneg (by norm_num) _
  have : (42:ℝ) ^ ((3.0:ℝ) / 2.0) ≤ 273 := by
    by_contra hc
    have hc := not_le.mp hc
    have : (273:ℝ)^2 < ((42:ℝ) ^ ((3.0:ℝ) / 2.0))^2 := by nlinarith
    rw [h42] at this
    norm_num at this
  linarith

theorem Kw_lb (t : ℝ) (h1 : -2.15 ≤ t) (h2 : t ≤ 40) :
    19300 ≤ 19652.21 + 148.4206 * t - 2.327105 * t^2 + 0.01360477 * t^3 - 0.00005155288 * t^4 := by
  have a : 0 ≤ t + 2.15 := by linarith
  have b : 0 ≤ 40 - t := by linarith
  nlinarith [mul_nonneg a b, mul_nonneg (mul_nonneg a b) (sq_nonneg t), mul_nonneg (mul_nonneg a b) a,
    mul_nonneg (mul_nonneg a b) b, sq_nonneg (t - 20), sq_nonneg t, mul_nonneg (mul_nonneg a a) (mul_nonneg b b)]

theorem k1_lb (t : ℝ) (h1 : -2.15 ≤ t) (h2 : t ≤ 40) :
    0 ≤ 54.6746 - 0.603459 * t + 0.0109987 * t^2 - 0.00006167 * t^3 := by
  have a : 0 ≤ t + 2.15 := by linarith
  have b : 0 ≤ 40 - t := by linarith
  nlinarith [mul_nonneg a b, mul_nonneg (mul_nonneg a b) a, mul_nonneg (mul_nonneg a b) b, sq_nonneg (t - 20), sq_nonneg t]

theorem k2_lb (t : ℝ) (h1 : -2.15 ≤ t) (h2 : t ≤ 40) :
    -0.12 ≤ 0.07944 + 0.016483 * t - 0.00053009 * t^2 := by
  have a : 0 ≤ t + 2.15 := by linarith
  have b : 0 ≤ 40 - t := by linarith
  nlinarith [mul_nonneg a b]

theorem Aw_lb (t : ℝ) (h1 : -2.15 ≤ t) (h2 : t ≤ 40) :
    3.2 ≤ 3.239908 + 0.00143713 * t + 0.000116092 * t^2 - 0.000000577905 * t^3 := by
  have a : 0 ≤ t + 2.15 := by linarith
  have b : 0 ≤ 40 - t := by linarith
  nlinarith [mul_nonneg a b, mul_nonneg (mul_nonneg a b) a, mul_nonneg (mul_nonneg a b) b, sq_nonneg t]

theorem a1_lb (t : ℝ) (h1 : -2.15 ≤ t) (h2 : t ≤ 40) :
    -0.0008 ≤ 0.0022838 - 0.000010981 * t - 0.0000016078 * t^2 := by
  have a : 0 ≤ t + 2.15 := by linarith
  have b : 0 ≤ 40 - t := by linarith
  nlinarith [mul_nonneg a b]

theorem Bw_lb (t : ℝ) (h1 : -2.15 ≤ t) (h2 : t ≤ 40) :
    -0.00009 ≤ 0.0000850935 - 0.00000612293 * t + 0.000000052787 * t^2 := by
  have a : 0 ≤ t + 2.15 := by linarith
  have b : 0 ≤ 40 - t := by linarith
  nlinarith [mul_nonneg a b, sq_nonneg (t - 40), sq_nonneg t]

theorem b1_lb (t : ℝ) (h1 : -2.15 ≤ t) (h2 : t ≤ 40) :
    -0.0000011 ≤ -0.00000099348 + 0.000000020816 * t + 0.00000000091697 * t^2 := by
  have a : 0 ≤ t + 2.15 := by linarith
  nlinarith [sq_nonneg t, sq_nonneg (t + 2.15)]

theorem K_combine (Kw k1 k2 Aw a1 Bw b1 S s p : ℝ)
    (hKw : 19300 ≤ Kw) (hk1 : 0 ≤ k1) (hk2 : -0.12 ≤ k2) (hAw : 3.2 ≤ Aw) (ha1 : -0.0008 ≤ a1)
    (hBw : -0.00009 ≤ Bw) (hb1 : -0.0000011 ≤ b1)
    (hS0 : 0 ≤ S) (hS1 : S ≤ 42) (hs0 : 0 ≤ s) (hs1 : s ≤ 273) (hp0 : 0 ≤ p) (hp1 : p ≤ 1100) :
    19200 + 3 * p ≤ Kw + S * k1 + s * k2 + p * (Aw + S * a1 + 0.000191075 * s) + p * p * (Bw + S * b1) := by
  have e1 : 0 ≤ S * k1 := mul_nonneg hS0 hk1
  have e2 : -33 ≤ s * k2 := by nlinarith
  have e3 : -0.0336 ≤ S * a1 := by nlinarith
  have e4 : -0.0000462 ≤ S * b1 := by nlinarith
  have e5 : 0 ≤ 0.000191075 * s := by positivity
  have e6 : 3.16 * p ≤ p * (Aw + S * a1 + 0.000191075 * s) := by nlinarith
  have e7 : -0.0001362 * (p * p) ≤ p * p * (Bw + S * b1) := by nlinarith [mul_nonneg hp0 hp0]
  have e8 : p * p ≤ 1100 * p := by nlinarith
  nlinarith

/-- the secant bulk modulus as the code expands it, in grouped form -/
theorem K_lower (t S s p : ℝ) (h1 : -2.15 ≤ t) (h2 : t ≤ 40) (hS0 : 0 ≤ S) (hS1 : S ≤ 42)
    (hs0 : 0 ≤ s) (hs1 : s ≤ 273) (hp0 : 0 ≤ p) (hp1 : p ≤ 1100) :
    19200 + 3 * p ≤
      (19652.21 + 148.4206 * t - 2.327105 * t^2 + 0.01360477 * t^3 - 0.00005155288 * t^4)
      + S * (54.6746 - 0.603459 * t + 0.0109987 * t^2 - 0.00006167 * t^3)
      + s * (0.07944 + 0.016483 * t - 0.00053009 * t^2)
      + p * ((3.239908 + 0.00143713 * t + 0.000116092 * t^2 - 0.000000577905 * t^3)
            + S * (0.0022838 - 0.000010981 * t - 0.0000016078 * t^2) + 0.000191075 * s)
      + p * p * ((0.0000850935 - 0.00000612293 * t + 0.000000052787 * t^2)
            + S * (-0.00000099348 + 0.000000020816 * t + 0.00000000091697 * t^2)) :=
  K_combine _ _ _ _ _ _ _ S s p (Kw_lb t h1 h2) (k1_lb t h1 h2) (k2_lb t h1 h2) (Aw_lb t h1 h2) (a1_lb t h1 h2)
    (Bw_lb t h1 h2) (b1_lb t h1 h2) hS0 hS1 hs0 hs1 hp0 hp1

theorem one_sub_div_ne_zero (p K : ℝ) (h : p < K) (hK : 0 < K) : 1 - p / K ≠ 0 := by
  have : p / K < 1 := by rw [div_lt_one hK]; exact h
  linarith

end TamocV.Lemmas.C20
