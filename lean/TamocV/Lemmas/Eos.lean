/-
  Helper lemmas for the EOS model (C01, C10): `sumN` as a `Finset.range` sum.
-/
import TamocV.Lemmas.Basic
import TamocV.Model.Eos
import Mathlib.Algebra.BigOperators.Group.Finset.Basic
import Mathlib.Algebra.BigOperators.Ring.Finset
import Mathlib.Algebra.BigOperators.Field

namespace TamocV.Lemmas.Eos
open TamocV.Model.Eos Finset

theorem list_range_map_sum (n : ℕ) (f : ℕ → ℝ) :
    ((List.range n).map f).sum = ∑ i ∈ range n, f i := by
  induction n with
  | zero => simp
  | succ n ih => rw [List.range_succ, List.map_append, List.sum_append, ih, Finset.sum_range_succ]; simp

@[simp] theorem sumN_eq (n : ℕ) (f : ℕ → ℝ) : sumN n f = ∑ i ∈ range n, f i := by
  unfold sumN
  rw [Num.real_sum, list_range_map_sum]

end TamocV.Lemmas.Eos
