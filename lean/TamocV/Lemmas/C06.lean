/-
  Helper lemmas for C06 (stratified-plume inner/outer exchange): where the particle block and
  the dissolved block sit in the flat vector `Model.Smp.derivsInner` returns, what the slot
  readers `sumMassSlots / sumHeatSlots / sumHos` find there, and closed forms of the two
  accumulators of the particle loop (`delDiss`, `heatFold`).  All by induction over the particle
  list (any number of particles) and the chemical list (any `n`).
-/
import TamocV.Real
import TamocV.Lemmas.Basic
import TamocV.Model.Smp
import Mathlib.Tactic.Ring
import Mathlib.Tactic.FieldSimp

namespace TamocV.Lemmas.C06
open TamocV.Model.Smp

/-! generic list facts -/

theorem getD_mid (pre mid tl : List ℝ) (j : Nat) (h : j < mid.length) :
    (pre ++ mid ++ tl).getD (pre.length + j) 0 = mid.getD j 0 := by
  simp [List.getD_eq_getElem?_getD, List.getElem?_append_right, List.getElem?_append_left, h]

theorem getD_tail (pre tl : List ℝ) (j : Nat) :
    (pre ++ tl).getD (pre.length + j) 0 = tl.getD j 0 := by
  simp [List.getD_eq_getElem?_getD, List.getElem?_append_right]

theorem getD_map_range (f : Nat → ℝ) (n j : Nat) (h : j < n) :
    ((List.range n).map f).getD j 0 = f j := by
  simp [List.getD_eq_getElem?_getD, h]

theorem foldl_add_map (g : Nat → ℝ) (l : List Nat) (h : ℝ) :
    l.foldl (fun acc j => acc + g j) h = h + (l.map g).sum := by
  induction l generalizing h with
  | nil => simp
  | cons x xs ih => simp [List.foldl, ih, add_assoc]

/-! the particle block of the returned inner vector -/

variable (p : Params ℝ) (n : Nat) (yi : Inner ℝ) (yo : Outer ℝ)

/-- one particle's slots as they appear in the RETURNED vector (negated) -/
noncomputable def negSlots (pt : Particle ℝ) : List ℝ := (partSlots n yi pt).map (fun x => -x)

/-- Σ over soluble particles of the (un-negated) dissolution term of chemical `j` -/
noncomputable def massSum (ps : List (Particle ℝ)) (j : Nat) : ℝ :=
  (ps.map (fun pt => if pt.issoluble then solMass yi pt j else 0)).sum

/-- Σ over particles of the (un-negated) particle heat slot -/
noncomputable def heatSum (ps : List (Particle ℝ)) : ℝ :=
  (ps.map (fun pt => partHeat n yi pt)).sum

/-- heat-of-solution increment of one particle (l.132-134), un-negated -/
noncomputable def hosPart (pt : Particle ℝ) : ℝ :=
  if pt.issoluble then
    ((List.range n).map (fun j => solMass yi pt j * (-1) * pt.neg_dH_solR.getD j 0 * p.Ru / pt.M.getD j 0)).sum
  else 0

noncomputable def hosSum (ps : List (Particle ℝ)) : ℝ := (ps.map (hosPart p n yi)).sum

theorem partMass_length (pt : Particle ℝ) : (partMass n yi pt).length = nMass n pt := by
  unfold partMass nMass; split <;> simp

theorem negSlots_length (pt : Particle ℝ) : (negSlots n yi pt).length = width n pt := by
  simp [negSlots, partSlots, width, partMass_length]

theorem negSlots_mass (pt : Particle ℝ) (hs : pt.issoluble = true) (j : Nat) (hj : j < n) :
    (negSlots n yi pt).getD j 0 = -(solMass yi pt j) := by
  simp [negSlots, partSlots, partMass, hs, List.getD_eq_getElem?_getD, List.getElem?_append_left, hj]

theorem negSlots_heat (pt : Particle ℝ) :
    (negSlots n yi pt).getD (nMass n pt) 0 = -(partHeat n yi pt) := by
  have h := partMass_length n yi pt
  simp [negSlots, partSlots, List.getD_eq_getElem?_getD, h]

theorem derivsInner_eq (ps : List (Particle ℝ)) :
    derivsInner p n yi yo ps =
      [-(innerVol p yi yo), -(innerMom p yi yo), -(innerSalt p yi yo),
        -(heatFold p n yi ps (innerHeat0 p yi yo))]
      ++ ps.flatMap (negSlots n yi)
      ++ (List.range n).map (fun i => -(innerDiss p yi yo (delDiss n yi ps (List.replicate n 0)) i)) := by
  simp [derivsInner, innerYp, List.map_append, List.map_flatMap, Function.comp_def]
  rfl

theorem flatMap_negSlots_length (ps : List (Particle ℝ)) :
    (ps.flatMap (negSlots n yi)).length = (ps.map (width n)).sum := by
  induction ps with
  | nil => simp
  | cons pt ps ih => simp [List.flatMap_cons, negSlots_length, ih]

/-- reading the mass slots of chemical `j` out of a flat vector whose particle block starts at `pre.length` -/
theorem sumMassSlots_flat (ps : List (Particle ℝ)) (pre tl : List ℝ) (j : Nat) (hj : j < n) :
    sumMassSlots n j ps pre.length (pre ++ ps.flatMap (negSlots n yi) ++ tl) = -(massSum yi ps j) := by
  induction ps generalizing pre with
  | nil => simp [sumMassSlots, massSum]
  | cons pt ps ih =>
    have hlen : (pre ++ negSlots n yi pt).length = pre.length + width n pt := by
      simp [negSlots_length]
    have hv : pre ++ (pt :: ps).flatMap (negSlots n yi) ++ tl
        = (pre ++ negSlots n yi pt) ++ ps.flatMap (negSlots n yi) ++ tl := by
      simp [List.flatMap_cons, List.append_assoc]
    have ih' := ih (pre ++ negSlots n yi pt)
    rw [hlen] at ih'
    unfold sumMassSlots
    simp only [Num.real_zero]
    rw [hv, ih']
    simp only [massSum, List.map_cons, List.sum_cons]
    by_cases hs : pt.issoluble = true
    · have hjw : j < (negSlots n yi pt).length := by
        rw [negSlots_length]; simp [width, nMass, hs]; omega
      have := getD_mid pre (negSlots n yi pt) (ps.flatMap (negSlots n yi) ++ tl) j hjw
      rw [← List.append_assoc] at this
      rw [this, negSlots_mass n yi pt hs j hj]
      simp [hs]; ring
    · simp [hs]

theorem sumHeatSlots_flat (ps : List (Particle ℝ)) (pre tl : List ℝ) :
    sumHeatSlots n ps pre.length (pre ++ ps.flatMap (negSlots n yi) ++ tl) = -(heatSum n yi ps) := by
  induction ps generalizing pre with
  | nil => simp [sumHeatSlots, heatSum]
  | cons pt ps ih =>
    have hlen : (pre ++ negSlots n yi pt).length = pre.length + width n pt := by
      simp [negSlots_length]
    have hv : pre ++ (pt :: ps).flatMap (negSlots n yi) ++ tl
        = (pre ++ negSlots n yi pt) ++ ps.flatMap (negSlots n yi) ++ tl := by
      simp [List.flatMap_cons, List.append_assoc]
    have ih' := ih (pre ++ negSlots n yi pt)
    rw [hlen] at ih'
    unfold sumHeatSlots
    simp only [Num.real_zero]
    rw [hv, ih']
    simp only [heatSum, List.map_cons, List.sum_cons]
    have hjw : nMass n pt < (negSlots n yi pt).length := by
      rw [negSlots_length]; simp [width]
    have := getD_mid pre (negSlots n yi pt) (ps.flatMap (negSlots n yi) ++ tl) (nMass n pt) hjw
    rw [← List.append_assoc] at this
    rw [this, negSlots_heat]
    ring

/-- heat of solution read from the RETURNED mass slots: Σ (−m)·ndH·Ru/M = hosSum (which carries the
    code's factor (−1) on the un-negated m) -/
theorem sumHos_flat (ps : List (Particle ℝ)) (pre tl : List ℝ) :
    sumHos p n ps pre.length (pre ++ ps.flatMap (negSlots n yi) ++ tl) = hosSum p n yi ps := by
  induction ps generalizing pre with
  | nil => simp [sumHos, hosSum]
  | cons pt ps ih =>
    have hlen : (pre ++ negSlots n yi pt).length = pre.length + width n pt := by
      simp [negSlots_length]
    have hv : pre ++ (pt :: ps).flatMap (negSlots n yi) ++ tl
        = (pre ++ negSlots n yi pt) ++ ps.flatMap (negSlots n yi) ++ tl := by
      simp [List.flatMap_cons, List.append_assoc]
    have ih' := ih (pre ++ negSlots n yi pt)
    rw [hlen] at ih'
    unfold sumHos
    simp only [Num.real_zero, Num.real_sum]
    rw [hv, ih']
    simp only [hosSum, List.map_cons, List.sum_cons]
    congr 1
    unfold hosPart
    by_cases hs : pt.issoluble = true
    · simp only [hs, if_true]
      congr 1
      apply List.map_congr_left
      intro j hjm
      have hj : j < n := List.mem_range.mp hjm
      have hjw : j < (negSlots n yi pt).length := by
        rw [negSlots_length]; simp [width, nMass, hs]; omega
      have := getD_mid pre (negSlots n yi pt) (ps.flatMap (negSlots n yi) ++ tl) j hjw
      rw [← List.append_assoc] at this
      rw [this, negSlots_mass n yi pt hs j hj]
      ring
    · simp [hs]

theorem dissSlot_flat (ps : List (Particle ℝ)) (hd : List ℝ) (hhd : hd.length = 4) (g : Nat → ℝ)
    (j : Nat) (hj : j < n) :
    (hd ++ ps.flatMap (negSlots n yi) ++ (List.range n).map g).getD (dissIdx n ps + j) 0 = g j := by
  have hl : (hd ++ ps.flatMap (negSlots n yi)).length = dissIdx n ps := by
    rw [List.length_append, flatMap_negSlots_length, hhd, dissIdx]
  rw [← hl, getD_tail, getD_map_range _ _ _ hj]

/-! the two accumulators of the particle loop -/

theorem delDiss_length (ps : List (Particle ℝ)) (d : List ℝ) (hd : d.length = n) :
    (delDiss n yi ps d).length = n := by
  induction ps generalizing d with
  | nil => simpa [delDiss]
  | cons pt ps ih =>
    unfold delDiss
    apply ih
    split
    · simp [Num.vadd, partDiss, *]
    · exact hd

theorem delDiss_getD (ps : List (Particle ℝ)) (d : List ℝ) (hd : d.length = n) (j : Nat) (hj : j < n) :
    (delDiss n yi ps d).getD j 0 = d.getD j 0 + massSum yi ps j := by
  induction ps generalizing d with
  | nil => simp [delDiss, massSum]
  | cons pt ps ih =>
    unfold delDiss
    by_cases hs : pt.issoluble = true
    · have hl : (Num.vadd d (partDiss n yi pt)).length = n := by simp [Num.vadd, partDiss, hs, hd]
      simp only [hs, if_true]
      rw [ih _ hl]
      simp only [massSum, List.map_cons, List.sum_cons, hs, if_true]
      have : (Num.vadd d (partDiss n yi pt)).getD j 0 = d.getD j 0 + solMass yi pt j := by
        simp [Num.vadd, partDiss, hs, List.getD_eq_getElem?_getD, hj, hd]
      rw [this]; ring
    · rw [if_neg hs, ih _ hd]
      simp [massSum, hs]

theorem heatFold_eq (ps : List (Particle ℝ)) (h : ℝ) :
    heatFold p n yi ps h = h + hosSum p n yi ps - heatSum n yi ps := by
  induction ps generalizing h with
  | nil => simp [heatFold, hosSum, heatSum]
  | cons pt ps ih =>
    unfold heatFold
    rw [ih]
    simp only [hosSum, heatSum, List.map_cons, List.sum_cons]
    have : hosAdd p n yi pt h = h + hosPart p n yi pt := by
      unfold hosAdd hosPart
      split
      · rw [foldl_add_map]; simp only [Num.real_one, Num.real_zero]
      · simp
    rw [this]; ring

/-! ### definitional facts about `OuterPlume.update` and the momentum slot

  These restate branches of the model definitions (no property content); the property theorems in
  Props/C06.lean compose them with the exchange identities. -/

/-- branch selection: `Q ≥ 0` gives the ambient record (l.1528-1535) -/
theorem outerUpdate_absent (y : List ℝ) (Ta Sa rho_a : ℝ) (ca : List ℝ) (dens : ℝ → ℝ → ℝ) (bi : ℝ)
    (h : ¬ y.getD 0 0 < 0) :
    outerUpdate p y Ta Sa rho_a ca dens bi = outerAbsent Ta Sa rho_a ca := by
  simp only [outerUpdate, Num.real_zero]
  rw [if_neg h]

/-- the all-zero state `derivs_inner` substitutes above the top of the outer plume (l.89) has `Q ≥ 0` -/
theorem outerUpdate_zeros (k : Nat) (Ta Sa rho_a : ℝ) (ca : List ℝ) (dens : ℝ → ℝ → ℝ) (bi : ℝ) :
    outerUpdate p (List.replicate k 0) Ta Sa rho_a ca dens bi = outerAbsent Ta Sa rho_a ca := by
  apply outerUpdate_absent
  cases k <;> simp [List.replicate]

/-- branch selection: `Q < 0` gives the derived quantities of l.1522-1527 -/
theorem outerUpdate_present (y : List ℝ) (Ta Sa rho_a : ℝ) (ca : List ℝ) (dens : ℝ → ℝ → ℝ) (bi : ℝ)
    (h : y.getD 0 0 < 0) :
    (outerUpdate p y Ta Sa rho_a ca dens bi).u = y.getD 1 0 / y.getD 0 0 ∧
    (outerUpdate p y Ta Sa rho_a ca dens bi).b
      = Real.sqrt (y.getD 0 0 ^ 2 / (pi * y.getD 1 0) + bi ^ 2) ∧
    (outerUpdate p y Ta Sa rho_a ca dens bi).s = y.getD 2 0 / y.getD 0 0 ∧
    (outerUpdate p y Ta Sa rho_a ca dens bi).T = y.getD 3 0 / (p.rho_r * p.cp * y.getD 0 0) ∧
    (outerUpdate p y Ta Sa rho_a ca dens bi).Sa = Sa ∧
    (outerUpdate p y Ta Sa rho_a ca dens bi).Ta = Ta ∧
    (outerUpdate p y Ta Sa rho_a ca dens bi).ca = ca := by
  simp only [outerUpdate, Num.real_zero]
  rw [if_pos h]
  simp

theorem ambEntr_absent (Ta Sa rho_a : ℝ) (ca : List ℝ) : ambEntr p (outerAbsent Ta Sa rho_a ca) = 0 := by
  simp [ambEntr, outerAbsent]

/-- outside the property (it makes no claim about momentum): weighted by the momentum amplification
    factors the exchanged momentum cancels and only the two buoyancy terms remain -/
theorem momentum_exchange (ps : List (Particle ℝ)) (hi : p.gamma_i ≠ 0) (ho : p.gamma_o ≠ 0) :
    p.gamma_i * (derivsInner p n yi yo ps).getD 1 0 + p.gamma_o * (derivsOuter p n yi yo).getD 1 0
    = -(pi * p.g * yi.b ^ 2 / p.rho_r
          * (yi.Fb + p.lambda_2 ^ 2 * (1 - yi.Xi) * (yi.rho_a - yi.rho)))
      - pi * p.g * (yo.b ^ 2 - yi.b ^ 2) / p.rho_r * (yo.rho_a - yo.rho) := by
  rw [derivsInner_eq]
  simp only [derivsOuter, List.cons_append, List.getD_cons_zero, List.getD_cons_succ, innerMom,
    outerMom, Num.real_npow, Num.real_one]
  field_simp
  ring

end TamocV.Lemmas.C06
